(* C10, fourth adequacy pass (round-seven seed C10-7).

   Seeded change C10-7: `gzip::uncompress` (src/compression/gzip.rs) reads the inflated data through
   `Read::take(8 MiB)`; the inner message set of a gzip batch that inflates to more than 8 388 608 bytes is cut
   there, `MessageSet::from_slice` takes the cut for the usual partial tail and `fetch_messages` returns Ok with
   the later messages missing.

   Where the change lives in the model.  `gzip::uncompress` is the ORACLE `gz_decompress cz` of Model/Requests.v
   ("compression is external code: an explicit oracle"; the harness fills its table with Python's gzip, not with
   the crate's function).  Read strictly, the change is inside the oracle - like C02-5, the short-read loop in the
   same function - and falsifies the hypothesis `codec_ok cz comp` (clause `gz_decompress cz (comp 1 x) = Some x`
   for |x| > 8 MiB), not a theorem.  But the `take` and its constant are the crate's own code AROUND flate2, and a
   translator that follows the constant (as it does for MAX_COMPRESSION_DEPTH) mirrors it in `Responses.from_slice`:
       match option_map (firstn (Z.to_nat MAX_UNCOMPRESSED_LEN)) (gz_decompress cz v) with ...
   MUTATION CHECK (scratch copy /tmp/pw/C10/mut7, the real model untouched) with exactly that change (and the same
   in Model/Ownership.v): Proofs/C10Facts, C10Extra, C10ExtraB recompile unchanged; Proofs/C02Lemmas stops at
   `from_slice_S` (a definitional mirror, which alone proves nothing), so C10ExtraC cannot be rebuilt.  Therefore
   the NEGATION of the statement of C10_last_message_in_batch_kept (copied verbatim from Props/C10.v) was proved on
   the mutated model (mut7/theories/Proofs/M7Neg.v, closed under the global context): witness comp = wcomp,
   cz = wcz false, the batch `Wrapper 1 7 [Plain 7 None (Some big)]`, |big| = 8 388 608 - the mutated from_slice
   returns `Ok []`, the theorem demands the message.  No computation on the 8 MiB value is needed: the proof uses
   only its length.  The same witness falsifies C10_message_set_delivered, C10_fetch_content_decode,
   C10_fetch_one_content and C10_fetch_exchange_content (all quantify over every well-formed batch, of any size).
   So under the mirrored reading the seed IS covered by the third-pass theorems.

   New here, section 1: the size dimension made explicit on the UNCHANGED model.
   - C10_gzip_batch_all_delivered: a leading gzip/snappy batch of plain messages, whatever its inflated size and
     whatever follows it, is decoded to ALL its messages at or above the requested offset.
   - C10_gzip_batch_beyond_8mib: the mutation witness itself - its hypotheses hold (the well-formedness
     predicates do not secretly bound the inflated size below 8 MiB) and the unchanged model returns the message.
     This is the statement whose negation is proved in mut7.

   Section 2: the whole public call with SEVERAL brokers and content ("results from several brokers are all
   included"; listed as not done in C10ExtraC).
   - fc_rounds: the stream of a fetch call, round by round - for each (host, partitions) pair the request frame
     is written and one frame with the printed content of that broker's answer is delivered.
   - C10_fetch_rounds_content: then the rounds are `fexchanges` with results `fc_view` of each broker's content,
     in the order asked, the script is consumed up to the tail and nothing but script/trace changes.
   - C10_fetch_messages_brokers_content: `fetch_messages` itself returns exactly these views.

   Not done / not proved:
   - the converse under the oracle reading ("all messages of a gzip batch are returned only if the oracle handed
     back the whole inner set"): C02_gzip_short_read_effect (Props/C02.v) gives the exact result for an oracle that
     returns a prefix; the corollary "a strictly shorter prefix loses the last message" is not stated here.
   - connections that have to be opened within the call and short reads (hypotheses of C10_fetch_one_content).
   All statements are about the unchanged model. *)
From Coq Require Import ZifyBool.
From KV Require Import Base.Prelude Base.Crc32 Base.Snappy Gen.ErrorCodes Gen.Consts
                       Model.Codecs Model.Requests Model.Responses
                       Model.ClientState Model.Net Model.Client
                       Spec.MsgSetSpec Spec.RespGrammar
                       Proofs.BytesFacts Proofs.C10Facts Proofs.C02Lemmas Proofs.C02Facts Proofs.C02Extra.
From KV Require Proofs.C02ExtraB Proofs.C10Extra.
From KV Require Import Proofs.C10ExtraC.

(* ================================================================================== *)
(* 1. a batch of any inflated size                                                    *)
(* ================================================================================== *)
Theorem C10_gzip_batch_all_delivered : forall comp cz d validate req c boff inner rest,
  codec_ok cz comp -> all_plain inner -> wf_entries comp (Wrapper c boff inner :: rest) ->
  from_slice cz (S (S d)) validate req (ser comp (Wrapper c boff inner :: rest))
  = Ok (map msg_of (filter (fun x => req <=? fst (fst x)) (flatten inner))).
Proof.
  intros comp cz d validate req c boff inner rest Hc Hp Hw.
  pose proof (C10_message_set_delivered comp cz d validate req (Wrapper c boff inner :: rest)
                (length (ser comp (Wrapper c boff inner :: rest))) Hc
                (or_intror (ex_intro _ c (ex_intro _ boff (ex_intro _ inner (ex_intro _ rest (conj eq_refl Hp))))))
                Hw) as H.
  rewrite firstn_all in H. rewrite H.
  rewrite C10_delivered_batch by (rewrite ser_cons, app_length; lia).
  reflexivity.
Qed.

Lemma wcomp_gzip x : wcomp 1 x = x.
Proof. reflexivity. Qed.

(* the witness of the mutation check: one message with a value of 8 MiB inside a gzip batch; only the LENGTH of
   the value is used, nothing is computed on it *)
Section Big.
  Variable big : bytes.
  Hypothesis Hbig : Z.of_nat (length big) = 8388608.

  Lemma big_plain_wf : wf_entry wcomp (Plain 7 None (Some big)).
  Proof.
    cbn [wf_entry]. split; [unfold in_i64; lia|].
    unfold msg_fits, blen, i32_max. cbn [view_opt length]. lia.
  Qed.

  Lemma big_inner_len : length (ser wcomp [Plain 7 None (Some big)]) = (26 + length big)%nat.
  Proof.
    rewrite ser_cons, app_length, ser_entry_plain, ser_message_length.
    cbn [view_opt length ser flat_map]. lia.
  Qed.

  Lemma big_batch_hyps :
    codec_ok (wcz true) wcomp /\ all_plain [Plain 7 None (Some big)]
    /\ wf_entries wcomp [Wrapper 1 7 [Plain 7 None (Some big)]]
    /\ 8388608 < blen (ser wcomp [Plain 7 None (Some big)]).
  Proof.
    split; [apply wcomp_codec_ok|]. split; [plain_tac|]. split.
    - constructor; [|constructor]. apply wf_entry_wrapper.
      split; [left; reflexivity|]. split; [unfold in_i64; lia|]. split.
      + unfold msg_fits, blen, i32_max. cbn [view_opt length]. rewrite wcomp_gzip, big_inner_len. lia.
      + split; [intros H; discriminate H|]. constructor; [apply big_plain_wf|constructor].
    - unfold blen. rewrite big_inner_len. lia.
  Qed.

  Lemma big_batch_decoded validate :
    from_slice (wcz true) 2 validate 0 (ser wcomp [Wrapper 1 7 [Plain 7 None (Some big)]])
    = Ok [ {| m_offset := 7; m_key := []; m_value := big |} ].
  Proof.
    destruct big_batch_hyps as [Hc [Hp [Hw _]]].
    rewrite (C10_gzip_batch_all_delivered wcomp (wcz true) 0 validate 0 1 7 _ [] Hc Hp Hw).
    reflexivity.
  Qed.
End Big.

Theorem C10_gzip_batch_beyond_8mib : forall validate,
  let big := repeat x00 (Z.to_nat 8388608) in
  (codec_ok (wcz true) wcomp /\ all_plain [Plain 7 None (Some big)]
   /\ wf_entries wcomp [Wrapper 1 7 [Plain 7 None (Some big)]]
   /\ 8388608 < blen (ser wcomp [Plain 7 None (Some big)]))
  /\ from_slice (wcz true) 2 validate 0 (ser wcomp [Wrapper 1 7 [Plain 7 None (Some big)]])
     = Ok [ {| m_offset := 7; m_key := []; m_value := big |} ].
Proof.
  intros validate big.
  assert (Hb : Z.of_nat (length big) = 8388608) by (unfold big; rewrite repeat_length; lia).
  split; [apply big_batch_hyps; exact Hb|apply big_batch_decoded; exact Hb].
Qed.

(* non-vacuity of C10_gzip_batch_all_delivered on a small batch followed by a plain message, by computation *)
Example C10_gzip_batch_all_delivered_ex :
  wf_entries wcomp [Wrapper 1 21 (log_p1 ++ [Plain 21 None (Some [])]); Plain 22 None (Some [x7a])]
  /\ from_slice (wcz true) 2 true 21
       (ser wcomp [Wrapper 1 21 (log_p1 ++ [Plain 21 None (Some [])]); Plain 22 None (Some [x7a])])
     = Ok [ {| m_offset := 21; m_key := []; m_value := [] |} ].
Proof. split; [wf_tac|vm_compute; reflexivity]. Qed.

(* ================================================================================== *)
(* 2. fetch_messages over several brokers, with content                               *)
(* ================================================================================== *)
(* what the stream does in one round: takes the request frame in one write, then delivers one frame *)
Definition fc_round_script (p payload : bytes) : list ev_out :=
  OWrote (ulen (frame p)) :: OData (p_i32 (ulen payload))
  :: map OData (C02ExtraB.chunk_list (length payload) payload).

(* the stream of a whole call, relative to the state s0 the rounds start from (client, order hints) *)
Inductive fc_rounds (comp : Z -> bytes -> bytes) (corr : Z) (s0 : st)
  : list (bytes * fetch_tps) -> list (w_topics_resp fc_part) -> list ev_out -> list ev_out -> Prop :=
| fcr_nil tail : fc_rounds comp corr s0 [] [] tail tail
| fcr_cons h tps reqs p r rs extra sc tail :
    in_pool h (conns (cl s0)) = true ->
    enc_fetch_req corr (client_id (cfg (cl s0))) (fetch_max_wait_time (cfg (cl s0))) (fetch_min_bytes (cfg (cl s0)))
                  (match assoc_bytes h (fetchq s0) with Some o => order_fetch o tps | None => tps end) = Ok p ->
    ulen (print_fetch (fc_wire_resp comp r) ++ extra) <= i32_max ->
    wf_fetch (fc_wire_resp comp r) ->
    (forall t q, In t (view_list (wr_topics r)) -> In q (view_list (wt_partitions t)) ->
       simple_log (fc_log q) /\ wf_entries comp (fc_log q)) ->
    fc_rounds comp corr s0 reqs rs sc tail ->
    fc_rounds comp corr s0 ((h, tps) :: reqs) (r :: rs)
              (fc_round_script p (print_fetch (fc_wire_resp comp r) ++ extra) ++ sc) tail.

(* what the call has to return: each broker's content, seen through the offsets asked of THAT broker *)
Fixpoint fc_views (comp : Z -> bytes -> bytes) (reqs : list (bytes * fetch_tps)) (rs : list (w_topics_resp fc_part))
  : list fetch_resp :=
  match reqs, rs with
  | (_, tps) :: reqs', r :: rs' => fc_view comp tps r :: fc_views comp reqs' rs'
  | _, _ => []
  end.

Theorem C10_fetch_rounds_content : forall comp corr s0 reqs rs sc tail,
  fc_rounds comp corr s0 reqs rs sc tail ->
  idle_expired (cfg (cl s0)) = false -> codec_ok (env s0) comp ->
  forall s, C02ExtraB.only_io s0 s -> script s = sc ->
  exists s', C10Extra.fexchanges corr reqs s (fc_views comp reqs rs) s'
             /\ script s' = tail /\ C02ExtraB.only_io s0 s'.
Proof.
  intros comp corr s0 reqs rs sc tail HR Hidle Hc.
  induction HR as [tail|h tps reqs p r rs extra sc tail Hpool Henc Hmax Hwf Hlogs HR IH]; intros s Hio Hs.
  - exists s. split; [apply C10Extra.fexch_nil|]. split; assumption.
  - pose proof Hio as Hio'. destruct Hio' as [_ [_ [Hfq [_ [Hcl Henv]]]]].
    assert (Hs' : script s = OWrote (ulen (frame p))
                    :: OData (p_i32 (ulen (print_fetch (fc_wire_resp comp r) ++ extra)))
                    :: map OData (C02ExtraB.chunk_list (length (print_fetch (fc_wire_resp comp r) ++ extra))
                                                       (print_fetch (fc_wire_resp comp r) ++ extra)) ++ sc)
      by (rewrite Hs; reflexivity).
    destruct (C10_fetch_one_content comp corr h tps s p r extra sc) as [s1 [F1 [F2 F3]]].
    + rewrite Hcl. exact Hpool.
    + rewrite Hcl. exact Hidle.
    + rewrite Hcl, Hfq. exact Henc.
    + exact Hmax.
    + exact Hs'.
    + rewrite Henv. exact Hc.
    + exact Hwf.
    + exact Hlogs.
    + destruct (IH s1 (C02ExtraB.only_io_trans _ _ _ Hio F3) F2) as [s' [E1 [E2 E3]]].
      exists s'. split; [|split; assumption].
      cbn [fc_views]. eapply C10Extra.fexch_cons; eassumption.
Qed.

(* the public call *)
Theorem C10_fetch_messages_brokers_content : forall comp input s corr s0 reqs s1 rs tail,
  next_corr s = (Ok corr, s0) ->
  ordered (fetch_reqs (cl s0) input) s0 = (Ok reqs, s1) ->
  idle_expired (cfg (cl s1)) = false -> codec_ok (env s1) comp ->
  fc_rounds comp corr s1 reqs rs (script s1) tail ->
  exists s', fetch_messages input s = (Ok (fc_views comp reqs rs), s')
             /\ script s' = tail /\ C02ExtraB.only_io s1 s'.
Proof.
  intros comp input s corr s0 reqs s1 rs tail Hn Ho Hidle Hc HR.
  destruct (C10_fetch_rounds_content comp corr s1 reqs rs (script s1) tail HR Hidle Hc s1
              (C02ExtraB.only_io_refl s1) eq_refl) as [s' [E1 [E2 E3]]].
  exists s'. split; [|split; assumption].
  apply (C10Extra.C10_fetch_messages_all input s corr s0 reqs s1 _ s' Hn Ho E1).
Qed.

(* ---- non-vacuity: topic "t", partition 0 led by b1 (a gzip batch and a plain message behind it), partition 1
   led by b2 (two plain messages, asked from offset 31); both connections pooled; one byte of a later frame
   follows in the stream ------------------------------------------------------------------------------------- *)
Definition e2_h1 : bytes := tag "b1:9092".
Definition e2_h2 : bytes := tag "b2:9092".
Definition e2_cs : cstate :=
  {| correlation := 0; brokers := [ {| b_node := 1; b_host := e2_h1 |}; {| b_node := 2; b_host := e2_h2 |} ];
     topic_partitions := [ ([x74], [0; 1]) ]; group_coordinators := [] |}.
Definition e2_client : client := {| cfg := default_config []; cs := e2_cs; conns := [e2_h1; e2_h2] |}.
Definition e2_input : list fetch_partition :=
  [ {| fq_topic := [x74]; fq_partition := 0; fq_offset := 0; fq_max_bytes := 0 |};
    {| fq_topic := [x74]; fq_partition := 1; fq_offset := 31; fq_max_bytes := 500 |} ].
Definition e2_reqs : list (bytes * fetch_tps) :=
  [ (e2_h1, [([x74], [(0, (0, fetch_max_bytes_per_partition (cfg e2_client)))])]);
    (e2_h2, [([x74], [(1, (31, 500))])]) ].
Definition e2_r1 : w_topics_resp fc_part :=
  {| wr_corr := 1;
     wr_topics := Some [ {| wt_name := Some [x74];
        wt_partitions := Some [ {| fc_partition := 0; fc_error := 0; fc_highwater := 400;
             fc_log := [Wrapper 1 41 [Plain 40 (Some [x6b]) None; Plain 41 None None]; Plain 42 None (Some [x7a])];
             fc_cut := 1000 |} ] |} ] |}.
Definition e2_r2 : w_topics_resp fc_part :=
  {| wr_corr := 1;
     wr_topics := Some [ {| wt_name := Some [x74];
        wt_partitions := Some [ {| fc_partition := 1; fc_error := 0; fc_highwater := 33;
             fc_log := [Plain 30 None (Some [x61]); Plain 31 (Some [x6b]) (Some [x62]); Plain 32 None None];
             fc_cut := 1000 |} ] |} ] |}.
Definition e2_p (i : nat) : bytes :=
  match enc_fetch_req 1 [] (fetch_max_wait_time (cfg e2_client)) (fetch_min_bytes (cfg e2_client))
                      (snd (nth i e2_reqs ([], []))) with Ok p => p | _ => [] end.
Definition e2_st : st :=
  {| script := fc_round_script (e2_p 0) (print_fetch (fc_wire_resp wcomp e2_r1) ++ [])
               ++ fc_round_script (e2_p 1) (print_fetch (fc_wire_resp wcomp e2_r2) ++ [x00; x01])
               ++ [OData [x09]];
     trace := []; anyq := []; hostq := []; fetchq := []; entryq := [];
     cl := e2_client; env := wcz true |}.
Definition e2_s1 : st := snd (next_corr e2_st).

Example e2_wf1 : wf_fetch (fc_wire_resp wcomp e2_r1).
Proof. unfold wf_fetch, wf_topics_resp, e2_r1, fc_wire_resp, fc_wire_topic, wf_array, wf_topic, wf_fetch_part,
         wf_string, wf_array, in_i16, in_i32, in_i64; cbn [wr_corr wr_topics option_map map]. wf_compute. Qed.
Example e2_wf2 : wf_fetch (fc_wire_resp wcomp e2_r2).
Proof. unfold wf_fetch, wf_topics_resp, e2_r2, fc_wire_resp, fc_wire_topic, wf_array, wf_topic, wf_fetch_part,
         wf_string, wf_array, in_i16, in_i32, in_i64; cbn [wr_corr wr_topics option_map map]. wf_compute. Qed.
Example e2_logs1 : forall t q, In t (view_list (wr_topics e2_r1)) -> In q (view_list (wt_partitions t)) ->
  simple_log (fc_log q) /\ wf_entries wcomp (fc_log q).
Proof.
  intros t q Ht Hq. cbn [e2_r1 wr_topics view_list In] in Ht.
  destruct Ht as [<-|[]]; cbn [wt_partitions view_list In] in Hq. destruct Hq as [<-|[]]; cbn [fc_log].
  split; [right; do 4 eexists; split; [reflexivity|plain_tac]|wf_tac].
Qed.
Example e2_logs2 : forall t q, In t (view_list (wr_topics e2_r2)) -> In q (view_list (wt_partitions t)) ->
  simple_log (fc_log q) /\ wf_entries wcomp (fc_log q).
Proof.
  intros t q Ht Hq. cbn [e2_r2 wr_topics view_list In] in Ht.
  destruct Ht as [<-|[]]; cbn [wt_partitions view_list In] in Hq. destruct Hq as [<-|[]]; cbn [fc_log].
  split; [left; plain_tac|wf_tac].
Qed.

Example C10_fetch_messages_brokers_content_hyps :
  next_corr e2_st = (Ok 1, e2_s1)
  /\ ordered (fetch_reqs (cl e2_s1) e2_input) e2_s1 = (Ok e2_reqs, e2_s1)
  /\ idle_expired (cfg (cl e2_s1)) = false /\ codec_ok (env e2_s1) wcomp
  /\ fc_rounds wcomp 1 e2_s1 e2_reqs [e2_r1; e2_r2] (script e2_s1) [OData [x09]].
Proof.
  split; [vm_compute; reflexivity|]. split; [vm_compute; reflexivity|].
  split; [vm_compute; reflexivity|]. split; [apply wcomp_codec_ok|].
  change (script e2_s1) with
    (fc_round_script (e2_p 0) (print_fetch (fc_wire_resp wcomp e2_r1) ++ [])
     ++ (fc_round_script (e2_p 1) (print_fetch (fc_wire_resp wcomp e2_r2) ++ [x00; x01]) ++ [OData [x09]])).
  pose proof e2_wf1 as W1. pose proof e2_logs1 as L1. pose proof e2_wf2 as W2. pose proof e2_logs2 as L2.
  apply fcr_cons; [vm_compute; reflexivity|vm_compute; reflexivity|vm_compute; discriminate|exact W1|exact L1|].
  apply fcr_cons; [vm_compute; reflexivity|vm_compute; reflexivity|vm_compute; discriminate|exact W2|exact L2|].
  apply fcr_nil.
Qed.

(* the call on that stream: b1's batch (the plain message behind it is not reached: finding F13) and b2's
   messages from offset 31 on, one response per broker, in the order asked *)
Example C10_fetch_messages_brokers_content_ex :
  fst (fetch_messages e2_input e2_st)
  = Ok [ {| fr_corr := 1; fr_topics := [ {| ft_topic := [x74]; ft_partitions :=
             [ {| fp_partition := 0;
                  fp_data := inl (400, [ {| m_offset := 40; m_key := [x6b]; m_value := [] |};
                                         {| m_offset := 41; m_key := []; m_value := [] |} ]) |} ] |} ] |};
         {| fr_corr := 1; fr_topics := [ {| ft_topic := [x74]; ft_partitions :=
             [ {| fp_partition := 1;
                  fp_data := inl (33, [ {| m_offset := 31; m_key := [x6b]; m_value := [x62] |};
                                        {| m_offset := 32; m_key := []; m_value := [] |} ]) |} ] |} ] |} ]
  /\ fst (fetch_messages e2_input e2_st) = Ok (fc_views wcomp e2_reqs [e2_r1; e2_r2])
  /\ script (snd (fetch_messages e2_input e2_st)) = [OData [x09]].
Proof. vm_compute. repeat split. Qed.

Check C10_gzip_batch_all_delivered.
Check C10_gzip_batch_beyond_8mib.
Check C10_fetch_rounds_content.
Check C10_fetch_messages_brokers_content.

Print Assumptions C10_gzip_batch_all_delivered.
Print Assumptions C10_gzip_batch_beyond_8mib.
Print Assumptions C10_fetch_rounds_content.
Print Assumptions C10_fetch_messages_brokers_content.
