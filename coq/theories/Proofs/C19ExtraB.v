(* C19, second adequacy pass.

   Seed C19-4 (determine_partitions looks up only the highest explicitly assigned id) is covered
   already: the mirrored change of Model.Consumer.determine_partitions makes the third clause of
   C19_determine false (req = [-1; 1] on a 3-partition topic resolves to Ok), and with it
   C19_determine_out_of_range, C19_create_unknown and the "every explicit id exists" clause of
   C19_create_exact.  Nothing was needed for the seed; this file adds what was still missing with
   respect to the text of the property:

   1. subscriptions() stated against the consumed set itself (membership, not only "the keys of
      the fetch states");
   2. "querying a pair it does not consume returns nothing": true under the invariant "every mark
      belongs to a fetch state", which every operation keeps and which holds at creation of a
      group-less consumer (the first pass only had the refutation for loaded group offsets);
   3. a statement over HISTORIES of calls (seek / consume_message / poll / commit_consumed in any
      order, any number, any broker answers): the consumed set, subscriptions(), the fetch input,
      the success of seek / consume_message, the commit contents and the queries are, after any
      history, exactly those of (assignment map x metadata loaded at creation);
   4. completeness of the per-broker FetchRequests: every consumed pair with a known leader is
      named in the request to that leader (the first pass had "only consumed pairs are named");
   5. the group-offset request of creation: fetch_group_offsets is called with a duplicate-free
      list that names exactly the consumed pairs;
   6. the forward direction of creation: if every assigned topic and explicit id exists,
      resolution succeeds with the expected subscription list and creation continues with the
      offset loading (together with C19_create_unknown: creation fails at resolution iff a
      topic / id does not exist). *)
From KV Require Import Base.Prelude Gen.ErrorCodes Gen.Consts Model.Codecs Model.Requests Model.Responses
                       Model.ClientState Model.Net Model.Client Model.Consumer.
From KV Require Import Proofs.BytesFacts Proofs.C07Facts Proofs.C19Facts Proofs.C08Facts Proofs.C16Facts
                       Proofs.C19Extra.
From KV Require Proofs.C07Extra.
From Coq Require Import ZifyBool Sorted Permutation.
Ltac Zify.zify_post_hook ::= Z.div_mod_to_equations.

(* ================================================================================== *)
(* 1. subscriptions() lists exactly the consumed set                                  *)
(* ================================================================================== *)

Theorem C19_subscriptions_assigned : forall k,
  C19_inv k ->
  forall t p, In (t, p) (flat_tps (subscriptions k)) <-> assigned k t p.
Proof.
  intros k Hinv t p. destruct (C19_subscriptions k) as [Hperm _]. split.
  - intros Hin. apply (Permutation_in _ Hperm) in Hin. apply in_map_iff in Hin.
    destruct Hin as ([[r q] v] & He & Hin). unfold fetch_key_name in He. cbn [fst snd] in He.
    inversion He; subst t p. apply (inv_key_assigned k r q Hinv). apply tk_get_in. eauto.
  - intros (r & Hr & Hg). apply tk_get_in in Hg. destruct Hg as (v & Hin).
    apply (Permutation_in _ (Permutation_sym Hperm)). apply in_map_iff. exists ((r, p), v).
    split; [|exact Hin]. unfold fetch_key_name. cbn [fst snd]. f_equal.
    unfold topic_name. destruct (topic_ref_some _ _ _ Hr) as (w & Hw). rewrite Hw. reflexivity.
Qed.

Example C19_subscriptions_assigned_ex :
  flat_tps (subscriptions ex_consumer) = [(tag "a", 0); (tag "a", 1); (tag "b", 0)]
  /\ assigned ex_consumer (tag "a") 1.
Proof.
  split; [vm_compute; reflexivity|]. exists 0. split; [vm_compute; reflexivity|vm_compute; discriminate].
Qed.

(* ================================================================================== *)
(* 2. querying a pair that is not consumed returns nothing                            *)
(* ================================================================================== *)

(* every mark (loaded or made by consume_message) belongs to a fetch state *)
Definition C19_marks_inv (k : consumer) : Prop :=
  forall key, tk_get key (k_consumed k) <> None -> tk_get key (k_fetch k) <> None.

Theorem C19_query_foreign_none : forall k t p,
  C19_marks_inv k -> ~ assigned k t p -> last_consumed_message k t p = None.
Proof.
  intros k t p Hm Hn. unfold last_consumed_message.
  destruct (topic_ref (k_assign k) t) as [r|] eqn:Er; [|reflexivity].
  destruct (tk_get (r, p) (k_consumed k)) as [v|] eqn:Eg; [|reflexivity].
  exfalso. apply Hn. exists r. split; [exact Er|]. apply Hm. rewrite Eg. discriminate.
Qed.

(* the contrapositive: an answered query names a consumed pair *)
Corollary C19_query_some_assigned : forall k t p o,
  C19_marks_inv k -> last_consumed_message k t p = Some o -> assigned k t p.
Proof.
  intros k t p o Hm H. unfold last_consumed_message in H.
  destruct (topic_ref (k_assign k) t) as [r|] eqn:Er; [|discriminate].
  exists r. split; [exact Er|]. apply Hm. destruct (tk_get (r, p) (k_consumed k)); [discriminate|discriminate].
Qed.

Lemma tk_set_keys {V} (key0 : tpkey) (v0 : V) m key :
  tk_get key (tk_set key0 v0 m) <> None -> key = key0 \/ tk_get key m <> None.
Proof.
  intros H. destruct (tpkey_eq_dec key key0) as [E|E]; [left; exact E|right].
  rewrite tk_get_set_other in H by exact E. exact H.
Qed.

Lemma tk_get_clean_keys key : forall (m : list (tpkey * (Z * bool))),
  tk_get key (map (fun '(key, (o, _)) => (key, (o, false))) m) <> None <-> tk_get key m <> None.
Proof.
  induction m as [|[k1 [o1 d1]] m IH]; cbn [map tk_get]; [reflexivity|].
  destruct (tpkey_eqb k1 key); [split; intros _; discriminate|exact IH].
Qed.

Theorem C19_marks_seek : forall k t p off k',
  C19_marks_inv k -> consumer_seek k t p off = Ok k' -> C19_marks_inv k'.
Proof.
  intros k t p off k' Hm H. apply C19_seek_assigned in H.
  destruct H as (r & old & maxb & _ & Hold & Hnew & Hoth & Hc & _).
  intros key Hk. rewrite Hc in Hk. specialize (Hm key Hk).
  destruct (tpkey_eq_dec key (r, p)) as [E|E]; [subst key; rewrite Hnew; discriminate|].
  rewrite (Hoth key E). exact Hm.
Qed.

Theorem C19_marks_consume : forall k t p off k',
  C19_marks_inv k -> consume_message k t p off = Ok k' -> C19_marks_inv k'.
Proof.
  intros k t p off k' Hm H.
  destruct (C19_consume_assigned _ _ _ _ _ H) as (r & Hr & Hg & _ & Hf & _).
  destruct (consume_spec _ _ _ _ _ H) as (r' & Hr' & _ & _ & Hkey).
  rewrite Hr in Hr'. inversion Hr'; subst r'.
  assert (Hset : k_consumed k' = tk_set (r, p) (off, true) (k_consumed k) -> C19_marks_inv k').
  { intros E key Hk. rewrite E in Hk. rewrite Hf. apply tk_set_keys in Hk.
    destruct Hk as [Ek|Hk]; [subst key; exact Hg|apply Hm; exact Hk]. }
  destruct (tk_get (r, p) (k_consumed k)) as [[o0 d0]|]; [|exact (Hset Hkey)].
  destruct (o0 <? off); [exact (Hset Hkey)|]. subst k'. exact Hm.
Qed.

Theorem C19_marks_poll : forall k s r k' s',
  C19_marks_inv k -> consumer_poll k s = (Ok (r, k'), s') -> C19_marks_inv k'.
Proof.
  intros k s r k' s' Hm H.
  destruct (C19_consumer_poll_keeps_set _ _ _ _ _ H) as ((_ & Hk & _) & Hc & _).
  intros key Hkey. rewrite Hc in Hkey. apply Hk. apply Hm. exact Hkey.
Qed.

Theorem C19_marks_commit : forall k s k' s',
  C19_marks_inv k -> commit_consumed k s = (Ok k', s') -> C19_marks_inv k'.
Proof.
  intros k s k' s' Hm H. destruct (commit_consumed_ok _ _ _ _ H) as (Hc & Hf & _).
  intros key Hkey. rewrite Hc in Hkey. apply (proj1 (tk_get_clean_keys key _)) in Hkey. rewrite Hf. apply Hm. exact Hkey.
Qed.

(* a group-less consumer starts without marks *)
Theorem C19_create_groupless_marks : forall src calls s k s',
  consumer_create src calls s = (Ok k, s') ->
  cb_group (fold_left cbuilder_apply calls (cbuilder_new src)) = [] ->
  k_consumed k = [] /\ C19_marks_inv k.
Proof.
  intros src calls s k s' H Hg.
  destruct (C19_create_exact _ _ _ _ _ H) as (wait & s1 & subs & s2 & s3 & _ & _ & _ & _ & _ & _ & Hcons & _).
  rewrite Hg in Hcons. unfold load_consumed_offsets, ret in Hcons. inversion Hcons as [[Hc Hs]].
  split; [reflexivity|]. intros key Hk. rewrite <- Hc in Hk. cbn [tk_get] in Hk. congruence.
Qed.

(* ex_consumer of C19Facts has its single mark (a:1) inside the set; b:1 and c:0 are not consumed *)
Example C19_marks_inv_ex : C19_marks_inv ex_consumer.
Proof.
  intros [r p] H. cbn [ex_consumer k_consumed k_fetch tk_get] in *. unfold tpkey_eqb in *. cbn [fst snd] in *.
  destruct (0 =? r) eqn:E0; destruct (1 =? p) eqn:E1; cbn [andb] in H; try congruence.
  assert (r = 0) by lia. assert (p = 1) by lia. subst. cbn. discriminate.
Qed.
Example C19_query_foreign_none_ex :
  last_consumed_message ex_consumer (tag "b") 1 = None
  /\ last_consumed_message ex_consumer (tag "c") 0 = None
  /\ last_consumed_message ex_consumer (tag "a") 1 = Some 19.
Proof. vm_compute. repeat split. Qed.

(* ================================================================================== *)
(* 3. histories of calls                                                              *)
(* ================================================================================== *)

(* one successful call of the public API that hands back a consumer.  A failing seek /
   consume_message / commit_consumed hands back nothing (the caller's consumer is what it was);
   poll hands back a consumer also when it reports an error (r is a res). *)
Inductive C19_step : consumer -> consumer -> Prop :=
| C19_step_seek k t p off k' : consumer_seek k t p off = Ok k' -> C19_step k k'
| C19_step_consume k t p off k' : consume_message k t p off = Ok k' -> C19_step k k'
| C19_step_poll k s r k' s' : consumer_poll k s = (Ok (r, k'), s') -> C19_step k k'
| C19_step_commit k s k' s' : commit_consumed k s = (Ok k', s') -> C19_step k k'.

Inductive C19_reach (k0 : consumer) : consumer -> Prop :=
| C19_reach_refl : C19_reach k0 k0
| C19_reach_step k k' : C19_reach k0 k -> C19_step k k' -> C19_reach k0 k'.

Lemma C19_step_inv k k' :
  C19_step k k' -> C19_inv k ->
  C19_inv k' /\ k_assign k' = k_assign k /\ forall t p, assigned k' t p <-> assigned k t p.
Proof.
  intros Hs Hinv. destruct Hs as [k t p off k' H|k t p off k' H|k s r k' s' H|k s k' s' H].
  - destruct (C19_inv_seek _ _ _ _ _ Hinv H) as [H1 H2]. split; [exact H1|]. split; [|exact H2].
    apply C19_seek_assigned in H. destruct H as (r & old & maxb & _ & _ & _ & _ & _ & Ha & _). exact Ha.
  - destruct (C19_inv_consume _ _ _ _ _ Hinv H) as [H1 H2]. split; [exact H1|]. split; [|exact H2].
    destruct (C19_consume_assigned _ _ _ _ _ H) as (r & _ & _ & _ & _ & Ha & _). exact Ha.
  - split; [eapply C19_inv_consumer_poll; eassumption|].
    destruct (C19_consumer_poll_keeps_set _ _ _ _ _ H) as ((Ha & _) & _ & _ & Hset). split; [exact Ha|exact Hset].
  - destruct (C19_inv_commit _ _ _ _ Hinv H) as [H1 H2]. split; [exact H1|]. split; [|exact H2].
    destruct (commit_consumed_ok _ _ _ _ H) as (_ & _ & Ha & _). exact Ha.
Qed.

Lemma C19_step_marks k k' : C19_step k k' -> C19_marks_inv k -> C19_marks_inv k'.
Proof.
  intros Hs Hm. destruct Hs as [k t p off k' H|k t p off k' H|k s r k' s' H|k s k' s' H].
  - eapply C19_marks_seek; eassumption.
  - eapply C19_marks_consume; eassumption.
  - eapply C19_marks_poll; eassumption.
  - eapply C19_marks_commit; eassumption.
Qed.

(* after any history the invariant holds, the table is the one of creation and so is the set *)
Theorem C19_history_keeps_set : forall k0 k,
  C19_inv k0 -> C19_reach k0 k ->
  C19_inv k /\ k_assign k = k_assign k0 /\ forall t p, assigned k t p <-> assigned k0 t p.
Proof.
  intros k0 k Hinv Hr. induction Hr as [|k k' Hr IH Hs].
  - split; [exact Hinv|]. split; [reflexivity|]. intros t p. reflexivity.
  - destruct IH as (I1 & I2 & I3). destruct (C19_step_inv _ _ Hs I1) as (J1 & J2 & J3).
    split; [exact J1|]. split; [rewrite J2; exact I2|]. intros t p. rewrite J3. apply I3.
Qed.

Theorem C19_history_keeps_marks : forall k0 k,
  C19_marks_inv k0 -> C19_reach k0 k -> C19_marks_inv k.
Proof.
  intros k0 k Hm Hr. induction Hr as [|k k' Hr IH Hs]; [exact Hm|]. eapply C19_step_marks; eassumption.
Qed.

(* (assignment map x metadata): all partitions the metadata lists for a whole-topic entry, the
   listed and existing ones for an explicit entry *)
Definition C19_set (amap : list (bytes * list Z)) (md : cstate) (t : bytes) (p : Z) : Prop :=
  exists req avail, assoc_bytes t amap = Some req /\ partitions_for md t = Some avail
                    /\ 0 <= p < ulen avail /\ (req = [] \/ In p req).

(* the property's "always exactly this set", over all histories of a created consumer *)
Theorem C19_history_exact : forall src calls s k0 s0 k,
  consumer_create src calls s = (Ok k0, s0) -> C19_reach k0 k ->
  let b := fold_left cbuilder_apply calls (cbuilder_new src) in
  exists wait s1,
    to_millis_i32 (cb_max_wait b) = Ok wait
    /\ create_metadata src (create_start src calls s wait) = (Ok tt, s1)
    /\ (forall t p,
          (assigned k t p <-> C19_set (cb_assign b) (cs (cl s1)) t p)
          (* reported subscriptions *)
          /\ (In (t, p) (flat_tps (subscriptions k)) <-> C19_set (cb_assign b) (cs (cl s1)) t p)
          (* what a poll without pending retry asks KafkaClient::fetch_messages for *)
          /\ ((exists q, In q (fetch_all_input k) /\ fq_topic q = t /\ fq_partition q = p)
              <-> C19_set (cb_assign b) (cs (cl s1)) t p)
          (* seeking / marking succeeds exactly for members *)
          /\ (forall off, (exists k', consumer_seek k t p off = Ok k') <-> C19_set (cb_assign b) (cs (cl s1)) t p)
          /\ (forall off, (exists k', consume_message k t p off = Ok k') <-> C19_set (cb_assign b) (cs (cl s1)) t p)
          (* every broker's FetchRequest, under whatever metadata the client has by then *)
          /\ (forall c, fetch_named (fetch_reqs c (fetch_all_input k)) t p -> C19_set (cb_assign b) (cs (cl s1)) t p))
    (* a pending retry is a member *)
    /\ (forall tp, In tp (k_retry k) -> C19_set (cb_assign b) (cs (cl s1)) (topic_name k (fst tp)) (snd tp))
    (* what commit_consumed hands to commit_offsets *)
    /\ (forall dbg order os, commit_entries dbg (reorder_entries order (dirty_entries k)) = Ok os ->
          Forall (fun c => C19_set (cb_assign b) (cs (cl s1)) (co_topic c) (co_partition c)) os)
    (* group-less consumer: queries outside the set return nothing *)
    /\ (cb_group b = [] -> forall t p, ~ C19_set (cb_assign b) (cs (cl s1)) t p -> last_consumed_message k t p = None).
Proof.
  intros src calls s k0 s0 k H Hr b.
  destruct (C19_create_inv _ _ _ _ _ H) as [Hinv0 _].
  destruct (C19_history_keeps_set _ _ Hinv0 Hr) as (Hinv & _ & Hsame).
  destruct (C19_create_exact _ _ _ _ _ H) as (wait & s1 & subs & s2 & s3 & Hw & Hmd & _ & _ & _ & Hset0 & _).
  fold b in Hset0.
  assert (Hset : forall t p, assigned k t p <-> C19_set (cb_assign b) (cs (cl s1)) t p).
  { intros t p. rewrite Hsame. apply Hset0. }
  exists wait, s1. split; [exact Hw|]. split; [exact Hmd|]. split; [|split; [|split]].
  - intros t p. split; [apply Hset|]. split; [|split; [|split; [|split]]].
    + rewrite <- Hset. apply C19_subscriptions_assigned. exact Hinv.
    + rewrite <- Hset. apply C19_fetch_exactly_assigned. exact Hinv.
    + intros off. rewrite <- Hset. apply C19_seek_ok_iff.
    + intros off. rewrite <- Hset. apply C19_consume_ok_iff.
    + intros c Hn. apply Hset. eapply C19_fetch_reqs_only_assigned; eassumption.
  - intros [r p] Hin. cbn [fst snd]. apply Hset. pose proof Hinv as (_ & _ & _ & I4).
    apply (inv_key_assigned k r p Hinv). apply I4. exact Hin.
  - intros dbg order os Hos. pose proof (C19_commit_only_assigned k dbg order os Hinv Hos) as Hall.
    rewrite Forall_forall in Hall |- *. intros c Hin. apply Hset. apply Hall. exact Hin.
  - intros Hg t p Hn. apply C19_query_foreign_none.
    + eapply C19_history_keeps_marks; [|exact Hr]. eapply C19_create_groupless_marks; eassumption.
    + intros Ha. apply Hn. apply Hset. exact Ha.
Qed.

(* non-vacuity: the consumer created in C19Extra (a: 3 partitions, the middle one leaderless, whole
   topic after an explicit [1]; b [0;0]), then consume a:1, seek b:0, consume a:2: a history of
   three calls; the subscriptions are those of creation, a:3 / c:0 are refused and not answered *)
Example C19_history_ex :
  match fst (consumer_create (inr ex_md_client) ex_create_calls ex_create_st) with
  | Ok k0 =>
      match consume_message k0 (tag "a") 1 41 with
      | Ok k1 => match consumer_seek k1 (tag "b") 0 77 with
                 | Ok k2 => match consume_message k2 (tag "a") 2 8 with
                            | Ok k3 =>
                                C19_reach k0 k3
                                /\ subscriptions k3 = [(tag "a", [0; 1; 2]); (tag "b", [0])]
                                /\ consume_message k3 (tag "a") 3 5 = Err (EKafka KC_UnknownTopicOrPartition)
                                /\ last_consumed_message k3 (tag "a") 3 = None
                                /\ last_consumed_message k3 (tag "a") 1 = Some 41
                                /\ map fst (k_fetch k3) = [(0, 0); (0, 1); (0, 2); (1, 0)]
                            | _ => False end
                 | _ => False end
      | _ => False end
  | _ => False
  end.
Proof.
  destruct (fst (consumer_create (inr ex_md_client) ex_create_calls ex_create_st)) as [k0|e|w] eqn:E0;
    [|vm_compute in E0; discriminate|vm_compute in E0; discriminate].
  destruct (consume_message k0 (tag "a") 1 41) as [k1|e|w] eqn:E1;
    [|vm_compute in E0; inversion E0; subst k0; vm_compute in E1; discriminate
     |vm_compute in E0; inversion E0; subst k0; vm_compute in E1; discriminate].
  destruct (consumer_seek k1 (tag "b") 0 77) as [k2|e|w] eqn:E2;
    [|vm_compute in E0; inversion E0; subst k0; vm_compute in E1; inversion E1; subst k1; vm_compute in E2; discriminate
     |vm_compute in E0; inversion E0; subst k0; vm_compute in E1; inversion E1; subst k1; vm_compute in E2; discriminate].
  destruct (consume_message k2 (tag "a") 2 8) as [k3|e|w] eqn:E3;
    [|vm_compute in E0; inversion E0; subst k0; vm_compute in E1; inversion E1; subst k1;
      vm_compute in E2; inversion E2; subst k2; vm_compute in E3; discriminate
     |vm_compute in E0; inversion E0; subst k0; vm_compute in E1; inversion E1; subst k1;
      vm_compute in E2; inversion E2; subst k2; vm_compute in E3; discriminate].
  split.
  - eapply C19_reach_step; [eapply C19_reach_step; [eapply C19_reach_step; [apply C19_reach_refl|]|]|].
    + eapply C19_step_consume. exact E1.
    + eapply C19_step_seek. exact E2.
    + eapply C19_step_consume. exact E3.
  - vm_compute in E0; inversion E0; subst k0; vm_compute in E1; inversion E1; subst k1;
      vm_compute in E2; inversion E2; subst k2; vm_compute in E3; inversion E3; subst k3.
    vm_compute. repeat split.
Qed.

(* ================================================================================== *)
(* 4. the per-broker FetchRequests name every consumed pair that has a leader          *)
(* ================================================================================== *)

(* (t, q) occurs in the request to host h *)
Definition fetch_named_at (reqs : list (bytes * fetch_tps)) (h t : bytes) (q : Z) : Prop :=
  exists tps ps, In (h, tps) reqs /\ In (t, ps) tps /\ In q (map fst ps).

Lemma fp_insert_has ps p v : In p (map fst (fp_insert ps p v)).
Proof.
  induction ps as [|[q0 w0] ps IH]; cbn [fp_insert map fst In]; [left; reflexivity|].
  destruct (q0 =? p) eqn:E; cbn [map fst In]; [left; lia|right; exact IH].
Qed.
Lemma fp_insert_mono ps p v q : In q (map fst ps) -> In q (map fst (fp_insert ps p v)).
Proof.
  induction ps as [|[q0 w0] ps IH]; cbn [fp_insert map fst In]; [intros []|].
  destruct (q0 =? p) eqn:E; cbn [map fst In]; [intros H; exact H|].
  intros [H|H]; [left; exact H|right; apply IH; exact H].
Qed.

Lemma fetch_add_has tps topic p off maxb :
  exists ps, In (topic, ps) (fetch_add tps topic p off maxb) /\ In p (map fst ps).
Proof.
  induction tps as [|[t0 ps0] tps IH]; cbn [fetch_add].
  - eexists. split; [left; reflexivity|left; reflexivity].
  - destruct (bytes_eqb t0 topic) eqn:E.
    + apply bytes_eqb_eq in E. subst t0. eexists. split; [left; reflexivity|apply fp_insert_has].
    + destruct IH as (ps & Hin & Hp). exists ps. split; [right; exact Hin|exact Hp].
Qed.
Lemma fetch_add_mono tps topic p off maxb t q :
  (exists ps, In (t, ps) tps /\ In q (map fst ps)) ->
  exists ps, In (t, ps) (fetch_add tps topic p off maxb) /\ In q (map fst ps).
Proof.
  induction tps as [|[t0 ps0] tps IH]; cbn [fetch_add]; [intros (ps & [] & _)|].
  destruct (bytes_eqb t0 topic) eqn:E.
  - intros (ps & [H|H] & Hq).
    + inversion H; subst t0 ps0. eexists. split; [left; reflexivity|]. apply fp_insert_mono. exact Hq.
    + exists ps. split; [right; exact H|exact Hq].
  - intros (ps & [H|H] & Hq).
    + exists ps. split; [left; exact H|exact Hq].
    + destruct IH as (ps' & Hin & Hq'); [eauto|]. exists ps'. split; [right; exact Hin|exact Hq'].
Qed.

Lemma fhost_add_has reqs host topic p off maxb :
  fetch_named_at (fhost_add reqs host topic p off maxb) host topic p.
Proof.
  unfold fetch_named_at. induction reqs as [|[h0 tps0] reqs IH]; cbn [fhost_add].
  - destruct (fetch_add_has [] topic p off maxb) as (ps & Hin & Hp).
    eexists. exists ps. split; [left; reflexivity|]. split; [exact Hin|exact Hp].
  - destruct (bytes_eqb h0 host) eqn:E.
    + apply bytes_eqb_eq in E. subst h0. destruct (fetch_add_has tps0 topic p off maxb) as (ps & Hin & Hp).
      eexists. exists ps. split; [left; reflexivity|]. split; [exact Hin|exact Hp].
    + destruct IH as (tps & ps & Hin & Ht & Hp). exists tps, ps. split; [right; exact Hin|]. split; [exact Ht|exact Hp].
Qed.
Lemma fhost_add_mono reqs host topic p off maxb h t q :
  fetch_named_at reqs h t q -> fetch_named_at (fhost_add reqs host topic p off maxb) h t q.
Proof.
  unfold fetch_named_at. induction reqs as [|[h0 tps0] reqs IH]; cbn [fhost_add]; [intros (tps & ps & [] & _)|].
  destruct (bytes_eqb h0 host) eqn:E.
  - intros (tps & ps & [H|H] & Ht & Hq).
    + inversion H; subst h0 tps0. destruct (fetch_add_mono tps topic p off maxb t q) as (ps' & Hin & Hq'); [eauto|].
      eexists. exists ps'. split; [left; reflexivity|]. split; [exact Hin|exact Hq'].
    + exists tps, ps. split; [right; exact H|]. split; [exact Ht|exact Hq].
  - intros (tps & ps & [H|H] & Ht & Hq).
    + exists tps, ps. split; [left; exact H|]. split; [exact Ht|exact Hq].
    + destruct IH as (tps' & ps' & Hin & Ht' & Hq'); [exists tps, ps; auto|].
      exists tps', ps'. split; [right; exact Hin|]. split; [exact Ht'|exact Hq'].
Qed.

Lemma fetch_reqs_fold_complete c h t q : forall input acc,
  fetch_named_at acc h t q
  \/ (exists x, In x input /\ fq_topic x = t /\ fq_partition x = q) /\ find_broker (cs c) t q = Some h ->
  fetch_named_at (fold_left (fun reqs x =>
               match find_broker (cs c) (fq_topic x) (fq_partition x) with
               | None => reqs
               | Some host =>
                   fhost_add reqs host (fq_topic x) (fq_partition x) (fq_offset x)
                             (if 0 <? fq_max_bytes x then fq_max_bytes x
                              else fetch_max_bytes_per_partition (cfg c))
               end) input acc) h t q.
Proof.
  induction input as [|x input IH]; intros acc H; cbn [fold_left].
  - destruct H as [H|[(x & [] & _) _]]. exact H.
  - apply IH. destruct H as [H|[(x' & [Hx|Hin] & Ht & Hq) Hb]].
    + left. destruct (find_broker (cs c) (fq_topic x) (fq_partition x)); [apply fhost_add_mono; exact H|exact H].
    + subst x'. left. subst t q. rewrite Hb. apply fhost_add_has.
    + right. split; [exists x'; auto|exact Hb].
Qed.

(* every consumed pair whose leader the client knows is in the FetchRequest to that leader; the
   others (leaderless by the client's current metadata) are silently skipped by
   KafkaClient::fetch_messages, so "requested in fetches" = consumed set /\ leader known *)
Theorem C19_fetch_reqs_complete : forall k c t q h,
  assigned k t q -> find_broker (cs c) t q = Some h ->
  fetch_named_at (fetch_reqs c (fetch_all_input k)) h t q.
Proof.
  intros k c t q h (r & Hr & Hg) Hb. unfold fetch_reqs. apply fetch_reqs_fold_complete. right.
  split; [|exact Hb]. apply tk_get_in in Hg. destruct Hg as ([off maxb] & Hin).
  exists {| fq_topic := topic_name k r; fq_partition := q; fq_offset := off; fq_max_bytes := maxb |}.
  split; [unfold fetch_all_input; apply in_map_iff; exists ((r, q), (off, maxb)); split; [reflexivity|exact Hin]|].
  cbn [fq_topic fq_partition]. split; [|reflexivity].
  unfold topic_name. destruct (topic_ref_some _ _ _ Hr) as (v & Hv). rewrite Hv. reflexivity.
Qed.

Lemma fetch_named_at_named reqs h t q : fetch_named_at reqs h t q -> fetch_named reqs t q.
Proof. intros (tps & ps & H1 & H2 & H3). exists h, tps, ps. auto. Qed.

(* a named pair comes from an input whose leader is known *)
Lemma fetch_reqs_named_leader c : forall input acc t q,
  fetch_named (fold_left (fun reqs x =>
               match find_broker (cs c) (fq_topic x) (fq_partition x) with
               | None => reqs
               | Some host =>
                   fhost_add reqs host (fq_topic x) (fq_partition x) (fq_offset x)
                             (if 0 <? fq_max_bytes x then fq_max_bytes x
                              else fetch_max_bytes_per_partition (cfg c))
               end) input acc) t q ->
  fetch_named acc t q
  \/ exists x, In x input /\ fq_topic x = t /\ fq_partition x = q /\ find_broker (cs c) t q <> None.
Proof.
  induction input as [|x input IH]; intros acc t q H; cbn [fold_left] in H; [left; exact H|].
  destruct (IH _ _ _ H) as [Hacc|(x' & Hin & Hx)]; [|right; exists x'; split; [right; exact Hin|exact Hx]].
  destruct (find_broker (cs c) (fq_topic x) (fq_partition x)) as [host|] eqn:Eb; [|left; exact Hacc].
  apply fhost_add_named in Hacc. destruct Hacc as [[Ht Hq]|Hacc]; [|left; exact Hacc].
  right. exists x. split; [left; reflexivity|]. subst t q. rewrite Eb. repeat split. discriminate.
Qed.

(* both directions together: the pairs named in the FetchRequests of a poll without pending retry
   are exactly the consumed pairs whose leader the client knows *)
Corollary C19_fetch_reqs_exact : forall k c t q,
  C19_inv k ->
  (fetch_named (fetch_reqs c (fetch_all_input k)) t q
   <-> assigned k t q /\ exists h, find_broker (cs c) t q = Some h).
Proof.
  intros k c t q Hinv. split.
  - intros H. split; [eapply C19_fetch_reqs_only_assigned; eassumption|].
    unfold fetch_reqs in H. apply fetch_reqs_named_leader in H.
    destruct H as [(h & tps & ps & [] & _)|(x & _ & _ & _ & Hb)].
    destruct (find_broker (cs c) t q) as [h|]; [eauto|congruence].
  - intros [Ha (h & Hb)]. eapply fetch_named_at_named. eapply C19_fetch_reqs_complete; eassumption.
Qed.

(* the created consumer of C19Extra: a:1 is consumed (it is in subscriptions and in the fetch
   input) but leaderless, so the single FetchRequest names a:0, a:2, b:0 *)
Example C19_fetch_reqs_complete_ex :
  match fst (consumer_create (inr ex_md_client) ex_create_calls ex_create_st) with
  | Ok k => map (fun q => (fq_topic q, fq_partition q)) (fetch_all_input k)
            = [(tag "a", 0); (tag "a", 1); (tag "a", 2); (tag "b", 0)]
            /\ map (fun tp => find_broker (cs (k_client k)) (fst tp) (snd tp))
                   [(tag "a", 0); (tag "a", 1); (tag "a", 2); (tag "b", 0)]
               = [Some (tag "h:9092"); None; Some (tag "h:9092"); Some (tag "h:9092")]
            /\ map (fun e => (fst e, map (fun tp => (fst tp, map fst (snd tp))) (snd e)))
                   (fetch_reqs (k_client k) (fetch_all_input k))
               = [(tag "h:9092", [(tag "a", [0; 2]); (tag "b", [0])])]
  | _ => False
  end.
Proof. vm_compute. repeat split. Qed.

(* ================================================================================== *)
(* 5. creation, forward: when everything assigned exists, resolution succeeds           *)
(* ================================================================================== *)

(* what one table entry resolves to: all partitions of the metadata for a whole-topic entry,
   the (sorted, de-duplicated) list itself for an explicit entry *)
Definition C19_resolve (md : cstate) (a : bytes * list Z) : bytes * list Z :=
  (fst a, match snd a with
          | [] => match partitions_for md (fst a) with Some avail => iota_z (length avail) 0 | None => [] end
          | req => req
          end).

Theorem C19_subscriptions_of_ok : forall md asg,
  (forall t req, In (t, req) asg ->
     exists avail, partitions_for md t = Some avail /\ Forall (fun p => 0 <= p < ulen avail) req) ->
  subscriptions_of md asg = Ok (map (C19_resolve md) asg).
Proof.
  intros md. induction asg as [|[t req] r IH]; intros H; cbn [subscriptions_of map]; [reflexivity|].
  destruct (H t req (or_introl eq_refl)) as (avail & Ha & Hall).
  assert (Hd : determine_partitions md (t, req) = Ok (snd (C19_resolve md (t, req)))).
  { unfold C19_resolve. cbn [fst snd]. rewrite Ha. destruct req as [|p0 req0].
    - apply C19_determine_all. exact Ha.
    - apply (C19_determine_requested md t avail (p0 :: req0) Ha); [discriminate|exact Hall]. }
  rewrite Hd. cbn [bind]. rewrite IH; [|intros t' req' Hin; apply H; right; exact Hin]. cbn [bind]. reflexivity.
Qed.

(* the converse, so that resolution succeeds IFF every assigned topic and explicit id exists *)
Theorem C19_subscriptions_of_ok_iff : forall md asg,
  (exists subs, subscriptions_of md asg = Ok subs)
  <-> (forall t req, In (t, req) asg ->
         exists avail, partitions_for md t = Some avail /\ Forall (fun p => 0 <= p < ulen avail) req).
Proof.
  intros md asg. split.
  - intros (subs & Hs) t req Hin.
    destruct (subscriptions_of_cases md asg) as [(subs' & _ & Hall)|(He & _)]; [|rewrite He in Hs; discriminate].
    destruct (Hall _ Hin) as (ps & Hps). clear - Hps. unfold determine_partitions in Hps. cbn [fst snd] in Hps.
    destruct (partitions_for md t) as [avail|]; [|discriminate]. exists avail. split; [reflexivity|].
    destruct req as [|p0 req0]; [constructor|].
    destruct (forallb _ (p0 :: req0)) eqn:Hf; [|discriminate]. rewrite forallb_forall in Hf.
    apply Forall_forall. intros p Hp. apply partition_ref_some_iff. apply Hf. exact Hp.
  - intros H. eexists. apply C19_subscriptions_of_ok. exact H.
Qed.

(* Builder::create gets past the resolution, with exactly this subscription list, and goes on to
   load the offsets: no spurious unknown-topic-or-partition, nothing dropped or added *)
Theorem C19_create_resolves : forall src calls s wait s1,
  let b := fold_left cbuilder_apply calls (cbuilder_new src) in
  to_millis_i32 (cb_max_wait b) = Ok wait ->
  create_metadata src (create_start src calls s wait) = (Ok tt, s1) ->
  cb_assign b <> [] ->
  (forall t req, assoc_bytes t (cb_assign b) = Some req ->
     exists avail, partitions_for (cs (cl s1)) t = Some avail /\ Forall (fun p => 0 <= p < ulen avail) req) ->
  let asg := from_map (cb_assign b) in
  let subs := map (C19_resolve (cs (cl s1))) asg in
  consumer_create src calls s
  = (let+ consumed := load_consumed_offsets (cb_group b) asg subs in
     let+ fetch := load_fetch_states (cb_fallback b) asg subs consumed in
     let+ c2 := get_client in
     ret {| k_client := c2; k_group := cb_group b; k_fallback := cb_fallback b;
            k_retry_limit := cb_retry_limit b; k_assign := asg; k_fetch := fetch; k_retry := [];
            k_consumed := consumed |}) s1.
Proof.
  intros src calls s wait s1 b Hw Hmd Hne Hex asg subs.
  pose proof (C19_builder_keys_distinct src calls) as Hnd. fold b in Hnd.
  pose proof (C16_consumer_create_config src calls s wait) as Hcfg. cbv zeta in Hcfg. fold b in Hcfg.
  rewrite (Hcfg Hne Hw). clear Hcfg.
  assert (Hsubs : subscriptions_of (cs (cl s1)) asg = Ok subs).
  { apply C19_subscriptions_of_ok. intros t req' Hin. apply from_map_in in Hin; [|exact Hnd].
    destruct Hin as (req & Hin & ->). apply assoc_bytes_in_nodup in Hin; [|exact Hnd].
    destruct (Hex t req Hin) as (avail & Ha & Hall). exists avail. split; [exact Ha|].
    apply Forall_forall. intros p Hp. apply (proj1 (proj2 (sort_dedup_spec req) p)) in Hp. rewrite Forall_forall in Hall. apply Hall. exact Hp. }
  set (rhs := mbind (load_consumed_offsets (cb_group b) asg subs) _).
  unfold consumer_create_rest. unfold create_metadata, create_start in Hmd. fold b in Hmd.
  unfold mbind at 1. rewrite Hmd. unfold mbind at 1. unfold get_client at 1. unfold mbind at 1. unfold lift at 1.
  fold asg. rewrite Hsubs. reflexivity.
Qed.

(* non-vacuity: the metadata of ex_md_client has a (3 partitions) and b (1); a as a whole topic and
   b [0;0] resolve; creation then succeeds on the scripted single broker *)
Example C19_create_resolves_ex :
  subscriptions_of (cs ex_md_client) (from_map [(tag "b", [0; 0]); (tag "a", [])])
  = Ok [(tag "a", [0; 1; 2]); (tag "b", [0])]
  /\ map (C19_resolve (cs ex_md_client)) (from_map [(tag "b", [0; 0]); (tag "a", [])])
     = [(tag "a", [0; 1; 2]); (tag "b", [0])]
  /\ (forall t req, In (t, req) (from_map [(tag "b", [0; 0]); (tag "a", [])]) ->
        exists avail, partitions_for (cs ex_md_client) t = Some avail /\ Forall (fun p => 0 <= p < ulen avail) req).
Proof.
  split; [vm_compute; reflexivity|]. split; [vm_compute; reflexivity|].
  intros t req Hin. vm_compute in Hin. destruct Hin as [H|[H|[]]]; inversion H; subst.
  - exists [0; 4294967295; 0]. split; [vm_compute; reflexivity|constructor].
  - exists [0]. split; [vm_compute; reflexivity|]. constructor; [unfold ulen; cbn [length]; lia|constructor].
Qed.

(* ================================================================================== *)
(* 6. creation: the group-offset request names exactly the consumed pairs, once each    *)
(* ================================================================================== *)

Lemma create_steps src calls s k s' :
  consumer_create src calls s = (Ok k, s') ->
  let b := fold_left cbuilder_apply calls (cbuilder_new src) in
  exists wait s1 subs s2 s3,
    to_millis_i32 (cb_max_wait b) = Ok wait
    /\ create_metadata src (create_start src calls s wait) = (Ok tt, s1)
    /\ subscriptions_of (cs (cl s1)) (from_map (cb_assign b)) = Ok subs
    /\ load_consumed_offsets (cb_group b) (from_map (cb_assign b)) subs s1 = (Ok (k_consumed k), s2)
    /\ load_fetch_states (cb_fallback b) (from_map (cb_assign b)) subs (k_consumed k) s2 = (Ok (k_fetch k), s3)
    /\ k_assign k = from_map (cb_assign b).
Proof.
  intros H b. unfold consumer_create in H. fold b in H. cbv zeta in H.
  destruct (cb_assign b) as [|a0 ar] eqn:Ea; [discriminate|]. rewrite <- Ea in H |- *.
  apply mbind_ok in H. destruct H as (c & s0 & Hc & H). unfold get_client in Hc. inversion Hc; subst c s0.
  apply mbind_ok in H. destruct H as (wait & s0 & Hw & H). unfold lift in Hw. inversion Hw as [[Hw' Hs0]]. subst s0.
  apply mbind_ok in H. destruct H as (u1 & s0 & Hset & H). unfold set_client in Hset. inversion Hset; subst u1 s0.
  apply mbind_ok in H. destruct H as (u2 & s1 & Hmd & H). destruct u2.
  apply mbind_ok in H. destruct H as (c1 & s1' & Hc1 & H). unfold get_client in Hc1. inversion Hc1; subst c1 s1'.
  apply mbind_ok in H. destruct H as (subs & s1' & Hsubs & H). unfold lift in Hsubs. inversion Hsubs as [[Hsubs' Hs1]]. subst s1'.
  apply mbind_ok in H. destruct H as (consumed & s2 & Hcons & H).
  apply mbind_ok in H. destruct H as (fetch & s3 & Hfetch & H).
  apply mbind_ok in H. destruct H as (c2 & s3' & Hc2 & H). unfold ret in H. inversion H; subst k s'. clear H.
  cbn [k_assign k_consumed k_fetch].
  exists wait, s1, subs, s2, s3. repeat split; assumption.
Qed.

Lemma ssorted_lt_nodup l : StronglySorted Z.lt l -> NoDup l.
Proof.
  induction 1 as [|a l Hs IH Hall]; constructor; [|exact IH].
  intros Hin. rewrite Forall_forall in Hall. specialize (Hall _ Hin). lia.
Qed.

Lemma nodup_app_intro {A} (l1 l2 : list A) :
  NoDup l1 -> NoDup l2 -> (forall x, In x l1 -> ~ In x l2) -> NoDup (l1 ++ l2).
Proof.
  induction l1 as [|a l1 IH]; intros H1 H2 Hd; cbn [app]; [exact H2|].
  inversion H1 as [|? ? Hn Hr]; subst. constructor.
  - intros Hin. apply in_app_or in Hin. destruct Hin as [Hin|Hin]; [contradiction|].
    apply (Hd a (or_introl eq_refl)). exact Hin.
  - apply IH; [exact Hr|exact H2|]. intros x Hx. apply Hd. right. exact Hx.
Qed.

(* a resolved entry never lists a partition twice *)
Lemma determine_nodup md t req ps :
  determine_partitions md (t, sort_dedup req) = Ok ps -> NoDup ps.
Proof.
  unfold determine_partitions. cbn [fst snd]. destruct (partitions_for md t) as [avail|]; [|discriminate].
  destruct (sort_dedup req) as [|q0 qs] eqn:Es.
  - intros H. inversion H. rewrite C19_iota. apply FinFun.Injective_map_NoDup; [intros x y E; lia|apply seq_NoDup].
  - rewrite <- Es. destruct (forallb _ (sort_dedup req)); [|discriminate].
    intros H. inversion H; subst ps. apply ssorted_lt_nodup. apply sort_dedup_spec.
Qed.

Lemma subs_pairs_nodup : forall subs,
  NoDup (map fst subs) -> (forall t ps, In (t, ps) subs -> NoDup ps) -> NoDup (subs_pairs subs).
Proof.
  induction subs as [|[t ps] rest IH]; intros Hn Hp; [constructor|].
  change (subs_pairs ((t, ps) :: rest)) with (map (fun p => (t, p)) ps ++ subs_pairs rest).
  cbn [map fst] in Hn. inversion Hn as [|? ? Hnt Hnr]; subst.
  apply nodup_app_intro.
  - apply FinFun.Injective_map_NoDup; [intros x y E; inversion E; reflexivity|apply (Hp t ps); left; reflexivity].
  - apply IH; [exact Hnr|intros t' ps' Hin; apply (Hp t' ps'); right; exact Hin].
  - intros [t' p'] Hin1 Hin2. apply in_map_iff in Hin1. destruct Hin1 as (p & E & _). inversion E; subst t' p'.
    apply subs_pairs_in in Hin2. destruct Hin2 as (ps' & Hin & _). apply Hnt. apply in_map_iff.
    exists (t, ps'). split; [reflexivity|exact Hin].
Qed.

(* a consumer with a group: Builder::create calls KafkaClient::fetch_group_offsets - in the state
   right after the metadata step - with a list that names every consumed pair, names nothing
   else, and names no pair twice (duplicates of with_topic_partitions are gone); the marks are
   what consumed_topics makes of the answer *)
Theorem C19_create_group_pairs : forall src calls s k s',
  consumer_create src calls s = (Ok k, s') ->
  let b := fold_left cbuilder_apply calls (cbuilder_new src) in
  cb_group b <> [] ->
  exists wait s1 pairs tpos s2,
    to_millis_i32 (cb_max_wait b) = Ok wait
    /\ create_metadata src (create_start src calls s wait) = (Ok tt, s1)
    /\ fetch_group_offsets (cb_group b) pairs s1 = (Ok tpos, s2)
    /\ NoDup pairs
    /\ (forall t p, In (t, p) pairs <-> assigned k t p)
    /\ consumed_topics (debug_build (env s2)) (k_assign k) tpos [] = Ok (k_consumed k).
Proof.
  intros src calls s k s' H b Hg.
  destruct (create_steps _ _ _ _ _ H) as (wait & s1 & subs & s2 & s3 & Hw & Hmd & Hsubs & Hcons & Hfetch & Hka).
  fold b in Hw, Hmd, Hsubs, Hcons, Hfetch, Hka.
  pose proof (C19_builder_keys_distinct src calls) as Hnd. fold b in Hnd.
  destruct (C19_from_map_sorted _ Hnd) as (Hsorted & _).
  pose proof (subscriptions_of_in _ _ _ Hsubs) as Hsin.
  pose proof (load_fetch_states_keys _ _ _ _ _ _ _ Hfetch) as Hfk.
  assert (Hasg : forall t p, assigned k t p <-> exists ps, In (t, ps) subs /\ In p ps).
  { intros t p. unfold assigned. rewrite Hka. split.
    - intros (r & Hr & Hg'). apply Hfk in Hg'. destruct Hg' as (t' & ps & Hin & Hr' & Hp).
      assert (t' = t) by (eapply topic_ref_inj; eassumption). subst t'. eauto.
    - intros (ps & Hin & Hp). pose proof Hin as Hin'. apply Hsin in Hin'. destruct Hin' as (req & Hreq & _).
      destruct (C19_lookup_found _ (from_map (cb_assign b)) t Hsorted) as (r & v & Hr & _).
      { apply in_map_iff. exists (t, req). split; [reflexivity|exact Hreq]. }
      exists r. split; [exact Hr|]. apply Hfk. eauto. }
  assert (Hnf : NoDup (map fst subs)).
  { destruct (C19_subscriptions_of _ _ _ Hsubs) as [Hfst _]. rewrite Hfst.
    clear - Hsorted. induction Hsorted as [|a l Hs IH Hall]; cbn [map]; constructor; [|exact IH].
    intros Hin. apply in_map_iff in Hin. destruct Hin as (x & Hx & Hin). rewrite Forall_forall in Hall.
    specialize (Hall x Hin). unfold topic_lt in Hall. rewrite Hx in Hall. rewrite bytes_cmp_refl in Hall. discriminate. }
  assert (Hnp : forall t ps, In (t, ps) subs -> NoDup ps).
  { intros t ps Hin. apply Hsin in Hin. destruct Hin as (req' & Hreq' & Hd).
    apply from_map_in in Hreq'; [|exact Hnd]. destruct Hreq' as (req & _ & ->). eapply determine_nodup. exact Hd. }
  rewrite Hka.
  remember (cb_group b) as g eqn:Eg. destruct g as [|g0 g]; [congruence|].
  unfold load_consumed_offsets in Hcons.
  apply mbind_ok in Hcons. destruct Hcons as (tpos & s2' & Hfg & Hcons).
  apply mbind_ok in Hcons. destruct Hcons as (e & s2'' & He & Hcons).
  unfold get_env in He. inversion He; subst e s2''. unfold lift in Hcons. inversion Hcons as [[Hc Hs2]].
  exists wait, s1, (subs_pairs subs), tpos, s2'.
  split; [exact Hw|]. split; [exact Hmd|]. split; [exact Hfg|]. split; [apply subs_pairs_nodup; assumption|].
  split; [|subst s2'; first [exact Hc|reflexivity]].
  intros t p. rewrite subs_pairs_in. symmetry. apply Hasg.
Qed.

(* non-vacuity: the scripted two-broker cluster of C07Extra (topic t with 3 partitions, group g with
   coordinator a, Kafka offset storage); with_topic_partitions t [2;0;2;1;0]: creation succeeds,
   the marks are those of the OffsetFetch answer for t:1, t:2 and the three pairs are consumed once *)
Example C19_create_group_pairs_ex :
  let calls := [CWithGroup C07Extra.xg; CWithTopicPartitions C07Extra.xt [2; 0; 2; 1; 0]; CWithFallback FbLatest] in
  cb_group (fold_left cbuilder_apply calls (cbuilder_new (inr C07Extra.ex_client))) <> []
  /\ match fst (consumer_create (inr C07Extra.ex_client) calls C07Extra.ex_st2) with
     | Ok k => k_assign k = [(C07Extra.xt, [0; 1; 2])]
               /\ flat_tps (subscriptions k) = [(C07Extra.xt, 0); (C07Extra.xt, 1); (C07Extra.xt, 2)]
               /\ k_consumed k = [((0, 1), (11, false)); ((0, 2), (7, false))]
     | _ => False
     end.
Proof. split; [vm_compute; discriminate|]. vm_compute. repeat split. Qed.

Check C19_subscriptions_assigned.
Check C19_query_foreign_none.
Check C19_query_some_assigned.
Check C19_marks_seek.
Check C19_marks_consume.
Check C19_marks_poll.
Check C19_marks_commit.
Check C19_create_groupless_marks.
Check C19_history_keeps_set.
Check C19_history_keeps_marks.
Check C19_history_exact.
Check C19_fetch_reqs_complete.
Check C19_fetch_reqs_exact.
Check C19_subscriptions_of_ok.
Check C19_subscriptions_of_ok_iff.
Check C19_create_resolves.
Check C19_create_group_pairs.

Print Assumptions C19_subscriptions_assigned.
Print Assumptions C19_query_foreign_none.
Print Assumptions C19_query_some_assigned.
Print Assumptions C19_marks_seek.
Print Assumptions C19_marks_consume.
Print Assumptions C19_marks_poll.
Print Assumptions C19_marks_commit.
Print Assumptions C19_create_groupless_marks.
Print Assumptions C19_history_keeps_set.
Print Assumptions C19_history_keeps_marks.
Print Assumptions C19_history_exact.
Print Assumptions C19_fetch_reqs_complete.
Print Assumptions C19_fetch_reqs_exact.
Print Assumptions C19_subscriptions_of_ok.
Print Assumptions C19_subscriptions_of_ok_iff.
Print Assumptions C19_create_resolves.
Print Assumptions C19_create_group_pairs.
