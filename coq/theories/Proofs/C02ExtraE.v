(* C02, additional theorems, fourth mutation-adequacy pass (round-seven seed C02-7).

   Seed C02-7 (MessageSet::from_slice, arm Compression::NONE: `break` out of the entry loop as soon as
   a plain message's offset is not the offset of the last EXPOSED message + 1 - "never let a consumer
   skip over a hole"; a compacted topic, whose surviving records keep non-consecutive offsets, is cut at
   the first hole) mirrored in Model/Responses.v (`ms_loop`, plain arm:
   `match acc with last :: _ => if negb (off =? m_offset last + 1) then Ok (rev acc) else ... end`)
   is ALREADY caught by Props/C02.v: C02_plain_prefix (and with it C02_wrapper_first, C02_nested_first,
   C02_chain, C02_outside_known, C02_decoder_exact, C02_fetch_end_to_end, C02_fetch_messages_one_broker
   through their `~ Known` clause): `wf_entries` puts NO condition on the offsets of a log beyond their
   being i64, so these theorems speak about logs with holes as well.  On the mutated model the negation of
   the statement of C02_plain_prefix was proved with the seed's own log (offsets 10, 11, 15, 17, 18: the
   mutated decoder exposes 10, 11 only) - scratch copy, not part of this development; Proofs/C02Lemmas.v
   stops compiling there at ms_loop_plain_step.

   What is added here:
   (1) the clause of the seed made explicit: for an uncompressed set the OFFSETS exposed are exactly the
       offsets >= req of the complete entries, whatever the relation between neighbouring offsets
       (holes, repeats, decreasing - no hypothesis), and as many messages come back as complete
       qualifying entries were sent (C02_plain_offsets_unconstrained); the decision for one plain
       message does not depend on what was collected before it (C02_plain_collected_independent).
   (2) HISTORIES of calls (step 4).  What one call leaves behind for the next at this level is the next
       requested offset: a consumer continues as of (offset of the last exposed message + 1), and asks
       again with the same offset when nothing was exposed.  `consume` runs the decoder over the
       successive message sets a broker sends that way.
         C02_consume_chain      any sets outside `Known` whose wrappers sit at the head (plain, gzip,
                                snappy, nested), each cut anywhere, offsets strictly increasing along the
                                history but otherwise arbitrary (holes allowed): the concatenation of
                                what the calls expose is exactly the messages >= the first requested
                                offset of all the views - nothing lost, nothing twice, in log order
         C02_consume_compacted  the uncompressed case (all complete entries of every set)
         C02_consume_log_exactly_once
                                a plain log served piecewise (each answer starts where the complete
                                entries of the previous one ended, with a truncated tail of any length):
                                the history exposes every message >= req of the part served, once
         C02_next_req_skips_nothing   the single step: with strictly increasing offsets, filtering the
                                next set with the consumer's next offset loses nothing and repeats nothing
         C02_consume_sorted_needed    "strictly increasing ALONG the history" cannot be dropped from the
                                equations: a broker that re-sends the entry the previous answer ended
                                with has it dropped by the consumer (rightly), so history <> views
                                taken together - witness
   (3) what the public call leaves behind: C02_fetch_messages_one_broker_state - after a successful
       KafkaClient::fetch_messages (hypotheses of C02_fetch_messages_one_broker) the client differs from
       the one before only in the correlation counter and the consumed part of the stream; and
       C02_fetch_messages_twice: two calls in a row over one pooled connection both succeed, the second
       with the next correlation id, each returning the view of its own response.
   Everything is about the unchanged model. *)
From KV Require Import Base.Prelude Base.Crc32 Base.Snappy Gen.ErrorCodes Gen.Consts
                       Model.Codecs Model.Requests Model.Responses
                       Model.ClientState Model.Net Model.Client
                       Spec.MsgSetSpec Spec.RespGrammar
                       Proofs.BytesFacts Proofs.C10Facts Proofs.C02Lemmas Proofs.C02Facts
                       Proofs.C02Extra Proofs.C02ExtraB.
From Coq Require Import ZifyBool Sorting.Sorted.

(* ====================================================================== *)
(* (1) uncompressed sets: no condition on the offsets                      *)
(* ====================================================================== *)

(* the offset an entry is stored under *)
Definition entry_off (e : entry) : Z :=
  match e with Plain o _ _ => o | Wrapper _ o _ => o end.

Lemma all_plain_app_l a b : all_plain (a ++ b) -> all_plain a.
Proof. intros H e He. apply H. apply in_or_app. left. exact He. Qed.

Lemma all_plain_app_r a b : all_plain (a ++ b) -> all_plain b.
Proof. intros H e He. apply H. apply in_or_app. right. exact He. Qed.

Lemma all_plain_complete_prefix comp es k : all_plain es -> all_plain (complete_prefix comp es k).
Proof.
  intros H. destruct (complete_prefix_is_prefix comp es k) as [t Ht].
  rewrite Ht in H. exact (all_plain_app_l _ _ H).
Qed.

Lemma plain_offsets req : forall l, all_plain l ->
  map m_offset (map msg_of (filter (qual req) (flatten l))) = filter (fun o => req <=? o) (map entry_off l).
Proof.
  induction l as [|e r IH]; intros H; [reflexivity|].
  apply all_plain_cons in H. destruct H as [[o [k [v ->]]] Hr].
  rewrite flatten_cons. cbn [flatten_entry app filter map entry_off]. unfold qual at 1. cbn [fst].
  destruct (req <=? o); cbn [map msg_of m_offset fst]; rewrite (IH Hr); reflexivity.
Qed.

(* MessageSet::from_slice on an uncompressed set cut anywhere: the offsets exposed are the offsets
   >= req of the complete entries, in the order sent, and there are as many messages as complete
   qualifying entries.  `wf_entries` asks nothing of the offsets but to be i64: neighbouring offsets may
   differ by any amount (log compaction), the statement is the same. *)
Theorem C02_plain_offsets_unconstrained : forall comp cz d validate req es k,
  all_plain es -> wf_entries comp es ->
  exists ms,
    from_slice cz (S d) validate req (firstn k (ser comp es)) = Ok ms /\
    map m_offset ms = filter (fun o => req <=? o) (map entry_off (complete_prefix comp es k)) /\
    length ms = length (filter (fun o => req <=? o) (map entry_off (complete_prefix comp es k))).
Proof.
  intros comp cz d validate req es k Hp Hwf.
  exists (map msg_of (filter (qual req) (flatten (complete_prefix comp es k)))).
  split; [apply from_slice_plain; assumption|].
  assert (E := plain_offsets req _ (all_plain_complete_prefix comp es k Hp)).
  split; [exact E|]. rewrite <- E, !map_length. reflexivity.
Qed.

(* the seed's log: a compacted topic, offsets 10, 11, 15, 17, 18, keys a b c a b *)
Definition es_compacted : list entry :=
  [Plain 10 (Some [x61]) (Some [x31]); Plain 11 (Some [x62]) (Some [x32]); Plain 15 (Some [x63]) (Some [x33]);
   Plain 17 (Some [x61]) (Some [x34]); Plain 18 (Some [x62]) (Some [x35])].
Example es_compacted_plain : all_plain es_compacted.  Proof. plain_tac. Qed.
Example es_compacted_wf : wf_entries wcomp es_compacted.  Proof. wf_tac. Qed.
Example es_compacted_lengths : map (fun e => length (ser_entry wcomp e)) es_compacted = [28; 28; 28; 28; 28]%nat.
Proof. vm_compute. reflexivity. Qed.

(* whole set; requested offset in a hole (12 was compacted away); cut inside the fourth entry *)
Example C02_plain_offsets_unconstrained_ex :
  map m_offset (match from_slice (wcz true) 8 true 10 (ser wcomp es_compacted) with Ok ms => ms | _ => [] end)
  = [10; 11; 15; 17; 18]
  /\ filter (fun o => 10 <=? o) (map entry_off (complete_prefix wcomp es_compacted 140)) = [10; 11; 15; 17; 18]
  /\ from_slice (wcz false) 8 false 12 (firstn 100 (ser wcomp es_compacted))
     = Ok [msg_of (15, [x63], [x33])]
  /\ filter (fun o => 12 <=? o) (map entry_off (complete_prefix wcomp es_compacted 100)) = [15].
Proof. vm_compute. repeat split; reflexivity. Qed.

(* the entry loop on a complete plain message at the head: the step taken does not look at what has
   been collected so far - the accumulator only grows; in particular the offset of the last collected
   message plays no role (the seed compares with it) *)
Theorem C02_plain_collected_independent : forall comp inner dbg validate req es k acc,
  all_plain es -> wf_entries comp es ->
  ms_loop inner dbg validate req (S (length (firstn k (ser comp es)))) (firstn k (ser comp es)) acc
  = Ok (rev acc ++ map msg_of (filter (qual req) (flatten (complete_prefix comp es k)))).
Proof.
  intros comp inner dbg validate req es k acc Hp Hwf.
  rewrite (ms_loop_plain comp) by (try assumption; lia). reflexivity.
Qed.

Example C02_plain_collected_independent_ex :
  ms_loop (fun _ _ => Err EOutOfFuel) true true 0 200 (ser wcomp es_compacted)
          [ {| m_offset := 3; m_key := []; m_value := [] |} ]
  = Ok ({| m_offset := 3; m_key := []; m_value := [] |}
        :: map msg_of (flatten es_compacted)).
Proof. vm_compute. reflexivity. Qed.

(* ====================================================================== *)
(* (2) histories: the next requested offset is what one call leaves behind *)
(* ====================================================================== *)

(* where a consumer continues after a call that exposed `ms` for a partition it had asked as of `req` *)
Definition next_req (req : Z) (ms : list message) : Z :=
  match rev ms with [] => req | m :: _ => m_offset m + 1 end.

(* successive calls of the decoder on the sets `chunks`, each with the offset the previous one left *)
Fixpoint consume (cz : codecs) (fuel : nat) (validate : bool) (req : Z) (chunks : list bytes)
  : res (list message) :=
  match chunks with
  | [] => Ok []
  | c :: r =>
      let* ms := from_slice cz fuel validate req c in
      let* rest := consume cz fuel validate (next_req req ms) r in
      Ok (ms ++ rest)
  end.

Definition offs (l : list (Z * bytes * bytes)) : list Z := map (fun x => fst (fst x)) l.

Lemma ss_app_inv (a b : list Z) :
  StronglySorted Z.lt (a ++ b) ->
  StronglySorted Z.lt b /\ (forall x y, In x a -> In y b -> x < y).
Proof.
  induction a as [|z a IH]; cbn [app]; intros H.
  - split; [exact H|]. intros x y [].
  - inversion H as [|z' l' H2 H3]; subst. destruct (IH H2) as [S1 S2]. split; [exact S1|].
    intros x y [<-|Hx] Hy.
    + rewrite Forall_forall in H3. apply H3. apply in_or_app. right. exact Hy.
    + apply S2; assumption.
Qed.

(* one step of a history.  V: the view of the set just decoded, R: the view of the next one.  With
   offsets strictly increasing over V ++ R (holes of any width allowed), filtering R with the offset
   the consumer continues with is filtering it with the offset it started with: nothing of R is
   skipped (and everything of R is new). *)
Theorem C02_next_req_skips_nothing : forall req V R,
  StronglySorted Z.lt (offs (V ++ R)) ->
  filter (qual (next_req req (map msg_of (filter (qual req) V)))) R = filter (qual req) R.
Proof.
  intros req V R Hs. unfold offs in Hs. rewrite map_app in Hs.
  destruct (ss_app_inv _ _ Hs) as [_ Hlt].
  unfold next_req. destruct (rev (map msg_of (filter (qual req) V))) as [|m t] eqn:E; [reflexivity|].
  assert (Hm : In m (map msg_of (filter (qual req) V))).
  { apply in_rev. rewrite E. left. reflexivity. }
  apply in_map_iff in Hm. destruct Hm as [x [<- Hx]]. apply filter_In in Hx. destruct Hx as [Hx Hq].
  apply filter_ext_in. intros y Hy.
  assert (L : fst (fst x) < fst (fst y)).
  { apply Hlt; apply in_map_iff; [exists x|exists y]; auto. }
  unfold qual in *. cbn [msg_of m_offset]. lia.
Qed.

Example C02_next_req_skips_nothing_ex :
  let V := [(10, [x61], [x31]); (11, [x62], [x32])] in
  let R := [(15, [x63], [x33]); (17, [x61], [x34])] in
  StronglySorted Z.lt (offs (V ++ R)) /\
  next_req 11 (map msg_of (filter (qual 11) V)) = 12 /\ filter (qual 12) R = R.
Proof.
  split; [|vm_compute; split; reflexivity].
  repeat (apply SSorted_cons || apply SSorted_nil || apply Forall_cons || apply Forall_nil); reflexivity.
Qed.

(* the induction: every set of the history decodes to the messages >= the offset asked of a view *)
Lemma consume_views cz fuel validate : forall (views : list (bytes * list (Z * bytes * bytes))) req,
  (forall b V, In (b, V) views ->
     forall rq, from_slice cz fuel validate rq b = Ok (map msg_of (filter (qual rq) V))) ->
  StronglySorted Z.lt (offs (concat (map snd views))) ->
  consume cz fuel validate req (map fst views)
  = Ok (map msg_of (filter (qual req) (concat (map snd views)))).
Proof.
  induction views as [|[b V] r IH]; intros req Hv Hs; [reflexivity|].
  cbn [map fst snd consume concat] in *.
  rewrite (Hv b V (or_introl eq_refl) req). cbn [bind].
  assert (Hs' : StronglySorted Z.lt (offs (concat (map snd r)))).
  { unfold offs in Hs. rewrite map_app in Hs. exact (proj1 (ss_app_inv _ _ Hs)). }
  rewrite IH; [|intros b' V' Hin; apply Hv; right; exact Hin|exact Hs'].
  cbn [bind]. rewrite (C02_next_req_skips_nothing req V _ Hs).
  rewrite filter_app, map_app. reflexivity.
Qed.

Section History.
  Variable comp : Z -> bytes -> bytes.

  (* the view of one answer: a set and the number of its bytes that arrived *)
  Definition chunk_bytes (c : list entry * nat) : bytes := firstn (snd c) (ser comp (fst c)).
  Definition chunk_chain (c : list entry * nat) : list (Z * bytes * bytes) := chain_msgs comp (fst c) (snd c).
  Definition chunk_plain (c : list entry * nat) : list (Z * bytes * bytes) :=
    flatten (complete_prefix comp (fst c) (snd c)).

  (* a history of fetches of one partition: the broker's answers are the sets `fst c` cut at `snd c`
     bytes, each with its wrappers at the head (plain sets, a gzip / snappy batch, nested batches - the
     sets outside `Known`); the consumer starts at `req` and continues after each answer as of the last
     offset it was shown + 1.  If the offsets are strictly increasing along the history - and otherwise
     arbitrary: holes of any width inside a set and between sets - what the calls expose, taken
     together, is EXACTLY the messages >= req the decoder can see in these answers, each once, in log
     order. *)
  Theorem C02_consume_chain : forall cz fuel validate req (chunks : list (list entry * nat)),
    codec_ok cz comp ->
    (forall c, In c chunks -> first_chain (fst c) /\ wf_entries comp (fst c) /\ (depth (fst c) < fuel)%nat) ->
    StronglySorted Z.lt (offs (concat (map chunk_chain chunks))) ->
    consume cz fuel validate req (map chunk_bytes chunks)
    = Ok (map msg_of (filter (fun x => req <=? fst (fst x)) (concat (map chunk_chain chunks)))).
  Proof.
    intros cz fuel validate req chunks Hc Hall Hs.
    change (fun x : Z * bytes * bytes => req <=? fst (fst x)) with (qual req).
    pose (views := map (fun c => (chunk_bytes c, chunk_chain c)) chunks).
    assert (E1 : map fst views = map chunk_bytes chunks).
    { unfold views. rewrite map_map. reflexivity. }
    assert (E2 : map snd views = map chunk_chain chunks).
    { unfold views. rewrite map_map. reflexivity. }
    rewrite <- E1, <- E2. apply consume_views; [|rewrite E2; exact Hs].
    intros b V Hin rq. unfold views in Hin. apply in_map_iff in Hin.
    destruct Hin as [[es k] [E Hin]]. inversion E; subst. clear E.
    destruct (Hall _ Hin) as [H1 [H2 H3]]. cbn [fst snd] in *.
    unfold chunk_bytes, chunk_chain. cbn [fst snd].
    exact (C02_chain comp cz fuel validate rq es k Hc H1 H2 H3).
  Qed.

  (* the uncompressed case: ALL complete entries of every answer; no assumption on the codecs, any
     depth >= 1 *)
  Theorem C02_consume_compacted : forall cz d validate req (chunks : list (list entry * nat)),
    (forall c, In c chunks -> all_plain (fst c) /\ wf_entries comp (fst c)) ->
    StronglySorted Z.lt (offs (concat (map chunk_plain chunks))) ->
    consume cz (S d) validate req (map chunk_bytes chunks)
    = Ok (map msg_of (filter (fun x => req <=? fst (fst x)) (concat (map chunk_plain chunks)))).
  Proof.
    intros cz d validate req chunks Hall Hs.
    change (fun x : Z * bytes * bytes => req <=? fst (fst x)) with (qual req).
    pose (views := map (fun c => (chunk_bytes c, chunk_plain c)) chunks).
    assert (E1 : map fst views = map chunk_bytes chunks).
    { unfold views. rewrite map_map. reflexivity. }
    assert (E2 : map snd views = map chunk_plain chunks).
    { unfold views. rewrite map_map. reflexivity. }
    rewrite <- E1, <- E2. apply consume_views; [|rewrite E2; exact Hs].
    intros b V Hin rq. unfold views in Hin. apply in_map_iff in Hin.
    destruct Hin as [[es k] [E Hin]]. inversion E; subst. clear E.
    destruct (Hall _ Hin) as [H1 H2]. cbn [fst snd] in *.
    unfold chunk_bytes, chunk_plain. cbn [fst snd].
    apply from_slice_plain; assumption.
  Qed.
End History.

(* the compacted log in two answers: [10 11 15 | 17 cut after 20 bytes], then [17 18 | nothing];
   the consumer asked as of 11 and continues as of 16 (15 + 1) - offset 16 does not exist, 17 is the next *)
Definition hist_chunks : list (list entry * nat) :=
  [ (es_compacted, 104%nat); (skipn 3 es_compacted, 56%nat) ].

Example C02_consume_compacted_hyps :
  (forall c, In c hist_chunks -> all_plain (fst c) /\ wf_entries wcomp (fst c))
  /\ StronglySorted Z.lt (offs (concat (map (chunk_plain wcomp) hist_chunks)))
  /\ offs (concat (map (chunk_plain wcomp) hist_chunks)) = [10; 11; 15; 17; 18].
Proof.
  split; [|split; [|vm_compute; reflexivity]].
  - intros c [<-|[<-|[]]]; cbn [fst]; (split; [plain_tac|wf_tac]).
  - vm_compute.
    repeat (apply SSorted_cons || apply SSorted_nil || apply Forall_cons || apply Forall_nil); reflexivity.
Qed.

Example C02_consume_compacted_ex :
  consume (wcz true) 8 true 11 (map (chunk_bytes wcomp) hist_chunks)
  = Ok [msg_of (11, [x62], [x32]); msg_of (15, [x63], [x33]); msg_of (17, [x61], [x34]); msg_of (18, [x62], [x35])]
  /\ from_slice (wcz true) 8 true 11 (chunk_bytes wcomp (es_compacted, 104%nat))
     = Ok [msg_of (11, [x62], [x32]); msg_of (15, [x63], [x33])]
  /\ next_req 11 [msg_of (11, [x62], [x32]); msg_of (15, [x63], [x33])] = 16.
Proof. vm_compute. repeat split; reflexivity. Qed.

(* a history with batches: a snappy batch (0 1 2) with a plain message behind it that the decoder never
   reads (entries behind a head wrapper: finding F13 - the consumer gets it with the next answer), then a
   gzip batch of a compacted stretch (3, 7), then the plain compacted log cut inside its last entry *)
Definition hist_chain : list (list entry * nat) :=
  [ (es_sn, 500%nat);
    ([Wrapper 1 7 [Plain 3 None (Some [x63]); Plain 7 (Some [x6b]) None]], 500%nat);
    (es_compacted, 139%nat) ].

Example C02_consume_chain_hyps :
  codec_ok (wcz true) wcomp
  /\ (forall c, In c hist_chain -> first_chain (fst c) /\ wf_entries wcomp (fst c) /\ (depth (fst c) < 8)%nat)
  /\ StronglySorted Z.lt (offs (concat (map (chunk_chain wcomp) hist_chain)))
  /\ offs (concat (map (chunk_chain wcomp) hist_chain)) = [0; 1; 2; 3; 7; 10; 11; 15; 17].
Proof.
  split; [apply wcomp_codec_ok|]. split; [|split; [|vm_compute; reflexivity]].
  - intros c [<-|[<-|[<-|[]]]]; cbn [fst].
    + split; [apply FC_wrap, FC_plain, es3_plain|]. split; [apply es_sn_wf|vm_compute; lia].
    + split; [apply FC_wrap, FC_plain; plain_tac|]. split; [wf_tac|vm_compute; lia].
    + split; [apply FC_plain, es_compacted_plain|]. split; [apply es_compacted_wf|vm_compute; lia].
  - vm_compute.
    repeat (apply SSorted_cons || apply SSorted_nil || apply Forall_cons || apply Forall_nil); reflexivity.
Qed.

Example C02_consume_chain_ex :
  match consume (wcz true) 8 true 1 (map (chunk_bytes wcomp) hist_chain) with
  | Ok ms => map m_offset ms = [1; 2; 3; 7; 10; 11; 15; 17]
  | _ => False
  end.
Proof. vm_compute. reflexivity. Qed.

(* ---- a plain log served piecewise --------------------------------------------------------------- *)

Lemma ser_app comp a b : ser comp (a ++ b) = ser comp a ++ ser comp b.
Proof. unfold ser. apply flat_map_app. Qed.

Lemma ser_single comp e : ser comp [e] = ser_entry comp e.
Proof. unfold ser. cbn [flat_map]. apply app_nil_r. Qed.

Lemma complete_prefix_exact comp e j : forall a,
  (j < length (ser_entry comp e))%nat ->
  complete_prefix comp (a ++ [e]) (length (ser comp a) + j) = a.
Proof.
  intros a Hj. induction a as [|x a IH].
  - cbn [app complete_prefix ser flat_map length Nat.add].
    destruct (Nat.leb (length (ser_entry comp e)) j) eqn:E; [apply Nat.leb_le in E; lia|reflexivity].
  - cbn [app complete_prefix]. rewrite ser_cons, app_length.
    destruct (Nat.leb (length (ser_entry comp x)) (length (ser_entry comp x) + length (ser comp a) + j)) eqn:E;
      [|apply Nat.leb_gt in E; lia].
    replace (length (ser_entry comp x) + length (ser comp a) + j - length (ser_entry comp x))%nat
      with (length (ser comp a) + j)%nat by lia.
    rewrite IH. reflexivity.
Qed.

Lemma flatten_concat : forall l : list (list entry), flatten (concat l) = concat (map flatten l).
Proof.
  induction l as [|a l IH]; [reflexivity|]. cbn [concat map]. rewrite flatten_app, IH. reflexivity.
Qed.

Section Piecewise.
  Variable comp : Z -> bytes -> bytes.

  (* one answer of the broker: the entries `a` complete, then the first j bytes of the entry `e` that
     follows in the log (max_bytes reached inside it; j = 0: the answer ends at an entry boundary) *)
  Definition piece_bytes (p : list entry * entry * nat) : bytes :=
    ser comp (fst (fst p)) ++ firstn (snd p) (ser_entry comp (snd (fst p))).
  Definition piece_entries (p : list entry * entry * nat) : list entry := fst (fst p).

  (* KafkaClient::fetch_messages called again and again for one partition of an uncompressed log
     (decoder level): the answers carry the runs of entries `piece_entries p`, each followed by a
     truncated entry; the consumer starts at req and continues as of last offset + 1.  When the offsets
     of the entries served increase strictly (holes allowed - compacted topic) the history exposes
     every message >= req of the entries served exactly once, in log order, byte-identical. *)
  Theorem C02_consume_log_exactly_once : forall cz d validate req (pieces : list (list entry * entry * nat)),
    (forall p, In p pieces ->
       all_plain (piece_entries p ++ [snd (fst p)]) /\ wf_entries comp (piece_entries p ++ [snd (fst p)]) /\
       (snd p < length (ser_entry comp (snd (fst p))))%nat) ->
    StronglySorted Z.lt (offs (flatten (concat (map piece_entries pieces)))) ->
    consume cz (S d) validate req (map piece_bytes pieces)
    = Ok (map msg_of (filter (fun x => req <=? fst (fst x)) (flatten (concat (map piece_entries pieces))))).
  Proof.
    intros cz d validate req pieces Hall Hs.
    pose (chunks := map (fun p : list entry * entry * nat =>
                           (piece_entries p ++ [snd (fst p)], (length (ser comp (piece_entries p)) + snd p)%nat)) pieces).
    assert (E1 : map (chunk_bytes comp) chunks = map piece_bytes pieces).
    { unfold chunks. rewrite map_map. apply map_ext. intros [[a e] j].
      unfold chunk_bytes, piece_bytes, piece_entries. cbn [fst snd].
      rewrite ser_app, ser_single, firstn_app_2. reflexivity. }
    assert (E2 : map (chunk_plain comp) chunks = map flatten (map piece_entries pieces)).
    { unfold chunks. rewrite !map_map. apply map_ext_in. intros [[a e] j] Hin.
      unfold chunk_plain, piece_entries. cbn [fst snd].
      destruct (Hall _ Hin) as [_ [_ Hj]]. cbn [fst snd] in Hj.
      rewrite complete_prefix_exact by exact Hj. reflexivity. }
    rewrite flatten_concat in *. rewrite <- E1, <- E2 in *.
    apply C02_consume_compacted; [|exact Hs].
    intros c Hc. unfold chunks in Hc. apply in_map_iff in Hc. destruct Hc as [p [<- Hp]].
    cbn [fst]. destruct (Hall p Hp) as [H1 [H2 _]]. split; assumption.
  Qed.
End Piecewise.

(* the compacted log in three answers: [10 11 | 15 cut after 27 of 28 bytes], [15 17 | 18 cut at 0],
   [18 | a next entry cut inside its header] *)
Definition hist_pieces : list (list entry * entry * nat) :=
  [ (firstn 2 es_compacted, Plain 15 (Some [x63]) (Some [x33]), 27%nat);
    ([Plain 15 (Some [x63]) (Some [x33]); Plain 17 (Some [x61]) (Some [x34])], Plain 18 (Some [x62]) (Some [x35]), 0%nat);
    ([Plain 18 (Some [x62]) (Some [x35])], Plain 25 None None, 9%nat) ].

Example C02_consume_log_exactly_once_hyps :
  (forall p, In p hist_pieces ->
     all_plain (piece_entries p ++ [snd (fst p)]) /\ wf_entries wcomp (piece_entries p ++ [snd (fst p)]) /\
     (snd p < length (ser_entry wcomp (snd (fst p))))%nat)
  /\ StronglySorted Z.lt (offs (flatten (concat (map piece_entries hist_pieces))))
  /\ concat (map piece_entries hist_pieces) = es_compacted.
Proof.
  split; [|split; [|reflexivity]].
  - intros p [<-|[<-|[<-|[]]]]; cbv [piece_entries fst snd app firstn es_compacted];
      (split; [plain_tac|split; [wf_tac|vm_compute; lia]]).
  - vm_compute.
    repeat (apply SSorted_cons || apply SSorted_nil || apply Forall_cons || apply Forall_nil); reflexivity.
Qed.

Example C02_consume_log_exactly_once_ex :
  consume (wcz true) 8 true 0 (map (piece_bytes wcomp) hist_pieces) = Ok (map msg_of (flatten es_compacted))
  /\ map (@length byte) (map (piece_bytes wcomp) hist_pieces) = [83; 56; 37]%nat.
Proof. vm_compute. split; reflexivity. Qed.

(* "strictly increasing ALONG the history" cannot be dropped from these equations: when the second
   answer begins with the entry the first one ended with (a broker serving from an earlier position than
   asked), the consumer drops the repeated message - rightly - so the history exposes 5, 6 while the
   views taken together hold 5, 5, 6.  (Each answer by itself has increasing offsets.) *)
Example C02_consume_sorted_needed :
  let chunks := [ ([Plain 5 None (Some [x61])], 100%nat);
                  ([Plain 5 None (Some [x61]); Plain 6 None (Some [x62])], 100%nat) ] in
  (forall c, In c chunks -> all_plain (fst c) /\ wf_entries wcomp (fst c))
  /\ consume (wcz true) 8 true 0 (map (chunk_bytes wcomp) chunks)
     = Ok [msg_of (5, [], [x61]); msg_of (6, [], [x62])]
  /\ offs (concat (map (chunk_plain wcomp) chunks)) = [5; 5; 6].
Proof.
  split; [|vm_compute; split; reflexivity].
  intros c [<-|[<-|[]]]; cbn [fst]; (split; [plain_tac|wf_tac]).
Qed.

(* ====================================================================== *)
(* (3) what the public call leaves behind                                  *)
(* ====================================================================== *)

(* the stream events of one fetch exchange: the frame of request p taken in one write, the size, the
   payload in the reads read_exact_alloc asks for *)
Definition fetch_io (p payload : bytes) : list ev_out :=
  OWrote (ulen (frame p)) :: OData (p_i32 (ulen payload)) :: map OData (chunk_list (length payload) payload).

(* KafkaClient::fetch_messages under the hypotheses of C02_fetch_messages_one_broker: the state the
   call leaves.  The client is the one before with the correlation counter advanced once (metadata,
   configuration, connection pool untouched); the exchange's events are consumed from the stream and
   one host-order hint is used up; nothing else changes. *)
Theorem C02_fetch_messages_one_broker_state : forall comp input s h p r extra tail,
  input <> [] ->
  (forall q, In q input -> find_broker (cs (cl s)) (fq_topic q) (fq_partition q) = Some h) ->
  in_pool h (conns (cl s)) = true -> idle_expired (cfg (cl s)) = false ->
  let corr := fst (next_correlation_id (cs (cl s))) in
  let adds := map (ask_mb (cfg (cl s))) input in
  enc_fetch_req corr (client_id (cfg (cl s))) (fetch_max_wait_time (cfg (cl s))) (fetch_min_bytes (cfg (cl s)))
                (match assoc_bytes h (fetchq s) with
                 | Some o => order_fetch o (build_reqs adds) | None => build_reqs adds end) = Ok p ->
  ulen (print_fetch r ++ extra) <= i32_max ->
  script s = fetch_io p (print_fetch r ++ extra) ++ tail ->
  codec_ok (env s) comp -> wf_fetch r ->
  (forall t q, In t (view_list (wr_topics r)) -> In q (view_list (wt_partitions t)) ->
     exists es k, wfe_message_set q = firstn k (ser comp es) /\ wf_entries comp es /\ (depth es < decode_depth)%nat) ->
  let resp := view_fresp (env s) decode_depth (fetch_crc_validation (cfg (cl s))) (build_reqs adds) r in
  exists s', fetch_messages input s = (Ok [resp], s') /\
    script s' = tail /\
    cl s' = {| cfg := cfg (cl s); cs := snd (next_correlation_id (cs (cl s))); conns := conns (cl s) |} /\
    hostq s' = tl (hostq s) /\ fetchq s' = fetchq s /\ anyq s' = anyq s /\ entryq s' = entryq s /\
    env s' = env s.
Proof.
  intros comp input s h p r extra tail Hne Hall Hpool Hidle corr adds Henc Hmax Hs Hc Hwf Hsets resp.
  unfold fetch_io in Hs. cbn [app] in Hs.
  unfold fetch_messages, next_corr.
  unfold mbind at 1. unfold mbind at 1, get_client at 1.
  destruct (next_correlation_id (cs (cl s))) as [n cs'] eqn:En.
  assert (Ecs : cs' = snd (next_correlation_id (cs (cl s)))) by (try rewrite En; reflexivity).
  assert (En' : n = corr) by (unfold corr; try rewrite En; reflexivity).
  unfold set_cs, mbind at 1, get_client at 1, set_client, ret. cbn [cl cfg cs conns].
  unfold mbind at 1. cbn [cl].
  set (c0 := {| cfg := cfg (cl s); cs := cs'; conns := conns (cl s) |}).
  assert (Er : fetch_reqs c0 input = [(h, build_reqs adds)]).
  { apply (fetch_reqs_one_broker c0 h input Hne). intros q Hq.
    unfold c0. cbn [cs]. rewrite Ecs. exact (Hall q Hq). }
  unfold mbind at 1, get_client at 1. cbn [cl]. rewrite Er. unfold ordered, mbind at 1, pop_hosts. cbn [hostq].
  assert (G : forall s1, script s1 = script s -> fetchq s1 = fetchq s -> env s1 = env s -> cl s1 = c0 ->
              exists s', fetch_exchange n [(h, build_reqs adds)] [] s1 = (Ok [resp], s') /\ script s' = tail /\
                         only_io s1 s').
  { intros s1 G1 G2 G3 G4.
    destruct (C02_fetch_round_delivered comp n h (build_reqs adds) s1 p r extra tail) as [s' [F1 [F2 F3]]].
    - rewrite G4. exact Hpool.
    - rewrite G4. exact Hidle.
    - rewrite G4, G2, En'. exact Henc.
    - exact Hmax.
    - rewrite G1. exact Hs.
    - rewrite G3. exact Hc.
    - exact Hwf.
    - exact Hsets.
    - exists s'. split; [|split; [exact F2|exact F3]].
      rewrite fetch_exchange_round. unfold mbind. rewrite F1. cbn [fetch_exchange app ret].
      rewrite G3, G4. reflexivity. }
  destruct (hostq s) as [|o hq] eqn:Eh; unfold mbind, ret; cbn [hostq]; rewrite ?reorder_single;
    (match goal with |- exists s', fetch_exchange _ _ _ ?s1 = _ /\ _ =>
       destruct (G s1 eq_refl eq_refl eq_refl eq_refl) as [s' [F1 [F2 F3]]] end);
    exists s'; (split; [exact F1|]); (split; [exact F2|]);
    unfold only_io in F3; cbn [anyq hostq fetchq entryq cl env] in F3;
    destruct F3 as [A1 [A2 [A3 [A4 [A5 A6]]]]];
    rewrite A1, A2, A3, A4, A5, A6; unfold c0; rewrite Ecs; cbn [tl]; repeat split; reflexivity.
Qed.

(* Two calls of KafkaClient::fetch_messages in a row over one pooled connection (all partitions of both
   inputs led by broker h; the stream holds the two exchanges one after the other).  Both SUCCEED.  The
   second request goes out with the next correlation id and with the offsets of the SECOND input (nothing
   of the first call's request is left behind: `build_reqs adds2`), in the topic / partition order the
   same hint gives; each call returns the view of its own response decoded against its own offsets; the
   stream is consumed up to `tail`.  The per-partition contents of either response are then given by
   C02_fetch_end_to_end / C02_fetch_messages_one_broker, and for a consumer that continues with
   last offset + 1 by C02_consume_chain. *)
Theorem C02_fetch_messages_twice : forall comp input1 input2 s h p1 r1 extra1 p2 r2 extra2 tail,
  input1 <> [] -> input2 <> [] ->
  (forall q, In q (input1 ++ input2) -> find_broker (cs (cl s)) (fq_topic q) (fq_partition q) = Some h) ->
  in_pool h (conns (cl s)) = true -> idle_expired (cfg (cl s)) = false ->
  let cs1 := snd (next_correlation_id (cs (cl s))) in
  let corr1 := fst (next_correlation_id (cs (cl s))) in
  let corr2 := fst (next_correlation_id cs1) in
  let adds1 := map (ask_mb (cfg (cl s))) input1 in
  let adds2 := map (ask_mb (cfg (cl s))) input2 in
  let ord := fun tps : fetch_tps =>
               match assoc_bytes h (fetchq s) with Some o => order_fetch o tps | None => tps end in
  enc_fetch_req corr1 (client_id (cfg (cl s))) (fetch_max_wait_time (cfg (cl s))) (fetch_min_bytes (cfg (cl s)))
                (ord (build_reqs adds1)) = Ok p1 ->
  enc_fetch_req corr2 (client_id (cfg (cl s))) (fetch_max_wait_time (cfg (cl s))) (fetch_min_bytes (cfg (cl s)))
                (ord (build_reqs adds2)) = Ok p2 ->
  ulen (print_fetch r1 ++ extra1) <= i32_max -> ulen (print_fetch r2 ++ extra2) <= i32_max ->
  script s = fetch_io p1 (print_fetch r1 ++ extra1) ++ fetch_io p2 (print_fetch r2 ++ extra2) ++ tail ->
  codec_ok (env s) comp -> wf_fetch r1 -> wf_fetch r2 ->
  (forall t q, In t (view_list (wr_topics r1)) -> In q (view_list (wt_partitions t)) ->
     exists es k, wfe_message_set q = firstn k (ser comp es) /\ wf_entries comp es /\ (depth es < decode_depth)%nat) ->
  (forall t q, In t (view_list (wr_topics r2)) -> In q (view_list (wt_partitions t)) ->
     exists es k, wfe_message_set q = firstn k (ser comp es) /\ wf_entries comp es /\ (depth es < decode_depth)%nat) ->
  exists s1 s2,
    fetch_messages input1 s
    = (Ok [view_fresp (env s) decode_depth (fetch_crc_validation (cfg (cl s))) (build_reqs adds1) r1], s1) /\
    fetch_messages input2 s1
    = (Ok [view_fresp (env s) decode_depth (fetch_crc_validation (cfg (cl s))) (build_reqs adds2) r2], s2) /\
    script s2 = tail /\
    cl s2 = {| cfg := cfg (cl s); cs := snd (next_correlation_id cs1); conns := conns (cl s) |} /\
    env s2 = env s.
Proof.
  intros comp input1 input2 s h p1 r1 extra1 p2 r2 extra2 tail Hne1 Hne2 Hall Hpool Hidle
         cs1 corr1 corr2 adds1 adds2 ord Henc1 Henc2 Hmax1 Hmax2 Hs Hc Hwf1 Hwf2 Hsets1 Hsets2.
  destruct (C02_fetch_messages_one_broker_state comp input1 s h p1 r1 extra1
              (fetch_io p2 (print_fetch r2 ++ extra2) ++ tail))
    as [s1 [F1 [F2 [F3 [F4 [F5 [F6 [F7 F8]]]]]]]]; try assumption.
  { intros q Hq. apply Hall. apply in_or_app. left. exact Hq. }
  destruct (C02_fetch_messages_one_broker_state comp input2 s1 h p2 r2 extra2 tail)
    as [s2 [E1 [E2 [E3 [E4 [E5 [E6 [E7 E8]]]]]]]]; try assumption.
  - intros q Hq. rewrite F3. cbn [cs]. apply (Hall q). apply in_or_app. right. exact Hq.
  - rewrite F3. exact Hpool.
  - rewrite F3. exact Hidle.
  - rewrite F3, F5. exact Henc2.
  - rewrite F8. exact Hc.
  - exists s1, s2. split; [exact F1|]. rewrite F8, F3 in E1. rewrite F3 in E3. rewrite F8 in E8.
    split; [exact E1|]. split; [exact E2|]. split; [exact E3|exact E8].
Qed.

(* non-vacuity: the layout of C02ExtraB (topic "t", partitions 0 / 2 / 1, broker b1 pooled), asked twice:
   first as of offsets 1 / 2 / 1, then - after partition 0 exposed offsets 1, 2 - as of 3 / 2 / 1 *)
Definition exe_input2 : list fetch_partition :=
  [ {| fq_topic := [x74]; fq_partition := 0; fq_offset := 3; fq_max_bytes := 0 |};
    {| fq_topic := [x74]; fq_partition := 2; fq_offset := 2; fq_max_bytes := 200 |};
    {| fq_topic := [x74]; fq_partition := 1; fq_offset := 1; fq_max_bytes := 130 |} ].
Definition exe_p2 : bytes :=
  match enc_fetch_req 2 [] (fetch_max_wait_time (cfg exb_client)) (fetch_min_bytes (cfg exb_client))
                      (build_reqs (map (ask_mb (cfg exb_client)) exe_input2)) with Ok p => p | _ => [] end.
Definition exe_st : st :=
  {| script := fetch_io exb_p exb_payload ++ fetch_io exe_p2 exb_payload ++ [OData [x09]];
     trace := []; anyq := []; hostq := []; fetchq := []; entryq := [];
     cl := exb_client; env := wcz true |}.

Example C02_fetch_messages_twice_hyps :
  exb_input <> [] /\ exe_input2 <> []
  /\ (forall q, In q (exb_input ++ exe_input2) ->
        find_broker (cs (cl exe_st)) (fq_topic q) (fq_partition q) = Some exb_h)
  /\ in_pool exb_h (conns (cl exe_st)) = true /\ idle_expired (cfg (cl exe_st)) = false
  /\ enc_fetch_req (fst (next_correlation_id (cs (cl exe_st)))) (client_id (cfg (cl exe_st)))
                   (fetch_max_wait_time (cfg (cl exe_st))) (fetch_min_bytes (cfg (cl exe_st)))
                   (build_reqs exb_adds) = Ok exb_p
  /\ enc_fetch_req (fst (next_correlation_id (snd (next_correlation_id (cs (cl exe_st))))))
                   (client_id (cfg (cl exe_st)))
                   (fetch_max_wait_time (cfg (cl exe_st))) (fetch_min_bytes (cfg (cl exe_st)))
                   (build_reqs (map (ask_mb (cfg (cl exe_st))) exe_input2)) = Ok exe_p2
  /\ assoc_bytes exb_h (fetchq exe_st) = None
  /\ ulen (print_fetch ex_resp ++ []) <= i32_max
  /\ script exe_st = fetch_io exb_p (print_fetch ex_resp ++ []) ++ fetch_io exe_p2 (print_fetch ex_resp ++ [])
                     ++ [OData [x09]]
  /\ codec_ok (env exe_st) wcomp /\ wf_fetch ex_resp.
Proof.
  split; [discriminate|]. split; [discriminate|].
  split; [intros q [<-|[<-|[<-|[<-|[<-|[<-|[]]]]]]]; vm_compute; reflexivity|].
  split; [vm_compute; reflexivity|]. split; [vm_compute; reflexivity|].
  split; [vm_compute; reflexivity|]. split; [vm_compute; reflexivity|].
  split; [reflexivity|]. split; [vm_compute; discriminate|].
  split; [reflexivity|]. split; [apply wcomp_codec_ok|apply ex_resp_wf].
Qed.

(* computed: both calls succeed on the same wire bytes; partition 0 asked @1 -> [m1; m2], then asked @3
   -> nothing (all of it is below 3); the other partitions as before; afterwards the correlation counter
   is 2 and the byte of the next frame is still in the stream *)
Example C02_fetch_messages_twice_ex :
  let r1 := fetch_messages exb_input exe_st in
  let r2 := fetch_messages exe_input2 (snd r1) in
  fst r1 = Ok [ {| fr_corr := 7;
                   fr_topics := [ {| ft_topic := [x74];
                                     ft_partitions := [ {| fp_partition := 0; fp_data := inl (3, [m1; m2]) |};
                                                        {| fp_partition := 2; fp_data := inl (4, [m2]) |};
                                                        {| fp_partition := 1; fp_data := inl (9, []) |} ] |};
                                  {| ft_topic := []; ft_partitions := [] |} ] |} ]
  /\ fst r2 = Ok [ {| fr_corr := 7;
                      fr_topics := [ {| ft_topic := [x74];
                                        ft_partitions := [ {| fp_partition := 0; fp_data := inl (3, []) |};
                                                           {| fp_partition := 2; fp_data := inl (4, [m2]) |};
                                                           {| fp_partition := 1; fp_data := inl (9, []) |} ] |};
                                     {| ft_topic := []; ft_partitions := [] |} ] |} ]
  /\ script (snd r2) = [OData [x09]]
  /\ correlation (cs (cl (snd r2))) = 2
  /\ script (snd r1) = fetch_io exe_p2 exb_payload ++ [OData [x09]].
Proof. vm_compute. repeat split; reflexivity. Qed.

Example C02_fetch_messages_one_broker_state_ex :
  let s' := snd (fetch_messages exb_input exb_st) in
  cl s' = {| cfg := cfg (cl exb_st); cs := snd (next_correlation_id (cs (cl exb_st))); conns := conns (cl exb_st) |}
  /\ script s' = [OData [x09]] /\ hostq s' = [] /\ fetchq s' = [] /\ env s' = env exb_st.
Proof. vm_compute. repeat split; reflexivity. Qed.

(* Not done / not proved here:
   - `consume` is a definition of this file (the consumer's bookkeeping "continue as of last offset + 1"),
     not a model definition: Model/Consumer.v has the real bookkeeping (C14/C15 speak about it); tying
     `next_req` to Consumer::poll's fetch_offsets update is not done here.
   - the history theorems are at the decoder level (one partition).  C02_fetch_messages_twice gives two
     PUBLIC calls in a row (state passed on), any number of calls follows by repeating it with
     C02_fetch_messages_one_broker_state, but no closed statement "n calls of fetch_messages expose the
     log exactly once" is given (it needs the n request encodings and the n response grammars as
     hypotheses).
   - sets of the class `Known` (a wrapper behind another entry) are outside C02_consume_chain: there the
     decoder drops what it collected (F13), so a history can LOSE the plain messages in front of a batch -
     C02_full_refuted is the one-call witness.
   - several brokers, short reads/writes, a connection not pooled yet: as in C02ExtraB. *)

Print Assumptions C02_plain_offsets_unconstrained.
Print Assumptions C02_plain_collected_independent.
Print Assumptions C02_next_req_skips_nothing.
Print Assumptions C02_consume_chain.
Print Assumptions C02_consume_compacted.
Print Assumptions C02_consume_log_exactly_once.
Print Assumptions C02_consume_sorted_needed.
Print Assumptions C02_fetch_messages_one_broker_state.
Print Assumptions C02_fetch_messages_twice.
