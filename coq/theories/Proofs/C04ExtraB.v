(* C04, additional theorems, second pass (round-four seed C04-4).

   The theorems of Props/C04.v all START from `fetch_crc_validation (cfg (cl s)) = true` (or from the decoder's
   validate flag).  None of them says how that flag gets its value.  The property quantifies over the
   configuration ("x validation on/off") and names src/consumer/builder.rs: "with CRC validation enabled" is, for a
   consumer, established by Builder::create, which copies the builder's setting into the client.  Seed C04-4
   changes exactly that copy (the setting is applied only when it is `false`), and leaves every theorem of
   Props/C04.v provable.  This file adds

   A. the builder: the setting a chain of builder calls ends up with (C04_builder_crc, C04_builder_crc_last,
      C04_builder_crc_default);
   B. Builder::create (consumer_create): the client of the created consumer - and the client left in the state -
      carries EXACTLY the builder's setting, whatever the client handed in had before, whatever else create does
      (metadata load, group offsets, offset lookups: none of them touches the configuration)
      (C04_consumer_create_cfg, C04_consumer_create_crc, C04_consumer_create_crc_on / _off);
   C. Consumer::poll (consumer_poll): the poll IS KafkaClient::fetch_messages on the consumer's fetch states, with the
      client of the state; a failing fetch is the poll's error, nothing is delivered, no fetch offset moves
      (C04_consumer_poll_fetch, C04_consumer_poll_rejects);
   D. the life of a consumer: poll, seek, consume_message, commit_consumed (succeeding or failing) never change the
      configuration of the consumer's client (C04_consumer_step_cfg, C04_consumer_life_cfg), so
   E. a consumer built with validation on - also on a client that had it off - rejects, at every later poll, a
      response with a corrupted message (C04_built_consumer_rejects), and so does KafkaClient::fetch_messages on
      the consumer's client (C04_built_consumer_client_rejects).

   G. validation off at the observation point: KafkaClient::fetch_messages of a client whose flag is off never ends
      with Err(Kafka(code)), whatever the script delivers (C04_off_fetch_messages_never_corrupt), also for the
      client of a consumer built with validation off, all its life (C04_built_consumer_off_never_corrupt).

   Not done / not true: at the POLL level "validation off => never CorruptMessage" is false as it stands: a broker may
   put error code 2 (CorruptMessage) into a partition header and Consumer::poll reports it (first_error); see
   C04_off_poll_broker_code_ex.  Builder::create FAILING after it wrote the configuration (the client is consumed by
   create in the Rust code, so this is not observable) is not stated.  Nothing here is about the producer's builder. *)
From Coq Require Import ZifyBool Relations.Relation_Operators.
From KV Require Import Base.Prelude Base.Crc32 Gen.ErrorCodes Gen.Consts
                       Model.Codecs Model.Requests Model.Responses Model.ClientState Model.Net Model.Client
                       Model.Consumer.
From KV Require Import Proofs.BytesFacts Proofs.Crc32Facts Spec.MsgSetSpec Spec.RespGrammar.
From KV Require Import Proofs.NetFacts Proofs.C04Facts Proofs.C04Extra.

Local Notation corrupt := (Err (EKafka KC_CorruptMessage)).

(* ====================================================================================== *)
(* A. the builder                                                                         *)
(* ====================================================================================== *)

(* the last with_fetch_crc_validation call wins; without one, the initial value stays *)
Definition crc_of_calls (calls : list cbuilder_call) (init : bool) : bool :=
  fold_left (fun acc c => match c with CWithCrc x => x | _ => acc end) calls init.

(* builder::new: the default for from_hosts, the client's own setting for from_client *)
Definition src_crc (src : list bytes + client) : bool :=
  match src with inl _ => DEFAULT_FETCH_CRC_VALIDATION | inr c => fetch_crc_validation (cfg c) end.

Definition builder_crc (src : list bytes + client) (calls : list cbuilder_call) : bool :=
  crc_of_calls calls (src_crc src).

Definition built (src : list bytes + client) (calls : list cbuilder_call) : cbuilder :=
  fold_left cbuilder_apply calls (cbuilder_new src).

Lemma cb_crc_apply b c : cb_crc (cbuilder_apply b c) = match c with CWithCrc x => x | _ => cb_crc b end.
Proof. destruct c; reflexivity. Qed.

Lemma cb_crc_fold calls : forall b, cb_crc (fold_left cbuilder_apply calls b) = crc_of_calls calls (cb_crc b).
Proof.
  induction calls as [|c calls IH]; intros b; [reflexivity|].
  cbn [fold_left]. rewrite IH, cb_crc_apply. unfold crc_of_calls. cbn [fold_left]. reflexivity.
Qed.

Theorem C04_builder_crc : forall src calls, cb_crc (built src calls) = builder_crc src calls.
Proof. intros src calls. unfold built, builder_crc. rewrite cb_crc_fold. destruct src; reflexivity. Qed.

Lemma crc_of_calls_none calls : (forall y, ~ In (CWithCrc y) calls) -> forall init, crc_of_calls calls init = init.
Proof.
  induction calls as [|c calls IH]; intros H init; [reflexivity|].
  unfold crc_of_calls. cbn [fold_left]. fold (crc_of_calls calls (match c with CWithCrc x => x | _ => init end)).
  rewrite IH by (intros y Hy; apply (H y); right; exact Hy).
  destruct c; try reflexivity. exfalso. apply (H b). left. reflexivity.
Qed.

(* an explicit request wins over whatever came before it: earlier calls, the default, the client handed in *)
Theorem C04_builder_crc_last : forall src calls x calls',
  (forall y, ~ In (CWithCrc y) calls') -> builder_crc src (calls ++ CWithCrc x :: calls') = x.
Proof.
  intros src calls x calls' H. unfold builder_crc, crc_of_calls. rewrite fold_left_app. cbn [fold_left].
  apply (crc_of_calls_none calls' H).
Qed.

(* no request: validation is on for a from_hosts consumer, inherited for a from_client consumer *)
Theorem C04_builder_crc_default : forall src calls,
  (forall y, ~ In (CWithCrc y) calls) ->
  builder_crc src calls = match src with inl _ => true | inr c => fetch_crc_validation (cfg c) end.
Proof. intros src calls H. unfold builder_crc. rewrite (crc_of_calls_none calls H). destruct src; reflexivity. Qed.

Example C04_builder_crc_ex :
  let off_client := x_client false in
  builder_crc (inr off_client) [CWithTopic (tag "t"); CWithCrc true; CWithGroup (tag "g")] = true /\
  builder_crc (inr off_client) [CWithTopic (tag "t")] = false /\
  builder_crc (inr (x_client true)) [CWithCrc true; CWithTopic (tag "t"); CWithCrc false] = false /\
  builder_crc (inl [tag "h:9092"]) [CWithTopic (tag "t")] = true /\
  (forall y, ~ In (CWithCrc y) [CWithGroup (tag "g")]).
Proof.
  cbv zeta. repeat split; try reflexivity. intros y [H|[]]. discriminate H.
Qed.

(* ====================================================================================== *)
(* B. nothing but Builder::create writes the configuration                                *)
(* ====================================================================================== *)

Definition cfgc (s s' : st) : Prop := cfg (cl s') = cfg (cl s).
Lemma preorder_cfgc : preorder cfgc.
Proof. split; [intros s; reflexivity|intros s s1 s2 H1 H2; unfold cfgc in *; congruence]. Qed.
Lemma cfgenv_cfgc s s' : cfgenv s s' -> cfgc s s'.
Proof. intros [_ H]. exact H. Qed.
Lemma conns_cfgc s s' : same_but_conns s s' -> cfgc s s'.
Proof. intros H. apply cfgenv_cfgc, conns_cfgenv, H. Qed.
Lemma io_cfgc s s' : same_but_io s s' -> cfgc s s'.
Proof. intros H. apply cfgenv_cfgc, io_cfgenv, H. Qed.
Lemma cl_cfgc s s' : same_cl s s' -> cfgc s s'.
Proof. unfold same_cl, cfgc. intros ->. reflexivity. Qed.

Ltac kb := apply keeps_bind; [exact preorder_cfgc| |].
Ltac kret := first [apply keeps_ret|apply keeps_fail|apply keeps_mpanic|apply keeps_lift|apply keeps_get_client
                   |apply keeps_get_env]; exact preorder_cfgc.

Lemma k_set_cs x : keeps cfgc (set_cs x).
Proof. intros s r s' H. unfold set_cs, mbind, get_client, set_client in H. injection H as _ <-. reflexivity. Qed.

Lemma k_next_corr : keeps cfgc next_corr.
Proof. eapply keeps_weaken; [exact cfgenv_cfgc|apply keeps_next_corr]. Qed.
Lemma k_ordered {V} (reqs : list (bytes * V)) : keeps cfgc (ordered reqs).
Proof. eapply keeps_weaken; [exact cfgenv_cfgc|apply keeps_ordered]. Qed.
Lemma k_send_receive {A} (d : dec A) h p : keeps cfgc (send_receive d h p).
Proof. eapply keeps_weaken; [exact conns_cfgc|apply frame_send_receive]. Qed.

Lemma k_fetch_messages input : keeps cfgc (fetch_messages input).
Proof.
  unfold fetch_messages. kb; [apply k_next_corr|]. intros corr. kb; [kret|]. intros c.
  kb; [apply k_ordered|]. intros reqs. eapply keeps_weaken; [exact cfgenv_cfgc|apply keeps_fetch_exchange].
Qed.

Lemma k_offsets_exchange {P V} enc (d : dec (Z * list (bytes * list P))) (conv : P -> V + Z) pid :
  forall reqs m, keeps cfgc (offsets_exchange enc d conv pid reqs m).
Proof.
  induction reqs as [|[h tps] r IH]; intros m; cbn [offsets_exchange]; [kret|].
  kb; [apply k_send_receive|]. intros [c rtps]. kb; [kret|]. intros m'. apply IH.
Qed.

Lemma k_fetch_offsets topics time : keeps cfgc (fetch_offsets topics time).
Proof.
  unfold fetch_offsets. kb; [apply k_next_corr|]. intros corr. kb; [kret|]. intros c.
  kb; [apply k_ordered|]. intros reqs. apply k_offsets_exchange.
Qed.

Lemma k_group_lookup_attempt req : keeps cfgc (group_lookup_attempt req).
Proof.
  unfold group_lookup_attempt.
  kb; [eapply keeps_weaken; [exact cl_cfgc|apply frame_get_conn_any]|]. intros [h|]; [|kret].
  kb; [eapply keeps_weaken; [exact io_cfgc|apply frame_send_request]|]. intros _.
  eapply keeps_weaken; [exact io_cfgc|apply frame_get_response].
Qed.

Lemma k_group_lookup_loop group req : forall fuel attempt, keeps cfgc (group_lookup_loop fuel group req attempt).
Proof.
  induction fuel as [|f IH]; intros attempt; cbn [group_lookup_loop]; [kret|].
  kb; [apply k_group_lookup_attempt|]. intros r.
  destruct (from_protocol (gc_error r)) as [code|].
  - destruct (code =? KC_GroupCoordinatorNotAvailable); [|kret].
    kb; [kret|]. intros c. destruct (attempt <? retry_max_attempts (cfg c)); [apply IH|kret].
  - kb; [kret|]. intros c. destruct (set_group_coordinator (cs c) group r) as [h s0].
    kb; [apply k_set_cs|]. intros _. kret.
Qed.

Lemma k_get_group_coordinator group : keeps cfgc (get_group_coordinator group).
Proof.
  unfold get_group_coordinator. kb; [kret|]. intros c.
  destruct (group_coordinator (cs c) group) as [h|]; [kret|].
  kb; [apply k_next_corr|]. intros corr. apply keeps_with_fuel. intros n. apply k_group_lookup_loop.
Qed.

Lemma k_group_fetch_loop group req : forall fuel attempt, keeps cfgc (group_fetch_loop fuel group req attempt).
Proof.
  induction fuel as [|f IH]; intros attempt; cbn [group_fetch_loop]; [kret|].
  kb; [apply k_get_group_coordinator|]. intros h.
  kb; [apply k_send_receive|]. intros [c tps].
  destruct (group_scan tps []) as [[m|[code reset]]|code]; [kret| |kret].
  kb; [kret|]. intros c0.
  kb; [destruct reset; [apply k_set_cs|kret]|]. intros _.
  destruct (attempt <? retry_max_attempts (cfg c0)); [apply IH|kret].
Qed.

Lemma k_commit_loop group req : forall fuel attempt, keeps cfgc (commit_loop fuel group req attempt).
Proof.
  induction fuel as [|f IH]; intros attempt; cbn [commit_loop]; [kret|].
  kb; [apply k_get_group_coordinator|]. intros h.
  kb; [apply k_send_receive|]. intros [c tps].
  destruct (commit_scan tps) as [|code reset|code]; [kret| |kret].
  kb; [kret|]. intros c0.
  kb; [destruct reset; [apply k_set_cs|kret]|]. intros _.
  destruct (attempt <? retry_max_attempts (cfg c0)); [apply IH|kret].
Qed.

Lemma k_fetch_group_offsets group args : keeps cfgc (fetch_group_offsets group args).
Proof.
  unfold fetch_group_offsets. kb; [kret|]. intros c.
  destruct (offset_storage (cfg c) <? 0); [kret|].
  kb; [apply k_next_corr|]. intros corr.
  destruct (group_fetch_tps (cs c) args []) as [tps|]; [|kret].
  apply keeps_with_fuel. intros n. apply k_group_fetch_loop.
Qed.

Lemma k_commit_offsets group os : keeps cfgc (commit_offsets group os).
Proof.
  unfold commit_offsets. kb; [kret|]. intros c.
  destruct (offset_storage (cfg c) <? 0); [kret|].
  kb; [apply k_next_corr|]. intros corr.
  destruct (commit_tps (cs c) os []) as [[|tp tps]|]; [kret| |kret].
  apply keeps_with_fuel. intros n. apply k_commit_loop.
Qed.

Lemma k_fetch_metadata_hosts corr topics : forall hs, keeps cfgc (fetch_metadata_hosts corr topics hs).
Proof.
  induction hs as [|h r IH]; cbn [fetch_metadata_hosts]; [kret|].
  kb; [kret|]. intros c.
  kb; [apply keeps_mtry; eapply keeps_weaken; [exact conns_cfgc|apply frame_get_conn]|]. intros rc.
  destruct rc as [u|e|w]; [|exact IH|exact IH].
  kb; [apply keeps_mtry; eapply keeps_weaken; [exact io_cfgc|apply frame_send_request]|].
  intros rs. destruct rs as [n|e|w]; [|exact IH|exact IH].
  eapply keeps_weaken; [exact io_cfgc|apply frame_get_response].
Qed.

Lemma k_load_metadata topics : keeps cfgc (load_metadata topics).
Proof.
  unfold load_metadata, fetch_metadata.
  kb; [kb; [apply k_next_corr|]; intros corr; kb; [kret|]; intros c; apply k_fetch_metadata_hosts|].
  intros md. kb; [kret|]. intros c. kb; [kret|]. intros s'. apply k_set_cs.
Qed.

Lemma k_load_metadata_all : keeps cfgc load_metadata_all.
Proof.
  unfold load_metadata_all, reset_metadata.
  kb; [kb; [kret|]; intros c; apply k_set_cs|]. intros _. apply k_load_metadata.
Qed.

Lemma k_load_consumed_offsets group asg subs : keeps cfgc (load_consumed_offsets group asg subs).
Proof.
  unfold load_consumed_offsets. destruct group as [|g0 g]; [kret|].
  kb; [apply k_fetch_group_offsets|]. intros tpos. kb; [kret|]. intros e. kret.
Qed.

Lemma k_load_partition_offsets topics time : keeps cfgc (load_partition_offsets topics time).
Proof. unfold load_partition_offsets. kb; [apply k_fetch_offsets|]. intros m. kret. Qed.

Lemma k_load_fetch_states fb asg subs consumed : keeps cfgc (load_fetch_states fb asg subs consumed).
Proof.
  unfold load_fetch_states. kb; [kret|]. intros c. kb; [kret|]. intros e. cbv zeta.
  destruct consumed as [|x xs].
  - kb; [apply k_load_partition_offsets|]. intros offsets. kret.
  - kb; [apply k_load_partition_offsets|]. intros latest.
    kb; [apply k_load_partition_offsets|]. intros earliest. kret.
Qed.

(* ---- Builder::create ------------------------------------------------------------------ *)
Lemma mbind_ok_inv {A B} (m : Net.M A) (f : A -> Net.M B) s b s' :
  mbind m f s = (Ok b, s') -> exists a s1, m s = (Ok a, s1) /\ f a s1 = (Ok b, s').
Proof.
  intros H. bind_inv H a s1 H1 H2; [exists a, s1; split; assumption|discriminate H2|discriminate H2].
Qed.

(* the configuration of the created consumer's client: every setting the builder holds is written; the CRC
   setting is the builder's, NOT a function of what the client had *)
Theorem C04_consumer_create_cfg : forall src calls s k s',
  consumer_create src calls s = (Ok k, s') ->
  k_client k = cl s' /\
  exists wait, to_millis_i32 (cb_max_wait (built src calls)) = Ok wait /\
               cfg (cl s') = cfg_set_consumer (cfg (cl s)) (built src calls) wait.
Proof.
  intros src calls s k s' H. unfold consumer_create in H. fold (built src calls) in H.
  set (b := built src calls) in *.
  destruct (cb_assign b) as [|a0 asg0]; [discriminate H|].
  apply mbind_ok_inv in H. destruct H as (c & s1 & H1 & H). injection H1 as <- <-.
  apply mbind_ok_inv in H. destruct H as (wait & s1 & H1 & H). injection H1 as Hw <-.
  apply mbind_ok_inv in H. destruct H as (u & s1 & H1 & H). injection H1 as _ <-.
  match type of H with mbind _ _ ?s0 = _ => set (sA := s0) in * end.
  assert (HA : cfg (cl sA) = cfg_set_consumer (cfg (cl s)) b wait) by reflexivity.
  clearbody sA.
  apply mbind_ok_inv in H. destruct H as (u1 & s2 & H1 & H).
  assert (K1 : cfgc sA s2).
  { destruct src; [apply (k_load_metadata_all _ _ _ H1)|injection H1 as _ <-; reflexivity]. }
  apply mbind_ok_inv in H. destruct H as (c1 & s3 & H2 & H). injection H2 as <- <-.
  apply mbind_ok_inv in H. destruct H as (subs & s3 & H2 & H). injection H2 as _ <-.
  apply mbind_ok_inv in H. destruct H as (consumed & s3 & H2 & H).
  pose proof (k_load_consumed_offsets _ _ _ _ _ _ H2) as K2.
  apply mbind_ok_inv in H. destruct H as (fetch & s4 & H3 & H).
  pose proof (k_load_fetch_states _ _ _ _ _ _ _ H3) as K3.
  apply mbind_ok_inv in H. destruct H as (c2 & s5 & H4 & H). injection H4 as <- <-.
  injection H as <- <-. split; [reflexivity|]. exists wait. split; [exact Hw|].
  unfold cfgc in *. congruence.
Qed.

(* Builder::create applies the builder's CRC setting to the client: both ways, on every source *)
Theorem C04_consumer_create_crc : forall src calls s k s',
  consumer_create src calls s = (Ok k, s') ->
  fetch_crc_validation (cfg (k_client k)) = builder_crc src calls /\
  fetch_crc_validation (cfg (cl s')) = builder_crc src calls.
Proof.
  intros src calls s k s' H. destruct (C04_consumer_create_cfg _ _ _ _ _ H) as (Hk & wait & _ & Hc).
  rewrite Hk, Hc. cbn [cfg_set_consumer fetch_crc_validation]. rewrite C04_builder_crc. split; reflexivity.
Qed.

(* seed C04-4: OFF on the client, then ON on the builder *)
Theorem C04_consumer_create_crc_on : forall c calls calls' s k s',
  (forall y, ~ In (CWithCrc y) calls') ->
  consumer_create (inr c) (calls ++ CWithCrc true :: calls') s = (Ok k, s') ->
  fetch_crc_validation (cfg (k_client k)) = true.
Proof.
  intros c calls calls' s k s' Hn H. destruct (C04_consumer_create_crc _ _ _ _ _ H) as [-> _].
  apply C04_builder_crc_last. exact Hn.
Qed.

Theorem C04_consumer_create_crc_off : forall src calls calls' s k s',
  (forall y, ~ In (CWithCrc y) calls') ->
  consumer_create src (calls ++ CWithCrc false :: calls') s = (Ok k, s') ->
  fetch_crc_validation (cfg (k_client k)) = false.
Proof.
  intros src calls calls' s k s' Hn H. destruct (C04_consumer_create_crc _ _ _ _ _ H) as [-> _].
  apply C04_builder_crc_last. exact Hn.
Qed.

(* ====================================================================================== *)
(* C. Consumer::poll is KafkaClient::fetch_messages on the consumer's fetch states        *)
(* ====================================================================================== *)

(* what a poll asks for: the first retry partition alone, else every fetch state (Consumer::fetch_messages) *)
Definition poll_input (k : consumer) : option (list fetch_partition) :=
  match k_retry k with
  | tp :: _ =>
      match tk_get tp (k_fetch k) with
      | None => None
      | Some (off, maxb) => Some [{| fq_topic := topic_name k (fst tp); fq_partition := snd tp;
                                     fq_offset := off; fq_max_bytes := maxb |}]
      end
  | [] => Some (map (fun '((tr, p), (off, maxb)) =>
                       {| fq_topic := topic_name k tr; fq_partition := p; fq_offset := off;
                          fq_max_bytes := maxb |}) (k_fetch k))
  end.
(* the consumer the responses are processed against: the retry partition is popped *)
Definition poll_consumer (k : consumer) : consumer :=
  match k_retry k with
  | _ :: rest => consumer_with k (k_fetch k) rest (k_consumed k)
  | [] => k
  end.
Definition poll_count (k : consumer) : Z :=
  match k_retry k with _ :: _ => 1 | [] => ulen (k_fetch k) end.

Lemma poll_consumer_same k c :
  k_fetch (consumer_with_client (poll_consumer k) c) = k_fetch k /\
  k_consumed (consumer_with_client (poll_consumer k) c) = k_consumed k /\
  k_client (consumer_with_client (poll_consumer k) c) = c.
Proof. unfold poll_consumer. destruct (k_retry k); repeat split. Qed.

(* the poll, whatever the script: one call of fetch_messages in the state the poll runs in - hence with the
   validation flag of THAT client - and its failure is the poll's result *)
Theorem C04_consumer_poll_fetch : forall k input s,
  poll_input k = Some input ->
  consumer_poll k s =
  match fetch_messages input s with
  | (Ok resps, s2) =>
      (Ok (process_fetch_responses (debug_build (env s2)) (consumer_with_client (poll_consumer k) (cl s2))
                                   (poll_count k) resps), s2)
  | (Err e, s2) => (Ok (Err e, consumer_with_client (poll_consumer k) (cl s2)), s2)
  | (Panic w, s2) => (Panic w, s2)
  end.
Proof.
  intros k input s Hin. unfold consumer_poll, consumer_fetch, poll_input, poll_consumer, poll_count in *.
  destruct (k_retry k) as [|tp rest].
  - injection Hin as <-. unfold mbind, mtry, ret, get_client, get_env.
    destruct (fetch_messages _ s) as [[resps|e|w] s2]; reflexivity.
  - destruct (tk_get tp (k_fetch k)) as [[off maxb]|]; [|discriminate Hin]. injection Hin as <-.
    unfold mbind, mtry, ret, get_client, get_env.
    destruct (fetch_messages _ s) as [[resps|e|w] s2]; reflexivity.
Qed.

(* a fetch that fails - e.g. with CorruptMessage - fails the poll with the same error: no message set is handed
   out, and neither the fetch offsets nor the consumed offsets move (the damaged message is not skipped) *)
Theorem C04_consumer_poll_rejects : forall k input s e s2,
  poll_input k = Some input ->
  fetch_messages input s = (Err e, s2) ->
  exists k', consumer_poll k s = (Ok (Err e, k'), s2) /\
             k_fetch k' = k_fetch k /\ k_consumed k' = k_consumed k /\ k_client k' = cl s2.
Proof.
  intros k input s e s2 Hin Hf. exists (consumer_with_client (poll_consumer k) (cl s2)).
  rewrite (C04_consumer_poll_fetch k input s Hin), Hf. split; [reflexivity|]. apply poll_consumer_same.
Qed.

(* ====================================================================================== *)
(* D. the life of a consumer never changes the configuration of its client                *)
(* ====================================================================================== *)

Lemma k_consumer_fetch k : keeps cfgc (consumer_fetch k).
Proof.
  unfold consumer_fetch. destruct (k_retry k) as [|tp rest].
  - kb; [apply keeps_mtry, k_fetch_messages|]. intros r. kret.
  - destruct (tk_get tp (k_fetch k)) as [[off maxb]|]; [|kret].
    kb; [apply keeps_mtry, k_fetch_messages|]. intros r. kret.
Qed.

Lemma k_consumer_poll k : keeps cfgc (consumer_poll k).
Proof.
  unfold consumer_poll. kb; [apply k_consumer_fetch|]. intros [[n r] k'].
  kb; [kret|]. intros c. kb; [kret|]. intros e. cbv zeta. destruct r; kret.
Qed.

Lemma k_pop_entries : keeps cfgc pop_entries.
Proof. intros s r s' H. unfold pop_entries in H. destruct (entryq s); injection H as _ <-; reflexivity. Qed.

Lemma k_commit_consumed k : keeps cfgc (commit_consumed k).
Proof.
  unfold commit_consumed. destruct (k_group k) as [|g0 g]; [kret|].
  kb; [kret|]. intros e.
  kb; [destruct (dirty_entries k); [kret|apply k_pop_entries]|]. intros order.
  kb; [kret|]. intros os. kb; [apply k_commit_offsets|]. intros _. kb; [kret|]. intros c. kret.
Qed.

(* one public operation on a consumer, as the harness (Model/Dispatch.v) runs it: the operation starts in a state
   whose client is the consumer's, on any script; afterwards the consumer owns the client the state ends with *)
Inductive cstep : consumer -> consumer -> Prop :=
| cs_poll k s r k' s' :
    cl s = k_client k -> consumer_poll k s = (Ok (r, k'), s') -> cstep k (consumer_with_client k' (cl s'))
| cs_seek k t p o k' : consumer_seek k t p o = Ok k' -> cstep k k'
| cs_consume k t p o k' : consume_message k t p o = Ok k' -> cstep k k'
| cs_commit k s k' s' :
    cl s = k_client k -> commit_consumed k s = (Ok k', s') -> cstep k (consumer_with_client k' (cl s'))
| cs_commit_err k s e s' :
    cl s = k_client k -> commit_consumed k s = (Err e, s') -> cstep k (consumer_with_client k (cl s')).

Theorem C04_consumer_step_cfg : forall k k', cstep k k' -> cfg (k_client k') = cfg (k_client k).
Proof.
  intros k k' H. destruct H as [k s r k' s' Hc H|k t p o k' H|k t p o k' H|k s k' s' Hc H|k s e s' Hc H].
  - cbn [consumer_with_client k_client]. rewrite <- Hc. exact (k_consumer_poll k _ _ _ H).
  - unfold consumer_seek in H. destruct (topic_ref (k_assign k) t); [|discriminate H].
    destruct (tk_get _ (k_fetch k)) as [[o0 maxb]|]; [|discriminate H]. injection H as <-. reflexivity.
  - unfold consume_message in H. destruct (topic_ref (k_assign k) t); [|discriminate H].
    destruct (tk_get _ (k_fetch k)); [|discriminate H].
    destruct (tk_get _ (k_consumed k)) as [[o0 d]|]; [destruct (o0 <? o)|]; injection H as <-; reflexivity.
  - cbn [consumer_with_client k_client]. rewrite <- Hc. exact (k_commit_consumed k _ _ _ H).
  - cbn [consumer_with_client k_client]. rewrite <- Hc. exact (k_commit_consumed k _ _ _ H).
Qed.

Theorem C04_consumer_life_cfg : forall k k',
  clos_refl_trans_1n consumer cstep k k' -> cfg (k_client k') = cfg (k_client k).
Proof.
  intros k k' H. induction H as [|k k1 k2 H1 _ IH]; [reflexivity|].
  rewrite IH. apply C04_consumer_step_cfg. exact H1.
Qed.

(* ====================================================================================== *)
(* E. built with validation on: every later fetch of a damaged response is rejected       *)
(* ====================================================================================== *)

(* KafkaClient::fetch_messages on the consumer's client (client_mut / into_client), any request *)
Theorem C04_built_consumer_client_rejects :
  forall src calls s0 k0 s0' k s input corr sa pre h tps post sb acc1 s1 b s2,
  consumer_create src calls s0 = (Ok k0, s0') ->
  builder_crc src calls = true ->
  clos_refl_trans_1n consumer cstep k0 k ->
  cl s = k_client k ->
  next_corr s = (Ok corr, sa) ->
  ordered (fetch_reqs (cl sa) input) sa = (Ok (pre ++ (h, tps) :: post), sb) ->
  fetch_exchange corr pre [] sb = (Ok acc1, s1) ->
  fetch_io corr h tps s1 = (Ok b, s2) ->
  fetch_from_vec (env s) decode_depth true tps b = corrupt ->
  fetch_messages input s = (corrupt, s2).
Proof.
  intros src calls s0 k0 s0' k s input corr sa pre h tps post sb acc1 s1 b s2 Hc Hon Hlife Hcl H1 H2 H3 H4 H5.
  apply (C04_fetch_messages_rejects input s corr sa pre h tps post sb acc1 s1 b s2); try assumption.
  rewrite Hcl, (C04_consumer_life_cfg _ _ Hlife). destruct (C04_consumer_create_crc _ _ _ _ _ Hc) as [-> _].
  exact Hon.
Qed.

(* Consumer::poll *)
Theorem C04_built_consumer_rejects :
  forall src calls s0 k0 s0' k s input corr sa pre h tps post sb acc1 s1 b s2,
  consumer_create src calls s0 = (Ok k0, s0') ->
  builder_crc src calls = true ->
  clos_refl_trans_1n consumer cstep k0 k ->
  cl s = k_client k ->
  poll_input k = Some input ->
  next_corr s = (Ok corr, sa) ->
  ordered (fetch_reqs (cl sa) input) sa = (Ok (pre ++ (h, tps) :: post), sb) ->
  fetch_exchange corr pre [] sb = (Ok acc1, s1) ->
  fetch_io corr h tps s1 = (Ok b, s2) ->
  fetch_from_vec (env s) decode_depth true tps b = corrupt ->
  exists k', consumer_poll k s = (Ok (corrupt, k'), s2) /\
             k_fetch k' = k_fetch k /\ k_consumed k' = k_consumed k /\ k_client k' = cl s2.
Proof.
  intros src calls s0 k0 s0' k s input corr sa pre h tps post sb acc1 s1 b s2 Hc Hon Hlife Hcl Hin H1 H2 H3 H4 H5.
  apply (C04_consumer_poll_rejects k input s _ s2 Hin).
  exact (C04_built_consumer_client_rejects src calls s0 k0 s0' k s input corr sa pre h tps post sb acc1 s1 b s2
           Hc Hon Hlife Hcl H1 H2 H3 H4 H5).
Qed.

(* ====================================================================================== *)
(* G. validation off, at the client: KafkaClient::fetch_messages never fails with a Kafka  *)
(*    error code - in particular never with CorruptMessage - whatever the broker sends     *)
(* ====================================================================================== *)
(* (the decoder half is C04Extra.C04_off_never_corrupt_response; here: no I/O step and no request encoder
   produces a Kafka code either, and the flag read by every per-broker round is the configured one) *)
Definition nkM {A} (m : Net.M A) : Prop := forall s, nk (fst (m s)).

Lemma nk_err_cast {A B} e : nk (@Err A e) -> nk (@Err B e).
Proof. intros H c E. injection E as ->. exact (H c eq_refl). Qed.

Lemma nkM_bind {A B} (m : Net.M A) (f : A -> Net.M B) : nkM m -> (forall a, nkM (f a)) -> nkM (mbind m f).
Proof.
  intros Hm Hf s. unfold mbind. specialize (Hm s).
  destruct (m s) as [[a|e|w] s1]; cbn [fst] in *; [apply Hf| |apply nk_panic].
  intros c E. injection E as ->. exact (Hm c eq_refl).
Qed.
Lemma nkM_ret {A} (a : A) : nkM (ret a). Proof. intros s. apply nk_ok. Qed.
Lemma nkM_fail {A} e : (forall c, e <> EKafka c) -> nkM (@fail A e).
Proof. intros H s c E. cbn in E. injection E as E. exact (H c E). Qed.
Lemma nkM_lift {A} (x : res A) : nk x -> nkM (lift x). Proof. intros H s. exact H. Qed.
Lemma nkM_with_fuel {A} (f : nat -> Net.M A) : (forall n, nkM (f n)) -> nkM (with_fuel f).
Proof. intros H s. unfold with_fuel. apply H. Qed.
Lemma nkM_io op : nkM (io op).
Proof. intros s. unfold io. destruct (script s); cbn [fst]; [intros c; discriminate|apply nk_ok]. Qed.

Ltac nkfail := apply nkM_fail; intros ?; discriminate.

Lemma nkM_write_all h fuel : forall buf, nkM (write_all fuel h buf).
Proof.
  induction fuel as [|f IH]; intros [|b0 buf]; cbn [write_all]; try (apply nkM_ret); try nkfail.
  apply nkM_bind; [apply nkM_io|].
  intros [ok|k| |e|bs| |e|]; try nkfail; [|apply IH].
  destruct (k <=? 0); [nkfail|apply IH].
Qed.
Lemma nkM_send h msg : nkM (send h msg).
Proof.
  apply nkM_bind; [apply nkM_with_fuel; intros n; apply nkM_write_all|]. intros _. apply nkM_ret.
Qed.
Lemma nkM_read_exact h fuel : forall n acc, nkM (read_exact fuel h n acc).
Proof.
  induction fuel as [|f IH]; intros n acc; cbn [read_exact]; destruct (n <=? 0);
    try (apply nkM_ret); try nkfail.
  apply nkM_bind; [apply nkM_io|].
  intros [ok|k| |e|[|b0 bs]| |e|]; try nkfail; apply IH.
Qed.
Lemma nkM_read_chunks h fuel : forall rem acc, nkM (read_chunks fuel h rem acc).
Proof.
  induction fuel as [|f IH]; intros rem acc; cbn [read_chunks]; destruct (rem <=? 0);
    try (apply nkM_ret); try nkfail.
  cbv zeta. apply nkM_bind; [apply nkM_with_fuel; intros g; apply nkM_read_exact|]. intros b. apply IH.
Qed.
Lemma nkM_get_response_bytes h : nkM (get_response_bytes h).
Proof.
  unfold get_response_bytes, get_response_size, read_exact_alloc.
  apply nkM_bind.
  - apply nkM_bind; [apply nkM_with_fuel; intros g; apply nkM_read_exact|].
    intros b. cbv zeta. destruct (be_dec_s b <? 0); [nkfail|apply nkM_ret].
  - intros size. apply nkM_with_fuel. intros f. apply nkM_read_chunks.
Qed.
Lemma nkM_new_conn h : nkM (new_conn h).
Proof.
  apply nkM_bind; [apply nkM_io|]. intros [[|]|k| |e|bs| |e|]; try nkfail. apply nkM_ret.
Qed.
Lemma nkM_get_conn h : nkM (get_conn h).
Proof.
  unfold get_conn. apply nkM_bind; [intros s; apply nk_ok|]. intros c.
  destruct (in_pool h (conns c)).
  - destruct (idle_expired (cfg c)); [|apply nkM_ret].
    apply nkM_bind; [apply nkM_new_conn|]. intros _. unfold shutdown.
    apply nkM_bind; [apply nkM_io|]. intros _. apply nkM_ret.
  - apply nkM_bind; [apply nkM_new_conn|]. intros _. intros s. apply nk_ok.
Qed.
Lemma nkM_send_request h payload : nk payload -> nkM (send_request h payload).
Proof. intros H. apply nkM_bind; [apply nkM_lift; exact H|]. intros p. apply nkM_send. Qed.

Lemma nk_enc_str s : nk (enc_str s).
Proof. unfold enc_str. destruct (ulen s <=? i16_max); intros c; discriminate. Qed.
Lemma nk_enc_all {A} (f : A -> res bytes) : (forall a, nk (f a)) -> forall xs, nk (enc_all f xs).
Proof.
  intros H. induction xs as [|x r IH]; cbn [enc_all]; [apply nk_ok|].
  apply nk_bind; [apply H|]. intros a. apply nk_bind; [exact IH|]. intros b. apply nk_ok.
Qed.
Lemma nk_enc_array_unchecked {A} (f : A -> res bytes) : (forall a, nk (f a)) -> forall xs, nk (enc_array_unchecked f xs).
Proof. intros H xs. unfold enc_array_unchecked. apply nk_bind; [apply nk_enc_all; exact H|]. intros b. apply nk_ok. Qed.
Lemma nk_enc_fetch_req corr cid w mn tps : nk (enc_fetch_req corr cid w mn tps).
Proof.
  unfold enc_fetch_req. apply nk_bind.
  - unfold enc_header. apply nk_bind; [apply nk_enc_str|]. intros c. apply nk_ok.
  - intros h. apply nk_bind; [|intros b; apply nk_ok].
    apply nk_enc_array_unchecked. intros [t ps]. apply nk_bind; [apply nk_enc_str|]. intros n.
    apply nk_bind; [|intros pb; apply nk_ok].
    apply nk_enc_array_unchecked. intros [p [off maxb]]. apply nk_ok.
Qed.

Lemma nkM_fetch_io corr h tps : nkM (fetch_io corr h tps).
Proof.
  unfold fetch_io. apply nkM_bind; [intros s; apply nk_ok|]. intros c.
  apply nkM_bind; [intros s; apply nk_ok|]. intros fo. cbv zeta.
  apply nkM_bind; [apply nkM_get_conn|]. intros _.
  apply nkM_bind; [apply nkM_send_request, nk_enc_fetch_req|]. intros _. apply nkM_get_response_bytes.
Qed.

Lemma fetch_exchange_off_nk corr reqs : forall acc s,
  fetch_crc_validation (cfg (cl s)) = false -> nk (fst (fetch_exchange corr reqs acc s)).
Proof.
  induction reqs as [|[h tps] r IH]; intros acc s Hoff; [apply nk_ok|].
  rewrite C04_fetch_exchange_cons. pose proof (nkM_fetch_io corr h tps s) as Hio.
  destruct (fetch_io corr h tps s) as [[b|e|w] s1] eqn:E; cbn [fst] in *; [|exact (nk_err_cast e Hio)|apply nk_panic].
  rewrite Hoff. pose proof (C04_off_never_corrupt_response (env s) decode_depth tps b) as Hd.
  destruct (fetch_from_vec (env s) decode_depth false tps b) as [resp|e|w]; cbn [fst].
  - apply IH. destruct (keeps_fetch_io corr h tps s _ _ E) as [_ Hc]. rewrite Hc. exact Hoff.
  - exact (nk_err_cast e Hd).
  - apply nk_panic.
Qed.

(* "With validation disabled, a wrong checksum alone never causes rejection", at the observation point of the
   property: whatever the script delivers, a fetch_messages call of a client whose flag is off does not end with
   Err(Kafka(code)) for ANY code - CorruptMessage included *)
Theorem C04_off_fetch_messages_never_corrupt : forall input s r s' c,
  fetch_crc_validation (cfg (cl s)) = false ->
  fetch_messages input s = (r, s') -> r <> Err (EKafka c).
Proof.
  intros input s r s' c Hoff H. unfold fetch_messages in H.
  bind_inv H corr sa H1 H2.
  - destruct (keeps_next_corr s _ _ H1) as [_ C1].
    unfold mbind at 1 in H2. unfold get_client at 1 in H2. cbv beta iota in H2.
    bind_inv H2 reqs sb H3 H4.
    + destruct (keeps_ordered _ sa _ _ H3) as [_ C2].
      assert (Hoff' : fetch_crc_validation (cfg (cl sb)) = false) by (rewrite C2, C1; exact Hoff).
      pose proof (fetch_exchange_off_nk corr reqs [] sb Hoff' c) as Hn. rewrite H4 in Hn. exact Hn.
    + subst r. unfold ordered in H3. destruct (fetch_reqs (cl sa) input); [discriminate H3|].
      unfold mbind, pop_hosts, ret in H3. destruct (hostq sa); discriminate H3.
    + subst r. discriminate.
  - subst r. exfalso. unfold next_corr, mbind, get_client in H1.
    destruct (next_correlation_id (cs (cl s))) as [n x].
    unfold set_cs, mbind, get_client, set_client, ret in H1. cbv beta iota in H1. discriminate H1.
  - subst r. discriminate.
Qed.

(* the consumer built with validation off never sees CorruptMessage from its client's fetch_messages, at any
   point of its life *)
Theorem C04_built_consumer_off_never_corrupt : forall src calls s0 k0 s0' k s input r s' c,
  consumer_create src calls s0 = (Ok k0, s0') ->
  builder_crc src calls = false ->
  clos_refl_trans_1n consumer cstep k0 k ->
  cl s = k_client k ->
  fetch_messages input s = (r, s') -> r <> Err (EKafka c).
Proof.
  intros src calls s0 k0 s0' k s input r s' c Hc Hoff Hlife Hcl H.
  apply (C04_off_fetch_messages_never_corrupt input s r s' c); [|exact H].
  rewrite Hcl, (C04_consumer_life_cfg _ _ Hlife). destruct (C04_consumer_create_crc _ _ _ _ _ Hc) as [-> _].
  exact Hoff.
Qed.

(* ====================================================================================== *)
(* F. examples (non-vacuity): seed C04-4's scenario on a scripted connection              *)
(* ====================================================================================== *)
(* a client with loaded metadata (topic "t", two partitions on broker h:9092) and validation switched OFF is
   handed to Consumer::from_client; the builder is told with_fetch_crc_validation(true) *)
Definition xb_calls : list cbuilder_call := [CWithTopic (tag "t"); CWithCrc true].
Definition xb_calls_inherit : list cbuilder_call := [CWithTopic (tag "t")].
Definition xb_offsets : bytes :=
  print_offsets {| wr_corr := 1;
                   wr_topics := Some [ {| wt_name := Some (tag "t");
                                          wt_partitions := Some [ {| wo_partition := 0; wo_error := 0; wo_offsets := Some [10] |};
                                                                  {| wo_partition := 1; wo_error := 0; wo_offsets := Some [10] |} ] |} ] |}.
(* create: no group, so one offset lookup (latest) *)
Definition xb_st0 : st :=
  {| script := [OConn true; OWrote 1000; OData (p_i32 (Z.of_nat (length xb_offsets))); OData xb_offsets];
     trace := []; anyq := []; hostq := []; fetchq := []; entryq := []; cl := x_client false; env := ex_cz |}.
Local Notation xb_created calls := (consumer_create (inr (x_client false)) calls xb_st0) (only parsing).
Definition xb_dummy : consumer :=
  {| k_client := x_client false; k_group := []; k_fallback := FbLatest; k_retry_limit := 0; k_assign := [];
     k_fetch := []; k_retry := []; k_consumed := [] |}.
Definition xb_k (calls : list cbuilder_call) : consumer :=
  match fst (xb_created calls) with Ok k => k | _ => xb_dummy end.
(* one step of life: seek partition 0 to offset 12 *)
Definition xb_k1 (calls : list cbuilder_call) : consumer :=
  match consumer_seek (xb_k calls) (tag "t") 0 12 with Ok k => k | _ => xb_dummy end.
(* the poll: the connection is pooled; the broker's answer holds C04Extra's damaged set (offsets 10..14, a bit of
   the value of message 13 flipped) in partition 1 and the intact set in partition 0 *)
Definition xb_resp : w_topics_resp w_fetch_part :=
  {| wr_corr := 2;
     wr_topics := Some [ {| wt_name := Some (tag "t");
                            wt_partitions := Some [ {| wfe_partition := 0; wfe_error := 0; wfe_highwater := 15;
                                                       wfe_message_set := xs_good |};
                                                    {| wfe_partition := 1; wfe_error := 0; wfe_highwater := 15;
                                                       wfe_message_set := xs_bad |} ] |} ] |}.
Definition xb_payload : bytes := print_fetch xb_resp.
Definition xb_poll_st (k : consumer) : st :=
  {| script := [OWrote 1000; OData (p_i32 (Z.of_nat (length xb_payload))); OData xb_payload];
     trace := []; anyq := []; hostq := []; fetchq := []; entryq := []; cl := k_client k; env := ex_cz |}.
Definition xb_tps : fetch_tps := [(tag "t", [(0, (12, 32768)); (1, (10, 32768))])].
Definition xb_input (k : consumer) : list fetch_partition :=
  match poll_input k with Some i => i | None => [] end.

Example C04_consumer_create_crc_ex :
  fetch_crc_validation (cfg (x_client false)) = false /\
  xb_created xb_calls = (Ok (xb_k xb_calls), snd (xb_created xb_calls)) /\
  builder_crc (inr (x_client false)) xb_calls = true /\
  fetch_crc_validation (cfg (k_client (xb_k xb_calls))) = true /\
  k_fetch (xb_k xb_calls) = [((0, 0), (10, 32768)); ((0, 1), (10, 32768))] /\
  (* control: the setting is inherited when the builder is not told anything *)
  xb_created xb_calls_inherit = (Ok (xb_k xb_calls_inherit), snd (xb_created xb_calls_inherit)) /\
  fetch_crc_validation (cfg (k_client (xb_k xb_calls_inherit))) = false.
Proof.
  split; [reflexivity|]. split; [vm_compute; reflexivity|]. split; [reflexivity|].
  split; [exact (proj1 (C04_consumer_create_crc (inr (x_client false)) xb_calls xb_st0 (xb_k xb_calls)
                          (snd (xb_created xb_calls)) ltac:(vm_compute; reflexivity)))|].
  split; [vm_compute; reflexivity|]. split; vm_compute; reflexivity.
Qed.

Example C04_built_consumer_rejects_ex :
  let k := xb_k1 xb_calls in
  let s := xb_poll_st k in
  let sa := snd (next_corr s) in
  let sb := snd (ordered (fetch_reqs (cl sa) (xb_input k)) sa) in
  let s2 := snd (fetch_io 2 x_h xb_tps sb) in
  xb_created xb_calls = (Ok (xb_k xb_calls), snd (xb_created xb_calls)) /\
  builder_crc (inr (x_client false)) xb_calls = true /\
  clos_refl_trans_1n consumer cstep (xb_k xb_calls) k /\
  cl s = k_client k /\
  poll_input k = Some (xb_input k) /\ length (xb_input k) = 2%nat /\
  next_corr s = (Ok 2, sa) /\
  ordered (fetch_reqs (cl sa) (xb_input k)) sa = (Ok ([] ++ (x_h, xb_tps) :: []), sb) /\
  fetch_exchange 2 [] [] sb = (Ok [], sb) /\
  fetch_io 2 x_h xb_tps sb = (Ok xb_payload, s2) /\
  fetch_from_vec (env s) decode_depth true xb_tps xb_payload = corrupt /\
  (exists k', consumer_poll k s = (Ok (corrupt, k'), s2) /\
              k_fetch k' = k_fetch k /\ k_consumed k' = k_consumed k /\ k_client k' = cl s2) /\
  fetch_messages (xb_input k) s = (corrupt, s2) /\
  (* control: the same poll by the consumer that inherited "off": the damaged set is delivered *)
  (exists ms k' s', consumer_poll (xb_k1 xb_calls_inherit) (xb_poll_st (xb_k1 xb_calls_inherit)) = (Ok (Ok ms, k'), s') /\
                    length (iterate ms) = 2%nat).
Proof.
  cbv zeta.
  set (k := xb_k1 xb_calls). set (s := xb_poll_st k).
  assert (H0 : xb_created xb_calls = (Ok (xb_k xb_calls), snd (xb_created xb_calls))) by (vm_compute; reflexivity).
  assert (Hon : builder_crc (inr (x_client false)) xb_calls = true) by reflexivity.
  assert (Hlife : clos_refl_trans_1n consumer cstep (xb_k xb_calls) k).
  { eapply rt1n_trans; [|apply rt1n_refl]. apply (cs_seek (xb_k xb_calls) (tag "t") 0 12). vm_compute. reflexivity. }
  assert (Hcl : cl s = k_client k) by (subst s; unfold xb_poll_st; cbn [cl]; reflexivity).
  assert (Hin : poll_input k = Some (xb_input k)) by (vm_compute; reflexivity).
  assert (H1 : next_corr s = (Ok 2, snd (next_corr s))) by (vm_compute; reflexivity).
  set (sa := snd (next_corr s)) in *.
  assert (H2 : ordered (fetch_reqs (cl sa) (xb_input k)) sa =
               (Ok ([] ++ (x_h, xb_tps) :: []), snd (ordered (fetch_reqs (cl sa) (xb_input k)) sa)))
    by (vm_compute; reflexivity).
  set (sb := snd (ordered (fetch_reqs (cl sa) (xb_input k)) sa)) in *.
  assert (H3 : fetch_exchange 2 [] [] sb = (Ok [], sb)) by reflexivity.
  assert (H4 : fetch_io 2 x_h xb_tps sb = (Ok xb_payload, snd (fetch_io 2 x_h xb_tps sb))) by (vm_compute; reflexivity).
  assert (H5 : fetch_from_vec (env s) decode_depth true xb_tps xb_payload = corrupt) by (vm_compute; reflexivity).
  split; [exact H0|]. split; [exact Hon|]. split; [exact Hlife|]. split; [exact Hcl|]. split; [exact Hin|].
  split; [vm_compute; reflexivity|]. split; [exact H1|]. split; [exact H2|]. split; [exact H3|].
  split; [exact H4|]. split; [exact H5|]. split; [|split].
  - exact (C04_built_consumer_rejects (inr (x_client false)) xb_calls xb_st0 (xb_k xb_calls)
             (snd (xb_created xb_calls)) k s (xb_input k) 2 sa
             [] x_h xb_tps [] sb [] sb xb_payload (snd (fetch_io 2 x_h xb_tps sb)) H0 Hon Hlife Hcl Hin H1 H2 H3 H4 H5).
  - exact (C04_built_consumer_client_rejects (inr (x_client false)) xb_calls xb_st0 (xb_k xb_calls)
             (snd (xb_created xb_calls)) k s (xb_input k)
             2 sa [] x_h xb_tps [] sb [] sb xb_payload (snd (fetch_io 2 x_h xb_tps sb)) H0 Hon Hlife Hcl H1 H2 H3 H4 H5).
  - eexists. eexists. eexists. split; [vm_compute; reflexivity|vm_compute; reflexivity].
Qed.

(* both outcomes of C04_consumer_poll_fetch occur; a failed poll leaves the fetch offsets where they were *)
Example C04_consumer_poll_fetch_ex :
  let k := xb_k1 xb_calls in
  poll_input k = Some (xb_input k) /\
  (exists s2, fetch_messages (xb_input k) (xb_poll_st k) = (corrupt, s2)) /\
  (exists k' s2, consumer_poll k (xb_poll_st k) = (Ok (corrupt, k'), s2) /\
                 k_fetch k' = [((0, 0), (12, 32768)); ((0, 1), (10, 32768))]).
Proof.
  cbv zeta. split; [vm_compute; reflexivity|]. split; [eexists; vm_compute; reflexivity|].
  eexists. eexists. split; vm_compute; reflexivity.
Qed.

(* validation off (inherited): the client's fetch delivers the damaged response; and the one way a poll of such a
   consumer can still end with CorruptMessage: the BROKER says so in a partition header (error code 2) *)
Definition xb_resp_code2 : w_topics_resp w_fetch_part :=
  {| wr_corr := 2;
     wr_topics := Some [ {| wt_name := Some (tag "t");
                            wt_partitions := Some [ {| wfe_partition := 0; wfe_error := 2; wfe_highwater := -1;
                                                       wfe_message_set := [] |} ] |} ] |}.
Definition xb_poll_st_code2 (k : consumer) : st :=
  {| script := [OWrote 1000; OData (p_i32 (Z.of_nat (length (print_fetch xb_resp_code2)))); OData (print_fetch xb_resp_code2)];
     trace := []; anyq := []; hostq := []; fetchq := []; entryq := []; cl := k_client k; env := ex_cz |}.

Example C04_off_fetch_messages_never_corrupt_ex :
  let k := xb_k1 xb_calls_inherit in
  fetch_crc_validation (cfg (cl (xb_poll_st k))) = false /\
  (exists resps s', fetch_messages (xb_input k) (xb_poll_st k) = (Ok resps, s') /\ length resps = 1%nat) /\
  (forall r s' c, fetch_messages (xb_input k) (xb_poll_st k) = (r, s') -> r <> Err (EKafka c)).
Proof.
  cbv zeta. assert (Hoff : fetch_crc_validation (cfg (cl (xb_poll_st (xb_k1 xb_calls_inherit)))) = false)
    by (vm_compute; reflexivity).
  split; [exact Hoff|]. split; [eexists; eexists; split; vm_compute; reflexivity|].
  intros r s' c H. exact (C04_off_fetch_messages_never_corrupt _ _ r s' c Hoff H).
Qed.

Example C04_off_poll_broker_code_ex :
  let k := xb_k1 xb_calls_inherit in
  fetch_crc_validation (cfg (k_client k)) = false /\
  exists k' s', consumer_poll k (xb_poll_st_code2 k) = (Ok (corrupt, k'), s').
Proof. cbv zeta. split; [vm_compute; reflexivity|]. eexists. eexists. vm_compute. reflexivity. Qed.

(* ---------------------------------------------------------------------------------------- *)
Print Assumptions C04_builder_crc.
Print Assumptions C04_builder_crc_last.
Print Assumptions C04_builder_crc_default.
Print Assumptions C04_consumer_create_cfg.
Print Assumptions C04_consumer_create_crc.
Print Assumptions C04_consumer_create_crc_on.
Print Assumptions C04_consumer_create_crc_off.
Print Assumptions C04_consumer_poll_fetch.
Print Assumptions C04_consumer_poll_rejects.
Print Assumptions C04_consumer_step_cfg.
Print Assumptions C04_consumer_life_cfg.
Print Assumptions C04_built_consumer_client_rejects.
Print Assumptions C04_built_consumer_rejects.
Print Assumptions C04_off_fetch_messages_never_corrupt.
Print Assumptions C04_built_consumer_off_never_corrupt.
