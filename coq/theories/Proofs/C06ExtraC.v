(* C06ExtraC: third adequacy pass for C06 (seeded changes C06-5 and C06-6).

   Both seeds are ALREADY covered by Props/C06.v: mirrored into the model, each of them falsifies C06_refines
   (and with it C06_refines_code, C06_history, C06_route_after_load, C06_call_history_fresh).  This was
   confirmed on scratch copies of the development by proving the NEGATION of the statement of C06_refines on
   the mutated model (witnesses: cstate_new and C06Facts.ex_md1, which lists partitions [1; 0], for C06-5;
   cstate_new and a response whose partition a/1 has leader 2 and pm_error 9 for C06-6).
   The theorems below are therefore not needed for coverage; they state the two facts the seeds violate
   DIRECTLY, without going through `merge`, and close the clause that the earlier passes left open.

   A. What a response entry means, whatever its position in the listing and whatever else it carries
      (C06-5: position used as id; C06-6: error code read as "no leader"):
        C06_listed_partition_routed        after a load, the partition with id `pm_id pm` of a listed topic is
                                           routed to the address of node `pm_leader pm`, for EVERY entry pm of
                                           the topic's listing,
        C06_listed_leader_routed           ... which is the advertised host:port if the response advertises
                                           that node,
        C06_listed_leaderless_unroutable   ... and nowhere if the node is neither advertised nor known,
        C06_update_ignores_error_codes     update_metadata does not read the correlation id, the topic and
                                           partition error codes, the replica and the isr lists (concrete
                                           states, no invariant, no `small`),
        C06_listing_order_irrelevant       update_metadata does not depend on the order in which a topic's
                                           partitions are listed, provided no id is listed twice (concrete
                                           states, no invariant, no `small`).
   B. "no-host-reachable is returned ONLY IF none can be reached" (listed as not done in C06ExtraB):
        C06_response_never_no_host         reading and decoding a metadata response never yields
                                           NoHostReachable,
        C06_no_host_reachable_iff          fetch_metadata_hosts returns NoHostReachable exactly if, host after
                                           host in list order, the connection could not be obtained or the
                                           request could not be sent (`unreachable`),
        C06_fetch_metadata_no_host_iff     the same for the entry point fetch_metadata,
        C06_answered_not_no_host           if some host accepted the connection and the request, the result
                                           is whatever reading the response gives, never NoHostReachable.

   Not done: the group coordinator cache (deliberately outside the view). *)
From Coq Require Import ZifyBool Sorting.Permutation.
From KV Require Import Base.Prelude Gen.Consts Model.Codecs Model.Requests Model.Responses
                       Model.ClientState Model.Net Model.Client.
From KV Require Import Proofs.BytesFacts Proofs.NetFacts Proofs.C06Facts Proofs.C06Extra.

(* ================================================================================================ *)
(* A1. one entry of the listing: id -> leader, wherever it stands                                   *)
(* ================================================================================================ *)

Lemma listed_leader_in : forall pms i l, listed_leader pms i = Some l -> In i (map pm_id pms).
Proof.
  induction pms as [|q r IH]; intros i l H; cbn [listed_leader map In] in *; [discriminate|].
  destruct (listed_leader r i) as [l'|] eqn:E.
  - right. eapply IH. exact E.
  - destruct (pm_id q =? i) eqn:Eq; [left; lia|discriminate].
Qed.

Lemma listed_leader_entry : forall pms pm,
  NoDup (map pm_id pms) -> In pm pms -> listed_leader pms (pm_id pm) = Some (pm_leader pm).
Proof.
  induction pms as [|q r IH]; intros pm Hnd Hin; [destruct Hin|].
  cbn [map] in Hnd. inversion Hnd as [|x xs Hnotin Hnd' Heq]; subst.
  cbn [listed_leader]. destruct Hin as [->|Hin].
  - destruct (listed_leader r (pm_id pm)) as [l|] eqn:E.
    + exfalso. apply Hnotin. eapply listed_leader_in. exact E.
    + rewrite Z.eqb_refl. reflexivity.
  - rewrite (IH pm Hnd' Hin). reflexivity.
Qed.

Lemma iota_nodup : forall n from, NoDup (iota_z n from).
Proof.
  induction n as [|n IH]; intros from; cbn [iota_z]; constructor; [|apply IH].
  rewrite iota_in. lia.
Qed.

Lemma wf_topic_nodup tm : wf_topic tm -> NoDup (map pm_id (tm_partitions tm)).
Proof.
  intros H. eapply Permutation_NoDup; [apply Permutation_sym; exact H|apply iota_nodup].
Qed.

Lemma wf_topic_range tm pm : wf_topic tm -> In pm (tm_partitions tm) ->
  0 <= pm_id pm < ulen (tm_partitions tm).
Proof.
  intros H Hin.
  assert (Hi : In (pm_id pm) (iota_z (length (tm_partitions tm)) 0)).
  { eapply Permutation_in; [exact H|]. apply in_map. exact Hin. }
  rewrite iota_in in Hi. unfold ulen. lia.
Qed.

Lemma last_topic_in : forall tms t tm, last_topic tms t = Some tm -> In tm tms /\ tm_topic tm = t.
Proof.
  induction tms as [|q r IH]; intros t tm H; cbn [last_topic] in H; [discriminate|].
  destruct (last_topic r t) as [x|] eqn:E.
  - inversion H; subst. destruct (IH _ _ E) as [Hin Ht]. split; [right; exact Hin|exact Ht].
  - destruct (bytes_eqb (tm_topic q) t) eqn:Eb; [|discriminate].
    inversion H; subst. apply bytes_eqb_eq in Eb. split; [left; reflexivity|exact Eb].
Qed.

(* THE statement both seeded changes violate: every entry `pm` of the (last) listing of a topic decides the
   route of partition `pm_id pm` - by its id, not by its position (C06-5), and by its leader field alone,
   not by its error code (C06-6) *)
Theorem C06_listed_partition_routed : forall s md s' tm pm,
  inv s -> wf_md md -> small s' -> update_metadata s md = Ok s' ->
  last_topic (md_topics md) (tm_topic tm) = Some tm -> In pm (tm_partitions tm) ->
  find_broker s' (tm_topic tm) (pm_id pm) = host_after s md (pm_leader pm).
Proof.
  intros s md s' tm pm Hinv Hwf Hsmall Hu Hl Hin.
  rewrite (C06_route_after_load _ _ _ (tm_topic tm) (pm_id pm) Hinv Hwf Hsmall Hu), Hl.
  destruct (last_topic_in _ _ _ Hl) as [Htm _].
  assert (Hwt : wf_topic tm). { unfold wf_md in Hwf. rewrite Forall_forall in Hwf. apply Hwf. exact Htm. }
  pose proof (wf_topic_range _ _ Hwt Hin) as Hr.
  replace ((0 <=? pm_id pm) && (pm_id pm <? ulen (tm_partitions tm))) with true by lia.
  rewrite (listed_leader_entry _ _ (wf_topic_nodup _ Hwt) Hin). reflexivity.
Qed.

Corollary C06_listed_leader_routed : forall s md s' tm pm bm,
  inv s -> wf_md md -> small s' -> update_metadata s md = Ok s' ->
  last_topic (md_topics md) (tm_topic tm) = Some tm -> In pm (tm_partitions tm) ->
  last_broker (md_brokers md) (pm_leader pm) = Some bm ->
  find_broker s' (tm_topic tm) (pm_id pm) = Some (host_port (bm_host bm) (bm_port bm)).
Proof.
  intros s md s' tm pm bm Hinv Hwf Hsmall Hu Hl Hin Hb.
  rewrite (C06_listed_partition_routed _ _ _ _ _ Hinv Hwf Hsmall Hu Hl Hin).
  unfold host_after. rewrite Hb. reflexivity.
Qed.

Corollary C06_listed_leaderless_unroutable : forall s md s' tm pm,
  inv s -> wf_md md -> small s' -> update_metadata s md = Ok s' ->
  last_topic (md_topics md) (tm_topic tm) = Some tm -> In pm (tm_partitions tm) ->
  last_broker (md_brokers md) (pm_leader pm) = None -> ~ In (pm_leader pm) (map b_node (brokers s)) ->
  find_broker s' (tm_topic tm) (pm_id pm) = None.
Proof.
  intros s md s' tm pm Hinv Hwf Hsmall Hu Hl Hin Hb Hn.
  rewrite (C06_listed_partition_routed _ _ _ _ _ Hinv Hwf Hsmall Hu Hl Hin).
  unfold host_after. rewrite Hb. apply assoc_z_none. rewrite map_fst_bpair. exact Hn.
Qed.

(* the cluster of the two seeds: nodes 1, 2, 3; topic t listed as [3; 2; 0; 1] with t/0 -> 1, t/1 -> 2
   (ReplicaNotAvailable = 9 and a live leader), t/2 -> 3, t/3 -> -1 (LeaderNotAvailable = 5) *)
Definition exc_pm (e id leader : Z) : partition_md :=
  {| pm_error := e; pm_id := id; pm_leader := leader; pm_replicas := [leader; 1]; pm_isr := [leader] |}.
Definition exc_tm : topic_md :=
  {| tm_error := 0; tm_topic := tag "t";
     tm_partitions := [exc_pm 5 3 (-1); exc_pm 0 2 3; exc_pm 0 0 1; exc_pm 9 1 2] |}.
Definition exc_md : metadata_resp :=
  {| md_corr := 1;
     md_brokers := [ex_bm 1 (tag "b1") 9092; ex_bm 2 (tag "b2") 9092; ex_bm 3 (tag "b3") 9092];
     md_topics := [exc_tm] |}.
Definition exc_s : cstate := ex_load cstate_new exc_md.

Example ex_wf_exc : wf_md exc_md.
Proof.
  constructor; [|constructor]. unfold wf_topic. cbn.
  (* [3;2;0;1] ~ [0;1;2;3] *)
  apply Permutation_sym.
  apply (perm_trans (l' := [3; 0; 1; 2])).
  - change [0; 1; 2; 3] with ([0; 1; 2] ++ [3]). change [3; 0; 1; 2] with ([3] ++ [0; 1; 2]).
    apply Permutation_app_comm.
  - apply perm_skip.
    change [0; 1; 2] with ([0; 1] ++ [2]). change [2; 0; 1] with ([2] ++ [0; 1]).
    apply Permutation_app_comm.
Qed.

Example ex_listed_partition_routed :
  inv cstate_new /\ wf_md exc_md /\ small exc_s /\ update_metadata cstate_new exc_md = Ok exc_s /\
  last_topic (md_topics exc_md) (tm_topic exc_tm) = Some exc_tm /\
  In (exc_pm 9 1 2) (tm_partitions exc_tm) /\ In (exc_pm 5 3 (-1)) (tm_partitions exc_tm) /\
  last_broker (md_brokers exc_md) 2 = Some (ex_bm 2 (tag "b2") 9092) /\
  last_broker (md_brokers exc_md) (-1) = None /\
  find_broker exc_s (tag "t") 0 = Some (tag "b1:9092") /\
  find_broker exc_s (tag "t") 1 = Some (tag "b2:9092") /\
  find_broker exc_s (tag "t") 2 = Some (tag "b3:9092") /\
  find_broker exc_s (tag "t") 3 = None.
Proof.
  split; [exact C06_inv_init|]. split; [exact ex_wf_exc|].
  split; [unfold small; vm_compute; discriminate|].
  vm_compute. repeat split; try reflexivity; tauto.
Qed.

(* ================================================================================================ *)
(* A2. update_metadata reads node / host / port, topic name, partition id and leader - nothing else *)
(* ================================================================================================ *)

Definition strip_pm (pm : partition_md) : partition_md :=
  {| pm_error := 0; pm_id := pm_id pm; pm_leader := pm_leader pm; pm_replicas := []; pm_isr := [] |}.
Definition strip_tm (tm : topic_md) : topic_md :=
  {| tm_error := 0; tm_topic := tm_topic tm; tm_partitions := map strip_pm (tm_partitions tm) |}.
Definition strip_md (md : metadata_resp) : metadata_resp :=
  {| md_corr := 0; md_brokers := md_brokers md; md_topics := map strip_tm (md_topics md) |}.

Lemma sync_fun_strip idx : forall pms ps, sync_fun idx (map strip_pm pms) ps = sync_fun idx pms ps.
Proof.
  induction pms as [|pm r IH]; intros ps; cbn [map sync_fun]; [reflexivity|].
  cbn [strip_pm pm_id pm_leader]. rewrite !IH. reflexivity.
Qed.

Lemma topics_fun_strip idx : forall tms tps, topics_fun idx (map strip_tm tms) tps = topics_fun idx tms tps.
Proof.
  induction tms as [|tm r IH]; intros tps; cbn [map topics_fun]; [reflexivity|].
  cbn [strip_tm tm_topic tm_partitions]. unfold topic_vec. rewrite sync_fun_strip, map_length. apply IH.
Qed.

Theorem C06_update_ignores_error_codes : forall s md,
  update_metadata s (strip_md md) = update_metadata s md.
Proof.
  intros s md. rewrite !update_metadata_eq. unfold upd_fun, update_brokers.
  cbn [strip_md md_brokers md_topics]. rewrite topics_fun_strip. reflexivity.
Qed.

Example ex_update_ignores_error_codes :
  strip_md exc_md <> exc_md /\ update_metadata cstate_new (strip_md exc_md) = Ok exc_s.
Proof. split; [intro H; discriminate H|vm_compute; reflexivity]. Qed.

(* ================================================================================================ *)
(* A3. the order of a topic's partition listing is irrelevant                                       *)
(* ================================================================================================ *)

Lemma set_nth_comm {A} : forall (l : list A) i j a b, i <> j ->
  set_nth (set_nth l i a) j b = set_nth (set_nth l j b) i a.
Proof.
  induction l as [|x l IH]; intros i j a b Hne; [destruct i, j; reflexivity|].
  destruct i as [|i], j as [|j]; cbn [set_nth]; try reflexivity; [congruence|].
  f_equal. apply IH. congruence.
Qed.

Lemma sync_fun_perm idx : forall pms pms', Permutation pms pms' -> NoDup (map pm_id pms) ->
  forall ps, sync_fun idx pms ps = sync_fun idx pms' ps.
Proof.
  induction 1 as [|x l l' Hp IH|x y l|l l' l'' Hp1 IH1 Hp2 IH2]; intros Hnd ps.
  - reflexivity.
  - cbn [map] in Hnd. inversion Hnd; subst. cbn [sync_fun].
    destruct ((pm_id x <? 0) || (ulen ps <=? pm_id x)); apply IH; assumption.
  - cbn [map] in Hnd. inversion Hnd as [|a b Hnotin Hnd']; subst.
    assert (Hne : pm_id y <> pm_id x). { intro E. apply Hnotin. left. symmetry. exact E. }
    cbn [sync_fun]. unfold ulen. rewrite !set_nth_length.
    destruct ((pm_id y <? 0) || (Z.of_nat (length ps) <=? pm_id y)) eqn:Ey;
    destruct ((pm_id x <? 0) || (Z.of_nat (length ps) <=? pm_id x)) eqn:Ex;
      cbn [sync_fun]; unfold ulen; rewrite ?set_nth_length, ?Ey, ?Ex; try reflexivity.
    rewrite set_nth_comm; [reflexivity|]. lia.
  - rewrite IH1 by exact Hnd. apply IH2.
    eapply Permutation_NoDup; [apply Permutation_map; exact Hp1|exact Hnd].
Qed.

(* the same topic, its partitions listed in another order; no id listed twice *)
Definition same_listing (tm tm' : topic_md) : Prop :=
  tm_topic tm = tm_topic tm' /\ Permutation (tm_partitions tm) (tm_partitions tm') /\
  NoDup (map pm_id (tm_partitions tm)).

Lemma topics_fun_perm idx : forall tms tms', Forall2 same_listing tms tms' ->
  forall tps, topics_fun idx tms tps = topics_fun idx tms' tps.
Proof.
  induction 1 as [|tm tm' r r' [Ht [Hp Hnd]] HF IH]; intros tps; cbn [topics_fun]; [reflexivity|].
  rewrite <- Ht. unfold topic_vec. rewrite <- (Permutation_length Hp).
  rewrite (sync_fun_perm idx _ _ Hp Hnd). apply IH.
Qed.

Theorem C06_listing_order_irrelevant : forall s md md',
  md_brokers md = md_brokers md' -> Forall2 same_listing (md_topics md) (md_topics md') ->
  update_metadata s md = update_metadata s md'.
Proof.
  intros s md md' Hb Ht. rewrite !update_metadata_eq. unfold upd_fun, update_brokers. rewrite <- Hb.
  rewrite (topics_fun_perm _ _ _ Ht). reflexivity.
Qed.

(* the hypothesis "no id listed twice" is needed: with a duplicate id the LAST entry wins *)
Theorem C06_listing_order_refuted_with_duplicates : exists s md md',
  md_brokers md = md_brokers md' /\
  Forall2 (fun tm tm' => tm_topic tm = tm_topic tm' /\ Permutation (tm_partitions tm) (tm_partitions tm'))
          (md_topics md) (md_topics md') /\
  update_metadata s md <> update_metadata s md'.
Proof.
  exists cstate_new,
    {| md_corr := 1; md_brokers := [ex_bm 1 (tag "b1") 9092; ex_bm 2 (tag "b2") 9092];
       md_topics := [ex_tm (tag "t") [ex_pm 0 1; ex_pm 0 2]] |},
    {| md_corr := 1; md_brokers := [ex_bm 1 (tag "b1") 9092; ex_bm 2 (tag "b2") 9092];
       md_topics := [ex_tm (tag "t") [ex_pm 0 2; ex_pm 0 1]] |}.
  split; [reflexivity|]. split.
  - constructor; [|constructor]. split; [reflexivity|]. apply perm_swap.
  - vm_compute. intro H. discriminate H.
Qed.

(* the listing of the example sorted by id *)
Definition exc_md_sorted : metadata_resp :=
  {| md_corr := 1; md_brokers := md_brokers exc_md;
     md_topics := [{| tm_error := 0; tm_topic := tag "t";
                      tm_partitions := [exc_pm 0 0 1; exc_pm 9 1 2; exc_pm 0 2 3; exc_pm 5 3 (-1)] |}] |}.

Example ex_listing_order_irrelevant :
  md_brokers exc_md = md_brokers exc_md_sorted /\
  Forall2 same_listing (md_topics exc_md) (md_topics exc_md_sorted) /\
  exc_md <> exc_md_sorted /\
  update_metadata cstate_new exc_md_sorted = Ok exc_s.
Proof.
  split; [reflexivity|]. split; [|split; [intro H; discriminate H|vm_compute; reflexivity]].
  constructor; [|constructor]. split; [reflexivity|]. split.
  - cbn [tm_partitions exc_tm exc_md_sorted md_topics].
    (* [p3; p2; p0; p1] ~ [p0; p1; p2; p3] *)
    apply Permutation_sym.
    apply (perm_trans (l' := [exc_pm 5 3 (-1); exc_pm 0 0 1; exc_pm 9 1 2; exc_pm 0 2 3])).
    + change [exc_pm 0 0 1; exc_pm 9 1 2; exc_pm 0 2 3; exc_pm 5 3 (-1)]
        with ([exc_pm 0 0 1; exc_pm 9 1 2; exc_pm 0 2 3] ++ [exc_pm 5 3 (-1)]).
      change [exc_pm 5 3 (-1); exc_pm 0 0 1; exc_pm 9 1 2; exc_pm 0 2 3]
        with ([exc_pm 5 3 (-1)] ++ [exc_pm 0 0 1; exc_pm 9 1 2; exc_pm 0 2 3]).
      apply Permutation_app_comm.
    + apply perm_skip.
      change [exc_pm 0 0 1; exc_pm 9 1 2; exc_pm 0 2 3] with ([exc_pm 0 0 1; exc_pm 9 1 2] ++ [exc_pm 0 2 3]).
      change [exc_pm 0 2 3; exc_pm 0 0 1; exc_pm 9 1 2] with ([exc_pm 0 2 3] ++ [exc_pm 0 0 1; exc_pm 9 1 2]).
      apply Permutation_app_comm.
  - cbn. repeat constructor; cbn; intuition lia.
Qed.

(* ================================================================================================ *)
(* B. NoHostReachable is returned only if no host could be reached                                  *)
(* ================================================================================================ *)

Definition never_nhr {A} (m : M A) : Prop := forall s, fst (m s) <> Err ENoHostReachable.
Definition clean {A} (d : dec A) : Prop := forall bs, d bs <> Err ENoHostReachable.

Lemma bind_clean {A B} (r : res A) (f : A -> res B) :
  r <> Err ENoHostReachable -> (forall a, f a <> Err ENoHostReachable) -> bind r f <> Err ENoHostReachable.
Proof. intros Hr Hf. destruct r as [a|e|w]; cbn [bind]; [apply Hf|intro E; apply Hr; congruence|discriminate]. Qed.

Lemma clean_cread n : clean (cread n).
Proof. intros bs. unfold cread. destruct (Nat.ltb _ _); discriminate. Qed.
Lemma clean_i16 : clean dec_i16.
Proof. intros bs. unfold dec_i16. apply bind_clean; [apply clean_cread|]. intros [x r]. discriminate. Qed.
Lemma clean_i32 : clean dec_i32.
Proof. intros bs. unfold dec_i32. apply bind_clean; [apply clean_cread|]. intros [x r]. discriminate. Qed.
Lemma clean_string : clean dec_string.
Proof.
  intros bs. unfold dec_string. apply bind_clean; [apply clean_i16|]. intros [len r].
  destruct (len <=? 0); [discriminate|]. destruct (_ && _); discriminate.
Qed.
Lemma clean_many {A} (d : dec A) : clean d -> forall fuel count bs, dec_many d fuel count bs <> Err ENoHostReachable.
Proof.
  intros Hd. induction fuel as [|f IH]; intros count bs; cbn [dec_many];
    destruct (count <=? 0); try discriminate.
  apply bind_clean; [apply Hd|]. intros [x r].
  apply bind_clean; [apply IH|]. intros [xs r']. discriminate.
Qed.
Lemma clean_vec {A} sz (d : dec A) : clean d -> clean (dec_vec sz d).
Proof.
  intros Hd bs. unfold dec_vec. apply bind_clean; [apply clean_i32|]. intros [len r].
  destruct (len <=? 0); [discriminate|]. apply clean_many. exact Hd.
Qed.
Lemma clean_broker_md : clean dec_broker_md.
Proof.
  intros bs. unfold dec_broker_md.
  apply bind_clean; [apply clean_i32|]. intros [n r].
  apply bind_clean; [apply clean_string|]. intros [h r1].
  apply bind_clean; [apply clean_i32|]. intros [p r2]. discriminate.
Qed.
Lemma clean_partition_md : clean dec_partition_md.
Proof.
  intros bs. unfold dec_partition_md.
  apply bind_clean; [apply clean_i16|]. intros [e r].
  apply bind_clean; [apply clean_i32|]. intros [i r1].
  apply bind_clean; [apply clean_i32|]. intros [l r2].
  apply bind_clean; [apply clean_vec; apply clean_i32|]. intros [rs r3].
  apply bind_clean; [apply clean_vec; apply clean_i32|]. intros [isr r4]. discriminate.
Qed.
Lemma clean_topic_md : clean dec_topic_md.
Proof.
  intros bs. unfold dec_topic_md.
  apply bind_clean; [apply clean_i16|]. intros [e r].
  apply bind_clean; [apply clean_string|]. intros [t r1].
  apply bind_clean; [apply clean_vec; apply clean_partition_md|]. intros [ps r2]. discriminate.
Qed.
Lemma clean_metadata_resp : clean dec_metadata_resp.
Proof.
  intros bs. unfold dec_metadata_resp, dec_corr.
  apply bind_clean; [apply clean_i32|]. intros [c r].
  apply bind_clean; [apply clean_vec; apply clean_broker_md|]. intros [bs' r1].
  apply bind_clean; [apply clean_vec; apply clean_topic_md|]. intros [ts r2]. discriminate.
Qed.

Lemma never_bind {A B} (m : M A) (f : A -> M B) :
  never_nhr m -> (forall a, never_nhr (f a)) -> never_nhr (mbind m f).
Proof.
  intros Hm Hf s. unfold mbind. specialize (Hm s).
  destruct (m s) as [[a|e|w] s1]; cbn [fst] in *; [apply Hf|intro E; apply Hm; congruence|discriminate].
Qed.
Lemma never_ret {A} (a : A) : never_nhr (ret a).
Proof. intros s. cbn. discriminate. Qed.
Lemma never_fail {A} e : e <> ENoHostReachable -> never_nhr (@fail A e).
Proof. intros He s. cbn. congruence. Qed.
Lemma never_lift {A} (r : res A) : r <> Err ENoHostReachable -> never_nhr (lift r).
Proof. intros Hr s. exact Hr. Qed.
Lemma never_io op : never_nhr (io op).
Proof. intros s. unfold io. destruct (script s); cbn; discriminate. Qed.
Lemma never_with_fuel {A} (f : nat -> M A) : (forall n, never_nhr (f n)) -> never_nhr (with_fuel f).
Proof. intros Hf s. unfold with_fuel. apply Hf. Qed.

Lemma never_read_exact h : forall fuel n acc, never_nhr (read_exact fuel h n acc).
Proof.
  induction fuel as [|f IH]; intros n acc; cbn [read_exact]; destruct (n <=? 0);
    try apply never_ret; [apply never_fail; discriminate|].
  apply never_bind; [apply never_io|]. intros o.
  destruct o as [ok|k| |e|bs| |e|]; try (apply never_fail; discriminate); try apply IH.
  destruct bs; [apply never_fail; discriminate|apply IH].
Qed.
Lemma never_read_chunks h : forall fuel remaining acc, never_nhr (read_chunks fuel h remaining acc).
Proof.
  induction fuel as [|f IH]; intros remaining acc; cbn [read_chunks]; destruct (remaining <=? 0);
    try apply never_ret; [apply never_fail; discriminate|].
  apply never_bind; [apply never_with_fuel; intros g; apply never_read_exact|]. intros b. apply IH.
Qed.
Lemma never_get_response {A} (d : dec A) h : clean d -> never_nhr (get_response d h).
Proof.
  intros Hd. unfold get_response, get_response_bytes, get_response_size, read_exact_alloc.
  apply never_bind.
  - apply never_bind.
    + apply never_bind; [apply never_with_fuel; intros g; apply never_read_exact|]. intros b.
      destruct (be_dec_s b <? 0); [apply never_fail; discriminate|apply never_ret].
    + intros size. apply never_with_fuel. intros g. apply never_read_chunks.
  - intros b. apply never_bind; [apply never_lift; apply Hd|]. intros [a r]. apply never_ret.
Qed.

(* reading and decoding the answer of the host the request went to never produces NoHostReachable *)
Theorem C06_response_never_no_host : forall h s,
  fst (get_response dec_metadata_resp h s) <> Err ENoHostReachable.
Proof. intros h s. apply never_get_response. exact clean_metadata_resp. Qed.

(* "none of the hosts hs could be reached", host after host in list order, starting in state s and ending in
   s': for each host either no connection could be obtained, or the metadata request could not be sent over
   it (write failure, or a request that cannot be encoded) *)
Inductive unreachable (corr : Z) (topics : list bytes) : list bytes -> st -> st -> Prop :=
| un_nil : forall s, unreachable corr topics [] s s
| un_conn : forall h r s e s1 s',
    get_conn h s = (Err e, s1) -> unreachable corr topics r s1 s' -> unreachable corr topics (h :: r) s s'
| un_send : forall h r s s1 e s2 s',
    get_conn h s = (Ok tt, s1) ->
    send_request h (enc_metadata_req corr (client_id (cfg (cl s))) topics) s1 = (Err e, s2) ->
    unreachable corr topics r s2 s' -> unreachable corr topics (h :: r) s s'.

(* one iteration of the loop of fetch_metadata *)
Lemma fmh_cons corr topics h r s :
  fetch_metadata_hosts corr topics (h :: r) s =
  match get_conn h s with
  | (Ok _, s1) => match send_request h (enc_metadata_req corr (client_id (cfg (cl s))) topics) s1 with
                  | (Ok _, s2) => get_response dec_metadata_resp h s2
                  | (Err _, s2) => fetch_metadata_hosts corr topics r s2
                  | (Panic w, s2) => (Panic w, s2)
                  end
  | (Err _, s1) => fetch_metadata_hosts corr topics r s1
  | (Panic w, s1) => (Panic w, s1)
  end.
Proof.
  cbn [fetch_metadata_hosts]. unfold mbind at 1. unfold get_client at 1. unfold mbind at 1. unfold mtry at 1.
  destruct (get_conn h s) as [[u|e|w] s1]; try reflexivity.
  unfold mbind at 1. unfold mtry at 1.
  destruct (send_request h (enc_metadata_req corr (client_id (cfg (cl s))) topics) s1) as [[z|e|w] s2];
    reflexivity.
Qed.

Theorem C06_no_host_reachable_iff : forall corr topics hs s s',
  fetch_metadata_hosts corr topics hs s = (Err ENoHostReachable, s') <-> unreachable corr topics hs s s'.
Proof.
  intros corr topics hs s s'. split.
  - revert s s'. induction hs as [|h r IH]; intros s s' H.
    + cbn in H. inversion H; subst. constructor.
    + rewrite fmh_cons in H.
      destruct (get_conn h s) as [[u|e|w] s1] eqn:Ec; [|eapply un_conn; [exact Ec|apply IH; exact H]|discriminate].
      destruct u.
      destruct (send_request h (enc_metadata_req corr (client_id (cfg (cl s))) topics) s1)
        as [[z|e|w] s2] eqn:Es; [| eapply un_send; [exact Ec|exact Es|apply IH; exact H] |discriminate].
      exfalso. apply (C06_response_never_no_host h s2). rewrite H. reflexivity.
  - induction 1 as [s|h r s e s1 s' Hc Hu IH|h r s s1 e s2 s' Hc Hs Hu IH].
    + reflexivity.
    + rewrite fmh_cons, Hc. exact IH.
    + rewrite fmh_cons, Hc, Hs. exact IH.
Qed.

Corollary C06_fetch_metadata_no_host_iff : forall topics s s',
  fetch_metadata topics s = (Err ENoHostReachable, s') <->
  unreachable (fst (next_correlation_id (cs (cl s)))) topics (hosts (cfg (cl s))) (bump s) s'.
Proof. intros topics s s'. rewrite fetch_metadata_run. apply C06_no_host_reachable_iff. Qed.

(* the contrapositive, constructively: once a host accepted the connection and the request, the outcome of
   the call is the outcome of reading its answer - whatever that is, it is not NoHostReachable - and no later
   host is tried *)
Theorem C06_answered_not_no_host : forall corr topics pre h post s s1 s2 s3 n,
  unreachable corr topics pre s s1 ->
  get_conn h s1 = (Ok tt, s2) ->
  send_request h (enc_metadata_req corr (client_id (cfg (cl s1))) topics) s2 = (Ok n, s3) ->
  fetch_metadata_hosts corr topics (pre ++ h :: post) s = get_response dec_metadata_resp h s3 /\
  fst (fetch_metadata_hosts corr topics (pre ++ h :: post) s) <> Err ENoHostReachable.
Proof.
  intros corr topics pre h post s s1 s2 s3 n Hu Hc Hs.
  assert (E : fetch_metadata_hosts corr topics (pre ++ h :: post) s = get_response dec_metadata_resp h s3).
  { induction Hu as [s|h' r s e s1 s' Hc' Hu IH|h' r s s1 e s2' s' Hc' Hs' Hu IH]; cbn [app].
    - rewrite fmh_cons, Hc, Hs. reflexivity.
    - rewrite fmh_cons, Hc'. apply IH; assumption.
    - rewrite fmh_cons, Hc', Hs'. apply IH; assumption. }
  split; [exact E|]. rewrite E. apply C06_response_never_no_host.
Qed.

(* what "no connection could be obtained" means in the model: the connection was refused; every other error
   is the model's script running out *)
Theorem C06_get_conn_fails_only_refused : forall h s e s1,
  get_conn h s = (Err e, s1) ->
  (e = EIo IoConnRefused /\ exists rest, script s = OConn false :: rest) \/ e = EOutOfScript.
Proof.
  intros h s e s1 H. unfold get_conn in H. unfold mbind at 1 in H. unfold get_client at 1 in H.
  assert (N : forall B (k : unit -> M B),
            mbind (new_conn h) k s = (Err e, s1) ->
            (e = EIo IoConnRefused /\ exists rest, script s = OConn false :: rest) \/ e = EOutOfScript \/
            exists s0, k tt s0 = (Err e, s1)).
  { intros B k Hk. unfold mbind at 1 in Hk. unfold new_conn in Hk. unfold mbind at 1 in Hk. unfold io in Hk.
    destruct (script s) as [|o rest] eqn:Esc; [inversion Hk; subst; right; left; reflexivity|].
    destruct o as [ok|k0| |e0|bs| |e0|]; cbn in Hk; try (inversion Hk; subst; right; left; reflexivity).
    destruct ok; cbn in Hk.
    - right. right. eexists. exact Hk.
    - inversion Hk; subst. left. split; [reflexivity|]. eexists. reflexivity. }
  destruct (in_pool h (conns (cl s))).
  - destruct (idle_expired (cfg (cl s))); [|discriminate].
    apply N in H. destruct H as [H|[H|[s0 H]]]; [left; exact H|right; exact H|].
    unfold shutdown, mbind, io in H. destruct (script s0); cbn in H; inversion H; subst. right. reflexivity.
  - apply N in H. destruct H as [H|[H|[s0 H]]]; [left; exact H|right; exact H|].
    unfold set_conns, mbind, get_client, set_client in H. discriminate.
Qed.

(* bootstrap hosts a:1, b:2, c:3.  a:1 refuses, the write to b:2 fails, c:3 refuses: NoHostReachable *)
Definition exc_st_none : st :=
  ex_st ex_hs [OConn false; OConn true; OWriteFail IoOther; OConn false].
(* a:1 refuses, b:2 accepts connection and request and answers with a truncated response; c:3 would accept *)
Definition exc_st_garbage : st :=
  ex_st ex_hs [OConn false; OConn true; OWrote 1000; OData [x00; x00; x00; x02]; OData [x00; x00]; OConn true].

Example ex_no_host_reachable :
  fst (fetch_metadata_hosts 1 [] ex_hs exc_st_none) = Err ENoHostReachable /\
  unreachable 1 [] ex_hs exc_st_none (snd (fetch_metadata_hosts 1 [] ex_hs exc_st_none)) /\
  fst (fetch_metadata [] exc_st_none) = Err ENoHostReachable /\
  get_conn (tag "a:1") exc_st_none
  = (Err (EIo IoConnRefused), st_with exc_st_none [OConn true; OWriteFail IoOther; OConn false] [EConnect (tag "a:1")]).
Proof.
  assert (H : fst (fetch_metadata_hosts 1 [] ex_hs exc_st_none) = Err ENoHostReachable) by (vm_compute; reflexivity).
  split; [exact H|]. split; [|split; vm_compute; reflexivity].
  apply C06_no_host_reachable_iff. rewrite <- H. apply surjective_pairing.
Qed.

Example ex_answered_not_no_host :
  let s1 := snd (get_conn (tag "a:1") exc_st_garbage) in
  let s2 := snd (get_conn (tag "b:2") s1) in
  let s3 := snd (send_request (tag "b:2") (enc_metadata_req 1 (client_id (cfg (cl s1))) []) s2) in
  unreachable 1 [] [tag "a:1"] exc_st_garbage s1 /\
  get_conn (tag "b:2") s1 = (Ok tt, s2) /\
  send_request (tag "b:2") (enc_metadata_req 1 (client_id (cfg (cl s1))) []) s2 = (Ok 18, s3) /\
  fst (fetch_metadata_hosts 1 [] ([tag "a:1"] ++ tag "b:2" :: [tag "c:3"]) exc_st_garbage) = Err (EIo IoUnexpectedEof) /\
  ~ In (EConnect (tag "c:3")) (trace (snd (fetch_metadata_hosts 1 [] ex_hs exc_st_garbage))) /\
  script (snd (fetch_metadata_hosts 1 [] ex_hs exc_st_garbage)) = [OConn true].
Proof.
  cbv zeta. split.
  - eapply (un_conn 1 [] (tag "a:1") [] exc_st_garbage (EIo IoConnRefused)); [vm_compute; reflexivity|apply un_nil].
  - split; [vm_compute; reflexivity|]. split; [vm_compute; reflexivity|]. split; [vm_compute; reflexivity|].
    split; [|vm_compute; reflexivity]. intro H. vm_compute in H. intuition discriminate.
Qed.

Print Assumptions C06_listed_partition_routed.
Print Assumptions C06_listed_leader_routed.
Print Assumptions C06_listed_leaderless_unroutable.
Print Assumptions C06_update_ignores_error_codes.
Print Assumptions C06_listing_order_irrelevant.
Print Assumptions C06_listing_order_refuted_with_duplicates.
Print Assumptions C06_response_never_no_host.
Print Assumptions C06_no_host_reachable_iff.
Print Assumptions C06_fetch_metadata_no_host_iff.
Print Assumptions C06_answered_not_no_host.
Print Assumptions C06_get_conn_fails_only_refused.
Check C06_listed_partition_routed.
Check C06_listed_leader_routed.
Check C06_listed_leaderless_unroutable.
Check C06_update_ignores_error_codes.
Check C06_listing_order_irrelevant.
Check C06_listing_order_refuted_with_duplicates.
Check C06_response_never_no_host.
Check C06_no_host_reachable_iff.
Check C06_fetch_metadata_no_host_iff.
Check C06_answered_not_no_host.
Check C06_get_conn_fails_only_refused.
