(* C08, additional theorems, fourth pass (mutation adequacy, round seven).

   Seed C08-7 (Consumer::consume_messageset no longer delegates to consume_message; it SETS the partition's mark
   to the last offset of the given set whenever that differs from the current mark, `!=` instead of `>`).

   The changed Rust function has NO definition of its own in the model.  Model/Consumer.v has consume_message
   only; the scripted call `consume_messageset k` of the harness is translated by tools/caselib.py ("the model
   has no MessageSets object: translate to the equivalent consume_message") into
   `consumer_op (consume_message topic partition last-offset-of-set-k-of-the-last-poll)`.  consume_message is
   untouched by the seed, so mirroring it means ADDING a definition (and a dispatch case) to the model; every
   theorem of Props/C08.v stays provable, none mentions a message set.  NOT COVERED - and not coverable by a
   statement about an existing model definition.

   Nearest expressible statement (part A): the translation the harness applies is written down here as
   `consume_messageset` (over the sets `Consumer.iterate` hands out: topic, partition, messages) and the clause
   "marks never move backwards, also when a delivered SET is marked" is stated for it - single call, two calls
   (newer set first, older set second: the second call changes nothing), with a successful commit in between
   (the second commit then sends nothing), as a step of the histories `reach` of C08Extra, for every set a
   poll hands out (A5: each is non-empty and can be marked), and on dispatch for the call the harness really
   issues (B3).  With `consume_messageset` replaced by the seed's version (scratch copy
   /tmp/pw/C08/mut7/C08Mut7.v) the negations of C08_messageset_monotone, C08_messageset_older_noop and
   C08_messageset_after_commit are proved with the seed's own witness (marks 9 then 4).

   Part B: statements that were still missing for the property -
     marks never move backwards over a WHOLE history (commits, failed commits, polls included), also seen
     through last_consumed_message;
     the forward direction of a FAILING commit up to Consumer::commit_consumed: the coordinator rejects an
     entry with a non-retriable code, or the exchange with it fails (lost connection) - the call answers that
     error; through dispatch: marks and flags stay and the next commit sends the same entries;
     consume_message / last_consumed_message as the harness calls them (dispatch), and what one call leaves
     for the next. *)
From Coq Require Import ZifyBool Permutation Relations.Relation_Operators.
From KV Require Import Base.Prelude Gen.ErrorCodes Gen.Consts Model.Codecs Model.Requests Model.Responses
                       Model.ClientState Model.Net Model.Client Model.Consumer Model.Val Model.Dispatch.
From KV Require Import Proofs.BytesFacts Proofs.C07Facts Proofs.C19Facts Proofs.C08Facts Proofs.C08Extra
                       Proofs.C08ExtraB Proofs.C08ExtraC.
From KV Require Proofs.C04ExtraB Proofs.C19Extra.
Ltac Zify.zify_post_hook ::= Z.div_mod_to_equations.

(* ================================================================================== *)
(* A. marking a message SET consumed                                                  *)
(* ================================================================================== *)

(* Consumer::consume_messageset as the harness runs it against the model: "equivalent to marking the last
   message of the given set as consumed" (doc comment of the Rust function; tools/caselib.py).  A set is what
   Consumer.iterate yields: (topic, partition, messages).  NOT a model definition - see the header. *)
Definition consume_messageset (k : consumer) (set : bytes * Z * list message) : res consumer :=
  match last_msg (snd set) with
  | Some m => consume_message k (fst (fst set)) (snd (fst set)) (m_offset m)
  | None => Ok k
  end.

(* A1. one call: no mark moves backwards, no flag is cleared; an empty set changes nothing; otherwise the
   partition's mark is max(old, last offset of the set), other partitions are untouched, and a set that ends
   at or below the mark changes NOTHING (not even the dirty flag: the partition does not enter the next commit) *)
Theorem C08_messageset_monotone : forall k set k',
  consume_messageset k set = Ok k' ->
  (forall key, mark_le (mark k key) (mark k' key))
  /\ (forall key, dirty k key = Some true -> dirty k' key = Some true)
  /\ match last_msg (snd set) with
     | None => k' = k
     | Some m =>
         exists r, topic_ref (k_assign k) (fst (fst set)) = Some r
           /\ mark k' (r, snd (fst set))
              = Some (match mark k (r, snd (fst set)) with Some o => Z.max o (m_offset m) | None => m_offset m end)
           /\ (forall key, key <> (r, snd (fst set)) -> mark k' key = mark k key /\ dirty k' key = dirty k key)
           /\ ((exists o, mark k (r, snd (fst set)) = Some o /\ m_offset m <= o) -> k' = k)
     end.
Proof.
  intros k [[t p] msgs] k' H. unfold consume_messageset in H. cbn [fst snd] in *.
  destruct (last_msg msgs) as [m|].
  - destruct (C08_monotone _ _ _ _ _ H) as (Hmono & r & Hr & Hm).
    destruct (C08_dirty_set _ _ _ _ _ H) as (r' & Hr' & Hkeep & Hoth & _ & Hsame).
    rewrite Hr in Hr'. inversion Hr'; subst r'.
    destruct (consume_spec _ _ _ _ _ H) as (r'' & Hr'' & _ & Hget & _).
    rewrite Hr in Hr''. inversion Hr''; subst r''.
    split; [exact Hmono|]. split; [exact Hkeep|].
    exists r. split; [exact Hr|]. split; [exact Hm|]. split; [|exact Hsame].
    intros key Hk. split; [unfold mark; rewrite (Hget key Hk); reflexivity|apply Hoth; exact Hk].
  - inversion H; subst k'. split; [intros key; apply mark_le_refl|]. split; [auto|reflexivity].
Qed.

(* A2. two calls on the same partition.  After ANY mark at offset `off` (a single message, or - corollary -
   a newer set), marking a set of that partition that ends at or below `off` answers Ok and leaves the consumer
   exactly as it was: mark, dirty flag, everything. *)
Theorem C08_messageset_older_noop : forall k t p off k1 older mo,
  consume_message k t p off = Ok k1 ->
  last_msg older = Some mo -> m_offset mo <= off ->
  consume_messageset k1 (t, p, older) = Ok k1.
Proof.
  intros k t p off k1 older mo H Hl Hle.
  destruct (C08_monotone _ _ _ _ _ H) as (_ & r & Hr & Hm).
  destruct (C19_consume_assigned _ _ _ _ _ H) as (r' & Hr' & Hf & _ & Hfe & Ha & _).
  rewrite Hr in Hr'. inversion Hr'; subst r'.
  unfold consume_messageset. cbn [fst snd]. rewrite Hl. unfold consume_message. rewrite Ha, Hr, Hfe.
  destruct (tk_get (r, p) (k_fetch k)) as [v|]; [|congruence].
  unfold mark in Hm. destruct (tk_get (r, p) (k_consumed k1)) as [[o1 d1]|]; cbn [option_map fst] in Hm; [|discriminate].
  assert (Ho : off <= o1).
  { inversion Hm as [Ho1]. destruct (option_map fst (tk_get (r, p) (k_consumed k))); lia. }
  destruct (o1 <? m_offset mo) eqn:E; [lia|reflexivity].
Qed.

Corollary C08_messageset_older_after_newer : forall k t p newer older mn mo k1,
  consume_messageset k (t, p, newer) = Ok k1 ->
  last_msg newer = Some mn -> last_msg older = Some mo -> m_offset mo <= m_offset mn ->
  consume_messageset k1 (t, p, older) = Ok k1
  /\ (forall r, topic_ref (k_assign k) t = Some r -> exists o, mark k1 (r, p) = Some o /\ m_offset mn <= o).
Proof.
  intros k t p newer older mn mo k1 H Hn Ho Hle. unfold consume_messageset in H. cbn [fst snd] in H. rewrite Hn in H.
  split; [eapply C08_messageset_older_noop; eassumption|].
  intros r Hr. destruct (C08_monotone _ _ _ _ _ H) as (_ & r' & Hr' & Hm). rewrite Hr in Hr'. inversion Hr'; subst r'.
  eexists. split; [exact Hm|]. destruct (mark k (r, p)); lia.
Qed.

(* A3. the seed's second scenario as a history of four public calls:
     mark (newer set or single message, offset off) ; commit_consumed answers Ok ; mark an OLDER set of the same
     partition ; commit_consumed.
   The third call changes nothing, nothing is dirty after it, and the fourth call answers Ok WITHOUT any I/O
   (trace and script untouched): the partition is not committed again, let alone with a lower offset. *)
Theorem C08_messageset_after_commit : forall k t p off k1 s k2 s' older mo s2,
  consume_message k t p off = Ok k1 ->
  commit_consumed k1 s = (Ok k2, s') ->
  last_msg older = Some mo -> m_offset mo <= off ->
  0 <= offset_storage (cfg (cl s2)) ->
  consume_messageset k2 (t, p, older) = Ok k2
  /\ dirty_entries k2 = []
  /\ exists k3 s3, commit_consumed k2 s2 = (Ok k3, s3)
       /\ trace s3 = trace s2 /\ script s3 = script s2
       /\ (forall key, mark k3 key = mark k1 key).
Proof.
  intros k t p off k1 s k2 s' older mo s2 H Hc Hl Hle Hst.
  destruct (C08_monotone _ _ _ _ _ H) as (_ & r & Hr & Hm).
  destruct (C19_consume_assigned _ _ _ _ _ H) as (r' & Hr' & Hf & _ & Hfe & Ha & _).
  rewrite Hr in Hr'. inversion Hr'; subst r'.
  destruct (C08_commit_clears_only_on_success _ _ _ _ Hc) as (Hmk & _ & Hde & Hfe2 & Ha2 & Hg2).
  assert (Hgne : k_group k2 <> []).
  { rewrite Hg2. intros Eg. rewrite (C08_commit_needs_group k1 s Eg) in Hc. discriminate Hc. }
  assert (Hnoop : consume_messageset k2 (t, p, older) = Ok k2).
  { unfold consume_messageset. cbn [fst snd]. rewrite Hl. unfold consume_message. rewrite Ha2, Ha, Hr, Hfe2, Hfe.
    destruct (tk_get (r, p) (k_fetch k)) as [v|]; [|congruence].
    pose proof (Hmk (r, p)) as Hm2. rewrite Hm in Hm2. unfold mark in Hm2.
    destruct (tk_get (r, p) (k_consumed k2)) as [[o2 d2]|]; cbn [option_map fst] in Hm2; [|discriminate].
    assert (Ho : off <= o2).
    { inversion Hm2 as [Ho2]. destruct (option_map fst (tk_get (r, p) (k_consumed k))); lia. }
    destruct (o2 <? m_offset mo) eqn:E; [lia|reflexivity]. }
  split; [exact Hnoop|]. split; [exact Hde|].
  destruct (C08_commit_nothing_dirty k2 s2 Hgne Hst Hde) as (k3 & s3 & Hc3 & Ht & Hs & Hm3).
  exists k3, s3. split; [exact Hc3|]. split; [exact Ht|]. split; [exact Hs|].
  intros key. rewrite Hm3. apply Hmk.
Qed.

(* A4. marking a set is a step of the histories of C08Extra: C08_history_dirty_exact and
   C08_history_commit_exact ("a successful commit sent exactly the partitions whose mark differs from the mark
   at the last successful commit, each with mark + 1") hold over histories with set marks as well *)
Theorem C08_messageset_reach : forall base k set k1 b' k',
  consume_messageset k set = Ok k1 -> reach base k1 b' k' -> reach base k b' k'.
Proof.
  intros base k [[t p] msgs] k1 b' k' H Hr. unfold consume_messageset in H. cbn [fst snd] in H.
  destruct (last_msg msgs) as [m|].
  - eapply reach_mark; eassumption.
  - inversion H; subst k1. exact Hr.
Qed.

(* non-vacuity, the seed's demonstration: partition a/1 (mark 19 loaded); the newer set 5..9 -> offsets 25..29
   is marked first, then the older set ending at 24, then again after a successful commit *)
Definition exe_msg (o : Z) : message := {| m_offset := o; m_key := []; m_value := [] |}.
Definition exe_newer : list message := map exe_msg [25; 26; 27; 28; 29].
Definition exe_older : list message := map exe_msg [20; 21; 22; 23; 24].
Definition exe_k0 : consumer :=
  consumer_with ex_k2 (k_fetch ex_k2) [] [((0, 1), (19, false)); ((1, 0), (31, false))].
Definition exe_k1 : consumer :=
  consumer_with exe_k0 (k_fetch exe_k0) [] [((0, 1), (29, true)); ((1, 0), (31, false))].

Example C08_messageset_ex :
  consume_messageset exe_k0 (tag "a", 1, exe_newer) = Ok exe_k1
  /\ consume_messageset exe_k1 (tag "a", 1, exe_older) = Ok exe_k1
  /\ consume_messageset exe_k1 (tag "a", 1, []) = Ok exe_k1
  /\ last_consumed_message exe_k1 (tag "a") 1 = Some 29
  /\ dirty_entries exe_k1 = [(tag "a", 1, 29)]
  /\ option_map m_offset (last_msg exe_newer) = Some 29 /\ option_map m_offset (last_msg exe_older) = Some 24
  /\ (* in delivery order both calls move the mark *)
     option_map k_consumed (match consume_messageset exe_k0 (tag "a", 1, exe_older) with Ok k => Some k | _ => None end)
     = Some [((0, 1), (24, true)); ((1, 0), (31, false))].
Proof. vm_compute. repeat split. Qed.

Definition exe_commit_resp1 : bytes :=
  enc_i32 1 ++ enc_i32 1 ++ enc_i16 1 ++ tag "a" ++ enc_i32 1 ++ enc_i32 1 ++ enc_i16 0.
Definition exe_run1 : st :=
  st_with (ex_st ex_client1)
          [OConn true; OWrote 1000; OData (enc_i32 (ulen exe_commit_resp1)); OData exe_commit_resp1] [].

Example C08_messageset_after_commit_ex :
  exists k2 s',
    consume_message exe_k0 (tag "a") 1 29 = Ok exe_k1
    /\ commit_consumed exe_k1 exe_run1 = (Ok k2, s')
    /\ k_consumed k2 = [((0, 1), (29, false)); ((1, 0), (31, false))]
    /\ consume_messageset k2 (tag "a", 1, exe_older) = Ok k2
    /\ offset_storage (cfg (cl s')) = 1
    /\ consumed_of (fst (commit_consumed k2 s')) = Ok (k_consumed k2)
    /\ trace (snd (commit_consumed k2 s')) = trace s'.
Proof.
  eexists. eexists. split; [vm_compute; reflexivity|]. split; [vm_compute; reflexivity|].
  vm_compute. repeat split.
Qed.


(* A5. the sets a poll hands out can be marked: every (topic, partition, messages) of `iterate` on the result
   of Consumer::poll is non-empty and consume_messageset on the consumer the poll leaves behind answers Ok -
   any of them, in any order, also the sets of an EARLIER poll (the set of assigned partitions never changes,
   C19): these are the "mark message set consumed" steps of the property's histories *)
Lemma last_msg_nonempty (l : list message) : l <> [] -> exists m, last_msg l = Some m.
Proof.
  intros H. unfold last_msg. destruct (rev l) as [|m r] eqn:E; [|eauto].
  exfalso. apply H. rewrite <- (rev_involutive l), E. reflexivity.
Qed.

Lemma process_parts_ok_present dbg single n cm limit r : forall ps s s',
  process_parts dbg single n cm limit r ps s = POk s' ->
  forall p, In p ps -> (exists d, fp_data p = inl d) -> tk_get (r, fp_partition p) (ps_fetch s) <> None.
Proof.
  induction ps as [|p0 rest IH]; intros s s' H p Hin Hd; [destruct Hin|]. cbn [process_parts] in H.
  pose proof (C19Extra.process_partition_keys dbg single n cm limit r p0 s) as Hk.
  destruct (process_partition dbg single n cm limit r p0 s) as [s1|e s1|w] eqn:E; [|discriminate|discriminate].
  destruct Hin as [Hin|Hin].
  - subst p0. destruct Hd as [[hw msgs] Hd]. unfold process_partition in E. rewrite Hd in E.
    destruct (tk_get (r, fp_partition p) (ps_fetch s)); [discriminate|discriminate E].
  - cbn [C19Extra.pres_keys] in Hk. destruct Hk as [Hk _]. apply Hk. eapply IH; eassumption.
Qed.

Lemma process_topics_ok_present dbg single n cm limit asg : forall ts s s',
  process_topics dbg single n cm limit asg ts s = POk s' ->
  forall t, In t ts ->
  exists r, topic_ref asg (ft_topic t) = Some r
    /\ forall p, In p (ft_partitions t) -> (exists d, fp_data p = inl d) ->
                 tk_get (r, fp_partition p) (ps_fetch s) <> None.
Proof.
  induction ts as [|t0 rest IH]; intros s s' H t Hin; [destruct Hin|]. cbn [process_topics] in H.
  destruct (topic_ref asg (ft_topic t0)) as [r0|] eqn:Er; [|discriminate].
  pose proof (C19Extra.process_parts_keys dbg single n cm limit r0 (ft_partitions t0) s) as Hk.
  destruct (process_parts dbg single n cm limit r0 (ft_partitions t0) s) as [s1|e s1|w] eqn:E; [|discriminate|discriminate].
  destruct Hin as [Hin|Hin].
  - subst t0. exists r0. split; [exact Er|]. intros p Hp Hd. eapply process_parts_ok_present; eassumption.
  - destruct (IH _ _ H t Hin) as (r & Hr & Hall). exists r. split; [exact Hr|].
    intros p Hp Hd. cbn [C19Extra.pres_keys] in Hk. destruct Hk as [Hk _]. apply Hk. apply Hall; assumption.
Qed.

Theorem C08_processed_set_markable : forall dbg k n resps ms k',
  process_fetch_responses dbg k n resps = (Ok ms, k') ->
  forall set, In set (iterate ms) ->
    (exists m, last_msg (snd set) = Some m)
    /\ assigned k (fst (fst set)) (snd (fst set))
    /\ forall k2, (forall t p, assigned k2 t p <-> assigned k t p) ->
                  exists k3, consume_messageset k2 set = Ok k3.
Proof.
  intros dbg k n resps ms k' H [[t p] msgs] Hin. cbn [fst snd].
  unfold process_fetch_responses in H. destruct (first_error resps); [discriminate|].
  match type of H with context [process_topics ?a ?b ?c ?d ?e ?f ?g ?h] =>
    destruct (process_topics a b c d e f g h) as [s1|e1 s1|w] eqn:E end; [|discriminate|discriminate].
  injection H as Hms Hk'. subst ms. unfold iterate in Hin. cbn [ms_responses] in Hin.
  apply in_flat_map in Hin. destruct Hin as (r0 & Hr0 & Hin).
  apply in_flat_map in Hin. destruct Hin as (t0 & Ht0 & Hin).
  apply in_flat_map in Hin. destruct Hin as (p0 & Hp0 & Hin).
  destruct (fp_data p0) as [[hw [|m0 ml]]|c] eqn:Ed; try (destruct Hin; fail).
  destruct Hin as [Hin|[]]. injection Hin as <- <- <-.
  assert (Ht : In t0 (flat_map fr_topics resps)) by (apply in_flat_map; exists r0; split; assumption).
  destruct (process_topics_ok_present _ _ _ _ _ _ _ _ _ E t0 Ht) as (r & Hr & Hall).
  assert (Ha : assigned k (ft_topic t0) (fp_partition p0)).
  { exists r. split; [exact Hr|]. apply (Hall p0 Hp0). eexists. exact Ed. }
  destruct (last_msg_nonempty (m0 :: ml)) as [m Hm]; [discriminate|].
  split; [exists m; exact Hm|]. split; [exact Ha|].
  intros k2 Hk2. unfold consume_messageset. cbn [fst snd]. rewrite Hm.
  apply C19_consume_ok_iff. apply Hk2. exact Ha.
Qed.

Theorem C08_polled_set_markable : forall k s ms k' s',
  consumer_poll k s = (Ok (Ok ms, k'), s') ->
  forall set, In set (iterate ms) ->
    (exists m, last_msg (snd set) = Some m)
    /\ exists k2, consume_messageset k' set = Ok k2
         /\ (forall key, mark_le (mark k' key) (mark k2 key))
         /\ (forall t p, assigned k2 t p <-> assigned k t p).
Proof.
  intros k s ms k' s' H set Hin.
  destruct (C19Extra.C19_consumer_poll_keeps_set _ _ _ _ _ H) as (_ & _ & _ & Hass).
  unfold consumer_poll in H.
  apply mbind_ok in H. destruct H as ([[n r0] k1] & s1 & Hf & H).
  apply mbind_ok in H. destruct H as (c & s2 & _ & H).
  apply mbind_ok in H. destruct H as (e & s3 & _ & H).
  destruct r0 as [resps|er|w]; [|unfold ret in H; inversion H|discriminate].
  unfold ret in H. injection H as Hp _.
  pose proof (C19Extra.C19_poll_keeps_set (debug_build e) (consumer_with_client k1 c) n resps) as Hk. cbv zeta in Hk.
  rewrite Hp in Hk. cbn [snd] in Hk. destruct Hk as (_ & _ & _ & _ & Hass1).
  destruct (C08_processed_set_markable _ _ _ _ _ _ Hp set Hin) as (Hm & _ & Hok).
  split; [exact Hm|]. destruct (Hok k' Hass1) as [k2 Hk2]. exists k2. split; [exact Hk2|].
  split; [exact (proj1 (C08_messageset_monotone _ _ _ Hk2))|].
  intros t p. rewrite <- Hass. destruct set as [[t0 p0] msgs]. unfold consume_messageset in Hk2. cbn [fst snd] in *.
  destruct Hm as [m Hm]. rewrite Hm in Hk2.
  destruct (C19_consume_assigned _ _ _ _ _ Hk2) as (r & _ & _ & _ & Hfe & Ha & _).
  unfold assigned. rewrite Ha, Hfe. reflexivity.
Qed.

Example C08_processed_set_markable_ex :
  let resp := {| fr_corr := 0; fr_topics :=
                 [{| ft_topic := tag "a"; ft_partitions :=
                     [{| fp_partition := 1; fp_data := inl (40, exe_newer) |};
                      {| fp_partition := 0; fp_data := inl (12, []) |}] |}] |} in
  let out := process_fetch_responses true exe_k0 2 [resp] in
  option_map iterate (match fst out with Ok ms => Some ms | _ => None end) = Some [(tag "a", 1, exe_newer)]
  /\ consume_messageset (snd out) (tag "a", 1, exe_newer)
     = Ok (consumer_with (snd out) (k_fetch (snd out)) (k_retry (snd out)) [((0, 1), (29, true)); ((1, 0), (31, false))]).
Proof. vm_compute. repeat split. Qed.

(* ================================================================================== *)
(* B1. marks over a whole life of public calls                                         *)
(* ================================================================================== *)

(* one public operation (C04ExtraB.cstep: poll, seek, consume_message, commit_consumed answering Ok or an
   error - each as the harness runs it): the assignment stays and no mark moves backwards *)
Lemma cstep_marks k k1 : C04ExtraB.cstep k k1 ->
  k_assign k1 = k_assign k /\ forall key, mark_le (mark k key) (mark k1 key).
Proof.
  intros H. destruct H as [k s r k' s' Hc H|k t p o k' H|k t p o k' H|k s k' s' Hc H|k s e s' Hc H].
  - destruct (C19Extra.C19_consumer_poll_keeps_set _ _ _ _ _ H) as ((Ha & _) & Hcons & _).
    split; [exact Ha|]. intros key. unfold mark. cbn [consumer_with_client k_consumed]. rewrite Hcons. apply mark_le_refl.
  - destruct (C19_seek_assigned _ _ _ _ _ H) as (r & old & maxb & _ & _ & _ & _ & Hcons & Ha & _).
    split; [exact Ha|]. intros key. unfold mark. rewrite Hcons. apply mark_le_refl.
  - destruct (C19_consume_assigned _ _ _ _ _ H) as (r & _ & _ & _ & _ & Ha & _).
    split; [exact Ha|]. exact (proj1 (C08_monotone _ _ _ _ _ H)).
  - destruct (C08_commit_clears_only_on_success _ _ _ _ H) as (Hm & _ & _ & _ & Ha & _).
    split; [exact Ha|]. intros key. change (mark (consumer_with_client k' (cl s')) key) with (mark k' key).
    rewrite Hm. apply mark_le_refl.
  - split; [reflexivity|]. intros key. apply mark_le_refl.
Qed.

Lemma mark_le_trans a b c : mark_le a b -> mark_le b c -> mark_le a c.
Proof. destruct a, b, c; cbn [mark_le]; try tauto; lia. Qed.

(* "marks never move backwards", at any point of any history: over ANY sequence of public operations - marks of
   any offsets (also lower ones), polls, seeks, commits that succeed, commits that fail - the mark of every
   partition at the end is at least the mark at the beginning; what Consumer::last_consumed_message answers
   never decreases and never disappears *)
Theorem C08_life_marks_monotone : forall k k',
  clos_refl_trans_1n consumer C04ExtraB.cstep k k' ->
  k_assign k' = k_assign k
  /\ (forall key, mark_le (mark k key) (mark k' key))
  /\ (forall t p o, last_consumed_message k t p = Some o ->
        exists o', last_consumed_message k' t p = Some o' /\ o <= o').
Proof.
  intros k k' H.
  assert (H0 : k_assign k' = k_assign k /\ forall key, mark_le (mark k key) (mark k' key)).
  { induction H as [k|k k1 k2 H1 _ IH].
    - split; [reflexivity|intros key; apply mark_le_refl].
    - destruct (cstep_marks _ _ H1) as [Ha1 Hm1]. destruct IH as [Ha2 Hm2].
      split; [congruence|]. intros key. eapply mark_le_trans; [apply Hm1|apply Hm2]. }
  destruct H0 as [Ha Hm]. split; [exact Ha|]. split; [exact Hm|].
  intros t p o Hl. unfold last_consumed_message in *. rewrite Ha.
  destruct (topic_ref (k_assign k) t) as [r|]; [|discriminate].
  specialize (Hm (r, p)). unfold mark in Hm. rewrite Hl in Hm.
  destruct (option_map fst (tk_get (r, p) (k_consumed k'))) as [o'|]; cbn [mark_le] in Hm; [|contradiction].
  exists o'. split; [reflexivity|exact Hm].
Qed.

(* a life of public operations IS a history in the sense of C08Extra.reach: C08_history_dirty_exact and
   C08_history_commit_exact apply to what the harness can do with a consumer (b: the marks at the last
   successful commit of the life, or `base` if there was none) *)
Theorem C08_life_reach : forall k k',
  clos_refl_trans_1n consumer C04ExtraB.cstep k k' ->
  forall base, exists b, reach base k b k'.
Proof.
  intros k k' H. induction H as [k|k k1 k2 H1 _ IH]; intros base.
  - exists base. apply reach_refl.
  - destruct H1 as [k s r k' s' Hc H|k t p o k' H|k t p o k' H|k s k' s' Hc H|k s e s' Hc H].
    + destruct (IH base) as [b Hb]. exists b. eapply reach_other; [|exact Hb].
      cbn [consumer_with_client k_consumed]. eapply C08_poll_keeps_marks. exact H.
    + destruct (IH base) as [b Hb]. exists b. eapply reach_other; [|exact Hb].
      destruct (C19_seek_assigned _ _ _ _ _ H) as (r & old & maxb & _ & _ & _ & _ & Hcons & _). exact Hcons.
    + destruct (IH base) as [b Hb]. exists b. eapply reach_mark; eassumption.
    + destruct (IH (mark k')) as [b Hb]. exists b. eapply reach_commit_ok; [exact H|].
      eapply reach_other; [|exact Hb]. reflexivity.
    + destruct (IH base) as [b Hb]. exists b. eapply reach_other; [|exact Hb]. reflexivity.
Qed.

(* composition: from Builder::create through any life - a partition is dirty exactly when its mark differs from
   the mark b at the last successful commit (or as loaded), marks are above b, and b is above what was loaded *)
Theorem C08_life_dirty_exact : forall src calls s k0 s0 k,
  consumer_create src calls s = (Ok k0, s0) ->
  clos_refl_trans_1n consumer C04ExtraB.cstep k0 k ->
  exists b, reach (mark k0) k0 b k
    /\ forall key, (dirty k key = Some true <-> mark k key <> b key)
                   /\ mark_le (b key) (mark k key) /\ mark_le (mark k0 key) (mark k key).
Proof.
  intros src calls s k0 s0 k Hc Hl.
  destruct (C08_create_loads _ _ _ _ _ Hc) as (_ & _ & _ & _ & _ & _ & _ & Hclean).
  destruct (C08_life_reach _ _ Hl (mark k0)) as [b Hb]. exists b. split; [exact Hb|].
  intros key. destruct (C08_history_dirty_exact _ _ _ Hclean Hb key) as [H1 H2].
  split; [exact H1|]. split; [exact H2|]. exact (proj1 (proj2 (C08_life_marks_monotone _ _ Hl)) key).
Qed.

Example C08_life_ex :
  exists k2, clos_refl_trans_1n consumer C04ExtraB.cstep exe_k0 k2
    /\ last_consumed_message exe_k0 (tag "a") 1 = Some 19 /\ last_consumed_message k2 (tag "a") 1 = Some 29
    /\ dirty k2 (0, 1) = Some false.
Proof.
  (* mark 29 ; mark 24 (no change) ; commit accepted *)
  set (k2 := match fst (commit_consumed exe_k1 exe_run1) with Ok k => k | _ => exe_k0 end).
  set (s' := snd (commit_consumed exe_k1 exe_run1)).
  assert (H1 : consume_message exe_k0 (tag "a") 1 29 = Ok exe_k1) by (vm_compute; reflexivity).
  assert (H2 : consume_message exe_k1 (tag "a") 1 24 = Ok exe_k1) by (vm_compute; reflexivity).
  assert (H3 : commit_consumed exe_k1 exe_run1 = (Ok k2, s')) by (vm_compute; reflexivity).
  exists (consumer_with_client k2 (cl s')). split.
  - eapply rt1n_trans; [eapply C04ExtraB.cs_consume; exact H1|].
    eapply rt1n_trans; [eapply C04ExtraB.cs_consume; exact H2|].
    eapply rt1n_trans; [eapply C04ExtraB.cs_commit with (s := exe_run1); [reflexivity|exact H3]|]. apply rt1n_refl.
  - vm_compute. repeat split.
Qed.

(* ================================================================================== *)
(* B2. the forward direction of a FAILING commit, up to Consumer::commit_consumed       *)
(* ================================================================================== *)

Lemma mbind_fail {A B} (m : M A) (f : A -> M B) s e s1 : m s = (Err e, s1) -> mbind m f s = (Err e, s1).
Proof. intros H. unfold mbind. rewrite H. reflexivity. Qed.

(* everything of commit_consumed before the exchange with the coordinator, shared by the three statements *)
Lemma commit_consumed_via_loop k s order sa corr sb os tps0 (r : res unit) s2 :
  k_group k <> [] -> dirty_entries k <> [] ->
  0 <= offset_storage (cfg (cl s)) ->
  pop_entries s = (Ok order, sa) ->
  next_corr sa = (Ok corr, sb) ->
  commit_entries (debug_build (env s)) (reorder_entries order (dirty_entries k)) = Ok os ->
  commit_tps (cs (cl s)) os [] = Some tps0 ->
  (forall f, commit_loop (S f) (k_group k)
               (enc_offset_commit_req corr (client_id (cfg (cl s))) (k_group k)
                                      (commit_version (offset_storage (cfg (cl s)))) tps0) 1 sb = (r, s2)) ->
  match r with
  | Ok _ => True
  | Err e => commit_consumed k s = (Err e, s2)
  | Panic w => commit_consumed k s = (Panic w, s2)
  end.
Proof.
  intros Hg Hne Hst Hpop Hnc Hos Htps Hloop.
  assert (Hsa : cl sa = cl s /\ env sa = env s).
  { unfold pop_entries in Hpop. destruct (entryq s); inversion Hpop; subst; split; reflexivity. }
  destruct Hsa as [Hcl Henv].
  assert (Hco : commit_offsets (k_group k) os sa = (r, s2)).
  { unfold commit_offsets. erewrite mbind_step; [|reflexivity]. rewrite Hcl.
    destruct (offset_storage (cfg (cl s)) <? 0) eqn:E; [lia|].
    rewrite (mbind_step _ _ _ _ _ Hnc). rewrite Htps.
    assert (Hos_ne : os <> []).
    { pose proof (C08_reorder_perm order (dirty_entries k)) as Hp.
      destruct (reorder_entries order (dirty_entries k)) as [|e0 es0] eqn:Er.
      - apply Permutation_nil in Hp. congruence.
      - eapply commit_entries_nonempty. exact Hos. }
    assert (Htne : tps0 <> []) by (eapply commit_tps_nonempty; [exact Htps|left; exact Hos_ne]).
    destruct tps0 as [|tp0 tpr] eqn:E0; [congruence|]. rewrite <- E0 in *.
    unfold with_fuel. apply Hloop. }
  assert (Hord : (match dirty_entries k with [] => ret [] | _ :: _ => pop_entries end) s = (Ok order, sa))
    by (destruct (dirty_entries k); [congruence|exact Hpop]).
  destruct r as [u|e|w]; [exact I| |].
  - unfold commit_consumed. destruct (k_group k) as [|g0 g] eqn:Eg; [congruence|].
    erewrite mbind_step; [|reflexivity]. rewrite (mbind_step _ _ _ _ _ Hord).
    erewrite mbind_step; [|unfold lift; rewrite Hos; reflexivity].
    apply mbind_fail. exact Hco.
  - unfold commit_consumed. destruct (k_group k) as [|g0 g] eqn:Eg; [congruence|].
    erewrite mbind_step; [|reflexivity]. rewrite (mbind_step _ _ _ _ _ Hord).
    erewrite mbind_step; [|unfold lift; rewrite Hos; reflexivity].
    unfold mbind at 1. rewrite Hco. reflexivity.
Qed.

(* "commit failing with an error code": the coordinator's answer carries a code other than the two transient
   ones on ANY entry (all entries before it accepted): Consumer::commit_consumed answers that code *)
Theorem C08_commit_consumed_rejected : forall k s order sa corr sb os tps0 h s1 c0 tps s2 pre e post c,
  k_group k <> [] -> dirty_entries k <> [] ->
  0 <= offset_storage (cfg (cl s)) ->
  pop_entries s = (Ok order, sa) ->
  next_corr sa = (Ok corr, sb) ->
  commit_entries (debug_build (env s)) (reorder_entries order (dirty_entries k)) = Ok os ->
  commit_tps (cs (cl s)) os [] = Some tps0 ->
  get_group_coordinator (k_group k) sb = (Ok h, s1) ->
  send_receive dec_offset_commit_resp h
    (enc_offset_commit_req corr (client_id (cfg (cl s))) (k_group k)
                           (commit_version (offset_storage (cfg (cl s)))) tps0) s1 = (Ok (c0, tps), s2) ->
  commit_codes tps = pre ++ e :: post -> Forall (fun x => x = 0) pre -> from_protocol e = Some c ->
  c <> KC_GroupLoadInProgress -> c <> KC_NotCoordinatorForGroup ->
  commit_consumed k s = (Err (EKafka c), s2).
Proof.
  intros k s order sa corr sb os tps0 h s1 c0 tps s2 pre e post c Hg Hne Hst Hpop Hnc Hos Htps Hh Hsr Hc Hpre He Hn1 Hn2.
  apply (commit_consumed_via_loop k s order sa corr sb os tps0 (Err (EKafka c)) s2 Hg Hne Hst Hpop Hnc Hos Htps).
  intros f. eapply C08_commit_loop_rejected; eassumption.
Qed.

(* "commit failing with a lost connection": the exchange with the coordinator fails (connect refused, write or
   read error, short or undecodable answer - whatever send_receive reports): commit_consumed answers that error;
   likewise when the coordinator cannot be determined *)
Theorem C08_commit_consumed_lost : forall k s order sa corr sb os tps0 h s1 e s2,
  k_group k <> [] -> dirty_entries k <> [] ->
  0 <= offset_storage (cfg (cl s)) ->
  pop_entries s = (Ok order, sa) ->
  next_corr sa = (Ok corr, sb) ->
  commit_entries (debug_build (env s)) (reorder_entries order (dirty_entries k)) = Ok os ->
  commit_tps (cs (cl s)) os [] = Some tps0 ->
  get_group_coordinator (k_group k) sb = (Ok h, s1) ->
  send_receive dec_offset_commit_resp h
    (enc_offset_commit_req corr (client_id (cfg (cl s))) (k_group k)
                           (commit_version (offset_storage (cfg (cl s)))) tps0) s1 = (Err e, s2) ->
  commit_consumed k s = (Err e, s2).
Proof.
  intros k s order sa corr sb os tps0 h s1 e s2 Hg Hne Hst Hpop Hnc Hos Htps Hh Hsr.
  apply (commit_consumed_via_loop k s order sa corr sb os tps0 (Err e) s2 Hg Hne Hst Hpop Hnc Hos Htps).
  intros f. cbn [commit_loop]. rewrite (mbind_step _ _ _ _ _ Hh). apply mbind_fail. exact Hsr.
Qed.

Theorem C08_commit_consumed_no_coordinator : forall k s order sa corr sb os tps0 e s1,
  k_group k <> [] -> dirty_entries k <> [] ->
  0 <= offset_storage (cfg (cl s)) ->
  pop_entries s = (Ok order, sa) ->
  next_corr sa = (Ok corr, sb) ->
  commit_entries (debug_build (env s)) (reorder_entries order (dirty_entries k)) = Ok os ->
  commit_tps (cs (cl s)) os [] = Some tps0 ->
  get_group_coordinator (k_group k) sb = (Err e, s1) ->
  commit_consumed k s = (Err e, s1).
Proof.
  intros k s order sa corr sb os tps0 e s1 Hg Hne Hst Hpop Hnc Hos Htps Hh.
  apply (commit_consumed_via_loop k s order sa corr sb os tps0 (Err e) s1 Hg Hne Hst Hpop Hnc Hos Htps).
  intros f. cbn [commit_loop]. apply mbind_fail. exact Hh.
Qed.

(* through the scripted call: the broker rejects / the connection is lost, THEREFORE the call answers the error,
   the consumer keeps every mark and every dirty flag, and it is a step of a life (so C08_failed_commit_resent
   applies: the next commit sends the same entries) *)
Theorem C08_dispatch_commit_failed : forall k hv scv ev e s2,
  commit_consumed k (run_state (k_client k) ev scv hv) = (Err e, s2) ->
  let out := dispatch (OConsumer k) commit_op hv scv ev in
  o_result out = vt "err" [err_val e]
  /\ exists k1, o_obj out = OConsumer k1 /\ k_consumed k1 = k_consumed k /\ dirty_entries k1 = dirty_entries k
       /\ k_client k1 = cl s2 /\ C04ExtraB.cstep k k1
       /\ forall t p, last_consumed_message k1 t p = last_consumed_message k t p.
Proof.
  intros k hv scv ev e s2 H out.
  destruct (C08_failed_commit_keeps_flags _ _ _ _ _ _ H) as (Hr & _ & Ho & k1 & Hk1 & Hcl & _ & Hcons & Ha & _ & _ & _ & Hde & _).
  fold out in Hr, Ho, Hk1. split; [exact Hr|]. exists k1. split; [exact Hk1|]. split; [exact Hcons|]. split; [exact Hde|].
  split; [exact Hcl|]. split.
  - rewrite Ho in Hk1. injection Hk1 as <-.
    apply C04ExtraB.cs_commit_err with (s := run_state (k_client k) ev scv hv) (e := e); [reflexivity|exact H].
  - intros t p. unfold last_consumed_message. rewrite Ha, Hcons. reflexivity.
Qed.

(* non-vacuity: the consumer of C08Extra (a/1: 19 and b/0: 31 dirty); (i) b/0 rejected with code 12,
   (ii) the connection breaks while the request is written *)
Example C08_commit_consumed_rejected_ex :
  let s := ex_run2 0 12 in
  let sb := snd (next_corr (snd (pop_entries s))) in
  let tps0 := [(tag "a", [(1, 20)]); (tag "b", [(0, 32)])] in
  fst (pop_entries s) = Ok [] /\ fst (next_corr (snd (pop_entries s))) = Ok 1
  /\ fst (get_group_coordinator (tag "g") sb) = Ok exh
  /\ fst (send_receive dec_offset_commit_resp exh
            (enc_offset_commit_req 1 (tag "me") (tag "g") (commit_version 1) tps0)
            (snd (get_group_coordinator (tag "g") sb)))
     = Ok (1, [(tag "a", [(1, 0)]); (tag "b", [(0, 12)])])
  /\ commit_codes [(tag "a", [(1, 0)]); (tag "b", [(0, 12)])] = [0] ++ 12 :: []
  /\ from_protocol 12 = Some 12 /\ 12 <> KC_GroupLoadInProgress /\ 12 <> KC_NotCoordinatorForGroup
  /\ fst (commit_consumed ex_k2 s) = Err (EKafka 12).
Proof. vm_compute. repeat split; discriminate. Qed.

Definition exe_lost : st := st_with (ex_st ex_client1) [OConn true; OWriteFail IoOther] [].

Example C08_commit_consumed_lost_ex :
  let s := exe_lost in
  let sb := snd (next_corr (snd (pop_entries s))) in
  let tps0 := [(tag "a", [(1, 20)]); (tag "b", [(0, 32)])] in
  fst (get_group_coordinator (tag "g") sb) = Ok exh
  /\ fst (send_receive dec_offset_commit_resp exh
            (enc_offset_commit_req 1 (tag "me") (tag "g") (commit_version 1) tps0)
            (snd (get_group_coordinator (tag "g") sb)))
     = Err (EIo IoOther)
  /\ fst (commit_consumed ex_k2 s) = Err (EIo IoOther).
Proof. vm_compute. repeat split. Qed.

Example C08_dispatch_commit_failed_ex :
  forall first, first = exc_rejected \/ first = exc_lost ->
  exists e, fst (commit_consumed ex_k2 (run_state (k_client ex_k2) exc_ev first exc_hv)) = Err e.
Proof. intros first [H|H]; subst first; eexists; vm_compute; reflexivity. Qed.

(* ================================================================================== *)
(* B3. consume_message / last_consumed_message as the harness calls them                *)
(* ================================================================================== *)

(* ( consumer_op ( consume_message topic partition offset ) ) - also what `consume_messageset k` becomes -
   and ( consumer_op ( last_consumed_message topic partition ) ) *)
Definition mark_op (t : bytes) (p off : Z) : val := vt "consumer_op" [vt "consume_message" [VB t; VI p; VI off]].
Definition last_op (t : bytes) (p : Z) : val := vt "consumer_op" [vt "last_consumed_message" [VB t; VI p]].

Ltac dispatch_tags :=
  repeat (rewrite !is_tag_VT;
          repeat match goal with
                 | |- context [bytes_eqb (tag ?a) (tag ?b)] =>
                     let r := eval vm_compute in (bytes_eqb (tag a) (tag b)) in
                     change (bytes_eqb (tag a) (tag b)) with r
                 end;
          cbv iota; cbn [varg vargs nth]).

(* the scripted mark: no I/O; Ok - the consumer consume_message returns; an error - the old consumer *)
Theorem C08_dispatch_consume_message : forall k t p off hv scv ev,
  dispatch (OConsumer k) (mark_op t p off) hv scv ev
  = {| o_result := res_val (fun _ => vunit) (consume_message k t p off);
       o_obj := match consume_message k t p off with Ok k' => OConsumer k' | _ => OConsumer k end;
       o_trace := [] |}.
Proof.
  intros k t p off hv scv ev. unfold dispatch, mark_op, vt. cbv zeta. dispatch_tags.
  cbn [vbytes vint]. reflexivity.
Qed.

Theorem C08_dispatch_last_consumed : forall k t p hv scv ev,
  dispatch (OConsumer k) (last_op t p) hv scv ev
  = {| o_result := vt "ok" [match last_consumed_message k t p with
                            | Some off => vt "some" [VI off] | None => vt "none" [] end];
       o_obj := OConsumer k; o_trace := [] |}.
Proof.
  intros k t p hv scv ev. unfold dispatch, last_op, vt. cbv zeta. dispatch_tags.
  cbn [vbytes vint]. reflexivity.
Qed.

(* what one call leaves for the next, as the harness sees it: mark `hi` (answers Ok), then mark `lo <= hi` on the
   same partition, then ask.  The second call answers Ok and leaves the very same object; the answer to the
   question is at least `hi` - it is max(previous mark, hi). *)
Theorem C08_dispatch_mark_then_lower : forall k t p hi lo hv scv ev hv2 scv2 ev2 hv3 scv3 ev3,
  lo <= hi ->
  let out1 := dispatch (OConsumer k) (mark_op t p hi) hv scv ev in
  let out2 := dispatch (o_obj out1) (mark_op t p lo) hv2 scv2 ev2 in
  let out3 := dispatch (o_obj out2) (last_op t p) hv3 scv3 ev3 in
  o_result out1 = vt "ok" [vunit] ->
  o_result out2 = vt "ok" [vunit] /\ o_obj out2 = o_obj out1 /\ o_trace out2 = []
  /\ exists r, topic_ref (k_assign k) t = Some r
       /\ o_result out3 = vt "ok" [vt "some" [VI (match mark k (r, p) with Some o => Z.max o hi | None => hi end)]].
Proof.
  intros k t p hi lo hv scv ev hv2 scv2 ev2 hv3 scv3 ev3 Hle out1 out2 out3 H1.
  subst out3 out2 out1. rewrite C08_dispatch_consume_message in *. cbn [o_result o_obj] in *.
  destruct (consume_message k t p hi) as [k1|e|w] eqn:E1; cbn [res_val] in H1.
  - assert (E2 : consume_message k1 t p lo = Ok k1).
    { pose proof (C08_messageset_older_noop k t p hi k1 [ {| m_offset := lo; m_key := []; m_value := [] |} ]
                    {| m_offset := lo; m_key := []; m_value := [] |} E1 eq_refl Hle) as H.
      exact H. }
    rewrite C08_dispatch_consume_message, E2. cbn [o_result o_obj o_trace res_val].
    split; [reflexivity|]. split; [reflexivity|]. split; [reflexivity|].
    destruct (C08_monotone _ _ _ _ _ E1) as (_ & r & Hr & Hm).
    destruct (C19_consume_assigned _ _ _ _ _ E1) as (r' & Hr' & _ & _ & _ & Ha & _).
    exists r. split; [exact Hr|]. rewrite C08_dispatch_last_consumed. cbn [o_result].
    unfold last_consumed_message. rewrite Ha, Hr. fold (mark k1 (r, p)). rewrite Hm. reflexivity.
  - exfalso. exact (vt_err_not_ok _ H1).
  - exfalso. exact (vt_panic_not_ok _ H1).
Qed.

Example C08_dispatch_mark_then_lower_ex :
  let out1 := dispatch (OConsumer exe_k0) (mark_op (tag "a") 1 29) exc_hv (VL []) exc_ev in
  let out2 := dispatch (o_obj out1) (mark_op (tag "a") 1 24) exc_hv (VL []) exc_ev in
  let out3 := dispatch (o_obj out2) (last_op (tag "a") 1) exc_hv (VL []) exc_ev in
  o_result out1 = vt "ok" [vunit] /\ o_obj out1 = OConsumer exe_k1 /\ o_obj out2 = OConsumer exe_k1
  /\ o_result out3 = vt "ok" [vt "some" [VI 29]].
Proof. vm_compute. repeat split. Qed.

Check C08_messageset_monotone.
Check C08_processed_set_markable.
Check C08_polled_set_markable.
Check C08_life_marks_monotone.
Check C08_life_reach.
Check C08_life_dirty_exact.
Check C08_commit_consumed_rejected.
Check C08_commit_consumed_lost.
Check C08_commit_consumed_no_coordinator.
Check C08_dispatch_commit_failed.
Check C08_dispatch_consume_message.
Check C08_dispatch_last_consumed.
Check C08_dispatch_mark_then_lower.
Check C08_messageset_older_noop.
Check C08_messageset_older_after_newer.
Check C08_messageset_after_commit.
Check C08_messageset_reach.
Print Assumptions C08_messageset_monotone.
Print Assumptions C08_messageset_older_noop.
Print Assumptions C08_messageset_older_after_newer.
Print Assumptions C08_messageset_after_commit.
Print Assumptions C08_messageset_reach.
Print Assumptions C08_processed_set_markable.
Print Assumptions C08_polled_set_markable.
Print Assumptions C08_life_marks_monotone.
Print Assumptions C08_life_reach.
Print Assumptions C08_life_dirty_exact.
Print Assumptions C08_commit_consumed_rejected.
Print Assumptions C08_commit_consumed_lost.
Print Assumptions C08_commit_consumed_no_coordinator.
Print Assumptions C08_dispatch_commit_failed.
Print Assumptions C08_dispatch_consume_message.
Print Assumptions C08_dispatch_last_consumed.
Print Assumptions C08_dispatch_mark_then_lower.
