(* C02, additional theorems, third mutation-adequacy pass (round-five and round-six seeds).

   Seed C02-6 (MAX_COMPRESSION_DEPTH guard in MessageSet::from_vec that counts levels from one:
   a compressed set inside a compressed set is answered with Err(UnsupportedCompression)), mirrored in
   Model/Responses.v (`from_slice` with a level counter, the inner call refused at level >= 2) is
   ALREADY caught by Props/C02.v: C02_nested_first (and with it C02_chain, C02_outside_known,
   C02_safe_always, C02_nonempty_chain, C02_fetch_end_to_end, C02_fetch_messages_one_broker) - on the
   mutated model the negation of the statement of C02_nested_first was proved with the witness
   gzip(snappy(es3)) (scratch copy, not part of this development).

   Seed C02-5 (`gzip::uncompress` rewritten as a chunk-wise read loop that takes a short read() of
   flate2's GzDecoder for the end of the stream) has NO counterpart in the model: the whole function
   `compression::gzip::uncompress` is the oracle `gz_decompress` of the `codecs` record (external code),
   and where flate2 returns a short read is a fact about flate2's internal 32 KiB input buffer that the
   model does not have.  The change falsifies the gzip clause of the hypothesis `codec_ok`
   (gz_decompress cz (comp 1 x) = Some x) for compressed payloads above 32768 bytes, not a theorem;
   it is the correspondence run (gunzip table computed by an independent gzip) that sees it.
   What is added here are the nearest statements the model can express:
   (1) C02_wrapper_value_to_codec / C02_gzip_oracle_transparent: WITHOUT any assumption on the codecs,
       the decoder hands the WHOLE value of a complete head wrapper to the decompressor and parses the
       WHOLE output - nothing is cut on either side of the oracle call inside fetch.rs; so the gzip
       clause of `codec_ok` is all that is assumed about gzip.rs (a mirror of the seed as "cut the data
       after/before the oracle" inside the model breaks these, and C02_wrapper_first).
   (2) C02_gzip_short_read_effect: what a short-reading gunzip does to the UNCHANGED decoder: no error,
       the batch is silently shortened to the entries lying completely within the bytes delivered -
       exactly the symptom of the seed, derived in the model;
       C02_gzip_clause_needed: concrete witness - a gunzip that always delivers a prefix of the true
       output (everything else of codec_ok intact) exposes NOTHING from the requested offset on although
       the complete batch holding it was received, while a read from the first offset of the batch looks
       fine; so the gzip clause of codec_ok cannot be weakened to "delivers a prefix".

   Step 4 (most valuable missing statement): C02_decoder_exact - the exact function the decoder
   computes on EVERY well-formed set (also the class `Known`, for which Props/C02.v only has the
   sublist statement C02_safe_always and two witnesses), for every cut k and requested offset:
   `dec_view`.  Corollaries: C02_decoder_exact_known_shape (what exactly is lost in the class `Known`),
   C02_dec_view_fuel (the depth bound is not observable).
   Everything is about the unchanged model. *)
From KV Require Import Base.Prelude Base.Crc32 Base.Snappy Gen.Consts
                       Model.Codecs Model.Requests Model.Responses
                       Spec.MsgSetSpec Proofs.BytesFacts Proofs.C02Lemmas Proofs.C02Facts.
From Coq Require Import ZifyBool.

(* ====================================================================== *)
(* (1) a complete head wrapper: its whole value goes to the decompressor,   *)
(*     the whole output is parsed - no assumption on the codecs             *)
(* ====================================================================== *)

Section Oracle.
  Variable comp : Z -> bytes -> bytes.

  Lemma next_message_wrapper dbg validate c off inner rest :
    wf_entry comp (Wrapper c off inner) ->
    next_message dbg validate (ser_entry comp (Wrapper c off inner) ++ rest)
    = Ok (off, (c, [], comp c (ser comp inner)), rest).
  Proof.
    intros Hwf. apply wf_entry_wrapper in Hwf. destruct Hwf as [Hcc [Ho [Hf _]]].
    rewrite ser_entry_wrapper.
    rewrite next_message_complete; try assumption; [reflexivity|].
    unfold in_i8. destruct Hcc; lia.
  Qed.

  (* MessageSet::from_slice, arm GZIP / SNAPPY of the match, for a complete wrapper at the head of
     the set and ANY codecs record (no codec_ok): the result is whatever the decompressor's output
     decodes to; `rest` and the cut k behind the wrapper play no role *)
  Theorem C02_wrapper_value_to_codec : forall cz d validate req c off inner rest k,
    wf_entry comp (Wrapper c off inner) ->
    (length (ser_entry comp (Wrapper c off inner)) <= k)%nat ->
    from_slice cz (S d) validate req (firstn k (ser comp (Wrapper c off inner :: rest)))
    = if c =? 1 then
        match gz_decompress cz (comp c (ser comp inner)) with
        | Some data => from_slice cz d validate req data
        | None => Err (EIo IoOther)
        end
      else if alloc_limit <=? xerial_max_alloc (comp c (ser comp inner)) then alloc_panic
      else match xerial_read_to_end (comp c (ser comp inner)) with
           | Ok data => from_slice cz d validate req data
           | Err e => Err e
           | Panic w => Panic w
           end.
  Proof.
    intros cz d validate req c off inner rest k Hwf Hk.
    pose proof Hwf as Hwf'. apply wf_entry_wrapper in Hwf'. destruct Hwf' as [Hcc _].
    rewrite from_slice_S, ser_cons, firstn_app_ge by exact Hk.
    rewrite (ms_loop_wrapper_step _ _ _ _ _ _ _ off c [] (comp c (ser comp inner))
               (firstn (k - length (ser_entry comp (Wrapper c off inner))) (ser comp rest))).
    - unfold inner_of. change COMPRESSION_GZIP with 1.
      destruct (c =? 1); [reflexivity|].
      destruct (alloc_limit <=? xerial_max_alloc (comp c (ser comp inner))); [reflexivity|].
      destruct (xerial_read_to_end (comp c (ser comp inner))); reflexivity.
    - apply ser_entry_nonempty.
    - assumption.
    - apply next_message_wrapper. assumption.
  Qed.

  (* the gzip arm on its own *)
  Theorem C02_gzip_oracle_transparent : forall cz d validate req off inner rest k,
    wf_entry comp (Wrapper 1 off inner) ->
    (length (ser_entry comp (Wrapper 1 off inner)) <= k)%nat ->
    from_slice cz (S d) validate req (firstn k (ser comp (Wrapper 1 off inner :: rest)))
    = match gz_decompress cz (comp 1 (ser comp inner)) with
      | Some data => from_slice cz d validate req data
      | None => Err (EIo IoOther)
      end.
  Proof.
    intros cz d validate req off inner rest k Hwf Hk.
    rewrite C02_wrapper_value_to_codec by assumption. reflexivity.
  Qed.

  (* (2) a gunzip that stops early (delivers the first j bytes of the stored inner set): the
     unchanged decoder reports NO error and exposes exactly the messages of the entries that lie
     completely within those j bytes - the cut is taken for a truncated tail. *)
  Theorem C02_gzip_short_read_effect : forall cz d validate req off inner rest k j,
    all_plain inner ->
    wf_entry comp (Wrapper 1 off inner) ->
    (length (ser_entry comp (Wrapper 1 off inner)) <= k)%nat ->
    gz_decompress cz (comp 1 (ser comp inner)) = Some (firstn j (ser comp inner)) ->
    from_slice cz (S (S d)) validate req (firstn k (ser comp (Wrapper 1 off inner :: rest)))
    = Ok (map msg_of (filter (fun x => req <=? fst (fst x)) (flatten (complete_prefix comp inner j)))).
  Proof.
    intros cz d validate req off inner rest k j Hp Hwf Hk Hgz.
    rewrite C02_gzip_oracle_transparent by assumption. rewrite Hgz.
    apply from_slice_plain; [assumption|]. apply wf_entry_wrapper in Hwf. tauto.
  Qed.
End Oracle.

(* a gunzip with a short read after 60 bytes (the scaled-down picture of flate2's 32 KiB input
   buffer running dry); `wcomp 1` is the identity, so the true output of gunzip on v is v *)
Definition cz_short (dbg : bool) : codecs :=
  {| gz_compress := fun x => x; sn_compress := fun x => x;
     gz_decompress := fun x => Some (firstn 60 x); debug_build := dbg |}.

(* the 82 bytes of es3 = entries of 27 + 29 + 26 bytes: messages 0 and 1 end at byte 56 *)
Example C02_wrapper_value_to_codec_ex :
  wf_entry wcomp (Wrapper 1 2 es3) /\ wf_entry wcomp (Wrapper 2 2 es3) /\
  length (ser_entry wcomp (Wrapper 1 2 es3)) = 108%nat /\
  from_slice (cz_short true) 2 true 0 (firstn 108 (ser wcomp [Wrapper 1 2 es3; Plain 3 None (Some [x63])]))
  = from_slice (cz_short true) 1 true 0 (firstn 60 (ser wcomp es3)) /\
  from_slice (cz_short true) 2 true 0 (ser wcomp [Wrapper 2 2 es3])
  = from_slice (cz_short true) 1 true 0 (ser wcomp es3).
Proof.
  split; [vm_compute; repeat split; try (left; reflexivity); intros H; discriminate H|].
  split; [vm_compute; repeat split; try (right; reflexivity); intros H; discriminate H|].
  vm_compute. repeat split; reflexivity.
Qed.

Example C02_gzip_short_read_effect_ex :
  all_plain es3 /\ wf_entry wcomp (Wrapper 1 2 es3) /\
  gz_decompress (cz_short true) (wcomp 1 (ser wcomp es3)) = Some (firstn 60 (ser wcomp es3)) /\
  map msg_of (filter (fun x => 0 <=? fst (fst x)) (flatten (complete_prefix wcomp es3 60)))
  = [msg_of (0, [], [x61]); m1].
Proof.
  split; [plain_tac|].
  split; [vm_compute; repeat split; try (left; reflexivity); intros H; discriminate H|].
  vm_compute. split; reflexivity.
Qed.

(* The gzip clause of codec_ok cannot be weakened to "gunzip delivers a prefix of what was stored":
   with such a gunzip (snappy clause of codec_ok intact, batch complete, CRCs valid)
   - reading the batch from its first offset gives a perfectly good prefix (messages 0 and 1),
   - reading on from offset 2 gives NOTHING and no error, although message 2 is complete and
     qualifies: "the prefix is non-empty whenever a complete qualifying message exists" fails and the
     reader is stuck.  This is seed C02-5 inside the model; what excludes it is exactly the first
     conjunct of codec_ok. *)
Theorem C02_gzip_clause_needed :
  exists cz comp off inner req x,
    (forall v, exists j, gz_decompress cz (comp 1 v) = Some (firstn j v)) /\
    (forall v, blen v < alloc_limit ->
               xerial_read_to_end (comp 2 v) = Ok v /\ xerial_max_alloc (comp 2 v) < alloc_limit) /\
    ~ codec_ok cz comp /\
    all_plain inner /\ wf_entry comp (Wrapper 1 off inner) /\
    In x (flatten inner) /\ req <= fst (fst x) /\
    from_slice cz 2 true req (ser comp [Wrapper 1 off inner]) = Ok [] /\
    from_slice cz 2 true 0 (ser comp [Wrapper 1 off inner]) = Ok [msg_of (0, [], [x61]); m1].
Proof.
  exists (cz_short true), wcomp, 2, es3, 2, (2, [], []).
  split; [intros v; exists 60%nat; reflexivity|].
  split; [exact (proj2 (wcomp_codec_ok true))|].
  split.
  { intros [Hgz _]. specialize (Hgz (ser wcomp es3)). vm_compute in Hgz. discriminate Hgz. }
  split; [plain_tac|].
  split; [vm_compute; repeat split; try (left; reflexivity); intros H; discriminate H|].
  split; [vm_compute; auto|].
  split; [cbn [fst]; lia|].
  split; vm_compute; reflexivity.
Qed.

(* ====================================================================== *)
(* (step 4) the exact function the decoder computes on EVERY well-formed set *)
(* ====================================================================== *)

(* the first wrapper of a list of entries: its codec, offset and inner set *)
Fixpoint first_wrapper (es : list entry) : option (Z * Z * list entry) :=
  match es with
  | [] => None
  | Plain _ _ _ :: r => first_wrapper r
  | Wrapper c o inner :: _ => Some (c, o, inner)
  end.

Lemma first_wrapper_In es c o inner :
  first_wrapper es = Some (c, o, inner) -> In (Wrapper c o inner) es.
Proof.
  induction es as [|[o' k' v'|c' o' i'] r IH]; cbn [first_wrapper]; intros H.
  - discriminate H.
  - right. apply IH. assumption.
  - inversion H; subst. left. reflexivity.
Qed.

Lemma first_wrapper_None_plain es : first_wrapper es = None <-> all_plain es.
Proof.
  induction es as [|[o' k' v'|c' o' i'] r IH]; cbn [first_wrapper].
  - split; [intros _; apply all_plain_nil|reflexivity].
  - split.
    + intros H e [<-|He]; [eauto|]. apply (proj1 IH H). assumption.
    + intros H. apply IH. apply all_plain_cons in H. tauto.
  - split; [intros H; discriminate H|].
    intros H. destruct (H (Wrapper c' o' i') (or_introl eq_refl)) as [o [k [v E]]]. discriminate E.
Qed.

Lemma depth_In e es : In e es -> (depth_entry e <= depth es)%nat.
Proof.
  induction es as [|x r IH]; intros H; [destruct H|].
  rewrite depth_cons. destruct H as [<-|H]; [lia|]. specialize (IH H). lia.
Qed.

Section Exact.
  Variable comp : Z -> bytes -> bytes.

  (* What MessageSet::from_slice exposes (before the filter on the requested offset) for the first
     k bytes of the serialisation of `es`: look at the entries lying completely within the k bytes;
     if one of them is a compressed batch, the FIRST such batch decides - the result is what its
     (complete) inner set gives, the plain messages in front of it and everything behind it are
     lost (fetch.rs:421-431, finding F13); otherwise all their messages.  `n` bounds the nesting. *)
  Fixpoint dec_view (n : nat) (es : list entry) (k : nat) : list (Z * bytes * bytes) :=
    match n with
    | O => []
    | S n' =>
        match first_wrapper (complete_prefix comp es k) with
        | None => flatten (complete_prefix comp es k)
        | Some (_, _, inner) => dec_view n' inner (length (ser comp inner))
        end
    end.

  Lemma In_complete_prefix e es k : In e (complete_prefix comp es k) -> In e es.
  Proof.
    intros H. destruct (complete_prefix_is_prefix comp es k) as [t Ht].
    rewrite Ht. apply in_or_app. left. assumption.
  Qed.

  Lemma first_wrapper_prefix_facts es k c o inner :
    wf_entries comp es ->
    first_wrapper (complete_prefix comp es k) = Some (c, o, inner) ->
    wf_entries comp inner /\ (S (depth inner) <= depth es)%nat.
  Proof.
    intros Hwf H. apply first_wrapper_In, In_complete_prefix in H.
    split.
    - unfold wf_entries in Hwf. rewrite Forall_forall in Hwf. specialize (Hwf _ H).
      apply wf_entry_wrapper in Hwf. tauto.
    - apply depth_In in H. rewrite depth_entry_wrapper in H. exact H.
  Qed.

  (* the nesting bound is not observable *)
  Lemma C02_dec_view_fuel : forall n m es k,
    wf_entries comp es -> (depth es < n)%nat -> (depth es < m)%nat ->
    dec_view n es k = dec_view m es k.
  Proof.
    induction n as [|n IH]; intros m es k Hwf Hn Hm; [lia|].
    destruct m as [|m]; [lia|]. cbn [dec_view].
    destruct (first_wrapper (complete_prefix comp es k)) as [[[c o] inner]|] eqn:E; [|reflexivity].
    destruct (first_wrapper_prefix_facts es k c o inner Hwf E) as [Hwi Hd].
    apply IH; [assumption|lia|lia].
  Qed.

  (* the entry loop on any well-formed set *)
  Lemma ms_loop_exact cz validate req d :
    codec_ok cz comp ->
    forall es k fuel acc,
      wf_entries comp es ->
      (length (firstn k (ser comp es)) < fuel)%nat ->
      ms_loop (inner_of cz d validate req) (debug_build cz) validate req fuel
              (firstn k (ser comp es)) acc
      = match first_wrapper (complete_prefix comp es k) with
        | None => Ok (rev acc ++ map msg_of (filter (qual req) (flatten (complete_prefix comp es k))))
        | Some (_, _, inner) => from_slice cz d validate req (ser comp inner)
        end.
  Proof.
    intros Hc. induction es as [|e r IH]; intros k fuel acc Hwf Hfuel.
    - unfold ser. cbn [flat_map]. rewrite firstn_nil, ms_loop_nil.
      cbn [complete_prefix first_wrapper flatten flat_map filter map]. rewrite app_nil_r. reflexivity.
    - inversion Hwf as [|x l Hwe Hwr]; subst.
      destruct fuel as [|f]; [lia|].
      cbn [complete_prefix].
      destruct (Nat.leb (length (ser_entry comp e)) k) eqn:E.
      + apply Nat.leb_le in E.
        destruct e as [o key v|c o inner].
        * destruct Hwe as [Ho Hf].
          rewrite ser_cons in *. rewrite firstn_app_ge in * by exact E.
          rewrite app_length in Hfuel.
          rewrite (ms_loop_plain_step _ _ _ _ f _ _ o (view_opt key) (view_opt v)
                     (firstn (k - length (ser_entry comp (Plain o key v))) (ser comp r))).
          2:{ apply ser_entry_nonempty. }
          2:{ rewrite ser_entry_plain. apply next_message_complete; try assumption.
              unfold in_i8. lia. }
          pose proof (ser_entry_length_pos comp (Plain o key v)) as Hpos.
          rewrite IH by (try assumption; lia).
          cbn [first_wrapper].
          destruct (first_wrapper (complete_prefix comp r (k - length (ser_entry comp (Plain o key v)))))
            as [[[c' o'] inner']|]; [reflexivity|].
          rewrite flatten_cons. cbn [flatten_entry app filter].
          change (qual req (o, view_opt key, view_opt v)) with (req <=? o).
          destruct (req <=? o).
          -- cbn [rev map]. rewrite <- app_assoc. reflexivity.
          -- reflexivity.
        * pose proof Hwe as Hwe'. apply wf_entry_wrapper in Hwe'.
          destruct Hwe' as [Hcc [Ho [Hf [Hal Hin]]]].
          rewrite ser_cons, firstn_app_ge by exact E.
          rewrite (ms_loop_wrapper_step _ _ _ _ _ _ _ o c [] (comp c (ser comp inner))
                     (firstn (k - length (ser_entry comp (Wrapper c o inner))) (ser comp r))).
          2:{ apply ser_entry_nonempty. }
          2:{ assumption. }
          2:{ apply next_message_wrapper. assumption. }
          cbn [first_wrapper]. apply inner_of_comp; assumption.
      + apply Nat.leb_gt in E. rewrite ms_loop_cut by assumption.
        cbn [first_wrapper flatten flat_map filter map]. rewrite app_nil_r. reflexivity.
  Qed.

  (* EVERY well-formed set a conforming broker may serve (any sequence of plain / gzip / snappy
     batches, nested to any depth below the bound, class `Known` included), cut at ANY byte k, any
     requested offset, both CRC settings, both build profiles: decoding succeeds and exposes exactly
     the messages of `dec_view` at or above the requested offset - in log order, byte-identical. *)
  Theorem C02_decoder_exact : forall cz validate req,
    codec_ok cz comp ->
    forall fuel es k, wf_entries comp es -> (depth es < fuel)%nat ->
    from_slice cz fuel validate req (firstn k (ser comp es))
    = Ok (map msg_of (filter (fun x => req <=? fst (fst x)) (dec_view fuel es k))).
  Proof.
    intros cz validate req Hc.
    change (fun x : Z * bytes * bytes => req <=? fst (fst x)) with (qual req).
    induction fuel as [|d IH]; intros es k Hwf Hd; [lia|].
    rewrite from_slice_S, (ms_loop_exact cz validate req d Hc) by (try assumption; lia).
    cbn [dec_view].
    destruct (first_wrapper (complete_prefix comp es k)) as [[[c o] inner]|] eqn:E; [|reflexivity].
    destruct (first_wrapper_prefix_facts es k c o inner Hwf E) as [Hwi Hdi].
    rewrite <- (firstn_all (ser comp inner)) at 1.
    apply IH; [assumption|lia].
  Qed.

  (* the same with the bound removed from the right-hand side *)
  Corollary C02_decoder_exact_depth : forall cz validate req,
    codec_ok cz comp ->
    forall fuel es k, wf_entries comp es -> (depth es < fuel)%nat ->
    from_slice cz fuel validate req (firstn k (ser comp es))
    = Ok (map msg_of (filter (fun x => req <=? fst (fst x)) (dec_view (S (depth es)) es k))).
  Proof.
    intros cz validate req Hc fuel es k Hwf Hd.
    rewrite (C02_decoder_exact cz validate req Hc fuel es k Hwf Hd).
    rewrite (C02_dec_view_fuel fuel (S (depth es)) es k Hwf Hd) by lia. reflexivity.
  Qed.

  (* The class `Known` in its simplest shape, exactly: plain entries, then a complete batch of
     plain messages, then anything.  The decoder exposes the messages of that batch and nothing
     else: the plain messages in front (`pre`) are dropped although already collected, whatever
     follows (`rest`) is never read. *)
  Theorem C02_decoder_exact_known_shape : forall cz d validate req pre c off inner rest k,
    codec_ok cz comp ->
    all_plain pre -> all_plain inner ->
    wf_entries comp pre -> wf_entry comp (Wrapper c off inner) ->
    (length (ser comp pre) + length (ser_entry comp (Wrapper c off inner)) <= k)%nat ->
    from_slice cz (S (S d)) validate req (firstn k (ser comp (pre ++ Wrapper c off inner :: rest)))
    = Ok (map msg_of (filter (fun x => req <=? fst (fst x)) (flatten inner))).
  Proof.
    intros cz d validate req pre c off inner rest k Hc Hpp Hpi Hwp Hww Hk.
    change (fun x : Z * bytes * bytes => req <=? fst (fst x)) with (qual req).
    pose proof Hww as Hww'. apply wf_entry_wrapper in Hww'. destruct Hww' as [_ [_ [_ [_ Hwi]]]].
    rewrite from_slice_S.
    (* walk over `pre` *)
    assert (Hgen : forall pre k fuel acc,
               all_plain pre -> wf_entries comp pre ->
               (length (ser comp pre) + length (ser_entry comp (Wrapper c off inner)) <= k)%nat ->
               (length (firstn k (ser comp (pre ++ Wrapper c off inner :: rest))) < fuel)%nat ->
               ms_loop (inner_of cz (S d) validate req) (debug_build cz) validate req fuel
                       (firstn k (ser comp (pre ++ Wrapper c off inner :: rest))) acc
               = from_slice cz (S d) validate req (ser comp inner)).
    { clear pre k Hpp Hwp Hk.
      induction pre as [|e r IH]; intros k fuel acc Hp Hwf Hk Hfuel.
      - cbn [app] in *. unfold ser at 1 in Hk. cbn [flat_map length] in Hk.
        destruct fuel as [|f]; [lia|].
        rewrite ser_cons, firstn_app_ge by lia.
        rewrite (ms_loop_wrapper_step _ _ _ _ _ _ _ off c [] (comp c (ser comp inner))
                   (firstn (k - length (ser_entry comp (Wrapper c off inner))) (ser comp rest))).
        + apply inner_of_comp; try assumption; apply wf_entry_wrapper in Hww; tauto.
        + apply ser_entry_nonempty.
        + apply wf_entry_wrapper in Hww; tauto.
        + apply next_message_wrapper. assumption.
      - apply all_plain_cons in Hp. destruct Hp as [[o [key [v ->]]] Hpr].
        inversion Hwf as [|x l Hwe Hwr]; subst. destruct Hwe as [Ho Hf].
        destruct fuel as [|f]; [lia|].
        cbn [app] in *. rewrite ser_cons in *. rewrite app_length in Hk.
        rewrite firstn_app_ge in * by lia. rewrite app_length in Hfuel.
        pose proof (ser_entry_length_pos comp (Plain o key v)) as Hpos.
        rewrite (ms_loop_plain_step _ _ _ _ f _ _ o (view_opt key) (view_opt v)
                   (firstn (k - length (ser_entry comp (Plain o key v)))
                           (ser comp (r ++ Wrapper c off inner :: rest)))).
        + apply IH; try assumption; lia.
        + apply ser_entry_nonempty.
        + rewrite ser_entry_plain. apply next_message_complete; try assumption.
          unfold in_i8. lia. }
    rewrite Hgen by (try assumption; lia).
    rewrite <- (firstn_all (ser comp inner)).
    rewrite from_slice_plain by assumption.
    rewrite complete_prefix_all by lia. reflexivity.
  Qed.
End Exact.

(* non-vacuity: the `Known` witness of C02Facts (plain 0, then gzip[1]) and a deeper one *)
Definition es_mix : list entry :=
  [Plain 0 None (Some [x61]);
   Wrapper 2 3 [Plain 1 None (Some [x62]); Wrapper 1 3 [Plain 2 (Some [x6b]) None; Plain 3 None (Some [x64])];
                Plain 4 None None];
   Plain 5 None (Some [x65])].

Example C02_decoder_exact_ex :
  wf_entries wcomp es_bad /\ wf_entries wcomp es_mix /\ depth es_mix = 2%nat /\
  dec_view wcomp 3 es_bad 100 = [(1, [], [x62])] /\
  from_slice (wcz true) 3 true 0 (firstn 100 (ser wcomp es_bad)) = Ok [msg_of (1, [], [x62])] /\
  (* es_mix: only the innermost batch [2; 3] survives; with the cut inside the snappy batch: message 0 *)
  dec_view wcomp 3 es_mix (length (ser wcomp es_mix)) = [(2, [x6b], []); (3, [], [x64])] /\
  from_slice (wcz false) 3 true 3 (ser wcomp es_mix) = Ok [msg_of (3, [], [x64])] /\
  dec_view wcomp 3 es_mix 40 = [(0, [], [x61])] /\
  from_slice (wcz false) 3 true 0 (firstn 40 (ser wcomp es_mix)) = Ok [msg_of (0, [], [x61])] /\
  dec_view wcomp 8 es_mix 40 = dec_view wcomp 3 es_mix 40.
Proof.
  split; [wf_tac|]. split; [wf_tac|].
  vm_compute. repeat split; reflexivity.
Qed.

Example C02_decoder_exact_known_shape_ex :
  all_plain [Plain 0 None (Some [x61])] /\ all_plain [Plain 1 None (Some [x62])] /\
  wf_entries wcomp [Plain 0 None (Some [x61])] /\ wf_entry wcomp (Wrapper 1 1 [Plain 1 None (Some [x62])]) /\
  es_bad = [Plain 0 None (Some [x61])] ++ Wrapper 1 1 [Plain 1 None (Some [x62])] :: [] /\
  (length (ser wcomp [Plain 0 None (Some [x61])])
   + length (ser_entry wcomp (Wrapper 1 1 [Plain 1 None (Some [x62])])) <= 100)%nat.
Proof.
  split; [plain_tac|]. split; [plain_tac|]. split; [wf_tac|].
  split; [vm_compute; repeat split; try (left; reflexivity); intros H; discriminate H|].
  split; [reflexivity|]. vm_compute. lia.
Qed.

Check C02_wrapper_value_to_codec.
Check C02_gzip_oracle_transparent.
Check C02_gzip_short_read_effect.
Check C02_gzip_clause_needed.
Check C02_dec_view_fuel.
Check C02_decoder_exact.
Check C02_decoder_exact_depth.
Check C02_decoder_exact_known_shape.

Print Assumptions C02_wrapper_value_to_codec.
Print Assumptions C02_gzip_oracle_transparent.
Print Assumptions C02_gzip_short_read_effect.
Print Assumptions C02_gzip_clause_needed.
Print Assumptions C02_dec_view_fuel.
Print Assumptions C02_decoder_exact.
Print Assumptions C02_decoder_exact_depth.
Print Assumptions C02_decoder_exact_known_shape.
