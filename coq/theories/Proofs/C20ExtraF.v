(* C20, additional theorems (F): CONSUMER CREATION from a client that is handed in (Consumer::from_client).

   Fifth adequacy pass (round eight).  Seed C20-8 lets Builder::create "top up" the metadata of a handed-in client
   with a NAMED Metadata request for the assigned topics it has not loaded.  The front-end wire theorem
   C20_front_wire_names_only_known (C20ExtraC) ranges over send_all / send / poll / commit_consumed; creation was
   not among the calls, so no theorem of Props/C20.v saw the seed (the correspondence run did).  This file adds
   creation:

     C20_create_from_client_wire         for consumer_create (inr c) calls, any builder calls, any script, any
                                         outcome: everything handed to a connection is (a tail of) the frame of a
                                         data request (Offset / OffsetFetch / GroupCoordinator ...) all of whose
                                         topic-partition entries are in the metadata the client holds when the call
                                         is made;
     C20_create_from_client_no_metadata  no Metadata request is among them;
     C20_create_from_client_keeps_topics the loaded topics are the same afterwards.

   Creation makes up to three broker calls in a row (group offsets, latest, earliest), each from the state the
   previous one left (coordinator cache, broker list, correlation counter, configuration differ).  The relation
   carried through is "IF the loaded topics at s are those at x THEN (what happened from s to s' is a wire of known
   names w.r.t. x AND the loaded topics at s' are those at x)". *)
From Coq Require Import List ZArith Lia Bool.
Import ListNotations.
From Coq Require Import ZifyBool.
From KV Require Import Base.Prelude Gen.Consts Model.Codecs Model.Requests Model.Responses
                       Model.ClientState Model.Net Model.Client Model.Producer Model.Consumer.
From KV Require Import Proofs.BytesFacts Proofs.NetFacts.
From KV Require Import Proofs.C20Facts Proofs.C20Extra Proofs.C20Extra2 Proofs.C20ExtraB Proofs.C20ExtraC.
Local Open Scope Z_scope.

Definition WK (x s s' : st) : Prop := same_topics x s -> wire_known x s s' /\ same_topics x s'.

Lemma known_same x s : same_topics x s -> forall t p, known (cs (cl s)) t p -> known (cs (cl x)) t p.
Proof. intros H t p. unfold known, partitions_for. unfold same_topics in H. rewrite H. exact (fun a => a). Qed.

Lemma preorder_WK x : preorder (WK x).
Proof.
  split.
  - intros s H. split; [apply (proj1 (preorder_wire_rel _))|exact H].
  - intros s s1 s2 H1 H2 H. destruct (H1 H) as [W1 T1]. destruct (H2 T1) as [W2 T2].
    split; [|exact T2]. exact (proj2 (preorder_wire_rel _) _ _ _ W1 W2).
Qed.

(* a broker call that is a wire of names known where IT starts, and keeps the loaded topics *)
Lemma WK_call {A} x (m : M A) :
  (forall s r s', m s = (r, s') -> wire_known s s s') -> keeps same_topics m -> keeps (WK x) m.
Proof.
  intros Hw Hk s r s' H Hx. pose proof (Hw _ _ _ H) as [He Hs]. pose proof (Hk _ _ _ H) as Ht.
  split.
  - split; [exact He|]. eapply sends_mono; [|exact Hs]. intros p Hp.
    eapply data_request_mono; [|exact Hp]. apply known_same. exact Hx.
  - destruct preorder_same_topics as [_ Htr]. exact (Htr _ _ _ Hx Ht).
Qed.

(* a step that neither performs I/O nor touches the loaded topics *)
Lemma WK_quiet {A} x (m : M A) :
  (forall s r s', m s = (r, s') -> script s' = script s /\ trace s' = trace s /\
                                   topic_partitions (cs (cl s')) = topic_partitions (cs (cl s))) ->
  keeps (WK x) m.
Proof.
  intros Hq s r s' H Hx. destruct (Hq _ _ _ H) as (Hs & Ht & Hp).
  split; [apply quiet_ops; assumption|]. unfold same_topics in *. congruence.
Qed.

Ltac kbw x := apply keeps_bind; [exact (preorder_WK x)| |].

Lemma WK_load_partition_offsets x topics time : keeps (WK x) (load_partition_offsets topics time).
Proof.
  unfold load_partition_offsets. kbw x.
  - apply WK_call; [intros s r s'; apply wire_fetch_offsets|apply keeps_fetch_offsets].
  - intros m. apply keeps_ret. exact (preorder_WK x).
Qed.

Lemma WK_load_fetch_states x fb asg subs consumed : keeps (WK x) (load_fetch_states fb asg subs consumed).
Proof.
  pose proof (preorder_WK x) as HR. unfold load_fetch_states.
  kbw x; [apply keeps_get_client; exact HR|]. intros c.
  kbw x; [apply keeps_get_env; exact HR|]. intros e. cbv zeta.
  destruct consumed as [|c0 cr].
  - kbw x; [apply WK_load_partition_offsets|]. intros o. apply keeps_lift; exact HR.
  - kbw x; [apply WK_load_partition_offsets|]. intros l.
    kbw x; [apply WK_load_partition_offsets|]. intros ea. apply keeps_lift; exact HR.
Qed.

Lemma WK_load_consumed_offsets x group asg subs : keeps (WK x) (load_consumed_offsets group asg subs).
Proof.
  pose proof (preorder_WK x) as HR. unfold load_consumed_offsets. destruct group as [|g0 g]; [apply keeps_ret; exact HR|].
  kbw x.
  - apply WK_call; [intros s r s'; apply wire_fetch_group_offsets|apply keeps_fetch_group_offsets].
  - intros tpos. kbw x; [apply keeps_get_env; exact HR|]. intros e. apply keeps_lift; exact HR.
Qed.

(* everything after the configuration has been written into the client *)
Lemma WK_set_client_then {A} x (c' : client) (g : M A) s r s' :
  topic_partitions (cs c') = topic_partitions (cs (cl s)) -> keeps (WK x) g ->
  mbind (set_client c') (fun _ => g) s = (r, s') -> WK x s s'.
Proof.
  intros Ht Hg H. unfold mbind at 1, set_client at 1 in H.
  eapply (proj2 (preorder_WK x)); [|exact (Hg _ _ _ H)].
  intros Hx. split; [apply quiet_ops; reflexivity|]. unfold same_topics in *. cbn [cl]. congruence.
Qed.

Lemma WK_consumer_create_from_client x c calls : keeps (WK x) (consumer_create (inr c) calls).
Proof.
  pose proof (preorder_WK x) as HR. unfold consumer_create.
  destruct (cb_assign (fold_left cbuilder_apply calls (cbuilder_new (inr c)))) as [|a0 ar]; [apply keeps_fail; exact HR|].
  apply keeps_get_client_dep. intros s r s' H.
  bind_inv H wait s1 H1 H2.
  - unfold lift in H1. injection H1 as _ <-. revert H2. apply WK_set_client_then; [reflexivity|].
    kbw x; [apply keeps_ret; exact HR|]. intros _. cbv zeta.
    kbw x; [apply keeps_get_client; exact HR|]. intros c1.
    kbw x; [apply keeps_lift; exact HR|]. intros subs.
    kbw x; [apply WK_load_consumed_offsets|]. intros consumed.
    kbw x; [apply WK_load_fetch_states|]. intros fetch.
    kbw x; [apply keeps_get_client; exact HR|]. intros c2. apply keeps_ret; exact HR.
  - unfold lift in H1. injection H1 as _ <-. apply (proj1 HR).
  - unfold lift in H1. injection H1 as _ <-. apply (proj1 HR).
Qed.

(* ================================================================================================== *)
(* THE statements                                                                                       *)
(* ================================================================================================== *)
Theorem C20_create_from_client_wire : forall (c : client) (calls : list cbuilder_call) (x : st) (r : res consumer) (x' : st),
  consumer_create (inr c) calls x = (r, x') ->
  ext x x' /\ wire_ok (known (cs (cl x))) (performed x x').
Proof.
  intros c calls x r x' H. change (wire_known x x x').
  exact (proj1 (WK_consumer_create_from_client x c calls x r x' H (proj1 preorder_same_topics x))).
Qed.

Theorem C20_create_from_client_keeps_topics : forall c calls x r x',
  consumer_create (inr c) calls x = (r, x') ->
  topic_partitions (cs (cl x')) = topic_partitions (cs (cl x))
  /\ (forall t p, known (cs (cl x')) t p <-> known (cs (cl x)) t p).
Proof.
  intros c calls x r x' H.
  pose proof (proj2 (WK_consumer_create_from_client x c calls x r x' H (proj1 preorder_same_topics x))) as Hs.
  split; [exact Hs|]. intros t p. unfold known, partitions_for. unfold same_topics in Hs. rewrite Hs. reflexivity.
Qed.

(* creation from a handed-in client never sends a Metadata request (which, naming a topic, could create it) *)
Theorem C20_create_from_client_no_metadata : forall c calls x r x' pre e h corr cid topics pm rest,
  consumer_create (inr c) calls x = (r, x') -> enc_metadata_req corr cid topics = Ok pm ->
  performed x x' = pre ++ e :: EWrite h (frame pm) :: rest -> not_write e -> False.
Proof.
  intros c calls x r x' pre e h corr cid topics pm rest H Hm Heq He.
  destruct (C20_create_from_client_wire c calls x r x' H) as [_ Hall].
  destruct (sends_after_non_write _ _ Hall pre e h (frame pm) rest Heq He) as (p & Hp & Hf).
  apply frame_inj in Hf. subst p. apply (C20_data_request_not_metadata _ _ _ _ _ Hp Hm).
Qed.

Corollary C20_create_from_client_every_write : forall c calls x r x' h b,
  consumer_create (inr c) calls x = (r, x') -> In (EWrite h b) (performed x x') ->
  exists p pre, data_request (known (cs (cl x))) p /\ frame p = pre ++ b.
Proof.
  intros c calls x r x' h b H Hin. destruct (C20_create_from_client_wire c calls x r x' H) as [_ Hall].
  apply (sends_writes _ _ Hall h b Hin).
Qed.

(* ---- creation from a host list (Consumer::from_hosts): the client is new, creation loads ALL metadata first ---- *)
(* Either the call ended before anything happened (nothing assigned, max-wait out of range), or: the configuration
   is written into the client (x0: same script, same trace, same client state), load_metadata_all runs from there
   (C20_load_all_wire: it writes Metadata requests with an EMPTY topic list only - no topic is named), and everything
   after it is a wire of data requests naming only partitions loaded by THAT load (state x1). *)
Theorem C20_create_from_hosts_wire : forall (hs : list bytes) (calls : list cbuilder_call) (x : st) (r : res consumer) (x' : st),
  consumer_create (inl hs) calls x = (r, x') ->
  x' = x
  \/ exists x0 rl x1,
       script x0 = script x /\ trace x0 = trace x /\ cs (cl x0) = cs (cl x)
       /\ load_metadata_all x0 = (rl, x1)
       /\ sends (metadata_request []) (performed x0 x1)
       /\ ext x1 x' /\ wire_ok (known (cs (cl x1))) (performed x1 x')
       /\ (forall t p, known (cs (cl x')) t p <-> known (cs (cl x1)) t p).
Proof.
  intros hs calls x r x' H. unfold consumer_create in H.
  destruct (cb_assign (fold_left cbuilder_apply calls (cbuilder_new (inl hs)))) as [|a0 ar];
    [left; injection H as _ <-; reflexivity|].
  unfold mbind at 1, get_client at 1 in H.
  bind_inv H wait s1 H1 H2.
  2: { left. unfold lift in H1. injection H1 as _ <-. reflexivity. }
  2: { left. unfold lift in H1. injection H1 as _ <-. reflexivity. }
  unfold lift in H1. injection H1 as _ <-. right.
  unfold mbind at 1, set_client at 1 in H2.
  match type of H2 with mbind _ _ ?s0 = _ => set (x0 := s0) in * end.
  exists x0.
  assert (Hfin : forall x1, ext x1 x1 /\ wire_ok (known (cs (cl x1))) (performed x1 x1)
                            /\ (forall t p, known (cs (cl x1)) t p <-> known (cs (cl x1)) t p)).
  { intros x1. destruct (proj1 (preorder_wire_rel (data_request (known (cs (cl x1))))) x1) as [E S].
    split; [exact E|]. split; [exact S|]. intros t p. reflexivity. }
  bind_inv H2 u x1 Hl Ht.
  - exists (Ok u), x1. split; [reflexivity|]. split; [reflexivity|]. split; [reflexivity|]. split; [exact Hl|].
    split; [exact (proj2 (C20_load_all_wire _ _ _ Hl))|].
    match type of Ht with ?f x1 = _ => assert (Hk : keeps (WK x1) f) end.
    { pose proof (preorder_WK x1) as HR. cbv zeta.
      kbw x1; [apply keeps_get_client; exact HR|]. intros c1.
      kbw x1; [apply keeps_lift; exact HR|]. intros subs.
      kbw x1; [apply WK_load_consumed_offsets|]. intros consumed.
      kbw x1; [apply WK_load_fetch_states|]. intros fetch.
      kbw x1; [apply keeps_get_client; exact HR|]. intros c2. apply keeps_ret; exact HR. }
    destruct (Hk _ _ _ Ht (proj1 preorder_same_topics x1)) as [[E S] T].
    split; [exact E|]. split; [exact S|].
    intros t p. unfold known, partitions_for. unfold same_topics in T. rewrite T. reflexivity.
  - subst r. exists (Err u), x'. split; [reflexivity|]. split; [reflexivity|]. split; [reflexivity|].
    split; [exact Hl|]. split; [exact (proj2 (C20_load_all_wire _ _ _ Hl))|]. apply Hfin.
  - subst r. exists (Panic u), x'. split; [reflexivity|]. split; [reflexivity|]. split; [reflexivity|].
    split; [exact Hl|]. split; [exact (proj2 (C20_load_all_wire _ _ _ Hl))|]. apply Hfin.
Qed.

(* ---- Producer creation from a handed-in client (Producer::from_client): nothing is performed at all ---- *)
Theorem C20_producer_create_from_client_silent : forall (c : client) (calls : list pbuilder_call) (x : st) (r : res producer) (x' : st),
  producer_create (inr c) calls x = (r, x') ->
  script x' = script x /\ trace x' = trace x /\ performed x x' = [] /\ cs (cl x') = cs (cl x).
Proof.
  intros c calls x r x' H. unfold producer_create in H.
  unfold mbind at 1, get_client at 1 in H. unfold mbind at 1, set_client at 1 in H.
  assert (Hp : forall y, script y = script x -> trace y = trace x -> cs (cl y) = cs (cl x) ->
                         script y = script x /\ trace y = trace x /\ performed x y = [] /\ cs (cl y) = cs (cl x)).
  { intros y Hs Ht Hc. repeat split; try assumption. unfold performed. rewrite Ht, Nat.sub_diag. reflexivity. }
  bind_inv H t s1 H1 H2.
  - unfold lift in H1. injection H1 as _ <-. unfold mbind, ret, get_client in H2. injection H2 as _ <-.
    apply Hp; reflexivity.
  - unfold lift in H1. injection H1 as _ <-. apply Hp; reflexivity.
  - unfold lift in H1. injection H1 as _ <-. apply Hp; reflexivity.
Qed.

Print Assumptions C20_create_from_client_wire.
Print Assumptions C20_producer_create_from_client_silent.
Print Assumptions C20_create_from_hosts_wire.
Print Assumptions C20_create_from_client_keeps_topics.
Print Assumptions C20_create_from_client_no_metadata.
Print Assumptions C20_create_from_client_every_write.

(* non-vacuity: creation for a loaded topic connects to a leader and writes an Offset request (then the script
   ends); creation for a topic that is not loaded fails locally with UnknownTopicOrPartition, nothing performed -
   where the seeded change sent a Metadata request naming "nope" *)
Example C20_create_from_client_ex :
  let x := c20_st 1 in
  (let '(r, x') := consumer_create (inr (c20_client 1)) [CWithTopic (tag "t2")] x in
   length (performed x x') = 3%nat /\ exists h b, In (EWrite h b) (performed x x'))
  /\ consumer_create (inr (c20_client 1)) [CWithTopic (tag "nope")] x = (Err (EKafka KC_UnknownTopicOrPartition), x).
Proof.
  vm_compute. split; [split; [reflexivity|]|reflexivity]. eexists; eexists. right. left. reflexivity.
Qed.

(* non-vacuity for the host-list form: the call gets as far as the Metadata exchange (connect, write, then the script
   ends), so the right-hand alternative is the one that applies *)
Example C20_create_from_hosts_ex :
  let x := c20_st 1 in
  let '(r, x') := consumer_create (inl [tag "h0:9092"]) [CWithTopic (tag "t2")] x in
  length (performed x x') = 3%nat /\ is_ok r = false.
Proof. vm_compute. split; reflexivity. Qed.

Example C20_producer_create_from_client_ex :
  let x := c20_st 1 in
  let '(r, x') := producer_create (inr (c20_client 1)) [] x in is_ok r = true /\ script x' = script x.
Proof. vm_compute. split; reflexivity. Qed.
