(* C04: with CRC validation on, corrupted messages are rejected, never delivered
   (src/protocol/fetch.rs: ProtocolMessage::from_slice, MessageSet::next_message / from_slice).

   A Kafka v0 message is  field ++ covered  where  field  is the 4-byte big-endian CRC-32 of
   covered = magic, attributes, key, value.  The checksum is PREPENDED.  An error pattern is a byte
   string e of the same length that is xor-ed onto the message; ef := firstn 4 e hits the stored
   checksum, ec := skipn 4 e hits the checksummed bytes.  Bits are numbered 8*byte + bit, least
   significant bit of a byte first (the order of Crc32Facts.bits_of_bytes).

   PROVED HERE (all Qed, no axioms; see the Print Assumptions at the end):
   - check_passes_iff, protocol_message_split: the check happens before any field is parsed and
     rejects iff  stored <> computed;  C04_reject_iff: for a message with a correct checksum the
     corrupted message is rejected iff  be_dec_u ef <> syndrome of ec.
   - C04_data_burst, C04_field_only, C04_four_bytes, C04_single_bit, C04_double_bit: as requested,
     for messages of any length (double-bit: 8 * length covered < 2^32 - 32).
   - C04_off_ignored: with validation off the checksum field is never looked at.
   - C04_set_rejects: a corrupted entry behind any number of well-formed plain entries makes
     from_slice fail with CorruptMessage; C04_wrapper_gzip / C04_wrapper_snappy: `validate` is handed
     down to the decompressed inner set; C04_inner_rejects_gzip / _snappy: a corrupted message inside
     a wrapper whose own checksum is intact is rejected; C04_set_rejects_single_bit etc. as instances.
   REFUTED (concrete witness, a finding about the FORMAT, not about the client):
   - C04_straddling_burst_refuted / C04_straddling_burst_delivered: the textbook guarantee "every
     burst of <= 32 bits is detected" holds for a checksum that is APPENDED in shift-register order.
     Kafka prepends it, big-endian.  A burst of span 32 that covers the last 11 bits of the
     checksum field and the following 21 bits of the message (attributes and the first key-length
     byte) passes the check, and the message is delivered (Ok) with validation on. *)
From Coq Require Import ZifyBool.
From KV Require Import Base.Prelude Base.Crc32 Base.Snappy Gen.ErrorCodes Gen.Consts
                       Model.Codecs Model.Requests Model.Responses.
From KV Require Import Proofs.BytesFacts Proofs.Crc32Facts Spec.MsgSetSpec.
Ltac Zify.zify_post_hook ::= Z.div_mod_to_equations.

Local Notation corrupt := (Err (EKafka KC_CorruptMessage)).

(* ====================================================================================== *)
(* 1. the check                                                                           *)
(* ====================================================================================== *)

(* what ProtocolMessage::from_slice does after the checksum *)
Definition pm_body (dbg : bool) (r : bytes) : res (Z * bytes * bytes) :=
  let* '(magic, r) := zread_i8 r in
  if negb (magic =? 0) then Err EUnsupportedProtocol
  else
    let* '(attr, r) := zread_i8 r in
    let* '(k, r) := zread_bytes r in
    let* '(v, r) := zread_bytes r in
    match r with
    | _ :: _ => if dbg then Panic (tag "debug_assert r.is_empty") else Ok (attr, k, v)
    | [] => Ok (attr, k, v)
    end.

Lemma protocol_message_split dbg validate field covered : length field = 4%nat ->
  protocol_message dbg validate (field ++ covered) =
  if validate && negb (wrap_s 32 (crc32 covered) =? be_dec_s field) then corrupt
  else pm_body dbg covered.
Proof.
  intros H. unfold protocol_message, zread_i32. rewrite zread_app by exact H. reflexivity.
Qed.

Lemma zread_err n bs e : zread n bs = Err e -> e = EUnexpectedEOF.
Proof.
  rewrite zread_unfold. destruct (Nat.ltb (length bs) n); intros H; [now injection H|discriminate H].
Qed.

Lemma zread_i8_err bs e : zread_i8 bs = Err e -> e = EUnexpectedEOF.
Proof.
  unfold zread_i8. destruct (zread 1 bs) as [[x r]|e'|w] eqn:E; cbn [bind]; intros H;
    try discriminate H. injection H as <-. eapply zread_err; exact E.
Qed.

Lemma zread_i32_err bs e : zread_i32 bs = Err e -> e = EUnexpectedEOF.
Proof.
  unfold zread_i32. destruct (zread 4 bs) as [[x r]|e'|w] eqn:E; cbn [bind]; intros H;
    try discriminate H. injection H as <-. eapply zread_err; exact E.
Qed.

Lemma zread_bytes_err bs e : zread_bytes bs = Err e -> e = EUnexpectedEOF.
Proof.
  rewrite zread_bytes_unfold. destruct (zread_i32 bs) as [[len r]|e'|w] eqn:E; cbn [bind]; intros H.
  - destruct (len <=? 0); [discriminate H|].
    destruct (Z.of_nat (length r) <? len); [now injection H|]. eapply zread_err; exact H.
  - injection H as <-. eapply zread_i32_err; exact E.
  - discriminate H.
Qed.

(* parsing the fields never produces a Kafka error code *)
Lemma pm_body_not_kafka dbg r c : pm_body dbg r <> Err (EKafka c).
Proof.
  unfold pm_body. intros H.
  destruct (zread_i8 r) as [[magic r1]|e|w] eqn:E1; cbn [bind] in H;
    [|injection H as ->; apply zread_i8_err in E1; discriminate E1|discriminate H].
  destruct (negb (magic =? 0)); [discriminate H|].
  destruct (zread_i8 r1) as [[attr r2]|e|w] eqn:E2; cbn [bind] in H;
    [|injection H as ->; apply zread_i8_err in E2; discriminate E2|discriminate H].
  destruct (zread_bytes r2) as [[k r3]|e|w] eqn:E3; cbn [bind] in H;
    [|injection H as ->; apply zread_bytes_err in E3; discriminate E3|discriminate H].
  destruct (zread_bytes r3) as [[v r4]|e|w] eqn:E4; cbn [bind] in H;
    [|injection H as ->; apply zread_bytes_err in E4; discriminate E4|discriminate H].
  destruct r4; [discriminate H|]. destruct dbg; discriminate H.
Qed.

(* ---- big-endian decoding ------------------------------------------------------------- *)

Lemma be_dec_acc_split bs : forall acc,
  be_dec_acc bs acc = acc * 2 ^ (8 * Z.of_nat (length bs)) + be_dec_u bs.
Proof.
  unfold be_dec_u. induction bs as [|b bs IH]; intros acc.
  - cbn [be_dec_acc length]. change (8 * Z.of_nat 0) with 0. rewrite Z.pow_0_r. lia.
  - cbn [be_dec_acc length]. rewrite IH, (IH (0 * 256 + Zb b)), pow2_8S. ring.
Qed.

Lemma be_dec_u_cons b bs :
  be_dec_u (b :: bs) = Zb b * 2 ^ (8 * Z.of_nat (length bs)) + be_dec_u bs.
Proof.
  unfold be_dec_u at 1. cbn [be_dec_acc]. rewrite be_dec_acc_split. ring.
Qed.

Lemma pow8_pos n : 0 < 2 ^ (8 * Z.of_nat n).
Proof. apply Z.pow_pos_nonneg; lia. Qed.

Lemma be_dec_u_range bs : 0 <= be_dec_u bs < 2 ^ (8 * Z.of_nat (length bs)).
Proof.
  induction bs as [|b bs IH].
  - cbn. lia.
  - rewrite be_dec_u_cons. cbn [length]. rewrite pow2_8S.
    pose proof (Zb_range b) as Hb. pose proof (pow8_pos (length bs)) as HP.
    set (P := 2 ^ (8 * Z.of_nat (length bs))) in *. nia.
Qed.

Lemma wrap_s_32_inj a b : 0 <= a < 2 ^ 32 -> 0 <= b < 2 ^ 32 ->
  wrap_s 32 a = wrap_s 32 b -> a = b.
Proof.
  unfold wrap_s. change (2 ^ 32) with 4294967296. change (2 ^ (32 - 1)) with 2147483648.
  cbv zeta. intros Ha Hb. rewrite !Z.mod_small by lia.
  destruct (a <? 2147483648) eqn:Ea, (b <? 2147483648) eqn:Eb; lia.
Qed.

Lemma be_dec_s_4 field : length field = 4%nat -> be_dec_s field = wrap_s 32 (be_dec_u field).
Proof. intros H. unfold be_dec_s. rewrite H. reflexivity. Qed.

Lemma be_dec_u_range_4 field : length field = 4%nat -> 0 <= be_dec_u field < 2 ^ 32.
Proof. intros H. pose proof (be_dec_u_range field) as R. rewrite H in R. exact R. Qed.

(* the requested characterisation: rejection happens before any field is parsed, iff
   stored <> computed *)
Lemma check_passes_iff : forall dbg field covered, length field = 4%nat ->
  (protocol_message dbg true (field ++ covered) = corrupt) <-> be_dec_u field <> crc32 covered.
Proof.
  intros dbg field covered H. rewrite protocol_message_split by exact H.
  rewrite be_dec_s_4 by exact H. cbn [andb].
  destruct (wrap_s 32 (crc32 covered) =? wrap_s 32 (be_dec_u field)) eqn:E; cbn [negb].
  - apply Z.eqb_eq in E.
    apply wrap_s_32_inj in E; [|apply crc32_range|now apply be_dec_u_range_4].
    split; [intros Hp; exfalso; exact (pm_body_not_kafka _ _ _ Hp)|intros Hn; now rewrite E in Hn].
  - split; [|reflexivity]. intros _ Heq. rewrite Heq, Z.eqb_refl in E. discriminate E.
Qed.

(* with validation off the stored checksum is never looked at *)
Theorem C04_off_ignored : forall dbg field field' rest,
  length field = 4%nat -> length field' = 4%nat ->
  protocol_message dbg false (field ++ rest) = protocol_message dbg false (field' ++ rest).
Proof.
  intros dbg field field' rest H H'. now rewrite !protocol_message_split by assumption.
Qed.

(* ====================================================================================== *)
(* 2. xor on byte strings vs. big-endian numbers                                          *)
(* ====================================================================================== *)

Lemma xor_bytes_app a1 : forall b1 a2 b2, length a1 = length b1 ->
  xor_bytes (a1 ++ a2) (b1 ++ b2) = xor_bytes a1 b1 ++ xor_bytes a2 b2.
Proof.
  induction a1 as [|x a1 IH]; intros [|y b1] a2 b2 H; try discriminate H.
  - reflexivity.
  - cbn [app xor_bytes]. f_equal. apply IH. now injection H.
Qed.

Lemma xor_bytes_length a : forall b, length a = length b -> length (xor_bytes a b) = length a.
Proof.
  induction a as [|x a IH]; intros [|y b] H; try discriminate H; [reflexivity|].
  cbn [xor_bytes length]. f_equal. apply IH. now injection H.
Qed.

Lemma Zb_xor_byte x y : Zb (xor_byte x y) = Z.lxor (Zb x) (Zb y).
Proof. unfold Zb. now rewrite to_N_xor_byte, <- Z_lxor_of_N. Qed.

Lemma land_shiftl8_small p u : 0 <= u < 256 -> Z.land (Z.shiftl p 8) u = 0.
Proof.
  intros Hu. apply Z.bits_inj'. intros n Hn. rewrite Z.land_spec, Z.bits_0.
  destruct (Z.lt_ge_cases n 8) as [Hl|Hg].
  - rewrite Z.shiftl_spec_low by exact Hl. reflexivity.
  - rewrite <- (Z.mod_small u (2 ^ 8)) by (change (2 ^ 8) with 256; lia).
    rewrite Z.mod_pow2_bits_high by lia. apply andb_false_r.
Qed.

Lemma add_shiftl8 p u : 0 <= u < 256 -> p * 256 + u = Z.lxor (Z.shiftl p 8) u.
Proof.
  intros Hu. rewrite <- Z.add_nocarry_lxor by now apply land_shiftl8_small.
  rewrite Z.shiftl_mul_pow2 by lia. reflexivity.
Qed.

Lemma lxor_256 p q u v : 0 <= u < 256 -> 0 <= v < 256 -> 0 <= Z.lxor u v < 256 ->
  Z.lxor (p * 256 + u) (q * 256 + v) = Z.lxor p q * 256 + Z.lxor u v.
Proof.
  intros Hu Hv Huv. rewrite !add_shiftl8 by assumption. rewrite Z.shiftl_lxor.
  apply Z.bits_inj'. intros n _. rewrite !Z.lxor_spec.
  repeat destruct (Z.testbit _ _); reflexivity.
Qed.

Lemma be_dec_acc_xor a : forall b p q, length a = length b ->
  be_dec_acc (xor_bytes a b) (Z.lxor p q) = Z.lxor (be_dec_acc a p) (be_dec_acc b q).
Proof.
  induction a as [|x a IH]; intros [|y b] p q H; try discriminate H.
  - reflexivity.
  - cbn [xor_bytes be_dec_acc]. rewrite <- IH by now injection H. f_equal.
    rewrite Zb_xor_byte. symmetry. apply lxor_256; try apply Zb_range.
    rewrite <- Zb_xor_byte. apply Zb_range.
Qed.

Lemma be_dec_u_xor a b : length a = length b ->
  be_dec_u (xor_bytes a b) = Z.lxor (be_dec_u a) (be_dec_u b).
Proof. intros H. unfold be_dec_u. rewrite <- (be_dec_acc_xor a b 0 0 H). reflexivity. Qed.

Lemma lxor_cancel_l a b c : Z.lxor a b = Z.lxor a c <-> b = c.
Proof.
  split; [|now intros ->]. intros E. apply (f_equal (Z.lxor a)) in E.
  now rewrite <- !Z.lxor_assoc, Z.lxor_nilpotent, !Z.lxor_0_l in E.
Qed.

Lemma enc_i8_length z : length (enc_i8 z) = 1%nat. Proof. apply be_enc_length. Qed.
Lemma enc_i32_length z : length (enc_i32 z) = 4%nat. Proof. apply be_enc_length. Qed.
Lemma enc_i64_length z : length (enc_i64 z) = 8%nat. Proof. apply be_enc_length. Qed.

Lemma be_dec_u_enc_crc m : be_dec_u (enc_i32 (crc32 m)) = crc32 m.
Proof.
  unfold enc_i32. rewrite be_dec_u_enc. change (8 * Z.of_nat 4) with 32.
  apply Z.mod_small, crc32_range.
Qed.

(* the master equivalence: a message with a correct checksum, corrupted by e, is rejected
   iff the flipped field bits differ from the syndrome of the flipped data bits *)
Theorem C04_reject_iff : forall dbg covered e, length e = (4 + length covered)%nat ->
  protocol_message dbg true (xor_bytes (enc_i32 (crc32 covered) ++ covered) e) = corrupt
  <-> be_dec_u (firstn 4 e) <> Z.of_N (crc_update 0 (skipn 4 e)).
Proof.
  intros dbg covered e H.
  assert (He : e = firstn 4 e ++ skipn 4 e) by (symmetry; apply firstn_skipn).
  assert (Hf : length (firstn 4 e) = 4%nat) by (rewrite firstn_length; lia).
  assert (Hc : length (skipn 4 e) = length covered) by (rewrite skipn_length; lia).
  remember (firstn 4 e) as ef eqn:Eef. remember (skipn 4 e) as ec eqn:Eec.
  rewrite He. rewrite xor_bytes_app by now rewrite enc_i32_length.
  rewrite check_passes_iff by (rewrite xor_bytes_length; now rewrite enc_i32_length).
  rewrite be_dec_u_xor by now rewrite enc_i32_length.
  rewrite be_dec_u_enc_crc, crc32_affine by exact Hc.
  split; intros Hn E; apply Hn; [now rewrite E|now apply lxor_cancel_l in E].
Qed.

(* ---- zero patterns, weights ------------------------------------------------------------ *)

Lemma syn_zero_bytes n : crc_update 0 (repeat x00 n) = 0%N.
Proof. unfold crc_update. now rewrite bits_of_zero_bytes, crc_bits_zeros, Titer_0. Qed.

Lemma be_dec_u_zero n : be_dec_u (repeat x00 n) = 0.
Proof.
  induction n as [|n IH]; [reflexivity|]. cbn [repeat]. rewrite be_dec_u_cons, IH.
  change (Zb x00) with 0. lia.
Qed.

Lemma Zb_eq0 b : Zb b = 0 -> b = x00.
Proof. intros H. rewrite <- (bZ_Zb b), H. reflexivity. Qed.

Lemma be_dec_u_eq0 bs : be_dec_u bs = 0 -> bs = repeat x00 (length bs).
Proof.
  induction bs as [|b bs IH]; [reflexivity|]. rewrite be_dec_u_cons. intros H.
  pose proof (Zb_range b) as Hb. pose proof (pow8_pos (length bs)) as HP.
  pose proof (be_dec_u_range bs) as Hr.
  set (P := 2 ^ (8 * Z.of_nat (length bs))) in *.
  assert (H0 : Zb b = 0) by nia. assert (H1 : be_dec_u bs = 0) by nia.
  cbn [length repeat]. f_equal; [now apply Zb_eq0|now apply IH].
Qed.

Lemma be_dec_u_nonzero bs : (exists b, In b bs /\ b <> x00) -> be_dec_u bs <> 0.
Proof.
  intros (b & Hin & Hb) E. apply be_dec_u_eq0 in E. rewrite E in Hin.
  apply repeat_spec in Hin. contradiction.
Qed.

Lemma bits_of_bytes_app a b : bits_of_bytes (a ++ b) = bits_of_bytes a ++ bits_of_bytes b.
Proof. apply flat_map_app. Qed.

Lemma bits_of_bytes_cons b bs : bits_of_bytes (b :: bs) = bits_of_byte b ++ bits_of_bytes bs.
Proof. reflexivity. Qed.

Lemma weight_app a b : weight (a ++ b) = (weight a + weight b)%nat.
Proof.
  induction a as [|x a IH]; [reflexivity|]. cbn [app weight]. rewrite IH. lia.
Qed.

Lemma weight_byte_0 b : weight (bits_of_byte b) = 0%nat -> b = x00.
Proof. destruct b; intros H; try reflexivity; vm_compute in H; discriminate H. Qed.

Lemma weight_byte_1 b : weight (bits_of_byte b) = 1%nat -> exists j : N, Zb b = 2 ^ Z.of_N j.
Proof.
  destruct b; intros H; vm_compute in H; try discriminate H;
    match goal with |- exists j, Zb ?b = _ => exists (N.log2 (Byte.to_N b)); reflexivity end.
Qed.

Lemma weight_bytes_0 bs : weight (bits_of_bytes bs) = 0%nat -> bs = repeat x00 (length bs).
Proof.
  induction bs as [|b bs IH]; [reflexivity|].
  rewrite bits_of_bytes_cons, weight_app. intros H. cbn [length repeat].
  f_equal; [apply weight_byte_0; lia|apply IH; lia].
Qed.

Lemma weight_bytes_0_dec bs : weight (bits_of_bytes bs) = 0%nat -> be_dec_u bs = 0.
Proof. intros H. rewrite (weight_bytes_0 bs H). apply be_dec_u_zero. Qed.

Lemma weight_bytes_0_syn bs : weight (bits_of_bytes bs) = 0%nat -> crc_update 0 bs = 0%N.
Proof. intros H. rewrite (weight_bytes_0 bs H). apply syn_zero_bytes. Qed.

Lemma weight_bytes_pos_dec bs : weight (bits_of_bytes bs) <> 0%nat -> be_dec_u bs <> 0.
Proof.
  intros H E. apply H. apply be_dec_u_eq0 in E. rewrite E, bits_of_zero_bytes.
  clear. induction (8 * length bs)%nat as [|n IH]; [reflexivity|exact IH].
Qed.

(* one flipped bit of the big-endian field bytes is one flipped bit 2^j of the stored number *)
Lemma weight_bytes_1_pow bs : weight (bits_of_bytes bs) = 1%nat ->
  exists j : N, be_dec_u bs = 2 ^ Z.of_N j.
Proof.
  induction bs as [|b bs IH]; [discriminate|].
  rewrite bits_of_bytes_cons, weight_app, be_dec_u_cons. intros H.
  destruct (weight (bits_of_byte b)) as [|[|n]] eqn:Eb; [| |lia].
  - apply weight_byte_0 in Eb. subst b. destruct (IH H) as [j Hj]. exists j.
    change (Zb x00) with 0. lia.
  - assert (H0 : weight (bits_of_bytes bs) = 0%nat) by lia.
    rewrite (weight_bytes_0_dec bs H0). destruct (weight_byte_1 b Eb) as [j Hj].
    exists (j + N.of_nat (8 * length bs))%N.
    rewrite Hj, N2Z.inj_add, nat_N_Z, Nat2Z.inj_mul, Z.pow_add_r by lia.
    change (Z.of_nat 8) with 8. lia.
Qed.

(* ====================================================================================== *)
(* 3. the detection theorems                                                              *)
(* ====================================================================================== *)

(* a burst of at most 32 bits inside the checksummed bytes; any message length *)
Theorem C04_data_burst : forall dbg covered e,
  length e = (4 + length covered)%nat ->
  (exists b, In b e /\ b <> x00) ->
  firstn 4 e = repeat x00 4 ->
  (burst_span (bits_of_bytes (skipn 4 e)) <= 32)%nat ->
  protocol_message dbg true (xor_bytes (enc_i32 (crc32 covered) ++ covered) e) = corrupt.
Proof.
  intros dbg covered e Hl (b & Hin & Hb) Hf Hs. apply C04_reject_iff; [exact Hl|].
  rewrite Hf, be_dec_u_zero.
  assert (Hne : crc_update 0 (skipn 4 e) <> 0%N).
  { apply syn_burst; [|exact Hs]. apply bits_of_bytes_nonzero. exists b. split; [|exact Hb].
    rewrite <- (firstn_skipn 4 e) in Hin. apply in_app_or in Hin. destruct Hin as [Hin|Hin]; [|exact Hin].
    rewrite Hf in Hin. apply repeat_spec in Hin. contradiction. }
  lia.
Qed.

(* only the stored checksum was hit *)
Theorem C04_field_only : forall dbg covered e,
  length e = (4 + length covered)%nat ->
  (exists b, In b (firstn 4 e) /\ b <> x00) ->
  skipn 4 e = repeat x00 (length covered) ->
  protocol_message dbg true (xor_bytes (enc_i32 (crc32 covered) ++ covered) e) = corrupt.
Proof.
  intros dbg covered e Hl Hne Hc. apply C04_reject_iff; [exact Hl|].
  rewrite Hc, syn_zero_bytes. now apply be_dec_u_nonzero.
Qed.

(* non-zero and confined to (at most) 4 consecutive checksummed bytes *)
Theorem C04_four_bytes : forall dbg covered i mid k,
  (i + length mid + k = length covered)%nat -> (length mid <= 4)%nat ->
  (exists b, In b mid /\ b <> x00) ->
  protocol_message dbg true
    (xor_bytes (enc_i32 (crc32 covered) ++ covered) (repeat x00 (4 + i) ++ mid ++ repeat x00 k)) = corrupt.
Proof.
  intros dbg covered i mid k Hl Hm Hne.
  rewrite repeat_app, <- app_assoc. apply C04_reject_iff.
  - rewrite !app_length, !repeat_length. lia.
  - rewrite firstn_app_exact, skipn_app_exact by apply repeat_length.
    rewrite be_dec_u_zero. pose proof (syn_four_bytes i mid k Hm Hne). lia.
Qed.

Lemma split_weight e : weight (bits_of_bytes e) =
  (weight (bits_of_bytes (firstn 4 e)) + weight (bits_of_bytes (skipn 4 e)))%nat.
Proof. now rewrite <- weight_app, <- bits_of_bytes_app, firstn_skipn. Qed.

(* exactly one flipped bit, anywhere in the field or in the checksummed bytes *)
Theorem C04_single_bit : forall dbg covered e,
  length e = (4 + length covered)%nat -> weight (bits_of_bytes e) = 1%nat ->
  protocol_message dbg true (xor_bytes (enc_i32 (crc32 covered) ++ covered) e) = corrupt.
Proof.
  intros dbg covered e Hl Hw. apply C04_reject_iff; [exact Hl|]. rewrite split_weight in Hw.
  destruct (weight (bits_of_bytes (firstn 4 e))) as [|n] eqn:Ef.
  - rewrite (weight_bytes_0_dec _ Ef).
    pose proof (syn_single_bit (skipn 4 e) ltac:(lia)). lia.
  - rewrite (weight_bytes_0_syn (skipn 4 e)) by lia.
    apply weight_bytes_pos_dec. lia.
Qed.

(* exactly two flipped bits, anywhere *)
Theorem C04_double_bit : forall dbg covered e,
  length e = (4 + length covered)%nat -> weight (bits_of_bytes e) = 2%nat ->
  8 * Z.of_nat (length covered) < 2 ^ 32 - 32 ->
  protocol_message dbg true (xor_bytes (enc_i32 (crc32 covered) ++ covered) e) = corrupt.
Proof.
  intros dbg covered e Hl Hw Hb. apply C04_reject_iff; [exact Hl|]. rewrite split_weight in Hw.
  assert (Hc : length (skipn 4 e) = length covered) by (rewrite skipn_length; lia).
  change (2 ^ 32) with 4294967296 in Hb.
  destruct (weight (bits_of_bytes (firstn 4 e))) as [|[|n]] eqn:Ef.
  - (* both in the checksummed bytes *)
    rewrite (weight_bytes_0_dec _ Ef).
    assert (Hs : crc_update 0 (skipn 4 e) <> 0%N).
    { apply syn_double_bit; [lia|]. rewrite Hc. change (2 ^ 32) with 4294967296. lia. }
    lia.
  - (* one each: the syndrome of a single data bit is never a single bit *)
    destruct (weight_bytes_1_pow _ Ef) as [j Hj]. rewrite Hj. intros E.
    apply (syn_single_not_weight1 (skipn 4 e) ltac:(lia)) with (j := j).
    + rewrite Hc. change (2 ^ 32) with 4294967296. lia.
    + apply N2Z.inj. rewrite N2Z.inj_pow. symmetry. exact E.
  - (* both in the field *)
    rewrite (weight_bytes_0_syn (skipn 4 e)) by lia.
    apply weight_bytes_pos_dec. lia.
Qed.

(* ====================================================================================== *)
(* 4. the format finding: a burst across the field / data boundary                        *)
(* ====================================================================================== *)

(* magic 0, attributes 0, null key, value "ABCDEFGHIJKLM" *)
Definition sb_covered : bytes :=
  [x00; x00; xff; xff; xff; xff; x00; x00; x00; x0d;
   x41; x42; x43; x44; x45; x46; x47; x48; x49; x4a; x4b; x4c; x4d].

(* bits 21..52 in the stated order: the low 11 bits of the stored checksum (field bytes 2 and 3),
   bits 3..5 of the attributes byte and bits 1..4 of the first key-length byte *)
Definition sb_pattern : bytes := [x00; x00; xe0; xde] ++ [x00; x38; x1e] ++ repeat x00 20.

Theorem C04_straddling_burst_refuted : exists covered e,
  length e = (4 + length covered)%nat /\ (exists b, In b e /\ b <> x00) /\
  (burst_span (bits_of_bytes e) <= 32)%nat /\
  protocol_message false true (xor_bytes (enc_i32 (crc32 covered) ++ covered) e) <> corrupt.
Proof.
  exists sb_covered, sb_pattern. split; [reflexivity|]. split.
  - exists xe0. split; [vm_compute; tauto|discriminate].
  - split; [vm_compute; lia|vm_compute; discriminate].
Qed.

(* stronger: the burst has span exactly 32, first set bit 21 and last set bit 52; the corrupted
   message differs from the original in 16 bits, passes the check in both build modes and is
   DELIVERED (attributes 0x38: the compression bits are 0 and the other bits are ignored; key
   length 0xe1ffffff is negative, i.e. a null key) *)
Theorem C04_straddling_burst_delivered :
  burst_span (bits_of_bytes sb_pattern) = 32%nat /\
  first_set (bits_of_bytes sb_pattern) = Some 21%nat /\
  last_set (bits_of_bytes sb_pattern) = Some 52%nat /\
  weight (bits_of_bytes sb_pattern) = 16%nat /\
  forall dbg,
    protocol_message dbg true (xor_bytes (enc_i32 (crc32 sb_covered) ++ sb_covered) sb_pattern)
    = Ok (56, [], [x41; x42; x43; x44; x45; x46; x47; x48; x49; x4a; x4b; x4c; x4d]).
Proof.
  do 4 (split; [vm_compute; reflexivity|]). intros [|]; vm_compute; reflexivity.
Qed.

(* ====================================================================================== *)
(* 5. message sets                                                                        *)
(* ====================================================================================== *)

Lemma zread_bytes_app msg rest : 0 < blen msg <= i32_max ->
  zread_bytes (enc_i32 (blen msg) ++ msg ++ rest) = Ok (msg, rest).
Proof.
  intros H. unfold i32_max in H. rewrite zread_bytes_unfold.
  rewrite zread_i32_app by (unfold in_i32; lia). cbn [bind].
  destruct (blen msg <=? 0) eqn:E1; [lia|].
  destruct (Z.of_nat (length (msg ++ rest)) <? blen msg) eqn:E2.
  - rewrite app_length in E2. unfold blen in *. lia.
  - apply zread_app. unfold blen. now rewrite Nat2Z.id.
Qed.

Lemma zread_bytes_ser_opt o rest : blen (view_opt o) <= i32_max ->
  zread_bytes (ser_opt o ++ rest) = Ok (view_opt o, rest).
Proof.
  intros H. destruct o as [b|]; cbn [ser_opt view_opt] in *.
  - rewrite <- app_assoc. destruct b as [|x b].
    + rewrite zread_bytes_unfold. cbn [app]. change (blen []) with 0.
      rewrite zread_i32_app by (unfold in_i32; lia). reflexivity.
    + apply zread_bytes_app. split; [|exact H]. unfold blen. cbn [length]. lia.
  - rewrite zread_bytes_unfold. rewrite zread_i32_app by (unfold in_i32; lia). reflexivity.
Qed.

Lemma pm_body_ser dbg attr k v :
  in_i8 attr -> blen (view_opt k) <= i32_max -> blen (view_opt v) <= i32_max ->
  pm_body dbg (ser_body attr k v) = Ok (attr, view_opt k, view_opt v).
Proof.
  intros Ha Hk Hv. unfold pm_body, ser_body.
  rewrite zread_i8_app by (unfold in_i8; lia). cbn [bind].
  change (negb (0 =? 0)) with false. cbv iota.
  rewrite zread_i8_app by exact Ha. cbn [bind].
  rewrite zread_bytes_ser_opt by exact Hk. cbn [bind].
  rewrite <- (app_nil_r (ser_opt v)), zread_bytes_ser_opt by exact Hv. reflexivity.
Qed.

Lemma blen_ser_opt o : blen (ser_opt o) = 4 + blen (view_opt o).
Proof.
  destruct o as [b|]; cbn [ser_opt view_opt]; unfold blen.
  - rewrite app_length, enc_i32_length. lia.
  - rewrite enc_i32_length. reflexivity.
Qed.

Lemma blen_ser_body attr k v :
  blen (ser_body attr k v) = 10 + blen (view_opt k) + blen (view_opt v).
Proof.
  pose proof (blen_ser_opt k) as Hk. pose proof (blen_ser_opt v) as Hv.
  unfold ser_body, blen in *. rewrite !app_length, !enc_i8_length. lia.
Qed.

Lemma blen_nonneg b : 0 <= blen b.
Proof. unfold blen. lia. Qed.

(* an intact serialised message passes, validation on or off *)
Lemma protocol_message_ok dbg validate attr k v :
  in_i8 attr -> 4 + blen (ser_body attr k v) <= i32_max ->
  protocol_message dbg validate (enc_i32 (crc32 (ser_body attr k v)) ++ ser_body attr k v)
  = Ok (attr, view_opt k, view_opt v).
Proof.
  intros Ha Hs. rewrite protocol_message_split by apply enc_i32_length.
  unfold enc_i32. rewrite be_dec_s_enc_wrap by lia. change (8 * Z.of_nat 4) with 32.
  rewrite Z.eqb_refl. cbn [negb]. rewrite andb_false_r.
  rewrite blen_ser_body in Hs. pose proof (blen_nonneg (view_opt k)). pose proof (blen_nonneg (view_opt v)).
  apply pm_body_ser; [exact Ha|lia|lia].
Qed.

(* MessageSet::next_message on one entry: offset, size, `size` bytes of message *)
Lemma next_message_entry dbg validate off msg rest :
  in_i64 off -> 0 < blen msg <= i32_max ->
  next_message dbg validate (enc_i64 off ++ enc_i32 (blen msg) ++ msg ++ rest) =
  let* pm := protocol_message dbg validate msg in Ok (off, pm, rest).
Proof.
  intros Ho Hm. unfold next_message. rewrite zread_i64_app by exact Ho. cbn [bind].
  rewrite zread_bytes_app by exact Hm. reflexivity.
Qed.

Lemma ser_message_shape off attr k v rest :
  ser_message off attr k v ++ rest =
  enc_i64 off ++
  enc_i32 (blen (enc_i32 (crc32 (ser_body attr k v)) ++ ser_body attr k v)) ++
  (enc_i32 (crc32 (ser_body attr k v)) ++ ser_body attr k v) ++ rest.
Proof.
  unfold ser_message. cbv zeta. rewrite <- !app_assoc. do 3 f_equal.
  unfold blen. rewrite app_length, enc_i32_length. lia.
Qed.

Lemma ser_message_length_pos off attr k v : (0 < length (ser_message off attr k v))%nat.
Proof. unfold ser_message. cbv zeta. rewrite app_length, enc_i64_length. lia. Qed.

Lemma next_message_ser dbg validate off attr k v rest :
  in_i64 off -> in_i8 attr -> 4 + blen (ser_body attr k v) <= i32_max ->
  next_message dbg validate (ser_message off attr k v ++ rest) =
  Ok (off, (attr, view_opt k, view_opt v), rest).
Proof.
  intros Ho Ha Hs. rewrite ser_message_shape, next_message_entry.
  - rewrite protocol_message_ok by assumption. reflexivity.
  - exact Ho.
  - unfold blen in *. rewrite app_length, enc_i32_length. lia.
Qed.

Lemma ms_loop_step inner dbg validate req f b bs acc :
  ms_loop inner dbg validate req (S f) (b :: bs) acc =
  match next_message dbg validate (b :: bs) with
  | Err EUnexpectedEOF => Ok (rev acc)
  | Err e => Err e
  | Panic w => Panic w
  | Ok (off, (attr, k, v), r) =>
      let c := Z.land attr 7 in
      if c =? COMPRESSION_NONE then
        ms_loop inner dbg validate req f r
                (if req <=? off then {| m_offset := off; m_key := k; m_value := v |} :: acc else acc)
      else if (c =? COMPRESSION_GZIP) || (c =? COMPRESSION_SNAPPY) then inner c v
      else Err EUnsupportedCompression
  end.
Proof. reflexivity. Qed.

(* a well-formed plain log entry: its fields fit the wire types *)
Definition plain_wf (e : entry) : Prop :=
  match e with
  | Plain off k v => in_i64 off /\ 4 + blen (ser_body 0 k v) <= i32_max
  | Wrapper _ _ _ => False
  end.

Lemma ser_cons comp e es : ser comp (e :: es) = ser_entry comp e ++ ser comp es.
Proof. reflexivity. Qed.

(* the loop walks over any number of well-formed plain entries *)
Lemma ms_loop_plain_prefix comp inner dbg validate req pre : Forall plain_wf pre ->
  forall rest fuel acc, (length (ser comp pre ++ rest) < fuel)%nat ->
  exists fuel' acc', (length rest < fuel')%nat /\
    ms_loop inner dbg validate req fuel (ser comp pre ++ rest) acc =
    ms_loop inner dbg validate req fuel' rest acc'.
Proof.
  induction 1 as [|e pre He Hpre IH]; intros rest fuel acc Hf.
  - exists fuel, acc. split; [exact Hf|reflexivity].
  - destruct e as [off k v|c off inn]; [|destruct He]. destruct He as [Ho Hs].
    rewrite ser_cons in Hf |- *. cbn [ser_entry] in Hf |- *. rewrite <- app_assoc in Hf |- *.
    pose proof (ser_message_length_pos off 0 k v) as Hpos.
    rewrite app_length in Hf.
    destruct fuel as [|f]; [lia|].
    assert (HR : (length (ser comp pre ++ rest) < f)%nat) by lia.
    destruct (ser_message off 0 k v ++ ser comp pre ++ rest) as [|b0 bs0] eqn:Ebs.
    { apply (f_equal (@length byte)) in Ebs. rewrite app_length in Ebs. cbn [length] in Ebs. lia. }
    rewrite ms_loop_step, <- Ebs, next_message_ser by (try assumption; unfold in_i8; lia).
    cbv beta iota zeta. change (Z.land 0 7 =? COMPRESSION_NONE) with true. cbv iota.
    apply IH. exact HR.
Qed.

(* the loop stops with CorruptMessage at an entry whose check fails *)
Lemma ms_loop_rejects inner dbg req fuel off msg post acc :
  in_i64 off -> blen msg <= i32_max -> (0 < fuel)%nat ->
  protocol_message dbg true msg = corrupt ->
  ms_loop inner dbg true req fuel ((enc_i64 off ++ enc_i32 (blen msg) ++ msg) ++ post) acc = corrupt.
Proof.
  intros Ho Hm Hf Hp.
  assert (Hpos : 0 < blen msg).
  { destruct msg; [vm_compute in Hp; discriminate Hp|]. unfold blen. cbn [length]. lia. }
  rewrite <- !app_assoc. destruct fuel as [|f]; [lia|].
  destruct (enc_i64 off ++ enc_i32 (blen msg) ++ msg ++ post) as [|b0 bs0] eqn:Ebs.
  { apply (f_equal (@length byte)) in Ebs. rewrite app_length, enc_i64_length in Ebs. discriminate Ebs. }
  rewrite ms_loop_step, <- Ebs, next_message_entry by (try assumption; lia).
  rewrite Hp. reflexivity.
Qed.

(* what from_slice plugs into the loop for a compressed wrapper *)
Definition inner_of (cz : codecs) (d : nat) (validate : bool) (req : Z) (c : Z) (v : bytes)
  : res (list message) :=
  if c =? COMPRESSION_GZIP then
    match gz_decompress cz v with
    | Some data => from_slice cz d validate req data
    | None => Err (EIo IoOther)
    end
  else if alloc_limit <=? xerial_max_alloc v then alloc_panic
  else let* data := xerial_read_to_end v in from_slice cz d validate req data.

Lemma from_slice_S cz d validate req bs :
  from_slice cz (S d) validate req bs =
  ms_loop (inner_of cz d validate req) (debug_build cz) validate req (S (length bs)) bs [].
Proof. reflexivity. Qed.

(* the corrupted message is reached because everything before it is plain, and the fetch of the
   whole set fails; `msg` is any message bytes whose check fails (see the instances below) *)
Theorem C04_set_rejects : forall comp cz d req pre off msg post,
  Forall plain_wf pre -> in_i64 off -> blen msg <= i32_max ->
  protocol_message (debug_build cz) true msg = corrupt ->
  from_slice cz (S d) true req
    (ser comp pre ++ (enc_i64 off ++ enc_i32 (blen msg) ++ msg) ++ post) = corrupt.
Proof.
  intros comp cz d req pre off msg post Hpre Ho Hm Hp. rewrite from_slice_S.
  destruct (ms_loop_plain_prefix comp (inner_of cz d true req) (debug_build cz) true req pre Hpre
              ((enc_i64 off ++ enc_i32 (blen msg) ++ msg) ++ post) _ [] (Nat.lt_succ_diag_r _))
    as (fuel' & acc' & Hfuel & ->).
  apply ms_loop_rejects; try assumption. lia.
Qed.

(* a wrapper (anywhere behind plain entries) whose own checksum is intact: from_slice hands
   `validate` down to the decompressed inner set *)
Lemma ms_loop_wrapper comp cz d validate req pre woff c v post :
  Forall plain_wf pre -> in_i64 woff -> c = COMPRESSION_GZIP \/ c = COMPRESSION_SNAPPY ->
  4 + blen (ser_body c None (Some v)) <= i32_max ->
  from_slice cz (S d) validate req (ser comp pre ++ ser_message woff c None (Some v) ++ post)
  = inner_of cz d validate req c v.
Proof.
  intros Hpre Ho Hc Hs. rewrite from_slice_S.
  destruct (ms_loop_plain_prefix comp (inner_of cz d validate req) (debug_build cz) validate req pre Hpre
              (ser_message woff c None (Some v) ++ post) _ [] (Nat.lt_succ_diag_r _))
    as (fuel' & acc' & Hfuel & ->).
  destruct fuel' as [|f]; [lia|].
  destruct (ser_message woff c None (Some v) ++ post) as [|b0 bs0] eqn:Ebs.
  { pose proof (ser_message_length_pos woff c None (Some v)).
    apply (f_equal (@length byte)) in Ebs. rewrite app_length in Ebs. cbn [length] in Ebs. lia. }
  rewrite ms_loop_step, <- Ebs, next_message_ser;
    [|exact Ho|unfold in_i8, COMPRESSION_GZIP, COMPRESSION_SNAPPY in *; lia|exact Hs].
  cbv beta iota zeta. cbn [view_opt].
  destruct Hc as [-> | ->]; reflexivity.
Qed.

Theorem C04_wrapper_gzip : forall comp cz d validate req pre woff v data post,
  Forall plain_wf pre -> in_i64 woff ->
  4 + blen (ser_body COMPRESSION_GZIP None (Some v)) <= i32_max ->
  gz_decompress cz v = Some data ->
  from_slice cz (S (S d)) validate req
    (ser comp pre ++ ser_message woff COMPRESSION_GZIP None (Some v) ++ post)
  = from_slice cz (S d) validate req data.
Proof.
  intros comp cz d validate req pre woff v data post Hpre Ho Hs Hz.
  rewrite (ms_loop_wrapper comp cz (S d) validate req pre woff COMPRESSION_GZIP v post)
    by (try assumption; now left).
  unfold inner_of. change (COMPRESSION_GZIP =? COMPRESSION_GZIP) with true. cbv iota.
  now rewrite Hz.
Qed.

Theorem C04_wrapper_snappy : forall comp cz d validate req pre woff v data post,
  Forall plain_wf pre -> in_i64 woff ->
  4 + blen (ser_body COMPRESSION_SNAPPY None (Some v)) <= i32_max ->
  xerial_max_alloc v < alloc_limit -> xerial_read_to_end v = Ok data ->
  from_slice cz (S (S d)) validate req
    (ser comp pre ++ ser_message woff COMPRESSION_SNAPPY None (Some v) ++ post)
  = from_slice cz (S d) validate req data.
Proof.
  intros comp cz d validate req pre woff v data post Hpre Ho Hs Ha Hz.
  rewrite (ms_loop_wrapper comp cz (S d) validate req pre woff COMPRESSION_SNAPPY v post)
    by (try assumption; now right).
  unfold inner_of. change (COMPRESSION_SNAPPY =? COMPRESSION_GZIP) with false. cbv iota.
  destruct (alloc_limit <=? xerial_max_alloc v) eqn:E; [lia|]. now rewrite Hz.
Qed.

(* a corrupted message INSIDE a wrapper whose own checksum is intact *)
Theorem C04_inner_rejects_gzip :
  forall comp cz d req pre woff v post ipre off msg ipost,
  Forall plain_wf pre -> in_i64 woff ->
  4 + blen (ser_body COMPRESSION_GZIP None (Some v)) <= i32_max ->
  gz_decompress cz v = Some (ser comp ipre ++ (enc_i64 off ++ enc_i32 (blen msg) ++ msg) ++ ipost) ->
  Forall plain_wf ipre -> in_i64 off -> blen msg <= i32_max ->
  protocol_message (debug_build cz) true msg = corrupt ->
  from_slice cz (S (S d)) true req
    (ser comp pre ++ ser_message woff COMPRESSION_GZIP None (Some v) ++ post) = corrupt.
Proof.
  intros comp cz d req pre woff v post ipre off msg ipost Hpre Hwo Hs Hz Hipre Ho Hm Hp.
  rewrite (C04_wrapper_gzip comp cz d true req pre woff v _ post Hpre Hwo Hs Hz).
  now apply C04_set_rejects.
Qed.

Theorem C04_inner_rejects_snappy :
  forall comp cz d req pre woff v post ipre off msg ipost,
  Forall plain_wf pre -> in_i64 woff ->
  4 + blen (ser_body COMPRESSION_SNAPPY None (Some v)) <= i32_max ->
  xerial_max_alloc v < alloc_limit ->
  xerial_read_to_end v = Ok (ser comp ipre ++ (enc_i64 off ++ enc_i32 (blen msg) ++ msg) ++ ipost) ->
  Forall plain_wf ipre -> in_i64 off -> blen msg <= i32_max ->
  protocol_message (debug_build cz) true msg = corrupt ->
  from_slice cz (S (S d)) true req
    (ser comp pre ++ ser_message woff COMPRESSION_SNAPPY None (Some v) ++ post) = corrupt.
Proof.
  intros comp cz d req pre woff v post ipre off msg ipost Hpre Hwo Hs Ha Hz Hipre Ho Hm Hp.
  rewrite (C04_wrapper_snappy comp cz d true req pre woff v _ post Hpre Hwo Hs Ha Hz).
  now apply C04_set_rejects.
Qed.

(* the wrapper message itself is covered by sections 1-3: it is a message like any other (its
   value happens to be compressed data), so a corrupted WRAPPER is an instance of C04_set_rejects *)

(* instances: the error patterns of section 3 inside a message set *)
Lemma blen_xor_msg covered e : length e = (4 + length covered)%nat ->
  blen (xor_bytes (enc_i32 (crc32 covered) ++ covered) e) = 4 + blen covered.
Proof.
  intros H. unfold blen. rewrite xor_bytes_length; rewrite app_length, enc_i32_length; lia.
Qed.

Theorem C04_set_rejects_single_bit : forall comp cz d req pre off covered e post,
  Forall plain_wf pre -> in_i64 off -> 4 + blen covered <= i32_max ->
  length e = (4 + length covered)%nat -> weight (bits_of_bytes e) = 1%nat ->
  let msg := xor_bytes (enc_i32 (crc32 covered) ++ covered) e in
  from_slice cz (S d) true req
    (ser comp pre ++ (enc_i64 off ++ enc_i32 (blen msg) ++ msg) ++ post) = corrupt.
Proof.
  intros comp cz d req pre off covered e post Hpre Ho Hm Hl Hw msg.
  apply C04_set_rejects; try assumption.
  - unfold msg. now rewrite blen_xor_msg.
  - now apply C04_single_bit.
Qed.

Theorem C04_set_rejects_double_bit : forall comp cz d req pre off covered e post,
  Forall plain_wf pre -> in_i64 off -> 4 + blen covered <= i32_max ->
  length e = (4 + length covered)%nat -> weight (bits_of_bytes e) = 2%nat ->
  8 * Z.of_nat (length covered) < 2 ^ 32 - 32 ->   (* not implied by the i32 size: 2^31 bytes > 2^32 bits *)
  let msg := xor_bytes (enc_i32 (crc32 covered) ++ covered) e in
  from_slice cz (S d) true req
    (ser comp pre ++ (enc_i64 off ++ enc_i32 (blen msg) ++ msg) ++ post) = corrupt.
Proof.
  intros comp cz d req pre off covered e post Hpre Ho Hm Hl Hw Hb msg.
  apply C04_set_rejects; try assumption.
  - unfold msg. now rewrite blen_xor_msg.
  - now apply C04_double_bit.
Qed.

Theorem C04_set_rejects_data_burst : forall comp cz d req pre off covered e post,
  Forall plain_wf pre -> in_i64 off -> 4 + blen covered <= i32_max ->
  length e = (4 + length covered)%nat -> (exists b, In b e /\ b <> x00) ->
  firstn 4 e = repeat x00 4 -> (burst_span (bits_of_bytes (skipn 4 e)) <= 32)%nat ->
  let msg := xor_bytes (enc_i32 (crc32 covered) ++ covered) e in
  from_slice cz (S d) true req
    (ser comp pre ++ (enc_i64 off ++ enc_i32 (blen msg) ++ msg) ++ post) = corrupt.
Proof.
  intros comp cz d req pre off covered e post Hpre Ho Hm Hl Hne Hf Hs msg.
  apply C04_set_rejects; try assumption.
  - unfold msg. now rewrite blen_xor_msg.
  - now apply C04_data_burst.
Qed.

(* the compressed wrapper itself hit by a single-bit flip (codec c, compressed data v): the
   wrapper is a message like any other, nothing is decompressed *)
Corollary C04_wrapper_single_bit : forall comp cz d req pre off c v e post,
  Forall plain_wf pre -> in_i64 off -> 4 + blen (ser_body c None (Some v)) <= i32_max ->
  length e = (4 + length (ser_body c None (Some v)))%nat -> weight (bits_of_bytes e) = 1%nat ->
  let msg := xor_bytes (enc_i32 (crc32 (ser_body c None (Some v))) ++ ser_body c None (Some v)) e in
  from_slice cz (S d) true req
    (ser comp pre ++ (enc_i64 off ++ enc_i32 (blen msg) ++ msg) ++ post) = corrupt.
Proof. intros. now apply C04_set_rejects_single_bit. Qed.

(* with validation off a wrong checksum alone never causes rejection: an entry whose stored
   checksum is replaced by any 4 bytes is read exactly like the intact one *)
Theorem C04_off_entry_ignored : forall dbg off field field' rest post,
  length field = 4%nat -> length field' = 4%nat -> in_i64 off -> blen (field ++ rest) <= i32_max ->
  next_message dbg false (enc_i64 off ++ enc_i32 (blen (field ++ rest)) ++ (field ++ rest) ++ post) =
  next_message dbg false (enc_i64 off ++ enc_i32 (blen (field' ++ rest)) ++ (field' ++ rest) ++ post).
Proof.
  intros dbg off field field' rest post H H' Ho Hm.
  assert (Hb : blen (field' ++ rest) = blen (field ++ rest))
    by (unfold blen; rewrite !app_length, H, H'; reflexivity).
  assert (Hpos : 0 < blen (field ++ rest)) by (unfold blen; rewrite app_length, H; lia).
  rewrite !next_message_entry by (try assumption; lia).
  now rewrite (C04_off_ignored dbg field field' rest H H').
Qed.

(* ====================================================================================== *)
(* 6. examples (non-vacuity; every hypothesis instantiated on concrete inputs)            *)
(* ====================================================================================== *)

Ltac conc := vm_compute; repeat split; try discriminate; try reflexivity; try lia.

(* magic 0, attributes 0, null key, value "kafka!": 16 checksummed bytes, a 20-byte message *)
Definition ex_cov : bytes :=
  [x00; x00; xff; xff; xff; xff; x00; x00; x00; x06; x6b; x61; x66; x6b; x61; x21].
Definition ex_msg : bytes := enc_i32 (crc32 ex_cov) ++ ex_cov.

Example ex_msg_bytes : ex_msg = [x0d; x0e; x9f; x95] ++ ex_cov /\ length ex_msg = 20%nat.
Proof. conc. Qed.

Definition is_corrupt {A} (r : res A) : bool :=
  match r with Err (EKafka c) => c =? KC_CorruptMessage | _ => false end.

Lemma is_corrupt_iff {A} (r : res A) : is_corrupt r = true <-> r = corrupt.
Proof.
  split; [|intros ->; reflexivity].
  destruct r as [a|[]|w]; cbn [is_corrupt]; try discriminate. intros H. apply Z.eqb_eq in H. now subst.
Qed.

(* the n-byte pattern with exactly bit i set (bit order 8*byte + bit, lsb first) *)
Definition flip_at (n i : nat) : bytes :=
  map (fun j => if Nat.eqb j (i / 8) then bZ (2 ^ Z.of_nat (i mod 8)) else x00) (seq 0 n).

Example check_passes_iff_ex :
  length [x0d; x0e; x9f; x94] = 4%nat /\ be_dec_u [x0d; x0e; x9f; x94] <> crc32 ex_cov /\
  protocol_message true true ([x0d; x0e; x9f; x94] ++ ex_cov) = corrupt /\
  be_dec_u [x0d; x0e; x9f; x95] = crc32 ex_cov /\
  protocol_message true true ([x0d; x0e; x9f; x95] ++ ex_cov) = Ok (0, [], [x6b; x61; x66; x6b; x61; x21]).
Proof. conc. Qed.

(* every one of the 160 single-bit flips of the 20-byte message: the pattern has weight 1 and the
   corrupted message is rejected (double-checks C04_single_bit by computation) *)
Example C04_single_bit_all_160 :
  forallb (fun i => Nat.eqb (weight (bits_of_bytes (flip_at 20 i))) 1 &&
                    Nat.eqb (length (flip_at 20 i)) 20 &&
                    is_corrupt (protocol_message false true (xor_bytes ex_msg (flip_at 20 i))))
          (seq 0 160) = true.
Proof. vm_compute. reflexivity. Qed.

Example C04_single_bit_ex :
  length (flip_at 20 77) = (4 + length ex_cov)%nat /\ weight (bits_of_bytes (flip_at 20 77)) = 1%nat /\
  protocol_message true true (xor_bytes (enc_i32 (crc32 ex_cov) ++ ex_cov) (flip_at 20 77)) = corrupt.
Proof.
  assert (H1 : length (flip_at 20 77) = (4 + length ex_cov)%nat) by reflexivity.
  assert (H2 : weight (bits_of_bytes (flip_at 20 77)) = 1%nat) by (vm_compute; reflexivity).
  split; [exact H1|]. split; [exact H2|]. now apply C04_single_bit.
Qed.

(* all 12720 double-bit flips of the 20-byte message are rejected *)
Example C04_double_bit_all_12720 :
  forallb (fun i =>
    forallb (fun j =>
      let e := xor_bytes (flip_at 20 i) (flip_at 20 j) in
      Nat.eqb (weight (bits_of_bytes e)) 2 &&
      is_corrupt (protocol_message false true (xor_bytes ex_msg e)))
      (seq (S i) (159 - i)))
    (seq 0 160) = true.
Proof. vm_compute. reflexivity. Qed.

(* one bit of the stored checksum (bit 5) and one bit of the value (bit 129) *)
Example C04_double_bit_ex :
  let e := xor_bytes (flip_at 20 5) (flip_at 20 129) in
  length e = (4 + length ex_cov)%nat /\ weight (bits_of_bytes e) = 2%nat /\
  weight (bits_of_bytes (firstn 4 e)) = 1%nat /\
  8 * Z.of_nat (length ex_cov) < 2 ^ 32 - 32 /\
  protocol_message true true (xor_bytes (enc_i32 (crc32 ex_cov) ++ ex_cov) e) = corrupt.
Proof.
  intros e.
  assert (H1 : length e = (4 + length ex_cov)%nat) by reflexivity.
  assert (H2 : weight (bits_of_bytes e) = 2%nat) by (vm_compute; reflexivity).
  assert (H3 : 8 * Z.of_nat (length ex_cov) < 2 ^ 32 - 32) by (vm_compute; reflexivity).
  split; [exact H1|]. split; [exact H2|]. split; [vm_compute; reflexivity|]. split; [exact H3|].
  now apply C04_double_bit.
Qed.

(* a burst of span exactly 32 inside the checksummed bytes, not byte aligned: bits 39 .. 70 *)
Definition ex_burst : bytes :=
  repeat x00 4 ++ [x80; xff; x00; x5a; x7f] ++ repeat x00 11.

Example C04_data_burst_ex :
  length ex_burst = (4 + length ex_cov)%nat /\ (exists b, In b ex_burst /\ b <> x00) /\
  firstn 4 ex_burst = repeat x00 4 /\ burst_span (bits_of_bytes (skipn 4 ex_burst)) = 32%nat /\
  protocol_message true true (xor_bytes (enc_i32 (crc32 ex_cov) ++ ex_cov) ex_burst) = corrupt.
Proof.
  assert (H2 : exists b, In b ex_burst /\ b <> x00)
    by (exists x80; split; [vm_compute; tauto|discriminate]).
  assert (H4 : burst_span (bits_of_bytes (skipn 4 ex_burst)) = 32%nat) by (vm_compute; reflexivity).
  split; [reflexivity|]. split; [exact H2|]. split; [reflexivity|]. split; [exact H4|].
  apply C04_data_burst; [reflexivity|exact H2|reflexivity|rewrite H4; lia].
Qed.

Example C04_field_only_ex :
  let e := [xff; x00; x12; x80] ++ repeat x00 16 in
  length e = (4 + length ex_cov)%nat /\ (exists b, In b (firstn 4 e) /\ b <> x00) /\
  skipn 4 e = repeat x00 (length ex_cov) /\
  protocol_message true true (xor_bytes (enc_i32 (crc32 ex_cov) ++ ex_cov) e) = corrupt.
Proof.
  intros e.
  assert (H2 : exists b, In b (firstn 4 e) /\ b <> x00)
    by (exists xff; split; [vm_compute; tauto|discriminate]).
  split; [reflexivity|]. split; [exact H2|]. split; [reflexivity|].
  apply C04_field_only; [reflexivity|exact H2|reflexivity].
Qed.

Example C04_four_bytes_ex :
  (5 + length [xde; xad; xbe; xef] + 7 = length ex_cov)%nat /\ (length [xde; xad; xbe; xef] <= 4)%nat /\
  (exists b, In b [xde; xad; xbe; xef] /\ b <> x00) /\
  protocol_message true true
    (xor_bytes (enc_i32 (crc32 ex_cov) ++ ex_cov) (repeat x00 (4 + 5) ++ [xde; xad; xbe; xef] ++ repeat x00 7))
  = corrupt.
Proof.
  assert (H3 : exists b, In b [xde; xad; xbe; xef] /\ b <> x00)
    by (exists xde; split; [now left|discriminate]).
  split; [reflexivity|]. split; [cbn [length]; lia|]. split; [exact H3|].
  apply C04_four_bytes; [reflexivity|cbn [length]; lia|exact H3].
Qed.

Example C04_reject_iff_ex :
  (* the straddling pattern: the field bits equal the syndrome of the data bits *)
  be_dec_u (firstn 4 sb_pattern) = Z.of_N (crc_update 0 (skipn 4 sb_pattern)) /\
  be_dec_u (firstn 4 sb_pattern) = 0xe0de.
Proof. conc. Qed.

(* validation off: any 4 bytes in place of the checksum give the same result, here a delivery *)
Example C04_off_ignored_ex :
  protocol_message true false ([x00; x00; x00; x00] ++ ex_cov) = protocol_message true false ex_msg /\
  protocol_message true false ([x00; x00; x00; x00] ++ ex_cov) = Ok (0, [], [x6b; x61; x66; x6b; x61; x21]) /\
  protocol_message true true ([x00; x00; x00; x00] ++ ex_cov) = corrupt.
Proof. conc. Qed.

(* ---- message sets ----------------------------------------------------------------------- *)

(* "compression" by the identity, so that the examples are self-contained *)
Definition ex_cz : codecs :=
  {| gz_compress := fun b => b; sn_compress := fun b => b;
     gz_decompress := fun b => Some b; debug_build := true |}.
Definition ex_comp (c : Z) (b : bytes) : bytes := b.

Definition ex_pre : list entry :=
  [Plain 10 (Some [x6b]) (Some [x76; x31]); Plain 11 None (Some [x76; x32]); Plain 12 (Some []) None].
Definition ex_post : bytes := ser ex_comp [Plain 14 None (Some [x76; x34])].
(* ex_msg with bit 129 (in the value) flipped *)
Definition ex_bad : bytes := xor_bytes ex_msg (flip_at 20 129).
Definition ex_entry (msg : bytes) : bytes := enc_i64 13 ++ enc_i32 (blen msg) ++ msg.

Lemma ex_pre_wf : Forall plain_wf ex_pre.
Proof. repeat constructor; conc. Qed.

Example C04_set_rejects_ex :
  Forall plain_wf ex_pre /\ in_i64 13 /\ blen ex_bad <= i32_max /\
  protocol_message (debug_build ex_cz) true ex_bad = corrupt /\
  from_slice ex_cz 1 true 0 (ser ex_comp ex_pre ++ ex_entry ex_bad ++ ex_post) = corrupt /\
  (* the same bytes with validation off: five messages are delivered, one of them altered *)
  option_map (@length message)
    (match from_slice ex_cz 1 false 0 (ser ex_comp ex_pre ++ ex_entry ex_bad ++ ex_post) with
     | Ok l => Some l | _ => None end) = Some 5%nat /\
  (* and the intact set with validation on *)
  option_map (@length message)
    (match from_slice ex_cz 1 true 0 (ser ex_comp ex_pre ++ ex_entry ex_msg ++ ex_post) with
     | Ok l => Some l | _ => None end) = Some 5%nat.
Proof.
  split; [exact ex_pre_wf|]. split; [conc|]. split; [conc|]. split; [conc|].
  split; [|conc].
  apply (C04_set_rejects ex_comp ex_cz 0 0 ex_pre 13 ex_bad ex_post); [exact ex_pre_wf|conc|conc|conc].
Qed.

(* a gzip wrapper (behind one plain entry) whose own checksum is intact, holding the corrupted
   message behind two intact ones *)
Definition ex_inner : bytes :=
  ser ex_comp [Plain 20 None (Some [x61]); Plain 21 None (Some [x62])] ++ ex_entry ex_bad ++ ex_post.
Definition ex_wrapped : bytes :=
  ser ex_comp [Plain 9 None (Some [x70])] ++ ser_message 22 COMPRESSION_GZIP None (Some ex_inner) ++ ex_post.

Example C04_inner_rejects_gzip_ex :
  gz_decompress ex_cz ex_inner = Some ex_inner /\
  4 + blen (ser_body COMPRESSION_GZIP None (Some ex_inner)) <= i32_max /\
  (* the wrapper message itself passes the check *)
  (exists r, next_message true true (ser_message 22 COMPRESSION_GZIP None (Some ex_inner) ++ ex_post)
             = Ok (22, (1, [], ex_inner), r)) /\
  from_slice ex_cz 2 true 0 ex_wrapped = corrupt /\
  option_map (@length message)
    (match from_slice ex_cz 2 false 0 ex_wrapped with Ok l => Some l | _ => None end) = Some 4%nat.
Proof.
  split; [reflexivity|]. split; [conc|]. split; [eexists; vm_compute; reflexivity|]. split; [|conc].
  apply (C04_inner_rejects_gzip ex_comp ex_cz 0 0 [Plain 9 None (Some [x70])] 22 ex_inner ex_post
           [Plain 20 None (Some [x61]); Plain 21 None (Some [x62])] 13 ex_bad ex_post).
  - repeat constructor; conc.
  - conc.
  - conc.
  - reflexivity.
  - repeat constructor; conc.
  - conc.
  - conc.
  - conc.
Qed.

Example C04_off_entry_ignored_ex :
  next_message true false (enc_i64 5 ++ enc_i32 (blen ([x01; x02; x03; x04] ++ ex_cov)) ++ ([x01; x02; x03; x04] ++ ex_cov) ++ ex_post)
  = Ok (5, (0, [], [x6b; x61; x66; x6b; x61; x21]), ex_post).
Proof. vm_compute. reflexivity. Qed.

(* ---------------------------------------------------------------------------------------- *)
Print Assumptions check_passes_iff.
Print Assumptions C04_reject_iff.
Print Assumptions C04_data_burst.
Print Assumptions C04_field_only.
Print Assumptions C04_four_bytes.
Print Assumptions C04_single_bit.
Print Assumptions C04_double_bit.
Print Assumptions C04_off_ignored.
Print Assumptions C04_off_entry_ignored.
Print Assumptions C04_straddling_burst_refuted.
Print Assumptions C04_straddling_burst_delivered.
Print Assumptions C04_set_rejects.
Print Assumptions C04_wrapper_gzip.
Print Assumptions C04_wrapper_snappy.
Print Assumptions C04_inner_rejects_gzip.
Print Assumptions C04_inner_rejects_snappy.
Print Assumptions C04_set_rejects_single_bit.
Print Assumptions C04_set_rejects_double_bit.
Print Assumptions C04_set_rejects_data_burst.
Print Assumptions C04_wrapper_single_bit.
