(* C19, additional theorems: the clauses of the property that Props/C19.v states only piecewise
   (per helper function) are stated here about the real entry points:
   - consumer_create: the created consumer consumes exactly (assignment map x loaded metadata),
     loads group offsets for exactly this set, and fails with unknown-topic-or-partition when a
     topic / partition does not exist;
   - the set never changes afterwards: seek, consume_message, poll (process_fetch_responses /
     consumer_poll) and commit_consumed keep it;
   - fetch requests and offset commits only ever name members of the set. *)
From KV Require Import Base.Prelude Gen.ErrorCodes Gen.Consts Model.Codecs Model.Requests Model.Responses
                       Model.ClientState Model.Net Model.Client Model.Consumer.
From KV Require Import Proofs.BytesFacts Proofs.C07Facts Proofs.C19Facts Proofs.C08Facts Proofs.C16Facts.
From Coq Require Import ZifyBool Sorted Permutation.
Ltac Zify.zify_post_hook ::= Z.div_mod_to_equations.

(* ================================================================================== *)
(* 0. small facts                                                                     *)
(* ================================================================================== *)

Lemma assoc_bytes_in_nodup {V} (m : list (bytes * V)) t v :
  NoDup (map fst m) -> (assoc_bytes t m = Some v <-> In (t, v) m).
Proof.
  induction m as [|[k' v'] m IH]; intros Hnd; cbn [assoc_bytes In].
  - split; [discriminate|intros []].
  - cbn [map fst] in Hnd. inversion Hnd as [|? ? Hn Hd]; subst.
    destruct (bytes_eqb k' t) eqn:E.
    + apply bytes_eqb_eq in E. subst k'. split.
      * intros H. inversion H. left. reflexivity.
      * intros [H|H]; [inversion H; reflexivity|].
        exfalso. apply Hn. apply in_map_iff. exists (t, v). split; [reflexivity|exact H].
    + apply bytes_eqb_neq in E. rewrite (IH Hd). split.
      * intros H. right. exact H.
      * intros [H|H]; [inversion H; congruence|exact H].
Qed.

Lemma assoc_bytes_some_in {V} (m : list (bytes * V)) t v : assoc_bytes t m = Some v -> In (t, v) m.
Proof.
  induction m as [|[k' v'] m IH]; cbn [assoc_bytes In]; [discriminate|].
  destruct (bytes_eqb k' t) eqn:E.
  - apply bytes_eqb_eq in E. subst k'. intros H. inversion H. left. reflexivity.
  - intros H. right. apply IH. exact H.
Qed.

Lemma in_iota_z n p : In p (iota_z n 0) <-> 0 <= p < Z.of_nat n.
Proof.
  rewrite C19_iota, in_map_iff. split.
  - intros (x & Hx & Hin). apply in_seq in Hin. lia.
  - intros H. exists (Z.to_nat p). split; [lia|]. apply in_seq. lia.
Qed.

Lemma sort_dedup_nil_iff ps : sort_dedup ps = [] <-> ps = [].
Proof.
  split; [|intros ->; reflexivity]. intros H. destruct ps as [|x ps]; [reflexivity|].
  exfalso. assert (Hin : In x (sort_dedup (x :: ps))) by (apply sort_dedup_spec; left; reflexivity).
  rewrite H in Hin. exact Hin.
Qed.

(* the entries of the table are those of the map, with the partition lists normalised *)
Lemma from_map_in m t req' : NoDup (map fst m) ->
  (In (t, req') (from_map m) <-> exists req, In (t, req) m /\ req' = sort_dedup req).
Proof.
  intros Hnd. destruct (C19_from_map_sorted m Hnd) as (_ & Hperm & _). split.
  - intros Hin. apply (Permutation_in _ Hperm) in Hin. apply in_map_iff in Hin.
    destruct Hin as ([t0 req] & He & Hin). cbn [fst snd] in He. inversion He; subst. eauto.
  - intros (req & Hin & ->). apply (Permutation_in _ (Permutation_sym Hperm)).
    apply in_map_iff. exists (t, req). split; [reflexivity|exact Hin].
Qed.

(* determine_partitions answers Ok or unknown-topic-or-partition, nothing else *)
Lemma determine_cases s a :
  (exists ps, determine_partitions s a = Ok ps)
  \/ determine_partitions s a = Err (EKafka KC_UnknownTopicOrPartition).
Proof.
  unfold determine_partitions. destruct (partitions_for s (fst a)) as [avail|]; [|right; reflexivity].
  destruct (snd a) as [|p0 req0]; [left; eauto|].
  destruct (forallb _ (p0 :: req0)); [left; eauto|right; reflexivity].
Qed.

Lemma subscriptions_of_in s : forall asg subs, subscriptions_of s asg = Ok subs ->
  forall t ps, In (t, ps) subs <-> exists req, In (t, req) asg /\ determine_partitions s (t, req) = Ok ps.
Proof.
  induction asg as [|[t0 req0] r IH]; intros subs H t ps; cbn [subscriptions_of] in H.
  - inversion H; subst. split; [intros []|intros (req & [] & _)].
  - apply bind_ok in H. destruct H as (ps0 & Hps & H). apply bind_ok in H. destruct H as (rest & Hr & H).
    inversion H; subst subs. cbn [fst In]. rewrite (IH rest Hr). split.
    + intros [He|(req & Hin & Hd)].
      * inversion He; subst. exists req0. split; [left; reflexivity|exact Hps].
      * exists req. split; [right; exact Hin|exact Hd].
    + intros (req & [He|Hin] & Hd).
      * inversion He; subst. left. f_equal. rewrite Hps in Hd. inversion Hd. reflexivity.
      * right. eauto.
Qed.

(* the first failing entry decides; the only possible error is unknown-topic-or-partition *)
Lemma subscriptions_of_cases s : forall asg,
  (exists subs, subscriptions_of s asg = Ok subs
                /\ forall a, In a asg -> exists ps, determine_partitions s a = Ok ps)
  \/ (subscriptions_of s asg = Err (EKafka KC_UnknownTopicOrPartition)
      /\ exists a, In a asg /\ determine_partitions s a = Err (EKafka KC_UnknownTopicOrPartition)).
Proof.
  induction asg as [|a r IH]; cbn [subscriptions_of].
  - left. exists []. split; [reflexivity|intros a []].
  - destruct (determine_cases s a) as [[ps Hps]|He].
    + rewrite Hps. cbn [bind]. destruct IH as [(subs & Hs & Hall)|(Hs & a' & Hin & Ha')].
      * rewrite Hs. cbn [bind]. left. eexists. split; [reflexivity|].
        intros a' [E|Hin]; [subst a'; eauto|apply Hall; exact Hin].
      * rewrite Hs. cbn [bind]. right. split; [reflexivity|]. exists a'. split; [right; exact Hin|exact Ha'].
    + rewrite He. cbn [bind]. right. split; [reflexivity|]. exists a. split; [left; reflexivity|exact He].
Qed.

(* what a successful resolution of one table entry lists *)
Lemma determine_in md t req ps p :
  determine_partitions md (t, sort_dedup req) = Ok ps ->
  (In p ps <-> exists avail, partitions_for md t = Some avail /\ 0 <= p < ulen avail /\ (req = [] \/ In p req)).
Proof.
  unfold determine_partitions. cbn [fst snd]. destruct (partitions_for md t) as [avail|]; [|discriminate].
  destruct (sort_dedup req) as [|q0 qs] eqn:Es.
  - intros H. inversion H; subst ps. apply (proj1 (sort_dedup_nil_iff _)) in Es. subst req. rewrite in_iota_z. unfold ulen. split.
    + intros Hr. exists avail. auto.
    + intros (avail' & Ha & Hr & _). inversion Ha; subst. exact Hr.
  - rewrite <- Es. destruct (forallb _ (sort_dedup req)) eqn:Hf; [|discriminate].
    intros H. inversion H; subst ps. rewrite forallb_forall in Hf. split.
    + intros Hin. exists avail. split; [reflexivity|]. split.
      * apply partition_ref_some_iff. apply Hf. exact Hin.
      * right. apply sort_dedup_spec. exact Hin.
    + intros (avail' & _ & _ & [Hn|Hin]).
      * subst req. discriminate.
      * apply sort_dedup_spec. exact Hin.
Qed.

(* every requested id of a successfully resolved entry exists *)
Lemma determine_ok_range md t req ps :
  determine_partitions md (t, sort_dedup req) = Ok ps ->
  exists avail, partitions_for md t = Some avail /\ Forall (fun p => 0 <= p < ulen avail) req.
Proof.
  intros H. pose proof (fun p => determine_in md t req ps p H) as Hin.
  unfold determine_partitions in H. cbn [fst snd] in H.
  destruct (partitions_for md t) as [avail|] eqn:Ea; [|discriminate]. exists avail. split; [reflexivity|].
  apply Forall_forall. intros p Hp.
  destruct (sort_dedup req) as [|q0 qs] eqn:Es.
  - apply (proj1 (sort_dedup_nil_iff _)) in Es. subst req. destruct Hp.
  - rewrite <- Es in H. destruct (forallb _ (sort_dedup req)) eqn:Hf; [|discriminate].
    rewrite forallb_forall in Hf. apply partition_ref_some_iff. apply Hf. apply sort_dedup_spec. exact Hp.
Qed.

(* load_fetch_states (both branches): the keys of the result are exactly the subscribed pairs *)
Lemma load_fetch_states_keys fb asg subs consumed s fetch s' :
  load_fetch_states fb asg subs consumed s = (Ok fetch, s') ->
  forall r p, tk_get (r, p) fetch <> None <->
              exists t ps, In (t, ps) subs /\ topic_ref asg t = Some r /\ In p ps.
Proof.
  intros H. unfold load_fetch_states in H.
  apply mbind_ok in H. destruct H as (c & s1 & _ & H).
  apply mbind_ok in H. destruct H as (e & s2 & _ & H).
  destruct consumed as [|c0 cr].
  - apply mbind_ok in H. destruct H as (offsets & s3 & _ & H). unfold lift in H. inversion H as [[Hf Hs]].
    apply C19_fallback_states_exact with (1 := Hf).
  - apply mbind_ok in H. destruct H as (latest & s3 & _ & H).
    apply mbind_ok in H. destruct H as (earliest & s4 & _ & H). unfold lift in H. inversion H as [[Hf Hs]].
    apply C19_fetch_states_exact with (1 := Hf).
Qed.

(* ================================================================================== *)
(* 1. consumer_create: the consumed set is exactly (assignment map x loaded metadata) *)
(* ================================================================================== *)

(* the state creation starts from once the builder's configuration is installed *)
Definition create_start (src : list bytes + client) (calls : list cbuilder_call) (s : st) (wait : Z) : st :=
  let b := fold_left cbuilder_apply calls (cbuilder_new src) in
  st_with_client s {| cfg := cfg_set_consumer (cfg (cl s)) b wait; cs := cs (cl s); conns := conns (cl s) |}.

(* metadata step of create: from hosts the metadata is (re)loaded, from a client it is taken as is *)
Definition create_metadata (src : list bytes + client) : M unit :=
  match src with inl _ => load_metadata_all | inr _ => ret tt end.

(* the pairs handed to fetch_group_offsets *)
Definition subs_pairs (subs : list (bytes * list Z)) : list (bytes * Z) :=
  flat_map (fun '(t, ps) => map (fun p => (t, p)) ps) subs.

Lemma subs_pairs_in subs t p : In (t, p) (subs_pairs subs) <-> exists ps, In (t, ps) subs /\ In p ps.
Proof.
  unfold subs_pairs. rewrite in_flat_map. split.
  - intros ([t0 ps] & Hin & Hp). apply in_map_iff in Hp. destruct Hp as (q & He & Hq). inversion He; subst. eauto.
  - intros (ps & Hin & Hp). exists (t, ps). split; [exact Hin|]. apply in_map_iff. eauto.
Qed.

Theorem C19_create_exact : forall src calls s k s',
  consumer_create src calls s = (Ok k, s') ->
  let b := fold_left cbuilder_apply calls (cbuilder_new src) in
  exists wait s1 subs s2 s3,
    to_millis_i32 (cb_max_wait b) = Ok wait
    (* md := the metadata in force after the metadata step *)
    /\ create_metadata src (create_start src calls s wait) = (Ok tt, s1)
    /\ k_assign k = from_map (cb_assign b) /\ strictly_sorted (k_assign k)
    (* every assigned topic and explicit partition exists in md *)
    /\ (forall t req, assoc_bytes t (cb_assign b) = Some req ->
          exists avail, partitions_for (cs (cl s1)) t = Some avail /\ Forall (fun p => 0 <= p < ulen avail) req)
    (* the consumed set: all partitions of md for a whole-topic entry, else exactly the listed ones *)
    /\ (forall t p, assigned k t p <->
          exists req avail, assoc_bytes t (cb_assign b) = Some req
                            /\ partitions_for (cs (cl s1)) t = Some avail
                            /\ 0 <= p < ulen avail /\ (req = [] \/ In p req))
    (* group offsets are loaded for exactly this set *)
    /\ load_consumed_offsets (cb_group b) (k_assign k) subs s1 = (Ok (k_consumed k), s2)
    /\ (forall t p, In (t, p) (subs_pairs subs) <-> assigned k t p)
    /\ NoDup (map fst subs)
    (* and the fetch states are initialised for exactly this set *)
    /\ load_fetch_states (cb_fallback b) (k_assign k) subs (k_consumed k) s2 = (Ok (k_fetch k), s3).
Proof.
  intros src calls s k s' H b. unfold consumer_create in H. fold b in H. cbv zeta in H.
  destruct (cb_assign b) as [|a0 ar] eqn:Ea; [discriminate|]. rewrite <- Ea in H |- *.
  apply mbind_ok in H. destruct H as (c & s0 & Hc & H). unfold get_client in Hc. inversion Hc; subst c s0.
  apply mbind_ok in H. destruct H as (wait & s0 & Hw & H). unfold lift in Hw. inversion Hw as [[Hw' Hs0]]. subst s0.
  apply mbind_ok in H. destruct H as (u1 & s0 & Hset & H). unfold set_client in Hset. inversion Hset; subst u1 s0.
  apply mbind_ok in H. destruct H as (u2 & s1 & Hmd & H). destruct u2.
  apply mbind_ok in H. destruct H as (c1 & s1' & Hc1 & H). unfold get_client in Hc1. inversion Hc1; subst c1 s1'.
  apply mbind_ok in H. destruct H as (subs & s1' & Hsubs & H). unfold lift in Hsubs. inversion Hsubs as [[Hsubs' Hs1]]. subst s1'.
  apply mbind_ok in H. destruct H as (consumed & s2 & Hcons & H).
  apply mbind_ok in H. destruct H as (fetch & s3 & Hfetch & H).
  apply mbind_ok in H. destruct H as (c2 & s3' & Hc2 & H). unfold ret in H. inversion H; subst k s'. clear H.
  cbn [k_assign k_consumed k_fetch].
  pose proof (C19_builder_keys_distinct src calls) as Hnd. fold b in Hnd.
  destruct (C19_from_map_sorted _ Hnd) as (Hsorted & _ & Hkeys & _).
  pose proof (subscriptions_of_in _ _ _ Hsubs') as Hsin.
  pose proof (load_fetch_states_keys _ _ _ _ _ _ _ Hfetch) as Hfk.
  (* membership of the created consumer's set, in terms of subs *)
  assert (Hasg : forall t p, assigned
             {| k_client := c2; k_group := cb_group b; k_fallback := cb_fallback b; k_retry_limit := cb_retry_limit b;
                k_assign := from_map (cb_assign b); k_fetch := fetch; k_retry := []; k_consumed := consumed |} t p
             <-> exists ps, In (t, ps) subs /\ In p ps).
  { intros t p. unfold assigned. cbn [k_assign k_fetch]. split.
    - intros (r & Hr & Hg). apply Hfk in Hg. destruct Hg as (t' & ps & Hin & Hr' & Hp).
      assert (t' = t) by (eapply topic_ref_inj; eassumption). subst t'. eauto.
    - intros (ps & Hin & Hp). pose proof Hin as Hin'. apply Hsin in Hin'. destruct Hin' as (req & Hreq & _).
      destruct (C19_lookup_found _ (from_map (cb_assign b)) t Hsorted) as (r & v & Hr & _).
      { apply in_map_iff. exists (t, req). split; [reflexivity|exact Hreq]. }
      exists r. split; [exact Hr|]. apply Hfk. eauto. }
  exists wait, s1, subs, s2, s3.
  split; [exact Hw'|]. split; [exact Hmd|]. split; [reflexivity|]. split; [exact Hsorted|].
  split; [|split; [|split; [exact Hcons|split; [|split; [|exact Hfetch]]]]].
  - (* existence *)
    intros t req Hreq. apply assoc_bytes_in_nodup in Hreq; [|exact Hnd].
    assert (Hin : In (t, sort_dedup req) (from_map (cb_assign b))) by (apply from_map_in; [exact Hnd|eauto]).
    destruct (subscriptions_of_cases (cs (cl s1)) (from_map (cb_assign b))) as [(subs' & _ & Hall)|(He & _)];
      [|rewrite He in Hsubs'; discriminate].
    destruct (Hall _ Hin) as (ps & Hps). eapply determine_ok_range. exact Hps.
  - (* exact set *)
    intros t p. rewrite Hasg. split.
    + intros (ps & Hin & Hp). apply Hsin in Hin. destruct Hin as (req' & Hreq' & Hd).
      apply from_map_in in Hreq'; [|exact Hnd]. destruct Hreq' as (req & Hreq & ->).
      apply (determine_in _ _ _ _ p Hd) in Hp. destruct Hp as (avail & Ha & Hr & Hq).
      exists req, avail. split; [apply assoc_bytes_in_nodup; assumption|auto].
    + intros (req & avail & Hreq & Ha & Hr & Hq). apply assoc_bytes_in_nodup in Hreq; [|exact Hnd].
      assert (Hin : In (t, sort_dedup req) (from_map (cb_assign b))) by (apply from_map_in; [exact Hnd|eauto]).
      destruct (subscriptions_of_cases (cs (cl s1)) (from_map (cb_assign b))) as [(subs' & _ & Hall)|(He & _)];
        [|rewrite He in Hsubs'; discriminate].
      destruct (Hall _ Hin) as (ps & Hps). exists ps. split; [apply Hsin; eauto|].
      apply (determine_in _ _ _ _ p Hps). eauto.
  - intros t p. rewrite subs_pairs_in. symmetry. apply Hasg.
  - destruct (C19_subscriptions_of _ _ _ Hsubs') as [Hfst _]. rewrite Hfst.
    clear - Hsorted. induction Hsorted as [|a l Hs IH Hall]; cbn [map]; constructor; [|exact IH].
    intros Hin. apply in_map_iff in Hin. destruct Hin as (x & Hx & Hin). rewrite Forall_forall in Hall.
    specialize (Hall x Hin). unfold topic_lt in Hall. rewrite Hx in Hall. rewrite bytes_cmp_refl in Hall. discriminate.
Qed.

(* non-vacuity: a group-less consumer built from a client whose metadata lists a (3 partitions, the
   middle one leaderless) and b (1 partition).  with_topic a after with_topic_partitions a [1]
   widens to the whole topic; b [0;0] is de-duplicated.  One broker answers the single offset
   request for a:0, a:2, b:0 (the leaderless a:1 is not asked for and still is consumed). *)
Definition ex_md_client : client :=
  {| cfg := default_config [tag "h:9092"];
     cs := {| correlation := 0; brokers := [{| b_node := 1; b_host := tag "h:9092" |}];
              topic_partitions := [(tag "a", [0; 4294967295; 0]); (tag "b", [0])]; group_coordinators := [] |};
     conns := [] |}.
Definition ex_part (p o : Z) : bytes := enc_i32 p ++ enc_i16 0 ++ enc_i32 1 ++ enc_i64 o.
Definition ex_offsets_reply : bytes :=
  enc_i32 1 ++ enc_i32 2
  ++ enc_i16 1 ++ tag "a" ++ enc_i32 2 ++ ex_part 0 5 ++ ex_part 2 7
  ++ enc_i16 1 ++ tag "b" ++ enc_i32 1 ++ ex_part 0 9.
Definition ex_create_st : st :=
  {| script := [OConn true; OWrote 1000; OData (enc_i32 (ulen ex_offsets_reply)); OData ex_offsets_reply];
     trace := []; anyq := []; hostq := []; fetchq := []; entryq := []; cl := ex_md_client;
     env := {| gz_compress := fun b => b; sn_compress := fun b => b; gz_decompress := fun b => Some b;
              debug_build := true |} |}.
Definition ex_create_calls : list cbuilder_call :=
  [CWithTopicPartitions (tag "a") [1]; CWithTopicPartitions (tag "b") [0; 0]; CWithTopic (tag "a")].

Example C19_create_exact_ex :
  match fst (consumer_create (inr ex_md_client) ex_create_calls ex_create_st) with
  | Ok k => k_fetch k = [((0, 0), (5, 32768)); ((0, 1), (-1, 32768)); ((0, 2), (7, 32768)); ((1, 0), (9, 32768))]
            /\ subscriptions k = [(tag "a", [0; 1; 2]); (tag "b", [0])]
  | _ => False
  end.
Proof. vm_compute. split; reflexivity. Qed.

(* ================================================================================== *)
(* 2. consumer_create fails with unknown-topic-or-partition                           *)
(* ================================================================================== *)

(* if, in the metadata in force after the metadata step, an assigned topic does not exist, or
   one of the explicitly assigned partition ids does not exist, creation fails with
   unknown-topic-or-partition - before any offset is loaded (the state is that of the metadata step) *)
Theorem C19_create_unknown : forall src calls s wait s1 t req,
  let b := fold_left cbuilder_apply calls (cbuilder_new src) in
  to_millis_i32 (cb_max_wait b) = Ok wait ->
  create_metadata src (create_start src calls s wait) = (Ok tt, s1) ->
  assoc_bytes t (cb_assign b) = Some req ->
  (partitions_for (cs (cl s1)) t = None
   \/ exists avail, partitions_for (cs (cl s1)) t = Some avail /\ Exists (fun p => p < 0 \/ ulen avail <= p) req) ->
  consumer_create src calls s = (Err (EKafka KC_UnknownTopicOrPartition), s1).
Proof.
  intros src calls s wait s1 t req b Hw Hmd Hreq Hbad.
  pose proof (C19_builder_keys_distinct src calls) as Hnd. fold b in Hnd.
  assert (Hne : cb_assign b <> []) by (intros E; rewrite E in Hreq; discriminate).
  pose proof (C16_consumer_create_config src calls s wait) as Hcfg. cbv zeta in Hcfg. fold b in Hcfg.
  rewrite (Hcfg Hne Hw). clear Hcfg.
  unfold consumer_create_rest. unfold create_metadata, create_start in Hmd. fold b in Hmd.
  unfold mbind at 1. rewrite Hmd. unfold mbind at 1. unfold get_client at 1. unfold mbind at 1. unfold lift at 1.
  apply assoc_bytes_in_nodup in Hreq; [|exact Hnd].
  assert (Hin : In (t, sort_dedup req) (from_map (cb_assign b))) by (apply from_map_in; [exact Hnd|eauto]).
  assert (Herr : determine_partitions (cs (cl s1)) (t, sort_dedup req) = Err (EKafka KC_UnknownTopicOrPartition)).
  { destruct Hbad as [Hn|(avail & Ha & Hex)].
    - apply C19_determine_unknown_topic. exact Hn.
    - eapply C19_determine_out_of_range; [exact Ha|]. apply Exists_exists in Hex. destruct Hex as (p & Hp & Hr).
      apply Exists_exists. exists p. split; [apply sort_dedup_spec; exact Hp|exact Hr]. }
  destruct (subscriptions_of_cases (cs (cl s1)) (from_map (cb_assign b))) as [(subs' & _ & Hall)|(He & _)].
  - destruct (Hall _ Hin) as (ps & Hps). rewrite Hps in Herr. discriminate.
  - rewrite He. reflexivity.
Qed.

Example C19_create_unknown_ex :
  let s := ex_create_st in
  consumer_create (inr ex_md_client) [CWithTopic (tag "a"); CWithTopicPartitions (tag "b") [0; 1]] s
  = (Err (EKafka KC_UnknownTopicOrPartition), create_start (inr ex_md_client) [CWithTopic (tag "a"); CWithTopicPartitions (tag "b") [0; 1]] s 100)
  /\ fst (consumer_create (inr ex_md_client) [CWithTopic (tag "a"); CWithTopic (tag "c")] s)
     = Err (EKafka KC_UnknownTopicOrPartition)
  /\ fst (consumer_create (inr ex_md_client) [CWithTopicPartitions (tag "a") [2; -1]] s)
     = Err (EKafka KC_UnknownTopicOrPartition).
Proof. vm_compute. repeat split. Qed.

(* ================================================================================== *)
(* 3. the set never changes: poll                                                     *)
(* ================================================================================== *)

Lemma tk_set_keys_present {V} (tp key : tpkey) (v : V) m :
  tk_get tp m <> None -> (tk_get key (tk_set tp v m) <> None <-> tk_get key m <> None).
Proof.
  intros Hp. destruct (tpkey_eq_dec key tp) as [E|E].
  - subst key. rewrite tk_get_set_same. split; [intros _; exact Hp|intros _; discriminate].
  - rewrite tk_get_set_other by exact E. reflexivity.
Qed.

(* same key set; every queued retry is an old one or a key of the set *)
Definition pkeys (s s' : pstate) : Prop :=
  (forall key, tk_get key (ps_fetch s') <> None <-> tk_get key (ps_fetch s) <> None)
  /\ (forall tp, In tp (ps_retry s') -> In tp (ps_retry s) \/ tk_get tp (ps_fetch s) <> None).

Lemma pkeys_refl s : pkeys s s.
Proof. split; [reflexivity|intros tp H; left; exact H]. Qed.
Lemma pkeys_trans s1 s2 s3 : pkeys s1 s2 -> pkeys s2 s3 -> pkeys s1 s3.
Proof.
  intros [A1 B1] [A2 B2]. split.
  - intros key. rewrite A2. apply A1.
  - intros tp H. destruct (B2 tp H) as [H2|H2]; [apply B1; exact H2|right; apply A1; exact H2].
Qed.

Definition pres_keys (s : pstate) (x : pres) : Prop :=
  match x with POk s' => pkeys s s' | PErr _ s' => pkeys s s' | PPanic _ => True end.

Lemma process_partition_keys dbg single n cm limit r p s :
  pres_keys s (process_partition dbg single n cm limit r p s).
Proof.
  unfold process_partition. destruct (fp_data p) as [[hw msgs]|c]; [|apply pkeys_refl].
  destruct (tk_get (r, fp_partition p) (ps_fetch s)) as [[off maxb]|] eqn:Eg; [|exact I].
  assert (Hp : tk_get (r, fp_partition p) (ps_fetch s) <> None) by (rewrite Eg; discriminate).
  destruct (last_msg msgs) as [m|].
  - destruct (i64_op dbg (m_offset m + 1)) as [off'|e|w]; [|apply pkeys_refl|exact I].
    split; cbn [ps_fetch ps_retry].
    + intros key. apply tk_set_keys_present. exact Hp.
    + intros tp H. left. exact H.
  - destruct (off <? hw); [|apply pkeys_refl].
    destruct (maxb <? limit).
    + split; cbn [ps_fetch ps_retry].
      * intros key. apply tk_set_keys_present. exact Hp.
      * intros tp H. destruct single; [left; exact H|]. apply in_app_or in H.
        destruct H as [H|[H|[]]]; [left; exact H|subst tp; right; exact Hp].
    + destruct (n =? 1); [apply pkeys_refl|]. split; cbn [ps_fetch ps_retry]; [reflexivity|].
      intros tp H. destruct single; [left; exact H|]. apply in_app_or in H.
      destruct H as [H|[H|[]]]; [left; exact H|subst tp; right; exact Hp].
Qed.

Lemma process_parts_keys dbg single n cm limit r : forall ps s,
  pres_keys s (process_parts dbg single n cm limit r ps s).
Proof.
  induction ps as [|p rest IH]; intros s; cbn [process_parts]; [apply pkeys_refl|].
  pose proof (process_partition_keys dbg single n cm limit r p s) as H1.
  destruct (process_partition dbg single n cm limit r p s) as [s1|e s1|w]; [|exact H1|exact I].
  specialize (IH s1). cbn [pres_keys] in H1.
  destruct (process_parts dbg single n cm limit r rest s1) as [s2|e s2|w]; cbn [pres_keys] in *;
    [eapply pkeys_trans; eassumption|eapply pkeys_trans; eassumption|exact I].
Qed.

Lemma process_topics_keys dbg single n cm limit asg : forall ts s,
  pres_keys s (process_topics dbg single n cm limit asg ts s).
Proof.
  induction ts as [|t rest IH]; intros s; cbn [process_topics]; [apply pkeys_refl|].
  destruct (topic_ref asg (ft_topic t)) as [r|]; [|exact I].
  pose proof (process_parts_keys dbg single n cm limit r (ft_partitions t) s) as H1.
  destruct (process_parts dbg single n cm limit r (ft_partitions t) s) as [s1|e s1|w]; [|exact H1|exact I].
  specialize (IH s1). cbn [pres_keys] in H1.
  destruct (process_topics dbg single n cm limit asg rest s1) as [s2|e s2|w]; cbn [pres_keys] in *;
    [eapply pkeys_trans; eassumption|eapply pkeys_trans; eassumption|exact I].
Qed.

(* the consumer after k has the same table, the same key set (hence the same consumed set),
   and every queued retry is an old one or a member of the set *)
Definition same_set (k k' : consumer) : Prop :=
  k_assign k' = k_assign k
  /\ (forall key, tk_get key (k_fetch k') <> None <-> tk_get key (k_fetch k) <> None)
  /\ (forall tp, In tp (k_retry k') -> In tp (k_retry k) \/ tk_get tp (k_fetch k) <> None).

Lemma same_set_refl k : same_set k k.
Proof. split; [reflexivity|]. split; [reflexivity|intros tp H; left; exact H]. Qed.

Lemma same_set_assigned k k' : same_set k k' -> forall t p, assigned k' t p <-> assigned k t p.
Proof.
  intros (Ha & Hk & _) t p. unfold assigned. rewrite Ha. split; intros (r & Hr & Hg); exists r; (split; [exact Hr|]);
    apply Hk; exact Hg.
Qed.

(* whatever the brokers answer (any decoded responses, errors, early returns, panics), processing a
   poll's responses never adds or removes a partition: the consumed set after is the set before,
   the marks are untouched *)
Theorem C19_poll_keeps_set : forall dbg k n resps,
  let k' := snd (process_fetch_responses dbg k n resps) in
  same_set k k' /\ k_consumed k' = k_consumed k /\ k_group k' = k_group k /\ k_client k' = k_client k
  /\ forall t p, assigned k' t p <-> assigned k t p.
Proof.
  intros dbg k n resps k'.
  assert (H : same_set k k' /\ k_consumed k' = k_consumed k /\ k_group k' = k_group k /\ k_client k' = k_client k).
  { subst k'. unfold process_fetch_responses.
    destruct (first_error resps) as [c|]; [cbn [snd]; split; [apply same_set_refl|auto]|].
    match goal with |- context [process_topics ?a ?b ?c ?d ?e ?f ?g ?h] =>
      pose proof (process_topics_keys a b c d e f g h) as Hk;
      destruct (process_topics a b c d e f g h) as [s1|e1 s1|w] end;
      cbn [snd pres_keys] in *; [| |split; [apply same_set_refl|auto]].
    - destruct Hk as [A B]. cbn [ps_fetch ps_retry] in A, B. unfold consumer_with, same_set.
      cbn [k_assign k_fetch k_retry k_consumed k_group k_client]. auto.
    - destruct Hk as [A B]. cbn [ps_fetch ps_retry] in A, B. unfold consumer_with, same_set.
      cbn [k_assign k_fetch k_retry k_consumed k_group k_client]. auto. }
  destruct H as (H1 & H2 & H3 & H4). repeat (split; [assumption|]). apply same_set_assigned. exact H1.
Qed.

(* the consumer's own fetch step only pops the retry queue *)
Lemma consumer_fetch_ok k s n r k1 s1 :
  consumer_fetch k s = (Ok (n, r, k1), s1) ->
  k_assign k1 = k_assign k /\ k_fetch k1 = k_fetch k /\ k_consumed k1 = k_consumed k /\ k_group k1 = k_group k
  /\ (forall tp, In tp (k_retry k1) -> In tp (k_retry k)).
Proof.
  unfold consumer_fetch. destruct (k_retry k) as [|tp rest] eqn:Er.
  - intros H. apply mbind_ok in H. destruct H as (r0 & s0 & _ & H). unfold ret in H. inversion H; subst.
    rewrite Er. repeat split; auto.
  - destruct (tk_get tp (k_fetch k)) as [[off maxb]|].
    + intros H. apply mbind_ok in H. destruct H as (r0 & s0 & _ & H). unfold ret in H. inversion H; subst.
      unfold consumer_with. cbn [k_assign k_fetch k_retry k_consumed k_group]. repeat split; auto.
      intros tp' Hin. right. exact Hin.
    + intros H. unfold ret in H. inversion H; subst.
      unfold consumer_with. cbn [k_assign k_fetch k_retry k_consumed k_group]. repeat split; auto.
      intros tp' Hin. right. exact Hin.
Qed.

(* a whole poll (request, I/O, response processing): same consumed set afterwards *)
Theorem C19_consumer_poll_keeps_set : forall k s r k' s',
  consumer_poll k s = (Ok (r, k'), s') ->
  same_set k k' /\ k_consumed k' = k_consumed k /\ k_group k' = k_group k
  /\ forall t p, assigned k' t p <-> assigned k t p.
Proof.
  intros k s r k' s' H. unfold consumer_poll in H.
  apply mbind_ok in H. destruct H as ([[n r0] k1] & s1 & Hf & H).
  apply mbind_ok in H. destruct H as (c & s2 & _ & H).
  apply mbind_ok in H. destruct H as (e & s3 & _ & H).
  destruct (consumer_fetch_ok _ _ _ _ _ _ Hf) as (Ha & Hfe & Hc & Hg & Hr).
  assert (Hs1 : same_set k (consumer_with_client k1 c)).
  { unfold same_set, consumer_with_client. cbn [k_assign k_fetch k_retry]. rewrite Ha, Hfe.
    split; [reflexivity|]. split; [reflexivity|]. intros tp Hin. left. apply Hr. exact Hin. }
  assert (Hfin : same_set k k' /\ k_consumed k' = k_consumed k /\ k_group k' = k_group k).
  { destruct r0 as [resps|er|w].
    - unfold ret in H. inversion H as [[Hp Hs]].
      pose proof (C19_poll_keeps_set (debug_build e) (consumer_with_client k1 c) n resps) as Hk. cbv zeta in Hk.
      rewrite Hp in Hk. cbn [snd] in Hk. destruct Hk as ((A1 & A2 & A3) & B & C & _).
      destruct Hs1 as (S1 & S2 & S3).
      split; [|split].
      + split; [rewrite A1; exact S1|]. split.
        * intros key. rewrite A2. apply S2.
        * intros tp Hin. destruct (A3 tp Hin) as [Hl|Hl]; [apply S3; exact Hl|right; apply S2; exact Hl].
      + rewrite B. exact Hc.
      + rewrite C. exact Hg.
    - unfold ret in H. inversion H; subst. split; [exact Hs1|]. split; [exact Hc|exact Hg].
    - unfold mpanic in H. discriminate. }
  destruct Hfin as (F1 & F2 & F3). repeat (split; [assumption|]). apply same_set_assigned. exact F1.
Qed.

Example C19_poll_keeps_set_ex :
  let resp := {| fr_corr := 0; fr_topics :=
                 [{| ft_topic := tag "a"; ft_partitions :=
                     [{| fp_partition := 1; fp_data := inl (100, [{| m_offset := 41; m_key := []; m_value := [] |}]) |};
                      {| fp_partition := 0; fp_data := inl (100, []) |}] |}] |} in
  let k' := snd (process_fetch_responses true ex_consumer 3 [resp]) in
  k_fetch k' = [((0, 0), (10, 4096)); ((0, 1), (42, 32768)); ((1, 0), (30, 4096))]
  /\ k_retry k' = [(0, 0)] /\ map fst (k_fetch k') = map fst (k_fetch ex_consumer).
Proof. vm_compute. repeat split. Qed.

(* ================================================================================== *)
(* 4. the invariant of a consumer; fetches and commits only name members of the set    *)
(* ================================================================================== *)

(* - the table is strictly sorted (so names and references correspond one to one),
   - every fetch-state key refers into the table,
   - every dirty mark (what the next commit sends) belongs to a fetch-state key,
   - every queued retry belongs to a fetch-state key. *)
Definition C19_inv (k : consumer) : Prop :=
  strictly_sorted (k_assign k)
  /\ (forall r p, tk_get (r, p) (k_fetch k) <> None -> 0 <= r < ulen (k_assign k))
  /\ (forall key o, In (key, (o, true)) (k_consumed k) -> tk_get key (k_fetch k) <> None)
  /\ (forall tp, In tp (k_retry k) -> tk_get tp (k_fetch k) <> None).

Lemma tk_set_in_inv {V} (key0 : tpkey) (v0 : V) : forall m key v,
  In (key, v) (tk_set key0 v0 m) -> (key = key0 /\ v = v0) \/ In (key, v) m.
Proof.
  induction m as [|[k1 v1] m IH]; intros key v Hin; cbn [tk_set] in Hin.
  - destruct Hin as [H|[]]. inversion H. left. auto.
  - destruct (tpkey_eqb k1 key0) eqn:E.
    + destruct Hin as [H|H]; [inversion H; subst; apply tpkey_eqb_eq in E; left; auto|right; right; exact H].
    + destruct Hin as [H|H]; [right; left; exact H|].
      destruct (IH _ _ H) as [Hl|Hr]; [left; exact Hl|right; right; exact Hr].
Qed.

Lemma tk_get_in {V} (key : tpkey) : forall (m : list (tpkey * V)),
  tk_get key m <> None <-> exists v, In (key, v) m.
Proof.
  induction m as [|[k1 v1] m IH]; cbn [tk_get In].
  - split; [intros H; congruence|intros (v & [])].
  - destruct (tpkey_eqb k1 key) eqn:E.
    + apply tpkey_eqb_eq in E. subst k1. split; [intros _; exists v1; left; reflexivity|intros _; discriminate].
    + apply tpkey_eqb_neq in E. rewrite IH. split.
      * intros (v & H). exists v. right. exact H.
      * intros (v & [H|H]); [inversion H; congruence|eauto].
Qed.

(* loading the committed offsets only produces clean marks *)
Lemma consumed_parts_clean dbg r : forall pos m m',
  consumed_parts dbg r pos m = Ok m' ->
  (forall key o, ~ In (key, (o, true)) m) -> forall key o, ~ In (key, (o, true)) m'.
Proof.
  induction pos as [|[p off] rest IH]; intros m m' H Hc; cbn [consumed_parts] in H.
  - inversion H; subst. exact Hc.
  - destruct (off =? -1); [eapply IH; eassumption|].
    apply bind_ok in H. destruct H as (o1 & _ & H). eapply IH; [exact H|].
    intros key o Hin. apply tk_set_in_inv in Hin. destruct Hin as [[_ E]|Hin]; [discriminate|]. eapply Hc. exact Hin.
Qed.
Lemma consumed_topics_clean dbg asg : forall tpos m m',
  consumed_topics dbg asg tpos m = Ok m' ->
  (forall key o, ~ In (key, (o, true)) m) -> forall key o, ~ In (key, (o, true)) m'.
Proof.
  induction tpos as [|[t pos] rest IH]; intros m m' H Hc; cbn [consumed_topics] in H.
  - inversion H; subst. exact Hc.
  - destruct pos as [|p0 pr]; [eapply IH; eassumption|].
    destruct (forallb _ (p0 :: pr)); [eapply IH; eassumption|].
    destruct (topic_ref asg t) as [r|]; [|discriminate].
    apply bind_ok in H. destruct H as (m1 & H1 & H). eapply IH; [exact H|].
    eapply consumed_parts_clean; eassumption.
Qed.
Lemma load_consumed_offsets_clean group asg subs s consumed s' :
  load_consumed_offsets group asg subs s = (Ok consumed, s') -> forall key o, ~ In (key, (o, true)) consumed.
Proof.
  unfold load_consumed_offsets. destruct group as [|g0 g].
  - intros H. unfold ret in H. inversion H; subst. intros key o [].
  - intros H. apply mbind_ok in H. destruct H as (tpos & s1 & _ & H).
    apply mbind_ok in H. destruct H as (e & s2 & _ & H). unfold lift in H. inversion H as [[Hc Hs]].
    eapply consumed_topics_clean; [exact Hc|]. intros key o [].
Qed.

(* a freshly created consumer satisfies the invariant *)
Theorem C19_create_inv : forall src calls s k s',
  consumer_create src calls s = (Ok k, s') -> C19_inv k /\ k_retry k = [].
Proof.
  intros src calls s k s' H.
  destruct (C16_consumer_create_uses _ _ _ _ _ H) as (_ & _ & _ & _ & Hretry & _).
  destruct (C19_create_exact _ _ _ _ _ H) as (wait & s1 & subs & s2 & s3 & _ & _ & _ & Hsorted & _ & _ & Hcons & _ & _ & Hfetch).
  split; [|exact Hretry]. split; [exact Hsorted|]. split; [|split].
  - intros r p Hg. apply (load_fetch_states_keys _ _ _ _ _ _ _ Hfetch) in Hg.
    destruct Hg as (t & ps & _ & Hr & _). apply topic_ref_some in Hr. destruct Hr as (v & Hv).
    eapply nth_z_range. exact Hv.
  - intros key o Hin. exfalso. eapply load_consumed_offsets_clean; eassumption.
  - rewrite Hretry. intros tp [].
Qed.

(* ... and every operation of the consumer keeps it, together with the consumed set *)
Theorem C19_inv_seek : forall k t p off k',
  C19_inv k -> consumer_seek k t p off = Ok k' -> C19_inv k' /\ forall t' p', assigned k' t' p' <-> assigned k t' p'.
Proof.
  intros k t p off k' (I1 & I2 & I3 & I4) H. apply C19_seek_assigned in H.
  destruct H as (r & old & maxb & Hr & Hold & Hnew & Hoth & Hc & Ha & Hre & _).
  assert (Hkeys : forall key, tk_get key (k_fetch k') <> None <-> tk_get key (k_fetch k) <> None).
  { intros key. destruct (tpkey_eq_dec key (r, p)) as [E|E].
    - subst key. rewrite Hnew, Hold. split; intros _; discriminate.
    - rewrite (Hoth key E). reflexivity. }
  split.
  - split; [rewrite Ha; exact I1|]. split; [|split].
    + intros r0 p0 Hg. rewrite Ha. apply (I2 r0 p0). apply Hkeys. exact Hg.
    + intros key o Hin. rewrite Hc in Hin. apply Hkeys. eapply I3. exact Hin.
    + intros tp Hin. rewrite Hre in Hin. apply Hkeys. apply I4. exact Hin.
  - apply same_set_assigned. split; [exact Ha|]. split; [exact Hkeys|]. intros tp Hin. left. rewrite <- Hre. exact Hin.
Qed.

Theorem C19_inv_consume : forall k t p off k',
  C19_inv k -> consume_message k t p off = Ok k' -> C19_inv k' /\ forall t' p', assigned k' t' p' <-> assigned k t' p'.
Proof.
  intros k t p off k' (I1 & I2 & I3 & I4) H.
  destruct (C19_consume_assigned _ _ _ _ _ H) as (r & Hr & Hg & _ & Hf & Ha & Hre & _).
  destruct (consume_spec _ _ _ _ _ H) as (r' & Hr' & _ & _ & Hkey).
  rewrite Hr in Hr'. inversion Hr'; subst r'.
  assert (Hdirty : forall key o, In (key, (o, true)) (k_consumed k') -> tk_get key (k_fetch k) <> None).
  { assert (Hset : k_consumed k' = tk_set (r, p) (off, true) (k_consumed k) ->
                   forall key o, In (key, (o, true)) (k_consumed k') -> tk_get key (k_fetch k) <> None).
    { intros E key o Hin. rewrite E in Hin. apply tk_set_in_inv in Hin.
      destruct Hin as [[Ek _]|Hin]; [subst key; exact Hg|eapply I3; exact Hin]. }
    destruct (tk_get (r, p) (k_consumed k)) as [[o0 d0]|]; [|exact (Hset Hkey)].
    destruct (o0 <? off); [exact (Hset Hkey)|]. subst k'. exact I3. }
  split.
  - split; [rewrite Ha; exact I1|]. rewrite Hf, Ha, Hre. split; [exact I2|]. split; [exact Hdirty|exact I4].
  - apply same_set_assigned. split; [exact Ha|]. rewrite Hf, Hre. split; [reflexivity|]. intros tp Hin. left. exact Hin.
Qed.

Theorem C19_inv_poll : forall dbg k n resps,
  C19_inv k -> C19_inv (snd (process_fetch_responses dbg k n resps)).
Proof.
  intros dbg k n resps (I1 & I2 & I3 & I4).
  destruct (C19_poll_keeps_set dbg k n resps) as ((Ha & Hk & Hr) & Hc & _).
  split; [rewrite Ha; exact I1|]. split; [|split].
  - intros r p Hg. rewrite Ha. apply (I2 r p). apply Hk. exact Hg.
  - intros key o Hin. rewrite Hc in Hin. apply Hk. eapply I3. exact Hin.
  - intros tp Hin. apply Hk. destruct (Hr tp Hin) as [Hl|Hl]; [apply I4; exact Hl|exact Hl].
Qed.

Theorem C19_inv_consumer_poll : forall k s r k' s',
  C19_inv k -> consumer_poll k s = (Ok (r, k'), s') -> C19_inv k'.
Proof.
  intros k s r k' s' (I1 & I2 & I3 & I4) H.
  destruct (C19_consumer_poll_keeps_set _ _ _ _ _ H) as ((Ha & Hk & Hr) & Hc & _).
  split; [rewrite Ha; exact I1|]. split; [|split].
  - intros r0 p Hg. rewrite Ha. apply (I2 r0 p). apply Hk. exact Hg.
  - intros key o Hin. rewrite Hc in Hin. apply Hk. eapply I3. exact Hin.
  - intros tp Hin. apply Hk. destruct (Hr tp Hin) as [Hl|Hl]; [apply I4; exact Hl|exact Hl].
Qed.

Theorem C19_inv_commit : forall k s k' s',
  C19_inv k -> commit_consumed k s = (Ok k', s') -> C19_inv k' /\ forall t p, assigned k' t p <-> assigned k t p.
Proof.
  intros k s k' s' (I1 & I2 & I3 & I4) H. destruct (commit_consumed_ok _ _ _ _ H) as (Hc & Hf & Ha & _ & Hre & _).
  split.
  - split; [rewrite Ha; exact I1|]. rewrite Hf, Ha, Hre. split; [exact I2|]. split; [|exact I4].
    intros key o Hin. exfalso. rewrite Hc in Hin. apply in_map_iff in Hin.
    destruct Hin as ([key0 [o0 d0]] & He & _). inversion He.
  - apply same_set_assigned. split; [exact Ha|]. rewrite Hf, Hre. split; [reflexivity|]. intros tp Hin. left. exact Hin.
Qed.

(* references and names correspond under the invariant *)
Lemma inv_key_assigned k r p :
  C19_inv k -> tk_get (r, p) (k_fetch k) <> None ->
  topic_ref (k_assign k) (topic_name k r) = Some r /\ assigned k (topic_name k r) p.
Proof.
  intros (I1 & I2 & _) Hg. destruct (nth_z_in_range (k_assign k) r (I2 r p Hg)) as ([t ps] & Hn).
  assert (Hr : topic_ref (k_assign k) (topic_name k r) = Some r).
  { unfold topic_name. rewrite Hn. eapply C19_lookup_unique; eassumption. }
  split; [exact Hr|]. exists r. auto.
Qed.

(* ---- commits ---------------------------------------------------------------------- *)
Lemma take_entry_in key : forall l x r,
  take_entry key l = Some (x, r) -> In x l /\ forall y, In y r -> In y l.
Proof.
  induction l as [|[[t p] o] l IH]; intros x r H; cbn [take_entry] in H; [discriminate|].
  destruct (bytes_eqb t (fst key) && (p =? snd key)).
  - inversion H; subst. split; [left; reflexivity|intros y Hy; right; exact Hy].
  - destruct (take_entry key l) as [[x' r']|] eqn:E; [|discriminate]. inversion H; subst.
    destruct (IH _ _ eq_refl) as [H1 H2]. split; [right; exact H1|].
    intros y [Hy|Hy]; [left; exact Hy|right; apply H2; exact Hy].
Qed.
Lemma reorder_entries_in : forall order l x, In x (reorder_entries order l) -> In x l.
Proof.
  induction order as [|key ks IH]; intros l x H; cbn [reorder_entries] in H; [exact H|].
  destruct (take_entry key l) as [[x' r']|] eqn:E; [|apply IH; exact H].
  destruct (take_entry_in _ _ _ _ E) as [H1 H2].
  destruct H as [H|H]; [subst x'; exact H1|apply H2; apply IH; exact H].
Qed.
Lemma commit_entries_in dbg : forall es os, commit_entries dbg es = Ok os ->
  forall c, In c os -> exists o, In (co_topic c, co_partition c, o) es.
Proof.
  induction es as [|[[t p] o] es IH]; intros os H c Hin; cbn [commit_entries] in H.
  - inversion H; subst. destruct Hin.
  - apply bind_ok in H. destruct H as (o1 & _ & H). apply bind_ok in H. destruct H as (rest & Hr & H).
    inversion H; subst os. destruct Hin as [Hc|Hin].
    + subst c. cbn [co_topic co_partition]. exists o. left. reflexivity.
    + destruct (IH _ Hr c Hin) as (o' & Ho'). exists o'. right. exact Ho'.
Qed.

(* what commit_consumed hands to KafkaClient::commit_offsets - for every iteration order of the
   dirty entries, in debug and release builds - only names members of the consumed set *)
Theorem C19_commit_only_assigned : forall k dbg order os,
  C19_inv k ->
  commit_entries dbg (reorder_entries order (dirty_entries k)) = Ok os ->
  Forall (fun c => assigned k (co_topic c) (co_partition c)) os.
Proof.
  intros k dbg order os Hinv H. apply Forall_forall. intros c Hin.
  destruct (commit_entries_in _ _ _ H c Hin) as (o & Ho). apply reorder_entries_in in Ho.
  apply dirty_entries_in in Ho. destruct Ho as (r & Hd & Ht). rewrite Ht.
  pose proof Hinv as (_ & _ & I3 & _).
  apply (inv_key_assigned k r (co_partition c) Hinv). eapply I3. exact Hd.
Qed.

(* the dirty set itself: marking is the only way in, and it demands membership *)
Corollary C19_dirty_only_assigned : forall k t p o,
  C19_inv k -> In (t, p, o) (dirty_entries k) -> assigned k t p.
Proof.
  intros k t p o Hinv Hin. apply dirty_entries_in in Hin. destruct Hin as (r & Hd & ->).
  pose proof Hinv as (_ & _ & I3 & _). apply (inv_key_assigned k r p Hinv). eapply I3. exact Hd.
Qed.

(* the invariant is needed: a consumer state with a dirty mark outside the fetch states (the state
   the round-two seed produces) does commit a foreign partition *)
Example C19_commit_needs_inv_ex :
  let k := {| k_client := client_new [tag "h:9092"]; k_group := tag "g"; k_fallback := FbLatest; k_retry_limit := 0;
              k_assign := [(tag "a", [])]; k_fetch := [((0, 0), (10, 4096))]; k_retry := [];
              k_consumed := [((0, 0), (9, true)); ((0, 7), (500, true))] |} in
  commit_entries true (reorder_entries [] (dirty_entries k))
  = Ok [{| co_topic := tag "a"; co_partition := 0; co_offset := 10 |};
        {| co_topic := tag "a"; co_partition := 7; co_offset := 501 |}]
  /\ consume_message k (tag "a") 7 600 = Err (EKafka KC_UnknownTopicOrPartition).
Proof. vm_compute. split; reflexivity. Qed.

Example C19_commit_only_assigned_ex :
  match consume_message ex_consumer (tag "b") 0 31 with
  | Ok k => commit_entries true (reorder_entries [(tag "b", 0)] (dirty_entries k))
            = Ok [{| co_topic := tag "b"; co_partition := 0; co_offset := 32 |}]
  | _ => False
  end.
Proof. vm_compute. reflexivity. Qed.

(* ---- fetches ------------------------------------------------------------------------ *)
(* what a poll without pending retry hands to KafkaClient::fetch_messages *)
Definition fetch_all_input (k : consumer) : list fetch_partition :=
  map (fun '((tr, p), (off, maxb)) =>
         {| fq_topic := topic_name k tr; fq_partition := p; fq_offset := off; fq_max_bytes := maxb |}) (k_fetch k).

Lemma consumer_fetch_all k : k_retry k = [] ->
  consumer_fetch k = (let+ r := mtry (fetch_messages (fetch_all_input k)) in ret (ulen (k_fetch k), r, k)).
Proof. intros Hr. unfold consumer_fetch. rewrite Hr. reflexivity. Qed.

(* it names every member of the consumed set, and nothing else *)
Theorem C19_fetch_exactly_assigned : forall k,
  C19_inv k ->
  forall t p, (exists q, In q (fetch_all_input k) /\ fq_topic q = t /\ fq_partition q = p) <-> assigned k t p.
Proof.
  intros k Hinv t p. unfold fetch_all_input. split.
  - intros (q & Hin & Ht & Hp). apply in_map_iff in Hin. destruct Hin as ([[tr p0] [off maxb]] & Hq & Hin).
    subst q. cbn [fq_topic fq_partition] in Ht, Hp. subst t p.
    apply (inv_key_assigned k tr p0 Hinv). apply tk_get_in. eauto.
  - intros (r & Hr & Hg). apply tk_get_in in Hg. destruct Hg as ([off maxb] & Hin).
    exists {| fq_topic := topic_name k r; fq_partition := p; fq_offset := off; fq_max_bytes := maxb |}.
    split; [apply in_map_iff; exists ((r, p), (off, maxb)); split; [reflexivity|exact Hin]|].
    cbn [fq_topic fq_partition]. split; [|reflexivity].
    unfold topic_name. destruct (topic_ref_some _ _ _ Hr) as (v & Hv). rewrite Hv. reflexivity.
Qed.

(* a poll with a pending retry asks for that single partition, a member of the set *)
Theorem C19_fetch_retry_assigned : forall k tp rest,
  C19_inv k -> k_retry k = tp :: rest ->
  exists off maxb,
    tk_get tp (k_fetch k) = Some (off, maxb)
    /\ assigned k (topic_name k (fst tp)) (snd tp)
    /\ consumer_fetch k =
       (let+ r := mtry (fetch_messages [{| fq_topic := topic_name k (fst tp); fq_partition := snd tp;
                                           fq_offset := off; fq_max_bytes := maxb |}]) in
        ret (1, r, consumer_with k (k_fetch k) rest (k_consumed k))).
Proof.
  intros k [r p] rest Hinv Hr. pose proof Hinv as (_ & _ & _ & I4).
  assert (Hg : tk_get (r, p) (k_fetch k) <> None) by (apply I4; rewrite Hr; left; reflexivity).
  destruct (tk_get (r, p) (k_fetch k)) as [[off maxb]|] eqn:Eg; [|congruence].
  exists off, maxb. split; [reflexivity|]. split.
  - cbn [fst snd]. apply (inv_key_assigned k r p Hinv). rewrite Eg. discriminate.
  - unfold consumer_fetch. rewrite Hr, Eg. reflexivity.
Qed.

Example C19_fetch_exactly_assigned_ex :
  map (fun q => (fq_topic q, fq_partition q)) (fetch_all_input ex_consumer)
  = [(tag "a", 0); (tag "a", 1); (tag "b", 0)].
Proof. vm_compute. reflexivity. Qed.

(* ex_consumer of C19Facts satisfies the invariant *)
Example C19_inv_ex : C19_inv ex_consumer.
Proof.
  split; [|split; [|split]].
  - repeat constructor.
  - intros r p H. cbn [ex_consumer k_fetch k_assign tk_get] in *. unfold ulen. cbn [length].
    unfold tpkey_eqb in H. cbn [fst snd] in H.
    destruct (0 =? r) eqn:E0; [lia|]. destruct (1 =? r) eqn:E1; [lia|].
    cbn [andb] in H. congruence.
  - intros key o [H|[]]. inversion H.
  - intros tp [].
Qed.

(* ================================================================================== *)
(* 5. the last builder call for a topic decides what the created consumer consumes      *)
(* ================================================================================== *)

(* end to end, for every call sequence: with_topic after with_topic_partitions (req = []) widens
   to all partitions of the loaded metadata, with_topic_partitions after anything narrows to its
   list; earlier calls for the topic have no influence *)
Theorem C19_create_last_call_wins : forall src calls1 c calls2 s k s' t req,
  consumer_create src (calls1 ++ c :: calls2) s = (Ok k, s') ->
  asg_call c = Some (t, req) ->
  (forall c' ps', In c' calls2 -> asg_call c' <> Some (t, ps')) ->
  exists wait s1 avail,
    create_metadata src (create_start src (calls1 ++ c :: calls2) s wait) = (Ok tt, s1)
    /\ partitions_for (cs (cl s1)) t = Some avail
    /\ Forall (fun p => 0 <= p < ulen avail) req
    /\ forall p, assigned k t p <-> 0 <= p < ulen avail /\ (req = [] \/ In p req).
Proof.
  intros src calls1 c calls2 s k s' t req H Hc Hno.
  pose proof (C19_builder_override (cbuilder_new src) calls1 c calls2 t req Hc Hno) as Hreq.
  destruct (C19_create_exact _ _ _ _ _ H) as (wait & s1 & subs & s2 & s3 & _ & Hmd & _ & _ & Hex & Hset & _).
  destruct (Hex t req Hreq) as (avail & Ha & Hall).
  exists wait, s1, avail. split; [exact Hmd|]. split; [exact Ha|]. split; [exact Hall|].
  intros p. rewrite Hset. split.
  - intros (req' & avail' & Hreq' & Ha' & Hr & Hq). rewrite Hreq in Hreq'. inversion Hreq'; subst req'.
    rewrite Ha in Ha'. inversion Ha'; subst avail'. auto.
  - intros [Hr Hq]. exists req, avail. auto.
Qed.

Example C19_create_last_call_wins_ex :
  match fst (consumer_create (inr ex_md_client)
               ([CWithTopicPartitions (tag "a") [1]; CWithTopicPartitions (tag "b") [0; 0]] ++ CWithTopic (tag "a") :: [CWithMaxBytes 7])
               ex_create_st) with
  | Ok k => map fst (k_fetch k) = [(0, 0); (0, 1); (0, 2); (1, 0)]
  | _ => False
  end.
Proof. vm_compute. reflexivity. Qed.

(* ================================================================================== *)
(* 6. querying a partition that is not consumed                                       *)
(* ================================================================================== *)

(* an unknown topic: nothing, always *)
Theorem C19_query_unknown_topic : forall k t p,
  topic_ref (k_assign k) t = None -> last_consumed_message k t p = None.
Proof. intros k t p H. unfold last_consumed_message. rewrite H. reflexivity. Qed.

(* "querying a topic-partition it does not consume returns nothing" is not a theorem of
   last_consumed_message for an assigned topic: the marks loaded at creation are the pairs the
   OffsetFetch RESPONSE names (with an offset <> -1), not the pairs that were asked for.
   What holds: a mark exists only for pairs named by that response (below) or marked through
   consume_message (which demands membership, C19_consume_ok_iff). *)
Lemma consumed_parts_keys dbg r : forall pos m m',
  consumed_parts dbg r pos m = Ok m' ->
  forall key, tk_get key m' <> None ->
    tk_get key m <> None \/ (fst key = r /\ exists off, In (snd key, off) pos /\ off <> -1).
Proof.
  induction pos as [|[p off] rest IH]; intros m m' H key Hk; cbn [consumed_parts] in H.
  - inversion H; subst. left. exact Hk.
  - destruct (off =? -1) eqn:Eo.
    + destruct (IH _ _ H key Hk) as [Hl|(Hr & off' & Hin & Hne)]; [left; exact Hl|].
      right. split; [exact Hr|]. exists off'. split; [right; exact Hin|exact Hne].
    + apply bind_ok in H. destruct H as (o1 & _ & H).
      destruct (IH _ _ H key Hk) as [Hl|(Hr & off' & Hin & Hne)].
      * destruct (tpkey_eq_dec key (r, p)) as [E|E].
        -- subst key. right. cbn [fst snd]. split; [reflexivity|]. exists off. split; [left; reflexivity|lia].
        -- left. rewrite tk_get_set_other in Hl by exact E. exact Hl.
      * right. split; [exact Hr|]. exists off'. split; [right; exact Hin|exact Hne].
Qed.

Theorem C19_query_foreign_partial : forall dbg asg tpos m0 m,
  consumed_topics dbg asg tpos m0 = Ok m ->
  forall r p, tk_get (r, p) m <> None ->
    tk_get (r, p) m0 <> None
    \/ exists t pos off, In (t, pos) tpos /\ In (p, off) pos /\ off <> -1 /\ topic_ref asg t = Some r.
Proof.
  intros dbg asg. induction tpos as [|[t pos] rest IH]; intros m0 m H r p Hk; cbn [consumed_topics] in H.
  - inversion H; subst. left. exact Hk.
  - assert (Hrest : forall m1, consumed_topics dbg asg rest m1 = Ok m -> tk_get (r, p) m1 <> None
              \/ exists t' pos' off, In (t', pos') ((t, pos) :: rest) /\ In (p, off) pos' /\ off <> -1
                                     /\ topic_ref asg t' = Some r).
    { intros m1 H1. destruct (IH _ _ H1 r p Hk) as [Hl|(t' & pos' & off & Hin & Hx)]; [left; exact Hl|].
      right. exists t', pos', off. split; [right; exact Hin|exact Hx]. }
    destruct pos as [|p0 pr]; [exact (Hrest _ H)|].
    destruct (forallb _ (p0 :: pr)); [exact (Hrest _ H)|].
    destruct (topic_ref asg t) as [r0|] eqn:Er; [|discriminate].
    apply bind_ok in H. destruct H as (m1 & H1 & H).
    destruct (Hrest _ H) as [Hl|Hx]; [|right; exact Hx].
    destruct (consumed_parts_keys _ _ _ _ _ H1 (r, p) Hl) as [Hm|(Hr & off & Hin & Hne)]; [left; exact Hm|].
    cbn [fst snd] in Hr, Hin. subst r0. right. exists t, (p0 :: pr), off. split; [left; reflexivity|auto].
Qed.

(* witness: the group's OffsetFetch answer names a:7 although only a:0..2 exist and were asked for;
   the consumer (whole topic a, fetch states for 0,1,2 only) then answers the query for a:7,
   while marking or seeking a:7 fails *)
Theorem C19_query_foreign_refuted : exists k t p consumed,
  consumed_topics true (k_assign k) [(t, [(0, 11); (p, 501)])] [] = Ok consumed
  /\ k_consumed k = consumed
  /\ ~ assigned k t p
  /\ consume_message k t p 600 = Err (EKafka KC_UnknownTopicOrPartition)
  /\ last_consumed_message k t p = Some 500.
Proof.
  exists {| k_client := client_new [tag "h:9092"]; k_group := tag "g"; k_fallback := FbLatest; k_retry_limit := 0;
            k_assign := [(tag "a", [])];
            k_fetch := [((0, 0), (11, 4096)); ((0, 1), (0, 4096)); ((0, 2), (0, 4096))]; k_retry := [];
            k_consumed := [((0, 0), (10, false)); ((0, 7), (500, false))] |}, (tag "a"), 7,
         [((0, 0), (10, false)); ((0, 7), (500, false))].
  split; [vm_compute; reflexivity|]. split; [reflexivity|]. split; [|split; vm_compute; reflexivity].
  intros (r & Hr & Hg). vm_compute in Hr. inversion Hr; subst r. vm_compute in Hg. congruence.
Qed.

(* ================================================================================== *)
(* 7. the per-broker fetch requests built by KafkaClient::fetch_messages               *)
(* ================================================================================== *)

(* (t, q) occurs in some broker's request *)
Definition fetch_named (reqs : list (bytes * fetch_tps)) (t : bytes) (q : Z) : Prop :=
  exists h tps ps, In (h, tps) reqs /\ In (t, ps) tps /\ In q (map fst ps).

Lemma fp_insert_keys ps p v q : In q (map fst (fp_insert ps p v)) -> q = p \/ In q (map fst ps).
Proof.
  induction ps as [|[q0 w0] ps IH]; cbn [fp_insert map fst In].
  - intros [H|[]]. left. auto.
  - destruct (q0 =? p) eqn:E; cbn [map fst In].
    + intros H. right. exact H.
    + intros [H|H]; [right; left; exact H|]. destruct (IH H) as [Hl|Hr]; [left; exact Hl|right; right; exact Hr].
Qed.

Lemma fetch_add_named tps topic p off maxb t q :
  (exists ps, In (t, ps) (fetch_add tps topic p off maxb) /\ In q (map fst ps)) ->
  (t = topic /\ q = p) \/ exists ps, In (t, ps) tps /\ In q (map fst ps).
Proof.
  induction tps as [|[t0 ps0] tps IH]; cbn [fetch_add].
  - intros (ps & [H|[]] & Hq). inversion H; subst. cbn [map fst In] in Hq. destruct Hq as [Hq|[]]. left. auto.
  - destruct (bytes_eqb t0 topic) eqn:E.
    + apply bytes_eqb_eq in E. subst t0. intros (ps & [H|H] & Hq).
      * inversion H; subst. apply fp_insert_keys in Hq. destruct Hq as [Hq|Hq]; [left; auto|].
        right. exists ps0. split; [left; reflexivity|exact Hq].
      * right. exists ps. split; [right; exact H|exact Hq].
    + intros (ps & [H|H] & Hq).
      * right. exists ps. split; [left; exact H|exact Hq].
      * destruct IH as [Hl|(ps' & Hin & Hq')]; [eauto|left; exact Hl|].
        right. exists ps'. split; [right; exact Hin|exact Hq'].
Qed.

Lemma fhost_add_named reqs host topic p off maxb t q :
  fetch_named (fhost_add reqs host topic p off maxb) t q -> (t = topic /\ q = p) \/ fetch_named reqs t q.
Proof.
  unfold fetch_named. induction reqs as [|[h0 tps0] reqs IH]; cbn [fhost_add].
  - intros (h & tps & ps & [H|[]] & Ht & Hq). inversion H; subst.
    destruct (fetch_add_named [] topic p off maxb t q) as [Hl|(ps' & [] & _)]; [eauto|left; exact Hl].
  - destruct (bytes_eqb h0 host) eqn:E.
    + intros (h & tps & ps & [H|H] & Ht & Hq).
      * inversion H; subst. destruct (fetch_add_named tps0 topic p off maxb t q) as [Hl|(ps' & Hin & Hq')];
          [eauto|left; exact Hl|]. right. exists h, tps0, ps'. split; [left; reflexivity|auto].
      * right. exists h, tps, ps. split; [right; exact H|auto].
    + intros (h & tps & ps & [H|H] & Ht & Hq).
      * right. exists h, tps, ps. split; [left; exact H|auto].
      * destruct IH as [Hl|(h' & tps' & ps' & Hin & Ht' & Hq')]; [exists h, tps, ps; auto|left; exact Hl|].
        right. exists h', tps', ps'. split; [right; exact Hin|auto].
Qed.

Lemma fetch_reqs_named c : forall input acc t q,
  fetch_named (fold_left (fun reqs x =>
               match find_broker (cs c) (fq_topic x) (fq_partition x) with
               | None => reqs
               | Some host =>
                   fhost_add reqs host (fq_topic x) (fq_partition x) (fq_offset x)
                             (if 0 <? fq_max_bytes x then fq_max_bytes x
                              else fetch_max_bytes_per_partition (cfg c))
               end) input acc) t q ->
  fetch_named acc t q \/ exists x, In x input /\ fq_topic x = t /\ fq_partition x = q.
Proof.
  induction input as [|x input IH]; intros acc t q H; cbn [fold_left] in H; [left; exact H|].
  destruct (IH _ _ _ H) as [Hacc|(x' & Hin & Hx)]; [|right; exists x'; split; [right; exact Hin|exact Hx]].
  destruct (find_broker (cs c) (fq_topic x) (fq_partition x)) as [host|]; [|left; exact Hacc].
  apply fhost_add_named in Hacc. destruct Hacc as [[Ht Hq]|Hacc]; [|left; exact Hacc].
  right. exists x. split; [left; reflexivity|auto].
Qed.

(* whatever the client's metadata says (leaders known or not, metadata reloaded after creation,
   topics grown), every topic-partition that a poll without pending retry puts into any broker's
   FetchRequest is a member of the consumed set *)
Theorem C19_fetch_reqs_only_assigned : forall k c t q,
  C19_inv k -> fetch_named (fetch_reqs c (fetch_all_input k)) t q -> assigned k t q.
Proof.
  intros k c t q Hinv H. unfold fetch_reqs in H. apply fetch_reqs_named in H.
  destruct H as [(h & tps & ps & [] & _)|(x & Hin & Ht & Hq)].
  apply (C19_fetch_exactly_assigned k Hinv t q). eauto.
Qed.

Example C19_fetch_reqs_ex :
  match fst (consumer_create (inr ex_md_client) ex_create_calls ex_create_st) with
  | Ok k => fetch_reqs (k_client k) (fetch_all_input k)
            = [(tag "h:9092", [(tag "a", [(0, (5, 32768)); (2, (7, 32768))]); (tag "b", [(0, (9, 32768))])])]
  | _ => False
  end.
Proof. vm_compute. reflexivity. Qed.

Check C19_create_exact.
Check C19_create_unknown.
Check C19_create_last_call_wins.
Check C19_create_inv.
Check C19_poll_keeps_set.
Check C19_consumer_poll_keeps_set.
Check C19_inv_seek.
Check C19_inv_consume.
Check C19_inv_poll.
Check C19_inv_consumer_poll.
Check C19_inv_commit.
Check C19_commit_only_assigned.
Check C19_dirty_only_assigned.
Check C19_fetch_exactly_assigned.
Check C19_fetch_retry_assigned.
Check C19_fetch_reqs_only_assigned.
Check C19_query_unknown_topic.
Check C19_query_foreign_partial.
Check C19_query_foreign_refuted.

Print Assumptions C19_create_exact.
Print Assumptions C19_create_unknown.
Print Assumptions C19_create_last_call_wins.
Print Assumptions C19_create_inv.
Print Assumptions C19_poll_keeps_set.
Print Assumptions C19_consumer_poll_keeps_set.
Print Assumptions C19_inv_seek.
Print Assumptions C19_inv_consume.
Print Assumptions C19_inv_poll.
Print Assumptions C19_inv_consumer_poll.
Print Assumptions C19_inv_commit.
Print Assumptions C19_commit_only_assigned.
Print Assumptions C19_dirty_only_assigned.
Print Assumptions C19_fetch_exactly_assigned.
Print Assumptions C19_fetch_retry_assigned.
Print Assumptions C19_fetch_reqs_only_assigned.
Print Assumptions C19_query_unknown_topic.
Print Assumptions C19_query_foreign_partial.
Print Assumptions C19_query_foreign_refuted.
