(* C13, additional theorems (mutation adequacy round).

   Part A  snappy chunk framing: the reader is total, and a chunk length that exceeds the bytes
           really left (by 1, 2, ... anything) is an error               [seed C13]
   Part B  DefaultPartitioner / Producer::send on a topic without available partitions:
           send_all never panics; a key-less record to a leaderless topic is
           Err(UnknownTopicOrPartition), nothing is sent                 [seed C13-2]
   Part C  "never loops forever": the three group retry loops need at most
           max 1 (retry_max_attempts - attempt + 1) iterations, whatever and however much the
           broker sends (the iteration budget depends on the configuration only)   [seed C13-3]
   Part D  the public client operations in the I/O monad: which panics can come out at all. *)
From KV Require Import Base.Prelude Base.Snappy Gen.Consts Model.Codecs Model.Requests Model.Responses
                       Model.ClientState Model.Net Model.Client Model.Producer Model.Consumer.
From KV Require Import Proofs.BytesFacts Proofs.SnappyFacts Proofs.NetFacts Proofs.C14Facts
                       Proofs.C13Decode Proofs.C13Facts.
From Coq Require Import ZifyBool.

(* ====================================================================== *)
(* Part A: snappy chunk framing                                            *)
(* ====================================================================== *)

(* SnappyReader::new(v)?.read_to_end(..): Ok or a proper error for every byte string *)
Theorem C13_snappy_reader_total : forall v, no_panic (xerial_read_to_end v).
Proof.
  intros v. pose proof (xerial_read_to_end_out v) as H.
  destruct (xerial_read_to_end v) as [o|e|w]; cbn [out_ok no_panic] in *; auto.
  destruct e; auto.
Qed.

(* one round of _read_to_end: a positive chunk length beyond the bytes that are left
   (len+1, len+2, len+3, len+4, ..., 2^31-1) is an error, never a slice panic *)
Theorem C13_snappy_chunk_past_end : forall fuel data out mx cs r,
  zread_i32 data = Ok (cs, r) -> Z.of_nat (length r) < cs ->
  xerial_loop (S fuel) data out mx = (Err (EIo IoOther), mx).
Proof.
  intros fuel data out mx cs r Hz Hlt. destruct data as [|b data].
  - vm_compute in Hz. discriminate.
  - cbn [xerial_loop]. rewrite Hz. destruct (cs <=? 0); [reflexivity|].
    destruct (Z.of_nat (length r) <? cs) eqn:E; [reflexivity|lia].
Qed.

Lemma validate_stream_header x : validate_stream (xerial_header ++ x) = Ok x.
Proof.
  unfold validate_stream, xerial_header. rewrite <- !app_assoc.
  assert (L : length xerial_magic = 8%nat) by reflexivity.
  rewrite app_length, L. cbn [Nat.ltb Nat.leb plus].
  rewrite (firstn_app_exact _ _ 8 L), (skipn_app_exact _ _ 8 L), bytes_eqb_refl. cbn [negb].
  rewrite zread_i32_app by (unfold in_i32; lia). cbn [bind]. cbn [Z.eqb Pos.eqb negb].
  rewrite zread_i32_app by (unfold in_i32; lia). cbn [bind]. reflexivity.
Qed.

(* the same for a whole stream: valid header, any number of good chunks is NOT needed -
   the first chunk already announces more than the stream holds *)
Theorem C13_snappy_stream_chunk_past_end : forall cs tail,
  in_i32 cs -> Z.of_nat (length tail) < cs ->
  xerial_read_to_end (xerial_header ++ enc_i32 cs ++ tail) = Err (EIo IoOther).
Proof.
  intros cs tail Hi Hlt. unfold xerial_read_to_end, xerial_run. rewrite validate_stream_header.
  assert (Hl : length (enc_i32 cs ++ tail) = S (3 + length tail)).
  { rewrite app_length. unfold enc_i32. rewrite be_enc_length. reflexivity. }
  rewrite Hl. rewrite (C13_snappy_chunk_past_end _ _ _ _ cs tail); [reflexivity| |exact Hlt].
  apply zread_i32_app. exact Hi.
Qed.

(* non-vacuity: "hello" in one chunk; the chunk length raised by 1..4 and by 2^31-1-len;
   the stream cut short by 1..4 bytes *)
Definition ex_chunk : bytes := snappy_lit_compress (tag "hello").
Example ex_snappy_ok : xerial_read_to_end (xerial_frame [ex_chunk]) = Ok (tag "hello").
Proof. vm_compute. reflexivity. Qed.
Example ex_snappy_len_plus :
  forallb (fun d => match xerial_read_to_end (xerial_header ++ enc_i32 (ulen ex_chunk + d) ++ ex_chunk) with
                    | Err (EIo IoOther) => true | _ => false end)
          [1; 2; 3; 4; 5; 2147483647 - ulen ex_chunk] = true.
Proof. vm_compute. reflexivity. Qed.
Example ex_snappy_cut :
  forallb (fun n => match xerial_read_to_end (xerial_header ++ enc_i32 (ulen ex_chunk)
                                               ++ firstn (length ex_chunk - n) ex_chunk) with
                    | Err (EIo IoOther) => true | _ => false end)
          [1; 2; 3; 4]%nat = true.
Proof. vm_compute. reflexivity. Qed.
Example ex_snappy_stream_thm :
  xerial_read_to_end (xerial_header ++ enc_i32 (ulen ex_chunk + 1) ++ ex_chunk) = Err (EIo IoOther).
Proof. apply C13_snappy_stream_chunk_past_end; [vm_compute; split; discriminate|vm_compute; reflexivity]. Qed.

(* ====================================================================== *)
(* Part B: Producer::send / send_all and topics without available partition *)
(* ====================================================================== *)

(* send_all (partitioner included) never panics, whatever the producer's view of the cluster,
   whatever the records, whatever the broker answers *)
Theorem C13_producer_send_all_no_panic : forall p recs s w,
  fst (producer_send_all p recs s) <> Panic w.
Proof.
  intros p recs s w H. pose proof (mnp_producer_send_all p recs s) as Hn. rewrite H in Hn. exact Hn.
Qed.

Lemma find_broker_negative s topic p : p < 0 -> find_broker s topic p = None.
Proof.
  intros Hp. unfold find_broker. destruct (partitions_for s topic) as [ps|]; [|reflexivity].
  unfold partition_ref, nth_z. destruct (p <? 0) eqn:E; [reflexivity|lia].
Qed.

(* DefaultPartitioner on a topic that has partitions but none with a known leader, record
   without key and without partition: the record keeps its partition (-1), the counter is
   not advanced *)
Theorem C13_partition_no_available : forall parts cntr topic p ps,
  p < 0 -> assoc_bytes topic parts = Some ps -> available_ids ps = [] ->
  partition parts cntr topic p None = (p, cntr).
Proof.
  intros parts cntr topic p ps Hp Ha Hav. unfold partition.
  destruct (0 <=? p) eqn:E; [lia|]. rewrite Ha, Hav. reflexivity.
Qed.

(* ... and Producer::send then fails with UnknownTopicOrPartition before anything is sent
   (the seeded change: remainder by zero).  num_all may be anything. *)
Lemma next_corr_eq s :
  next_corr s = (Ok (fst (next_correlation_id (cs (cl s)))), with_cs s (snd (next_correlation_id (cs (cl s))))).
Proof.
  unfold next_corr. unfold mbind at 1. unfold get_client. cbv beta iota.
  destruct (next_correlation_id (cs (cl s))) as [n cs']. cbn [fst snd]. unfold mbind. rewrite set_cs_eq. reflexivity.
Qed.

Theorem C13_producer_send_no_available : forall p r s ps,
  r_partition r < 0 -> r_key r = [] ->
  assoc_bytes (r_topic r) (p_parts p) = Some ps -> available_ids ps = [] ->
  fst (producer_send p r s) = Err (EKafka KC_UnknownTopicOrPartition)
  /\ trace (snd (producer_send p r s)) = trace s
  /\ script (snd (producer_send p r s)) = script s.
Proof.
  intros p r s ps Hp Hk Ha Hav.
  set (s1 := with_cs s (snd (next_correlation_id (cs (cl s))))).
  assert (Hall : producer_send_all p [r] s = (Err (EKafka KC_UnknownTopicOrPartition), s1)).
  { unfold producer_send_all. rewrite (mbind_ok _ _ _ _ _ (next_corr_eq s)). fold s1.
    unfold mbind at 1. unfold get_client at 1. cbv beta iota.
    cbn [send_all_reqs]. rewrite Hk. cbn [to_option].
    rewrite (C13_partition_no_available _ _ _ _ ps Hp Ha Hav).
    rewrite find_broker_negative by exact Hp. reflexivity. }
  unfold producer_send. rewrite (mbind_err _ _ _ _ _ Hall). cbn [fst snd]. repeat split.
Qed.

(* non-vacuity, end to end: a Metadata reply in which topic "odd" has three partitions, all
   with leader -1, and "sane" one partition on broker 1; what load_metadata makes of it;
   the producer state built from it; send to "odd" / "sane" *)
Definition ex_leaderless_md : metadata_resp :=
  {| md_corr := 1;
     md_brokers := [{| bm_node := 1; bm_host := tag "h"; bm_port := 1 |}];
     md_topics := [{| tm_error := 0; tm_topic := tag "odd";
                      tm_partitions := [{| pm_error := 5; pm_id := 0; pm_leader := -1; pm_replicas := []; pm_isr := [] |};
                                        {| pm_error := 5; pm_id := 1; pm_leader := -1; pm_replicas := []; pm_isr := [] |};
                                        {| pm_error := 5; pm_id := 2; pm_leader := 77; pm_replicas := []; pm_isr := [] |}] |};
                   {| tm_error := 0; tm_topic := tag "sane";
                      tm_partitions := [{| pm_error := 0; pm_id := 0; pm_leader := 1; pm_replicas := []; pm_isr := [] |}] |}] |}.
Definition ex_leaderless_cs : cstate :=
  match update_metadata cstate_new ex_leaderless_md with Ok s => s | _ => cstate_new end.
Definition ex_leaderless_client : client :=
  {| cfg := default_config [tag "h:1"]; cs := ex_leaderless_cs; conns := [] |}.
Definition ex_leaderless_producer : producer :=
  {| p_client := ex_leaderless_client; p_parts := producer_state ex_leaderless_cs; p_cntr := 7;
     p_ack_timeout := 1000; p_acks := 1 |}.
Example ex_leaderless_parts :
  p_parts ex_leaderless_producer
  = [(tag "odd", {| available_ids := []; num_all := 3 |}); (tag "sane", {| available_ids := [0]; num_all := 1 |})].
Proof. vm_compute. reflexivity. Qed.
Example ex_leaderless_send :
  let s := ex_st [OConn false] ex_leaderless_client false in
  fst (producer_send ex_leaderless_producer
         {| r_topic := tag "odd"; r_partition := -1; r_key := []; r_value := tag "hello" |} s)
    = Err (EKafka KC_UnknownTopicOrPartition)
  /\ trace (snd (producer_send ex_leaderless_producer
         {| r_topic := tag "odd"; r_partition := -1; r_key := []; r_value := tag "hello" |} s)) = []
  (* the healthy topic goes out to the broker (which refuses the connection here) *)
  /\ fst (producer_send ex_leaderless_producer
         {| r_topic := tag "sane"; r_partition := -1; r_key := []; r_value := tag "hello" |} s)
    = Err (EIo IoConnRefused).
Proof. vm_compute. repeat split; reflexivity. Qed.
Example ex_leaderless_thm :
  fst (producer_send ex_leaderless_producer
         {| r_topic := tag "odd"; r_partition := -1; r_key := []; r_value := tag "hello" |}
         (ex_st [] ex_leaderless_client false)) = Err (EKafka KC_UnknownTopicOrPartition).
Proof.
  apply (C13_producer_send_no_available ex_leaderless_producer _ _ {| available_ids := []; num_all := 3 |});
    [cbn; lia|reflexivity|vm_compute; reflexivity|reflexivity].
Qed.

(* ====================================================================== *)
(* Part C: never loops forever - the iteration budget of the group loops    *)
(* ====================================================================== *)

(* the number of iterations a retry loop entered with counter `attempt` may need *)
Definition retry_budget (s : st) (attempt : Z) : Z :=
  Z.max 1 (retry_max_attempts (cfg (cl s)) - attempt + 1).

Lemma retry_budget_pos s attempt : 1 <= retry_budget s attempt.
Proof. unfold retry_budget. lia. Qed.

Section RetryBudget.
Context {A B : Type} (d : dec A) (judge : A -> verdict B) (group : bytes) (req : res bytes).

(* with `budget` units of fuel the loop never reports EOutOfFuel: it has returned before -
   the script (what the broker sends, and how much of it) plays no role *)
Lemma retry_loop_budget : nf d -> req <> Err EOutOfFuel ->
  forall fuel attempt s, retry_budget s attempt <= Z.of_nat fuel ->
    fst (retry_loop d judge fuel group req attempt s) <> Err EOutOfFuel.
Proof.
  intros Hd Hq. induction fuel as [|f IH]; intros attempt s Hb.
  - pose proof (retry_budget_pos s attempt). lia.
  - cbn [retry_loop]. destruct (exchange_attempt d group req s) as [[a|e|w] s2] eqn:E.
    + destruct (exchange_attempt_cfg _ _ _ _ _ _ E) as [_ C1]. unfold same_cfgc in C1.
      destruct (judge a) as [b|c|code reset]; cbn [fst]; try discriminate.
      destruct (attempt <? retry_max_attempts (cfg (cl s2))) eqn:Ea; [|cbn [fst]; discriminate].
      apply IH. unfold retry_budget in *. rewrite after_retry_cfg, C1. rewrite C1 in Ea. lia.
    + cbn [fst]. intros Hr. inversion Hr; subst.
      exact (exchange_attempt_nofuel d group req Hd Hq _ _ _ E eq_refl).
    + cbn [fst]. discriminate.
Qed.

(* more fuel than the budget changes nothing: the loop does at most `budget` iterations *)
Lemma retry_loop_fuel_irrelevant :
  forall f1 f2 attempt s, retry_budget s attempt <= Z.of_nat f1 -> retry_budget s attempt <= Z.of_nat f2 ->
    retry_loop d judge f1 group req attempt s = retry_loop d judge f2 group req attempt s.
Proof.
  induction f1 as [|f1 IH]; intros f2 attempt s H1 H2.
  - pose proof (retry_budget_pos s attempt). lia.
  - destruct f2 as [|f2]; [pose proof (retry_budget_pos s attempt); lia|].
    cbn [retry_loop]. destruct (exchange_attempt d group req s) as [[a|e|w] s2] eqn:E; try reflexivity.
    destruct (exchange_attempt_cfg _ _ _ _ _ _ E) as [_ C1]. unfold same_cfgc in C1.
    destruct (judge a) as [b|c|code reset]; try reflexivity.
    destruct (attempt <? retry_max_attempts (cfg (cl s2))) eqn:Ea; [|reflexivity].
    apply IH; unfold retry_budget in *; rewrite after_retry_cfg, C1; rewrite C1 in Ea; lia.
Qed.
End RetryBudget.

Lemma lookup_loop_budget group req : req <> Err EOutOfFuel ->
  forall fuel attempt s, retry_budget s attempt <= Z.of_nat fuel ->
    fst (group_lookup_loop fuel group req attempt s) <> Err EOutOfFuel.
Proof.
  intros Hq. induction fuel as [|f IH]; intros attempt s Hb.
  - pose proof (retry_budget_pos s attempt). lia.
  - rewrite lookup_loop_step. destruct (group_lookup_attempt req s) as [[resp|e|w] s1] eqn:E.
    + pose proof (lookup_attempt_same_cl _ _ _ _ E) as C1. unfold same_cl in C1.
      destruct (from_protocol (gc_error resp)) as [code|]; [|cbn [fst]; discriminate].
      destruct (code =? KC_GroupCoordinatorNotAvailable); [|cbn [fst]; discriminate].
      destruct (attempt <? retry_max_attempts (cfg (cl s1))) eqn:Ea; [|cbn [fst]; discriminate].
      apply IH. unfold retry_budget in *. rewrite C1. rewrite C1 in Ea. lia.
    + cbn [fst]. intros Hr. inversion Hr; subst. exact (lookup_attempt_nofuel _ Hq _ _ _ E eq_refl).
    + cbn [fst]. discriminate.
Qed.

Lemma lookup_loop_fuel_irrelevant group req :
  forall f1 f2 attempt s, retry_budget s attempt <= Z.of_nat f1 -> retry_budget s attempt <= Z.of_nat f2 ->
    group_lookup_loop f1 group req attempt s = group_lookup_loop f2 group req attempt s.
Proof.
  induction f1 as [|f1 IH]; intros f2 attempt s H1 H2.
  - pose proof (retry_budget_pos s attempt). lia.
  - destruct f2 as [|f2]; [pose proof (retry_budget_pos s attempt); lia|].
    rewrite !lookup_loop_step. destruct (group_lookup_attempt req s) as [[resp|e|w] s1] eqn:E; try reflexivity.
    pose proof (lookup_attempt_same_cl _ _ _ _ E) as C1. unfold same_cl in C1.
    destruct (from_protocol (gc_error resp)) as [code|]; [|reflexivity].
    destruct (code =? KC_GroupCoordinatorNotAvailable); [|reflexivity].
    destruct (attempt <? retry_max_attempts (cfg (cl s1))) eqn:Ea; [|reflexivity].
    apply IH; unfold retry_budget in *; rewrite C1; rewrite C1 in Ea; lia.
Qed.

(* The three loops of __get_group_coordinator, __commit_offsets, __fetch_group_offsets:
   max 1 (retry_max_attempts - attempt + 1) iterations are always enough - for every script,
   i.e. however long the broker keeps answering with a retriable code.  (All three callers
   start with attempt = 1: the budget is max 1 retry_max_attempts, and 1 for the limit 0.) *)
Theorem C13_group_loops_budget : forall fuel group req attempt s,
  req <> Err EOutOfFuel ->
  Z.max 1 (retry_max_attempts (cfg (cl s)) - attempt + 1) <= Z.of_nat fuel ->
  fst (group_lookup_loop fuel group req attempt s) <> Err EOutOfFuel
  /\ fst (commit_loop fuel group req attempt s) <> Err EOutOfFuel
  /\ fst (group_fetch_loop fuel group req attempt s) <> Err EOutOfFuel.
Proof.
  intros fuel group req attempt s Hq Hb. split; [|split].
  - apply lookup_loop_budget; assumption.
  - rewrite commit_loop_eq. apply retry_loop_budget; [apply dec_offset_commit_resp_nf|exact Hq|exact Hb].
  - rewrite group_fetch_loop_eq. apply retry_loop_budget; [apply dec_offset_fetch_resp_nf|exact Hq|exact Hb].
Qed.

(* ... and whatever they return is returned within that many iterations: any two amounts of
   fuel that cover the budget give the same result and the same final state *)
Theorem C13_group_loops_iterations : forall f1 f2 group req attempt s,
  Z.max 1 (retry_max_attempts (cfg (cl s)) - attempt + 1) <= Z.of_nat f1 ->
  Z.max 1 (retry_max_attempts (cfg (cl s)) - attempt + 1) <= Z.of_nat f2 ->
  group_lookup_loop f1 group req attempt s = group_lookup_loop f2 group req attempt s
  /\ commit_loop f1 group req attempt s = commit_loop f2 group req attempt s
  /\ group_fetch_loop f1 group req attempt s = group_fetch_loop f2 group req attempt s.
Proof.
  intros f1 f2 group req attempt s H1 H2. split; [|split].
  - apply lookup_loop_fuel_irrelevant; assumption.
  - rewrite !commit_loop_eq. apply retry_loop_fuel_irrelevant; assumption.
  - rewrite !group_fetch_loop_eq. apply retry_loop_fuel_irrelevant; assumption.
Qed.

(* non-vacuity: retry_max_attempts = 0 ("do not retry"), coordinator known, and a broker that
   answers every OffsetCommit / OffsetFetch with GroupLoadInProgress (14) resp. every
   GroupCoordinator request with GroupCoordinatorNotAvailable (15) - three rounds are scripted.
   One unit of fuel (= the budget) is enough, exactly one request goes out, the call ends with
   Err(Kafka(code)). *)
Definition ex_cfg_limit (n : Z) : config :=
  let g := default_config [tag "h:1"] in
  {| client_id := client_id g; hosts := hosts g; compression := compression g;
     fetch_max_wait_time := fetch_max_wait_time g; fetch_min_bytes := fetch_min_bytes g;
     fetch_max_bytes_per_partition := fetch_max_bytes_per_partition g;
     fetch_crc_validation := fetch_crc_validation g; offset_storage := 1;
     retry_backoff_time := retry_backoff_time g; retry_max_attempts := n;
     idle_timeout := idle_timeout g |}.
Definition ex_group_cs (known : bool) : cstate :=
  {| correlation := 0; brokers := [{| b_node := 1; b_host := tag "h:1" |}];
     topic_partitions := [(tag "tp", [0])];
     group_coordinators := if known then [(tag "g", 0)] else [] |}.
Definition ex_group_client (n : Z) (known : bool) : client :=
  {| cfg := ex_cfg_limit n; cs := ex_group_cs known; conns := [tag "h:1"] |}.
Definition ex_round (resp : bytes) : list ev_out := [OWrote 1000; OData (enc_i32 (ulen resp)); OData resp].
Definition ex_commit_busy : bytes :=
  enc_i32 1 ++ enc_i32 1 ++ enc_i16 2 ++ tag "tp" ++ enc_i32 1 ++ (enc_i32 0 ++ enc_i16 14).
Definition ex_fetch_busy : bytes :=
  enc_i32 1 ++ enc_i32 1 ++ enc_i16 2 ++ tag "tp" ++ enc_i32 1 ++ (enc_i32 0 ++ enc_i64 (-1) ++ enc_i16 0 ++ enc_i16 14).
Definition ex_coord_busy : bytes := enc_i32 1 ++ enc_i16 15 ++ enc_i32 (-1) ++ enc_i16 0 ++ enc_i32 (-1).
Definition writes (tr : list ev_op) : nat :=
  length (filter (fun e => match e with EWrite _ _ => true | _ => false end) tr).

Example ex_budget_limit0 :
  let rounds r := ex_round r ++ ex_round r ++ ex_round r in
  let sc := ex_st (rounds ex_commit_busy) (ex_group_client 0 true) false in
  let sf := ex_st (rounds ex_fetch_busy) (ex_group_client 0 true) false in
  let sl := ex_st (rounds ex_coord_busy) (ex_group_client 0 false) false in
  let creq := enc_offset_commit_req 1 [] (tag "g") 1 [(tag "tp", [(0, 5)])] in
  let freq := enc_offset_fetch_req 1 [] (tag "g") 1 [(tag "tp", [0])] in
  let lreq := enc_group_coordinator_req 1 [] (tag "g") in
  (* budget = 1 *)
  Z.max 1 (retry_max_attempts (cfg (cl sc)) - 1 + 1) = 1
  /\ fst (commit_loop 1 (tag "g") creq 1 sc) = Err (EKafka KC_GroupLoadInProgress)
  /\ fst (group_fetch_loop 1 (tag "g") freq 1 sf) = Err (EKafka KC_GroupLoadInProgress)
  /\ fst (group_lookup_loop 1 (tag "g") lreq 1 sl) = Err (EKafka KC_GroupCoordinatorNotAvailable)
  (* the public operations: one request each, two rounds of the script left untouched *)
  /\ fst (commit_offsets (tag "g") [{| co_topic := tag "tp"; co_partition := 0; co_offset := 5 |}] sc)
     = Err (EKafka KC_GroupLoadInProgress)
  /\ writes (trace (snd (commit_offsets (tag "g") [{| co_topic := tag "tp"; co_partition := 0; co_offset := 5 |}] sc))) = 1%nat
  /\ fst (fetch_group_offsets (tag "g") [(tag "tp", 0)] sf) = Err (EKafka KC_GroupLoadInProgress)
  /\ writes (trace (snd (fetch_group_offsets (tag "g") [(tag "tp", 0)] sf))) = 1%nat
  /\ length (script (snd (fetch_group_offsets (tag "g") [(tag "tp", 0)] sf))) = 6%nat
  /\ fst (get_group_coordinator (tag "g") sl) = Err (EKafka KC_GroupCoordinatorNotAvailable)
  /\ writes (trace (snd (get_group_coordinator (tag "g") sl))) = 1%nat.
Proof. vm_compute. repeat split; reflexivity. Qed.
(* limit 2: two requests, then the error; the third scripted round is not used *)
Example ex_budget_limit2 :
  let sc := ex_st (ex_round ex_commit_busy ++ ex_round ex_commit_busy ++ ex_round ex_commit_busy)
                  (ex_group_client 2 true) false in
  let r := commit_offsets (tag "g") [{| co_topic := tag "tp"; co_partition := 0; co_offset := 5 |}] sc in
  fst r = Err (EKafka KC_GroupLoadInProgress) /\ writes (trace (snd r)) = 2%nat /\ length (script (snd r)) = 3%nat.
Proof. vm_compute. repeat split; reflexivity. Qed.

(* ====================================================================== *)
(* Part D: the public client operations - which panics can come out        *)
(* ====================================================================== *)
(* mpw P m: every panic of m (from any state, for any script) satisfies P *)
Definition mpw {A} (P : bytes -> Prop) (m : M A) : Prop := forall s w, fst (m s) = Panic w -> P w.

Lemma mpw_of_mnp {A} P (m : M A) : mnp m -> mpw P m.
Proof. intros H s w E. specialize (H s). rewrite E in H. contradiction. Qed.
Lemma mnp_of_mpw {A} (m : M A) : mpw (fun _ => False) m -> mnp m.
Proof. intros H s. specialize (H s). destruct (fst (m s)) as [a|e|w]; cbn; auto. apply (H w). reflexivity. Qed.
Lemma mpw_bind {A B} P (m : M A) (f : A -> M B) : mpw P m -> (forall a, mpw P (f a)) -> mpw P (mbind m f).
Proof.
  intros Hm Hf s w. unfold mbind. specialize (Hm s).
  destruct (m s) as [[a|e|w'] s1]; cbn [fst] in *; [apply Hf|discriminate|intros E; apply Hm; inversion E; reflexivity].
Qed.
Lemma mpw_with_fuel {A} P (f : nat -> M A) : (forall n, mpw P (f n)) -> mpw P (with_fuel f).
Proof. intros H s. apply H. Qed.
Lemma mpw_lift {A} (P : bytes -> Prop) (r : res A) : (forall w, r = Panic w -> P w) -> mpw P (lift r).
Proof. intros H s w E. apply H. exact E. Qed.
Lemma mpw_weaken {A} (P Q : bytes -> Prop) (m : M A) : (forall w, P w -> Q w) -> mpw P m -> mpw Q m.
Proof. intros HPQ H s w E. apply HPQ, (H s w E). Qed.

Ltac mpw_easy := apply mpw_of_mnp; mnp_tac.

(* ---- request encoders ------------------------------------------------------------------ *)
Ltac npb_tac :=
  repeat first
    [ exact I
    | progress cbv beta iota
    | apply npb_enc_str | apply npb_enc_header | apply npb_enc_bytes
    | apply npb_enc_array; intros ?
    | apply npb_enc_array_unchecked; intros ?
    | apply npb_enc_all; intros ?
    | apply npb_bind; [|intros ?]
    | match goal with
      | |- npb (let '(_, _) := ?x in _) => destruct x
      | |- npb (match ?x with _ => _ end) => destruct x
      | |- npb (if ?b then _ else _) => destruct b
      end ].

Lemma npb_enc_metadata_req corr cid topics : npb (enc_metadata_req corr cid topics).
Proof. unfold enc_metadata_req. npb_tac. Qed.
Lemma npb_enc_offset_req corr cid tps : npb (enc_offset_req corr cid tps).
Proof. unfold enc_offset_req, enc_tps. npb_tac. Qed.
Lemma npb_enc_list_offsets_req corr cid tps : npb (enc_list_offsets_req corr cid tps).
Proof. unfold enc_list_offsets_req, enc_tps. npb_tac. Qed.
Lemma npb_enc_fetch_req corr cid w m tps : npb (enc_fetch_req corr cid w m tps).
Proof. unfold enc_fetch_req. npb_tac. Qed.
Lemma npb_enc_offset_fetch_req corr cid group v tps : npb (enc_offset_fetch_req corr cid group v tps).
Proof. unfold enc_offset_fetch_req, enc_tps. npb_tac. Qed.
(* the commit encoder panics on an unknown version; the client only ever passes 0 or 1 *)
Lemma npb_enc_offset_commit_req corr cid group storage tps :
  npb (enc_offset_commit_req corr cid group (commit_version storage) tps).
Proof.
  unfold enc_offset_commit_req, enc_tps, commit_version.
  destruct (storage =? 0); cbn [negb orb Z.eqb Pos.eqb STORAGE_ZK_COMMIT_VERSION STORAGE_KAFKA_COMMIT_VERSION
                                OFFSET_COMMIT_V0 OFFSET_COMMIT_V1 OFFSET_COMMIT_V2]; npb_tac.
Qed.

(* ---- metadata, offsets, produce: no panic at all ------------------------------------------ *)
Lemma mnp_fetch_metadata_hosts corr topics : forall hs, mnp (fetch_metadata_hosts corr topics hs).
Proof.
  induction hs as [|h r IH]; cbn [fetch_metadata_hosts]; [mnp_tac|].
  apply mnp_bind; [mnp_tac|]. intros c.
  apply mnp_bind; [apply mnp_mtry; mnp_tac|]. intros rc. destruct rc; try exact IH.
  apply mnp_bind; [apply mnp_mtry, mnp_send_request, npb_enc_metadata_req|]. intros rs.
  destruct rs; try exact IH.
  apply mnp_get_response. intros b. apply no_panic_npb, C13_decode_metadata.
Qed.
Lemma mnp_fetch_metadata topics : mnp (fetch_metadata topics).
Proof. unfold fetch_metadata. mnp_tac. apply mnp_fetch_metadata_hosts. Qed.
Lemma mnp_load_metadata topics : mnp (load_metadata topics).
Proof.
  unfold load_metadata. apply mnp_bind; [apply mnp_fetch_metadata|]. intros md.
  apply mnp_bind; [mnp_tac|]. intros c. apply mnp_bind; [|intros s'; mnp_tac].
  apply mnp_lift. destruct (C13_metadata_update_total (cs c) md) as [s' ->]. exact I.
Qed.
Lemma mnp_load_metadata_all : mnp load_metadata_all.
Proof. unfold load_metadata_all. apply mnp_bind; [unfold reset_metadata; mnp_tac|intros _; apply mnp_load_metadata]. Qed.

Lemma npb_merge_topics {P V} (conv : P -> V + Z) pid : forall tps m, npb (merge_topics conv pid tps m).
Proof.
  induction tps as [|[t ps] r IH]; intros m; cbn [merge_topics]; [exact I|].
  destruct (collect conv pid ps []) as [vs|[p code]]; [apply IH|exact I].
Qed.
Lemma mnp_offsets_exchange {P V} enc (d : dec (Z * list (bytes * list P))) (conv : P -> V + Z) pid :
  (forall tps, npb (enc tps)) -> (forall b, npb (d b)) ->
  forall reqs m, mnp (offsets_exchange enc d conv pid reqs m).
Proof.
  intros He Hd. induction reqs as [|[h tps] r IH]; intros m; cbn [offsets_exchange]; [mnp_tac|].
  apply mnp_bind; [apply mnp_send_receive; [exact Hd|apply He]|]. intros [c rtps].
  apply mnp_bind; [apply mnp_lift, npb_merge_topics|]. intros m'. apply IH.
Qed.
Lemma mnp_fetch_offsets topics time : mnp (fetch_offsets topics time).
Proof.
  unfold fetch_offsets. mnp_tac. apply mnp_offsets_exchange.
  - intros tps. apply npb_enc_offset_req.
  - intros b. apply no_panic_npb, C13_decode_offsets.
Qed.
Lemma mnp_list_offsets topics time : mnp (list_offsets topics time).
Proof.
  unfold list_offsets. mnp_tac. apply mnp_offsets_exchange.
  - intros tps. apply npb_enc_list_offsets_req.
  - intros b. apply no_panic_npb, C13_decode_list_offsets.
Qed.
Lemma mnp_fetch_topic_offsets topic time : mnp (fetch_topic_offsets topic time).
Proof. unfold fetch_topic_offsets. apply mnp_bind; [apply mnp_fetch_offsets|]. intros m. mnp_tac. Qed.
Lemma mnp_internal_produce_messages acks timeout msgs : mnp (internal_produce_messages acks timeout msgs).
Proof. unfold internal_produce_messages. mnp_tac. apply mnp_produce_exchange. Qed.
Lemma mnp_produce_messages acks t msgs : mnp (produce_messages acks t msgs).
Proof.
  unfold produce_messages. apply mnp_bind; [|intros x; apply mnp_internal_produce_messages].
  apply mnp_lift. unfold to_millis_i32. destruct (_ <? _); exact I.
Qed.

(* Metadata, Offset, ListOffsets and Produce: whatever the brokers send, every one of these
   operations returns Ok or Err *)
Theorem C13_client_ops_no_panic : forall s w,
  (forall topics, fst (fetch_metadata topics s) <> Panic w)
  /\ (forall topics, fst (load_metadata topics s) <> Panic w)
  /\ fst (load_metadata_all s) <> Panic w
  /\ (forall topics time, fst (fetch_offsets topics time s) <> Panic w)
  /\ (forall topics time, fst (list_offsets topics time s) <> Panic w)
  /\ (forall topic time, fst (fetch_topic_offsets topic time s) <> Panic w)
  /\ (forall acks timeout msgs, fst (produce_messages acks timeout msgs s) <> Panic w)
  /\ (forall src calls, fst (producer_create src calls s) <> Panic w).
Proof.
  intros s w.
  assert (K : forall A (m : M A), mnp m -> fst (m s) <> Panic w).
  { intros A m H E. specialize (H s). rewrite E in H. exact H. }
  repeat split; intros; apply K.
  - apply mnp_fetch_metadata.
  - apply mnp_load_metadata.
  - apply mnp_load_metadata_all.
  - apply mnp_fetch_offsets.
  - apply mnp_list_offsets.
  - apply mnp_fetch_topic_offsets.
  - apply mnp_produce_messages.
  - unfold producer_create. cbv zeta. apply mnp_bind; [mnp_tac|]. intros c.
    apply mnp_bind; [mnp_tac|]. intros _.
    apply mnp_bind; [apply mnp_lift; unfold to_millis_i32; destruct (_ <? _); exact I|]. intros t.
    apply mnp_bind; [destruct src; [apply mnp_load_metadata_all|mnp_tac]|]. intros _. mnp_tac.
Qed.

(* ---- fetch_messages: only the two characterised escapes of the fetch decoder ----------------- *)
Definition fetch_panic (w : bytes) : Prop := w = alloc_tag \/ w = dbg_tag.

Lemma mpw_fetch_exchange corr : forall reqs acc, mpw fetch_panic (fetch_exchange corr reqs acc).
Proof.
  induction reqs as [|[h tps] r IH]; intros acc; cbn [fetch_exchange]; [mpw_easy|].
  apply mpw_bind; [mpw_easy|]. intros c. apply mpw_bind; [mpw_easy|]. intros e.
  apply mpw_bind; [mpw_easy|]. intros fo. cbv zeta.
  apply mpw_bind; [mpw_easy|]. intros _.
  apply mpw_bind; [apply mpw_of_mnp, mnp_send_request, npb_enc_fetch_req|]. intros _.
  apply mpw_bind; [mpw_easy|]. intros b.
  apply mpw_bind; [|intros resp; apply IH].
  apply mpw_lift. intros w Hw.
  destruct (C13_fetch_response_outcomes e decode_depth (fetch_crc_validation (cfg c)) tps b) as [[H|[H|H]]|[_ H]];
    rewrite Hw in H.
  - contradiction.
  - left. unfold alloc_panic in H. inversion H. reflexivity.
  - discriminate.
  - right. inversion H. reflexivity.
Qed.

Theorem C13_fetch_messages_panics : forall input s w,
  fst (fetch_messages input s) = Panic w -> w = alloc_tag \/ w = dbg_tag.
Proof.
  intros input s w. revert s w. change (mpw fetch_panic (fetch_messages input)).
  unfold fetch_messages. apply mpw_bind; [mpw_easy|]. intros corr.
  apply mpw_bind; [mpw_easy|]. intros c. apply mpw_bind; [mpw_easy|]. intros reqs.
  apply mpw_fetch_exchange.
Qed.

(* ---- the group operations: only "no connection to ask for the coordinator" --------------------- *)
Definition conn_panic (w : bytes) : Prop := w = tag "available connection".

Lemma mpw_lookup_loop group req : npb req ->
  forall fuel attempt, mpw conn_panic (group_lookup_loop fuel group req attempt).
Proof.
  intros Hq. induction fuel as [|f IH]; intros attempt; cbn [group_lookup_loop]; [mpw_easy|].
  apply mpw_bind.
  - intros s w Hw. exact (proj1 (group_lookup_panic req s w Hq Hw)).
  - intros r. destruct (from_protocol (gc_error r)) as [code|]; [|mpw_easy].
    destruct (code =? KC_GroupCoordinatorNotAvailable); [|mpw_easy].
    apply mpw_bind; [mpw_easy|]. intros c.
    destruct (attempt <? retry_max_attempts (cfg c)); [apply IH|mpw_easy].
Qed.
Lemma mpw_get_group_coordinator group : mpw conn_panic (get_group_coordinator group).
Proof.
  unfold get_group_coordinator. apply mpw_bind; [mpw_easy|]. intros c.
  destruct (group_coordinator (cs c) group); [mpw_easy|].
  apply mpw_bind; [mpw_easy|]. intros corr. apply mpw_with_fuel. intros f.
  apply mpw_lookup_loop, npb_enc_group_coordinator_req.
Qed.
Lemma mpw_commit_loop group req : npb req ->
  forall fuel attempt, mpw conn_panic (commit_loop fuel group req attempt).
Proof.
  intros Hq. induction fuel as [|f IH]; intros attempt; cbn [commit_loop]; [mpw_easy|].
  apply mpw_bind; [apply mpw_get_group_coordinator|]. intros h.
  apply mpw_bind.
  { apply mpw_of_mnp, mnp_send_receive; [|exact Hq]. intros b. apply no_panic_npb, C13_decode_offset_commit. }
  intros [c tps]. destruct (commit_scan tps) as [|code reset|c0]; [mpw_easy| |mpw_easy].
  apply mpw_bind; [mpw_easy|]. intros c1.
  apply mpw_bind; [destruct reset; mpw_easy|]. intros _.
  destruct (attempt <? retry_max_attempts (cfg c1)); [apply IH|mpw_easy].
Qed.
Lemma mpw_group_fetch_loop group req : npb req ->
  forall fuel attempt, mpw conn_panic (group_fetch_loop fuel group req attempt).
Proof.
  intros Hq. induction fuel as [|f IH]; intros attempt; cbn [group_fetch_loop]; [mpw_easy|].
  apply mpw_bind; [apply mpw_get_group_coordinator|]. intros h.
  apply mpw_bind.
  { apply mpw_of_mnp, mnp_send_receive; [|exact Hq]. intros b. apply no_panic_npb, C13_decode_offset_fetch. }
  intros [c tps]. destruct (group_scan tps []) as [[m|[code reset]]|c0]; [mpw_easy| |mpw_easy].
  apply mpw_bind; [mpw_easy|]. intros c1.
  apply mpw_bind; [destruct reset; mpw_easy|]. intros _.
  destruct (attempt <? retry_max_attempts (cfg c1)); [apply IH|mpw_easy].
Qed.
Lemma mpw_commit_offsets group os : mpw conn_panic (commit_offsets group os).
Proof.
  unfold commit_offsets. apply mpw_bind; [mpw_easy|]. intros c.
  destruct (offset_storage (cfg c) <? 0); [mpw_easy|].
  apply mpw_bind; [mpw_easy|]. intros corr.
  destruct (commit_tps (cs c) os []) as [[|tp tps]|]; [mpw_easy| |mpw_easy].
  apply mpw_with_fuel. intros f. apply mpw_commit_loop, npb_enc_offset_commit_req.
Qed.
Lemma mpw_fetch_group_offsets group ps : mpw conn_panic (fetch_group_offsets group ps).
Proof.
  unfold fetch_group_offsets. apply mpw_bind; [mpw_easy|]. intros c.
  destruct (offset_storage (cfg c) <? 0); [mpw_easy|].
  apply mpw_bind; [mpw_easy|]. intros corr.
  destruct (group_fetch_tps (cs c) ps []) as [tps|]; [|mpw_easy].
  apply mpw_with_fuel. intros f. apply mpw_group_fetch_loop, npb_enc_offset_fetch_req.
Qed.
Lemma mpw_fetch_group_topic_offset group topic : mpw conn_panic (fetch_group_topic_offset group topic).
Proof.
  unfold fetch_group_topic_offset. apply mpw_bind; [mpw_easy|]. intros c.
  destruct (offset_storage (cfg c) <? 0); [mpw_easy|].
  apply mpw_bind; [mpw_easy|]. intros corr.
  destruct (partitions_for (cs c) topic) as [ps|]; [|mpw_easy]. cbv zeta.
  apply mpw_bind; [|intros m; mpw_easy].
  apply mpw_with_fuel. intros f. apply mpw_group_fetch_loop, npb_enc_offset_fetch_req.
Qed.

(* GroupCoordinator / OffsetCommit / OffsetFetch: no reply makes these operations panic; the one
   panic they have ("available connection", C13_group_lookup_outside_known) needs an empty or
   unusable connection pool *)
Theorem C13_group_ops_panics : forall group s w,
  (fst (get_group_coordinator group s) = Panic w -> w = tag "available connection")
  /\ (forall os, fst (commit_offsets group os s) = Panic w -> w = tag "available connection")
  /\ (forall ps, fst (fetch_group_offsets group ps s) = Panic w -> w = tag "available connection")
  /\ (forall topic, fst (fetch_group_topic_offset group topic s) = Panic w -> w = tag "available connection").
Proof.
  intros group s w. repeat split; intros.
  - eapply mpw_get_group_coordinator; eassumption.
  - eapply mpw_commit_offsets; eassumption.
  - eapply mpw_fetch_group_offsets; eassumption.
  - eapply mpw_fetch_group_topic_offset; eassumption.
Qed.

(* ---- the Consumer layer ---------------------------------------------------------------------- *)
(* Consumer::poll as an I/O operation: it panics only with the two escapes of the fetch decoder
   (the panics of the response processing are values of the poll, C13_poll_layer_outside_known) *)
Theorem C13_consumer_poll_panics : forall k s w,
  fst (consumer_poll k s) = Panic w -> w = alloc_tag \/ w = dbg_tag.
Proof.
  intros k s w. unfold consumer_poll, consumer_fetch. destruct (k_retry k) as [|tp rest].
  - unfold mbind, mtry, ret, get_client, get_env.
    destruct (fetch_messages _ s) as [[a|e|w'] s1] eqn:E; cbn [fst]; try discriminate.
    intros H. inversion H; subst. eapply C13_fetch_messages_panics. rewrite E. reflexivity.
  - destruct (tk_get tp (k_fetch k)) as [[off maxb]|].
    + unfold mbind, mtry, ret, get_client, get_env.
      destruct (fetch_messages _ s) as [[a|e|w'] s1] eqn:E; cbn [fst]; try discriminate.
      intros H. inversion H; subst. eapply C13_fetch_messages_panics. rewrite E. reflexivity.
    + unfold mbind, ret, get_client, get_env. cbn [fst]. discriminate.
Qed.

Lemma commit_entries_panic dbg : forall es w, commit_entries dbg es = Panic w -> w = overflow_tag /\ dbg = true.
Proof.
  induction es as [|[[t p] o] r IH]; intros w; cbn [commit_entries]; [discriminate|].
  destruct (i64_op_cases dbg (o + 1)) as [[_ ->]|[[_ [_ ->]]|[_ [Hd ->]]]]; cbn [bind].
  - destruct (commit_entries dbg r) as [x|e|w']; cbn [bind]; try discriminate.
    intros H. inversion H; subst. apply IH. reflexivity.
  - destruct (commit_entries dbg r) as [x|e|w']; cbn [bind]; try discriminate.
    intros H. inversion H; subst. apply IH. reflexivity.
  - intros H. inversion H. auto.
Qed.

Lemma mnp_pop_entries : mnp pop_entries.
Proof. intros s. unfold pop_entries. destruct (entryq s); exact I. Qed.

(* Consumer::commit_consumed: the debug-build overflow of `offset + 1` (C13_commit_overflow_finding)
   or the missing connection of the coordinator lookup; no reply to the commit itself *)
Theorem C13_commit_consumed_panics : forall k s w,
  fst (commit_consumed k s) = Panic w ->
  (w = overflow_tag /\ debug_build (env s) = true) \/ w = tag "available connection".
Proof.
  intros k s w. unfold commit_consumed. destruct (k_group k) as [|g0 g]; [cbn; discriminate|].
  unfold mbind at 1. unfold get_env at 1. cbv beta iota.
  unfold mbind at 1.
  assert (Hpe : forall s0, script (snd (pop_entries s0)) = script s0 /\ env (snd (pop_entries s0)) = env s0
                           /\ npb (fst (pop_entries s0))).
  { intros s0. unfold pop_entries. destruct (entryq s0); cbn; auto. }
  set (m0 := match dirty_entries k with [] => ret [] | _ :: _ => pop_entries end).
  assert (Hm0 : npb (fst (m0 s))).
  { unfold m0. destruct (dirty_entries k); [exact I|apply Hpe]. }
  destruct (m0 s) as [[order|e|w0] s1]; cbn [fst npb] in Hm0; [|cbn; discriminate|contradiction].
  unfold mbind at 1. unfold lift at 1.
  destruct (commit_entries (debug_build (env s)) (reorder_entries order (dirty_entries k))) as [os|e|w0] eqn:Ec.
  - intros H. right. revert H. unfold mbind at 1.
    pose proof (mpw_commit_offsets (g0 :: g) os s1 w) as Hc.
    destruct (commit_offsets (g0 :: g) os s1) as [[u|e|w1] s2]; cbn [fst] in *.
    + unfold mbind, get_client, ret. cbn. discriminate.
    + discriminate.
    + intros H. apply Hc. inversion H; reflexivity.
  - cbn. discriminate.
  - cbn [fst]. intros H. inversion H; subst. left. apply (commit_entries_panic _ _ _ Ec).
Qed.

(* Consumer::create *)
Lemma npb_subscriptions_of s : forall asg, npb (subscriptions_of s asg).
Proof.
  induction asg as [|a r IH]; cbn [subscriptions_of]; [exact I|].
  apply npb_bind.
  - unfold determine_partitions. destruct (partitions_for s (fst a)); [|exact I].
    destruct (snd a); [exact I|]. destruct (forallb _ _); exact I.
  - intros ps. apply npb_bind; [exact IH|]. intros rest. exact I.
Qed.
Lemma fallback_states_panic asg offsets maxb : forall subs acc w,
  fallback_states asg offsets maxb subs acc = Panic w -> w = tag "unassigned subscription".
Proof.
  induction subs as [|[t ps] rest IH]; intros acc w; cbn [fallback_states]; [discriminate|].
  destruct (topic_ref asg t); [|intros H; inversion H; reflexivity].
  destruct (assoc_bytes t offsets); [apply IH|discriminate].
Qed.
Lemma mnp_load_partition_offsets topics time : mnp (load_partition_offsets topics time).
Proof. unfold load_partition_offsets. apply mnp_bind; [apply mnp_fetch_offsets|]. intros m. mnp_tac. Qed.

Definition create_panic (w : bytes) : Prop :=
  w = tag "available connection" \/ w = tag "non-assigned topic"
  \/ w = tag "unassigned subscription" \/ w = overflow_tag.

Theorem C13_consumer_create_panics : forall src calls s w,
  fst (consumer_create src calls s) = Panic w ->
  w = tag "available connection" \/ w = tag "non-assigned topic"
  \/ w = tag "unassigned subscription" \/ w = overflow_tag.
Proof.
  intros src calls s w. revert s w. change (mpw create_panic (consumer_create src calls)).
  unfold consumer_create. cbv zeta. destruct (cb_assign _) as [|a0 asg0] eqn:Ea; [mpw_easy|]. rewrite <- Ea. clear Ea.
  apply mpw_bind; [mpw_easy|]. intros c.
  apply mpw_bind; [apply mpw_of_mnp, mnp_lift; unfold to_millis_i32; destruct (_ <? _); exact I|]. intros wait.
  apply mpw_bind; [mpw_easy|]. intros _.
  apply mpw_bind; [destruct src; [apply mpw_of_mnp, mnp_load_metadata_all|mpw_easy]|]. intros _.
  apply mpw_bind; [mpw_easy|]. intros c1.
  apply mpw_bind; [apply mpw_of_mnp, mnp_lift, npb_subscriptions_of|]. intros subs.
  apply mpw_bind.
  { unfold load_consumed_offsets. destruct (cb_group _); [mpw_easy|].
    apply mpw_bind; [eapply mpw_weaken; [|apply mpw_fetch_group_offsets]; intros w H; left; exact H|].
    intros tpos. apply mpw_bind; [mpw_easy|]. intros e. apply mpw_lift. intros w Hw.
    pose proof (C13_consumer_init_outside_known (debug_build e) (from_map (cb_assign (fold_left cbuilder_apply calls (cbuilder_new src)))) tpos []) as H.
    rewrite Hw in H. destruct H as [[H _]|[H _]]; unfold create_panic; auto. }
  intros consumed. apply mpw_bind; [|intros fetch; mpw_easy].
  unfold load_fetch_states. apply mpw_bind; [mpw_easy|]. intros c2.
  apply mpw_bind; [mpw_easy|]. intros e. cbv zeta. destruct consumed as [|x consumed'].
  - apply mpw_bind; [apply mpw_of_mnp, mnp_load_partition_offsets|]. intros offsets.
    apply mpw_lift. intros w Hw. apply fallback_states_panic in Hw. unfold create_panic; auto.
  - apply mpw_bind; [apply mpw_of_mnp, mnp_load_partition_offsets|]. intros latest.
    apply mpw_bind; [apply mpw_of_mnp, mnp_load_partition_offsets|]. intros earliest.
    apply mpw_lift. intros w Hw.
    match type of Hw with range_states ?a ?b ?c ?d ?e0 ?f ?g ?h ?i = _ =>
      pose proof (C13_range_states_outside_known a b c d e0 f g h i) as H end.
    rewrite Hw in H. destruct H as [[H _]|[H _]]; unfold create_panic; auto.
Qed.

(* ---- non-vacuity of Part D: hostile replies to the public operations -------------------------- *)
Definition ex_reply (resp : bytes) : list ev_out := [OWrote 100000; OData (enc_i32 (ulen resp)); OData resp].
Definition ex_md_client : client := {| cfg := ex_cfg_limit 3; cs := ex_group_cs true; conns := [tag "h:1"] |}.
Definition ex_nocrc_client : client :=
  let g := ex_cfg_limit 3 in
  {| cfg := {| client_id := client_id g; hosts := hosts g; compression := compression g;
               fetch_max_wait_time := fetch_max_wait_time g; fetch_min_bytes := fetch_min_bytes g;
               fetch_max_bytes_per_partition := fetch_max_bytes_per_partition g;
               fetch_crc_validation := false; offset_storage := offset_storage g;
               retry_backoff_time := retry_backoff_time g; retry_max_attempts := retry_max_attempts g;
               idle_timeout := idle_timeout g |};
     cs := ex_group_cs true; conns := [tag "h:1"] |}.

(* a Metadata reply whose broker count is 2^31-1; a ListOffsets reply cut after the topic name;
   an OffsetFetch reply for a topic nobody asked for with partition id -2^31; a fetch reply
   carrying the 4 GiB snappy chunk header *)
Example ex_ops_hostile :
  fst (load_metadata_all (ex_st (ex_reply (enc_i32 1 ++ enc_i32 2147483647 ++ enc_i32 7)) ex_md_client false))
    = Err (EIo IoUnexpectedEof)
  /\ fst (list_offsets [tag "tp"] (-1)
            (ex_st (ex_reply (enc_i32 1 ++ enc_i32 1 ++ enc_i16 2 ++ tag "tp")) ex_md_client false))
    = Err (EIo IoUnexpectedEof)
  /\ fst (fetch_group_offsets (tag "g") [(tag "tp", 0)]
            (ex_st (ex_reply (enc_i32 1 ++ enc_i32 1 ++ enc_i16 1 ++ tag "x" ++ enc_i32 1
                              ++ (enc_i32 (-2147483648) ++ enc_i64 9 ++ enc_i16 0 ++ enc_i16 0)))
                   ex_md_client false))
    = Ok [(tag "x", [(-2147483648, 9)])]
  /\ fst (fetch_messages [{| fq_topic := tag "tp"; fq_partition := 0; fq_offset := 0; fq_max_bytes := 0 |}]
            (ex_st (ex_reply (ex_fetch ex_alloc_set)) ex_nocrc_client false))
    = Panic alloc_tag
  /\ fst (get_group_coordinator (tag "other")
            (ex_st [] {| cfg := ex_cfg_limit 3; cs := ex_group_cs true; conns := [] |} false))
    = Panic (tag "available connection").
Proof. vm_compute. repeat split; reflexivity. Qed.

Print Assumptions C13_snappy_reader_total.
Print Assumptions C13_snappy_chunk_past_end.
Print Assumptions C13_snappy_stream_chunk_past_end.
Print Assumptions C13_producer_send_all_no_panic.
Print Assumptions C13_partition_no_available.
Print Assumptions C13_producer_send_no_available.
Print Assumptions C13_group_loops_budget.
Print Assumptions C13_group_loops_iterations.
Print Assumptions C13_client_ops_no_panic.
Print Assumptions C13_fetch_messages_panics.
Print Assumptions C13_group_ops_panics.
Print Assumptions C13_consumer_poll_panics.
Print Assumptions C13_commit_consumed_panics.
Print Assumptions C13_consumer_create_panics.
