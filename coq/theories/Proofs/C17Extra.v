(* C17, additional theorems (mutation adequacy).

   What the theorems of Props/C17.v did not pin down, although the model expresses it:
   (A) WHERE MessageSizeTooLarge may come from at the level of a whole poll: only from a poll that asked for one
       partition (n = 1).  A regular poll of a multi-partition consumer (n <> 1) fails only because the broker
       reported a partition error, and then nothing has been changed; otherwise it succeeds and hands out
       every response ("other partitions keep being delivered without loss").
       C17_poll_error_cases, C17_regular_error_is_broker_error, C17_regular_poll_ok, C17_regular_poll_error.
       (Seeded change C17-2 - "single partition request" derived per response - falsifies the first three.)
   (B) the step theorems C17_double / C17_requeue lifted to a whole multi-response, multi-topic poll:
       every partition that came back empty below its high-watermark has its size doubled (capped) or kept
       and IS IN THE RETRY QUEUE afterwards (multi-partition consumer), whatever else the responses contain.
       C17_poll_empty_partition.  (Seeded change C17 falsifies it, as it does C17_requeue.)
   (C) "within a bounded number of polls": the retry queue is a FIFO that every poll pops exactly once and only
       appends to; a partition queued at position i is at the head after exactly i polls, is then fetched on
       its own and - if it is still empty and cannot grow - reported.
       C17_poll_retry_extends, C17_poll_queue, C17_queue_fair, C17_queued_reported.
   (D) single-partition consumers never use the queue: C17_single_never_queues.
   (E) the reset of the size for a whole poll of any kind: C17_poll_delivered_resets (seeded change C17-3
       falsifies it, as it does C17_reset). *)
From Coq Require Import ZifyBool.
From KV Require Import Base.Prelude Gen.Consts Model.Codecs Model.Requests Model.Responses
                       Model.ClientState Model.Net Model.Client Model.Consumer.
From KV Require Import Proofs.BytesFacts Proofs.C01Facts Proofs.C17Facts.

(* ---- (A) where an Err of the second pass can come from ------------------------------------------------------ *)
Lemma first_part_error_app a b :
  first_part_error (a ++ b) =
  match first_part_error a with Some c => Some c | None => first_part_error b end.
Proof.
  induction a as [|p a IH]; cbn [app first_part_error]; [reflexivity|].
  destruct (fp_data p); [exact IH|reflexivity].
Qed.

Lemma last_msg_none msgs : last_msg msgs = None -> msgs = [].
Proof.
  destruct msgs as [|m l]; [reflexivity|]. intros H. destruct (last_msg_cons m l) as [m' Hm].
  rewrite Hm in H. discriminate.
Qed.

(* one partition: an Err leaves the state alone and is either the broker's code or MessageSizeTooLarge of a
   one-partition request *)
Lemma process_partition_err dbg single n cm limit r p s e s' :
  process_partition dbg single n cm limit r p s = PErr e s' ->
  s' = s /\
  ((exists c, fp_data p = inr c /\ e = EKafka c) \/
   (n = 1 /\ e = EKafka KC_MessageSizeTooLarge /\
    exists hw off maxb, fp_data p = inl (hw, []) /\ tk_get (r, fp_partition p) (ps_fetch s) = Some (off, maxb) /\
                        off < hw /\ limit <= maxb)).
Proof.
  intros H. destruct (fp_data p) as [[hw msgs]|c] eqn:Hd.
  2:{ unfold process_partition in H. cbv zeta in H. rewrite Hd in H. inversion H; subst. split; [reflexivity|].
      left. exists c. split; reflexivity. }
  destruct (tk_get (r, fp_partition p) (ps_fetch s)) as [[off maxb]|] eqn:Hg.
  2:{ unfold process_partition in H. cbv zeta in H. rewrite Hd, Hg in H. discriminate. }
  rewrite (process_partition_data _ _ _ _ _ _ _ _ _ _ _ _ Hd Hg) in H.
  destruct (last_msg msgs) as [m|] eqn:Hl.
  - destruct (i64_op dbg (m_offset m + 1)) as [o|e1|w] eqn:Ei; try discriminate.
    exfalso. exact (i64_op_not_err _ _ _ Ei).
  - apply last_msg_none in Hl. subst msgs.
    destruct (off <? hw) eqn:E1; [|discriminate].
    destruct (maxb <? limit) eqn:E2; [discriminate|].
    destruct (n =? 1) eqn:E3; [|discriminate].
    inversion H; subst. split; [reflexivity|]. right. split; [lia|]. split; [reflexivity|].
    exists hw, off, maxb. repeat split; try assumption; lia.
Qed.

Lemma process_parts_err dbg single n cm limit r ps : forall s e s',
  process_parts dbg single n cm limit r ps s = PErr e s' ->
  first_part_error ps <> None \/ (n = 1 /\ e = EKafka KC_MessageSizeTooLarge).
Proof.
  induction ps as [|p ps IH]; intros s e s' H; cbn [process_parts] in H; [discriminate|].
  destruct (process_partition dbg single n cm limit r p s) as [s1|e1 s1|w] eqn:Ep; try discriminate.
  - destruct (IH _ _ _ H) as [Hl|Hr]; [|right; exact Hr]. left. cbn [first_part_error].
    destruct (fp_data p); [exact Hl|discriminate].
  - inversion H; subst e1 s1. destruct (process_partition_err _ _ _ _ _ _ _ _ _ _ Ep) as [_ [[c [Hd _]]|[Hn [He _]]]].
    + left. cbn [first_part_error]. rewrite Hd. discriminate.
    + right. split; assumption.
Qed.

Lemma process_topics_err dbg single n cm limit asg ts : forall s e s',
  process_topics dbg single n cm limit asg ts s = PErr e s' ->
  first_part_error (flat_map ft_partitions ts) <> None \/ (n = 1 /\ e = EKafka KC_MessageSizeTooLarge).
Proof.
  induction ts as [|t ts IH]; intros s e s' H; cbn [process_topics] in H; [discriminate|].
  destruct (topic_ref asg (ft_topic t)) as [r|]; [|discriminate].
  cbn [flat_map]. rewrite first_part_error_app.
  destruct (process_parts dbg single n cm limit r (ft_partitions t) s) as [s1|e1 s1|w] eqn:Ep; try discriminate.
  - destruct (IH _ _ _ H) as [Hl|Hr]; [|right; exact Hr]. left.
    destruct (first_part_error (ft_partitions t)); [discriminate|exact Hl].
  - inversion H; subst e1 s1. destruct (process_parts_err _ _ _ _ _ _ _ _ _ _ Ep) as [Hl|Hr]; [|right; exact Hr].
    left. destruct (first_part_error (ft_partitions t)); [discriminate|contradiction].
Qed.

(* Every failing poll, whatever the responses look like (any number of brokers, topics, partitions, any
   order): either the broker reported a partition error - then this code is the error and NOTHING was changed -
   or the poll had asked for exactly one partition and the error is MessageSizeTooLarge. *)
Theorem C17_poll_error_cases : forall dbg k n resps e k',
  process_fetch_responses dbg k n resps = (Err e, k') ->
  (exists c, first_error resps = Some c /\ e = EKafka c /\ k' = k) \/
  (first_error resps = None /\ n = 1 /\ e = EKafka KC_MessageSizeTooLarge).
Proof.
  intros dbg k n resps e k' H. unfold process_fetch_responses in H.
  destruct (first_error resps) as [c|] eqn:Ef.
  - inversion H; subst. left. exists c. auto.
  - cbv zeta in H.
    destruct (process_topics dbg (ulen (k_fetch k) =? 1) n (fetch_max_bytes_per_partition (cfg (k_client k)))
                (k_retry_limit k) (k_assign k) (flat_map fr_topics resps)
                {| ps_fetch := k_fetch k; ps_retry := k_retry k; ps_empty := true |}) as [s'|e1 s'|w] eqn:Ep;
      try discriminate.
    inversion H; subst e1 k'. right. split; [reflexivity|].
    destruct (process_topics_err _ _ _ _ _ _ _ _ _ _ Ep) as [Hl|Hr]; [|exact Hr].
    exfalso. apply Hl. exact Ef.
Qed.

(* ... in particular a poll that asked for several partitions never ends in MessageSizeTooLarge on its own
   account, and when it fails no fetch offset, size or queue entry has changed: nothing is lost *)
Theorem C17_regular_error_is_broker_error : forall dbg k n resps e k',
  n <> 1 -> process_fetch_responses dbg k n resps = (Err e, k') ->
  exists c, first_error resps = Some c /\ e = EKafka c /\ k' = k.
Proof.
  intros dbg k n resps e k' Hn H.
  destruct (C17_poll_error_cases _ _ _ _ _ _ H) as [Hc|[_ [H1 _]]]; [exact Hc|contradiction].
Qed.

(* two brokers: t:1 with data in the first response, the oversized t:0 ALONE in the second response *)
Definition resps_two_brokers : list fetch_resp :=
  [ {| fr_corr := 1; fr_topics := [ {| ft_topic := tag "t"; ft_partitions := [p1_msgs] |} ] |};
    {| fr_corr := 2; fr_topics := [ {| ft_topic := tag "t"; ft_partitions := [p0_empty] |} ] |} ].

(* non-vacuity: the broker-error case; and, retrying disabled (limit 0), the regular poll over two brokers is
   Ok, hands out t:1 and queues t:0 - it is NOT MessageSizeTooLarge although t:0 is alone in its response *)
Example C17_regular_error_is_broker_error_ex :
  (2 <> 1 /\ process_fetch_responses true ex_k 2 ex_resps_err = (Err (EKafka 6), ex_k) /\
   first_error ex_resps_err = Some 6) /\
  (let k0 := k17 0 [((0, 0), (5, 32768)); ((0, 1), (7, 32768))] [] in
   let k1 := k17 0 [((0, 0), (5, 32768)); ((0, 1), (10, 32768))] [(0, 0)] in
   first_error resps_two_brokers = None /\
   exists ms, process_fetch_responses true k0 2 resps_two_brokers = (Ok ms, k1) /\
              iterate ms = [(tag "t", 1, [ex_msg 7; ex_msg 8; ex_msg 9])]) /\
  (* the n = 1 disjunct of C17_poll_error_cases *)
  (let k1' := k17 0 [((0, 0), (5, 32768)); ((0, 1), (10, 32768))] [] in
   first_error (resp17 [p0_empty]) = None /\
   process_fetch_responses true k1' 1 (resp17 [p0_empty]) = (Err (EKafka KC_MessageSizeTooLarge), k1')).
Proof.
  cbv zeta. split; [|split].
  - split; [discriminate|]. vm_compute. split; reflexivity.
  - split; [reflexivity|]. eexists. vm_compute. split; reflexivity.
  - vm_compute. split; reflexivity.
Qed.

(* with well-formed responses (C01's `sane`) and no broker error the regular poll SUCCEEDS and hands out all
   the responses it got: an oversized entry on one partition does not keep the others from being delivered *)
Theorem C17_regular_poll_ok : forall dbg k n resps,
  n <> 1 -> sane k resps -> first_error resps = None ->
  exists ms k', process_fetch_responses dbg k n resps = (Ok ms, k') /\ ms_responses ms = resps.
Proof.
  intros dbg k n resps Hn Hs Hf.
  destruct (process_fetch_responses dbg k n resps) as [[ms|e|w] k'] eqn:H.
  - exists ms, k'. split; [reflexivity|]. destruct (pfr_ok _ _ _ _ _ _ H) as [_ [Hms _]]. exact Hms.
  - destruct (C17_regular_error_is_broker_error _ _ _ _ _ _ Hn H) as [c [Hc _]]. rewrite Hf in Hc. discriminate.
  - exfalso. exact (C01_sane_no_panic _ _ _ _ _ _ Hs H).
Qed.

Example C17_regular_poll_ok_ex :
  2 <> 1 /\ sane ex_k ex_resps /\ first_error ex_resps = None /\
  exists ms k', process_fetch_responses true ex_k 2 ex_resps = (Ok ms, k') /\ ms_responses ms = ex_resps /\
                k_retry k' = [].
Proof.
  split; [discriminate|]. split; [exact ex_sane|]. split; [reflexivity|].
  eexists; eexists. vm_compute. repeat split.
Qed.

(* the same at the level of Consumer::poll: a multi-partition consumer with an empty retry queue.  Its poll
   reports an error only if the client's fetch failed or a broker reported a partition error, and the
   consumer is then unchanged (apart from the client state) *)
Theorem C17_regular_poll_error : forall k s e k' s',
  k_retry k = [] -> ulen (k_fetch k) <> 1 ->
  consumer_poll k s = (Ok (Err e, k'), s') ->
  let reqs := map (fun '((tr, p), (off, maxb)) =>
                     {| fq_topic := topic_name k tr; fq_partition := p; fq_offset := off; fq_max_bytes := maxb |})
                  (k_fetch k) in
  (fetch_messages reqs s = (Err e, s') \/
   exists resps c, fetch_messages reqs s = (Ok resps, s') /\ first_error resps = Some c /\ e = EKafka c) /\
  k' = consumer_with_client k (cl s').
Proof.
  intros k s e k' s' Hr Hn H reqs. unfold consumer_poll in H. rewrite (C17_retry_none _ Hr) in H.
  fold reqs in H. unfold mbind, mtry, ret, get_client, get_env in H. cbv beta in H.
  destruct (fetch_messages reqs s) as [[resps|e0|w] s1] eqn:Hf; cbv beta iota in H; try discriminate.
  - inversion H as [[Hp Hs]]. subst s1.
    destruct (C17_regular_error_is_broker_error _ _ _ _ _ _ Hn Hp) as [c [Hc [He Hk]]].
    split; [|exact Hk]. right. exists resps, c. auto.
  - inversion H; subst. split; [left; reflexivity|reflexivity].
Qed.

Example C17_regular_poll_error_ex :
  k_retry (ex_k2 []) = [] /\ ulen (k_fetch (ex_k2 [])) <> 1 /\
  exists k1 s', consumer_poll (ex_k2 []) (ex_st [OConn false]) = (Ok (Err (EIo IoConnRefused), k1), s') /\
                k_fetch k1 = k_fetch (ex_k2 []) /\ k_retry k1 = [].
Proof. split; [reflexivity|]. split; [discriminate|]. eexists; eexists. vm_compute. repeat split. Qed.

(* ---- the retry queue only grows at its end ------------------------------------------------------------------ *)
Lemma process_partition_retry dbg single n cm limit r p s s' :
  process_partition dbg single n cm limit r p s = POk s' ->
  exists a, ps_retry s' = ps_retry s ++ a /\ (single = true -> a = []).
Proof.
  intros H. destruct (fp_data p) as [[hw msgs]|c] eqn:Hd.
  2:{ unfold process_partition in H. cbv zeta in H. rewrite Hd in H. discriminate. }
  destruct (tk_get (r, fp_partition p) (ps_fetch s)) as [[off maxb]|] eqn:Hg.
  2:{ unfold process_partition in H. cbv zeta in H. rewrite Hd, Hg in H. discriminate. }
  rewrite (process_partition_data _ _ _ _ _ _ _ _ _ _ _ _ Hd Hg) in H.
  assert (Hnil : exists a, ps_retry s = ps_retry s ++ a /\ (single = true -> a = [])).
  { exists []. rewrite app_nil_r. auto. }
  assert (Hpush : exists a, (if single then ps_retry s else ps_retry s ++ [(r, fp_partition p)]) = ps_retry s ++ a /\
                            (single = true -> a = [])).
  { destruct single; [exact Hnil|]. eexists. split; [reflexivity|discriminate]. }
  destruct (last_msg msgs) as [m|].
  - destruct (i64_op dbg (m_offset m + 1)) as [o|e|w]; try discriminate.
    inversion H; subst s'. exact Hnil.
  - destruct (off <? hw) eqn:E1.
    + destruct (maxb <? limit) eqn:E2.
      * inversion H; subst s'. exact Hpush.
      * destruct (n =? 1) eqn:E3; [discriminate|]. inversion H; subst s'. exact Hpush.
    + inversion H; subst s'. exact Hnil.
Qed.

Definition retry_ext (single : bool) (s : pstate) (x : pres) : Prop :=
  match x with
  | POk s' => exists a, ps_retry s' = ps_retry s ++ a /\ (single = true -> a = [])
  | PErr _ s' => exists a, ps_retry s' = ps_retry s ++ a /\ (single = true -> a = [])
  | PPanic _ => True
  end.

Lemma retry_ext_trans single s s1 x :
  (exists a, ps_retry s1 = ps_retry s ++ a /\ (single = true -> a = [])) ->
  retry_ext single s1 x -> retry_ext single s x.
Proof.
  intros [a [Ha Hs]] H.
  destruct x as [s'|e s'|w]; cbn [retry_ext] in *; [| |exact I];
    destruct H as [b [Hb Hsb]]; exists (a ++ b); (split; [rewrite Hb, Ha, app_assoc; reflexivity|]);
    intros Ht; rewrite (Hs Ht), (Hsb Ht); reflexivity.
Qed.

Lemma retry_ext_refl single s x :
  match x with POk s' => s' = s | PErr _ s' => s' = s | PPanic _ => True end -> retry_ext single s x.
Proof.
  destruct x as [s'|e s'|w]; cbn [retry_ext]; intros H; [| |exact I]; subst s'; exists [];
    rewrite app_nil_r; auto.
Qed.

Lemma process_parts_retry dbg single n cm limit r ps : forall s,
  retry_ext single s (process_parts dbg single n cm limit r ps s).
Proof.
  induction ps as [|p ps IH]; intros s; cbn [process_parts].
  - apply retry_ext_refl. reflexivity.
  - destruct (process_partition dbg single n cm limit r p s) as [s1|e1 s1|w] eqn:Ep.
    + apply (retry_ext_trans _ _ s1); [|apply IH]. apply (process_partition_retry _ _ _ _ _ _ _ _ _ Ep).
    + apply retry_ext_refl. destruct (process_partition_err _ _ _ _ _ _ _ _ _ _ Ep) as [Hs _]. exact Hs.
    + exact I.
Qed.

Lemma process_topics_retry dbg single n cm limit asg ts : forall s,
  retry_ext single s (process_topics dbg single n cm limit asg ts s).
Proof.
  induction ts as [|t ts IH]; intros s; cbn [process_topics].
  - apply retry_ext_refl. reflexivity.
  - destruct (topic_ref asg (ft_topic t)) as [r|]; [|exact I].
    pose proof (process_parts_retry dbg single n cm limit r (ft_partitions t) s) as Hp.
    destruct (process_parts dbg single n cm limit r (ft_partitions t) s) as [s1|e1 s1|w]; [|exact Hp|exact I].
    apply (retry_ext_trans _ _ s1); [exact Hp|apply IH].
Qed.

(* whatever the outcome of the second pass (Ok, Err, panic), the queue afterwards is the queue before plus
   what was appended; a single-partition consumer appends nothing *)
Theorem C17_poll_retry_extends : forall dbg k n resps r k',
  process_fetch_responses dbg k n resps = (r, k') ->
  exists a, k_retry k' = k_retry k ++ a /\ (ulen (k_fetch k) = 1 -> a = []).
Proof.
  intros dbg k n resps r k' H. unfold process_fetch_responses in H.
  assert (Hnil : exists a, k_retry k = k_retry k ++ a /\ (ulen (k_fetch k) = 1 -> a = [])).
  { exists []. rewrite app_nil_r. auto. }
  destruct (first_error resps) as [c|]; [inversion H; subst; exact Hnil|]. cbv zeta in H.
  pose proof (process_topics_retry dbg (ulen (k_fetch k) =? 1) n (fetch_max_bytes_per_partition (cfg (k_client k)))
                (k_retry_limit k) (k_assign k) (flat_map fr_topics resps)
                {| ps_fetch := k_fetch k; ps_retry := k_retry k; ps_empty := true |}) as Hx.
  destruct (process_topics dbg (ulen (k_fetch k) =? 1) n (fetch_max_bytes_per_partition (cfg (k_client k)))
              (k_retry_limit k) (k_assign k) (flat_map fr_topics resps)
              {| ps_fetch := k_fetch k; ps_retry := k_retry k; ps_empty := true |}) as [s'|e s'|w];
    inversion H; subst; cbn [retry_ext ps_retry consumer_with k_retry] in *; try exact Hnil;
    destruct Hx as [a [Ha Hs]]; exists a; (split; [exact Ha|]); intros H1; apply Hs; lia.
Qed.

(* (D) single-partition consumers never use the retry queue *)
Theorem C17_single_never_queues : forall dbg k n resps r k',
  ulen (k_fetch k) = 1 -> process_fetch_responses dbg k n resps = (r, k') -> k_retry k' = k_retry k.
Proof.
  intros dbg k n resps r k' H1 H. destruct (C17_poll_retry_extends _ _ _ _ _ _ H) as [a [Ha Hs]].
  rewrite Ha, (Hs H1), app_nil_r. reflexivity.
Qed.

Example C17_single_never_queues_ex :
  let ks := k17 100000 [((0, 0), (5, 32768))] [] in
  ulen (k_fetch ks) = 1 /\
  exists ms k', process_fetch_responses true ks 1 (resp17 [p0_empty]) = (Ok ms, k') /\
                k_retry k' = [] /\ k_fetch k' = [((0, 0), (5, 65536))].
Proof. cbv zeta. split; [reflexivity|]. eexists; eexists. vm_compute. repeat split. Qed.

(* ---- (B) one entry of a whole poll --------------------------------------------------------------------------- *)
Lemma process_entries_retry dbg single n cm limit es : forall s s',
  process_entries dbg single n cm limit es s = POk s' -> exists a, ps_retry s' = ps_retry s ++ a.
Proof.
  induction es as [|e es IH]; intros s s' H; cbn [process_entries] in H.
  - inversion H; subst. exists []. rewrite app_nil_r. reflexivity.
  - destruct (process_partition dbg single n cm limit (snd (fst e)) (snd e) s) as [s1|e1 s1|w] eqn:Ep;
      try discriminate.
    destruct (process_partition_retry _ _ _ _ _ _ _ _ _ Ep) as [a [Ha _]].
    destruct (IH _ _ H) as [b Hb]. exists (a ++ b). rewrite Hb, Ha, app_assoc. reflexivity.
Qed.

(* with distinct keys, the step of an entry sees the entry's initial fetch state and its result is final *)
Lemma process_entries_local dbg single n cm limit es : forall s s' e,
  NoDup (map e_key es) -> process_entries dbg single n cm limit es s = POk s' -> In e es ->
  exists s1 s2,
    process_partition dbg single n cm limit (snd (fst e)) (snd e) s1 = POk s2 /\
    tk_get (e_key e) (ps_fetch s1) = tk_get (e_key e) (ps_fetch s) /\
    tk_get (e_key e) (ps_fetch s') = tk_get (e_key e) (ps_fetch s2) /\
    exists b, ps_retry s' = ps_retry s2 ++ b.
Proof.
  induction es as [|e0 es IH]; intros s s' e Hnd H Hin; [destruct Hin|].
  cbn [process_entries] in H. cbn [map] in Hnd. inversion Hnd as [|? ? Hnot Hnd']; subst.
  destruct (process_partition dbg single n cm limit (snd (fst e0)) (snd e0) s) as [s1|e1 s1|w] eqn:Ep;
    try discriminate.
  destruct Hin as [Heq|Hin].
  - subst e0. exists s, s1. split; [exact Ep|]. split; [reflexivity|]. split.
    + apply (process_entries_frame _ _ _ _ _ _ _ _ _ H Hnot).
    + apply (process_entries_retry _ _ _ _ _ _ _ _ H).
  - destruct (IH _ _ _ Hnd' H Hin) as [t1 [t2 [Hstep [Hg1 [Hg2 Hb]]]]].
    exists t1, t2. split; [exact Hstep|]. split; [|split; [exact Hg2|exact Hb]].
    rewrite Hg1. apply (process_partition_frame _ _ _ _ _ _ _ _ _ _ Ep).
    intros Heq. apply Hnot. change (snd (fst e0), fp_partition (snd e0)) with (e_key e0) in Heq.
    rewrite <- Heq. apply in_map. exact Hin.
Qed.

Lemma resolve_nodup_keys asg ts es :
  resolve asg ts = Some es ->
  NoDup (map entry_label (flat_map (fun ft => map (fun fp => (ft_topic ft, fp)) (ft_partitions ft)) ts)) ->
  NoDup (map e_key es).
Proof.
  intros Hres Hnd. pose proof (resolve_in _ _ _ Hres) as Hin_es.
  apply (NoDup_map_transfer e_label e_key).
  - intros [[t1 r1] p1] [[t2 r2] p2] H1 H2 Heq. unfold e_key, e_label in *. cbn [fst snd] in *.
    inversion Heq; subst. apply Hin_es in H1. apply Hin_es in H2.
    destruct H1 as [f1 [_ [Ht1 [Hr1 _]]]]. destruct H2 as [f2 [_ [Ht2 [Hr2 _]]]].
    subst t1 t2. rewrite (topic_ref_inj _ _ _ _ Hr1 Hr2). congruence.
  - replace (map e_label es) with (map entry_label (map (fun e : entry => (fst (fst e), snd e)) es)).
    + rewrite (resolve_names _ _ _ Hres). exact Hnd.
    + rewrite map_map. reflexivity.
Qed.

(* A successful poll, any number of responses / topics / partitions in any order, no (topic, partition) listed
   twice.  Every partition that is listed empty although its high-watermark is beyond the fetch offset:
   - keeps its offset; its size is doubled (saturating, capped at the limit) if it was below the limit and is
     unchanged otherwise;
   - in a multi-partition consumer it is in the retry queue afterwards - in BOTH cases: the queue is the only
     way to the one-partition fetch that can report MessageSizeTooLarge;
   - and if the size could not grow, the poll was one for several partitions (a one-partition poll would have
     reported the error, C17_alone_too_large). *)
Theorem C17_poll_empty_partition : forall dbg k n resps ms k' rs ft p r hw off maxb,
  process_fetch_responses dbg k n resps = (Ok ms, k') ->
  NoDup (map entry_label (resp_entries resps)) ->
  In rs resps -> In ft (fr_topics rs) -> In p (ft_partitions ft) ->
  topic_ref (k_assign k) (ft_topic ft) = Some r ->
  fp_data p = inl (hw, []) -> tk_get (r, fp_partition p) (k_fetch k) = Some (off, maxb) -> off < hw -> 0 < maxb ->
  tk_get (r, fp_partition p) (k_fetch k') =
    Some (off, if maxb <? k_retry_limit k then Z.min (Z.min (2 * maxb) i32_max) (k_retry_limit k) else maxb) /\
  (ulen (k_fetch k) <> 1 -> In (r, fp_partition p) (k_retry k')) /\
  (k_retry_limit k <= maxb -> n <> 1).
Proof.
  intros dbg k n resps ms k' rs ft p r hw off maxb H Hnd Hrs Hft Hp Hr Hd Hg Hhw Hpos.
  destruct (pfr_ok _ _ _ _ _ _ H) as [_ [_ [es [s' [Hres [Hes [_ Hk']]]]]]].
  subst k'. cbn [consumer_with k_fetch k_retry].
  assert (Hin : In (ft_topic ft, r, p) es).
  { apply (resolve_in _ _ _ Hres). exists ft. repeat split; auto. apply in_flat_map. exists rs. auto. }
  assert (Hndk : NoDup (map e_key es)) by (apply (resolve_nodup_keys _ _ _ Hres); exact Hnd).
  destruct (process_entries_local _ _ _ _ _ _ _ _ _ Hndk Hes Hin) as [s1 [s2 [Hstep [Hg1 [Hg2 [b Hb]]]]]].
  unfold e_key in Hg1, Hg2. cbn [fst snd ps_fetch] in Hstep, Hg1, Hg2. rewrite Hg in Hg1. rewrite Hg2, Hb.
  set (single := ulen (k_fetch k) =? 1) in *.
  destruct (maxb <? k_retry_limit k) eqn:E.
  - rewrite (C17_double _ _ _ _ _ _ _ _ _ _ _ Hd Hg1 Hhw) in Hstep by lia.
    inversion Hstep; subst s2. cbn [ps_fetch ps_retry]. rewrite tk_get_set_same.
    split; [reflexivity|]. split; [|intros Hc; lia].
    intros H1. destruct single eqn:Es; [subst single; lia|].
    apply in_or_app. left. apply in_or_app. right. left. reflexivity.
  - assert (Hn : n <> 1).
    { intros Hn. rewrite (C17_too_large _ _ _ _ _ _ _ _ _ _ _ Hd Hg1 Hhw) in Hstep by (lia || assumption).
      discriminate. }
    rewrite (C17_requeue _ _ _ _ _ _ _ _ _ _ _ Hd Hg1 Hhw) in Hstep by (lia || assumption).
    inversion Hstep; subst s2. cbn [ps_fetch ps_retry]. split; [exact Hg1|]. split; [|intros _; exact Hn].
    intros H1. destruct single eqn:Es; [subst single; lia|].
    apply in_or_app. left. apply in_or_app. right. left. reflexivity.
Qed.

(* non-vacuity, both branches, over two brokers with the oversized t:0 alone in the second response *)
Example C17_poll_empty_partition_ex :
  NoDup (map entry_label (resp_entries resps_two_brokers)) /\
  (* limit 100000 > size: doubled and queued *)
  (let k0 := k17 100000 [((0, 0), (5, 32768)); ((0, 1), (7, 32768))] [] in
   exists ms k', process_fetch_responses true k0 2 resps_two_brokers = (Ok ms, k') /\
     topic_ref (k_assign k0) (tag "t") = Some 0 /\ tk_get (0, 0) (k_fetch k0) = Some (5, 32768) /\
     tk_get (0, 0) (k_fetch k') = Some (5, 65536) /\ k_retry k' = [(0, 0)] /\
     tk_get (0, 1) (k_fetch k') = Some (10, 32768)) /\
  (* limit 0 (default, retrying disabled): size kept and queued all the same *)
  (let k0 := k17 0 [((0, 0), (5, 32768)); ((0, 1), (7, 32768))] [] in
   exists ms k', process_fetch_responses true k0 2 resps_two_brokers = (Ok ms, k') /\
     tk_get (0, 0) (k_fetch k') = Some (5, 32768) /\ k_retry k' = [(0, 0)] /\
     tk_get (0, 1) (k_fetch k') = Some (10, 32768)).
Proof.
  cbv zeta. split; [|split].
  - vm_compute. repeat constructor; cbn [In]; intuition discriminate.
  - eexists; eexists. vm_compute. repeat split.
  - eexists; eexists. vm_compute. repeat split.
Qed.

(* "... after which the normal fetch size is used again", for a whole poll of ANY kind (n arbitrary: the regular
   poll for all partitions just as the one-partition retry): a partition that delivered messages continues
   after its last message with the client's normal size, whatever (increased) size it had.  This is what makes
   a lost queue entry harmless (the solo fetch failed on the connection: C01_fetch_failure pops the entry and
   keeps the increased size; the entry then arrives in the next regular poll). *)
Theorem C17_poll_delivered_resets : forall dbg k n resps ms k' rs ft p r hw msgs m,
  process_fetch_responses dbg k n resps = (Ok ms, k') ->
  NoDup (map entry_label (resp_entries resps)) ->
  In rs resps -> In ft (fr_topics rs) -> In p (ft_partitions ft) ->
  topic_ref (k_assign k) (ft_topic ft) = Some r ->
  fp_data p = inl (hw, msgs) -> last_msg msgs = Some m -> i64_min <= m_offset m < i64_max ->
  tk_get (r, fp_partition p) (k_fetch k') =
    Some (m_offset m + 1, fetch_max_bytes_per_partition (cfg (k_client k))).
Proof.
  intros dbg k n resps ms k' rs ft p r hw msgs m H Hnd Hrs Hft Hp Hr Hd Hl Hrange.
  destruct (pfr_ok _ _ _ _ _ _ H) as [_ [_ [es [s' [Hres [Hes [_ Hk']]]]]]].
  subst k'. cbn [consumer_with k_fetch].
  assert (Hin : In (ft_topic ft, r, p) es).
  { apply (resolve_in _ _ _ Hres). exists ft. repeat split; auto. apply in_flat_map. exists rs. auto. }
  assert (Hndk : NoDup (map e_key es)) by (apply (resolve_nodup_keys _ _ _ Hres); exact Hnd).
  apply (process_entries_delivered _ _ _ _ _ _ _ _ (ft_topic ft, r, p) hw msgs m Hndk Hes Hin Hd Hl). lia.
Qed.

(* non-vacuity, the fault history: t:0 was doubled to 65536 and queued; its solo fetch fails on the connection
   (poll = Err Io, entry popped, size still 65536); the next REGULAR poll (n = 2) delivers the big message of
   t:0 together with t:1: t:0 is back to 32768 *)
Example C17_poll_delivered_resets_ex :
  let k := kp17 [((0, 0), (5, 65536)); ((0, 1), (7, 32768))] [(0, 0)] in
  exists k1 s1, consumer_poll k (ex_st [OConn false]) = (Ok (Err (EIo IoConnRefused), k1), s1) /\
    k_retry k1 = [] /\ tk_get (0, 0) (k_fetch k1) = Some (5, 65536) /\
    NoDup (map entry_label (resp_entries (resp17 [p0_big; p1_msgs]))) /\
    exists ms k2, process_fetch_responses true k1 2 (resp17 [p0_big; p1_msgs]) = (Ok ms, k2) /\
      tk_get (0, 0) (k_fetch k2) = Some (6, 32768) /\ tk_get (0, 1) (k_fetch k2) = Some (10, 32768) /\
      fetch_max_bytes_per_partition (cfg (k_client k1)) = 32768.
Proof.
  cbv zeta. eexists; eexists. split; [vm_compute; reflexivity|]. split; [reflexivity|]. split; [reflexivity|].
  split; [vm_compute; repeat constructor; cbn [In]; intuition discriminate|].
  eexists; eexists. vm_compute. repeat split.
Qed.

(* ---- (C) the retry queue is served first-in first-out, one entry per poll ------------------------------------- *)
(* whatever a poll does and however it ends: it removes the head of the queue (if any) and appends *)
Theorem C17_poll_queue : forall k s r k' s',
  consumer_poll k s = (Ok (r, k'), s') -> exists a, k_retry k' = tl (k_retry k) ++ a.
Proof.
  intros k s r k' s' H. unfold consumer_poll, consumer_fetch in H.
  assert (Hnil : forall (l : list tpkey), exists a, l = l ++ a) by (intros l; exists []; rewrite app_nil_r; reflexivity).
  destruct (k_retry k) as [|tp rest] eqn:Er.
  - unfold mbind, mtry, ret, get_client, get_env in H. cbv beta in H.
    destruct (fetch_messages _ s) as [[resps|e|w] s1]; cbv beta iota in H; try discriminate.
    + inversion H as [[Hp Hs]]. destruct (C17_poll_retry_extends _ _ _ _ _ _ Hp) as [a [Ha _]].
      exists a. rewrite Ha. cbn [consumer_with_client k_retry tl]. rewrite Er. reflexivity.
    + inversion H; subst. cbn [consumer_with_client k_retry tl]. rewrite Er. apply Hnil.
  - cbn [tl]. destruct (tk_get tp (k_fetch k)) as [[off maxb]|] eqn:Hg.
    + unfold mbind, mtry, ret, get_client, get_env in H. cbv beta in H.
      destruct (fetch_messages _ s) as [[resps|e|w] s1]; cbv beta iota in H; try discriminate.
      * inversion H as [[Hp Hs]]. destruct (C17_poll_retry_extends _ _ _ _ _ _ Hp) as [a [Ha _]].
        exists a. rewrite Ha. reflexivity.
      * inversion H; subst. cbn [consumer_with_client consumer_with k_retry]. apply Hnil.
    + unfold mbind, ret, get_client, get_env in H. cbv beta iota in H. inversion H; subst.
      cbn [consumer_with_client consumer_with k_retry]. apply Hnil.
Qed.

(* i successive polls that returned (with a result or an error) *)
Inductive polls : nat -> consumer -> consumer -> Prop :=
| polls_O k : polls O k k
| polls_S i k k1 k2 s r s' :
    consumer_poll k s = (Ok (r, k1), s') -> polls i k1 k2 -> polls (S i) k k2.

(* a partition with i entries queued before it is at the head of the queue after exactly i polls, whatever
   those polls fetched, delivered, queued or reported *)
Theorem C17_queue_fair : forall i k k' pre q,
  polls i k k' -> k_retry k = pre ++ q -> length pre = i -> exists extra, k_retry k' = q ++ extra.
Proof.
  intros i k k' pre q Hp. revert pre q.
  induction Hp as [k|i k k1 k2 s r s' Hpoll Hp IH]; intros pre q Hk Hl.
  - destruct pre; [|discriminate]. exists []. rewrite app_nil_r. exact Hk.
  - destruct pre as [|x pre]; [discriminate|]. cbn [length] in Hl. inversion Hl as [Hl'].
    destruct (C17_poll_queue _ _ _ _ _ Hpoll) as [a Ha]. rewrite Hk in Ha. cbn [app tl] in Ha.
    rewrite <- app_assoc in Ha. destruct (IH pre (q ++ a) Ha Hl') as [extra He].
    exists (a ++ extra). rewrite He, app_assoc. reflexivity.
Qed.

(* "... a poll reports message-size-too-large within a bounded number of polls": a partition queued behind i
   others is fetched on its own by poll number i + 1, and if it then still comes back empty below its
   high-watermark with a size that cannot grow, that poll is Err MessageSizeTooLarge *)
Theorem C17_queued_reported : forall i k k' pre r pid rest s s' off maxb c t p hw,
  polls i k k' -> k_retry k = pre ++ (r, pid) :: rest -> length pre = i ->
  tk_get (r, pid) (k_fetch k') = Some (off, maxb) ->
  fetch_messages [{| fq_topic := topic_name k' r; fq_partition := pid; fq_offset := off; fq_max_bytes := maxb |}] s
    = (Ok [{| fr_corr := c; fr_topics := [{| ft_topic := t; ft_partitions := [p] |}] |}], s') ->
  topic_ref (k_assign k') t = Some r -> fp_partition p = pid -> fp_data p = inl (hw, []) -> off < hw ->
  k_retry_limit k' <= maxb ->
  exists k'', consumer_poll k' s = (Ok (Err (EKafka KC_MessageSizeTooLarge), k''), s') /\
              k_fetch k'' = k_fetch k' /\ exists extra, k_retry k'' = rest ++ extra.
Proof.
  intros i k k' pre r pid rest s s' off maxb c t p hw Hp Hk Hl Hg Hf Ht Hpid Hd Hhw Hm.
  destruct (C17_queue_fair _ _ _ _ _ Hp Hk Hl) as [extra He]. cbn [app] in He.
  eexists. split; [apply (C17_retry_poll_too_large k' s s' r pid (rest ++ extra) off maxb c t p hw); assumption|].
  cbn [consumer_with_client consumer_with k_fetch k_retry]. split; [reflexivity|]. exists extra. reflexivity.
Qed.

(* non-vacuity: t:1 and then t:0 are queued; the first poll (solo fetch of t:1) fails on the connection, t:0
   is at the head afterwards; the second poll fetches t:0 alone, gets an empty set below high-watermark 6 with
   retrying disabled, and reports MessageSizeTooLarge *)
Example C17_queue_fair_ex :
  let k := kp17 [((0, 0), (5, 32768)); ((0, 1), (10, 32768))] [(0, 1); (0, 0)] in
  exists k', polls 1 k k' /\ k_retry k = [(0, 1)] ++ [(0, 0)] /\ k_retry k' = [(0, 0)] /\
    exists s' k'', consumer_poll k' (ex_st script17) = (Ok (Err (EKafka KC_MessageSizeTooLarge), k''), s') /\
                   k_fetch k'' = k_fetch k' /\ k_retry k'' = [].
Proof.
  cbv zeta. eexists. split; [|split; [reflexivity|]].
  - eapply (polls_S 0 _ _ _ (ex_st [OConn false])); [|apply polls_O]. vm_compute. reflexivity.
  - split; [reflexivity|]. eexists; eexists. vm_compute. repeat split.
Qed.

Print Assumptions C17_poll_error_cases.
Print Assumptions C17_regular_error_is_broker_error.
Print Assumptions C17_regular_poll_ok.
Print Assumptions C17_regular_poll_error.
Print Assumptions C17_poll_retry_extends.
Print Assumptions C17_single_never_queues.
Print Assumptions C17_poll_empty_partition.
Print Assumptions C17_poll_delivered_resets.
Print Assumptions C17_poll_queue.
Print Assumptions C17_queue_fair.
Print Assumptions C17_queued_reported.
