(* C07, additional theorems, second pass (mutation adequacy, round-four seed).

   seeded/C07-4 changes PartitionOffsetFetchResponse::get_offsets (src/protocol/consumer.rs): an entry
   of the OffsetFetch answer is classified by its offset value first (offset < 0 -> "nothing
   committed"), the error code is looked at only afterwards.  The model counterpart is
   Model/Responses.v get_offsets; the mirrored change falsifies C07_get_offsets_cases (all three
   clauses; clause 3 with the entry {offset -1, error 14}), so the seed is covered - but only at the
   level of the one-entry decoder.  Nothing in Props/C07.v so far says what this means for
   Builder::create: the statements about creation (C07_create_spec, C07_group_start_offsets) take the
   table `tpos` returned by fetch_group_offsets as given.  This file closes that gap:

     A. the table returned for an OffsetFetch answer, exactly (group_scan): it exists iff EVERY entry
        of the answer carries code 0 or code 3, and then it holds the entry's offset for code 0 and -1
        for code 3 - the offset field of an entry with any other code is never looked at;
     B. the retry history of __fetch_group_offsets (group_fetch_loop), one round at a time: an entry
        with GroupLoadInProgress / NotCoordinatorForGroup - whatever its offset field - makes the
        client ask again (forgetting the cached coordinator for the latter) as long as attempts are
        left, and fails the call otherwise; any other code fails it at once; and a failed
        OffsetFetch fails load_consumed_offsets;
     C. Builder::create end to end, down to the bytes of the coordinator's LAST answer: a consumer
        with a group is only ever created from an answer all of whose entries have code 0 / 3, and
        its first fetch offsets are those of that answer (in range -> committed, else fallback);
     D. the same read per partition entry (answers listing each topic and partition once);
     E. non-vacuity over the scripted two-broker cluster of C07Extra: coordinator loading, then
        ready; loading until the attempts are used up; a stale cached coordinator; an error that
        is not retried. *)
From KV Require Import Base.Prelude Gen.ErrorCodes Gen.Consts Model.Codecs Model.Requests Model.Responses
                       Model.ClientState Model.Net Model.Client Model.Consumer.
From KV Require Import Proofs.BytesFacts Proofs.C07Facts Proofs.C10Facts Proofs.C07Extra.
From Coq Require Import ZifyBool.
Ltac Zify.zify_post_hook ::= Z.div_mod_to_equations.

(* ================================================================================== *)
(* A. the table of committed offsets of one OffsetFetch answer                        *)
(* ================================================================================== *)

(* an entry the client accepts: no error, or the "nothing committed" code of protocol v0 *)
Definition ofp_clean (q : offset_fetch_part) : Prop :=
  ofp_error q = 0 \/ from_protocol (ofp_error q) = Some KC_UnknownTopicOrPartition.
(* what an accepted entry contributes: its offset field only when the code is 0 *)
Definition ofp_commit (q : offset_fetch_part) : Z := if ofp_error q =? 0 then ofp_offset q else -1.
Definition scan_row (ps : list offset_fetch_part) : list (Z * Z) :=
  map (fun q => (ofp_partition q, ofp_commit q)) ps.
Definition scan_table (rtps : list (bytes * list offset_fetch_part)) (m : list (bytes * list (Z * Z)))
  : list (bytes * list (Z * Z)) :=
  fold_left (fun m tp => map_insert m (fst tp) (scan_row (snd tp))) rtps m.

Lemma from_protocol_zero_iff e : from_protocol e = None <-> e = 0.
Proof.
  unfold from_protocol. destruct (e =? 0) eqn:E0.
  - split; [lia|reflexivity].
  - split; [|lia]. destruct ((from_protocol_lo <=? e) && (e <=? from_protocol_hi)); discriminate.
Qed.

Lemma get_offsets_inl q v : get_offsets q = inl v -> ofp_clean q /\ v = (ofp_partition q, ofp_commit q).
Proof.
  unfold get_offsets, ofp_clean, ofp_commit. intros H.
  destruct (from_protocol (ofp_error q)) as [c|] eqn:E.
  - destruct (c =? KC_UnknownTopicOrPartition) eqn:E3; [|discriminate].
    apply Z.eqb_eq in E3. subst c. split; [right; reflexivity|].
    destruct (ofp_error q =? 0) eqn:E0; [|inversion H; reflexivity].
    apply Z.eqb_eq in E0. rewrite E0 in E. discriminate.
  - apply from_protocol_zero_iff in E. split; [left; exact E|]. rewrite E. inversion H. reflexivity.
Qed.

Lemma get_offsets_clean q : ofp_clean q -> get_offsets q = inl (ofp_partition q, ofp_commit q).
Proof.
  unfold get_offsets, ofp_clean, ofp_commit. intros [H|H].
  - rewrite H. reflexivity.
  - rewrite H. destruct (ofp_error q =? 0) eqn:E0; [|reflexivity].
    apply Z.eqb_eq in E0. rewrite E0 in H. discriminate.
Qed.

Lemma get_offsets_unclean q c : from_protocol (ofp_error q) = Some c -> c <> KC_UnknownTopicOrPartition ->
  get_offsets q = inr c.
Proof.
  intros H Hc. unfold get_offsets. rewrite H. destruct (c =? KC_UnknownTopicOrPartition) eqn:E; [lia|reflexivity].
Qed.

Lemma group_scan_parts_ok_inv : forall ps acc vs,
  group_scan_parts ps acc = GOk vs -> (forall q, In q ps -> ofp_clean q) /\ vs = acc ++ scan_row ps.
Proof.
  induction ps as [|q ps IH]; intros acc vs H; cbn [group_scan_parts] in H.
  - inversion H. split; [intros q []|]. cbn [scan_row map]. rewrite app_nil_r. reflexivity.
  - destruct (get_offsets q) as [v|c] eqn:E.
    + destruct (get_offsets_inl q v E) as [Hq ->]. destruct (IH _ _ H) as [Hall ->]. split.
      * intros q' [<-|Hin]; [exact Hq|exact (Hall q' Hin)].
      * cbn [scan_row map]. rewrite <- app_assoc. reflexivity.
    + destruct (c =? KC_GroupLoadInProgress); [discriminate|].
      destruct (c =? KC_NotCoordinatorForGroup); discriminate.
Qed.

Lemma group_scan_parts_clean : forall ps acc,
  (forall q, In q ps -> ofp_clean q) -> group_scan_parts ps acc = GOk (acc ++ scan_row ps).
Proof.
  induction ps as [|q ps IH]; intros acc H; cbn [group_scan_parts].
  - cbn [scan_row map]. rewrite app_nil_r. reflexivity.
  - rewrite (get_offsets_clean q (H q (or_introl eq_refl))).
    rewrite IH by (intros q' Hq'; apply H; right; exact Hq').
    cbn [scan_row map]. rewrite <- app_assoc. reflexivity.
Qed.

(* THE TABLE, exactly, in both directions: the scan of an answer yields a table iff every entry of
   every topic has code 0 or code 3, and the table is then scan_table: per topic (a later listing of
   the same topic replaces the earlier one, HashMap::insert) the entries in order, each with its
   offset field if its code is 0 and with -1 if its code is 3.  In particular the offset field of
   an entry that carries any other code never reaches the table, and such an entry never lets
   the scan succeed - however "nothing committed"-like (-1) its offset field looks. *)
Theorem C07_group_scan_ok_iff : forall rtps m m',
  group_scan rtps m = inl (inl m') <->
  (forall t ps q, In (t, ps) rtps -> In q ps -> ofp_clean q) /\ m' = scan_table rtps m.
Proof.
  induction rtps as [|[t ps] rtps IH]; intros m m'; cbn [group_scan scan_table fold_left fst snd].
  - split.
    + intros H. inversion H. split; [intros t ps q []|reflexivity].
    + intros [_ ->]. reflexivity.
  - split.
    + intros H. destruct (group_scan_parts ps []) as [vs|c r|c] eqn:E; try discriminate.
      destruct (group_scan_parts_ok_inv _ _ _ E) as [Hps ->]. cbn [app] in H.
      apply IH in H. destruct H as [Hall ->]. split; [|reflexivity].
      intros t0 ps0 q [Heq|Hin] Hq.
      * inversion Heq. subst. exact (Hps q Hq).
      * exact (Hall t0 ps0 q Hin Hq).
    + intros [Hall ->].
      rewrite group_scan_parts_clean by (intros q Hq; exact (Hall t ps q (or_introl eq_refl) Hq)).
      cbn [app]. apply IH. split; [|reflexivity].
      intros t0 ps0 q Hin Hq. exact (Hall t0 ps0 q (or_intror Hin) Hq).
Qed.

(* the first entry (in reading order) that is not clean decides, by its CODE alone: 14 -> ask again,
   16 -> forget the coordinator and ask again, anything else -> fail with that code *)
Definition unclean_verdict (c : Z) : list (bytes * list (Z * Z)) + (Z * bool) + Z :=
  if c =? KC_GroupLoadInProgress then inl (inr (c, false))
  else if c =? KC_NotCoordinatorForGroup then inl (inr (c, true))
  else inr c.

Lemma group_scan_parts_first_unclean : forall pre acc q post c,
  (forall q', In q' pre -> ofp_clean q') ->
  from_protocol (ofp_error q) = Some c -> c <> KC_UnknownTopicOrPartition ->
  group_scan_parts (pre ++ q :: post) acc =
  if c =? KC_GroupLoadInProgress then GRetry c false
  else if c =? KC_NotCoordinatorForGroup then GRetry c true else GFatal c.
Proof.
  induction pre as [|q0 pre IH]; intros acc q post c Hpre Hq Hc; cbn [app group_scan_parts].
  - rewrite (get_offsets_unclean q c Hq Hc). reflexivity.
  - rewrite (get_offsets_clean q0 (Hpre q0 (or_introl eq_refl))).
    apply IH; [intros q' Hq'; apply Hpre; right; exact Hq'|exact Hq|exact Hc].
Qed.

Theorem C07_group_scan_first_unclean : forall tpre m t pre q post tpost c,
  (forall t' ps' q', In (t', ps') tpre -> In q' ps' -> ofp_clean q') ->
  (forall q', In q' pre -> ofp_clean q') ->
  from_protocol (ofp_error q) = Some c -> c <> KC_UnknownTopicOrPartition ->
  group_scan (tpre ++ (t, pre ++ q :: post) :: tpost) m = unclean_verdict c.
Proof.
  induction tpre as [|[t0 ps0] tpre IH]; intros m t pre q post tpost c Htpre Hpre Hq Hc; cbn [app group_scan].
  - rewrite (group_scan_parts_first_unclean pre [] q post c Hpre Hq Hc). unfold unclean_verdict.
    destruct (c =? KC_GroupLoadInProgress); [reflexivity|].
    destruct (c =? KC_NotCoordinatorForGroup); reflexivity.
  - rewrite group_scan_parts_clean by (intros q' Hq'; exact (Htpre t0 ps0 q' (or_introl eq_refl) Hq')).
    apply IH; try assumption. intros t' ps' q' Hin Hq'. exact (Htpre t' ps' q' (or_intror Hin) Hq').
Qed.

(* what brokers really send for a partition they cannot serve: offset -1, empty metadata, a code *)
Definition ex_e (p o c : Z) : offset_fetch_part :=
  {| ofp_partition := p; ofp_offset := o; ofp_metadata := []; ofp_error := c |}.
Example C07_group_scan_ex :
  group_scan [ (xt, [ex_e 0 40 0; ex_e 1 (-1) 3; ex_e 2 (-1) 0]) ] []
    = inl (inl (scan_table [ (xt, [ex_e 0 40 0; ex_e 1 (-1) 3; ex_e 2 (-1) 0]) ] []))
  /\ scan_table [ (xt, [ex_e 0 40 0; ex_e 1 77 3; ex_e 2 (-1) 0]) ] [] = [ (xt, [(0, 40); (1, -1); (2, -1)]) ]
  /\ group_scan ([ (xg, [ex_e 0 7 0]) ] ++ (xt, [ex_e 0 40 0] ++ ex_e 1 (-1) 14 :: [ex_e 2 20 0]) :: []) []
     = inl (inr (14, false))
  /\ group_scan ([] ++ (xt, [] ++ ex_e 0 (-1) 16 :: [ex_e 1 (-1) 16]) :: []) [] = inl (inr (16, true))
  /\ group_scan ([] ++ (xt, [] ++ ex_e 0 (-1) 30 :: []) :: []) [] = inr 30
  /\ from_protocol 14 = Some 14 /\ from_protocol 16 = Some 16 /\ from_protocol 30 = Some 30
  /\ unclean_verdict 14 = inl (inr (14, false)) /\ unclean_verdict 16 = inl (inr (16, true))
  /\ unclean_verdict 30 = inr 30.
Proof. vm_compute. repeat split. Qed.

(* ================================================================================== *)
(* B. the retry history of __fetch_group_offsets, one round at a time                 *)
(* ================================================================================== *)

(* ONE ROUND of the loop, for every answer: the coordinator is determined, the request goes out, the
   answer is scanned;
     - all entries clean                      -> the call returns the answer's table;
     - a code other than 14 / 16 comes first  -> the call fails with it;
     - 14 or 16 comes first                   -> (for 16 the cached coordinator is forgotten, so the
       next round looks it up again) and, if attempts are left, the next round starts with the
       attempt counter increased; otherwise the call fails with that code. *)
Theorem C07_group_fetch_round : forall f group req attempt s h s1 c rtps s2,
  get_group_coordinator group s = (Ok h, s1) ->
  send_receive dec_offset_fetch_resp h req s1 = (Ok (c, rtps), s2) ->
  group_fetch_loop (S f) group req attempt s =
  match group_scan rtps [] with
  | inl (inl m) => (Ok m, s2)
  | inr code => (Err (EKafka code), s2)
  | inl (inr (code, reset)) =>
      let s3 := if reset then snd (set_cs (remove_group_coordinator (cs (cl s2)) group) s2) else s2 in
      if attempt <? retry_max_attempts (cfg (cl s2)) then group_fetch_loop f group req (attempt + 1) s3
      else (Err (EKafka code), s3)
  end.
Proof.
  intros f group req attempt s h s1 c rtps s2 Hg Hsr.
  cbn [group_fetch_loop]. unfold mbind at 1. rewrite Hg. unfold mbind at 1. rewrite Hsr.
  destruct (group_scan rtps []) as [[m|[code reset]]|code]; [reflexivity| |reflexivity].
  unfold mbind at 1. unfold get_client at 1. unfold mbind at 1.
  destruct reset.
  - unfold set_cs, mbind, get_client, set_client. cbn [snd cfg cl].
    destruct (attempt <? retry_max_attempts (cfg (cl s2))); reflexivity.
  - unfold ret. cbv zeta. destruct (attempt <? retry_max_attempts (cfg (cl s2))); reflexivity.
Qed.

(* the two retryable answers, spelled out on the entry that causes them (any offset field) *)
Corollary C07_group_fetch_round_unclean : forall f group req attempt s h s1 c s2 tpre t pre q post tpost code,
  get_group_coordinator group s = (Ok h, s1) ->
  send_receive dec_offset_fetch_resp h req s1 = (Ok (c, tpre ++ (t, pre ++ q :: post) :: tpost), s2) ->
  (forall t' ps' q', In (t', ps') tpre -> In q' ps' -> ofp_clean q') ->
  (forall q', In q' pre -> ofp_clean q') ->
  from_protocol (ofp_error q) = Some code -> code <> KC_UnknownTopicOrPartition ->
  group_fetch_loop (S f) group req attempt s =
  if code =? KC_GroupLoadInProgress then
    if attempt <? retry_max_attempts (cfg (cl s2)) then group_fetch_loop f group req (attempt + 1) s2
    else (Err (EKafka code), s2)
  else if code =? KC_NotCoordinatorForGroup then
    let s3 := snd (set_cs (remove_group_coordinator (cs (cl s2)) group) s2) in
    if attempt <? retry_max_attempts (cfg (cl s2)) then group_fetch_loop f group req (attempt + 1) s3
    else (Err (EKafka code), s3)
  else (Err (EKafka code), s2).
Proof.
  intros f group req attempt s h s1 c s2 tpre t pre q post tpost code Hg Hsr Htpre Hpre Hq Hc.
  rewrite (C07_group_fetch_round f group req attempt s h s1 c _ s2 Hg Hsr).
  rewrite (C07_group_scan_first_unclean tpre [] t pre q post tpost code Htpre Hpre Hq Hc).
  unfold unclean_verdict.
  destruct (code =? KC_GroupLoadInProgress); [reflexivity|].
  destruct (code =? KC_NotCoordinatorForGroup); reflexivity.
Qed.

(* "where no such offset can be determined creation fails", the consumer's side of it: a failed
   OffsetFetch (attempts used up, a code that is not retried, a transport error) fails
   load_consumed_offsets with the same error - there is no falling back to "nothing committed" *)
Theorem C07_load_consumed_offsets_fails : forall group asg subs s e s',
  group <> [] ->
  fetch_group_offsets group (sub_pairs subs) s = (Err e, s') ->
  load_consumed_offsets group asg subs s = (Err e, s').
Proof.
  intros group asg subs s e s' Hg H. unfold load_consumed_offsets.
  destruct group as [|g0 g]; [contradiction|].
  unfold mbind at 1. unfold sub_pairs in H. rewrite H. reflexivity.
Qed.

(* ================================================================================== *)
(* C. Builder::create, down to the coordinator's last answer                          *)
(* ================================================================================== *)

(* A consumer WITH A GROUP, end to end.  Whenever Builder::create succeeds - after whatever history
   of retries, coordinator look-ups and reconnects - there is ONE OffsetFetch answer `rtps`, the last
   one received from the coordinator for the request listing exactly the subscribed partitions, such
   that
     - every entry of it carries code 0 or code 3: a consumer is never created from an answer in which
       the coordinator reports that it cannot serve a partition (loading, moved, not authorized, ...)
       - such an answer is not read as "nothing committed";
     - the first fetch offset of every subscribed partition follows from that answer's table
       (scan_table rtps []: offset for code 0, none for -1 / code 3) and the partition's range:
       commit within [earliest, latest] -> the commit; outside, or none -> the fallback position;
       and when the answer holds no commit at all -> what the brokers report for the fallback time. *)
Theorem C07_create_group_start : forall src calls s k s',
  consumer_create src calls s = (Ok k, s') ->
  let b := fold_left cbuilder_apply calls (cbuilder_new src) in
  let asg := from_map (cb_assign b) in
  let fb := cb_fallback b in
  cb_group b <> [] ->
  exists subs sa corr tps h s0 c rtps sb,
    subscriptions_of (cs (cl sa)) asg = Ok subs
    /\ group_fetch_tps (cs (cl sa)) (sub_pairs subs) [] = Some tps
    /\ send_receive dec_offset_fetch_resp h
         (enc_offset_fetch_req corr (client_id (cfg (cl sa))) (cb_group b)
                               (fetch_version (offset_storage (cfg (cl sa)))) tps) s0 = (Ok (c, rtps), sb)
    /\ (forall t ps q, In (t, ps) rtps -> In q ps -> ofp_clean q)
    /\ load_fetch_states fb asg subs (k_consumed k) sb = (Ok (k_fetch k), s')
    /\ let tpos := scan_table rtps [] in
       let maxb := fetch_max_bytes_per_partition (cfg (cl sb)) in
       (k_consumed k <> [] /\ exists latest sl earliest,
          load_partition_offsets (map fst subs) FETCH_OFFSET_LATEST sb = (Ok latest, sl)
          /\ load_partition_offsets (map fst subs) FETCH_OFFSET_EARLIEST sl = (Ok earliest, s')
          /\ forall t ps p, In (t, ps) subs -> In p ps ->
             exists r off, topic_ref asg t = Some r /\ tk_get (r, p) (k_fetch k) = Some (off, maxb)
               /\ (forall c, last_commit_t t p tpos = Some c -> i64_min < c <= i64_max ->
                     (lookup_off earliest t p <= c <= lookup_off latest t p -> off = c)
                     /\ (c < lookup_off earliest t p \/ lookup_off latest t p < c ->
                         fallback_is fb (lookup_off earliest t p) (lookup_off latest t p) off))
               /\ (last_commit_t t p tpos = None ->
                     fallback_is fb (lookup_off earliest t p) (lookup_off latest t p) off))
       \/ (k_consumed k = [] /\ exists offsets,
             load_partition_offsets (map fst subs) (fallback_time fb) sb = (Ok offsets, s')
             /\ forall t ps p, In (t, ps) subs -> In p ps ->
                exists r, topic_ref asg t = Some r /\ last_commit_t t p tpos = None
                  /\ tk_get (r, p) (k_fetch k) = Some (lookup_off offsets t p, maxb)).
Proof.
  intros src calls s k s' H b asg fb Hg.
  destruct (C07_create_spec src calls s k s' H) as (sa & sb & subs & Hsubs & Hco & Hfe & _).
  fold b in Hsubs, Hco, Hfe. fold asg in Hsubs, Hco, Hfe. fold fb in Hfe.
  pose proof Hco as Hco0.
  apply C07_load_consumed_offsets_spec in Hco.
  destruct Hco as [(Hg0 & _)|(_ & tpos & Hfg & Hct)]; [contradiction|].
  pose proof Hfg as Hfg0.
  apply C07_fetch_group_offsets_inv in Hfg. destruct Hfg as (_ & corr & tps & h & s0 & c & rtps & Htps & Hsr & Hscan).
  apply C07_group_scan_ok_iff in Hscan. destruct Hscan as [Hclean Htpos].
  exists subs, sa, corr, tps, h, s0, c, rtps, sb.
  repeat (split; [assumption|]). cbv zeta. rewrite <- Htpos.
  destruct (k_consumed k) as [|x cons] eqn:Ek.
  - right. split; [reflexivity|].
    destruct (C07_nothing_committed_start_offsets _ _ _ _ _ _ Hfe) as (offsets & Hlo & Hall).
    exists offsets. split; [exact Hlo|]. intros t ps p Hin Hp.
    destruct (Hall t ps p Hin Hp) as (r & Hr & Hget). exists r. split; [exact Hr|]. split; [|exact Hget].
    pose proof (C07_consumed_topics_spec _ _ _ _ _ Hct t r p Hr) as Hs. cbn [tk_get] in Hs.
    destruct (last_commit_t t p tpos); [discriminate|reflexivity].
  - left. split; [discriminate|].
    assert (Hne : x :: cons <> []) by discriminate.
    destruct (C07_group_start_offsets _ _ _ _ _ _ _ _ _ Hco0 Hfe Hne)
      as (tpos' & latest & sl & earliest & Hfg' & Hl & He & Hall).
    rewrite Hfg0 in Hfg'. inversion Hfg'. subst tpos'.
    exists latest, sl, earliest. split; [exact Hl|]. split; [exact He|exact Hall].
Qed.

(* ================================================================================== *)
(* D. the table read per partition entry                                              *)
(* ================================================================================== *)

Lemma map_insert_fresh {V} : forall (m : list (bytes * V)) k v,
  ~ In k (map fst m) -> map_insert m k v = m ++ [(k, v)].
Proof.
  induction m as [|[k' v'] m IH]; intros k v H; cbn [map_insert app]; [reflexivity|].
  cbn [map fst In] in H. destruct (bytes_eqb_spec k' k) as [->|Hne]; [tauto|].
  rewrite IH by tauto. reflexivity.
Qed.

Definition scan_entry (tp : bytes * list offset_fetch_part) : bytes * list (Z * Z) := (fst tp, scan_row (snd tp)).

Lemma scan_table_nodup : forall rtps m,
  NoDup (map fst m ++ map fst rtps) -> scan_table rtps m = m ++ map scan_entry rtps.
Proof.
  induction rtps as [|[t ps] rtps IH]; intros m H; cbn [scan_table fold_left map fst snd].
  - rewrite app_nil_r. reflexivity.
  - cbn [map fst] in H. pose proof (NoDup_remove_2 _ _ _ H) as Hnot. pose proof (NoDup_remove_1 _ _ _ H) as Hnd.
    rewrite map_insert_fresh by (intros Hin; apply Hnot; apply in_or_app; left; exact Hin).
    fold (scan_table rtps (m ++ [(t, scan_row ps)])). rewrite IH.
    + rewrite <- app_assoc. reflexivity.
    + rewrite map_app. cbn [map fst]. rewrite <- app_assoc. cbn [app].
      apply NoDup_Add with (a := t) (l := map fst m ++ map fst rtps); [|constructor].
      * apply Add_app.
      * exact Hnd.
      * exact Hnot.
Qed.

Lemma nodup_fst_unique {A B} : forall (l : list (A * B)) a b b',
  NoDup (map fst l) -> In (a, b) l -> In (a, b') l -> b = b'.
Proof.
  induction l as [|[a0 b0] l IH]; intros a b b' Hnd H1 H2; [destruct H1|].
  cbn [map fst] in Hnd. inversion Hnd as [|? ? Hnot Hnd']. subst.
  destruct H1 as [H1|H1]; destruct H2 as [H2|H2].
  - inversion H1. inversion H2. subst. reflexivity.
  - inversion H1. subst. exfalso. apply Hnot. apply (in_map fst) in H2. exact H2.
  - inversion H2. subst. exfalso. apply Hnot. apply (in_map fst) in H1. exact H1.
  - exact (IH a b b' Hnd' H1 H2).
Qed.

(* For an answer that lists each topic once and each partition of a topic once (what a broker sends):
   the table's commit for the partition of entry q is q's offset field when q's code is 0 and the
   field is not -1; it is "none" when the field is -1 or the code is 3. *)
Theorem C07_answer_entry_commit : forall rtps t ps q,
  NoDup (map fst rtps) -> In (t, ps) rtps -> NoDup (map ofp_partition ps) -> In q ps ->
  last_commit_t t (ofp_partition q) (scan_table rtps []) =
  if ofp_commit q =? -1 then None else Some (ofp_commit q).
Proof.
  intros rtps t ps q Hnd Hin Hndp Hq.
  rewrite scan_table_nodup by exact Hnd. cbn [app].
  assert (Hnd' : NoDup (map fst (map scan_entry rtps))).
  { rewrite map_map. cbn [scan_entry fst]. exact Hnd. }
  assert (Hin' : In (t, scan_row ps) (map scan_entry rtps)).
  { apply in_map_iff. exists (t, ps). split; [reflexivity|exact Hin]. }
  rewrite (last_commit_t_in t (ofp_partition q) _ _ Hnd' Hin').
  assert (Hndr : NoDup (map fst (scan_row ps))).
  { unfold scan_row. rewrite map_map. cbn [fst]. exact Hndp. }
  assert (Hinr : In (ofp_partition q, ofp_commit q) (scan_row ps)).
  { unfold scan_row. apply in_map_iff. exists q. split; [reflexivity|exact Hq]. }
  destruct (ofp_commit q =? -1) eqn:E.
  - apply last_commit_none. intros c Hc.
    rewrite (nodup_fst_unique _ _ _ _ Hndr Hc Hinr). lia.
  - apply last_commit_in; [exact Hndr|exact Hinr|lia].
Qed.

Example C07_answer_entry_commit_ex :
  let rtps := [ (xg, [ex_e 0 7 0]); (xt, [ex_e 0 40 0; ex_e 1 77 3; ex_e 2 (-1) 0]) ] in
  NoDup (map fst rtps) /\ NoDup (map ofp_partition [ex_e 0 40 0; ex_e 1 77 3; ex_e 2 (-1) 0])
  /\ last_commit_t xt 0 (scan_table rtps []) = Some 40
  /\ last_commit_t xt 1 (scan_table rtps []) = None
  /\ last_commit_t xt 2 (scan_table rtps []) = None.
Proof.
  cbv zeta. split; [|split].
  - cbn [map fst]. constructor; [cbn [In]; intros [H|[]]; discriminate|]. constructor; [intros []|constructor].
  - cbn [map ex_e ofp_partition]. repeat (constructor; [cbn [In]; lia|]). constructor.
  - vm_compute. repeat split.
Qed.

(* ================================================================================== *)
(* E. non-vacuity: histories of Builder::create over the scripted cluster of C07Extra  *)
(* ================================================================================== *)
(* the cluster of C07Extra.D: topic "t", partitions 0, 1 led by "a", 2 led by "b"; group "g" whose
   coordinator "a" the client has cached; retry_max_attempts = 3; (earliest, latest, committed):
   t:0 = (0, 9, none), t:1 = (12, 20, 12), t:2 = (7, 31, 8).
   A coordinator that cannot serve the group answers like a real broker: every asked partition with
   offset -1, empty metadata and the code. *)
From KV Require Import Spec.RespGrammar.

Definition ex_unserved (code : Z) : bytes :=
  print_offset_fetch {| wr_corr := 1; wr_topics := Some [ {| wt_name := Some xt;
      wt_partitions := Some (map (fun p => {| wof_partition := p; wof_offset := -1; wof_metadata := Some [];
                                               wof_error := code |}) [0; 1; 2]) |} ] |}.
Definition ex_latest_a : list ev_out := ex_talk (ex_off_answer [ex_off_part 0 9; ex_off_part 1 20]).
Definition ex_latest_b : list ev_out := ex_talk (ex_off_answer [ex_off_part 2 31]).
Definition ex_earliest_a : list ev_out := ex_talk (ex_off_answer [ex_off_part 0 0; ex_off_part 1 12]).
Definition ex_earliest_b : list ev_out := ex_talk (ex_off_answer [ex_off_part 2 7]).
Definition ex_st_of (sc : list ev_out) : st :=
  {| script := sc; trace := []; anyq := []; hostq := []; fetchq := []; entryq := [];
     cl := ex_client; env := ex_codecs |}.
Definition ex_started : list (tpkey * (Z * Z)) := [((0, 0), (9, 4096)); ((0, 1), (12, 4096)); ((0, 2), (8, 4096))].

(* 1. the coordinator is still loading the group when the consumer is created and answers the second
      request properly: the consumer starts at the committed offsets (t:0, nothing committed, at the
      fallback position), exactly as without the hiccup (C07_create_ex), and the whole script is used *)
Example C07_create_coordinator_loading_ex : exists k s',
  consumer_create (inr ex_client) ex_calls
    (ex_st_of (OConn true :: ex_talk (ex_unserved 14) ++ ex_talk ex_group_answer
               ++ ex_latest_a ++ OConn true :: ex_latest_b ++ ex_earliest_a ++ ex_earliest_b)) = (Ok k, s')
  /\ k_fetch k = ex_started /\ script s' = [].
Proof. eexists. eexists. split; [vm_compute; reflexivity|]. vm_compute. split; reflexivity. Qed.

(* 2. ... and keeps loading until the attempts are used up: creation fails, it does not fall back *)
Example C07_create_coordinator_keeps_loading_ex :
  fst (consumer_create (inr ex_client) ex_calls
         (ex_st_of (OConn true :: ex_talk (ex_unserved 14) ++ ex_talk (ex_unserved 14) ++ ex_talk (ex_unserved 14)
                    ++ ex_latest_a ++ OConn true :: ex_latest_b))) = Err (EKafka 14).
Proof. vm_compute. reflexivity. Qed.

(* 3. the cached coordinator "a" no longer coordinates the group (state left behind by an earlier call):
      it is forgotten, looked up again over the pooled connection (-> node 2 = "b"), and the
      consumer starts at the offsets "b" reports *)
Example C07_create_stale_coordinator_ex : exists k s',
  consumer_create (inr ex_client) ex_calls
    (ex_st_of (OConn true :: ex_talk (ex_unserved 16)
               ++ ex_talk (print_coordinator {| wc_corr := 2; wc_error := 0; wc_id := 2; wc_host := Some xb; wc_port := 9092 |})
               ++ OConn true :: ex_talk ex_group_answer
               ++ ex_latest_a ++ ex_latest_b ++ ex_earliest_a ++ ex_earliest_b)) = (Ok k, s')
  /\ k_fetch k = ex_started /\ script s' = []
  /\ group_coordinator (cs (k_client k)) xg = Some xb.
Proof. eexists. eexists. split; [vm_compute; reflexivity|]. vm_compute. repeat split. Qed.

(* 4. a code that is not retried (30 = GroupAuthorizationFailed), again with offset -1: creation fails *)
Example C07_create_unserved_fatal_ex :
  fst (consumer_create (inr ex_client) ex_calls
         (ex_st_of (OConn true :: ex_talk (ex_unserved 30) ++ ex_latest_a ++ OConn true :: ex_latest_b)))
  = Err (EKafka 30).
Proof. vm_compute. reflexivity. Qed.

(* 5. hypotheses of C07_group_fetch_round_unclean on the first round of example 1 *)
Example C07_group_fetch_round_ex : exists h s1 c s2 q post,
  let s := ex_st_of (OConn true :: ex_talk (ex_unserved 14) ++ ex_talk ex_group_answer) in
  let req := enc_offset_fetch_req 1 [] xg 1 [(xt, [0; 1; 2])] in
  get_group_coordinator xg s = (Ok h, s1)
  /\ send_receive dec_offset_fetch_resp h req s1 = (Ok (c, [] ++ (xt, [] ++ q :: post) :: []), s2)
  /\ from_protocol (ofp_error q) = Some KC_GroupLoadInProgress /\ ofp_offset q = -1
  /\ 1 <? retry_max_attempts (cfg (cl s2)) = true
  /\ fst (group_fetch_loop 9 xg req 1 s) = Ok [(xt, [(0, -1); (1, 12); (2, 8)])].
Proof.
  eexists. eexists. eexists. eexists. eexists. eexists. cbv zeta.
  split; [vm_compute; reflexivity|]. split; [vm_compute; reflexivity|]. vm_compute. repeat split.
Qed.

(* 6. hypotheses of C07_load_consumed_offsets_fails: the call of example 4 *)
Example C07_load_consumed_offsets_fails_ex : exists s',
  xg <> [] /\
  fetch_group_offsets xg (sub_pairs [(xt, [0; 1; 2])]) (ex_st_of (OConn true :: ex_talk (ex_unserved 30)))
  = (Err (EKafka 30), s').
Proof. eexists. split; [discriminate|]. vm_compute. reflexivity. Qed.

Check C07_group_scan_ok_iff.
Check C07_group_scan_first_unclean.
Check C07_group_fetch_round.
Check C07_group_fetch_round_unclean.
Check C07_load_consumed_offsets_fails.
Check C07_create_group_start.
Check C07_answer_entry_commit.

Print Assumptions C07_group_scan_ok_iff.
Print Assumptions C07_group_scan_first_unclean.
Print Assumptions C07_group_fetch_round.
Print Assumptions C07_group_fetch_round_unclean.
Print Assumptions C07_load_consumed_offsets_fails.
Print Assumptions C07_create_group_start.
Print Assumptions C07_answer_entry_commit.
