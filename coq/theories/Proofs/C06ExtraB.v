(* C06ExtraB: second adequacy pass for C06.

   A. Seeded change C06-4 (load_metadata_all fetches first and resets only after a successful fetch) leaves every
      theorem of Props/C06.v provable: all of them speak about SUCCESSFUL loads (C06_load_metadata_all_view
      assumes `= (Ok tt, s')`) or about one call made in a given state.  What was missing is the reset clause on
      the failure path and the fact that a full load forgets whatever its outcome:
        C06_load_metadata_all_failed_forgets   a full load that does not succeed leaves the EMPTY view,
        C06_load_metadata_all_forgets          the complete outcome of a full load (result and final state) does
                                               not depend on the brokers and topics known before,
        C06_forgotten_nothing_sent             with nothing known, fetch_offsets / list_offsets / fetch_messages
                                               perform no I/O at all and produce is refused locally,
        C06_failed_full_load_nothing_sent      the composition of the two (the scenario of the seed),
        C06_reset_nothing_sent                 the same after reset_metadata.
      Also: C06_fetch_metadata_ignores_view (result, events and pool of fetch_metadata do not depend on the
      client state apart from the correlation counter) - the reason why the seeded change "looks innocent".
   B. The history clause at the level of the public entry points, INCLUDING calls that fail:
        C06_call_history / C06_call_history_fresh
      for any sequence of load_metadata_all / load_metadata(topics) / reset_metadata calls run one after the
      other from any state (going on after errors), the final view is the fold of merge over the responses
      the calls received, a reset (explicit, or the one inside load_metadata_all, successful or not) emptying it.

   Not done: the converse "NoHostReachable only if no host can be reached" at the level of fetch_metadata for an
   arbitrary script (needs a classification of the errors get_response can return); the group coordinator
   cache, which is deliberately outside the view. *)
From Coq Require Import ZifyBool Sorting.Permutation.
From KV Require Import Base.Prelude Gen.Consts Model.Codecs Model.Requests Model.Responses
                       Model.ClientState Model.Net Model.Client.
From KV Require Import Proofs.BytesFacts Proofs.NetFacts Proofs.C06Facts Proofs.C06Extra.

(* ================================================================================================ *)
(* A. a full load forgets, whatever its outcome                                                     *)
(* ================================================================================================ *)

(* the state with the client state (brokers, topics, coordinator cache, correlation counter) replaced *)
Definition wcs (x : cstate) (s : st) : st :=
  {| script := script s; trace := trace s; anyq := anyq s; hostq := hostq s; fetchq := fetchq s;
     entryq := entryq s;
     cl := {| cfg := cfg (cl s); cs := x; conns := conns (cl s) |};
     env := env s |}.

Lemma set_cs_run x s : set_cs x s = (Ok tt, wcs x s).
Proof. reflexivity. Qed.
Lemma reset_st_eq s : reset_st s = wcs (clear_metadata (cs (cl s))) s.
Proof. reflexivity. Qed.
Lemma reset_metadata_run s : reset_metadata s = (Ok tt, reset_st s).
Proof. reflexivity. Qed.

(* load_metadata, completely: update_metadata never fails, so the call fails exactly when fetch_metadata does *)
Lemma load_metadata_run topics s :
  load_metadata topics s
  = match fetch_metadata topics s with
    | (Ok md, s1) => (Ok tt, wcs (upd_fun (cs (cl s1)) md) s1)
    | (Err e, s1) => (Err e, s1)
    | (Panic w, s1) => (Panic w, s1)
    end.
Proof.
  rewrite load_metadata_split. unfold mbind at 1. destruct (fetch_metadata topics s) as [[md|e|w] s1]; try reflexivity.
  unfold apply_md. unfold mbind at 1. unfold get_client at 1. unfold mbind at 1. unfold lift at 1.
  rewrite update_metadata_eq. apply set_cs_run.
Qed.

Lemma load_metadata_all_unfold s : load_metadata_all s = load_metadata [] (reset_st s).
Proof. reflexivity. Qed.

Lemma empty_state_lookups σ : topic_partitions σ = [] ->
  (forall t, partitions_for σ t = None) /\ (forall t p, find_broker σ t p = None).
Proof.
  intros H. assert (Hp : forall t, partitions_for σ t = None) by (intros t; unfold partitions_for; rewrite H; reflexivity).
  split; [exact Hp|]. intros t p. unfold find_broker. rewrite Hp. reflexivity.
Qed.

(* SEED C06-4.  A full load that does not succeed (no bootstrap host reachable, the reply unreadable or
   undecodable, ...) has still forgotten everything: the client state is exactly the cleared one with the
   correlation counter advanced by one. *)
Theorem C06_load_metadata_all_failed_forgets : forall s r s',
  load_metadata_all s = (r, s') -> r <> Ok tt ->
  cs (cl s') = snd (next_correlation_id (clear_metadata (cs (cl s)))) /\
  abs (cs (cl s')) = empty_view /\ inv (cs (cl s')) /\
  (forall t, partitions_for (cs (cl s')) t = None) /\
  (forall t p, find_broker (cs (cl s')) t p = None).
Proof.
  intros s r s' H Hr. rewrite load_metadata_all_unfold, load_metadata_run in H.
  destruct (fetch_metadata [] (reset_st s)) as [[md|e|w] s1] eqn:HF.
  - inversion H; subst. exfalso. apply Hr. reflexivity.
  - inversion H; subst. destruct (fetch_metadata_cs _ _ _ _ HF) as [Hcs _].
    assert (Hx : cs (cl s') = snd (next_correlation_id (clear_metadata (cs (cl s))))) by exact Hcs.
    split; [exact Hx|]. rewrite Hx.
    split; [apply (C06_clear (cs (cl s)))|]. split; [apply (C06_inv_clear (cs (cl s)))|].
    apply empty_state_lookups. reflexivity.
  - inversion H; subst. destruct (fetch_metadata_cs _ _ _ _ HF) as [Hcs _].
    assert (Hx : cs (cl s') = snd (next_correlation_id (clear_metadata (cs (cl s))))) by exact Hcs.
    split; [exact Hx|]. rewrite Hx.
    split; [apply (C06_clear (cs (cl s)))|]. split; [apply (C06_inv_clear (cs (cl s)))|].
    apply empty_state_lookups. reflexivity.
Qed.

(* the demonstration of the seed: bootstrap hosts a:1, b:2, c:3; the client knows topic a (a/0 -> node 1 @ h1:9092,
   a/1 -> node 2 @ h2:9092) and holds a pooled connection to b:2.  The full load finds a:1 and c:3 refusing and
   the write to b:2 failing: NoHostReachable - and topic a is gone *)
Definition exB_st (σ : cstate) (pool : list bytes) (sc : list ev_out) : st :=
  {| script := sc; trace := []; anyq := []; hostq := []; fetchq := []; entryq := [];
     cl := {| cfg := default_config ex_hs; cs := σ; conns := pool |}; env := ex_env |}.
Example ex_load_metadata_all_failed_forgets :
  let s := exB_st ex_s1 [tag "b:2"] [OConn false; OWriteFail IoOther; OConn false] in
  let '(r, s') := load_metadata_all s in
  r = Err ENoHostReachable /\ r <> Ok tt /\
  find_broker (cs (cl s)) (tag "a") 1 = Some (tag "h2:9092") /\
  find_broker (cs (cl s')) (tag "a") 1 = None /\ abs (cs (cl s')) = empty_view /\
  map ev_host (rev (trace s')) = [tag "a:1"; tag "b:2"; tag "c:3"].
Proof. vm_compute. repeat split; try reflexivity. discriminate. Qed.
(* the other failure of the seed's README: the first reachable host takes the request, the reply ends early *)
Example ex_load_metadata_all_failed_forgets_read :
  let s := exB_st ex_s1 [] [OConn true; OWrote 18; OData []] in
  let '(r, s') := load_metadata_all s in
  r = Err (EIo IoUnexpectedEof) /\ abs (cs (cl s')) = empty_view /\ abs (cs (cl s)) <> empty_view.
Proof. vm_compute. repeat split; try reflexivity. discriminate. Qed.

(* The complete outcome of load_metadata_all - result, script left, events, pool, final client state - is the
   same from two states that differ only in the brokers and topics they know. *)
Theorem C06_load_metadata_all_forgets : forall s x,
  correlation x = correlation (cs (cl s)) -> group_coordinators x = group_coordinators (cs (cl s)) ->
  load_metadata_all (wcs x s) = load_metadata_all s.
Proof.
  intros s x Hc Hg. rewrite !load_metadata_all_unfold. f_equal.
  rewrite !reset_st_eq. unfold wcs, clear_metadata. cbn [cl cs cfg conns script trace anyq hostq fetchq entryq env].
  rewrite Hc, Hg. reflexivity.
Qed.
Example ex_load_metadata_all_forgets :
  let s := exB_st ex_s1 [tag "b:2"] [OConn false; OWriteFail IoOther; OConn false] in
  load_metadata_all (wcs ex_s5 s) = load_metadata_all s /\ abs ex_s5 <> abs ex_s1 /\
  correlation ex_s5 = correlation (cs (cl s)) /\ group_coordinators ex_s5 = group_coordinators (cs (cl s)).
Proof. vm_compute. repeat split; try reflexivity. discriminate. Qed.

(* ---- with nothing known, nothing is sent ---------------------------------------------------------- *)
Lemma offset_reqs_nil σ topics time : topic_partitions σ = [] -> offset_reqs σ topics time = [].
Proof.
  intros H. destruct (empty_state_lookups σ H) as [Hp _]. unfold offset_reqs.
  assert (G : forall acc : list (bytes * list (bytes * list (Z * Z))),
            fold_left (fun reqs topic =>
               match partitions_for σ topic with
               | None => reqs
               | Some ps => fold_left (fun reqs '(id, host) => host_add reqs host topic (id, time))
                                      (leaders_from σ ps 0) reqs
               end) topics acc = acc).
  { induction topics as [|t r IH]; intros acc; cbn [fold_left]; [reflexivity|]. rewrite Hp. apply IH. }
  apply G.
Qed.

Lemma fetch_reqs_nil c input : topic_partitions (cs c) = [] -> fetch_reqs c input = [].
Proof.
  intros H. destruct (empty_state_lookups _ H) as [_ Hf]. unfold fetch_reqs.
  assert (G : forall acc : list (bytes * fetch_tps),
            fold_left (fun reqs q =>
               match find_broker (cs c) (fq_topic q) (fq_partition q) with
               | None => reqs
               | Some host =>
                   fhost_add reqs host (fq_topic q) (fq_partition q) (fq_offset q)
                             (if 0 <? fq_max_bytes q then fq_max_bytes q
                              else fetch_max_bytes_per_partition (cfg c))
               end) input acc = acc).
  { induction input as [|q r IH]; intros acc; cbn [fold_left]; [reflexivity|]. rewrite Hf. apply IH. }
  apply G.
Qed.

Theorem C06_forgotten_nothing_sent : forall s,
  topic_partitions (cs (cl s)) = [] ->
  (forall topics time, fetch_offsets topics time s = (Ok [], bump s)) /\
  (forall topics time, list_offsets topics time s = (Ok [], bump s)) /\
  (forall input, fetch_messages input s = (Ok [], bump s)) /\
  (forall acks timeout m msgs,
     internal_produce_messages acks timeout (m :: msgs) s = (Err (EKafka KC_UnknownTopicOrPartition), bump s)) /\
  script (bump s) = script s /\ trace (bump s) = trace s /\ conns (cl (bump s)) = conns (cl s).
Proof.
  intros s H.
  assert (Hb : topic_partitions (cs (cl (bump s))) = []) by exact H.
  split; [|split; [|split; [|split]]].
  - intros topics time. unfold fetch_offsets. rewrite (mbind_ok _ _ _ _ _ (next_corr_run s)).
    unfold mbind at 1. unfold get_client at 1. rewrite (offset_reqs_nil _ topics time Hb). reflexivity.
  - intros topics time. unfold list_offsets. rewrite (mbind_ok _ _ _ _ _ (next_corr_run s)).
    unfold mbind at 1. unfold get_client at 1. rewrite (offset_reqs_nil _ topics time Hb). reflexivity.
  - intros input. unfold fetch_messages. rewrite (mbind_ok _ _ _ _ _ (next_corr_run s)).
    unfold mbind at 1. unfold get_client at 1. rewrite (fetch_reqs_nil _ input Hb). reflexivity.
  - intros acks timeout m msgs. unfold internal_produce_messages. rewrite (mbind_ok _ _ _ _ _ (next_corr_run s)).
    unfold mbind at 1. unfold get_client at 1. cbn [produce_reqs].
    destruct (empty_state_lookups _ Hb) as [_ Hf]. rewrite Hf. reflexivity.
  - repeat split; reflexivity.
Qed.
Example ex_forgotten_nothing_sent :
  let s := exB_st (clear_metadata ex_s1) [tag "h1:9092"] [OConn true; OWrote 1] in
  topic_partitions (cs (cl s)) = [] /\
  fetch_offsets [tag "a"] (-1) s = (Ok [], bump s) /\
  fetch_messages [ {| fq_topic := tag "a"; fq_partition := 0; fq_offset := 0; fq_max_bytes := 100 |} ] s
  = (Ok [], bump s) /\
  internal_produce_messages 1 1000
    [ {| pq_topic := tag "a"; pq_partition := 0; pq_key := None; pq_value := Some (tag "v") |} ] s
  = (Err (EKafka KC_UnknownTopicOrPartition), bump s) /\
  (* whereas with the metadata of before the reset the offset request goes out *)
  trace (snd (fetch_offsets [tag "a"] (-1) (exB_st ex_s1 [tag "h1:9092"] [OConn true; OWrote 1]))) <> [].
Proof. vm_compute. repeat split; try reflexivity. discriminate. Qed.

(* the scenario of seed C06-4 end to end: after a full load that failed, the view is empty, offset / fetch calls
   return empty results without any I/O and produce is refused with UnknownTopicOrPartition without any I/O *)
Theorem C06_failed_full_load_nothing_sent : forall s r s1,
  load_metadata_all s = (r, s1) -> r <> Ok tt ->
  abs (cs (cl s1)) = empty_view /\
  (forall topics time, fetch_offsets topics time s1 = (Ok [], bump s1)) /\
  (forall topics time, list_offsets topics time s1 = (Ok [], bump s1)) /\
  (forall input, fetch_messages input s1 = (Ok [], bump s1)) /\
  (forall acks timeout m msgs,
     internal_produce_messages acks timeout (m :: msgs) s1 = (Err (EKafka KC_UnknownTopicOrPartition), bump s1)) /\
  script (bump s1) = script s1 /\ trace (bump s1) = trace s1 /\ conns (cl (bump s1)) = conns (cl s1).
Proof.
  intros s r s1 H Hr. destruct (C06_load_metadata_all_failed_forgets s r s1 H Hr) as (Hcs & Habs & _).
  split; [exact Habs|]. apply C06_forgotten_nothing_sent. rewrite Hcs. reflexivity.
Qed.
Example ex_failed_full_load_nothing_sent :
  let s := exB_st ex_s1 [tag "b:2"] [OConn false; OWriteFail IoOther; OConn false; OConn true; OWrote 1] in
  let '(r, s1) := load_metadata_all s in
  r = Err ENoHostReachable /\
  fetch_offsets [tag "a"] (-1) s1 = (Ok [], bump s1) /\ script s1 = [OConn true; OWrote 1] /\
  trace (snd (fetch_offsets [tag "a"] (-1) s1)) = trace s1.
Proof. vm_compute. repeat split; reflexivity. Qed.

Theorem C06_reset_nothing_sent : forall s r s1,
  reset_metadata s = (r, s1) ->
  r = Ok tt /\ abs (cs (cl s1)) = empty_view /\
  (forall topics time, fetch_offsets topics time s1 = (Ok [], bump s1)) /\
  (forall topics time, list_offsets topics time s1 = (Ok [], bump s1)) /\
  (forall input, fetch_messages input s1 = (Ok [], bump s1)) /\
  (forall acks timeout m msgs,
     internal_produce_messages acks timeout (m :: msgs) s1 = (Err (EKafka KC_UnknownTopicOrPartition), bump s1)) /\
  script (bump s1) = script s /\ trace (bump s1) = trace s /\ conns (cl (bump s1)) = conns (cl s).
Proof.
  intros s r s1 H. rewrite reset_metadata_run in H. inversion H; subst. split; [reflexivity|].
  split; [apply (C06_clear (cs (cl s)))|].
  destruct (C06_forgotten_nothing_sent (reset_st s) eq_refl) as (H1 & H2 & H3 & H4 & _).
  repeat split; assumption || reflexivity.
Qed.
Example ex_reset_nothing_sent :
  let s := exB_st ex_s1 [] [OConn true] in
  let '(r, s1) := reset_metadata s in
  fetch_messages [ {| fq_topic := tag "a"; fq_partition := 1; fq_offset := 0; fq_max_bytes := 0 |} ] s1
  = (Ok [], bump s1) /\ find_broker (cs (cl s)) (tag "a") 1 = Some (tag "h2:9092").
Proof. vm_compute. split; reflexivity. Qed.

(* ---- fetch_metadata neither reads nor writes the topic / broker state -------------------------------- *)
(* m neither reads nor writes the client state *)
Definition indep {A} (m : M A) : Prop := forall x s, m (wcs x s) = (fst (m s), wcs x (snd (m s))).

Lemma indep_ret {A} (a : A) : indep (ret a).
Proof. intros x s. reflexivity. Qed.
Lemma indep_fail {A} e : indep (@fail A e).
Proof. intros x s. reflexivity. Qed.
Lemma indep_lift {A} (r : res A) : indep (lift r).
Proof. intros x s. reflexivity. Qed.
Lemma indep_bind {A B} (m : M A) (f : A -> M B) : indep m -> (forall a, indep (f a)) -> indep (mbind m f).
Proof.
  intros Hm Hf x s. unfold mbind. rewrite Hm. destruct (m s) as [[a|e|w] s1]; cbn [fst snd]; [apply Hf| |]; reflexivity.
Qed.
Lemma indep_mtry {A} (m : M A) : indep m -> indep (mtry m).
Proof. intros Hm x s. unfold mtry. rewrite Hm. destruct (m s) as [[a|e|w] s1]; reflexivity. Qed.
Lemma indep_with_fuel {A} (f : nat -> M A) : (forall n, indep (f n)) -> indep (with_fuel f).
Proof. intros Hf x s. unfold with_fuel. cbn [wcs script]. apply Hf. Qed.
Lemma indep_io op : indep (io op).
Proof. intros x s. unfold io. cbn [wcs script trace]. destruct (script s); reflexivity. Qed.
(* reading the client, as long as only the configuration and the pool are looked at *)
Lemma indep_client {A} (f : client -> M A) :
  (forall c y, f {| cfg := cfg c; cs := y; conns := conns c |} = f c) -> (forall c, indep (f c)) ->
  indep (mbind get_client f).
Proof.
  intros Hf Hi x s. unfold mbind, get_client. cbn [wcs cl]. rewrite (Hf (cl s) x). apply Hi.
Qed.
Lemma indep_set_conns y : indep (set_conns y).
Proof. intros x s. reflexivity. Qed.

Lemma indep_write_all h : forall fuel buf, indep (write_all fuel h buf).
Proof.
  induction fuel as [|f IH]; intros buf; destruct buf as [|b buf]; cbn [write_all];
    try apply indep_ret; try apply indep_fail.
  apply indep_bind; [apply indep_io|]. intros o.
  destruct o; try apply indep_fail; try apply IH. destruct (k <=? 0); [apply indep_fail|apply IH].
Qed.
Lemma indep_read_exact h : forall fuel n acc, indep (read_exact fuel h n acc).
Proof.
  induction fuel as [|f IH]; intros n acc; cbn [read_exact]; destruct (n <=? 0);
    try apply indep_ret; try apply indep_fail.
  apply indep_bind; [apply indep_io|]. intros o.
  destruct o; try apply indep_fail; try apply IH. destruct bs; [apply indep_fail|apply IH].
Qed.
Lemma indep_read_chunks h : forall fuel rem acc, indep (read_chunks fuel h rem acc).
Proof.
  induction fuel as [|f IH]; intros rem acc; cbn [read_chunks]; destruct (rem <=? 0);
    try apply indep_ret; try apply indep_fail.
  apply indep_bind; [apply indep_with_fuel; intros g; apply indep_read_exact|]. intros b. apply IH.
Qed.
Lemma indep_send_request h p : indep (send_request h p).
Proof.
  unfold send_request. apply indep_bind; [apply indep_lift|]. intros q. unfold send.
  apply indep_bind; [apply indep_with_fuel; intros f; apply indep_write_all|]. intros _. apply indep_ret.
Qed.
Lemma indep_get_response {A} (d : dec A) h : indep (get_response d h).
Proof.
  unfold get_response. apply indep_bind.
  - unfold get_response_bytes. apply indep_bind.
    + unfold get_response_size. apply indep_bind; [apply indep_with_fuel; intros f; apply indep_read_exact|].
      intros b. destruct (be_dec_s b <? 0); [apply indep_fail|apply indep_ret].
    + intros size. unfold read_exact_alloc. apply indep_with_fuel. intros f. apply indep_read_chunks.
  - intros b. apply indep_bind; [apply indep_lift|]. intros [a r]. apply indep_ret.
Qed.
Lemma indep_new_conn h : indep (new_conn h).
Proof.
  unfold new_conn. apply indep_bind; [apply indep_io|]. intros o.
  destruct o; try apply indep_fail. destruct ok; [apply indep_ret|apply indep_fail].
Qed.
Lemma indep_get_conn h : indep (get_conn h).
Proof.
  unfold get_conn. apply indep_client.
  - intros c y. reflexivity.
  - intros c. destruct (in_pool h (conns c)).
    + destruct (idle_expired (cfg c)); [|apply indep_ret].
      apply indep_bind; [apply indep_new_conn|]. intros _. unfold shutdown.
      apply indep_bind; [apply indep_io|]. intros _. apply indep_ret.
    + apply indep_bind; [apply indep_new_conn|]. intros _. apply indep_set_conns.
Qed.
Lemma indep_hosts corr topics : forall hs, indep (fetch_metadata_hosts corr topics hs).
Proof.
  induction hs as [|h r IH]; cbn [fetch_metadata_hosts]; [apply indep_fail|].
  apply indep_client.
  - intros c y. reflexivity.
  - intros c. apply indep_bind; [apply indep_mtry, indep_get_conn|]. intros rc.
    destruct rc; try exact IH.
    apply indep_bind; [apply indep_mtry, indep_send_request|]. intros rs.
    destruct rs; try exact IH. apply indep_get_response.
Qed.

(* which host is asked, what is asked, what is answered, the events and the pool afterwards: none of it depends on
   the brokers, topics or coordinators the client knows - only on the correlation counter *)
Theorem C06_fetch_metadata_ignores_view : forall topics s x,
  correlation x = correlation (cs (cl s)) ->
  fetch_metadata topics (wcs x s)
  = (fst (fetch_metadata topics s), wcs (snd (next_correlation_id x)) (snd (fetch_metadata topics s))).
Proof.
  intros topics s x Hc. rewrite !fetch_metadata_run.
  assert (Hn : fst (next_correlation_id (cs (cl (wcs x s)))) = fst (next_correlation_id (cs (cl s)))).
  { unfold next_correlation_id. cbn [wcs cl cs fst]. rewrite Hc. reflexivity. }
  rewrite Hn.
  change (bump (wcs x s)) with (wcs (snd (next_correlation_id x)) (bump s)).
  change (hosts (cfg (cl (wcs x s)))) with (hosts (cfg (cl s))).
  apply indep_hosts.
Qed.
Example ex_fetch_metadata_ignores_view :
  let s := exB_st ex_s1 [] [OConn false; OConn true; OWrote 18; OData (enc_i32 12);
                            OData (enc_i32 1 ++ enc_i32 0 ++ enc_i32 0)] in
  fst (fetch_metadata [] (wcs ex_s5 s)) = fst (fetch_metadata [] s) /\
  fst (fetch_metadata [] s) = Ok {| md_corr := 1; md_brokers := []; md_topics := [] |} /\
  trace (snd (fetch_metadata [] (wcs ex_s5 s))) = trace (snd (fetch_metadata [] s)) /\
  correlation ex_s5 = correlation (cs (cl s)) /\ abs ex_s5 <> abs ex_s1.
Proof. vm_compute. repeat split; try reflexivity. discriminate. Qed.

(* ================================================================================================ *)
(* B. histories of CALLS (successful or not) of the three public entry points                       *)
(* ================================================================================================ *)

Inductive mcall := MAll | MLoad (topics : list bytes) | MReset.

Definition run_mcall (c : mcall) : M unit :=
  match c with MAll => load_metadata_all | MLoad ts => load_metadata ts | MReset => reset_metadata end.

(* the metadata response a load received, if it received one *)
Definition got (topics : list bytes) (s : st) : list (option metadata_resp) :=
  match fst (fetch_metadata topics s) with Ok md => [Some md] | _ => [] end.

(* what call c, made in state s, contributes to the history in the sense of C06_history
   (None = everything forgotten, Some md = response md merged): a full load forgets FIRST, and receives a
   response or not; a load that received nothing contributes nothing *)
Definition received (c : mcall) (s : st) : list (option metadata_resp) :=
  match c with
  | MReset => [None]
  | MLoad ts => got ts s
  | MAll => None :: got [] (reset_st s)
  end.

(* the calls are made one after the other, whatever each of them returns *)
Fixpoint run_calls (calls : list mcall) (s : st) : st * list (option metadata_resp) :=
  match calls with
  | [] => (s, [])
  | c :: r => let '(s2, ops) := run_calls r (snd (run_mcall c s)) in (s2, received c s ++ ops)
  end.

(* the faithful reading of a history (merge_code instead of merge: no well-formedness needed) *)
Definition step_ac (a : aview) (op : option metadata_resp) : aview :=
  match op with None => empty_view | Some md => merge_code a md end.

Lemma step_ac_wf : forall ops a, Forall wf_op ops -> fold_left step_ac ops a = fold_left step_a ops a.
Proof.
  induction ops as [|op ops IH]; intros a Hwf; cbn [fold_left]; [reflexivity|].
  inversion Hwf as [|x xs Hop Hops]; subst. destruct op as [md|]; cbn [step_ac step_a].
  - rewrite (merge_code_wf a md Hop). apply IH; exact Hops.
  - apply IH; exact Hops.
Qed.

Lemma listed_brokers_app a b : listed_brokers (a ++ b) = listed_brokers a + listed_brokers b.
Proof.
  induction a as [|op a IH]; cbn [app listed_brokers fold_right]; [reflexivity|].
  fold (listed_brokers (a ++ b)). fold (listed_brokers a). rewrite IH. destruct op; lia.
Qed.

Lemma abs_bump σ : abs (snd (next_correlation_id σ)) = abs σ.
Proof. reflexivity. Qed.

(* one load, whatever its outcome *)
Lemma load_step topics s :
  inv (cs (cl s)) ->
  ulen (brokers (cs (cl s))) + listed_brokers (got topics s) <= UNKNOWN_BROKER_INDEX ->
  inv (cs (cl (snd (load_metadata topics s)))) /\
  abs (cs (cl (snd (load_metadata topics s)))) = fold_left step_ac (got topics s) (abs (cs (cl s))) /\
  ulen (brokers (cs (cl (snd (load_metadata topics s)))))
  <= ulen (brokers (cs (cl s))) + listed_brokers (got topics s).
Proof.
  intros Hinv Hsz. rewrite load_metadata_run. unfold got in *.
  destruct (fetch_metadata topics s) as [[md|e|w] s1] eqn:HF; cbn [fst snd] in *;
    destruct (fetch_metadata_cs _ _ _ _ HF) as [Hcs _].
  - cbn [wcs cl cs]. cbn [listed_brokers fold_right] in Hsz.
    assert (Hinv1 : inv (cs (cl s1))) by (rewrite Hcs; exact Hinv).
    assert (Hb : brokers (cs (cl s1)) = brokers (cs (cl s))) by (rewrite Hcs; reflexivity).
    pose proof (update_metadata_eq (cs (cl s1)) md) as Hu.
    assert (Hsm : small (upd_fun (cs (cl s1)) md)).
    { apply (small_step (cs (cl s1)) md _ Hinv1); [rewrite Hb; lia|exact Hu]. }
    split; [exact (C06_inv_step _ _ _ Hinv1 Hu)|]. split.
    + cbn [fold_left step_ac]. rewrite (C06_refines_code _ _ _ Hinv1 Hsm Hu). rewrite Hcs. reflexivity.
    + pose proof (brokers_bound _ _ _ Hinv1 Hu) as Hbb. rewrite Hb in Hbb.
      cbn [listed_brokers fold_right]. lia.
  - rewrite Hcs. cbn [fold_left listed_brokers fold_right].
    split; [exact Hinv|]. split; [reflexivity|]. change (brokers (snd (next_correlation_id (cs (cl s))))) with (brokers (cs (cl s))). lia.
  - rewrite Hcs. cbn [fold_left listed_brokers fold_right].
    split; [exact Hinv|]. split; [reflexivity|]. change (brokers (snd (next_correlation_id (cs (cl s))))) with (brokers (cs (cl s))). lia.
Qed.

Lemma got_nonneg topics s : 0 <= listed_brokers (got topics s).
Proof. apply listed_brokers_nonneg. Qed.

(* one call, whatever its outcome *)
Lemma call_step c s :
  inv (cs (cl s)) ->
  ulen (brokers (cs (cl s))) + listed_brokers (received c s) <= UNKNOWN_BROKER_INDEX ->
  inv (cs (cl (snd (run_mcall c s)))) /\
  abs (cs (cl (snd (run_mcall c s)))) = fold_left step_ac (received c s) (abs (cs (cl s))) /\
  ulen (brokers (cs (cl (snd (run_mcall c s)))))
  <= ulen (brokers (cs (cl s))) + listed_brokers (received c s).
Proof.
  intros Hinv Hsz. destruct c as [|ts|]; cbn [run_mcall received] in *.
  - (* full load = reset, then load [] *)
    rewrite load_metadata_all_unfold.
    cbn [listed_brokers fold_right] in Hsz. fold (listed_brokers (got [] (reset_st s))) in Hsz.
    assert (Hi0 : inv (cs (cl (reset_st s)))) by apply (C06_inv_clear (cs (cl s))).
    assert (Hb0 : ulen (brokers (cs (cl (reset_st s)))) = 0) by reflexivity.
    pose proof (got_nonneg [] (reset_st s)) as Hpos.
    assert (Hlen : 0 <= ulen (brokers (cs (cl s)))) by (unfold ulen; lia).
    destruct (load_step [] (reset_st s) Hi0) as (H1 & H2 & H3); [rewrite Hb0; lia|].
    split; [exact H1|]. split.
    + cbn [fold_left step_ac]. rewrite H2. reflexivity.
    + cbn [listed_brokers fold_right]. fold (listed_brokers (got [] (reset_st s))). lia.
  - apply load_step; assumption.
  - rewrite reset_metadata_run. cbn [snd fold_left step_ac listed_brokers fold_right].
    split; [apply (C06_inv_clear (cs (cl s)))|]. split; [apply (C06_clear (cs (cl s)))|].
    change (ulen (brokers (cs (cl (reset_st s))))) with 0. unfold ulen. lia.
Qed.

Lemma call_history_gen : forall calls s,
  inv (cs (cl s)) ->
  ulen (brokers (cs (cl s))) + listed_brokers (snd (run_calls calls s)) <= UNKNOWN_BROKER_INDEX ->
  inv (cs (cl (fst (run_calls calls s)))) /\
  abs (cs (cl (fst (run_calls calls s)))) = fold_left step_ac (snd (run_calls calls s)) (abs (cs (cl s))).
Proof.
  induction calls as [|c r IH]; intros s Hinv Hsz; cbn [run_calls].
  - cbn [fst snd fold_left]. split; [exact Hinv|reflexivity].
  - cbn [run_calls] in Hsz.
    destruct (run_calls r (snd (run_mcall c s))) as [s2 ops] eqn:E. cbn [fst snd] in *.
    rewrite listed_brokers_app in Hsz. pose proof (listed_brokers_nonneg ops) as Hpos.
    destruct (call_step c s Hinv) as (H1 & H2 & H3); [lia|].
    specialize (IH (snd (run_mcall c s)) H1). rewrite E in IH. cbn [fst snd] in IH.
    destruct IH as [I1 I2]; [lia|]. split; [exact I1|]. rewrite fold_left_app, <- H2. exact I2.
Qed.

(* THE HISTORY CLAUSE OVER CALLS.  Any sequence of load_metadata_all / load_metadata(topics) / reset_metadata
   calls, made from any state satisfying the invariant, against any script (so: any subset of the bootstrap
   hosts unreachable at any time, any reply cut short or undecodable), each call's outcome ignored: the view
   at the end is the merge, in order, of the responses the calls received, emptied by every explicit reset and
   by every full load - before its response is merged, and also when it did not get one. *)
Theorem C06_call_history : forall calls s,
  inv (cs (cl s)) ->
  ulen (brokers (cs (cl s))) + listed_brokers (snd (run_calls calls s)) <= UNKNOWN_BROKER_INDEX ->
  inv (cs (cl (fst (run_calls calls s)))) /\
  abs (cs (cl (fst (run_calls calls s)))) = fold_left step_ac (snd (run_calls calls s)) (abs (cs (cl s))) /\
  (Forall wf_op (snd (run_calls calls s)) ->
   abs (cs (cl (fst (run_calls calls s)))) = fold_left step_a (snd (run_calls calls s)) (abs (cs (cl s)))).
Proof.
  intros calls s Hinv Hsz. destruct (call_history_gen calls s Hinv Hsz) as [H1 H2].
  split; [exact H1|]. split; [exact H2|]. intros Hwf. rewrite H2. apply step_ac_wf. exact Hwf.
Qed.

(* from a new client *)
Theorem C06_call_history_fresh : forall calls s,
  cs (cl s) = cstate_new ->
  listed_brokers (snd (run_calls calls s)) <= UNKNOWN_BROKER_INDEX ->
  Forall wf_op (snd (run_calls calls s)) ->
  inv (cs (cl (fst (run_calls calls s)))) /\
  abs (cs (cl (fst (run_calls calls s)))) = fold_left step_a (snd (run_calls calls s)) empty_view /\
  forall t p, find_broker (cs (cl (fst (run_calls calls s)))) t p
              = route (fold_left step_a (snd (run_calls calls s)) empty_view) t p.
Proof.
  intros calls s Hs Hsz Hwf.
  assert (Hinv : inv (cs (cl s))) by (rewrite Hs; exact C06_inv_init).
  destruct (C06_call_history calls s Hinv) as (H1 & _ & H3).
  { rewrite Hs. change (ulen (brokers cstate_new)) with 0. lia. }
  specialize (H3 Hwf). rewrite Hs in H3. change (abs cstate_new) with empty_view in H3.
  split; [exact H1|]. split; [exact H3|]. intros t p. rewrite <- H3. apply C06_routing. exact H1.
Qed.

(* a history with a failing full load in the middle: bootstrap hosts a:1, b:2, c:3; the client starts with the
   metadata of ex_md1 (topic a).
   1. load_metadata [b]: a:1 refuses, b:2 answers ex_md2 (node 2 moved, topic b)      -> merged
   2. load_metadata_all: a:1 refuses, the write to the pooled b:2 fails, c:3 refuses   -> NoHostReachable, EMPTY
   3. load_metadata [b]: a:1 refuses, b:2 (still pooled) answers ex_md2                -> merged into the empty view
   4. load_metadata [b]: nobody reachable                                             -> nothing changes *)
Definition exB_calls : list mcall := [MLoad [tag "b"]; MAll; MLoad [tag "b"]; MLoad [tag "b"]].
Definition exB_hist_st : st :=
  exB_st ex_s1 []
    [OConn false; OConn true; OWrote 21; OData (enc_i32 (ulen ex_md2_bytes)); OData ex_md2_bytes;
     OConn false; OWriteFail IoOther; OConn false;
     OConn false; OWrote 21; OData (enc_i32 (ulen ex_md2_bytes)); OData ex_md2_bytes;
     OConn false; OWriteFail IoOther; OConn false].
Example ex_call_history :
  let '(s', ops) := run_calls exB_calls exB_hist_st in
  ops = [Some ex_md2; None; Some ex_md2] /\
  script s' = [] /\
  abs (cs (cl s')) = fold_left step_a ops (abs ex_s1) /\
  abs (cs (cl s')) = {| a_host := [(2, tag "h2:9093")]; a_topics := [(tag "b", [Some 2])] |} /\
  find_broker (cs (cl s')) (tag "a") 0 = None /\                       (* forgotten by the FAILED full load *)
  find_broker (cs (cl s')) (tag "b") 0 = Some (tag "h2:9093") /\
  fst (run_mcall MAll (snd (run_mcall (MLoad [tag "b"]) exB_hist_st))) = Err ENoHostReachable /\
  ulen (brokers (cs (cl exB_hist_st))) + listed_brokers ops <= UNKNOWN_BROKER_INDEX.
Proof. vm_compute. repeat split; try reflexivity. discriminate. Qed.
Example ex_call_history_wf :
  Forall wf_op (snd (run_calls exB_calls exB_hist_st)) /\ inv (cs (cl exB_hist_st)).
Proof.
  split; [|exact ex_inv_s1].
  assert (E : snd (run_calls exB_calls exB_hist_st) = [Some ex_md2; None; Some ex_md2]) by (vm_compute; reflexivity).
  rewrite E. constructor; [exact ex_wf_md2|]. constructor; [exact I|]. constructor; [exact ex_wf_md2|constructor].
Qed.
Example ex_call_history_fresh :
  let s := exB_st cstate_new [] [OConn false; OConn true; OWrote 18; OData (enc_i32 (ulen ex_md2_bytes)); OData ex_md2_bytes;
                                 OConn false; OWriteFail IoOther; OConn false] in
  let '(s', ops) := run_calls [MAll; MAll] s in
  ops = [None; Some ex_md2; None] /\ abs (cs (cl s')) = empty_view /\ cs (cl s) = cstate_new.
Proof. vm_compute. repeat split; reflexivity. Qed.

(* OBSERVATION (outside the view, hence outside C06 as stated): clear_metadata empties the broker vector but keeps
   the coordinator cache, which refers to brokers BY INDEX.  Group g has coordinator node 2 @ h2:9092 (index 1);
   after a reset and a load whose response lists the brokers in the other order, the cache answers h1:9092. *)
Definition exB_gcr : coordinator_resp :=
  {| gc_corr := 1; gc_error := 0; gc_broker := 2; gc_host := tag "h2"; gc_port := 9092 |}.
Definition exB_sg : cstate := snd (set_group_coordinator ex_s1 (tag "g") exB_gcr).
Definition exB_md_swapped : metadata_resp :=
  {| md_corr := 9; md_brokers := [ex_bm 2 (tag "h2") 9092; ex_bm 1 (tag "h1") 9092]; md_topics := [] |}.
Example ex_coordinator_crossed_after_reset :
  group_coordinator exB_sg (tag "g") = Some (tag "h2:9092") /\
  group_coordinator (clear_metadata exB_sg) (tag "g") = None /\
  group_coordinator (ex_load (clear_metadata exB_sg) exB_md_swapped) (tag "g") = Some (tag "h1:9092").
Proof. vm_compute. repeat split; reflexivity. Qed.

(* ================================================================================================ *)
Print Assumptions C06_load_metadata_all_failed_forgets.
Print Assumptions C06_load_metadata_all_forgets.
Print Assumptions C06_forgotten_nothing_sent.
Print Assumptions C06_failed_full_load_nothing_sent.
Print Assumptions C06_reset_nothing_sent.
Print Assumptions C06_fetch_metadata_ignores_view.
Print Assumptions C06_call_history.
Print Assumptions C06_call_history_fresh.
