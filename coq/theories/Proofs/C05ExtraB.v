(* C05, additional theorems, third file (second adequacy pass; seeded change C05-4 "requests handed out to all
   brokers first, responses collected afterwards").

   What was missing.  Of the clause "the confirmations returned are exactly the per-partition results of all
   broker responses" Props/C05.v only had C05_confirms: `exists resps, length resps = length reqs /\ v = acc ++ ...`,
   which says nothing about WHERE the responses come from, and nothing at all about a call that fails.  The
   pipelined loop of the seed satisfies it (and every other theorem of Props/C05.v: all of them are about the
   request map, about the bytes of a write, or about the set of hosts touched - none about the ORDER of the
   events of different hosts).

   Part E  the shape of the exchange loop with acks <> 0, as a relation between the events performed (in
           execution order) and the script items that answered them:
     `one_exchange`  = (re)connect events of h, the WHOLE frame of the request for h written, then reads on h
                       that delivered a size header and a body, the body decoding to the response rtps;
     `exchanged`     = one such block per request, in the order of the requests, nothing in between.
     C05_confirms_are_responses: a successful exchange loop is `exchanged` over ALL requests and the
           confirmations are acc ++ the per-partition results of exactly the responses decoded in these blocks,
           i.e. of the bytes the stream of host h delivered AFTER the request of this call was written to h and
           BEFORE the next host was touched.
     C05_failed_exchange_shape: an exchange loop that does NOT succeed is `exchanged` over a proper prefix
           `done` of the requests, followed by events on ONE host only - the next one, at which the very same
           failure is the outcome of a single send_receive; the hosts after it saw no event.  Hence when the
           call fails, no host other than the failing one is left with a request written and its response unread
           (the state a later call on the same client starts from).  This is what the seed breaks.
     C05_exchange_app: the loop over r1 ++ r2 is the loop over r1 followed by the loop over r2.
   Part E2 a decidable reading of the same fact on the event list alone: `in_turn ops` = an event that directly
           follows a write to h is a write to h or a read on h (never a connect, never another host).
           C05_response_awaited_before_next_host: it holds of the events of the loop, WHATEVER the outcome.
   Part F  the same at the public entry points: KafkaClient::produce_messages (C05_call_confirms,
           C05_call_failure, C05_call_in_turn) and Producer::send_all (C05_producer_confirms,
           C05_producer_failure, C05_producer_in_turn), where the requests are `reorder o reqs` of the request
           map of the batch (o = HashMap iteration order).  The two *_in_turn theorems have no side condition
           besides acks <> 0.

   Not done / not proved:
   - the forward direction ("if the script answers, request by request, the connect, accepts the frame and
     delivers a size header and a body that decodes, then the call succeeds with exactly these responses"); only
     the examples at the end run it;
   - a per-connection queue of unread responses does not exist in the model (ONE global script answers all
     events in order), so "the next call reads the previous call's response" cannot be stated literally; what is
     stated is its cause: every call, failed or not, leaves no host other than the failing one with a request
     written and its response unread (C05_failed_exchange_shape), and never moves on from a written request
     without turning to that host's response (in_turn);
   - nothing relates the topics / partitions / correlation id of a response to those of the request it answers:
     the code does not look at them (see C05_exchange_app_ex, where the responses name other partitions than the
     requests and are returned all the same). *)
From Coq Require Import ZifyBool Sorting.Permutation.
From KV Require Import Base.Prelude Gen.Consts Model.Codecs Model.Requests Model.Responses
                       Model.ClientState Model.Net Model.Client Model.Producer.
From KV Require Import Proofs.BytesFacts Proofs.C20Facts Proofs.C05Facts.
From KV Require Import Proofs.NetFacts.

(* ================================================================================================== *)
(* Part E: request, then ITS response, host after host                                                 *)
(* ================================================================================================== *)

Definition presp := list (bytes * list produce_part).

(* one complete exchange with h, events `ops` (execution order) answered by `outs` *)
Definition one_exchange (e0 : codecs) (g0 : config) (corr acks timeout : Z) (h : bytes) (tps : produce_tps)
           (ops : list ev_op) (outs : list ev_out) (rtps : presp) : Prop :=
  exists cops couts p wops wouts chunks rops routs b0 b c rest,
    ops = cops ++ wops ++ rops /\ outs = couts ++ wouts ++ routs
    /\ Forall (conn_event h) cops /\ length cops = length couts
    /\ enc_produce_req e0 corr (Net.client_id g0) acks timeout (compression g0) tps = Ok p
    /\ wsteps h (frame p) wops wouts chunks []
    /\ reads h rops routs (b0 ++ b) /\ 4 <= ulen b0
    /\ (Forall read_ok (combine rops routs) -> ulen b0 = 4 /\ ulen b = be_dec_s b0)
    /\ dec_produce_resp b = Ok ((c, rtps), rest).

Inductive exchanged (e0 : codecs) (g0 : config) (corr acks timeout : Z)
  : list (bytes * produce_tps) -> list ev_op -> list ev_out -> list presp -> Prop :=
| EX_nil : exchanged e0 g0 corr acks timeout [] [] [] []
| EX_cons h tps r ops1 outs1 rtps ops outs resps :
    one_exchange e0 g0 corr acks timeout h tps ops1 outs1 rtps ->
    exchanged e0 g0 corr acks timeout r ops outs resps ->
    exchanged e0 g0 corr acks timeout ((h, tps) :: r) (ops1 ++ ops) (outs1 ++ outs) (rtps :: resps).

Lemma exchanged_app e0 g0 corr acks timeout r1 o1 u1 p1 r2 o2 u2 p2 :
  exchanged e0 g0 corr acks timeout r1 o1 u1 p1 -> exchanged e0 g0 corr acks timeout r2 o2 u2 p2 ->
  exchanged e0 g0 corr acks timeout (r1 ++ r2) (o1 ++ o2) (u1 ++ u2) (p1 ++ p2).
Proof.
  induction 1 as [|h tps r ops1 outs1 rtps ops outs resps H1 _ IH]; intros H2; [exact H2|].
  cbn [app]. rewrite <- !app_assoc. constructor; [exact H1|apply IH; exact H2].
Qed.

Lemma exchanged_lengths e0 g0 corr acks timeout r o u p :
  exchanged e0 g0 corr acks timeout r o u p -> length p = length r /\ length o = length u.
Proof.
  induction 1 as [|h tps r ops1 outs1 rtps ops outs resps H1 _ [IH1 IH2]]; [split; reflexivity|].
  split; [cbn [length]; rewrite IH1; reflexivity|].
  destruct H1 as (cops & couts & p & wops & wouts & chunks & rops & routs & b0 & b & c & rest
                  & -> & -> & _ & Lc & _ & Hw & (Lr & _) & _).
  pose proof (wsteps_length _ _ _ _ _ _ Hw) as Lw. rewrite !app_length. lia.
Qed.

(* every event of a block concerns its host: first connects, then writes, then at least one read *)
Lemma one_exchange_hosts e0 g0 corr acks timeout h tps ops outs rtps :
  one_exchange e0 g0 corr acks timeout h tps ops outs rtps ->
  Forall (on_host h) ops /\ exists e, In e ops /\ read_event h e.
Proof.
  intros (cops & couts & p & wops & wouts & chunks & rops & routs & b0 & b & c & rest
          & -> & -> & Hc & Lc & _ & Hw & (Lr & Hr & Hg & Hp) & H4 & _). split.
  - apply Forall_app. split; [|apply Forall_app; split].
    + eapply Forall_impl; [|exact Hc]. intros e [-> | ->]; reflexivity.
    + pose proof (wsteps_writes _ _ _ _ _ _ Hw) as Hall. apply Forall_app in Hall. destruct Hall as [Hall _].
      eapply Forall_impl; [|exact Hall]. intros e (b1 & -> & _). reflexivity.
    + eapply Forall_impl; [|exact Hr]. intros e (n & -> & _). reflexivity.
  - destruct rops as [|e rops].
    + destruct routs; [|discriminate]. cbn in Hp. destruct b0; [|discriminate]. unfold ulen in H4. cbn in H4. lia.
    + exists e. split; [apply in_or_app; right; apply in_or_app; right; left; reflexivity|].
      inversion Hr as [|? ? (n & -> & _) _]. exists n. reflexivity.
Qed.

(* a successful send_receive of a produce request is one block *)
Lemma send_receive_one e0 g0 corr acks timeout h tps x c rtps x' :
  env x = e0 -> cfg (cl x) = g0 ->
  send_receive dec_produce_resp h (enc_produce_req e0 corr (Net.client_id g0) acks timeout (compression g0) tps) x
  = (Ok (c, rtps), x') ->
  exists ops outs, seg x x' outs ops /\ one_exchange e0 g0 corr acks timeout h tps ops outs rtps.
Proof.
  intros He Hg H.
  destruct (enc_produce_req e0 corr (Net.client_id g0) acks timeout (compression g0) tps) as [p|e|w] eqn:Ep.
  - destruct (send_receive_ok _ _ _ _ _ _ H) as (s1 & s2 & z & b & rest & H1 & H2 & H3 & H4).
    destruct (stepsR_ok_full _ _ _ (tracks_get_conn h _ _ _ H1)) as (couts & cops & Sc & Lc).
    destruct (ops_get_conn h _ _ _ H1) as [_ Fc]. rewrite (seg_performed _ _ _ _ Sc) in Fc.
    destruct (send_ok _ _ _ _ _ H2) as (wops & wouts & chunks & Hw & Sw & _).
    destruct (get_response_bytes_ok _ _ _ _ H3) as (rops & routs & b0 & Sr & Hr & L4 & _ & _ & Hex).
    exists (cops ++ wops ++ rops), (couts ++ wouts ++ routs). split.
    + eapply seg_trans; [exact Sc|]. eapply seg_trans; [exact Sw|exact Sr].
    + exists cops, couts, p, wops, wouts, chunks, rops, routs, b0, b, c, rest.
      repeat (split; [first [reflexivity|assumption]|]). exact H4.
  - unfold send_receive in H. bind_inv H u s1 H1 H2; discriminate.
  - unfold send_receive in H. bind_inv H u s1 H1 H2; discriminate.
Qed.

Lemma exchange_step corr acks timeout h tps r acc x :
  (acks =? 0) = false ->
  produce_exchange corr acks timeout ((h, tps) :: r) acc x
  = (let+ '(_, rtps) := send_receive dec_produce_resp h
                          (enc_produce_req (env x) corr (Net.client_id (cfg (cl x))) acks timeout
                                           (compression (cfg (cl x))) tps) in
     produce_exchange corr acks timeout r (acc ++ confirms_of rtps)) x.
Proof.
  intros Ha. cbn [produce_exchange].
  rewrite (mbind_run _ _ _ _ _ (get_client_run x)).
  rewrite (mbind_run get_env _ x (env x) x eq_refl). cbv zeta. rewrite Ha. reflexivity.
Qed.

Lemma exchanged_ok e0 g0 corr acks timeout : (acks =? 0) = false -> forall reqs acc x v x',
  env x = e0 -> cfg (cl x) = g0 ->
  produce_exchange corr acks timeout reqs acc x = (Ok v, x') ->
  exists ops outs resps,
    seg x x' outs ops /\ exchanged e0 g0 corr acks timeout reqs ops outs resps
    /\ v = acc ++ flat_map confirms_of resps /\ env x' = e0 /\ cfg (cl x') = g0.
Proof.
  intros Ha. induction reqs as [|[h tps] r IH]; intros acc x v x' He Hg H.
  - cbn [produce_exchange] in H. rewrite Ha in H. inversion H; subst.
    exists [], [], []. split; [apply seg_refl|]. split; [constructor|]. cbn [flat_map]. rewrite app_nil_r. auto.
  - rewrite (exchange_step _ _ _ _ _ _ _ _ Ha) in H. rewrite He, Hg in H.
    bind_inv H a x1 H1 H2; try discriminate. destruct a as [c rtps].
    destruct (send_receive_one _ _ _ _ _ _ _ _ _ _ _ He Hg H1) as (ops1 & outs1 & S1 & O1).
    destruct (frame_send_receive _ _ _ _ _ _ _ H1) as (_ & _ & _ & _ & He1 & Hg1 & _).
    destruct (IH _ _ _ _ (eq_trans He1 He) (eq_trans Hg1 Hg) H2) as (ops & outs & resps & S2 & EX & -> & He' & Hg').
    exists (ops1 ++ ops), (outs1 ++ outs), (rtps :: resps).
    split; [eapply seg_trans; eassumption|]. split; [constructor; assumption|].
    cbn [flat_map]. rewrite app_assoc. auto.
Qed.

(* THE clause "the confirmations returned are exactly the per-partition results of all broker responses" *)
Theorem C05_confirms_are_responses : forall corr acks timeout reqs acc x v x',
  acks <> 0 ->
  produce_exchange corr acks timeout reqs acc x = (Ok v, x') ->
  exists ops outs resps,
    seg x x' outs ops
    /\ exchanged (env x) (cfg (cl x)) corr acks timeout reqs ops outs resps
    /\ v = acc ++ flat_map confirms_of resps.
Proof.
  intros corr acks timeout reqs acc x v x' Ha H. apply Z.eqb_neq in Ha.
  destruct (exchanged_ok (env x) (cfg (cl x)) corr acks timeout Ha reqs acc x v x' eq_refl eq_refl H)
    as (ops & outs & resps & S & EX & Hv & _).
  exists ops, outs, resps. split; [exact S|split; [exact EX|exact Hv]].
Qed.

(* failures of different result types that are the same failure *)
Definition same_failure {A B} (r : res A) (r' : res B) : Prop :=
  match r, r' with
  | Err e, Err e' => e = e'
  | Panic w, Panic w' => w = w'
  | _, _ => False
  end.

Lemma exchanged_fail e0 g0 corr acks timeout : (acks =? 0) = false -> forall reqs acc x r x',
  env x = e0 -> cfg (cl x) = g0 ->
  produce_exchange corr acks timeout reqs acc x = (r, x') -> (forall v, r <> Ok v) ->
  exists done h tps rest ops1 outs1 resps x1 r1,
    reqs = done ++ (h, tps) :: rest
    /\ seg x x1 outs1 ops1 /\ exchanged e0 g0 corr acks timeout done ops1 outs1 resps
    /\ produce_exchange corr acks timeout done acc x = (Ok (acc ++ flat_map confirms_of resps), x1)
    /\ send_receive dec_produce_resp h
         (enc_produce_req e0 corr (Net.client_id g0) acks timeout (compression g0) tps) x1 = (r1, x')
    /\ same_failure r r1.
Proof.
  intros Ha. induction reqs as [|[h tps] r0 IH]; intros acc x r x' He Hg H Hn.
  - cbn [produce_exchange] in H. rewrite Ha in H. inversion H; subst. exfalso. apply (Hn acc). reflexivity.
  - rewrite (exchange_step _ _ _ _ _ _ _ _ Ha) in H. rewrite He, Hg in H.
    assert (Hnil : produce_exchange corr acks timeout [] acc x = (Ok (acc ++ flat_map confirms_of []), x)).
    { cbn [produce_exchange flat_map]. rewrite Ha, app_nil_r. reflexivity. }
    bind_inv H a x1 H1 H2.
    + destruct a as [c rtps].
      destruct (send_receive_one _ _ _ _ _ _ _ _ _ _ _ He Hg H1) as (ops1 & outs1 & S1 & O1).
      destruct (frame_send_receive _ _ _ _ _ _ _ H1) as (_ & _ & _ & _ & He1 & Hg1 & _).
      destruct (IH _ _ _ _ (eq_trans He1 He) (eq_trans Hg1 Hg) H2 Hn)
        as (done & h' & tps' & rest & ops2 & outs2 & resps & x2 & r1 & -> & S2 & EX & Hd & Hsr & Hsf).
      exists ((h, tps) :: done), h', tps', rest, (ops1 ++ ops2), (outs1 ++ outs2), (rtps :: resps), x2, r1.
      split; [reflexivity|]. split; [eapply seg_trans; eassumption|]. split; [constructor; assumption|].
      split; [|split; assumption].
      rewrite (exchange_step _ _ _ _ _ _ _ _ Ha), He, Hg. rewrite (mbind_run _ _ _ _ _ H1).
      rewrite Hd. cbn [flat_map]. rewrite app_assoc. reflexivity.
    + exists [], h, tps, r0, [], [], [], x, (Err a).
      split; [reflexivity|]. split; [apply seg_refl|]. split; [constructor|]. split; [exact Hnil|].
      split; [exact H1|]. subst r. reflexivity.
    + exists [], h, tps, r0, [], [], [], x, (Panic a).
      split; [reflexivity|]. split; [apply seg_refl|]. split; [constructor|]. split; [exact Hnil|].
      split; [exact H1|]. subst r. reflexivity.
Qed.

(* a call that fails: complete exchanges with a prefix of the hosts, then events on ONE more host, the one
   whose send_receive produced the failure; nothing else.  No response of another host is left unread. *)
Theorem C05_failed_exchange_shape : forall corr acks timeout reqs acc x r x',
  acks <> 0 ->
  produce_exchange corr acks timeout reqs acc x = (r, x') -> (forall v, r <> Ok v) ->
  exists done h tps rest ops1 outs1 resps x1 r1,
    reqs = done ++ (h, tps) :: rest
    /\ seg x x1 outs1 ops1
    /\ exchanged (env x) (cfg (cl x)) corr acks timeout done ops1 outs1 resps
    /\ send_receive dec_produce_resp h
         (enc_produce_req (env x) corr (Net.client_id (cfg (cl x))) acks timeout (compression (cfg (cl x))) tps) x1
       = (r1, x')
    /\ same_failure r r1
    /\ ext x1 x' /\ Forall (on_host h) (performed x1 x')
    /\ performed x x' = ops1 ++ performed x1 x'.
Proof.
  intros corr acks timeout reqs acc x r x' Ha H Hn. apply Z.eqb_neq in Ha.
  destruct (exchanged_fail (env x) (cfg (cl x)) corr acks timeout Ha reqs acc x r x' eq_refl eq_refl H Hn)
    as (done & h & tps & rest & ops1 & outs1 & resps & x1 & r1 & E & S & EX & _ & Hsr & Hsf).
  exists done, h, tps, rest, ops1, outs1, resps, x1, r1.
  destruct (ops_send_receive _ _ _ _ _ _ _ Hsr) as [Hext Hall].
  repeat (split; [assumption|]).
  assert (Hx : ext x x1) by (exists outs1, ops1; exact S).
  rewrite (performed_app _ _ _ Hx Hext), (seg_performed _ _ _ _ S). reflexivity.
Qed.

Lemma mbind_cong {A B} (m m' : M A) (K : A -> M B) x : m x = m' x -> mbind m K x = mbind m' K x.
Proof. intros H. unfold mbind. rewrite H. reflexivity. Qed.

(* the loop over r1 ++ r2 is the loop over r1, then the loop over r2: nothing of r2 happens before the last
   response of r1 has been read *)
Theorem C05_exchange_app : forall corr acks timeout r1 r2 acc x,
  acks <> 0 ->
  produce_exchange corr acks timeout (r1 ++ r2) acc x
  = (let+ acc' := produce_exchange corr acks timeout r1 acc in produce_exchange corr acks timeout r2 acc') x.
Proof.
  intros corr acks timeout r1 r2 acc x Ha. apply Z.eqb_neq in Ha. revert acc x.
  induction r1 as [|[h tps] r IH]; intros acc x.
  - cbn [app produce_exchange]. rewrite Ha. reflexivity.
  - cbn [app]. rewrite (exchange_step _ _ _ _ _ _ _ _ Ha).
    rewrite (mbind_cong _ _ _ _ (exchange_step corr acks timeout h tps r acc x Ha)).
    unfold mbind.
    destruct (send_receive dec_produce_resp h
                (enc_produce_req (env x) corr (Net.client_id (cfg (cl x))) acks timeout (compression (cfg (cl x))) tps) x)
      as [[[c rtps]|e|w] x1]; [|reflexivity|reflexivity].
    specialize (IH (acc ++ confirms_of rtps) x1). unfold mbind in IH. exact IH.
Qed.

(* ================================================================================================== *)
(* Part F: the public entry points                                                                     *)
(* ================================================================================================== *)

Lemma ordered_run_io (reqs : list (bytes * produce_tps)) y :
  exists o y', ordered reqs y = (Ok (reorder o reqs), y')
               /\ trace y' = trace y /\ script y' = script y /\ env y' = env y /\ cl y' = cl y.
Proof.
  destruct reqs as [|q qs].
  - exists [], y. repeat split; reflexivity.
  - unfold ordered, pop_hosts, mbind, ret. destruct (hostq y) as [|o os].
    + exists [], y. repeat split; reflexivity.
    + eexists o, _. repeat split; reflexivity.
Qed.

Lemma seg_same_io y x x' outs ops :
  trace y = trace x -> script y = script x -> seg y x' outs ops -> seg x x' outs ops.
Proof. intros Ht Hs [H1 H2]. split; [rewrite <- Hs; exact H1|rewrite <- Ht; exact H2]. Qed.

Lemma performed_same_io y x x' : trace y = trace x -> performed y x' = performed x x'.
Proof. intros Ht. unfold performed. rewrite Ht. reflexivity. Qed.

Lemma ext_same_io y x x' : trace y = trace x -> script y = script x -> ext y x' -> ext x x'.
Proof. intros Ht Hs (outs & ops & H). exists outs, ops. eapply seg_same_io; eassumption. Qed.

Lemma produce_messages_millis acks d t msgs x :
  to_millis_i32 d = Ok t -> produce_messages acks d msgs x = internal_produce_messages acks t msgs x.
Proof. intros H. unfold produce_messages. rewrite H. reflexivity. Qed.

(* what both entry points run after the local part: the loop over the reordered request map, started in a
   state that differs from x in the correlation counter (and the consumed order hint) only *)
Lemma call_exchange_state (reqs : list (bytes * produce_tps)) x :
  exists o y, ordered reqs (bump_corr x) = (Ok (reorder o reqs), y)
              /\ trace y = trace x /\ script y = script x /\ env y = env x /\ cfg (cl y) = cfg (cl x).
Proof.
  destruct (ordered_run_io reqs (bump_corr x)) as (o & y & Ho & Ht & Hs & He & Hc).
  exists o, y. split; [exact Ho|]. rewrite Ht, Hs, He, Hc. repeat split; reflexivity.
Qed.

(* KafkaClient::produce_messages, success: the confirmations are the per-partition results of the responses
   read, one per request of the (reordered) request map of the batch, each read from the host of the request
   right after the request was written to it *)
Theorem C05_call_confirms : forall acks d t msgs reqs x v x',
  acks <> 0 -> to_millis_i32 d = Ok t ->
  produce_reqs (cs (cl x)) msgs [] = Some reqs ->
  produce_messages acks d msgs x = (Ok v, x') ->
  exists o ops outs resps,
    seg x x' outs ops
    /\ exchanged (env x) (cfg (cl x)) (fst (next_correlation_id (cs (cl x)))) acks t (reorder o reqs) ops outs resps
    /\ v = flat_map confirms_of resps.
Proof.
  intros acks d t msgs reqs x v x' Ha Hd Hreqs H.
  rewrite (produce_messages_millis _ _ _ _ _ Hd) in H.
  pose proof (C05_call_unfold acks t msgs x) as Hc. rewrite Hreqs in Hc. rewrite Hc in H. clear Hc.
  destruct (call_exchange_state reqs x) as (o & y & Ho & Ht & Hs & He & Hg).
  rewrite (mbind_run _ _ _ _ _ Ho) in H.
  destruct (C05_confirms_are_responses _ _ _ _ _ _ _ _ Ha H) as (ops & outs & resps & S & EX & Hv).
  exists o, ops, outs, resps. split; [exact (seg_same_io _ _ _ _ _ Ht Hs S)|].
  rewrite He, Hg in EX. split; [exact EX|exact Hv].
Qed.

(* KafkaClient::produce_messages, any failure after the local checks: complete exchanges with a prefix of the
   hosts, then events on one more host only, whose send_receive failed with the failure returned *)
Theorem C05_call_failure : forall acks d t msgs reqs x r x',
  acks <> 0 -> to_millis_i32 d = Ok t ->
  produce_reqs (cs (cl x)) msgs [] = Some reqs ->
  produce_messages acks d msgs x = (r, x') -> (forall v, r <> Ok v) ->
  exists o done h tps rest ops1 outs1 resps x1 r1,
    reorder o reqs = done ++ (h, tps) :: rest
    /\ seg x x1 outs1 ops1
    /\ exchanged (env x) (cfg (cl x)) (fst (next_correlation_id (cs (cl x)))) acks t done ops1 outs1 resps
    /\ send_receive dec_produce_resp h
         (enc_produce_req (env x) (fst (next_correlation_id (cs (cl x)))) (Net.client_id (cfg (cl x))) acks t
                          (compression (cfg (cl x))) tps) x1 = (r1, x')
    /\ same_failure r r1
    /\ ext x1 x' /\ Forall (on_host h) (performed x1 x')
    /\ performed x x' = ops1 ++ performed x1 x'.
Proof.
  intros acks d t msgs reqs x r x' Ha Hd Hreqs H Hn.
  rewrite (produce_messages_millis _ _ _ _ _ Hd) in H.
  pose proof (C05_call_unfold acks t msgs x) as Hc. rewrite Hreqs in Hc. rewrite Hc in H. clear Hc.
  destruct (call_exchange_state reqs x) as (o & y & Ho & Ht & Hs & He & Hg).
  rewrite (mbind_run _ _ _ _ _ Ho) in H.
  destruct (C05_failed_exchange_shape _ _ _ _ _ _ _ _ Ha H Hn)
    as (done & h & tps & rest & ops1 & outs1 & resps & x1 & r1 & E & S & EX & Hsr & Hsf & Hext & Hall & Hp).
  exists o, done, h, tps, rest, ops1, outs1, resps, x1, r1.
  rewrite He, Hg in EX, Hsr. rewrite (performed_same_io _ _ _ Ht) in Hp.
  split; [exact E|]. split; [exact (seg_same_io _ _ _ _ _ Ht Hs S)|].
  repeat (split; [assumption|]). exact Hp.
Qed.

(* Producer::send_all: the same with the producer's required acks and ack timeout *)
Theorem C05_producer_confirms : forall p recs reqs x v p' x',
  p_acks p <> 0 ->
  produce_reqs (cs (cl x)) (fst (partitioned (p_parts p) (p_cntr p) recs)) [] = Some reqs ->
  producer_send_all p recs x = (Ok (v, p'), x') ->
  exists o ops outs resps,
    seg x x' outs ops
    /\ exchanged (env x) (cfg (cl x)) (fst (next_correlation_id (cs (cl x)))) (p_acks p) (p_ack_timeout p)
                 (reorder o reqs) ops outs resps
    /\ v = flat_map confirms_of resps.
Proof.
  intros p recs reqs x v p' x' Ha Hreqs H.
  rewrite (C05_producer_call_unfold p recs x reqs Hreqs) in H.
  destruct (call_exchange_state reqs x) as (o & y & Ho & Ht & Hs & He & Hg).
  rewrite (mbind_run _ _ _ _ _ Ho) in H.
  bind_inv H cf x2 H1 H2; try discriminate. inversion H2; subst. clear H2.
  destruct (C05_confirms_are_responses _ _ _ _ _ _ _ _ Ha H1) as (ops & outs & resps & S & EX & Hv).
  exists o, ops, outs, resps. split; [exact (seg_same_io _ _ _ _ _ Ht Hs S)|].
  rewrite He, Hg in EX. split; [exact EX|exact Hv].
Qed.

Theorem C05_producer_failure : forall p recs reqs x r x',
  p_acks p <> 0 ->
  produce_reqs (cs (cl x)) (fst (partitioned (p_parts p) (p_cntr p) recs)) [] = Some reqs ->
  producer_send_all p recs x = (r, x') -> (forall v, r <> Ok v) ->
  exists o done h tps rest ops1 outs1 resps x1 r1,
    reorder o reqs = done ++ (h, tps) :: rest
    /\ seg x x1 outs1 ops1
    /\ exchanged (env x) (cfg (cl x)) (fst (next_correlation_id (cs (cl x)))) (p_acks p) (p_ack_timeout p)
                 done ops1 outs1 resps
    /\ send_receive dec_produce_resp h
         (enc_produce_req (env x) (fst (next_correlation_id (cs (cl x)))) (Net.client_id (cfg (cl x))) (p_acks p)
                          (p_ack_timeout p) (compression (cfg (cl x))) tps) x1 = (r1, x')
    /\ same_failure r r1
    /\ ext x1 x' /\ Forall (on_host h) (performed x1 x')
    /\ performed x x' = ops1 ++ performed x1 x'.
Proof.
  intros p recs reqs x r x' Ha Hreqs H Hn.
  rewrite (C05_producer_call_unfold p recs x reqs Hreqs) in H.
  destruct (call_exchange_state reqs x) as (o & y & Ho & Ht & Hs & He & Hg).
  rewrite (mbind_run _ _ _ _ _ Ho) in H.
  assert (Hex : exists r0 : res (list confirm),
             produce_exchange (fst (next_correlation_id (cs (cl x)))) (p_acks p) (p_ack_timeout p) (reorder o reqs) [] y
             = (r0, x') /\ (forall v, r0 <> Ok v) /\ forall B (r1 : res B), same_failure r0 r1 -> same_failure r r1).
  { bind_inv H a x2 H1 H2.
    - inversion H2; subst. exfalso. eapply Hn. reflexivity.
    - exists (Err a). subst r. split; [exact H1|]. split; [discriminate|]. intros B r1 Hs1. exact Hs1.
    - exists (Panic a). subst r. split; [exact H1|]. split; [discriminate|]. intros B r1 Hs1. exact Hs1. }
  destruct Hex as (r0 & H0 & Hn0 & Hsame).
  destruct (C05_failed_exchange_shape _ _ _ _ _ _ _ _ Ha H0 Hn0)
    as (done & h & tps & rest & ops1 & outs1 & resps & x1 & r1 & E & S & EX & Hsr & Hsf & Hext & Hall & Hp).
  exists o, done, h, tps, rest, ops1, outs1, resps, x1, r1.
  rewrite He, Hg in EX, Hsr. rewrite (performed_same_io _ _ _ Ht) in Hp. apply Hsame in Hsf.
  split; [exact E|]. split; [exact (seg_same_io _ _ _ _ _ Ht Hs S)|].
  repeat (split; [assumption|]). exact Hp.
Qed.

(* ================================================================================================== *)
(* Part E2: a checkable form - after a write to h the next event is again a write to h or a read on h  *)
(* ================================================================================================== *)

(* `in_turn ops` (ops in execution order): an event that directly follows a write to h is a write to h or a
   read on h - never a connect, never an event of another host.  Since a request is only complete after its
   last write, this says: once a request has been handed to a broker, the client does nothing else before it
   at least starts reading that broker's response. *)
Definition after (e : ev_op) : option bytes := match e with EWrite h _ => Some h | _ => None end.
Definition follows (prev : option bytes) (e : ev_op) : bool :=
  match prev with
  | None => true
  | Some h => match e with EWrite h' _ | ERead h' _ => bytes_eqb h' h | _ => false end
  end.
Fixpoint in_turn_from (prev : option bytes) (ops : list ev_op) : bool :=
  match ops with [] => true | e :: r => follows prev e && in_turn_from (after e) r end.
Definition in_turn (ops : list ev_op) : bool := in_turn_from None ops.
Definition pend (prev : option bytes) (ops : list ev_op) : option bytes := fold_left (fun _ e => after e) ops prev.

Lemma in_turn_app a : forall p b, in_turn_from p (a ++ b) = in_turn_from p a && in_turn_from (pend p a) b.
Proof.
  induction a as [|e a IH]; intros p b; [reflexivity|].
  cbn [app in_turn_from]. rewrite IH, andb_assoc. reflexivity.
Qed.
Lemma pend_app p a b : pend p (a ++ b) = pend (pend p a) b.
Proof. unfold pend. apply fold_left_app. Qed.

Definition write_event (h : bytes) (e : ev_op) : Prop := exists b, e = EWrite h b.

Lemma conn_block h l : Forall (conn_event h) l -> in_turn_from None l = true /\ pend None l = None.
Proof.
  induction 1 as [|e l [-> | ->] _ IH]; [split; reflexivity| |]; exact IH.
Qed.
Lemma write_block h l : Forall (write_event h) l -> forall p, p = None \/ p = Some h ->
  in_turn_from p l = true /\ (pend p l = None \/ pend p l = Some h).
Proof.
  induction 1 as [|e l (b & ->) _ IH]; intros p Hp; [split; [reflexivity|exact Hp]|].
  cbn [in_turn_from pend fold_left after]. destruct (IH (Some h) (or_intror eq_refl)) as [I1 I2].
  split; [|exact I2]. rewrite I1, andb_true_r.
  destruct Hp as [-> | ->]; [reflexivity|]. cbn [follows]. apply bytes_eqb_refl.
Qed.
Lemma read_block h l : Forall (read_event h) l -> forall p, p = None \/ p = Some h ->
  in_turn_from p l = true /\ (l <> [] -> pend p l = None) /\ (pend p l = None \/ pend p l = Some h).
Proof.
  induction 1 as [|e l (n & ->) _ IH]; intros p Hp; [split; [reflexivity|split; [intros H; contradiction H; reflexivity|exact Hp]]|].
  cbn [in_turn_from pend fold_left after]. destruct (IH None (or_introl eq_refl)) as (I1 & I2 & I3).
  assert (Hn : fold_left (fun _ e => after e) l None = None).
  { destruct l as [|e' l']; [reflexivity|]. apply I2. discriminate. }
  split; [|split; [intros _; exact Hn|left; exact Hn]]. rewrite I1, andb_true_r.
  destruct Hp as [-> | ->]; [reflexivity|]. cbn [follows]. apply bytes_eqb_refl.
Qed.

Lemma block_in_turn h cops wops rops :
  Forall (conn_event h) cops -> Forall (write_event h) wops -> Forall (read_event h) rops ->
  in_turn_from None (cops ++ wops ++ rops) = true /\ (rops <> [] -> pend None (cops ++ wops ++ rops) = None).
Proof.
  intros Hc Hw Hr. destruct (conn_block h cops Hc) as [C1 C2].
  destruct (write_block h wops Hw None (or_introl eq_refl)) as [W1 W2].
  destruct (read_block h rops Hr (pend None wops) W2) as (R1 & R2 & _).
  rewrite !in_turn_app, !pend_app, C1, C2, W1, R1. split; [reflexivity|exact R2].
Qed.

Lemma ops_send_request h payload : keeps (ops_in (write_event h)) (send_request h payload).
Proof.
  apply (keepsR_send_request _ (preorder_ops_in _) h). intros b. apply keeps_io_ops. exists b. reflexivity.
Qed.

(* the events of ONE send_receive, whatever its outcome: connects, then writes, then reads, all on h; when it
   succeeds at least one read *)
Lemma send_receive_blocks {A} (d : dec A) h payload s r s' :
  send_receive d h payload s = (r, s') ->
  ext s s' /\ exists cops wops rops,
    performed s s' = cops ++ wops ++ rops
    /\ Forall (conn_event h) cops /\ Forall (write_event h) wops /\ Forall (read_event h) rops
    /\ (forall a, r = Ok a -> rops <> []).
Proof.
  intros H. unfold send_receive in H. bind_inv H u s1 H1 H2.
  - destruct (ops_get_conn h _ _ _ H1) as [E1 F1]. bind_inv H2 z s2 H3 H4.
    + destruct (ops_send_request h _ _ _ _ H3) as [E2 F2].
      destruct (ops_get_response _ d h _ _ _ H4) as [E3 F3].
      split; [eapply ext_trans; [exact E1|eapply ext_trans; eassumption]|].
      exists (performed s s1), (performed s1 s2), (performed s2 s').
      split; [rewrite (performed_app s s1 s' E1 (ext_trans _ _ _ E2 E3)), (performed_app _ _ _ E2 E3); reflexivity|].
      repeat (split; [assumption|]). intros a ->.
      destruct (get_response_inv _ _ _ _ _ H4) as [[b [Hb _]]|[e [_ Hr]]]; [|discriminate].
      destruct (get_response_bytes_ok _ _ _ _ Hb) as (rops & routs & b0 & Sr & (Lr & _ & _ & Hp) & L4 & _).
      rewrite (seg_performed _ _ _ _ Sr). intros ->. destruct routs; [|discriminate]. cbn in Hp.
      destruct b0; [|discriminate]. unfold ulen in L4. cbn in L4. lia.
    + destruct (ops_send_request h _ _ _ _ H3) as [E2 F2].
      split; [eapply ext_trans; eassumption|].
      exists (performed s s1), (performed s1 s'), [].
      split; [rewrite app_nil_r; apply performed_app; assumption|].
      repeat (split; [first [assumption|constructor]|]). intros a0 ->. discriminate.
    + destruct (ops_send_request h _ _ _ _ H3) as [E2 F2].
      split; [eapply ext_trans; eassumption|].
      exists (performed s s1), (performed s1 s'), [].
      split; [rewrite app_nil_r; apply performed_app; assumption|].
      repeat (split; [first [assumption|constructor]|]). intros a0 ->. discriminate.
  - destruct (ops_get_conn h _ _ _ H1) as [E1 F1]. split; [exact E1|].
    exists (performed s s'), [], []. rewrite !app_nil_r.
    repeat (split; [first [assumption|constructor|reflexivity]|]). intros a0 ->. discriminate.
  - destruct (ops_get_conn h _ _ _ H1) as [E1 F1]. split; [exact E1|].
    exists (performed s s'), [], []. rewrite !app_nil_r.
    repeat (split; [first [assumption|constructor|reflexivity]|]). intros a0 ->. discriminate.
Qed.

Lemma exchange_in_turn corr acks timeout : (acks =? 0) = false -> forall reqs acc x r x',
  produce_exchange corr acks timeout reqs acc x = (r, x') ->
  ext x x' /\ in_turn (performed x x') = true.
Proof.
  intros Ha. induction reqs as [|[h tps] r0 IH]; intros acc x r x' H.
  - cbn [produce_exchange] in H. rewrite Ha in H. inversion H; subst.
    split; [apply ext_refl|]. rewrite performed_refl. reflexivity.
  - rewrite (exchange_step _ _ _ _ _ _ _ _ Ha) in H.
    bind_inv H a x1 H1 H2.
    + destruct a as [c rtps].
      destruct (send_receive_blocks _ _ _ _ _ _ H1) as (E1 & cops & wops & rops & Hp & Fc & Fw & Fr & Hne).
      destruct (IH _ _ _ _ H2) as [E2 I2].
      split; [eapply ext_trans; eassumption|].
      rewrite (performed_app _ _ _ E1 E2), Hp. unfold in_turn.
      destruct (block_in_turn h cops wops rops Fc Fw Fr) as [B1 B2].
      rewrite in_turn_app, B1, (B2 (Hne _ eq_refl)). exact I2.
    + destruct (send_receive_blocks _ _ _ _ _ _ H1) as (E1 & cops & wops & rops & Hp & Fc & Fw & Fr & _).
      split; [exact E1|]. rewrite Hp. apply (block_in_turn h cops wops rops Fc Fw Fr).
    + destruct (send_receive_blocks _ _ _ _ _ _ H1) as (E1 & cops & wops & rops & Hp & Fc & Fw & Fr & _).
      split; [exact E1|]. rewrite Hp. apply (block_in_turn h cops wops rops Fc Fw Fr).
Qed.

(* whatever the outcome of the loop (success, refused connection, broken write, unreadable response, script
   exhausted, ...): a request handed to a broker is followed by the reading of THAT broker's response *)
Theorem C05_response_awaited_before_next_host : forall corr acks timeout reqs acc x r x',
  acks <> 0 ->
  produce_exchange corr acks timeout reqs acc x = (r, x') ->
  in_turn (performed x x') = true.
Proof.
  intros corr acks timeout reqs acc x r x' Ha H. apply Z.eqb_neq in Ha.
  exact (proj2 (exchange_in_turn corr acks timeout Ha reqs acc x r x' H)).
Qed.

Lemma performed_bump x : performed x (bump_corr x) = [].
Proof. rewrite <- (performed_same_io (bump_corr x) x (bump_corr x) eq_refl). apply performed_refl. Qed.

(* KafkaClient::produce_messages, no side condition at all *)
Theorem C05_call_in_turn : forall acks d msgs x r x',
  acks <> 0 -> produce_messages acks d msgs x = (r, x') -> in_turn (performed x x') = true.
Proof.
  intros acks d msgs x r x' Ha H. unfold produce_messages in H.
  destruct (to_millis_i32 d) as [t|e|w]; [|inversion H; subst; rewrite performed_refl; reflexivity
                                          |inversion H; subst; rewrite performed_refl; reflexivity].
  change (internal_produce_messages acks t msgs x = (r, x')) in H.
  pose proof (C05_call_unfold acks t msgs x) as Hc.
  destruct (produce_reqs (cs (cl x)) msgs []) as [reqs|].
  - rewrite Hc in H. destruct (call_exchange_state reqs x) as (o & y & Ho & Ht & _).
    rewrite (mbind_run _ _ _ _ _ Ho) in H.
    rewrite <- (performed_same_io y x x' Ht). exact (C05_response_awaited_before_next_host _ _ _ _ _ _ _ _ Ha H).
  - rewrite Hc in H. inversion H; subst. rewrite performed_bump. reflexivity.
Qed.

(* Producer::send_all *)
Theorem C05_producer_in_turn : forall p recs x r x',
  p_acks p <> 0 -> producer_send_all p recs x = (r, x') -> in_turn (performed x x') = true.
Proof.
  intros p recs x r x' Ha H.
  destruct (produce_reqs (cs (cl x)) (fst (partitioned (p_parts p) (p_cntr p) recs)) []) as [reqs|] eqn:Hreqs.
  - rewrite (C05_producer_call_unfold p recs x reqs Hreqs) in H.
    destruct (call_exchange_state reqs x) as (o & y & Ho & Ht & _).
    rewrite (mbind_run _ _ _ _ _ Ho) in H.
    destruct (produce_exchange (fst (next_correlation_id (cs (cl x)))) (p_acks p) (p_ack_timeout p) (reorder o reqs) [] y)
      as [r0 x2] eqn:E0.
    assert (Hx : x' = x2).
    { unfold mbind in H. rewrite E0 in H. destruct r0; inversion H; reflexivity. }
    subst x2. rewrite <- (performed_same_io y x x' Ht).
    exact (C05_response_awaited_before_next_host _ _ _ _ _ _ _ _ Ha E0).
  - rewrite (C05_producer_local_fail p recs x Hreqs) in H. inversion H; subst. rewrite performed_bump. reflexivity.
Qed.

(* ================================================================================================== *)
(* Examples (state and batch of C20Facts / C05Facts: two brokers, the batch goes to both; the order    *)
(* hint sends the request for h1 first)                                                                 *)
(* ================================================================================================== *)
Definition ev_kind (e : ev_op) : bytes * Z :=
  (ev_host e, match e with EConnect _ => 0 | EWrite _ _ => 1 | ERead _ _ => 2 | EShutdown _ => 3 end).

(* success (the run of C05_confirms_ex, through produce_messages with ack timeout 1 s): hypotheses of
   C05_call_confirms, and the two blocks connect / write / read / read *)
Example C05_call_confirms_ex :
  1 <> 0 /\ to_millis_i32 (1, 0) = Ok 1000
  /\ produce_reqs (cs (cl c05_st1)) c20_batch [] = Some c05_reqs
  /\ fst (produce_messages 1 (1, 0) c20_batch c05_st1) = Ok [ (tag "t2", [(0, inl 40)]); (tag "t1", [(3, inl 77)]) ]
  /\ map ev_kind (performed c05_st1 (snd (produce_messages 1 (1, 0) c20_batch c05_st1)))
     = [ (tag "h1:9092", 0); (tag "h1:9092", 1); (tag "h1:9092", 2); (tag "h1:9092", 2);
         (tag "h0:9092", 0); (tag "h0:9092", 1); (tag "h0:9092", 2); (tag "h0:9092", 2) ]
  /\ in_turn (performed c05_st1 (snd (produce_messages 1 (1, 0) c20_batch c05_st1))) = true.
Proof. vm_compute. repeat split; try reflexivity. discriminate. Qed.

(* the scenario of seeded change C05-4: acks = 1, two brokers, the SECOND connection attempt of the call is
   refused.  The call fails with the connection error; before the refused connect the response of h1 has been
   read completely (done = the request of h1; the failing host h0 only saw the connect); the script is used up,
   nothing is left unread. *)
Definition c05b_refused : st :=
  {| script := [ OConn true; OWrote 1000; OData (enc_i32 (ulen (c05_resp 8 (tag "t2") 0 40)));
                 OData (c05_resp 8 (tag "t2") 0 40); OConn false ];
     trace := []; anyq := []; hostq := [[tag "h1:9092"]];
     fetchq := []; entryq := []; cl := c20_client 1; env := c20_env |}.
Definition c05b_after_c1 : st := snd (produce_messages 1 (1, 0) c20_batch c05b_refused).

Example C05_call_failure_ex :
  1 <> 0 /\ to_millis_i32 (1, 0) = Ok 1000
  /\ produce_reqs (cs (cl c05b_refused)) c20_batch [] = Some c05_reqs
  /\ fst (produce_messages 1 (1, 0) c20_batch c05b_refused) = Err (EIo IoConnRefused)
  /\ map ev_kind (performed c05b_refused c05b_after_c1)
     = [ (tag "h1:9092", 0); (tag "h1:9092", 1); (tag "h1:9092", 2); (tag "h1:9092", 2); (tag "h0:9092", 0) ]
  /\ in_turn (performed c05b_refused c05b_after_c1) = true
  /\ script c05b_after_c1 = [] /\ conns (cl c05b_after_c1) = [tag "h1:9092"].
Proof. vm_compute. repeat split; try reflexivity. discriminate. Qed.

(* the pipelined order of the seed, as a list of events, is rejected by in_turn: connect h1, write h1, connect h0 *)
Example C05_in_turn_rejects_pipelining :
  in_turn [EConnect (tag "h1:9092"); EWrite (tag "h1:9092") (tag "req"); EConnect (tag "h0:9092")] = false
  /\ in_turn [EWrite (tag "h1:9092") (tag "req"); EWrite (tag "h0:9092") (tag "req");
              ERead (tag "h1:9092") 4; ERead (tag "h0:9092") 4] = false
  /\ in_turn [EWrite (tag "h1:9092") (tag "req"); EWrite (tag "h1:9092") (tag "eq"); ERead (tag "h1:9092") 4;
              EConnect (tag "h0:9092"); EWrite (tag "h0:9092") (tag "req")] = true.
Proof. vm_compute. repeat split; reflexivity. Qed.

(* a history of calls: C2 on the SAME client after the failed C1 (h1 is pooled now, h0 is not; no order hint
   is left, so h0 goes first).  Its confirmations are the results of the responses to C2 (offsets 78 and 41),
   not anything of C1 (offset 40). *)
Definition c05b_c2 : st :=
  st_with c05b_after_c1
          [ OConn true; OWrote 1000; OData (enc_i32 (ulen (c05_resp 9 (tag "t1") 3 78))); OData (c05_resp 9 (tag "t1") 3 78);
            OWrote 1000; OData (enc_i32 (ulen (c05_resp 9 (tag "t2") 0 41))); OData (c05_resp 9 (tag "t2") 0 41) ]
          (trace c05b_after_c1).

Example C05_call_after_failed_call_ex :
  fst (produce_messages 1 (1, 0) c20_batch c05b_c2) = Ok [ (tag "t1", [(3, inl 78)]); (tag "t2", [(0, inl 41)]) ]
  /\ map ev_kind (performed c05b_c2 (snd (produce_messages 1 (1, 0) c20_batch c05b_c2)))
     = [ (tag "h0:9092", 0); (tag "h0:9092", 1); (tag "h0:9092", 2); (tag "h0:9092", 2);
         (tag "h1:9092", 1); (tag "h1:9092", 2); (tag "h1:9092", 2) ]
  /\ script (snd (produce_messages 1 (1, 0) c20_batch c05b_c2)) = [].
Proof. vm_compute. repeat split; reflexivity. Qed.

(* the producer: required acks -1, the response of the first broker cannot be read (end of stream after the
   size header): the call fails, the second broker is never contacted *)
Definition c05b_producer : producer :=
  {| p_client := c20_client 1; p_parts := producer_state c20_state; p_cntr := 0; p_ack_timeout := 1500; p_acks := -1 |}.
Definition c05b_eof : st :=
  {| script := [ OConn true; OWrote 1000; OData (enc_i32 30); OData [] ];
     trace := []; anyq := []; hostq := [[tag "h1:9092"]];
     fetchq := []; entryq := []; cl := c20_client 1; env := c20_env |}.

Example C05_producer_failure_ex :
  p_acks c05b_producer <> 0
  /\ (exists reqs, produce_reqs (cs (cl c05b_eof))
                     (fst (partitioned (p_parts c05b_producer) (p_cntr c05b_producer) c05_recs)) [] = Some reqs
                   /\ map fst reqs = [tag "h0:9092"; tag "h1:9092"])
  /\ fst (producer_send_all c05b_producer c05_recs c05b_eof) = Err (EIo IoUnexpectedEof)
  /\ map ev_kind (performed c05b_eof (snd (producer_send_all c05b_producer c05_recs c05b_eof)))
     = [ (tag "h1:9092", 0); (tag "h1:9092", 1); (tag "h1:9092", 2); (tag "h1:9092", 2) ]
  /\ in_turn (performed c05b_eof (snd (producer_send_all c05b_producer c05_recs c05b_eof))) = true.
Proof.
  split; [discriminate|]. split; [eexists; split; [vm_compute; reflexivity|reflexivity]|].
  vm_compute. repeat split; reflexivity.
Qed.

(* C05_exchange_app on the request map of the examples *)
Example C05_exchange_app_ex :
  exists r1 r2, c05_reqs = r1 ++ r2 /\ r1 <> [] /\ r2 <> []
    /\ fst (produce_exchange 8 1 1000 (r1 ++ r2) [] (st_with c05_st1 (script c05_st1) []))
       = Ok [ (tag "t2", [(0, inl 40)]); (tag "t1", [(3, inl 77)]) ].
Proof.
  exists [hd (tag "", []) c05_reqs], (tl c05_reqs). split; [reflexivity|]. split; [discriminate|]. split; [discriminate|].
  vm_compute. reflexivity.
Qed.

Check C05_confirms_are_responses.
Check C05_failed_exchange_shape.
Check C05_exchange_app.
Check C05_call_confirms.
Check C05_call_failure.
Check C05_producer_confirms.
Check C05_producer_failure.
Check C05_response_awaited_before_next_host.
Check C05_call_in_turn.
Check C05_producer_in_turn.

Print Assumptions C05_confirms_are_responses.
Print Assumptions C05_failed_exchange_shape.
Print Assumptions C05_exchange_app.
Print Assumptions C05_call_confirms.
Print Assumptions C05_call_failure.
Print Assumptions C05_producer_confirms.
Print Assumptions C05_producer_failure.
Print Assumptions C05_response_awaited_before_next_host.
Print Assumptions C05_call_in_turn.
Print Assumptions C05_producer_in_turn.
