(* C03: produced message sets are valid Kafka v0 wire data for every payload and codec.

   The model's produce-side encoders (Model/Requests.v: enc_message, enc_messages,
   enc_partition_produce; Rust: protocol/produce.rs MessageProduceRequest::_encode_to_buf,
   PartitionProduceRequest::_encode) are checked against the independent strict parser of
   Spec/MsgSetSpec.v (spec_parse): every size field exact, magic 0, CRC-32 of magic..value
   correct, keys / values byte-identical and in order, null stays null, nothing left over. *)
From KV Require Import Base.Prelude Base.Crc32 Gen.Consts Model.Codecs Model.Requests.
From KV Require Import Spec.MsgSetSpec Proofs.BytesFacts.
From Coq Require Import ZifyBool.
Ltac Zify.zify_post_hook ::= Z.div_mod_to_equations.

(* ---- the size hypotheses ------------------------------------------------------------ *)

(* byte length of an optional key / value; null counts as 0 *)
Definition olen (o : option bytes) : Z := match o with Some b => blen b | None => 0 end.

(* A record (optional key, optional value) fits when key and value are shorter than 2^31 bytes and so
   is the rendered message: offset 8 + size 4 + crc 4 + magic 1 + attr 1 + key length 4 + value length 4
   = 26 bytes of framing.  The encoder's only failure is ECodec for a key / value longer than 2^31-1
   bytes (C03_reject); the unchecked `as i32` cast of the message size at produce.rs:228 would wrap
   silently for 2^31-14 <= |key|+|value|, which the third conjunct excludes. *)
Definition fits (m : pmsg) : Prop :=
  olen (fst m) < 2 ^ 31 /\ olen (snd m) < 2 ^ 31 /\ 26 + olen (fst m) + olen (snd m) < 2 ^ 31.

Definition too_long (m : pmsg) : Prop := i32_max < olen (fst m) \/ i32_max < olen (snd m).

(* ---- lengths --------------------------------------------------------------------------- *)

Lemma blen_nonneg b : 0 <= blen b.
Proof. unfold blen. lia. Qed.

Lemma olen_nonneg o : 0 <= olen o.
Proof. destruct o as [b|]; unfold olen; [apply blen_nonneg|lia]. Qed.

Lemma blen_app a b : blen (a ++ b) = blen a + blen b.
Proof. unfold blen. rewrite app_length. lia. Qed.

Lemma blen_be_enc n z : blen (be_enc n z) = Z.of_nat n.
Proof. unfold blen. rewrite be_enc_length. reflexivity. Qed.

Lemma blen_ser_opt o : blen (ser_opt o) = 4 + olen o.
Proof.
  destruct o as [b|]; unfold ser_opt, olen, enc_i32; [rewrite blen_app|]; rewrite blen_be_enc; lia.
Qed.

Lemma blen_ser_body attr k v : blen (ser_body attr k v) = 10 + olen k + olen v.
Proof. unfold ser_body, enc_i8. rewrite !blen_app, !blen_be_enc, !blen_ser_opt. lia. Qed.

Lemma blen_ser_message off attr k v : blen (ser_message off attr k v) = 26 + olen k + olen v.
Proof.
  unfold ser_message. cbv zeta. unfold enc_i64, enc_i32.
  rewrite !blen_app, !blen_be_enc, blen_ser_body. lia.
Qed.

(* ---- the spec's readers on serialised data ------------------------------------------------ *)

Lemma rd_app n a b : length a = n -> rd n (a ++ b) = Some (a, b).
Proof.
  intros H. unfold rd. rewrite app_length, H.
  destruct (Nat.ltb (n + length b) n) eqn:E; [apply Nat.ltb_lt in E; lia|].
  rewrite firstn_app_exact, skipn_app_exact by exact H. reflexivity.
Qed.

Lemma rd_i8_app z r : in_i8 z -> rd_int 1 (enc_i8 z ++ r) = Some (z, r).
Proof.
  intros H. unfold rd_int. rewrite rd_app by apply be_enc_length. cbv beta iota.
  rewrite dec_enc_i8 by exact H. reflexivity.
Qed.
Lemma rd_i32_app z r : in_i32 z -> rd_int 4 (enc_i32 z ++ r) = Some (z, r).
Proof.
  intros H. unfold rd_int. rewrite rd_app by apply be_enc_length. cbv beta iota.
  rewrite dec_enc_i32 by exact H. reflexivity.
Qed.
Lemma rd_i64_app z r : in_i64 z -> rd_int 8 (enc_i64 z ++ r) = Some (z, r).
Proof.
  intros H. unfold rd_int. rewrite rd_app by apply be_enc_length. cbv beta iota.
  rewrite dec_enc_i64 by exact H. reflexivity.
Qed.

Lemma rd_opt_bytes_ser o r : olen o < 2 ^ 31 -> rd_opt_bytes (ser_opt o ++ r) = Some (o, r).
Proof.
  intros H. unfold rd_opt_bytes. destruct o as [b|]; unfold ser_opt, olen in *.
  - pose proof (blen_nonneg b) as Hb. pose proof (blen_nonneg r) as Hr.
    rewrite <- app_assoc. rewrite rd_i32_app by (unfold in_i32; lia). cbv beta iota.
    destruct (blen b =? -1) eqn:E1; [lia|].
    destruct (blen b <? 0) eqn:E2; [lia|].
    destruct (blen (b ++ r) <? blen b) eqn:E3; [rewrite blen_app in E3; lia|].
    unfold blen. rewrite Nat2Z.id.
    rewrite firstn_app_exact, skipn_app_exact by reflexivity. reflexivity.
  - rewrite rd_i32_app by (unfold in_i32; lia). cbv beta iota.
    rewrite Z.eqb_refl. reflexivity.
Qed.

Lemma crc_field_roundtrip b : be_dec_u (enc_i32 (crc32 b)) = crc32 b.
Proof.
  unfold enc_i32. rewrite be_dec_u_enc. change (8 * Z.of_nat 4) with 32.
  apply Z.mod_small. apply crc32_range.
Qed.

(* (2) one serialised message, followed by anything, is read back exactly *)
Lemma spec_parse_one_ser off attr k v rest :
  in_i64 off -> in_i8 attr -> fits (k, v) ->
  spec_parse_one (ser_message off attr k v ++ rest) =
  Some ({| rm_offset := off; rm_attr := attr; rm_key := k; rm_value := v |}, rest).
Proof.
  intros Hoff Hattr [Hk [Hv Hkv]]. cbn [fst snd] in Hk, Hv, Hkv.
  pose proof (blen_ser_body attr k v) as Hbody.
  pose proof (olen_nonneg k) as Hk0. pose proof (olen_nonneg v) as Hv0.
  pose proof (blen_nonneg rest) as Hr0.
  unfold spec_parse_one, ser_message. cbv zeta.
  set (body := ser_body attr k v) in *.
  rewrite <- !app_assoc.
  rewrite rd_i64_app by exact Hoff. cbv beta iota.
  rewrite rd_i32_app by (unfold in_i32; lia). cbv beta iota.
  destruct ((4 + blen body <? 14) || (blen (enc_i32 (crc32 body) ++ body ++ rest) <? 4 + blen body)) eqn:E.
  { rewrite !blen_app in E. unfold enc_i32 in E. rewrite blen_be_enc in E. lia. }
  rewrite (app_assoc (enc_i32 (crc32 body)) body rest).
  rewrite firstn_app_exact, skipn_app_exact
    by (rewrite app_length; unfold enc_i32, blen; rewrite be_enc_length; lia).
  rewrite rd_app by apply be_enc_length. cbv beta iota.
  rewrite crc_field_roundtrip, Z.eqb_refl. cbn [negb].
  subst body. unfold ser_body.
  rewrite rd_i8_app by (unfold in_i8; lia). cbv beta iota.
  rewrite Z.eqb_refl. cbn [negb].
  rewrite rd_i8_app by exact Hattr. cbv beta iota.
  rewrite rd_opt_bytes_ser by exact Hk. cbv beta iota.
  rewrite <- (app_nil_r (ser_opt v)).
  rewrite rd_opt_bytes_ser by exact Hv. reflexivity.
Qed.

(* ---- (3) a whole serialised set -------------------------------------------------------------- *)

Definition ser_raw (m : raw_msg) : bytes :=
  ser_message (rm_offset m) (rm_attr m) (rm_key m) (rm_value m).

Definition raw_ok (m : raw_msg) : Prop :=
  in_i64 (rm_offset m) /\ in_i8 (rm_attr m) /\ fits (rm_key m, rm_value m).

Lemma spec_parse_go_S f bs :
  bs <> [] ->
  spec_parse_go (S f) bs =
  match spec_parse_one bs with
  | None => None
  | Some (m, rest) => match spec_parse_go f rest with Some ms => Some (m :: ms) | None => None end
  end.
Proof. destruct bs; [congruence|reflexivity]. Qed.

Lemma length_ser_raw_ge m : (26 <= length (ser_raw m))%nat.
Proof.
  pose proof (blen_ser_message (rm_offset m) (rm_attr m) (rm_key m) (rm_value m)) as H.
  pose proof (olen_nonneg (rm_key m)). pose proof (olen_nonneg (rm_value m)).
  unfold ser_raw. unfold blen in H. lia.
Qed.

Lemma spec_parse_go_ser ms :
  Forall raw_ok ms ->
  forall fuel, (length (flat_map ser_raw ms) <= fuel)%nat ->
  spec_parse_go fuel (flat_map ser_raw ms) = Some ms.
Proof.
  induction 1 as [|m ms Hm Hms IH]; intros fuel Hfuel.
  - destruct fuel; reflexivity.
  - cbn [flat_map] in *. destruct Hm as [Ho [Ha Hf]].
    pose proof (length_ser_raw_ge m) as Hlen.
    rewrite app_length in Hfuel. destruct fuel as [|f]; [lia|].
    rewrite spec_parse_go_S.
    2:{ intros E. apply (f_equal (@length byte)) in E. rewrite app_length in E. cbn [length] in E. lia. }
    change (ser_raw m) with (ser_message (rm_offset m) (rm_attr m) (rm_key m) (rm_value m)).
    rewrite spec_parse_one_ser by assumption. cbv beta iota.
    rewrite IH by lia. destruct m; reflexivity.
Qed.

(* any well-ranged list of raw messages round-trips through the serialiser and the strict parser *)
Theorem spec_parse_ser ms : Forall raw_ok ms -> spec_parse (flat_map ser_raw ms) = Some ms.
Proof. intros H. unfold spec_parse. apply spec_parse_go_ser; [exact H|apply le_n]. Qed.

Lemma spec_parse_single off attr k v :
  in_i64 off -> in_i8 attr -> fits (k, v) ->
  spec_parse (ser_message off attr k v) =
  Some [{| rm_offset := off; rm_attr := attr; rm_key := k; rm_value := v |}].
Proof.
  intros Ho Ha Hf.
  pose proof (spec_parse_ser [{| rm_offset := off; rm_attr := attr; rm_key := k; rm_value := v |}]) as H.
  cbn [flat_map ser_raw rm_offset rm_attr rm_key rm_value] in H. rewrite app_nil_r in H.
  apply H. constructor; [|constructor]. unfold raw_ok. cbn [rm_offset rm_attr rm_key rm_value]. auto.
Qed.

(* ---- (1) the model's encoder against the spec's serialiser --------------------------------- *)

Lemma enc_opt_bytes_cases o :
  (olen o <= i32_max /\ enc_opt_bytes o = Ok (ser_opt o)) \/ (i32_max < olen o /\ enc_opt_bytes o = Err ECodec).
Proof.
  destruct o as [b|]; unfold enc_opt_bytes, enc_bytes, ser_opt, olen.
  - change (ulen b) with (blen b).
    destruct (blen b <=? i32_max) eqn:E; [left|right]; (split; [lia|reflexivity]).
  - left. split; [unfold i32_max; lia|reflexivity].
Qed.

Lemma enc_message_ser attr k v :
  olen k < 2 ^ 31 -> olen v < 2 ^ 31 -> enc_message 0 attr (k, v) = Ok (ser_message 0 attr k v).
Proof.
  intros Hk Hv. unfold enc_message. cbn [fst snd].
  destruct (enc_opt_bytes_cases k) as [[_ Ek]|[Hbad _]]; [|unfold i32_max in Hbad; lia].
  destruct (enc_opt_bytes_cases v) as [[_ Ev]|[Hbad _]]; [|unfold i32_max in Hbad; lia].
  rewrite Ek, Ev. cbn [bind]. reflexivity.
Qed.

Lemma enc_message_cases mg attr m :
  (exists b, enc_message mg attr m = Ok b) \/ (enc_message mg attr m = Err ECodec /\ too_long m).
Proof.
  unfold enc_message, too_long.
  destruct (enc_opt_bytes_cases (fst m)) as [[_ Ek]|[Hbad Ek]]; rewrite Ek; cbn [bind].
  - destruct (enc_opt_bytes_cases (snd m)) as [[_ Ev]|[Hbad Ev]]; rewrite Ev; cbn [bind].
    + left. eexists. reflexivity.
    + right. split; [reflexivity|right; exact Hbad].
  - right. split; [reflexivity|left; exact Hbad].
Qed.

Lemma enc_messages_cases recs :
  (exists b, enc_messages recs = Ok b) \/ (enc_messages recs = Err ECodec /\ Exists too_long recs).
Proof.
  unfold enc_messages. induction recs as [|m r IH]; cbn [enc_all].
  - left. eexists. reflexivity.
  - destruct (enc_message_cases MESSAGE_MAGIC_BYTE 0 m) as [[b Eb]|[Eb Hb]]; rewrite Eb; cbn [bind].
    + destruct IH as [[b' Eb']|[Eb' Hb']]; rewrite Eb'; cbn [bind].
      * left. eexists. reflexivity.
      * right. split; [reflexivity|apply Exists_cons_tl; exact Hb'].
    + right. split; [reflexivity|apply Exists_cons_hd; exact Hb].
Qed.

Definition plain_raw (m : pmsg) : raw_msg :=
  {| rm_offset := 0; rm_attr := 0; rm_key := fst m; rm_value := snd m |}.

Lemma enc_messages_ser recs :
  Forall fits recs -> enc_messages recs = Ok (flat_map ser_raw (map plain_raw recs)).
Proof.
  unfold enc_messages. induction 1 as [|m r Hm Hr IH]; cbn [enc_all map flat_map]; [reflexivity|].
  destruct m as [k v]. destruct Hm as [Hk [Hv _]]. cbn [fst snd] in Hk, Hv.
  change (enc_message MESSAGE_MAGIC_BYTE 0 (k, v)) with (enc_message 0 0 (k, v)).
  rewrite enc_message_ser by assumption. cbn [bind].
  rewrite IH. cbn [bind]. reflexivity.
Qed.

Lemma plain_raw_ok recs : Forall fits recs -> Forall raw_ok (map plain_raw recs).
Proof.
  induction 1 as [|m r Hm Hr IH]; cbn [map]; constructor; [|exact IH].
  unfold raw_ok, plain_raw. cbn [rm_offset rm_attr rm_key rm_value].
  split; [unfold in_i64; lia|]. split; [unfold in_i8; lia|]. destruct m; exact Hm.
Qed.

(* ---- main theorems ---------------------------------------------------------------------------- *)

Theorem C03_plain : forall recs bs,
  Forall fits recs -> enc_messages recs = Ok bs ->
  spec_parse bs =
  Some (map (fun m => {| rm_offset := 0; rm_attr := 0; rm_key := fst m; rm_value := snd m |}) recs).
Proof.
  intros recs bs Hfit Henc. rewrite (enc_messages_ser recs Hfit) in Henc.
  injection Henc as <-. change (fun m : pmsg => _) with plain_raw.
  apply spec_parse_ser. apply plain_raw_ok. exact Hfit.
Qed.

Theorem C03_plain_ok : forall recs, Forall fits recs -> exists bs, enc_messages recs = Ok bs.
Proof. intros recs Hfit. eexists. apply enc_messages_ser. exact Hfit. Qed.

(* the length of a produced plain set is exactly the sum of 26 + |key| + |value| *)
Lemma C03_plain_length : forall recs bs,
  Forall fits recs -> enc_messages recs = Ok bs ->
  blen bs = fold_right (fun m acc => 26 + olen (fst m) + olen (snd m) + acc) 0 recs.
Proof.
  intros recs bs Hfit Henc. rewrite (enc_messages_ser recs Hfit) in Henc. injection Henc as <-.
  clear Hfit. induction recs as [|m r IH]; cbn [map flat_map fold_right]; [reflexivity|].
  rewrite blen_app, IH. unfold ser_raw, plain_raw. cbn [rm_offset rm_attr rm_key rm_value].
  rewrite blen_ser_message. lia.
Qed.

(* the tail of enc_partition_produce, for an arbitrary already-rendered set X (kept abstract so that no
   conversion ever looks inside a rendered message) *)
Lemma produce_tail X p out :
  (let* buf' := Ok X in let* b := enc_bytes buf' in Ok (enc_i32 p ++ b)) = Ok out ->
  out = enc_i32 p ++ enc_i32 (Z.of_nat (length X)) ++ X.
Proof.
  intros Henc. cbn [bind] in Henc. unfold enc_bytes in Henc.
  destruct (ulen X <=? i32_max) eqn:E; cbn [bind] in Henc; [|discriminate].
  injection Henc as <-. reflexivity.
Qed.

Lemma produce_tail_ok X p :
  blen X <= i32_max ->
  exists out, (let* buf' := Ok X in let* b := enc_bytes buf' in Ok (enc_i32 p ++ b)) = Ok out.
Proof.
  intros HX. cbn [bind]. unfold enc_bytes. change (ulen X) with (blen X).
  destruct (blen X <=? i32_max) eqn:E; [|lia]. cbn [bind]. eexists. reflexivity.
Qed.

Lemma wrapper_tail attr v p out :
  in_i8 attr -> blen v < 2 ^ 31 - 26 ->
  (let* buf' := enc_message MESSAGE_MAGIC_BYTE attr (None, Some v) in
   let* b := enc_bytes buf' in Ok (enc_i32 p ++ b)) = Ok out ->
  spec_parse (ser_message 0 attr None (Some v)) =
    Some [{| rm_offset := 0; rm_attr := attr; rm_key := None; rm_value := Some v |}]
  /\ out = enc_i32 p ++ enc_i32 (Z.of_nat (length (ser_message 0 attr None (Some v))))
                     ++ ser_message 0 attr None (Some v).
Proof.
  intros Hattr Hv Henc. pose proof (blen_nonneg v) as Hv0.
  assert (Hfit : fits (None, Some v)) by (unfold fits; cbn [fst snd olen]; lia).
  split; [apply spec_parse_single; [unfold in_i64; lia|exact Hattr|exact Hfit]|].
  change (enc_message MESSAGE_MAGIC_BYTE attr (None, Some v))
    with (enc_message 0 attr (None, Some v)) in Henc.
  rewrite enc_message_ser in Henc by (cbn [olen]; lia).
  apply produce_tail. exact Henc.
Qed.

Lemma wrapper_tail_ok attr v p :
  blen v < 2 ^ 31 - 26 ->
  exists out, (let* buf' := enc_message MESSAGE_MAGIC_BYTE attr (None, Some v) in
               let* b := enc_bytes buf' in Ok (enc_i32 p ++ b)) = Ok out.
Proof.
  intros Hv. pose proof (blen_nonneg v) as Hv0.
  change (enc_message MESSAGE_MAGIC_BYTE attr (None, Some v))
    with (enc_message 0 attr (None, Some v)).
  rewrite enc_message_ser by (cbn [olen]; lia).
  apply produce_tail_ok. rewrite blen_ser_message. cbn [olen]. unfold i32_max. lia.
Qed.

(* "compressed value shorter than 2^31 - 26" is the third hypothesis: the wrapper message (null key,
   value = compressor output) must itself fit.  It is stated for the plain set the encoder produced. *)
Theorem C03_wrapped : forall cz c recs p out,
  (c = COMPRESSION_GZIP \/ c = COMPRESSION_SNAPPY) ->
  Forall fits recs ->
  (forall plain, enc_messages recs = Ok plain ->
     blen (if c =? COMPRESSION_GZIP then gz_compress cz plain else sn_compress cz plain) < 2 ^ 31 - 26) ->
  enc_partition_produce cz c p recs = Ok out ->
  exists plain v setbytes,
    enc_messages recs = Ok plain
    /\ v = (if c =? COMPRESSION_GZIP then gz_compress cz plain else sn_compress cz plain)
    /\ spec_parse setbytes = Some [{| rm_offset := 0; rm_attr := c; rm_key := None; rm_value := Some v |}]
    /\ out = enc_i32 p ++ enc_i32 (Z.of_nat (length setbytes)) ++ setbytes.
Proof.
  intros cz c recs p out Hc Hfit Hsmall Henc.
  destruct (C03_plain_ok recs Hfit) as [plain Hplain].
  specialize (Hsmall plain Hplain).
  unfold enc_partition_produce in Henc. rewrite Hplain in Henc. cbn [bind] in Henc.
  destruct Hc as [Hc|Hc]; subst c.
  - change (COMPRESSION_GZIP =? COMPRESSION_NONE) with false in Henc.
    change (COMPRESSION_GZIP =? COMPRESSION_GZIP) with true in *. cbv iota in Henc, Hsmall.
    destruct (wrapper_tail COMPRESSION_GZIP (gz_compress cz plain) p out) as [Hp Ho];
      [unfold in_i8, COMPRESSION_GZIP; lia|exact Hsmall|exact Henc|].
    exists plain, (gz_compress cz plain), (ser_message 0 COMPRESSION_GZIP None (Some (gz_compress cz plain))).
    cbv iota. auto.
  - change (COMPRESSION_SNAPPY =? COMPRESSION_NONE) with false in Henc.
    change (COMPRESSION_SNAPPY =? COMPRESSION_GZIP) with false in *. cbv iota in Henc, Hsmall.
    destruct (wrapper_tail COMPRESSION_SNAPPY (sn_compress cz plain) p out) as [Hp Ho];
      [unfold in_i8, COMPRESSION_SNAPPY; lia|exact Hsmall|exact Henc|].
    exists plain, (sn_compress cz plain), (ser_message 0 COMPRESSION_SNAPPY None (Some (sn_compress cz plain))).
    cbv iota. auto.
Qed.

(* the wrapped request never fails once the sizes fit *)
Theorem C03_wrapped_ok : forall cz c recs p,
  (c = COMPRESSION_GZIP \/ c = COMPRESSION_SNAPPY) ->
  Forall fits recs ->
  (forall plain, enc_messages recs = Ok plain ->
     blen (if c =? COMPRESSION_GZIP then gz_compress cz plain else sn_compress cz plain) < 2 ^ 31 - 26) ->
  exists out, enc_partition_produce cz c p recs = Ok out.
Proof.
  intros cz c recs p Hc Hfit Hsmall.
  destruct (C03_plain_ok recs Hfit) as [plain Hplain].
  specialize (Hsmall plain Hplain).
  unfold enc_partition_produce. rewrite Hplain. cbn [bind].
  destruct Hc as [Hc|Hc]; subst c.
  - change (COMPRESSION_GZIP =? COMPRESSION_NONE) with false.
    change (COMPRESSION_GZIP =? COMPRESSION_GZIP) with true in *. cbv iota in Hsmall |- *.
    apply wrapper_tail_ok. exact Hsmall.
  - change (COMPRESSION_SNAPPY =? COMPRESSION_NONE) with false.
    change (COMPRESSION_SNAPPY =? COMPRESSION_GZIP) with false in *. cbv iota in Hsmall |- *.
    apply wrapper_tail_ok. exact Hsmall.
Qed.

Theorem C03_none_in_request : forall cz p recs out,
  Forall fits recs -> enc_partition_produce cz COMPRESSION_NONE p recs = Ok out ->
  exists setbytes,
    enc_messages recs = Ok setbytes /\ out = enc_i32 p ++ enc_i32 (Z.of_nat (length setbytes)) ++ setbytes.
Proof.
  intros cz p recs out Hfit Henc.
  destruct (C03_plain_ok recs Hfit) as [plain Hplain].
  unfold enc_partition_produce in Henc. rewrite Hplain in Henc. cbn [bind] in Henc.
  change (COMPRESSION_NONE =? COMPRESSION_NONE) with true in Henc. cbv iota in Henc. cbn [bind] in Henc.
  unfold enc_bytes in Henc.
  destruct (ulen plain <=? i32_max) eqn:E; cbn [bind] in Henc; [|discriminate].
  injection Henc as <-. exists plain. split; [exact Hplain|reflexivity].
Qed.

Theorem C03_reject : forall recs e,
  enc_messages recs = Err e ->
  e = ECodec /\ Exists (fun m => i32_max < olen (fst m) \/ i32_max < olen (snd m)) recs.
Proof.
  intros recs e H. destruct (enc_messages_cases recs) as [[b Hb]|[Hb Hex]]; rewrite Hb in H.
  - discriminate.
  - injection H as <-. split; [reflexivity|exact Hex].
Qed.

Theorem C03_no_panic : forall recs w, enc_messages recs <> Panic w.
Proof.
  intros recs w H. destruct (enc_messages_cases recs) as [[b Hb]|[Hb _]]; rewrite Hb in H; discriminate.
Qed.

(* ---- why the third conjunct of `fits` is needed ------------------------------------------------------ *)
(* produce.rs:228 writes the message size with an unchecked `as i32`.  When key and value are each below
   2^31 bytes (so no ECodec) but 14 + |key| + |value| >= 2^31, the encoder still answers Ok and the size
   field wraps; the strict parser refuses the result.  (Needs >= 2 GiB of payload in one record.) *)
Lemma rd_i32_app_wrap z r : rd_int 4 (enc_i32 z ++ r) = Some (wrap_s 32 z, r).
Proof.
  unfold rd_int. rewrite rd_app by apply be_enc_length. cbv beta iota.
  unfold enc_i32. rewrite be_dec_s_enc_wrap by lia. change (8 * Z.of_nat 4) with 32. reflexivity.
Qed.

Lemma wrap_s_32_wrapped z : 2 ^ 31 <= z < 2 ^ 32 + 14 -> wrap_s 32 z < 14.
Proof.
  intros H. unfold wrap_s. change (2 ^ (32 - 1)) with 2147483648. change (2 ^ 32) with 4294967296 in *.
  change (2 ^ 31) with 2147483648 in H.
  destruct (z mod 4294967296 <? 2147483648) eqn:E; lia.
Qed.

Lemma enc_messages_single m X : enc_message MESSAGE_MAGIC_BYTE 0 m = Ok X -> enc_messages [m] = Ok X.
Proof. intros H. unfold enc_messages. cbn [enc_all]. rewrite H. cbn [bind]. rewrite app_nil_r. reflexivity. Qed.

Theorem C03_size_cast_wraps : forall k v,
  blen k < 2 ^ 31 -> blen v < 2 ^ 31 -> 2 ^ 31 <= 14 + blen k + blen v ->
  exists bs, enc_messages [(Some k, Some v)] = Ok bs /\ spec_parse bs = None.
Proof.
  intros k v Hk Hv Hbig. exists (ser_message 0 0 (Some k) (Some v)). split.
  - apply enc_messages_single.
    change (enc_message MESSAGE_MAGIC_BYTE 0 (Some k, Some v)) with (enc_message 0 0 (Some k, Some v)).
    apply enc_message_ser; cbn [olen]; assumption.
  - pose proof (blen_ser_message 0 0 (Some k) (Some v)) as HL. cbn [olen] in HL.
    assert (Hone : spec_parse_one (ser_message 0 0 (Some k) (Some v)) = None).
    { pose proof (blen_ser_body 0 (Some k) (Some v)) as Hb. cbn [olen] in Hb.
      unfold spec_parse_one, ser_message. cbv zeta.
      set (body := ser_body 0 (Some k) (Some v)) in *.
      rewrite rd_i64_app by (unfold in_i64; lia). cbv beta iota.
      rewrite rd_i32_app_wrap. cbv beta iota.
      assert (E : (wrap_s 32 (4 + blen body) <? 14) = true).
      { apply Z.ltb_lt. apply wrap_s_32_wrapped. change (2 ^ 32) with 4294967296.
        change (2 ^ 31) with 2147483648 in *. lia. }
      rewrite E. reflexivity. }
    revert HL Hone. generalize (ser_message 0 0 (Some k) (Some v)). intros X HL Hone.
    pose proof (blen_nonneg k). pose proof (blen_nonneg v).
    unfold spec_parse. destruct (length X) as [|f] eqn:EL; [unfold blen in HL; lia|].
    rewrite spec_parse_go_S by (intros ->; discriminate EL). rewrite Hone. reflexivity.
Qed.

(* ---- examples (non-vacuity) ----------------------------------------------------------------------- *)

(* a two-record batch: null key with an empty (Some []) value; binary key with a short value *)
Definition ex_recs : list pmsg :=
  [ (None, Some []); (Some [x00; xff; x80; x0a], Some [x68; x69]) ].

Definition ex_bytes : bytes := match enc_messages ex_recs with Ok b => b | _ => [] end.

Example ex_fits : Forall fits ex_recs.
Proof. repeat constructor; vm_compute; reflexivity. Qed.

Example ex_plain_enc : enc_messages ex_recs = Ok ex_bytes /\ length ex_bytes = 58%nat.
Proof. vm_compute. split; reflexivity. Qed.

(* the literal wire bytes (cross-checked outside Coq against Python's struct + zlib.crc32) *)
Example ex_plain_literal :
  map Zb ex_bytes =
  [0; 0; 0; 0; 0; 0; 0; 0;  0; 0; 0; 14;  121; 87; 72; 224;  0; 0;  255; 255; 255; 255;  0; 0; 0; 0;
   0; 0; 0; 0; 0; 0; 0; 0;  0; 0; 0; 20;  120; 168; 2; 53;  0; 0;  0; 0; 0; 4; 0; 255; 128; 10;
   0; 0; 0; 2; 104; 105].
Proof. vm_compute. reflexivity. Qed.

Example ex_plain_parse :
  spec_parse ex_bytes =
  Some [ {| rm_offset := 0; rm_attr := 0; rm_key := None; rm_value := Some [] |};
         {| rm_offset := 0; rm_attr := 0; rm_key := Some [x00; xff; x80; x0a]; rm_value := Some [x68; x69] |} ].
Proof. vm_compute. reflexivity. Qed.

(* the parser is not vacuous: one changed byte and it refuses *)
Definition upd (n : nat) (f : byte -> byte) (bs : bytes) : bytes :=
  firstn n bs ++ match skipn n bs with [] => [] | b :: r => f b :: r end.
Definition bump (b : byte) : byte := bZ (Zb b + 1).
Definition unbump (b : byte) : byte := bZ (Zb b - 1).

(* bytes 12..15 of the set are the CRC of the first message *)
Example ex_crc_corrupt :
  spec_parse (upd 12 bump ex_bytes) = None /\ spec_parse (upd 15 bump ex_bytes) = None
  /\ spec_parse (upd 41 bump ex_bytes) = None.
Proof. vm_compute. repeat split; reflexivity. Qed.

(* bytes 8..11 are the size field of the first message (00 00 00 0e); one too large / one too small *)
Example ex_size_off_by_one :
  nth 11 ex_bytes x00 = x0e
  /\ spec_parse (upd 11 bump ex_bytes) = None /\ spec_parse (upd 11 unbump ex_bytes) = None
  /\ spec_parse (upd 37 bump ex_bytes) = None /\ spec_parse (upd 37 unbump ex_bytes) = None.
Proof. vm_compute. repeat split; reflexivity. Qed.

(* a payload byte, a key-length byte, the magic byte, a truncated or extended set *)
Example ex_other_corruptions :
  spec_parse (upd 16 bump ex_bytes) = None              (* magic 1 *)
  /\ spec_parse (upd 21 bump ex_bytes) = None           (* key length -1 -> 0 *)
  /\ spec_parse (upd 57 bump ex_bytes) = None           (* last value byte *)
  /\ spec_parse (firstn 57 ex_bytes) = None
  /\ spec_parse (ex_bytes ++ [x00]) = None.
Proof. vm_compute. repeat split; reflexivity. Qed.

(* compression oracles that are easy to recognise *)
Definition ex_cz : codecs :=
  {| gz_compress := fun b => x1f :: x8b :: rev b;
     sn_compress := fun b => b ++ b;
     gz_decompress := fun _ => None;
     debug_build := false |}.

Example ex_wrapped_hyps :
  blen (gz_compress ex_cz ex_bytes) < 2 ^ 31 - 26 /\ blen (sn_compress ex_cz ex_bytes) < 2 ^ 31 - 26
  /\ is_ok (enc_partition_produce ex_cz COMPRESSION_GZIP 3 ex_recs) = true
  /\ is_ok (enc_partition_produce ex_cz COMPRESSION_SNAPPY 3 ex_recs) = true
  /\ is_ok (enc_partition_produce ex_cz COMPRESSION_NONE 3 ex_recs) = true.
Proof. vm_compute. repeat split; reflexivity. Qed.

Example ex_wrapped_gzip :
  match enc_partition_produce ex_cz COMPRESSION_GZIP 3 ex_recs with
  | Ok out =>
      firstn 4 out = enc_i32 3
      /\ be_dec_s (firstn 4 (skipn 4 out)) = Z.of_nat (length (skipn 8 out))
      /\ spec_parse (skipn 8 out) =
         Some [{| rm_offset := 0; rm_attr := 1; rm_key := None;
                  rm_value := Some (x1f :: x8b :: rev ex_bytes) |}]
  | _ => False
  end.
Proof. vm_compute. repeat split; reflexivity. Qed.

Example ex_wrapped_snappy :
  match enc_partition_produce ex_cz COMPRESSION_SNAPPY 7 ex_recs with
  | Ok out =>
      firstn 4 out = enc_i32 7
      /\ be_dec_s (firstn 4 (skipn 4 out)) = Z.of_nat (length (skipn 8 out))
      /\ spec_parse (skipn 8 out) =
         Some [{| rm_offset := 0; rm_attr := 2; rm_key := None; rm_value := Some (ex_bytes ++ ex_bytes) |}]
  | _ => False
  end.
Proof. vm_compute. repeat split; reflexivity. Qed.

Example ex_none_in_request :
  enc_partition_produce ex_cz COMPRESSION_NONE 3 ex_recs = Ok (enc_i32 3 ++ enc_i32 58 ++ ex_bytes).
Proof. vm_compute. reflexivity. Qed.

(* C03_reject's hypothesis needs a key or value of at least 2^31 bytes, which cannot be written down as a
   literal; it is instantiated symbolically instead: any value of exactly 2^31 bytes is refused, and such
   a list exists. *)
Example ex_reject_symbolic : forall big, blen big = 2 ^ 31 -> enc_messages [(None, Some big)] = Err ECodec.
Proof.
  intros big Hbig. unfold enc_messages. cbn [enc_all]. unfold enc_message. cbn [fst snd enc_opt_bytes bind].
  unfold enc_bytes. change (ulen big) with (blen big). rewrite Hbig. reflexivity.
Qed.

Example ex_reject_exists : exists recs, enc_messages recs = Err ECodec.
Proof.
  exists [(None, Some (repeat x00 (Z.to_nat (2 ^ 31))))]. apply ex_reject_symbolic.
  unfold blen. rewrite repeat_length. apply Z2Nat.id. apply Z.pow_nonneg. lia.
Qed.

(* and such a record exists: key and value of 2^30 zero bytes each (never computed) *)
Example ex_size_cast_wraps_exists : exists recs bs, enc_messages recs = Ok bs /\ spec_parse bs = None.
Proof.
  destruct (C03_size_cast_wraps (repeat x00 (Z.to_nat (2 ^ 30))) (repeat x00 (Z.to_nat (2 ^ 30)))) as [bs H].
  1-3: unfold blen; rewrite repeat_length, Z2Nat.id by lia; lia.
  eexists. exists bs. exact H.
Qed.

Print Assumptions spec_parse_one_ser.
Print Assumptions C03_size_cast_wraps.
Print Assumptions spec_parse_ser.
Print Assumptions C03_plain.
Print Assumptions C03_plain_ok.
Print Assumptions C03_wrapped.
Print Assumptions C03_wrapped_ok.
Print Assumptions C03_none_in_request.
Print Assumptions C03_reject.
Print Assumptions C03_no_panic.
