(* C15, fourth adequacy pass (round-seven seed).

   Seed C15-7 (KafkaClient::fetch_metadata: a bootstrap host that took the WHOLE metadata request
   and whose reply could then not be read - time-out, reset, end-of-stream, at any read - is only
   logged, and the next bootstrap host is asked).  Mirrored in the model this is, in
   fetch_metadata_hosts,
       | Ok _ => let+ rr := mtry (get_response dec_metadata_resp h) in
                 match rr with Ok md => ret md | _ => fetch_metadata_hosts corr topics r end
   COVERED: it falsifies C15_metadata_run (Props/C15.v; "one host h got the WHOLE request and the
   result of the call IS the outcome of reading its reply - no further host is tried after a
   request went out completely").  Confirmed in a scratch copy: the proof script stops at the
   changed arm, and the NEGATION of the statement is proved on the mutated model with the witness
   hosts [b1; b2], script [OWrote 1000; OReadFail IoTimedOut; OWrote 1000; OData size; OData reply].
   The same scratch file shows that the statement of C15_metadata_ok_own_exchange - which looks
   only at the stream of the host the result came from - is TRUE of the mutant's run on that
   witness (h := b2): "success => the answering host's exchange is complete" does not see a
   request that another host took completely and never had its reply consumed.

   This file adds, about the UNCHANGED model:
   1. a read that was answered by an error or by end-of-stream, on ANY host and at ANY read index
      of a metadata call, is the RESULT of the call (forward direction; fetch_metadata_hosts,
      load_metadata, load_metadata_all) - the statement `faulted` could not give for metadata,
      because a failed WRITE legitimately moves the loop on (C15ExtraC, "not done");
   2. success of a metadata call seen from ALL streams, over the whole call: every host other
      than the answering one accepted STRICTLY LESS than the request frame (so no reply is due
      there), the answering host accepted exactly the frame and delivered exactly one reply, and
      every read of the call is a read on the answering host;
   3. the public calls: load_metadata is next_corr + fetch_metadata_hosts + update_metadata; its
      success, stream-side, with the state it leaves computed from the reply read in THIS call;
   4. a history: two successful load_metadata calls in a row - per host, what the reads delivered
      over both calls is the first call's reply (if that host answered it) followed by the second
      call's reply (if that host answered it), nothing else. *)
From KV Require Import Base.Prelude Gen.Consts Model.Codecs Model.Requests Model.Responses
                       Model.ClientState Model.Net Model.Client.
From KV Require Proofs.C14Facts.
From KV Require Import Proofs.BytesFacts Proofs.NetFacts Proofs.C15Facts Proofs.C15Extra Proofs.C15ExtraB.
From Coq Require Import ZifyBool.

(* ================================================================================== *)
(* 0. skipped hosts: every event was answered as long as the script is not exhausted  *)
(* ================================================================================== *)

Lemma stepsR_wet_full {A} (r : res A) s s' : stepsR r s s' -> script s' <> [] -> full s s'.
Proof.
  intros (outs & ops & Hs & [L|(_ & E & _)]) Hne; [exists outs, ops; split; assumption|contradiction].
Qed.

Lemma ext_dry s s' : ext s s' -> script s = [] -> script s' = [].
Proof. intros (outs & ops & [H _]) E. rewrite E in H. symmetry in H. apply app_eq_nil in H. apply H. Qed.

Lemma md_skipped_ext corr topics pre s sk : md_skipped corr topics pre s sk -> ext s sk.
Proof. intros H. apply (proj1 (md_skipped_quiet _ _ _ _ _ H)). Qed.

Lemma md_skipped_full corr topics pre s sk :
  md_skipped corr topics pre s sk -> script sk <> [] -> full s sk.
Proof.
  induction 1 as [s|h rest s e s1 s' H1 Hr IH|h rest s s1 e s2 s' H1 H2 Hr IH]; intros Hne.
  - apply full_refl.
  - assert (N1 : script s1 <> []) by (intros E; apply Hne; exact (ext_dry _ _ (md_skipped_ext _ _ _ _ _ Hr) E)).
    eapply full_trans; [exact (stepsR_wet_full _ _ _ (tracks_get_conn _ _ _ _ H1) N1)|exact (IH Hne)].
  - assert (N2 : script s2 <> []) by (intros E; apply Hne; exact (ext_dry _ _ (md_skipped_ext _ _ _ _ _ Hr) E)).
    assert (N1 : script s1 <> []).
    { intros E. apply N2. exact (ext_dry _ _ (tracks_ext _ (tracks_send_request _ _) _ _ _ H2) E). }
    eapply full_trans; [exact (stepsR_wet_full _ _ _ (tracks_get_conn _ _ _ _ H1) N1)|].
    eapply full_trans; [exact (stepsR_wet_full _ _ _ (tracks_send_request _ _ _ _ _ H2) N2)|exact (IH Hne)].
Qed.

(* a request that went out completely consumed at least one answer *)
Lemma send_request_ok_wet h payload s z s' : send_request h payload s = (Ok z, s') -> script s <> [].
Proof.
  intros H E. destruct (C15_push_complete _ _ _ _ _ H) as (p & chunks & _ & _ & Hw & Hc).
  pose proof (wsteps_accepted _ _ _ _ _ _ Hw) as Ha. rewrite Hc in Ha.
  unfold consumed in Ha. rewrite E in Ha. rewrite firstn_nil in Ha.
  unfold accepted in Ha. rewrite combine_nil in Ha. cbn [flat_map] in Ha.
  symmetry in Ha. exact (frame_nonempty _ Ha).
Qed.

(* ================================================================================== *)
(* 1. a failed read of a metadata reply is the result of the call                     *)
(* ================================================================================== *)

(* what a stream answered to a READ call when it did not hand out bytes: an error (time-out,
   reset, ...) or end-of-stream; the error the reader of a reply makes of it *)
Definition read_fault (p : ev_op * ev_out) : option err :=
  match p with
  | (ERead _ _, OReadFail e) => Some (EIo e)
  | (ERead _ _, OData []) => Some (EIo IoUnexpectedEof)
  | _ => None
  end.
(* during the run from s to s', some read call - on any host, at any index - was answered so *)
Definition read_faulted (e : err) (s s' : st) : Prop :=
  exists p, In p (combine (performed s s') (consumed s s')) /\ read_fault p = Some e.

Lemma read_faulted_split e s s1 s' :
  full s s1 -> ext s1 s' -> read_faulted e s s' -> read_faulted e s s1 \/ read_faulted e s1 s'.
Proof.
  intros F E (p & Hin & Hp).
  rewrite (performed_app _ _ _ (full_ext _ _ F) E), (consumed_app _ _ _ (full_ext _ _ F) E) in Hin.
  rewrite combine_app in Hin by (apply full_lists; exact F).
  apply in_app_or in Hin. destruct Hin as [Hin|Hin]; [left|right]; exists p; split; assumption.
Qed.

Lemma no_read_not_faulted e s s' : Forall not_read (performed s s') -> ~ read_faulted e s s'.
Proof.
  intros Hall ([op o] & Hin & Hp). rewrite Forall_forall in Hall.
  pose proof (Hall _ (in_combine_l _ _ _ _ Hin)) as Hop.
  destruct op; cbn [not_read] in Hop; try contradiction; discriminate.
Qed.

Lemma rf_get_response {A} (d : dec A) h s r s' e :
  get_response d h s = (r, s') -> read_faulted e s s' -> r = Err e.
Proof.
  intros H ([op o] & Hin & Hp).
  destruct (ops_get_response _ _ _ _ _ _ H) as [_ Hall]. rewrite Forall_forall in Hall.
  destruct (Hall _ (in_combine_l _ _ _ _ Hin)) as [n ->]. cbn [read_fault] in Hp.
  pose proof (in_combine_r _ _ _ _ Hin) as Ho.
  assert (Hbad : good_read o = false /\ read_failure o = Err e).
  { destruct o as [ok|k| |e0|[|b0 bs]| |e0|]; try discriminate; inversion Hp; subst e; split; reflexivity. }
  destruct Hbad as [Hbad Hrf].
  destruct (get_response_inv _ _ _ _ _ H) as [(b & Hb & _)|(e1 & Hb & ->)].
  - destruct (C15_reply_fault_stops _ _ _ _ _ Hb Ho Hbad) as (pre & _ & _ & Hr). rewrite Hrf in Hr. discriminate.
  - destruct (C15_reply_fault_stops _ _ _ _ _ Hb Ho Hbad) as (pre & _ & _ & Hr). rewrite Hrf in Hr.
    inversion Hr. reflexivity.
Qed.

(* KafkaClient::fetch_metadata, for EVERY behaviour of the streams, every list of bootstrap hosts
   and every read index: when some read - of the size prefix or inside the body, on whichever
   host - was answered by an error e (time-out, reset, ...) or by end-of-stream, the call returns
   that error (UnexpectedEof for end-of-stream): not a success obtained from a later host, not
   NoHostReachable.  (Seed C15-7: with the fail-over after a failed read the call returns Ok.) *)
Theorem C15_metadata_read_fault_is_error : forall corr topics hs s r s' e,
  fetch_metadata_hosts corr topics hs s = (r, s') -> read_faulted e s s' -> r = Err e.
Proof.
  intros corr topics hs s r s' e H F.
  destruct (C15_metadata_run _ _ _ _ _ _ H) as [(pre & h & post & sk & s1 & z & s2 & Hhs & Hsk & Ha & Hb & Hc)
                                               |[(Hr & Hsk)|(pre & h & post & sk & s1 & w & _ & Hsk & Ha & Hb & Hr)]].
  - assert (N1 : script s1 <> []) by exact (send_request_ok_wet _ _ _ _ _ Hb).
    assert (Nk : script sk <> []).
    { intros E. apply N1. exact (ext_dry _ _ (tracks_ext _ (tracks_get_conn _) _ _ _ Ha) E). }
    pose proof (md_skipped_full _ _ _ _ _ Hsk Nk) as Fk.
    pose proof (stepsR_ok_full _ _ _ (tracks_get_conn _ _ _ _ Ha)) as F1.
    pose proof (stepsR_ok_full _ _ _ (tracks_send_request _ _ _ _ _ Hb)) as F2.
    pose proof (tracks_ext _ (tracks_get_response dec_metadata_resp h) _ _ _ Hc) as E3.
    assert (Fs2 : full s s2) by (eapply full_trans; [exact Fk|eapply full_trans; eassumption]).
    destruct (read_faulted_split _ _ _ _ Fs2 E3 F) as [K|K].
    + exfalso. revert K. apply no_read_not_faulted.
      destruct (md_skipped_quiet _ _ _ _ _ Hsk) as [Q _].
      pose proof (get_conn_no_read _ _ _ _ Ha) as Q1. pose proof (send_request_no_read _ _ _ _ _ Hb) as Q2.
      exact (proj2 (proj2 (preorder_ops_in not_read) _ _ _ Q (proj2 (preorder_ops_in not_read) _ _ _ Q1 Q2))).
    + exact (rf_get_response _ _ _ _ _ _ Hc K).
  - exfalso. revert F. apply no_read_not_faulted. exact (proj2 (proj1 (md_skipped_quiet _ _ _ _ _ Hsk))).
  - exfalso. revert F. apply no_read_not_faulted.
    destruct (md_skipped_quiet _ _ _ _ _ Hsk) as [Q _].
    pose proof (get_conn_no_read _ _ _ _ Ha) as Q1. pose proof (send_request_no_read _ _ _ _ _ Hb) as Q2.
    exact (proj2 (proj2 (preorder_ops_in not_read) _ _ _ Q (proj2 (preorder_ops_in not_read) _ _ _ Q1 Q2))).
Qed.

(* two bootstrap hosts, both pooled; the first takes the whole request and then (a) times out on
   the read of the size prefix, (b) resets in the middle of the body, (c) closes: the call fails
   with exactly that error, the second host is never asked *)
Example C15_metadata_read_fault_is_error_ex :
  let run sc := fetch_metadata_hosts 1 [] [h1; h2] (mkst sc cl_md) in
  let tail := [OWrote 1000; OData (enc_i32 (ulen md_reply)); OData md_reply] in
  let sa := OWrote 1000 :: OReadFail IoTimedOut :: tail in
  let sb := OWrote 1000 :: OData (enc_i32 (ulen md_reply)) :: OData (firstn 5 md_reply) :: OReadFail IoOther :: tail in
  let sc := OWrote 7 :: OWrote 1000 :: OData (firstn 2 (enc_i32 (ulen md_reply))) :: OData [] :: tail in
  read_faulted (EIo IoTimedOut) (mkst sa cl_md) (snd (run sa)) /\ fst (run sa) = Err (EIo IoTimedOut) /\
  read_faulted (EIo IoOther) (mkst sb cl_md) (snd (run sb)) /\ fst (run sb) = Err (EIo IoOther) /\
  read_faulted (EIo IoUnexpectedEof) (mkst sc cl_md) (snd (run sc)) /\ fst (run sc) = Err (EIo IoUnexpectedEof) /\
  script (snd (run sa)) = tail /\ script (snd (run sb)) = tail /\ script (snd (run sc)) = tail.
Proof.
  cbv zeta.
  split; [eexists; split; [vm_compute; right; left; reflexivity|reflexivity]|]. split; [vm_compute; reflexivity|].
  split; [eexists; split; [vm_compute; right; right; right; left; reflexivity|reflexivity]|]. split; [vm_compute; reflexivity|].
  split; [eexists; split; [vm_compute; right; right; right; left; reflexivity|reflexivity]|]. split; [vm_compute; reflexivity|].
  vm_compute. repeat split.
Qed.

(* ================================================================================== *)
(* 2. success of a metadata call, seen from ALL streams                               *)
(* ================================================================================== *)

Lemma send_request_on_host h payload : keeps (ops_in (on_host h)) (send_request h payload).
Proof. apply (keepsR_send_request _ (preorder_ops_in _) h); intros; apply keeps_io_ops; reflexivity. Qed.
Lemma conn_event_on_host h ops : Forall (conn_event h) ops -> Forall (on_host h) ops.
Proof. apply Forall_impl. intros op [-> | ->]; reflexivity. Qed.
Lemma read_event_on_host h ops : Forall (read_event h) ops -> Forall (on_host h) ops.
Proof. apply Forall_impl. intros op [n ->]. reflexivity. Qed.

(* b is a STRICT prefix of the request frame: the request was not handed over completely *)
Definition short_of (p : bytes) (b : bytes) : Prop := exists b', frame p = b ++ b' /\ b' <> [].

Lemma short_of_nil p : short_of p [].
Proof. exists (frame p). split; [reflexivity|apply frame_nonempty]. Qed.

Lemma accepted_refl g s : accepted g (performed s s) (consumed s s) = [].
Proof. rewrite performed_refl. reflexivity. Qed.

Lemma accepted_trans g s s1 s' : full s s1 -> ext s1 s' ->
  accepted g (performed s s') (consumed s s') =
  accepted g (performed s s1) (consumed s s1) ++ accepted g (performed s1 s') (consumed s1 s').
Proof.
  intros F E. rewrite (performed_app _ _ _ (full_ext _ _ F) E), (consumed_app _ _ _ (full_ext _ _ F) E).
  apply accepted_app, full_lists, F.
Qed.
Lemma delivered_trans g s s1 s' : full s s1 -> ext s1 s' ->
  delivered g (performed s s') (consumed s s') =
  delivered g (performed s s1) (consumed s s1) ++ delivered g (performed s1 s') (consumed s1 s').
Proof.
  intros F E. rewrite (performed_app _ _ _ (full_ext _ _ F) E), (consumed_app _ _ _ (full_ext _ _ F) E).
  apply delivered_app, full_lists, F.
Qed.

Lemma get_conn_accepts_nothing g h s r s' : get_conn h s = (r, s') ->
  accepted g (performed s s') (consumed s s') = [].
Proof. intros H. apply accepted_none, (conn_event_not_write h), (proj2 (ops_get_conn _ _ _ _ H)). Qed.

(* The hosts a metadata call passed over, stream by stream (bootstrap hosts listed once): what
   the stream of ANY host g accepted while they were tried is a strict prefix of the request
   frame - never the whole request, so that no reply is due on it - and nothing at all when g is
   not among them. *)
Lemma md_skipped_streams corr topics p pre s sk :
  md_skipped corr topics pre s sk -> script sk <> [] -> md_payload corr topics s = Ok p -> NoDup pre ->
  forall g, short_of p (accepted g (performed s sk) (consumed s sk)) /\
            (~ In g pre -> accepted g (performed s sk) (consumed s sk) = []).
Proof.
  induction 1 as [s|h rest s e s1 s' H1 Hr IH|h rest s s1 e s2 s' H1 H2 Hr IH]; intros Hne Hp Hnd g.
  - rewrite accepted_refl. split; [apply short_of_nil|reflexivity].
  - assert (N1 : script s1 <> []) by (intros E; apply Hne; exact (ext_dry _ _ (md_skipped_ext _ _ _ _ _ Hr) E)).
    pose proof (stepsR_wet_full _ _ _ (tracks_get_conn _ _ _ _ H1) N1) as F1.
    assert (Hp1 : md_payload corr topics s1 = Ok p).
    { unfold md_payload in *. replace (cfg (cl s1)) with (cfg (cl s)); [exact Hp|]. symmetry. apply (frame_get_conn _ _ _ _ H1). }
    inversion Hnd as [|x l Hnin Hnd']; subst.
    destruct (IH Hne Hp1 Hnd' g) as [I1 I2].
    rewrite (accepted_trans g _ _ _ F1 (md_skipped_ext _ _ _ _ _ Hr)), (get_conn_accepts_nothing g _ _ _ _ H1).
    cbn [app]. split; [exact I1|]. intros Hn. apply I2. intros Hi. apply Hn. right. exact Hi.
  - assert (N2 : script s2 <> []) by (intros E; apply Hne; exact (ext_dry _ _ (md_skipped_ext _ _ _ _ _ Hr) E)).
    assert (N1 : script s1 <> []).
    { intros E. apply N2. exact (ext_dry _ _ (tracks_ext _ (tracks_send_request _ _) _ _ _ H2) E). }
    pose proof (stepsR_wet_full _ _ _ (tracks_get_conn _ _ _ _ H1) N1) as F1.
    pose proof (stepsR_wet_full _ _ _ (tracks_send_request _ _ _ _ _ H2) N2) as F2.
    assert (Hp2 : md_payload corr topics s2 = Ok p).
    { unfold md_payload in *. replace (cfg (cl s2)) with (cfg (cl s)); [exact Hp|]. symmetry.
      destruct (frame_send_request _ _ _ _ _ H2) as (_ & _ & _ & _ & -> & _). apply (frame_get_conn _ _ _ _ H1). }
    inversion Hnd as [|x l Hnin Hnd']; subst.
    destruct (IH Hne Hp2 Hnd' g) as [I1 I2].
    pose proof (md_skipped_ext _ _ _ _ _ Hr) as Er.
    rewrite (accepted_trans g _ _ _ F1 (ext_trans _ _ _ (full_ext _ _ F2) Er)), (get_conn_accepts_nothing g _ _ _ _ H1).
    rewrite (accepted_trans g _ _ _ F2 Er). cbn [app].
    rewrite Hp in H2.
    destruct (bytes_eqb g h) eqn:Egh.
    + apply bytes_eqb_eq in Egh. subst g. rewrite (I2 Hnin), app_nil_r. split.
      * destruct (C15_send_outcomes _ _ _ _ _ H2) as (b' & Hb & [(Hr0 & _)|[(pr & o & e0 & opre & Hb' & _)|(opre & Hb' & _)]]);
          [discriminate|exists b'; split; assumption|exists b'; split; assumption].
      * intros Hn. exfalso. apply Hn. left. reflexivity.
    + apply bytes_eqb_neq in Egh.
      rewrite (accepted_other g h _ _ (fun E => Egh (eq_sym E)) (proj2 (send_request_on_host _ _ _ _ _ H2))).
      cbn [app]. split; [exact I1|]. intros Hn. apply I2. intros Hi. apply Hn. right. exact Hi.
Qed.

Lemma NoDup_mid (pre : list bytes) h post : NoDup (pre ++ h :: post) -> NoDup pre /\ ~ In h pre.
Proof.
  induction pre as [|x pre IH]; cbn [app]; intros H; [split; [constructor|intros []]|].
  inversion H as [|y l Hx Hl]; subst. destruct (IH Hl) as [I1 I2]. split.
  - constructor; [|exact I1]. intros Hi. apply Hx. apply in_or_app. left. exact Hi.
  - intros [E|Hi]; [|exact (I2 Hi)]. subst x. apply Hx. apply in_or_app. right. left. reflexivity.
Qed.

(* every read of a run is a read on host h *)
Definition reads_only_on (h : bytes) (op : ev_op) : Prop :=
  match op with ERead h' _ => h' = h | _ => True end.

(* Success of KafkaClient::fetch_metadata over the WHOLE call and ALL streams (bootstrap hosts
   listed once), for every behaviour of the streams: there is one host h - the one whose reply is
   the result - such that
   - h accepted, during the call, exactly the request frame, and its reads delivered exactly one
     size prefix and one body, from which the result is decoded;
   - every OTHER host g accepted strictly less than the request frame: no host took the whole
     request without its reply being read (one reply consumed per request handed over);
   - every read of the call is a read on h; every event of the call was answered.
   (Seed C15-7: with the fail-over after a failed read, b1 has accepted the whole frame and is not
   the host the result came from.) *)
Theorem C15_metadata_ok_all_streams : forall corr topics hs s md s',
  fetch_metadata_hosts corr topics hs s = (Ok md, s') -> NoDup hs ->
  exists h p hdr body,
    In h hs /\ enc_metadata_req corr (client_id (cfg (cl s))) topics = Ok p /\ full s s' /\
    accepted h (performed s s') (consumed s s') = frame p /\
    delivered h (performed s s') (consumed s s') = hdr ++ body /\
    is_reply dec_metadata_resp md hdr body /\
    (reads_bounded s s' -> ulen hdr = 4 /\ ulen body = be_dec_s hdr) /\
    Forall (reads_only_on h) (performed s s') /\
    forall g, g <> h ->
      short_of p (accepted g (performed s s') (consumed s s')) /\
      delivered g (performed s s') (consumed s s') = [].
Proof.
  intros corr topics hs s md s' H Hnd.
  destruct (C15_metadata_run _ _ _ _ _ _ H) as [(pre & h & post & sk & s1 & z & s2 & Hhs & Hsk & Ha & Hb & Hc)
                                               |[(Hr & _)|(pre & h & post & sk & s1 & w & _ & _ & _ & _ & Hr)]];
    try discriminate.
  assert (N1 : script s1 <> []) by exact (send_request_ok_wet _ _ _ _ _ Hb).
  assert (Nk : script sk <> []).
  { intros E. apply N1. exact (ext_dry _ _ (tracks_ext _ (tracks_get_conn _) _ _ _ Ha) E). }
  pose proof (md_skipped_full _ _ _ _ _ Hsk Nk) as Fk.
  pose proof (stepsR_ok_full _ _ _ (tracks_get_conn _ _ _ _ Ha)) as F1.
  destruct (md_skipped_quiet _ _ _ _ _ Hsk) as [Q Hcfg].
  destruct (C15_inline_exchange_streams _ _ _ _ _ _ _ _ _ Hb Hc) as (p & Hp & F & Hacc & hdr & body & Hd & Hrep & _ & _ & Hbd).
  assert (Hp0 : md_payload corr topics s = Ok p) by (unfold md_payload in *; rewrite <- Hcfg; exact Hp).
  assert (Fs1 : full s s1) by (eapply full_trans; eassumption).
  assert (Nd : NoDup pre /\ ~ In h pre).
  { subst hs. exact (NoDup_mid _ _ _ Hnd). }
  destruct Nd as [Ndp Nhp].
  pose proof (md_skipped_streams _ _ _ _ _ _ Hsk Nk Hp0 Ndp) as Hstr.
  (* the events of the final exchange are on h *)
  assert (Oh : Forall (on_host h) (performed s1 s')).
  { pose proof (send_request_on_host _ _ _ _ _ Hb) as O1.
    pose proof (ops_get_response _ _ _ _ _ _ Hc) as [E2 O2]. apply read_event_on_host in O2.
    exact (proj2 (proj2 (preorder_ops_in (on_host h)) _ _ _ O1 (conj E2 O2))). }
  exists h, p, hdr, body.
  split; [rewrite Hhs; apply in_or_app; right; left; reflexivity|].
  split; [exact Hp0|]. split; [eapply full_trans; eassumption|].
  split.
  { rewrite (accepted_trans h _ _ _ Fs1 (full_ext _ _ F)), (accepted_trans h _ _ _ Fk (full_ext _ _ F1)).
    rewrite (proj2 (Hstr h) Nhp), (get_conn_accepts_nothing h _ _ _ _ Ha). exact Hacc. }
  split.
  { rewrite (delivered_trans h _ _ _ Fs1 (full_ext _ _ F)).
    rewrite (delivered_none h (performed s s1)); [exact Hd|].
    exact (proj2 (proj2 (preorder_ops_in not_read) _ _ _ Q (get_conn_no_read _ _ _ _ Ha))). }
  split; [exact Hrep|].
  split; [intros B; apply Hbd; exact (reads_bounded_suffix _ _ _ Fs1 (full_ext _ _ F) B)|].
  split.
  { rewrite (performed_app _ _ _ (full_ext _ _ Fs1) (full_ext _ _ F)). apply Forall_app. split.
    - pose proof (proj2 (proj2 (preorder_ops_in not_read) _ _ _ Q (get_conn_no_read _ _ _ _ Ha))) as NR.
      revert NR. apply Forall_impl. intros op Hop. destruct op; try exact I. contradiction.
    - revert Oh. apply Forall_impl. intros op Hop. destruct op; try exact I. exact Hop. }
  intros g Hg. split.
  - rewrite (accepted_trans g _ _ _ Fs1 (full_ext _ _ F)), (accepted_trans g _ _ _ Fk (full_ext _ _ F1)).
    rewrite (get_conn_accepts_nothing g _ _ _ _ Ha), (accepted_other g h _ _ (fun E => Hg (eq_sym E)) Oh), !app_nil_r.
    exact (proj1 (Hstr g)).
  - rewrite (delivered_trans g _ _ _ Fs1 (full_ext _ _ F)).
    rewrite (delivered_none g (performed s s1));
      [|exact (proj2 (proj2 (preorder_ops_in not_read) _ _ _ Q (get_conn_no_read _ _ _ _ Ha)))].
    exact (delivered_other g h _ _ (fun E => Hg (eq_sym E)) Oh).
Qed.

Definition unres (r : res bytes) : bytes := match r with Ok p => p | _ => [] end.

(* three bootstrap hosts, none pooled yet: b0 refuses the connection, b1 connects, accepts 10 bytes
   of the request and fails, b2 connects, takes the request in two pieces and answers in three
   reads; the hypotheses hold and the per-stream facts can be read off *)
Definition h0 : bytes := tag "b0:9092".
Definition cl_md3 : client := {| cfg := default_config [h0; h1; h2]; cs := cs1; conns := [] |}.
Example C15_metadata_ok_all_streams_ex :
  let s := mkst [OConn false; OConn true; OWrote 10; OWriteFail IoOther; OConn true; OWrote 6; OWrote 1000;
                 OData (enc_i32 (ulen md_reply)); OData (firstn 5 md_reply); OData (skipn 5 md_reply);
                 OData (tag "next")] cl_md3 in
  let '(r, s') := fetch_metadata_hosts 1 [] [h0; h1; h2] s in
  is_ok r = true /\ NoDup [h0; h1; h2] /\
  script s' = [OData (tag "next")] /\
  accepted h2 (performed s s') (consumed s s') = frame (unres (enc_metadata_req 1 [] [])) /\
  delivered h2 (performed s s') (consumed s s') = enc_i32 (ulen md_reply) ++ md_reply /\
  ulen (accepted h1 (performed s s') (consumed s s')) = 10 /\
  accepted h0 (performed s s') (consumed s s') = [] /\
  conns (cl s') = [h1; h2].
Proof.
  vm_compute. repeat split; try reflexivity.
  repeat constructor; cbn [In]; intros H; repeat (destruct H as [H|H]; [discriminate H|]); exact H.
Qed.

(* ================================================================================== *)
(* 3. the public calls load_metadata / load_metadata_all                              *)
(* ================================================================================== *)

Definition same_io (a b : st) : Prop := script a = script b /\ trace a = trace b.

Lemma same_io_lists a a' b b' : same_io a b -> same_io a' b' ->
  performed a a' = performed b b' /\ consumed a a' = consumed b b'.
Proof. intros [H1 H2] [H3 H4]. unfold performed, consumed. rewrite H1, H2, H3, H4. split; reflexivity. Qed.

Lemma same_io_full a a' b b' : same_io a b -> same_io a' b' -> full a a' -> full b b'.
Proof.
  intros [H1 H2] [H3 H4] (outs & ops & [Hs Ht] & L). exists outs, ops. split; [|exact L].
  split; [rewrite <- H1, <- H3; exact Hs|rewrite <- H2, <- H4; exact Ht].
Qed.

Lemma same_io_read_faulted e a a' b b' : same_io a b -> same_io a' b' ->
  read_faulted e a a' -> read_faulted e b b'.
Proof.
  intros Ha Hb (p & Hin & Hp). destruct (same_io_lists _ _ _ _ Ha Hb) as [E1 E2].
  exists p. rewrite <- E1, <- E2. split; assumption.
Qed.

Lemma same_io_reads_bounded a a' b b' : same_io a b -> same_io a' b' ->
  reads_bounded a a' -> reads_bounded b b'.
Proof.
  intros Ha Hb H. destruct (same_io_lists _ _ _ _ Ha Hb) as [E1 E2].
  unfold reads_bounded in *. rewrite <- E1, <- E2. exact H.
Qed.

Lemma frame_metadata_hosts corr topics : forall hs, keeps same_but_conns (fetch_metadata_hosts corr topics hs).
Proof.
  induction hs as [|h r IH]; cbn [fetch_metadata_hosts]; [apply keeps_fail, preorder_same_but_conns|].
  apply keeps_bind; [apply preorder_same_but_conns|apply keeps_get_client, preorder_same_but_conns|]. intros c.
  apply keeps_bind; [apply preorder_same_but_conns|apply keeps_mtry, frame_get_conn|]. intros rc.
  destruct rc; try exact IH.
  apply keeps_bind; [apply preorder_same_but_conns| |].
  - apply keeps_mtry. eapply keeps_weaken; [exact same_but_io_conns|apply frame_send_request].
  - intros rs. destruct rs; try exact IH.
    eapply keeps_weaken; [exact same_but_io_conns|apply frame_get_response].
Qed.

(* the state in which the bootstrap loop of a load_metadata call starts: the correlation id has
   been advanced, script and trace are untouched *)
Definition md_start (s : st) : st := snd (next_corr s).
Definition md_corr (s : st) : Z := fst (next_correlation_id (cs (cl s))).

Lemma md_start_facts s :
  next_corr s = (Ok (md_corr s), md_start s) /\ same_io (md_start s) s /\
  cfg (cl (md_start s)) = cfg (cl s) /\ conns (cl (md_start s)) = conns (cl s) /\
  cs (cl (md_start s)) = snd (next_correlation_id (cs (cl s))).
Proof.
  unfold md_start, md_corr, next_corr, mbind, get_client, set_cs, set_client, ret.
  destruct (next_correlation_id (cs (cl s))) as [n x]. cbn. repeat split; reflexivity.
Qed.

(* KafkaClient::load_metadata as an equation: ONE run of the bootstrap loop with the next
   correlation id; every failure of that run is the result of the call, and nothing else happens
   then; only a reply that was read is applied to the client state. *)
Theorem C15_load_metadata_is_fetch : forall topics s,
  let '(r0, s1) := fetch_metadata_hosts (md_corr s) topics (hosts (cfg (cl s))) (md_start s) in
  load_metadata topics s =
  match r0 with
  | Ok md => match update_metadata (cs (cl s1)) md with
             | Ok x => set_cs x s1
             | Err e => (Err e, s1)
             | Panic w => (Panic w, s1)
             end
  | Err e => (Err e, s1)
  | Panic w => (Panic w, s1)
  end.
Proof.
  intros topics s. destruct (md_start_facts s) as (Hn & _ & Hcfg & _).
  destruct (fetch_metadata_hosts (md_corr s) topics (hosts (cfg (cl s))) (md_start s)) as [r0 s1] eqn:E.
  unfold load_metadata, fetch_metadata. unfold mbind at 1. unfold mbind at 1. rewrite Hn.
  rewrite bind_get_client, Hcfg, E.
  destruct r0 as [md|e|w]; reflexivity.
Qed.

Lemma load_metadata_all_reset s : load_metadata_all s = load_metadata [] (snd (reset_metadata s)) /\
  same_io (snd (reset_metadata s)) s /\ cfg (cl (snd (reset_metadata s))) = cfg (cl s) /\
  conns (cl (snd (reset_metadata s))) = conns (cl s) /\
  cs (cl (snd (reset_metadata s))) = clear_metadata (cs (cl s)).
Proof.
  unfold load_metadata_all, reset_metadata, mbind, get_client, set_cs, set_client. cbn.
  repeat split; reflexivity.
Qed.

(* what load_metadata returned and left, in terms of its run of the bootstrap loop *)
Lemma load_metadata_inv topics s r s' : load_metadata topics s = (r, s') ->
  exists r0 s1, fetch_metadata_hosts (md_corr s) topics (hosts (cfg (cl s))) (md_start s) = (r0, s1) /\
    same_io s' s1 /\ cfg (cl s') = cfg (cl s) /\
    match r0 with
    | Ok md => match update_metadata (snd (next_correlation_id (cs (cl s)))) md with
               | Ok x => r = Ok tt /\ cs (cl s') = x
               | Err e => r = Err e
               | Panic w => r = Panic w
               end
    | Err e => r = Err e
    | Panic w => r = Panic w
    end.
Proof.
  intros H. pose proof (C15_load_metadata_is_fetch topics s) as K.
  destruct (md_start_facts s) as (_ & _ & Hcfg & _ & Hcs).
  destruct (fetch_metadata_hosts (md_corr s) topics (hosts (cfg (cl s))) (md_start s)) as [r0 s1] eqn:E.
  pose proof (frame_metadata_hosts _ _ _ _ _ _ E) as (_ & _ & _ & _ & _ & Fcfg & Fcs).
  exists r0, s1. split; [reflexivity|]. rewrite K in H. rewrite <- Hcs, <- Fcs.
  destruct r0 as [md|e|w].
  - destruct (update_metadata (cs (cl s1)) md) as [x|e|w].
    + unfold set_cs, mbind, get_client, set_client in H. inversion H; subst. cbn.
      split; [split; reflexivity|]. split; [congruence|split; reflexivity].
    + inversion H; subst. split; [split; reflexivity|]. split; [congruence|reflexivity].
    + inversion H; subst. split; [split; reflexivity|]. split; [congruence|reflexivity].
  - inversion H; subst. split; [split; reflexivity|]. split; [congruence|reflexivity].
  - inversion H; subst. split; [split; reflexivity|]. split; [congruence|reflexivity].
Qed.

(* KafkaClient::load_metadata / load_metadata_all (and, through them, the Consumer / Producer
   builders), for EVERY behaviour of the streams: a read answered by an error or by end-of-stream
   - size prefix or body, first bootstrap host or a later one - is what the call returns; the
   call does not report success, and no other host's reply is taken instead. *)
Theorem C15_load_metadata_read_fault_is_error : forall topics s r s' e,
  load_metadata topics s = (r, s') \/ load_metadata_all s = (r, s') ->
  read_faulted e s s' -> r = Err e.
Proof.
  assert (K : forall topics s r s' e, load_metadata topics s = (r, s') -> read_faulted e s s' -> r = Err e).
  { intros topics s r s' e H F. destruct (load_metadata_inv _ _ _ _ H) as (r0 & s1 & Hf & Hio & _ & Hr).
    destruct (md_start_facts s) as (_ & Hio0 & _).
    assert (F0 : read_faulted e (md_start s) s1).
    { apply (same_io_read_faulted e s s'); [split; symmetry; apply Hio0|exact Hio|exact F]. }
    pose proof (C15_metadata_read_fault_is_error _ _ _ _ _ _ _ Hf F0) as E0. subst r0. exact Hr. }
  intros topics s r s' e [H|H] F; [exact (K _ _ _ _ _ H F)|].
  destruct (load_metadata_all_reset s) as (E & Hio & _). rewrite E in H.
  apply (K _ _ _ _ _ H). apply (same_io_read_faulted e s s'); [split; symmetry; apply Hio|split; reflexivity|exact F].
Qed.

(* the public call on a fresh two-host client (nothing pooled): b1 connects, takes the request and
   times out on the first read: Err(TimedOut); the client state is untouched (topic "t" of the
   old metadata still there, correlation advanced); b1 stays pooled; b2 was never connected *)
Definition cl_md2 : client := {| cfg := default_config [h1; h2]; cs := cs1; conns := [] |}.
Example C15_load_metadata_read_fault_is_error_ex :
  let s := mkst [OConn true; OWrote 1000; OReadFail IoTimedOut; OConn true; OWrote 1000;
                 OData (enc_i32 (ulen md_reply)); OData md_reply] cl_md2 in
  let '(r, s') := load_metadata [tag "t"] s in
  read_faulted (EIo IoTimedOut) s s' /\ r = Err (EIo IoTimedOut) /\
  performed s s' = [EConnect h1; EWrite h1 (frame (unres (enc_metadata_req 1 [] [tag "t"]))); ERead h1 4] /\
  conns (cl s') = [h1] /\ topic_partitions (cs (cl s')) = [(tag "t", [0])] /\ correlation (cs (cl s')) = 1.
Proof.
  vm_compute. split; [eexists; split; [right; right; left; reflexivity|reflexivity]|]. repeat split.
Qed.

(* Success of the PUBLIC call load_metadata over the whole call and all streams (bootstrap hosts
   listed once): as C15_metadata_ok_all_streams, with the request carrying the next correlation
   id, and the metadata the client holds afterwards computed (update_metadata) from the reply
   that was read on the answering host DURING this call. *)
Theorem C15_load_metadata_ok_all_streams : forall topics s s',
  load_metadata topics s = (Ok tt, s') -> NoDup (hosts (cfg (cl s))) ->
  exists h p md hdr body,
    In h (hosts (cfg (cl s))) /\
    enc_metadata_req (md_corr s) (client_id (cfg (cl s))) topics = Ok p /\ full s s' /\
    accepted h (performed s s') (consumed s s') = frame p /\
    delivered h (performed s s') (consumed s s') = hdr ++ body /\
    is_reply dec_metadata_resp md hdr body /\
    (reads_bounded s s' -> ulen hdr = 4 /\ ulen body = be_dec_s hdr) /\
    Forall (reads_only_on h) (performed s s') /\
    (forall g, g <> h ->
       short_of p (accepted g (performed s s') (consumed s s')) /\
       delivered g (performed s s') (consumed s s') = []) /\
    update_metadata (snd (next_correlation_id (cs (cl s)))) md = Ok (cs (cl s')) /\
    cfg (cl s') = cfg (cl s).
Proof.
  intros topics s s' H Hnd. destruct (load_metadata_inv _ _ _ _ H) as (r0 & s1 & Hf & Hio & Hcfg & Hr).
  destruct (md_start_facts s) as (_ & Hio0 & Hcfg0 & _).
  destruct r0 as [md|e|w]; try discriminate.
  destruct (update_metadata (snd (next_correlation_id (cs (cl s)))) md) as [x|e|w] eqn:Eu; try discriminate.
  destruct Hr as [_ Hx].
  destruct (C15_metadata_ok_all_streams _ _ _ _ _ _ Hf Hnd)
    as (h & p & hdr & body & Hin & Hp & F & Hacc & Hd & Hrep & Hbd & Hro & Hoth).
  assert (Hio1 : same_io s1 s') by (split; symmetry; apply Hio).
  destruct (same_io_lists _ _ _ _ Hio0 Hio1) as [E1 E2]. rewrite E1, E2 in *.
  exists h, p, md, hdr, body.
  split; [exact Hin|]. split; [rewrite <- Hcfg0; exact Hp|].
  split; [exact (same_io_full _ _ _ _ Hio0 Hio1 F)|].
  split; [exact Hacc|]. split; [exact Hd|]. split; [exact Hrep|].
  split; [intros B; apply Hbd; apply (same_io_reads_bounded s s'); [split; symmetry; apply Hio0|exact Hio|exact B]|].
  split; [exact Hro|]. split; [exact Hoth|]. split; [rewrite Eu, Hx; reflexivity|exact Hcfg].
Qed.

(* ================================================================================== *)
(* 4. a history: two successful metadata calls in a row                               *)
(* ================================================================================== *)

(* What two successful load_metadata calls leave on the streams, taken together (bootstrap hosts
   listed once): over the whole history, the reads on ANY host g delivered the first call's reply
   if g answered the first call, followed by the second call's reply if g answered the second -
   and nothing else; what g accepted is a first part (the first request frame if g answered the
   first call, strictly less otherwise) followed by a second part (likewise); the client state
   after each call is computed from the reply of THAT call.  So on every stream whole requests
   and whole replies pair off one to one, in order, and the second call's result is decoded from
   the bytes that follow the first call's reply - never from them. *)
Theorem C15_load_metadata_twice_streams : forall t1 t2 s s1 s2,
  load_metadata t1 s = (Ok tt, s1) -> load_metadata t2 s1 = (Ok tt, s2) ->
  NoDup (hosts (cfg (cl s))) ->
  exists ha pa mda hdra bodya hb pb mdb hdrb bodyb,
    enc_metadata_req (md_corr s) (client_id (cfg (cl s))) t1 = Ok pa /\
    enc_metadata_req (md_corr s1) (client_id (cfg (cl s))) t2 = Ok pb /\
    is_reply dec_metadata_resp mda hdra bodya /\ is_reply dec_metadata_resp mdb hdrb bodyb /\
    update_metadata (snd (next_correlation_id (cs (cl s)))) mda = Ok (cs (cl s1)) /\
    update_metadata (snd (next_correlation_id (cs (cl s1)))) mdb = Ok (cs (cl s2)) /\
    full s s2 /\
    (forall g, delivered g (performed s s2) (consumed s s2) =
               (if bytes_eqb g ha then hdra ++ bodya else []) ++ (if bytes_eqb g hb then hdrb ++ bodyb else [])) /\
    (forall g, exists xa xb, accepted g (performed s s2) (consumed s s2) = xa ++ xb /\
               (if bytes_eqb g ha then xa = frame pa else short_of pa xa) /\
               (if bytes_eqb g hb then xb = frame pb else short_of pb xb)) /\
    (reads_bounded s s2 ->
       ulen hdra = 4 /\ ulen bodya = be_dec_s hdra /\ ulen hdrb = 4 /\ ulen bodyb = be_dec_s hdrb).
Proof.
  intros t1 t2 s s1 s2 H1 H2 Hnd.
  destruct (C15_load_metadata_ok_all_streams _ _ _ H1 Hnd)
    as (ha & pa & mda & hdra & bodya & _ & Hpa & Fa & Hacca & Hda & Hrepa & Hbda & _ & Hotha & Hua & Hcfg).
  rewrite <- Hcfg in Hnd.
  destruct (C15_load_metadata_ok_all_streams _ _ _ H2 Hnd)
    as (hb & pb & mdb & hdrb & bodyb & _ & Hpb & Fb & Haccb & Hdb & Hrepb & Hbdb & _ & Hothb & Hub & _).
  rewrite Hcfg in Hpb.
  exists ha, pa, mda, hdra, bodya, hb, pb, mdb, hdrb, bodyb.
  split; [exact Hpa|]. split; [exact Hpb|]. split; [exact Hrepa|]. split; [exact Hrepb|].
  split; [exact Hua|]. split; [exact Hub|]. split; [eapply full_trans; eassumption|].
  split; [|split].
  - intros g. rewrite (delivered_trans g _ _ _ Fa (full_ext _ _ Fb)). f_equal.
    + destruct (bytes_eqb g ha) eqn:E; [apply bytes_eqb_eq in E; subst g; exact Hda|].
      apply bytes_eqb_neq in E. exact (proj2 (Hotha g E)).
    + destruct (bytes_eqb g hb) eqn:E; [apply bytes_eqb_eq in E; subst g; exact Hdb|].
      apply bytes_eqb_neq in E. exact (proj2 (Hothb g E)).
  - intros g. exists (accepted g (performed s s1) (consumed s s1)), (accepted g (performed s1 s2) (consumed s1 s2)).
    split; [exact (accepted_trans g _ _ _ Fa (full_ext _ _ Fb))|]. split.
    + destruct (bytes_eqb g ha) eqn:E; [apply bytes_eqb_eq in E; subst g; exact Hacca|].
      apply bytes_eqb_neq in E. exact (proj1 (Hotha g E)).
    + destruct (bytes_eqb g hb) eqn:E; [apply bytes_eqb_eq in E; subst g; exact Haccb|].
      apply bytes_eqb_neq in E. exact (proj1 (Hothb g E)).
  - intros B.
    destruct (Hbda (reads_bounded_prefix _ _ _ Fa (full_ext _ _ Fb) B)) as [A1 A2].
    destruct (Hbdb (reads_bounded_suffix _ _ _ Fa (full_ext _ _ Fb) B)) as [B1 B2].
    repeat split; assumption.
Qed.

(* two bootstrap hosts; first call: b1 connects, accepts 10 bytes and fails, b2 answers; second
   call: b1 (still pooled, 10 stray bytes on it) answers.  Both calls succeed; over the history b1
   delivered exactly the second reply, b2 exactly the first *)
Definition md_reply2 : bytes := enc_i32 2 ++ enc_i32 0 ++ enc_i32 0.   (* corr 2, no brokers, no topics *)
Example C15_load_metadata_twice_streams_ex :
  let s := mkst [OConn true; OWrote 10; OWriteFail IoOther; OConn true; OWrote 1000;
                 OData (enc_i32 (ulen md_reply)); OData md_reply;
                 OWrote 1000; OData (enc_i32 (ulen md_reply2)); OData md_reply2] cl_md2 in
  let '(r1, s1) := load_metadata [] s in
  let '(r2, s2) := load_metadata [] s1 in
  r1 = Ok tt /\ r2 = Ok tt /\ NoDup (hosts (cfg (cl s))) /\ script s2 = [] /\
  delivered h1 (performed s s2) (consumed s s2) = enc_i32 (ulen md_reply2) ++ md_reply2 /\
  delivered h2 (performed s s2) (consumed s s2) = enc_i32 (ulen md_reply) ++ md_reply /\
  accepted h2 (performed s s2) (consumed s s2) = frame (unres (enc_metadata_req 1 [] [])) /\
  accepted h1 (performed s s2) (consumed s s2)
  = firstn 10 (frame (unres (enc_metadata_req 1 [] []))) ++ frame (unres (enc_metadata_req 2 [] [])).
Proof.
  vm_compute. repeat split; try reflexivity.
  repeat constructor; cbn [In]; intros H; repeat (destruct H as [H|H]; [discriminate H|]); exact H.
Qed.

(* the hypothesis NoDup of the all-streams theorems is needed for their per-host form: with the
   same host listed twice, a first attempt that fails after 10 accepted bytes and a second attempt
   that succeeds both land on the one stream, which has then accepted more than the frame *)
Example C15_metadata_ok_all_streams_needs_nodup :
  let c : client := {| cfg := default_config [h1; h1]; cs := cs1; conns := [h1] |} in
  let s := mkst [OWrote 10; OWriteFail IoOther; OWrote 1000; OData (enc_i32 (ulen md_reply)); OData md_reply] c in
  let '(r, s') := fetch_metadata_hosts 1 [] [h1; h1] s in
  is_ok r = true /\
  accepted h1 (performed s s') (consumed s s')
  = firstn 10 (frame (unres (enc_metadata_req 1 [] []))) ++ frame (unres (enc_metadata_req 1 [] [])).
Proof. vm_compute. split; reflexivity. Qed.

(* Not done / not proved here:
   - the all-streams theorems assume the bootstrap hosts listed once (NoDup); without it the
     skipped attempts on the answering host's own stream precede the frame (example above) and the
     statement needs the per-attempt form (md_skipped + C15_send_outcomes);
   - read_faulted covers reads answered by an error or end-of-stream; a read answered by something
     that is no read answer at all (script item of another kind) gives EOutOfScript in the model
     and is not covered; connect failures and write faults legitimately move the loop on
     (C15_metadata_run) and are not "faults" of the call;
   - no forward theorem for load_metadata (script shape => Ok with the decoded reply applied);
     C15_exchange_forward / C15_send_forward give it for the exchange only;
   - the histories are composed for two metadata calls; a metadata call followed by a data call
     (fetch_offsets, produce) on the same host is not composed here (C15_offsets_chain /
     C15_chain_delivered give the data call's half);
   - what the BROKER does with the strict prefixes left on skipped hosts' streams is outside the
     model: the next frame written there follows the stray bytes (see the last line of
     C15_load_metadata_twice_streams_ex) - behaviour of the unchanged Rust code. *)

Print Assumptions C15_metadata_read_fault_is_error.
Print Assumptions C15_metadata_ok_all_streams.
Print Assumptions C15_load_metadata_is_fetch.
Print Assumptions C15_load_metadata_read_fault_is_error.
Print Assumptions C15_load_metadata_ok_all_streams.
Print Assumptions C15_load_metadata_twice_streams.
