(* C09: every request the client puts on the wire is a well-formed Kafka v0 frame that
   states what the caller asked for.  The model's encoders (Model/Requests.v) are tied to
   the independent grammar of Spec/ReqGrammar.v:  parse_frame (frame (enc_X args)) = abs_X args. *)
From KV Require Import Base.Prelude Gen.Consts Model.Codecs Model.Requests Model.ClientState.
From KV Require Import Spec.ReqGrammar Proofs.BytesFacts.
From Coq Require Import ZifyBool Sorted.
Ltac Zify.zify_post_hook ::= Z.div_mod_to_equations.

(* ======================================================================= *)
(* 0. outcome plumbing                                                      *)
(* ======================================================================= *)

Lemma bind_ok {A B} (r : res A) (f : A -> res B) b :
  bind r f = Ok b -> exists a, r = Ok a /\ f a = Ok b.
Proof. destruct r as [a|e|w]; cbn [bind]; intros H; [eauto|discriminate|discriminate]. Qed.

Lemma bind_err {A B} (r : res A) (f : A -> res B) e :
  bind r f = Err e -> r = Err e \/ exists a, r = Ok a /\ f a = Err e.
Proof. destruct r as [a|e'|w]; cbn [bind]; intros H; [eauto| |discriminate]. left. injection H as ->. reflexivity. Qed.

Lemma bind_panic {A B} (r : res A) (f : A -> res B) w :
  bind r f = Panic w -> r = Panic w \/ exists a, r = Ok a /\ f a = Panic w.
Proof. destruct r as [a|e'|w']; cbn [bind]; intros H; [eauto|discriminate|]. left. injection H as ->. reflexivity. Qed.

Lemma Ok_inj {A} (a b : A) : Ok a = Ok b -> a = b.
Proof. intros H. inversion H. reflexivity. Qed.
(* `injection` would also normalise the byte strings; this does not *)
Ltac ok_inj H := apply Ok_inj in H; match type of H with _ = ?b => subst b end.

(* an outcome that is Ok or the codec error, never a panic *)
Definition codec_only {A} (r : res A) : Prop :=
  match r with Ok _ => True | Err e => e = ECodec | Panic _ => False end.

Lemma codec_only_bind {A B} (r : res A) (f : A -> res B) :
  codec_only r -> (forall a, r = Ok a -> codec_only (f a)) -> codec_only (bind r f).
Proof. destruct r as [a|e|w]; cbn [bind codec_only]; intros H1 H2; auto. Qed.

Lemma codec_only_err {A} (r : res A) e : codec_only r -> r = Err e -> e = ECodec.
Proof. intros H ->. exact H. Qed.
Lemma codec_only_panic {A} (r : res A) w : codec_only r -> r <> Panic w.
Proof. intros H ->. exact H. Qed.

Lemma ulen_nonneg {A} (l : list A) : 0 <= ulen l.
Proof. unfold ulen. lia. Qed.
Lemma ulen_cons {A} (x : A) l : ulen (x :: l) = ulen l + 1.
Proof. unfold ulen. cbn [length]. lia. Qed.
Lemma ulen_app {A} (a b : list A) : ulen (a ++ b) = ulen a + ulen b.
Proof. unfold ulen. rewrite app_length. lia. Qed.

(* ======================================================================= *)
(* 1. the primitive parsers invert the primitive encoders                   *)
(* ======================================================================= *)

Lemma p_bind_some {A B} (p : parser A) (f : A -> parser B) bs a r :
  p bs = Some (a, r) -> p_bind p f bs = f a r.
Proof. intros H. unfold p_bind. rewrite H. reflexivity. Qed.

Lemma p_take_app n a r : length a = n -> p_take n (a ++ r) = Some (a, r).
Proof.
  intros H. unfold p_take. rewrite app_length, H.
  destruct (Nat.ltb (n + length r) n) eqn:E; [apply Nat.ltb_lt in E; lia|].
  rewrite firstn_app_exact, skipn_app_exact by exact H. reflexivity.
Qed.

Lemma p_int_app n z r : be_dec_s (be_enc n z) = z -> p_int n (be_enc n z ++ r) = Some (z, r).
Proof.
  intros H. unfold p_int. rewrite (p_bind_some _ _ _ _ _ (p_take_app n _ r (be_enc_length n z))).
  unfold p_ret. rewrite H. reflexivity.
Qed.

Lemma p_i16_app z r : in_i16 z -> p_i16 (enc_i16 z ++ r) = Some (z, r).
Proof. intros H. apply p_int_app. apply dec_enc_i16. exact H. Qed.
Lemma p_i32_app z r : in_i32 z -> p_i32 (enc_i32 z ++ r) = Some (z, r).
Proof. intros H. apply p_int_app. apply dec_enc_i32. exact H. Qed.
Lemma p_i64_app z r : in_i64 z -> p_i64 (enc_i64 z ++ r) = Some (z, r).
Proof. intros H. apply p_int_app. apply dec_enc_i64. exact H. Qed.

Lemma p_take_z_app a r : p_take_z (ulen a) (a ++ r) = Some (a, r).
Proof.
  unfold p_take_z, ulen. rewrite app_length.
  destruct ((Z.of_nat (length a) <? 0) || (Z.of_nat (length a + length r) <? Z.of_nat (length a))) eqn:E; [lia|].
  rewrite Nat2Z.id. rewrite firstn_app_exact, skipn_app_exact by reflexivity. reflexivity.
Qed.

Lemma enc_str_ok s b : enc_str s = Ok b -> b = enc_i16 (ulen s) ++ s /\ ulen s <= i16_max.
Proof.
  unfold enc_str. destruct (ulen s <=? i16_max) eqn:E; intros H; [|discriminate].
  ok_inj H. split; [reflexivity|lia].
Qed.

Lemma enc_bytes_ok s b : enc_bytes s = Ok b -> b = enc_i32 (ulen s) ++ s /\ ulen s <= i32_max.
Proof.
  unfold enc_bytes. destruct (ulen s <=? i32_max) eqn:E; intros H; [|discriminate].
  ok_inj H. split; [reflexivity|lia].
Qed.

Lemma p_string_enc s b r : enc_str s = Ok b -> p_string (b ++ r) = Some (Some s, r).
Proof.
  intros H. apply enc_str_ok in H. destruct H as [-> Hlen]. pose proof (ulen_nonneg s) as Hnn.
  unfold i16_max in Hlen. rewrite <- app_assoc. unfold p_string.
  erewrite p_bind_some by (apply p_i16_app; unfold in_i16; lia).
  destruct (ulen s =? -1) eqn:E; [lia|].
  erewrite p_bind_some by apply p_take_z_app. reflexivity.
Qed.

Lemma p_str_enc s b r : enc_str s = Ok b -> p_str (b ++ r) = Some (s, r).
Proof.
  intros H. unfold p_str. erewrite p_bind_some by (apply p_string_enc; exact H). reflexivity.
Qed.

Lemma enc_str_len s b : enc_str s = Ok b -> (0 < length b)%nat.
Proof.
  intros H. apply enc_str_ok in H. destruct H as [-> _]. rewrite app_length.
  unfold enc_i16. rewrite be_enc_length. lia.
Qed.

Lemma p_sized_app a r : ulen a <= i32_max -> p_sized (enc_i32 (ulen a) ++ a ++ r) = Some (a, r).
Proof.
  intros H. pose proof (ulen_nonneg a) as Hnn. unfold i32_max in H. unfold p_sized.
  erewrite p_bind_some by (apply p_i32_app; unfold in_i32; lia). apply p_take_z_app.
Qed.

(* ======================================================================= *)
(* 2. arrays: p_array inverts enc_array as soon as the element parser       *)
(*    inverts the element encoder on any suffix                              *)
(* ======================================================================= *)

Lemma enc_all_cons_ok {A} (f : A -> res bytes) x xs body :
  enc_all f (x :: xs) = Ok body ->
  exists a b, f x = Ok a /\ enc_all f xs = Ok b /\ body = a ++ b.
Proof.
  cbn [enc_all]. intros H. apply bind_ok in H. destruct H as [a [Ha H]].
  apply bind_ok in H. destruct H as [b [Hb H]]. ok_inj H. eauto.
Qed.

Section Arrays.
  Context {A B : Type}.
  Variable enc : A -> res bytes.
  Variable p : parser B.
  Variable abs : A -> B.
  Variable wf : A -> Prop.
  Hypothesis elem : forall x b rest, wf x -> enc x = Ok b ->
                      p (b ++ rest) = Some (abs x, rest) /\ (0 < length b)%nat.

  Lemma p_seq_enc_all : forall xs body rest fuel,
    Forall wf xs -> enc_all enc xs = Ok body -> (length body <= fuel)%nat ->
    p_seq p fuel (ulen xs) (body ++ rest) = Some (map abs xs, rest).
  Proof.
    induction xs as [|x xs IH]; intros body rest fuel Hwf Henc Hfuel.
    - cbn [enc_all] in Henc. ok_inj Henc. destruct fuel; reflexivity.
    - apply enc_all_cons_ok in Henc. destruct Henc as [a [b [Ha [Hb ->]]]].
      inversion Hwf as [|x' xs' Hx Hxs]; subst x' xs'.
      destruct (elem x a (b ++ rest) Hx Ha) as [Hp Hlen].
      rewrite app_length in Hfuel. destruct fuel as [|f]; [lia|].
      cbn [p_seq map]. pose proof (ulen_nonneg xs) as Hnn. rewrite ulen_cons.
      destruct (ulen xs + 1 =? 0) eqn:E; [lia|].
      rewrite <- app_assoc, Hp. replace (ulen xs + 1 - 1) with (ulen xs) by lia.
      rewrite (IH b rest f Hxs Hb) by lia. reflexivity.
  Qed.

  Lemma p_array_enc_all xs body rest :
    Forall wf xs -> ulen xs <= i32_max -> enc_all enc xs = Ok body ->
    p_array p (enc_i32 (ulen xs) ++ body ++ rest) = Some (map abs xs, rest).
  Proof.
    intros Hwf Hlen Henc. pose proof (ulen_nonneg xs) as Hnn. unfold i32_max in Hlen.
    unfold p_array. rewrite p_i32_app by (unfold in_i32; lia).
    destruct (ulen xs <? 0) eqn:E; [lia|].
    apply p_seq_enc_all; [exact Hwf|exact Henc|]. rewrite app_length. lia.
  Qed.

  Lemma p_array_enc_array xs b rest :
    Forall wf xs -> enc_array enc xs = Ok b -> p_array p (b ++ rest) = Some (map abs xs, rest).
  Proof.
    intros Hwf H. unfold enc_array in H. destruct (ulen xs <=? i32_max) eqn:E; [|discriminate].
    apply bind_ok in H. destruct H as [body [Hbody H]]. ok_inj H.
    rewrite <- app_assoc. apply p_array_enc_all; [exact Hwf|lia|exact Hbody].
  Qed.

  Lemma p_array_enc_array_unchecked xs b rest :
    Forall wf xs -> ulen xs <= i32_max -> enc_array_unchecked enc xs = Ok b ->
    p_array p (b ++ rest) = Some (map abs xs, rest).
  Proof.
    intros Hwf Hlen H. unfold enc_array_unchecked in H.
    apply bind_ok in H. destruct H as [body [Hbody H]]. ok_inj H.
    rewrite <- app_assoc. apply p_array_enc_all; [exact Hwf|exact Hlen|exact Hbody].
  Qed.
End Arrays.

Lemma enc_array_len {A} (f : A -> res bytes) xs b : enc_array f xs = Ok b -> (0 < length b)%nat.
Proof.
  unfold enc_array. destruct (ulen xs <=? i32_max); [|discriminate]. intros H.
  apply bind_ok in H. destruct H as [body [_ H]]. ok_inj H.
  rewrite app_length. unfold enc_i32. rewrite be_enc_length. lia.
Qed.

(* ======================================================================= *)
(* 3. when and why the building blocks fail                                  *)
(* ======================================================================= *)

Definition long_str (s : bytes) : Prop := i16_max < ulen s.          (* does not fit an int16 length *)
Definition long_arr {A} (l : list A) : Prop := i32_max < ulen l.    (* does not fit an int32 count  *)

Lemma enc_str_err s e : enc_str s = Err e -> e = ECodec /\ long_str s.
Proof.
  unfold enc_str, long_str. destruct (ulen s <=? i16_max) eqn:E; intros H; [discriminate|].
  inversion H. split; [reflexivity|lia].
Qed.
Lemma enc_str_fits s : ulen s <= i16_max -> enc_str s = Ok (enc_i16 (ulen s) ++ s).
Proof. intros H. unfold enc_str. destruct (ulen s <=? i16_max) eqn:E; [reflexivity|lia]. Qed.
Lemma enc_bytes_err s e : enc_bytes s = Err e -> e = ECodec /\ long_arr s.
Proof.
  unfold enc_bytes, long_arr. destruct (ulen s <=? i32_max) eqn:E; intros H; [discriminate|].
  inversion H. split; [reflexivity|lia].
Qed.
Lemma enc_bytes_fits s : ulen s <= i32_max -> enc_bytes s = Ok (enc_i32 (ulen s) ++ s).
Proof. intros H. unfold enc_bytes. destruct (ulen s <=? i32_max) eqn:E; [reflexivity|lia]. Qed.

Lemma codec_only_enc_str s : codec_only (enc_str s).
Proof. unfold enc_str. destruct (ulen s <=? i16_max); exact I || reflexivity. Qed.
Lemma codec_only_enc_bytes s : codec_only (enc_bytes s).
Proof. unfold enc_bytes. destruct (ulen s <=? i32_max); exact I || reflexivity. Qed.

Lemma codec_only_enc_all {A} (f : A -> res bytes) xs :
  (forall x, In x xs -> codec_only (f x)) -> codec_only (enc_all f xs).
Proof.
  induction xs as [|x xs IH]; intros Hf; cbn [enc_all]; [exact I|].
  apply codec_only_bind; [apply Hf; left; reflexivity|]. intros a _.
  apply codec_only_bind; [apply IH; intros y Hy; apply Hf; right; exact Hy|]. intros b _. exact I.
Qed.
Lemma codec_only_enc_array {A} (f : A -> res bytes) xs :
  (forall x, In x xs -> codec_only (f x)) -> codec_only (enc_array f xs).
Proof.
  intros Hf. unfold enc_array. destruct (ulen xs <=? i32_max); [|reflexivity].
  apply codec_only_bind; [apply codec_only_enc_all; exact Hf|]. intros b _. exact I.
Qed.
Lemma codec_only_enc_array_unchecked {A} (f : A -> res bytes) xs :
  (forall x, In x xs -> codec_only (f x)) -> codec_only (enc_array_unchecked f xs).
Proof.
  intros Hf. unfold enc_array_unchecked.
  apply codec_only_bind; [apply codec_only_enc_all; exact Hf|]. intros b _. exact I.
Qed.

Lemma enc_all_err {A} (f : A -> res bytes) xs e :
  enc_all f xs = Err e -> Exists (fun x => f x = Err e) xs.
Proof.
  induction xs as [|x xs IH]; cbn [enc_all]; intros H; [discriminate|].
  apply bind_err in H. destruct H as [H|[a [Ha H]]]; [left; exact H|].
  apply bind_err in H. destruct H as [H|[b [Hb H]]]; [right; apply IH; exact H|discriminate].
Qed.
Lemma enc_array_err {A} (f : A -> res bytes) xs e :
  enc_array f xs = Err e -> long_arr xs \/ Exists (fun x => f x = Err e) xs.
Proof.
  unfold enc_array, long_arr. destruct (ulen xs <=? i32_max) eqn:E; intros H; [|left; lia].
  apply bind_err in H. destruct H as [H|[b [_ H]]]; [right; apply enc_all_err; exact H|discriminate].
Qed.
Lemma enc_array_unchecked_err {A} (f : A -> res bytes) xs e :
  enc_array_unchecked f xs = Err e -> Exists (fun x => f x = Err e) xs.
Proof.
  unfold enc_array_unchecked. intros H.
  apply bind_err in H. destruct H as [H|[b [_ H]]]; [apply enc_all_err; exact H|discriminate].
Qed.

Lemma enc_all_ok_iff {A} (f : A -> res bytes) xs :
  (exists b, enc_all f xs = Ok b) <-> Forall (fun x => exists b, f x = Ok b) xs.
Proof.
  induction xs as [|x xs IH]; cbn [enc_all].
  - split; [intros _; constructor|intros _; eexists; reflexivity].
  - split.
    + intros [b H]. apply bind_ok in H. destruct H as [a [Ha H]].
      apply bind_ok in H. destruct H as [b' [Hb' _]].
      constructor; [eexists; exact Ha|apply IH; eexists; exact Hb'].
    + intros H. inversion H as [|x' xs' [a Ha] Hxs]; subst x' xs'.
      apply IH in Hxs. destruct Hxs as [b Hb]. rewrite Ha, Hb. cbn [bind]. eexists; reflexivity.
Qed.
Lemma enc_array_ok_iff {A} (f : A -> res bytes) xs :
  (exists b, enc_array f xs = Ok b) <-> ulen xs <= i32_max /\ Forall (fun x => exists b, f x = Ok b) xs.
Proof.
  unfold enc_array. destruct (ulen xs <=? i32_max) eqn:E.
  - rewrite <- enc_all_ok_iff. split.
    + intros [b H]. apply bind_ok in H. destruct H as [a [Ha _]]. split; [lia|eexists; exact Ha].
    + intros [_ [b Hb]]. rewrite Hb. cbn [bind]. eexists; reflexivity.
  - split; [intros [b H]; discriminate|intros [H _]; lia].
Qed.
Lemma enc_array_unchecked_ok_iff {A} (f : A -> res bytes) xs :
  (exists b, enc_array_unchecked f xs = Ok b) <-> Forall (fun x => exists b, f x = Ok b) xs.
Proof.
  unfold enc_array_unchecked. rewrite <- enc_all_ok_iff. split.
  - intros [b H]. apply bind_ok in H. destruct H as [a [Ha _]]. eexists; exact Ha.
  - intros [b Hb]. rewrite Hb. cbn [bind]. eexists; reflexivity.
Qed.
Lemma enc_str_ok_iff s : (exists b, enc_str s = Ok b) <-> ulen s <= i16_max.
Proof.
  split; [intros [b H]; apply enc_str_ok in H; tauto|intros H; rewrite enc_str_fits by exact H; eexists; reflexivity].
Qed.

(* ======================================================================= *)
(* 4. header and frame                                                       *)
(* ======================================================================= *)

Definition mk_hdr (key ver corr : Z) (cid : bytes) : hdr :=
  {| api_key := key; api_version := ver; correlation_id := corr; client_id := Some cid |}.

Lemma p_header_enc key ver corr cid h rest :
  in_i16 key -> in_i16 ver -> in_i32 corr -> enc_header key ver corr cid = Ok h ->
  p_header (h ++ rest) = Some (mk_hdr key ver corr cid, rest).
Proof.
  intros Hk Hv Hc H. unfold enc_header in H. apply bind_ok in H. destruct H as [c [Hcid H]]. ok_inj H.
  rewrite <- !app_assoc. unfold p_header.
  erewrite p_bind_some by (apply p_i16_app; exact Hk).
  erewrite p_bind_some by (apply p_i16_app; exact Hv).
  erewrite p_bind_some by (apply p_i32_app; exact Hc).
  erewrite p_bind_some by (apply p_string_enc; exact Hcid). reflexivity.
Qed.

Lemma enc_header_err key ver corr cid e : enc_header key ver corr cid = Err e -> long_str cid.
Proof.
  unfold enc_header. intros H. apply bind_err in H. destruct H as [H|[c [_ H]]]; [|discriminate].
  apply enc_str_err in H. tauto.
Qed.
Lemma codec_only_enc_header key ver corr cid : codec_only (enc_header key ver corr cid).
Proof. unfold enc_header. apply codec_only_bind; [apply codec_only_enc_str|]. intros c _. exact I. Qed.
Lemma enc_header_ok_iff key ver corr cid : (exists h, enc_header key ver corr cid = Ok h) <-> ulen cid <= i16_max.
Proof.
  rewrite <- enc_str_ok_iff. unfold enc_header. split.
  - intros [h H]. apply bind_ok in H. destruct H as [c [Hc _]]. eexists; exact Hc.
  - intros [c Hc]. rewrite Hc. cbn [bind]. eexists; reflexivity.
Qed.

(* a request = header ++ body: the header parser hands the body to the right body parser *)
Lemma parse_request_enc key ver corr cid h body rest b :
  in_i16 key -> in_i16 ver -> in_i32 corr -> enc_header key ver corr cid = Ok h ->
  p_body key ver (body ++ rest) = Some (b, rest) ->
  parse_request ((h ++ body) ++ rest) = Some (mk_hdr key ver corr cid, b, rest).
Proof.
  intros Hk Hv Hc Hh Hb. unfold parse_request. rewrite <- app_assoc.
  rewrite (p_header_enc key ver corr cid h (body ++ rest) Hk Hv Hc Hh).
  cbn [api_key api_version mk_hdr]. rewrite Hb. reflexivity.
Qed.

(* the 4-byte size prefix: well-formed as long as the payload length fits an int32 *)
Lemma parse_frame_of_request bs h b :
  ulen bs <= i32_max -> parse_request (bs ++ []) = Some (h, b, []) -> parse_frame (frame bs) = Some (h, b).
Proof.
  intros Hlen H. rewrite app_nil_r in H. pose proof (ulen_nonneg bs) as Hnn. unfold i32_max in Hlen.
  unfold parse_frame, frame. rewrite p_i32_app by (unfold in_i32; lia).
  fold (ulen bs). destruct ((0 <=? ulen bs) && (ulen bs =? ulen bs)) eqn:E; [|lia].
  rewrite H. reflexivity.
Qed.

(* the size prefix is written with an unchecked `as i32`: a payload of 2^31 bytes or more
   gets a negative size, which no broker accepts *)
Lemma C09_frame_oversize bs : i32_max < ulen bs < 2 ^ 32 -> parse_frame (frame bs) = None.
Proof.
  intros H. unfold i32_max in H. unfold parse_frame, frame.
  assert (Hp : p_i32 (enc_i32 (ulen bs) ++ bs) = Some (ulen bs - 2 ^ 32, bs)).
  { unfold p_i32, p_int, enc_i32.
    rewrite (p_bind_some _ _ _ _ _ (p_take_app 4 _ bs (be_enc_length 4 (ulen bs)))).
    unfold p_ret. rewrite be_dec_s_enc_wrap by lia. f_equal. f_equal.
    change (8 * Z.of_nat 4) with 32. unfold wrap_s. change (2 ^ (32 - 1)) with 2147483648.
    rewrite Z.mod_small by lia. destruct (ulen bs <? 2147483648) eqn:E; lia. }
  rewrite Hp. destruct ((0 <=? ulen bs - 2 ^ 32) && (Z.of_nat (length bs) =? ulen bs - 2 ^ 32)) eqn:E; [lia|reflexivity].
Qed.

(* ======================================================================= *)
(* 5. Metadata (key 3, version 0)                                            *)
(* ======================================================================= *)

Lemma Forall_True {A} (l : list A) : Forall (fun _ => True) l.
Proof. apply Forall_forall. intros x _. exact I. Qed.

Lemma elem_str : forall x b rest, True -> enc_str x = Ok b ->
  p_str (b ++ rest) = Some ((fun t : bytes => t) x, rest) /\ (0 < length b)%nat.
Proof. intros x b rest _ H. split; [apply p_str_enc; exact H|eapply enc_str_len; exact H]. Qed.

Theorem C09_metadata_request : forall topics corr cid bs rest, in_i32 corr ->
  enc_metadata_req corr cid topics = Ok bs ->
  parse_request (bs ++ rest) = Some (mk_hdr 3 0 corr cid, MetadataRequest topics, rest).
Proof.
  intros topics corr cid bs rest Hc H. unfold enc_metadata_req in H.
  apply bind_ok in H. destruct H as [h [Hh H]]. apply bind_ok in H. destruct H as [ts [Hts H]]. ok_inj H.
  apply (parse_request_enc API_KEY_METADATA API_VERSION corr cid h ts rest); [unfold in_i16, API_KEY_METADATA; lia|unfold in_i16, API_VERSION; lia|exact Hc|exact Hh|].
  change (p_body API_KEY_METADATA API_VERSION) with p_metadata_v0. unfold p_metadata_v0.
  erewrite p_bind_some by (eapply (p_array_enc_array enc_str p_str (fun t => t) (fun _ => True) elem_str); [apply Forall_True|exact Hts]).
  rewrite map_id. reflexivity.
Qed.

Theorem C09_metadata_frame : forall topics corr cid bs, in_i32 corr -> ulen bs <= i32_max ->
  enc_metadata_req corr cid topics = Ok bs ->
  parse_frame (frame bs) =
  Some ({| api_key := 3; api_version := 0; correlation_id := corr; client_id := Some cid |}, MetadataRequest topics).
Proof.
  intros topics corr cid bs Hc Hlen H. apply parse_frame_of_request; [exact Hlen|].
  apply C09_metadata_request; assumption.
Qed.

(* Ok or ECodec, never a panic: discharged structurally *)
Ltac codec_tac :=
  repeat first
    [ exact I
    | reflexivity
    | apply codec_only_enc_header
    | apply codec_only_enc_str
    | apply codec_only_enc_bytes
    | apply codec_only_bind; [|intros ? _]
    | apply codec_only_enc_array; intros ? _
    | apply codec_only_enc_array_unchecked; intros ? _
    | match goal with |- codec_only (match ?x with (_, _) => _ end) => destruct x end ].

Lemma Exists_str_err (l : list bytes) e : Exists (fun x => enc_str x = Err e) l -> Exists long_str l.
Proof. apply Exists_impl. intros s H. apply enc_str_err in H. tauto. Qed.

Lemma codec_only_metadata corr cid topics : codec_only (enc_metadata_req corr cid topics).
Proof. unfold enc_metadata_req. codec_tac. Qed.

Theorem C09_metadata_reject : forall topics corr cid e,
  enc_metadata_req corr cid topics = Err e ->
  e = ECodec /\ (long_str cid \/ Exists long_str topics \/ long_arr topics).
Proof.
  intros topics corr cid e H. split; [exact (codec_only_err _ _ (codec_only_metadata _ _ _) H)|].
  unfold enc_metadata_req in H.
  apply bind_err in H. destruct H as [H|[h [_ H]]]; [left; eapply enc_header_err; exact H|].
  apply bind_err in H. destruct H as [H|[ts [_ H]]]; [|discriminate].
  apply enc_array_err in H. destruct H as [H|H]; [tauto|].
  right; left. eapply Exists_str_err; exact H.
Qed.

Theorem C09_metadata_no_panic : forall topics corr cid w, enc_metadata_req corr cid topics <> Panic w.
Proof. intros. apply codec_only_panic. apply codec_only_metadata. Qed.

(* ======================================================================= *)
(* 6. GroupCoordinator (key 10, version 0)                                   *)
(* ======================================================================= *)

Theorem C09_group_coordinator_request : forall group corr cid bs rest, in_i32 corr ->
  enc_group_coordinator_req corr cid group = Ok bs ->
  parse_request (bs ++ rest) = Some (mk_hdr 10 0 corr cid, GroupCoordinatorRequest group, rest).
Proof.
  intros group corr cid bs rest Hc H. unfold enc_group_coordinator_req in H.
  apply bind_ok in H. destruct H as [h [Hh H]]. apply bind_ok in H. destruct H as [g [Hg H]]. ok_inj H.
  apply (parse_request_enc API_KEY_GROUP_COORDINATOR API_VERSION corr cid h g rest);
    [unfold in_i16, API_KEY_GROUP_COORDINATOR; lia|unfold in_i16, API_VERSION; lia|exact Hc|exact Hh|].
  change (p_body API_KEY_GROUP_COORDINATOR API_VERSION) with p_group_coordinator_v0.
  unfold p_group_coordinator_v0. erewrite p_bind_some by (apply p_str_enc; exact Hg). reflexivity.
Qed.

Theorem C09_group_coordinator_frame : forall group corr cid bs, in_i32 corr -> ulen bs <= i32_max ->
  enc_group_coordinator_req corr cid group = Ok bs ->
  parse_frame (frame bs) =
  Some ({| api_key := 10; api_version := 0; correlation_id := corr; client_id := Some cid |},
        GroupCoordinatorRequest group).
Proof.
  intros group corr cid bs Hc Hlen H. apply parse_frame_of_request; [exact Hlen|].
  apply C09_group_coordinator_request; assumption.
Qed.

Lemma codec_only_group_coordinator corr cid group : codec_only (enc_group_coordinator_req corr cid group).
Proof. unfold enc_group_coordinator_req. codec_tac. Qed.

Theorem C09_group_coordinator_reject : forall group corr cid e,
  enc_group_coordinator_req corr cid group = Err e -> e = ECodec /\ (long_str cid \/ long_str group).
Proof.
  intros group corr cid e H. split; [exact (codec_only_err _ _ (codec_only_group_coordinator _ _ _) H)|].
  unfold enc_group_coordinator_req in H.
  apply bind_err in H. destruct H as [H|[h [_ H]]]; [left; eapply enc_header_err; exact H|].
  apply bind_err in H. destruct H as [H|[ts [_ H]]]; [|discriminate].
  apply enc_str_err in H. tauto.
Qed.

Theorem C09_group_coordinator_no_panic : forall group corr cid w,
  enc_group_coordinator_req corr cid group <> Panic w.
Proof. intros. apply codec_only_panic. apply codec_only_group_coordinator. Qed.

(* ======================================================================= *)
(* 7. [TopicName [per-partition entry]]                                      *)
(* ======================================================================= *)

(* what the caller asked for, entry by entry, in the caller's order *)
Definition abs_by_topic {P Q} (absp : P -> Q) (tps : list (bytes * list P)) : by_topic Q :=
  map (fun tp => (fst tp, map absp (snd tp))) tps.

Definition wf_by_topic {P} (wfp : P -> Prop) (tps : list (bytes * list P)) : Prop :=
  Forall (fun tp => Forall wfp (snd tp)) tps.

(* the two topic-entry encoders that occur in Model/Requests.v *)
Definition enc_topic_checked {P} (encp : P -> res bytes) : bytes * list P -> res bytes :=
  fun '(t, ps) => let* n := enc_str t in let* b := enc_array encp ps in Ok (n ++ b).
Definition enc_topic_unchecked {P} (encp : P -> res bytes) : bytes * list P -> res bytes :=
  fun '(t, ps) => let* n := enc_str t in let* b := enc_array_unchecked encp ps in Ok (n ++ b).

Lemma enc_tps_eq {P} (encp : P -> res bytes) tps : enc_tps encp tps = enc_array (enc_topic_checked encp) tps.
Proof. reflexivity. Qed.

Definition p_topic {Q} (pp : parser Q) : parser (bytes * list Q) :=
  let? t := p_str in let? ps := p_array pp in p_ret (t, ps).
Lemma p_by_topic_eq {Q} (pp : parser Q) : p_by_topic pp = p_array (p_topic pp).
Proof. reflexivity. Qed.

Section ByTopic.
  Context {P Q : Type}.
  Variable encp : P -> res bytes.
  Variable pp : parser Q.
  Variable absp : P -> Q.
  Variable wfp : P -> Prop.
  Hypothesis elemp : forall x b rest, wfp x -> encp x = Ok b ->
                       pp (b ++ rest) = Some (absp x, rest) /\ (0 < length b)%nat.

  Lemma elem_topic_checked : forall tp b rest,
    Forall wfp (snd tp) -> enc_topic_checked encp tp = Ok b ->
    p_topic pp (b ++ rest) = Some ((fst tp, map absp (snd tp)), rest) /\ (0 < length b)%nat.
  Proof.
    intros [t ps] b rest Hwf H. cbn [fst snd] in *. unfold enc_topic_checked in H.
    apply bind_ok in H. destruct H as [n [Hn H]]. apply bind_ok in H. destruct H as [a [Ha H]]. ok_inj H.
    split.
    - rewrite <- app_assoc. unfold p_topic.
      erewrite p_bind_some by (apply p_str_enc; exact Hn).
      erewrite p_bind_some by (eapply (p_array_enc_array encp pp absp wfp elemp); [exact Hwf|exact Ha]).
      reflexivity.
    - rewrite app_length. apply enc_str_len in Hn. lia.
  Qed.

  Lemma elem_topic_unchecked : forall tp b rest,
    Forall wfp (snd tp) /\ ulen (snd tp) <= i32_max -> enc_topic_unchecked encp tp = Ok b ->
    p_topic pp (b ++ rest) = Some ((fst tp, map absp (snd tp)), rest) /\ (0 < length b)%nat.
  Proof.
    intros [t ps] b rest [Hwf Hlen] H. cbn [fst snd] in *. unfold enc_topic_unchecked in H.
    apply bind_ok in H. destruct H as [n [Hn H]]. apply bind_ok in H. destruct H as [a [Ha H]]. ok_inj H.
    split.
    - rewrite <- app_assoc. unfold p_topic.
      erewrite p_bind_some by (apply p_str_enc; exact Hn).
      erewrite p_bind_some by (eapply (p_array_enc_array_unchecked encp pp absp wfp elemp); [exact Hwf|exact Hlen|exact Ha]).
      reflexivity.
    - rewrite app_length. apply enc_str_len in Hn. lia.
  Qed.

  (* OffsetRequest, ListOffsets, OffsetFetch, OffsetCommit: both levels length-checked *)
  Lemma p_by_topic_enc_tps tps b rest :
    wf_by_topic wfp tps -> enc_tps encp tps = Ok b ->
    p_by_topic pp (b ++ rest) = Some (abs_by_topic absp tps, rest).
  Proof.
    intros Hwf H. rewrite enc_tps_eq in H. rewrite p_by_topic_eq.
    exact (p_array_enc_array _ _ _ _ elem_topic_checked tps b rest Hwf H).
  Qed.

  (* Fetch: neither level checked *)
  Lemma p_by_topic_enc_unchecked tps b rest :
    Forall (fun tp => Forall wfp (snd tp) /\ ulen (snd tp) <= i32_max) tps -> ulen tps <= i32_max ->
    enc_array_unchecked (enc_topic_unchecked encp) tps = Ok b ->
    p_by_topic pp (b ++ rest) = Some (abs_by_topic absp tps, rest).
  Proof.
    intros Hwf Hlen H. rewrite p_by_topic_eq.
    exact (p_array_enc_array_unchecked _ _ _ _ elem_topic_unchecked tps b rest Hwf Hlen H).
  Qed.

  (* Produce: topics checked, partitions not *)
  Lemma p_by_topic_enc_mixed tps b rest :
    Forall (fun tp => Forall wfp (snd tp) /\ ulen (snd tp) <= i32_max) tps ->
    enc_array (enc_topic_unchecked encp) tps = Ok b ->
    p_by_topic pp (b ++ rest) = Some (abs_by_topic absp tps, rest).
  Proof.
    intros Hwf H. rewrite p_by_topic_eq.
    exact (p_array_enc_array _ _ _ _ elem_topic_unchecked tps b rest Hwf H).
  Qed.
End ByTopic.

(* why a by-topic body is refused *)
Lemma enc_topic_checked_err {P} (encp : P -> res bytes) tp e :
  enc_topic_checked encp tp = Err e ->
  long_str (fst tp) \/ long_arr (snd tp) \/ Exists (fun p => encp p = Err e) (snd tp).
Proof.
  destruct tp as [t ps]. cbn [fst snd]. unfold enc_topic_checked. intros H.
  apply bind_err in H. destruct H as [H|[n [_ H]]]; [left; apply enc_str_err in H; tauto|].
  apply bind_err in H. destruct H as [H|[a [_ H]]]; [|discriminate].
  apply enc_array_err in H. tauto.
Qed.
Lemma enc_topic_unchecked_err {P} (encp : P -> res bytes) tp e :
  enc_topic_unchecked encp tp = Err e ->
  long_str (fst tp) \/ Exists (fun p => encp p = Err e) (snd tp).
Proof.
  destruct tp as [t ps]. cbn [fst snd]. unfold enc_topic_unchecked. intros H.
  apply bind_err in H. destruct H as [H|[n [_ H]]]; [left; apply enc_str_err in H; tauto|].
  apply bind_err in H. destruct H as [H|[a [_ H]]]; [|discriminate].
  apply enc_array_unchecked_err in H. tauto.
Qed.

(* the reason, for per-partition encoders that cannot fail *)
Definition tps_too_long {P} (tps : list (bytes * list P)) : Prop :=
  long_arr tps \/ Exists (fun tp => long_str (fst tp) \/ long_arr (snd tp)) tps.

Lemma enc_tps_err {P} (encp : P -> res bytes) tps e :
  (forall p, encp p <> Err e) -> enc_tps encp tps = Err e -> tps_too_long tps.
Proof.
  intros Hinf H. rewrite enc_tps_eq in H. apply enc_array_err in H. destruct H as [H|H]; [left; exact H|].
  right. revert H. apply Exists_impl. intros tp H. apply enc_topic_checked_err in H.
  destruct H as [H|[H|H]]; [tauto|tauto|]. exfalso. apply Exists_exists in H. destruct H as [p [_ Hp]].
  exact (Hinf p Hp).
Qed.

Lemma codec_only_enc_tps {P} (encp : P -> res bytes) tps :
  (forall p, codec_only (encp p)) -> codec_only (enc_tps encp tps).
Proof.
  intros Hp. rewrite enc_tps_eq. apply codec_only_enc_array. intros [t ps] _.
  unfold enc_topic_checked. apply codec_only_bind; [apply codec_only_enc_str|intros n _].
  apply codec_only_bind; [apply codec_only_enc_array; intros p _; apply Hp|intros b _; exact I].
Qed.

Definition tps_fit {P} (tps : list (bytes * list P)) : Prop :=
  ulen tps <= i32_max /\ Forall (fun tp => ulen (fst tp) <= i16_max /\ ulen (snd tp) <= i32_max) tps.

Lemma enc_tps_ok_iff {P} (encp : P -> res bytes) tps :
  (forall p, exists b, encp p = Ok b) -> ((exists b, enc_tps encp tps = Ok b) <-> tps_fit tps).
Proof.
  intros Hinf. rewrite enc_tps_eq, enc_array_ok_iff. unfold tps_fit.
  apply and_iff_compat_l. split; apply Forall_impl; intros [t ps]; cbn [fst snd]; unfold enc_topic_checked.
  - intros [b H]. apply bind_ok in H. destruct H as [n [Hn H]]. apply bind_ok in H. destruct H as [a [Ha _]].
    split; [apply enc_str_ok in Hn; tauto|].
    assert (Hex : exists a, enc_array encp ps = Ok a) by (eexists; exact Ha).
    apply enc_array_ok_iff in Hex. tauto.
  - intros [Ht Hps]. rewrite enc_str_fits by exact Ht. cbn [bind].
    assert (Hex : exists a, enc_array encp ps = Ok a).
    { apply enc_array_ok_iff. split; [exact Hps|]. apply Forall_forall. intros p _. apply Hinf. }
    destruct Hex as [a Ha]. rewrite Ha. cbn [bind]. eexists; reflexivity.
Qed.

Lemma bind_ok_iff {A B} (r : res A) (f : A -> res B) (Q : Prop) :
  (forall a, (exists b, f a = Ok b) <-> Q) -> ((exists b, bind r f = Ok b) <-> (exists a, r = Ok a) /\ Q).
Proof.
  intros H. destruct r as [a|e|w]; cbn [bind].
  - rewrite H. split; [intros HQ; split; [eexists; reflexivity|exact HQ]|tauto].
  - split; [intros [b Hb]; discriminate|intros [[a Ha] _]; discriminate].
  - split; [intros [b Hb]; discriminate|intros [[a Ha] _]; discriminate].
Qed.
Lemma ok_ex_iff {A} (a : A) : (exists b, Ok a = Ok b) <-> True.
Proof. split; [intros _; exact I|intros _; eexists; reflexivity]. Qed.

(* ======================================================================= *)
(* 8. Offsets v0 (key 2, version 0) and ListOffsets v1 (key 2, version 1)    *)
(* ======================================================================= *)

(* a (partition, time) or (partition, offset) pair within its wire widths *)
Definition wf_p32_v64 (x : Z * Z) : Prop := in_i32 (fst x) /\ in_i64 (snd x).

Definition m_offset_part : Z * Z -> res bytes :=
  fun '(p, time) => Ok (enc_i32 p ++ enc_i64 time ++ enc_i32 1).
Definition g_offset_part : parser (Z * Z * Z) :=
  let? p := p_i32 in let? time := p_i64 in let? maxn := p_i32 in p_ret (p, time, maxn).
(* the client always asks for one offset *)
Definition abs_offset_part (x : Z * Z) : Z * Z * Z := (fst x, snd x, 1).

Lemma elem_offset_part : forall x b rest, wf_p32_v64 x -> m_offset_part x = Ok b ->
  g_offset_part (b ++ rest) = Some (abs_offset_part x, rest) /\ (0 < length b)%nat.
Proof.
  intros [p time] b rest [Hp Ht] H. cbn [fst snd] in *. unfold m_offset_part in H. ok_inj H. split.
  - rewrite <- !app_assoc. unfold g_offset_part.
    erewrite p_bind_some by (apply p_i32_app; exact Hp).
    erewrite p_bind_some by (apply p_i64_app; exact Ht).
    erewrite p_bind_some by (apply p_i32_app; unfold in_i32; lia). reflexivity.
  - rewrite app_length. unfold enc_i32 at 1. rewrite be_enc_length. lia.
Qed.

Theorem C09_offset_request : forall tps corr cid bs rest, wf_by_topic wf_p32_v64 tps -> in_i32 corr ->
  enc_offset_req corr cid tps = Ok bs ->
  parse_request (bs ++ rest) =
  Some (mk_hdr 2 0 corr cid, OffsetRequest (-1) (abs_by_topic abs_offset_part tps), rest).
Proof.
  intros tps corr cid bs rest Hwf Hc H. unfold enc_offset_req in H.
  apply bind_ok in H. destruct H as [h [Hh H]]. apply bind_ok in H. destruct H as [b [Hb H]]. ok_inj H.
  apply (parse_request_enc API_KEY_OFFSET API_VERSION corr cid h _ rest);
    [unfold in_i16, API_KEY_OFFSET; lia|unfold in_i16, API_VERSION; lia|exact Hc|exact Hh|].
  change (p_body API_KEY_OFFSET API_VERSION) with p_offsets_v0. unfold p_offsets_v0.
  rewrite <- !app_assoc.
  erewrite p_bind_some by (apply p_i32_app; unfold in_i32; lia).
  erewrite p_bind_some by (eapply (p_by_topic_enc_tps _ _ _ _ elem_offset_part); [exact Hwf|exact Hb]).
  reflexivity.
Qed.

Theorem C09_offset_frame : forall tps corr cid bs, wf_by_topic wf_p32_v64 tps -> in_i32 corr ->
  ulen bs <= i32_max -> enc_offset_req corr cid tps = Ok bs ->
  parse_frame (frame bs) =
  Some ({| api_key := 2; api_version := 0; correlation_id := corr; client_id := Some cid |},
        OffsetRequest (-1) (abs_by_topic abs_offset_part tps)).
Proof.
  intros tps corr cid bs Hwf Hc Hlen H. apply parse_frame_of_request; [exact Hlen|].
  apply C09_offset_request; assumption.
Qed.

Lemma codec_only_offset corr cid tps : codec_only (enc_offset_req corr cid tps).
Proof.
  unfold enc_offset_req. apply codec_only_bind; [apply codec_only_enc_header|intros h _].
  apply codec_only_bind; [apply codec_only_enc_tps; intros [p t]; exact I|intros b _; exact I].
Qed.

Theorem C09_offset_reject : forall tps corr cid e,
  enc_offset_req corr cid tps = Err e -> e = ECodec /\ (long_str cid \/ tps_too_long tps).
Proof.
  intros tps corr cid e H. split; [exact (codec_only_err _ _ (codec_only_offset _ _ _) H)|].
  unfold enc_offset_req in H.
  apply bind_err in H. destruct H as [H|[h [_ H]]]; [left; eapply enc_header_err; exact H|].
  apply bind_err in H. destruct H as [H|[b [_ H]]]; [|discriminate].
  right. apply enc_tps_err in H; [exact H|]. intros [p t]. discriminate.
Qed.

Theorem C09_offset_no_panic : forall tps corr cid w, enc_offset_req corr cid tps <> Panic w.
Proof. intros. apply codec_only_panic. apply codec_only_offset. Qed.

Theorem C09_offset_ok_iff : forall tps corr cid,
  (exists bs, enc_offset_req corr cid tps = Ok bs) <-> ulen cid <= i16_max /\ tps_fit tps.
Proof.
  intros tps corr cid. unfold enc_offset_req.
  rewrite (bind_ok_iff _ _ (tps_fit tps)), enc_header_ok_iff; [reflexivity|]. intros h.
  rewrite (bind_ok_iff _ _ True); [|intros b; apply ok_ex_iff].
  rewrite enc_tps_ok_iff; [tauto|]. intros [p t]. eexists; reflexivity.
Qed.

(* ---- ListOffsets v1 ---- *)
Definition m_list_offset_part : Z * Z -> res bytes := fun '(p, time) => Ok (enc_i32 p ++ enc_i64 time).
Definition g_list_offset_part : parser (Z * Z) := let? p := p_i32 in let? time := p_i64 in p_ret (p, time).

Lemma elem_list_offset_part : forall x b rest, wf_p32_v64 x -> m_list_offset_part x = Ok b ->
  g_list_offset_part (b ++ rest) = Some ((fun y : Z * Z => y) x, rest) /\ (0 < length b)%nat.
Proof.
  intros [p time] b rest [Hp Ht] H. cbn [fst snd] in *. unfold m_list_offset_part in H. ok_inj H. split.
  - rewrite <- !app_assoc. unfold g_list_offset_part.
    erewrite p_bind_some by (apply p_i32_app; exact Hp).
    erewrite p_bind_some by (apply p_i64_app; exact Ht). reflexivity.
  - rewrite app_length. unfold enc_i32 at 1. rewrite be_enc_length. lia.
Qed.

Lemma abs_by_topic_id {P} (tps : list (bytes * list P)) : abs_by_topic (fun y => y) tps = tps.
Proof.
  unfold abs_by_topic. induction tps as [|[t ps] tps IH]; [reflexivity|].
  cbn [map fst snd]. rewrite map_id, IH. reflexivity.
Qed.

Theorem C09_list_offsets_request : forall tps corr cid bs rest, wf_by_topic wf_p32_v64 tps -> in_i32 corr ->
  enc_list_offsets_req corr cid tps = Ok bs ->
  parse_request (bs ++ rest) = Some (mk_hdr 2 1 corr cid, ListOffsetRequestV1 (-1) tps, rest).
Proof.
  intros tps corr cid bs rest Hwf Hc H. unfold enc_list_offsets_req in H.
  apply bind_ok in H. destruct H as [h [Hh H]]. apply bind_ok in H. destruct H as [b [Hb H]]. ok_inj H.
  apply (parse_request_enc API_KEY_OFFSET LIST_OFFSET_V1 corr cid h _ rest);
    [unfold in_i16, API_KEY_OFFSET; lia|unfold in_i16, LIST_OFFSET_V1; lia|exact Hc|exact Hh|].
  change (p_body API_KEY_OFFSET LIST_OFFSET_V1) with p_list_offsets_v1. unfold p_list_offsets_v1.
  rewrite <- !app_assoc.
  erewrite p_bind_some by (apply p_i32_app; unfold in_i32; lia).
  erewrite p_bind_some by (eapply (p_by_topic_enc_tps _ _ _ _ elem_list_offset_part); [exact Hwf|exact Hb]).
  rewrite abs_by_topic_id. reflexivity.
Qed.

Theorem C09_list_offsets_frame : forall tps corr cid bs, wf_by_topic wf_p32_v64 tps -> in_i32 corr ->
  ulen bs <= i32_max -> enc_list_offsets_req corr cid tps = Ok bs ->
  parse_frame (frame bs) =
  Some ({| api_key := 2; api_version := 1; correlation_id := corr; client_id := Some cid |},
        ListOffsetRequestV1 (-1) tps).
Proof.
  intros tps corr cid bs Hwf Hc Hlen H. apply parse_frame_of_request; [exact Hlen|].
  apply C09_list_offsets_request; assumption.
Qed.

Lemma codec_only_list_offsets corr cid tps : codec_only (enc_list_offsets_req corr cid tps).
Proof.
  unfold enc_list_offsets_req. apply codec_only_bind; [apply codec_only_enc_header|intros h _].
  apply codec_only_bind; [apply codec_only_enc_tps; intros [p t]; exact I|intros b _; exact I].
Qed.

Theorem C09_list_offsets_reject : forall tps corr cid e,
  enc_list_offsets_req corr cid tps = Err e -> e = ECodec /\ (long_str cid \/ tps_too_long tps).
Proof.
  intros tps corr cid e H. split; [exact (codec_only_err _ _ (codec_only_list_offsets _ _ _) H)|].
  unfold enc_list_offsets_req in H.
  apply bind_err in H. destruct H as [H|[h [_ H]]]; [left; eapply enc_header_err; exact H|].
  apply bind_err in H. destruct H as [H|[b [_ H]]]; [|discriminate].
  right. apply enc_tps_err in H; [exact H|]. intros [p t]. discriminate.
Qed.

Theorem C09_list_offsets_no_panic : forall tps corr cid w, enc_list_offsets_req corr cid tps <> Panic w.
Proof. intros. apply codec_only_panic. apply codec_only_list_offsets. Qed.

Theorem C09_list_offsets_ok_iff : forall tps corr cid,
  (exists bs, enc_list_offsets_req corr cid tps = Ok bs) <-> ulen cid <= i16_max /\ tps_fit tps.
Proof.
  intros tps corr cid. unfold enc_list_offsets_req.
  rewrite (bind_ok_iff _ _ (tps_fit tps)), enc_header_ok_iff; [reflexivity|]. intros h.
  rewrite (bind_ok_iff _ _ True); [|intros b; apply ok_ex_iff].
  rewrite enc_tps_ok_iff; [tauto|]. intros [p t]. eexists; reflexivity.
Qed.

(* ======================================================================= *)
(* 9. OffsetFetch (key 9, versions 0 and 1)                                  *)
(* ======================================================================= *)

Definition m_partition_only : Z -> res bytes := fun p => Ok (enc_i32 p).

Lemma elem_partition_only : forall x b rest, in_i32 x -> m_partition_only x = Ok b ->
  p_i32 (b ++ rest) = Some ((fun y : Z => y) x, rest) /\ (0 < length b)%nat.
Proof.
  intros p b rest Hp H. unfold m_partition_only in H. ok_inj H. split.
  - apply p_i32_app. exact Hp.
  - unfold enc_i32. rewrite be_enc_length. lia.
Qed.

Theorem C09_offset_fetch_request : forall tps version group corr cid bs rest,
  version = 0 \/ version = 1 -> wf_by_topic in_i32 tps -> in_i32 corr ->
  enc_offset_fetch_req corr cid group version tps = Ok bs ->
  parse_request (bs ++ rest) = Some (mk_hdr 9 version corr cid, OffsetFetchRequest group tps, rest).
Proof.
  intros tps version group corr cid bs rest Hv Hwf Hc H. unfold enc_offset_fetch_req in H.
  apply bind_ok in H. destruct H as [h [Hh H]]. apply bind_ok in H. destruct H as [g [Hg H]].
  apply bind_ok in H. destruct H as [b [Hb H]]. ok_inj H.
  apply (parse_request_enc API_KEY_OFFSET_FETCH version corr cid h _ rest);
    [unfold in_i16, API_KEY_OFFSET_FETCH; lia|unfold in_i16; lia|exact Hc|exact Hh|].
  assert (Hbody : p_body API_KEY_OFFSET_FETCH version = p_offset_fetch) by (destruct Hv as [->| ->]; reflexivity).
  rewrite Hbody. unfold p_offset_fetch. rewrite <- !app_assoc.
  erewrite p_bind_some by (apply p_str_enc; exact Hg).
  erewrite p_bind_some by (eapply (p_by_topic_enc_tps _ _ _ _ elem_partition_only); [exact Hwf|exact Hb]).
  rewrite abs_by_topic_id. reflexivity.
Qed.

Theorem C09_offset_fetch_frame : forall tps version group corr cid bs,
  version = 0 \/ version = 1 -> wf_by_topic in_i32 tps -> in_i32 corr -> ulen bs <= i32_max ->
  enc_offset_fetch_req corr cid group version tps = Ok bs ->
  parse_frame (frame bs) =
  Some ({| api_key := 9; api_version := version; correlation_id := corr; client_id := Some cid |},
        OffsetFetchRequest group tps).
Proof.
  intros tps version group corr cid bs Hv Hwf Hc Hlen H. apply parse_frame_of_request; [exact Hlen|].
  apply C09_offset_fetch_request; assumption.
Qed.

Lemma codec_only_offset_fetch corr cid group version tps :
  codec_only (enc_offset_fetch_req corr cid group version tps).
Proof.
  unfold enc_offset_fetch_req. apply codec_only_bind; [apply codec_only_enc_header|intros h _].
  apply codec_only_bind; [apply codec_only_enc_str|intros g _].
  apply codec_only_bind; [apply codec_only_enc_tps; intros p; exact I|intros b _; exact I].
Qed.

Theorem C09_offset_fetch_reject : forall tps version group corr cid e,
  enc_offset_fetch_req corr cid group version tps = Err e ->
  e = ECodec /\ (long_str cid \/ long_str group \/ tps_too_long tps).
Proof.
  intros tps version group corr cid e H.
  split; [exact (codec_only_err _ _ (codec_only_offset_fetch _ _ _ _ _) H)|].
  unfold enc_offset_fetch_req in H.
  apply bind_err in H. destruct H as [H|[h [_ H]]]; [left; eapply enc_header_err; exact H|].
  apply bind_err in H. destruct H as [H|[g [_ H]]]; [apply enc_str_err in H; tauto|].
  apply bind_err in H. destruct H as [H|[b [_ H]]]; [|discriminate].
  right; right. apply enc_tps_err in H; [exact H|]. intros p. discriminate.
Qed.

Theorem C09_offset_fetch_no_panic : forall tps version group corr cid w,
  enc_offset_fetch_req corr cid group version tps <> Panic w.
Proof. intros. apply codec_only_panic. apply codec_only_offset_fetch. Qed.

Theorem C09_offset_fetch_ok_iff : forall tps version group corr cid,
  (exists bs, enc_offset_fetch_req corr cid group version tps = Ok bs) <->
  ulen cid <= i16_max /\ ulen group <= i16_max /\ tps_fit tps.
Proof.
  intros tps version group corr cid. unfold enc_offset_fetch_req.
  rewrite (bind_ok_iff _ _ (ulen group <= i16_max /\ tps_fit tps)), enc_header_ok_iff; [reflexivity|]. intros h.
  rewrite (bind_ok_iff _ _ (tps_fit tps)), enc_str_ok_iff; [reflexivity|]. intros g.
  rewrite (bind_ok_iff _ _ True); [|intros b; apply ok_ex_iff].
  rewrite enc_tps_ok_iff; [tauto|]. intros p. eexists; reflexivity.
Qed.

(* ======================================================================= *)
(* 10. Fetch (key 1, version 0)                                              *)
(* ======================================================================= *)

Definition m_fetch_part : Z * (Z * Z) -> res bytes :=
  fun '(p, (off, maxb)) => Ok (enc_i32 p ++ enc_i64 off ++ enc_i32 maxb).
Definition g_fetch_part : parser (Z * Z * Z) :=
  let? p := p_i32 in let? off := p_i64 in let? maxb := p_i32 in p_ret (p, off, maxb).
(* partition -> (offset, max_bytes)  becomes  Partition FetchOffset MaxBytes *)
Definition abs_fetch_part (x : Z * (Z * Z)) : Z * Z * Z := (fst x, fst (snd x), snd (snd x)).
Definition wf_fetch_part (x : Z * (Z * Z)) : Prop :=
  in_i32 (fst x) /\ in_i64 (fst (snd x)) /\ in_i32 (snd (snd x)).

(* both array counts are written with an unchecked `as i32` *)
Definition wf_fetch (tps : fetch_tps) : Prop :=
  ulen tps <= i32_max /\
  Forall (fun tp => Forall wf_fetch_part (snd tp) /\ ulen (snd tp) <= i32_max) tps.

Lemma elem_fetch_part : forall x b rest, wf_fetch_part x -> m_fetch_part x = Ok b ->
  g_fetch_part (b ++ rest) = Some (abs_fetch_part x, rest) /\ (0 < length b)%nat.
Proof.
  intros [p [off maxb]] b rest [Hp [Ho Hm]] H. cbn [fst snd] in *. unfold m_fetch_part in H. ok_inj H. split.
  - rewrite <- !app_assoc. unfold g_fetch_part.
    erewrite p_bind_some by (apply p_i32_app; exact Hp).
    erewrite p_bind_some by (apply p_i64_app; exact Ho).
    erewrite p_bind_some by (apply p_i32_app; exact Hm). reflexivity.
  - rewrite app_length. unfold enc_i32 at 1. rewrite be_enc_length. lia.
Qed.

Lemma enc_fetch_req_eq corr cid max_wait min_bytes tps :
  enc_fetch_req corr cid max_wait min_bytes tps =
  (let* h := enc_header API_KEY_FETCH API_VERSION corr cid in
   let* b := enc_array_unchecked (enc_topic_unchecked m_fetch_part) tps in
   Ok (h ++ enc_i32 (-1) ++ enc_i32 max_wait ++ enc_i32 min_bytes ++ b)).
Proof. reflexivity. Qed.

Theorem C09_fetch_request : forall tps max_wait min_bytes corr cid bs rest,
  wf_fetch tps -> in_i32 max_wait -> in_i32 min_bytes -> in_i32 corr ->
  enc_fetch_req corr cid max_wait min_bytes tps = Ok bs ->
  parse_request (bs ++ rest) =
  Some (mk_hdr 1 0 corr cid, FetchRequest (-1) max_wait min_bytes (abs_by_topic abs_fetch_part tps), rest).
Proof.
  intros tps max_wait min_bytes corr cid bs rest [Hlen Hwf] Hw Hm Hc H. rewrite enc_fetch_req_eq in H.
  apply bind_ok in H. destruct H as [h [Hh H]]. apply bind_ok in H. destruct H as [b [Hb H]]. ok_inj H.
  apply (parse_request_enc API_KEY_FETCH API_VERSION corr cid h _ rest);
    [unfold in_i16, API_KEY_FETCH; lia|unfold in_i16, API_VERSION; lia|exact Hc|exact Hh|].
  change (p_body API_KEY_FETCH API_VERSION) with p_fetch_v0. unfold p_fetch_v0.
  rewrite <- !app_assoc.
  erewrite p_bind_some by (apply p_i32_app; unfold in_i32; lia).
  erewrite p_bind_some by (apply p_i32_app; exact Hw).
  erewrite p_bind_some by (apply p_i32_app; exact Hm).
  erewrite p_bind_some by (eapply (p_by_topic_enc_unchecked _ _ _ _ elem_fetch_part); [exact Hwf|exact Hlen|exact Hb]).
  reflexivity.
Qed.

Theorem C09_fetch_frame : forall tps max_wait min_bytes corr cid bs,
  wf_fetch tps -> in_i32 max_wait -> in_i32 min_bytes -> in_i32 corr -> ulen bs <= i32_max ->
  enc_fetch_req corr cid max_wait min_bytes tps = Ok bs ->
  parse_frame (frame bs) =
  Some ({| api_key := 1; api_version := 0; correlation_id := corr; client_id := Some cid |},
        FetchRequest (-1) max_wait min_bytes (abs_by_topic abs_fetch_part tps)).
Proof.
  intros tps max_wait min_bytes corr cid bs Hwf Hw Hm Hc Hlen H. apply parse_frame_of_request; [exact Hlen|].
  apply C09_fetch_request; assumption.
Qed.

Lemma codec_only_fetch corr cid max_wait min_bytes tps : codec_only (enc_fetch_req corr cid max_wait min_bytes tps).
Proof.
  rewrite enc_fetch_req_eq. apply codec_only_bind; [apply codec_only_enc_header|intros h _].
  apply codec_only_bind; [|intros b _; exact I].
  apply codec_only_enc_array_unchecked. intros [t ps] _. unfold enc_topic_unchecked.
  apply codec_only_bind; [apply codec_only_enc_str|intros n _].
  apply codec_only_bind; [|intros b _; exact I].
  apply codec_only_enc_array_unchecked. intros [p [off maxb]] _. exact I.
Qed.

(* the only checked lengths are the strings *)
Theorem C09_fetch_reject : forall tps max_wait min_bytes corr cid e,
  enc_fetch_req corr cid max_wait min_bytes tps = Err e ->
  e = ECodec /\ (long_str cid \/ Exists (fun tp => long_str (fst tp)) tps).
Proof.
  intros tps max_wait min_bytes corr cid e H.
  split; [exact (codec_only_err _ _ (codec_only_fetch _ _ _ _ _) H)|].
  rewrite enc_fetch_req_eq in H.
  apply bind_err in H. destruct H as [H|[h [_ H]]]; [left; eapply enc_header_err; exact H|].
  apply bind_err in H. destruct H as [H|[b [_ H]]]; [|discriminate].
  right. apply enc_array_unchecked_err in H. revert H. apply Exists_impl. intros tp H.
  apply enc_topic_unchecked_err in H. destruct H as [H|H]; [exact H|].
  exfalso. apply Exists_exists in H. destruct H as [[p [off maxb]] [_ Hp]]. discriminate.
Qed.

Theorem C09_fetch_no_panic : forall tps max_wait min_bytes corr cid w,
  enc_fetch_req corr cid max_wait min_bytes tps <> Panic w.
Proof. intros. apply codec_only_panic. apply codec_only_fetch. Qed.

Theorem C09_fetch_ok_iff : forall tps max_wait min_bytes corr cid,
  (exists bs, enc_fetch_req corr cid max_wait min_bytes tps = Ok bs) <->
  ulen cid <= i16_max /\ Forall (fun tp => ulen (fst tp) <= i16_max) tps.
Proof.
  intros tps max_wait min_bytes corr cid. rewrite enc_fetch_req_eq.
  rewrite (bind_ok_iff _ _ (Forall (fun tp => ulen (fst tp) <= i16_max) tps)), enc_header_ok_iff; [reflexivity|].
  intros h. rewrite (bind_ok_iff _ _ True); [|intros b; apply ok_ex_iff].
  rewrite enc_array_unchecked_ok_iff.
  assert (Hiff : forall tp : bytes * fetch_parts,
             (exists b, enc_topic_unchecked m_fetch_part tp = Ok b) <-> ulen (fst tp) <= i16_max).
  { intros [t ps]. cbn [fst]. unfold enc_topic_unchecked.
    rewrite (bind_ok_iff _ _ True), enc_str_ok_iff; [tauto|]. intros n.
    rewrite (bind_ok_iff _ _ True); [|intros b; apply ok_ex_iff].
    rewrite enc_array_unchecked_ok_iff. split; [intros _; exact I|intros _]. split; [|exact I].
    apply Forall_forall. intros [p [off maxb]] _. eexists; reflexivity. }
  split.
  - intros [H _]. revert H. apply Forall_impl. intros tp. apply Hiff.
  - intros H. split; [|exact I]. revert H. apply Forall_impl. intros tp. apply Hiff.
Qed.

(* ======================================================================= *)
(* 11. OffsetCommit (key 8, versions 0, 1, 2)                                *)
(* ======================================================================= *)

(* the model's per-partition encoder; `empty` is the encoded metadata string "" *)
Definition m_commit_part (version : Z) (empty : bytes) : Z * Z -> res bytes :=
  fun '(p, off) => Ok (enc_i32 p ++ enc_i64 off
                       ++ (if version =? OFFSET_COMMIT_V1 then enc_i64 (-1) else []) ++ empty).

Definition g_commit_part : parser (Z * Z * option bytes) :=
  let? p := p_i32 in let? off := p_i64 in let? md := p_string in p_ret (p, off, md).
Definition g_commit_part_v1 : parser (Z * Z * Z * option bytes) :=
  let? p := p_i32 in let? off := p_i64 in let? stamp := p_i64 in let? md := p_string in p_ret (p, off, stamp, md).

(* the client commits (partition, offset) with the empty (non-null) metadata string;
   in v1 the timestamp is -1 ("now") *)
Definition abs_commit_part (x : Z * Z) : Z * Z * option bytes := (fst x, snd x, Some []).
Definition abs_commit_part_v1 (x : Z * Z) : Z * Z * Z * option bytes := (fst x, snd x, -1, Some []).

Lemma elem_commit_part version empty : (version =? OFFSET_COMMIT_V1) = false -> enc_str [] = Ok empty ->
  forall x b rest, wf_p32_v64 x -> m_commit_part version empty x = Ok b ->
  g_commit_part (b ++ rest) = Some (abs_commit_part x, rest) /\ (0 < length b)%nat.
Proof.
  intros Hv He [p off] b rest [Hp Ho] H. cbn [fst snd] in *. unfold m_commit_part in H. rewrite Hv in H.
  ok_inj H. split.
  - rewrite <- !app_assoc. unfold g_commit_part.
    erewrite p_bind_some by (apply p_i32_app; exact Hp).
    erewrite p_bind_some by (apply p_i64_app; exact Ho).
    rewrite app_nil_l.
    erewrite p_bind_some by (apply p_string_enc; exact He). reflexivity.
  - rewrite app_length. unfold enc_i32 at 1. rewrite be_enc_length. lia.
Qed.

Lemma elem_commit_part_v1 empty : enc_str [] = Ok empty ->
  forall x b rest, wf_p32_v64 x -> m_commit_part 1 empty x = Ok b ->
  g_commit_part_v1 (b ++ rest) = Some (abs_commit_part_v1 x, rest) /\ (0 < length b)%nat.
Proof.
  intros He [p off] b rest [Hp Ho] H. cbn [fst snd] in *. unfold m_commit_part in H.
  change (1 =? OFFSET_COMMIT_V1) with true in H. ok_inj H. split.
  - rewrite <- !app_assoc. unfold g_commit_part_v1.
    erewrite p_bind_some by (apply p_i32_app; exact Hp).
    erewrite p_bind_some by (apply p_i64_app; exact Ho).
    erewrite p_bind_some by (apply p_i64_app; unfold in_i64; lia).
    erewrite p_bind_some by (apply p_string_enc; exact He). reflexivity.
  - rewrite app_length. unfold enc_i32 at 1. rewrite be_enc_length. lia.
Qed.

Definition abs_offset_commit (version : Z) (group : bytes) (tps : list (bytes * list (Z * Z))) : req_body :=
  if version =? 1 then OffsetCommitRequestV1 group (-1) [] (abs_by_topic abs_commit_part_v1 tps)
  else if version =? 2 then OffsetCommitRequestV2 group (-1) [] (-1) (abs_by_topic abs_commit_part tps)
  else OffsetCommitRequestV0 group (abs_by_topic abs_commit_part tps).

Definition commit_version_known (version : Z) : bool :=
  (version =? OFFSET_COMMIT_V0) || (version =? OFFSET_COMMIT_V1) || (version =? OFFSET_COMMIT_V2).

Lemma enc_offset_commit_req_eq corr cid group version tps :
  enc_offset_commit_req corr cid group version tps =
  if negb (commit_version_known version) then Panic (tag "Unknown offset commit version code")
  else
    let* h := enc_header API_KEY_OFFSET_COMMIT version corr cid in
    let* g := enc_str group in
    let* empty := enc_str [] in
    let* b := enc_tps (m_commit_part version empty) tps in
    Ok (h ++ g ++ (if version =? OFFSET_COMMIT_V1 then enc_i32 (-1) ++ empty
                   else if version =? OFFSET_COMMIT_V2 then enc_i32 (-1) ++ empty ++ enc_i64 (-1)
                   else []) ++ b).
Proof. reflexivity. Qed.

Lemma commit_version_known_iff version :
  commit_version_known version = true <-> version = 0 \/ version = 1 \/ version = 2.
Proof. unfold commit_version_known, OFFSET_COMMIT_V0, OFFSET_COMMIT_V1, OFFSET_COMMIT_V2. lia. Qed.

Theorem C09_offset_commit_request : forall tps version group corr cid bs rest,
  wf_by_topic wf_p32_v64 tps -> in_i32 corr ->
  enc_offset_commit_req corr cid group version tps = Ok bs ->
  parse_request (bs ++ rest) = Some (mk_hdr 8 version corr cid, abs_offset_commit version group tps, rest).
Proof.
  intros tps version group corr cid bs rest Hwf Hc H. rewrite enc_offset_commit_req_eq in H.
  destruct (commit_version_known version) eqn:Ev; cbn [negb] in H; [|discriminate].
  apply commit_version_known_iff in Ev.
  apply bind_ok in H. destruct H as [h [Hh H]]. apply bind_ok in H. destruct H as [g [Hg H]].
  apply bind_ok in H. destruct H as [empty [He H]]. apply bind_ok in H. destruct H as [b [Hb H]]. ok_inj H.
  apply (parse_request_enc API_KEY_OFFSET_COMMIT version corr cid h _ rest);
    [unfold in_i16, API_KEY_OFFSET_COMMIT; lia|unfold in_i16; lia|exact Hc|exact Hh|].
  destruct Ev as [->|[->| ->]].
  - change (p_body API_KEY_OFFSET_COMMIT 0) with p_offset_commit_v0. unfold p_offset_commit_v0.
    change (0 =? OFFSET_COMMIT_V1) with false. change (0 =? OFFSET_COMMIT_V2) with false. cbv iota.
    rewrite app_nil_l. rewrite <- !app_assoc.
    erewrite p_bind_some by (apply p_str_enc; exact Hg).
    erewrite p_bind_some by (eapply (p_by_topic_enc_tps _ _ _ _ (elem_commit_part 0 empty eq_refl He)); [exact Hwf|exact Hb]).
    reflexivity.
  - change (p_body API_KEY_OFFSET_COMMIT 1) with p_offset_commit_v1. unfold p_offset_commit_v1.
    change (1 =? OFFSET_COMMIT_V1) with true. cbv iota.
    rewrite <- !app_assoc.
    erewrite p_bind_some by (apply p_str_enc; exact Hg).
    erewrite p_bind_some by (apply p_i32_app; unfold in_i32; lia).
    erewrite p_bind_some by (apply p_str_enc; exact He).
    erewrite p_bind_some by (eapply (p_by_topic_enc_tps _ _ _ _ (elem_commit_part_v1 empty He)); [exact Hwf|exact Hb]).
    reflexivity.
  - change (p_body API_KEY_OFFSET_COMMIT 2) with p_offset_commit_v2. unfold p_offset_commit_v2.
    change (2 =? OFFSET_COMMIT_V1) with false. change (2 =? OFFSET_COMMIT_V2) with true. cbv iota.
    rewrite <- !app_assoc.
    erewrite p_bind_some by (apply p_str_enc; exact Hg).
    erewrite p_bind_some by (apply p_i32_app; unfold in_i32; lia).
    erewrite p_bind_some by (apply p_str_enc; exact He).
    erewrite p_bind_some by (apply p_i64_app; unfold in_i64; lia).
    erewrite p_bind_some by (eapply (p_by_topic_enc_tps _ _ _ _ (elem_commit_part 2 empty eq_refl He)); [exact Hwf|exact Hb]).
    reflexivity.
Qed.

Theorem C09_offset_commit_frame : forall tps version group corr cid bs,
  wf_by_topic wf_p32_v64 tps -> in_i32 corr -> ulen bs <= i32_max ->
  enc_offset_commit_req corr cid group version tps = Ok bs ->
  parse_frame (frame bs) =
  Some ({| api_key := 8; api_version := version; correlation_id := corr; client_id := Some cid |},
        abs_offset_commit version group tps).
Proof.
  intros tps version group corr cid bs Hwf Hc Hlen H. apply parse_frame_of_request; [exact Hlen|].
  apply C09_offset_commit_request; assumption.
Qed.

(* the three versions spelled out *)
Corollary C09_offset_commit_v0_frame : forall tps group corr cid bs,
  wf_by_topic wf_p32_v64 tps -> in_i32 corr -> ulen bs <= i32_max ->
  enc_offset_commit_req corr cid group 0 tps = Ok bs ->
  parse_frame (frame bs) =
  Some ({| api_key := 8; api_version := 0; correlation_id := corr; client_id := Some cid |},
        OffsetCommitRequestV0 group (abs_by_topic abs_commit_part tps)).
Proof. intros tps group corr cid bs. exact (C09_offset_commit_frame tps 0 group corr cid bs). Qed.

Corollary C09_offset_commit_v1_frame : forall tps group corr cid bs,
  wf_by_topic wf_p32_v64 tps -> in_i32 corr -> ulen bs <= i32_max ->
  enc_offset_commit_req corr cid group 1 tps = Ok bs ->
  parse_frame (frame bs) =
  Some ({| api_key := 8; api_version := 1; correlation_id := corr; client_id := Some cid |},
        OffsetCommitRequestV1 group (-1) [] (abs_by_topic abs_commit_part_v1 tps)).
Proof. intros tps group corr cid bs. exact (C09_offset_commit_frame tps 1 group corr cid bs). Qed.

Corollary C09_offset_commit_v2_frame : forall tps group corr cid bs,
  wf_by_topic wf_p32_v64 tps -> in_i32 corr -> ulen bs <= i32_max ->
  enc_offset_commit_req corr cid group 2 tps = Ok bs ->
  parse_frame (frame bs) =
  Some ({| api_key := 8; api_version := 2; correlation_id := corr; client_id := Some cid |},
        OffsetCommitRequestV2 group (-1) [] (-1) (abs_by_topic abs_commit_part tps)).
Proof. intros tps group corr cid bs. exact (C09_offset_commit_frame tps 2 group corr cid bs). Qed.

Lemma enc_str_nil : enc_str [] = Ok (enc_i16 0 ++ []).
Proof. reflexivity. Qed.

(* the one panic among the encoders: a version outside {0,1,2} *)
Theorem C09_offset_commit_panic_iff : forall tps version group corr cid,
  (exists w, enc_offset_commit_req corr cid group version tps = Panic w) <->
  ~ (version = 0 \/ version = 1 \/ version = 2).
Proof.
  intros tps version group corr cid. rewrite <- commit_version_known_iff, enc_offset_commit_req_eq.
  destruct (commit_version_known version) eqn:Ev; cbn [negb].
  - split; [|intros H; exfalso; apply H; reflexivity]. intros [w H]. exfalso. revert H.
    apply codec_only_panic.
    apply codec_only_bind; [apply codec_only_enc_header|intros h _].
    apply codec_only_bind; [apply codec_only_enc_str|intros g _].
    apply codec_only_bind; [apply codec_only_enc_str|intros empty _].
    apply codec_only_bind; [apply codec_only_enc_tps; intros [p off]; exact I|intros b _; exact I].
  - split; [intros _ H; discriminate|intros _; eexists; reflexivity].
Qed.

Theorem C09_offset_commit_reject : forall tps version group corr cid e,
  enc_offset_commit_req corr cid group version tps = Err e ->
  e = ECodec /\ (long_str cid \/ long_str group \/ tps_too_long tps).
Proof.
  intros tps version group corr cid e H. rewrite enc_offset_commit_req_eq in H.
  destruct (commit_version_known version) eqn:Ev; cbn [negb] in H; [|discriminate].
  apply bind_err in H. destruct H as [H|[h [_ H]]].
  { split; [exact (codec_only_err _ _ (codec_only_enc_header _ _ _ _) H)|left; eapply enc_header_err; exact H]. }
  apply bind_err in H. destruct H as [H|[g [_ H]]]; [apply enc_str_err in H; tauto|].
  apply bind_err in H. destruct H as [H|[empty [_ H]]]; [rewrite enc_str_nil in H; discriminate|].
  apply bind_err in H. destruct H as [H|[b [_ H]]]; [|discriminate].
  split.
  - refine (codec_only_err _ _ _ H). apply codec_only_enc_tps. intros [p off]. exact I.
  - right; right. apply enc_tps_err in H; [exact H|]. intros [p off]. discriminate.
Qed.

Theorem C09_offset_commit_ok_iff : forall tps version group corr cid,
  (exists bs, enc_offset_commit_req corr cid group version tps = Ok bs) <->
  (version = 0 \/ version = 1 \/ version = 2) /\ ulen cid <= i16_max /\ ulen group <= i16_max /\ tps_fit tps.
Proof.
  intros tps version group corr cid. rewrite <- commit_version_known_iff, enc_offset_commit_req_eq.
  destruct (commit_version_known version) eqn:Ev; cbn [negb].
  2:{ split; [intros [bs H]; discriminate|intros [H _]; discriminate]. }
  rewrite (bind_ok_iff _ _ (ulen group <= i16_max /\ tps_fit tps)), enc_header_ok_iff; [tauto|]. intros h.
  rewrite (bind_ok_iff _ _ (tps_fit tps)), enc_str_ok_iff; [reflexivity|]. intros g.
  rewrite enc_str_nil. cbn [bind].
  rewrite (bind_ok_iff _ _ True); [|intros b; apply ok_ex_iff].
  rewrite enc_tps_ok_iff; [tauto|]. intros [p off]. eexists; reflexivity.
Qed.

(* ======================================================================= *)
(* 12. Produce (key 0, version 0)                                            *)
(* ======================================================================= *)

(* the message-set bytes the model builds for one partition: the `buf'` of
   enc_partition_produce (plain concatenation, or one wrapper message around the
   compressed concatenation).  Their contents are the subject of another property. *)
Definition model_message_set (cz : codecs) (compression : Z) (ms : list pmsg) : res bytes :=
  let* buf := enc_messages ms in
  if compression =? COMPRESSION_NONE then Ok buf
  else if compression =? COMPRESSION_GZIP
  then enc_message MESSAGE_MAGIC_BYTE COMPRESSION_GZIP (None, Some (gz_compress cz buf))
  else enc_message MESSAGE_MAGIC_BYTE COMPRESSION_SNAPPY (None, Some (sn_compress cz buf)).

Definition message_set_bytes (cz : codecs) (compression : Z) (ms : list pmsg) : bytes :=
  match model_message_set cz compression ms with Ok b => b | _ => [] end.

Lemma enc_partition_produce_eq cz compression p ms :
  enc_partition_produce cz compression p ms =
  (let* buf' := model_message_set cz compression ms in
   let* b := enc_bytes buf' in Ok (enc_i32 p ++ b)).
Proof.
  unfold enc_partition_produce, model_message_set.
  destruct (enc_messages ms) as [buf|e|w]; reflexivity.
Qed.

(* what goes on the wire for a partition is: Partition, MessageSetSize = |buf'|, buf' *)
Lemma C09_produce_partition_bytes cz compression p ms b :
  enc_partition_produce cz compression p ms = Ok b ->
  exists buf', model_message_set cz compression ms = Ok buf' /\
               message_set_bytes cz compression ms = buf' /\
               ulen buf' <= i32_max /\
               b = enc_i32 p ++ enc_i32 (ulen buf') ++ buf'.
Proof.
  intros H. rewrite enc_partition_produce_eq in H.
  apply bind_ok in H. destruct H as [buf' [Hbuf H]]. apply bind_ok in H. destruct H as [b0 [Hb0 H]]. ok_inj H.
  apply enc_bytes_ok in Hb0. destruct Hb0 as [-> Hlen].
  exists buf'. unfold message_set_bytes. rewrite Hbuf. auto.
Qed.

Definition m_produce_part (cz : codecs) (compression : Z) : Z * list pmsg -> res bytes :=
  fun '(p, ms) => enc_partition_produce cz compression p ms.
Definition g_produce_part : parser (Z * bytes) := let? p := p_i32 in let? ms := p_sized in p_ret (p, ms).
Definition abs_produce_part (cz : codecs) (compression : Z) (x : Z * list pmsg) : Z * bytes :=
  (fst x, message_set_bytes cz compression (snd x)).
Definition wf_produce_part (x : Z * list pmsg) : Prop := in_i32 (fst x).

(* the per-topic partition count is written with an unchecked `as i32` *)
Definition wf_produce (tps : produce_tps) : Prop :=
  Forall (fun tp => Forall wf_produce_part (snd tp) /\ ulen (snd tp) <= i32_max) tps.

Lemma elem_produce_part cz compression : forall x b rest,
  wf_produce_part x -> m_produce_part cz compression x = Ok b ->
  g_produce_part (b ++ rest) = Some (abs_produce_part cz compression x, rest) /\ (0 < length b)%nat.
Proof.
  intros [p ms] b rest Hp H. unfold wf_produce_part in Hp. cbn [fst snd] in *. unfold m_produce_part in H.
  apply C09_produce_partition_bytes in H. destruct H as [buf' [_ [Habs [Hlen ->]]]]. split.
  - rewrite <- !app_assoc. unfold g_produce_part.
    erewrite p_bind_some by (apply p_i32_app; exact Hp).
    erewrite p_bind_some by (apply p_sized_app; exact Hlen).
    unfold abs_produce_part. cbn [fst snd]. rewrite Habs. reflexivity.
  - rewrite app_length. unfold enc_i32 at 1. rewrite be_enc_length. lia.
Qed.

Lemma enc_produce_req_eq cz corr cid acks timeout compression tps :
  enc_produce_req cz corr cid acks timeout compression tps =
  (let* h := enc_header API_KEY_PRODUCE API_VERSION corr cid in
   let* b := enc_array (enc_topic_unchecked (m_produce_part cz compression)) tps in
   Ok (h ++ enc_i16 acks ++ enc_i32 timeout ++ b)).
Proof. reflexivity. Qed.

Theorem C09_produce_request : forall cz tps acks timeout compression corr cid bs rest,
  wf_produce tps -> in_i16 acks -> in_i32 timeout -> in_i32 corr ->
  enc_produce_req cz corr cid acks timeout compression tps = Ok bs ->
  parse_request (bs ++ rest) =
  Some (mk_hdr 0 0 corr cid,
        ProduceRequest acks timeout (abs_by_topic (abs_produce_part cz compression) tps), rest).
Proof.
  intros cz tps acks timeout compression corr cid bs rest Hwf Ha Ht Hc H. rewrite enc_produce_req_eq in H.
  apply bind_ok in H. destruct H as [h [Hh H]]. apply bind_ok in H. destruct H as [b [Hb H]]. ok_inj H.
  apply (parse_request_enc API_KEY_PRODUCE API_VERSION corr cid h _ rest);
    [unfold in_i16, API_KEY_PRODUCE; lia|unfold in_i16, API_VERSION; lia|exact Hc|exact Hh|].
  change (p_body API_KEY_PRODUCE API_VERSION) with p_produce_v0. unfold p_produce_v0.
  rewrite <- !app_assoc.
  erewrite p_bind_some by (apply p_i16_app; exact Ha).
  erewrite p_bind_some by (apply p_i32_app; exact Ht).
  erewrite p_bind_some by (eapply (p_by_topic_enc_mixed _ _ _ _ (elem_produce_part cz compression)); [exact Hwf|exact Hb]).
  reflexivity.
Qed.

Theorem C09_produce_frame : forall cz tps acks timeout compression corr cid bs,
  wf_produce tps -> in_i16 acks -> in_i32 timeout -> in_i32 corr -> ulen bs <= i32_max ->
  enc_produce_req cz corr cid acks timeout compression tps = Ok bs ->
  parse_frame (frame bs) =
  Some ({| api_key := 0; api_version := 0; correlation_id := corr; client_id := Some cid |},
        ProduceRequest acks timeout (abs_by_topic (abs_produce_part cz compression) tps)).
Proof.
  intros cz tps acks timeout compression corr cid bs Hwf Ha Ht Hc Hlen H.
  apply parse_frame_of_request; [exact Hlen|]. apply C09_produce_request; assumption.
Qed.

(* ---- why a produce request is refused ---- *)
Definition long_opt (o : option bytes) : Prop := match o with Some b => long_arr b | None => False end.

Lemma enc_opt_bytes_err o e : enc_opt_bytes o = Err e -> long_opt o.
Proof. destruct o as [b|]; cbn [enc_opt_bytes long_opt]; intros H; [apply enc_bytes_err in H; tauto|discriminate]. Qed.
Lemma codec_only_enc_opt_bytes o : codec_only (enc_opt_bytes o).
Proof. destruct o as [b|]; cbn [enc_opt_bytes]; [apply codec_only_enc_bytes|exact I]. Qed.

Lemma enc_message_err magic attr m e : enc_message magic attr m = Err e -> long_opt (fst m) \/ long_opt (snd m).
Proof.
  unfold enc_message. intros H.
  apply bind_err in H. destruct H as [H|[k [_ H]]]; [left; eapply enc_opt_bytes_err; exact H|].
  apply bind_err in H. destruct H as [H|[v [_ H]]]; [right; eapply enc_opt_bytes_err; exact H|discriminate].
Qed.
Lemma codec_only_enc_message magic attr m : codec_only (enc_message magic attr m).
Proof.
  unfold enc_message. apply codec_only_bind; [apply codec_only_enc_opt_bytes|intros k _].
  apply codec_only_bind; [apply codec_only_enc_opt_bytes|intros v _]. exact I.
Qed.

Lemma ulen_be_enc n z : ulen (be_enc n z) = Z.of_nat n.
Proof. unfold ulen. rewrite be_enc_length. reflexivity. Qed.

(* a wrapper message (null key, value z) is 26 bytes longer than z *)
Lemma enc_message_wrapper_ok magic attr z w :
  enc_message magic attr (None, Some z) = Ok w -> ulen w = 26 + ulen z.
Proof.
  unfold enc_message. cbn [fst snd enc_opt_bytes bind]. intros H.
  apply bind_ok in H. destruct H as [v [Hv H]]. cbv zeta in H. ok_inj H.
  apply enc_bytes_ok in Hv. destruct Hv as [-> _].
  unfold enc_i64, enc_i32, enc_i8. rewrite !ulen_app, !ulen_be_enc. lia.
Qed.

Definition compressed (cz : codecs) (compression : Z) (buf : bytes) : bytes :=
  if compression =? COMPRESSION_GZIP then gz_compress cz buf else sn_compress cz buf.

(* some int32 length of the partition's message set does not fit *)
Definition partition_too_long (cz : codecs) (compression : Z) (ms : list pmsg) : Prop :=
  Exists (fun m => long_opt (fst m) \/ long_opt (snd m)) ms \/
  exists buf, enc_messages ms = Ok buf /\
              if compression =? COMPRESSION_NONE then long_arr buf
              else i32_max < 26 + ulen (compressed cz compression buf).

Lemma codec_only_partition_produce cz compression p ms : codec_only (enc_partition_produce cz compression p ms).
Proof.
  unfold enc_partition_produce.
  apply codec_only_bind; [apply codec_only_enc_all; intros m _; apply codec_only_enc_message|intros buf _].
  apply codec_only_bind; [|intros buf' _; apply codec_only_bind; [apply codec_only_enc_bytes|intros b _; exact I]].
  destruct (compression =? COMPRESSION_NONE); [exact I|].
  destruct (compression =? COMPRESSION_GZIP); apply codec_only_enc_message.
Qed.

Lemma enc_partition_produce_err cz compression p ms e :
  enc_partition_produce cz compression p ms = Err e -> partition_too_long cz compression ms.
Proof.
  unfold enc_partition_produce, partition_too_long, compressed. intros H.
  apply bind_err in H. destruct H as [H|[buf [Hbuf H]]].
  { left. apply enc_all_err in H. revert H. apply Exists_impl. intros m. apply enc_message_err. }
  right. exists buf. split; [exact Hbuf|].
  destruct (compression =? COMPRESSION_NONE) eqn:En.
  - cbn [bind] in H. apply bind_err in H. destruct H as [H|[b [_ H]]]; [|discriminate].
    apply enc_bytes_err in H. tauto.
  - destruct (compression =? COMPRESSION_GZIP) eqn:Eg.
    + apply bind_err in H. destruct H as [H|[w [Hw H]]].
      * apply enc_message_err in H. cbn [fst snd long_opt] in H. unfold long_arr in H.
        pose proof (ulen_nonneg (gz_compress cz buf)). lia.
      * apply enc_message_wrapper_ok in Hw.
        apply bind_err in H. destruct H as [H|[b [_ H]]]; [|discriminate].
        apply enc_bytes_err in H. unfold long_arr in H. lia.
    + apply bind_err in H. destruct H as [H|[w [Hw H]]].
      * apply enc_message_err in H. cbn [fst snd long_opt] in H. unfold long_arr in H.
        pose proof (ulen_nonneg (sn_compress cz buf)). lia.
      * apply enc_message_wrapper_ok in Hw.
        apply bind_err in H. destruct H as [H|[b [_ H]]]; [|discriminate].
        apply enc_bytes_err in H. unfold long_arr in H. lia.
Qed.

Lemma codec_only_produce cz corr cid acks timeout compression tps :
  codec_only (enc_produce_req cz corr cid acks timeout compression tps).
Proof.
  rewrite enc_produce_req_eq. apply codec_only_bind; [apply codec_only_enc_header|intros h _].
  apply codec_only_bind; [|intros b _; exact I].
  apply codec_only_enc_array. intros [t ps] _. unfold enc_topic_unchecked.
  apply codec_only_bind; [apply codec_only_enc_str|intros n _].
  apply codec_only_bind; [|intros b _; exact I].
  apply codec_only_enc_array_unchecked. intros [p ms] _. apply codec_only_partition_produce.
Qed.

Theorem C09_produce_reject : forall cz tps acks timeout compression corr cid e,
  enc_produce_req cz corr cid acks timeout compression tps = Err e ->
  e = ECodec /\
  (long_str cid \/ long_arr tps \/
   Exists (fun tp => long_str (fst tp) \/
                     Exists (fun pm => partition_too_long cz compression (snd pm)) (snd tp)) tps).
Proof.
  intros cz tps acks timeout compression corr cid e H.
  split; [exact (codec_only_err _ _ (codec_only_produce _ _ _ _ _ _ _) H)|].
  rewrite enc_produce_req_eq in H.
  apply bind_err in H. destruct H as [H|[h [_ H]]]; [left; eapply enc_header_err; exact H|].
  apply bind_err in H. destruct H as [H|[b [_ H]]]; [|discriminate].
  right. apply enc_array_err in H. destruct H as [H|H]; [left; exact H|right].
  revert H. apply Exists_impl. intros tp H.
  apply enc_topic_unchecked_err in H. destruct H as [H|H]; [left; exact H|right].
  revert H. apply Exists_impl. intros [p ms] H. cbn [snd]. unfold m_produce_part in H.
  eapply enc_partition_produce_err; exact H.
Qed.

Theorem C09_produce_no_panic : forall cz tps acks timeout compression corr cid w,
  enc_produce_req cz corr cid acks timeout compression tps <> Panic w.
Proof. intros. apply codec_only_panic. apply codec_only_produce. Qed.

(* ======================================================================= *)
(* 13. the converse for Metadata and GroupCoordinator                        *)
(* ======================================================================= *)

Theorem C09_metadata_ok_iff : forall topics corr cid,
  (exists bs, enc_metadata_req corr cid topics = Ok bs) <->
  ulen cid <= i16_max /\ ulen topics <= i32_max /\ Forall (fun t => ulen t <= i16_max) topics.
Proof.
  intros topics corr cid. unfold enc_metadata_req.
  rewrite (bind_ok_iff _ _ (ulen topics <= i32_max /\ Forall (fun t => ulen t <= i16_max) topics)),
    enc_header_ok_iff; [reflexivity|]. intros h.
  rewrite (bind_ok_iff _ _ True); [|intros b; apply ok_ex_iff].
  rewrite enc_array_ok_iff.
  assert (Hiff : Forall (fun x => exists b, enc_str x = Ok b) topics <-> Forall (fun t => ulen t <= i16_max) topics).
  { split; apply Forall_impl; intros t; apply enc_str_ok_iff. }
  tauto.
Qed.

Theorem C09_group_coordinator_ok_iff : forall group corr cid,
  (exists bs, enc_group_coordinator_req corr cid group = Ok bs) <-> ulen cid <= i16_max /\ ulen group <= i16_max.
Proof.
  intros group corr cid. unfold enc_group_coordinator_req.
  rewrite (bind_ok_iff _ _ (ulen group <= i16_max)), enc_header_ok_iff; [reflexivity|]. intros h.
  rewrite (bind_ok_iff _ _ True); [|intros b; apply ok_ex_iff].
  rewrite enc_str_ok_iff. tauto.
Qed.

(* ======================================================================= *)
(* 14. the correlation counter                                               *)
(* ======================================================================= *)

Theorem C09_corr_increases : forall s, 0 <= correlation s < CORRELATION_MODULUS - 1 ->
  fst (next_correlation_id s) = correlation s + 1 /\
  correlation (snd (next_correlation_id s)) = correlation s + 1.
Proof.
  intros s H. unfold CORRELATION_MODULUS in H. change (2 ^ 30) with 1073741824 in H.
  unfold next_correlation_id. cbn [fst snd correlation].
  unfold CORRELATION_MODULUS. change (2 ^ 30) with 1073741824.
  rewrite Z.rem_small by lia. split; reflexivity.
Qed.

(* whatever the state, the id fits the int32 CorrelationId field *)
Theorem C09_corr_in_i32 : forall s, in_i32 (fst (next_correlation_id s)).
Proof.
  intros s. unfold next_correlation_id. cbn [fst]. unfold CORRELATION_MODULUS. change (2 ^ 30) with 1073741824.
  pose proof (Z.rem_bound_abs (correlation s + 1) 1073741824) as H. unfold in_i32. lia.
Qed.

(* the ids handed out by n successive calls *)
Fixpoint corr_ids (n : nat) (s : cstate) : list Z :=
  match n with
  | O => []
  | S k => fst (next_correlation_id s) :: corr_ids k (snd (next_correlation_id s))
  end.

Lemma corr_ids_eq : forall n s, 0 <= correlation s -> correlation s + Z.of_nat n < CORRELATION_MODULUS ->
  corr_ids n s = map (fun i => correlation s + Z.of_nat i) (seq 1 n).
Proof.
  assert (Hm : CORRELATION_MODULUS = 1073741824) by reflexivity.
  induction n as [|n IH]; intros s H0 Hn; [reflexivity|].
  assert (Hr : 0 <= correlation s < CORRELATION_MODULUS - 1) by lia.
  destruct (C09_corr_increases s Hr) as [Hid Hst].
  cbn [corr_ids seq map]. rewrite Hid. apply (f_equal2 (@cons Z)); [lia|].
  rewrite IH by (rewrite Hst; lia). rewrite Hst, <- (seq_shift n 1), map_map.
  apply map_ext. intros i. lia.
Qed.

Lemma sorted_affine_seq c : forall n a,
  StronglySorted Z.lt (map (fun i => c + Z.of_nat i) (seq a n)).
Proof.
  induction n as [|n IH]; intros a; cbn [seq map]; constructor; [apply IH|].
  apply Forall_forall. intros z Hz. apply in_map_iff in Hz. destruct Hz as [i [<- Hi]].
  apply in_seq in Hi. lia.
Qed.

Lemma sorted_lt_nodup (l : list Z) : StronglySorted Z.lt l -> NoDup l.
Proof.
  induction 1 as [|x l Hs IH Hall]; constructor; [|exact IH].
  intros Hin. rewrite Forall_forall in Hall. specialize (Hall x Hin). lia.
Qed.

Theorem C09_corr_sequence : forall n s, 0 <= correlation s -> correlation s + Z.of_nat n < CORRELATION_MODULUS ->
  corr_ids n s = map (fun i => correlation s + Z.of_nat i) (seq 1 n) /\
  StronglySorted Z.lt (corr_ids n s) /\ NoDup (corr_ids n s).
Proof.
  intros n s H0 Hn. pose proof (corr_ids_eq n s H0 Hn) as E.
  assert (Hs : StronglySorted Z.lt (corr_ids n s)) by (rewrite E; apply sorted_affine_seq).
  split; [exact E|split; [exact Hs|apply sorted_lt_nodup; exact Hs]].
Qed.

(* at 2^30 - 1 the counter wraps: the next id is 0, smaller than its predecessor, so
   "strictly increasing" cannot be claimed without the bound of C09_corr_sequence *)
Theorem C09_corr_wrap_refuted : exists s, fst (next_correlation_id s) < correlation s.
Proof.
  exists {| correlation := 1073741823; brokers := []; topic_partitions := []; group_coordinators := [] |}.
  vm_compute. reflexivity.
Qed.

Example C09_corr_wrap_value :
  fst (next_correlation_id {| correlation := CORRELATION_MODULUS - 1; brokers := [];
                              topic_partitions := []; group_coordinators := [] |}) = 0.
Proof. vm_compute. reflexivity. Qed.

Example C09_corr_sequence_ex : corr_ids 5 cstate_new = [1; 2; 3; 4; 5].
Proof. vm_compute. reflexivity. Qed.
Example C09_corr_sequence_hyps_ex : 0 <= correlation cstate_new /\ correlation cstate_new + Z.of_nat 5 < CORRELATION_MODULUS.
Proof. vm_compute. split; [discriminate|reflexivity]. Qed.
Example C09_corr_increases_ex : 0 <= correlation cstate_new < CORRELATION_MODULUS - 1.
Proof. vm_compute. split; [discriminate|reflexivity]. Qed.

(* ======================================================================= *)
(* 15. Examples: the hypotheses are satisfiable and the grammar computes      *)
(* ======================================================================= *)

(* choose the witness of `exists bs, enc = Ok bs /\ ...` by computation *)
Ltac ex_ok :=
  match goal with
  | |- exists bs, ?e = Ok bs /\ _ =>
      let r := eval vm_compute in e in
      match r with Ok ?b => exists b end
  end.
(* discharge wire-width / length side conditions on concrete data *)
Ltac wf_ex :=
  repeat first [ apply Forall_nil | apply Forall_cons | split ];
  try exact I; vm_compute; try discriminate; try reflexivity.

Definition cz_id : codecs :=
  {| gz_compress := fun b => b; sn_compress := fun b => b; gz_decompress := fun b => Some b; debug_build := false |}.

Example C09_metadata_frame_ex :
  let topics := [tag "orders"; tag "payments"] in
  in_i32 11 /\
  exists bs, enc_metadata_req 11 (tag "me") topics = Ok bs /\ ulen bs <= i32_max /\
    parse_frame (frame bs) =
    Some ({| api_key := 3; api_version := 0; correlation_id := 11; client_id := Some (tag "me") |},
          MetadataRequest [tag "orders"; tag "payments"]).
Proof. split; [wf_ex|]. ex_ok. split; [vm_compute; reflexivity|]. split; [wf_ex|vm_compute; reflexivity]. Qed.

Example C09_group_coordinator_frame_ex :
  exists bs, enc_group_coordinator_req 12 (tag "me") (tag "grp") = Ok bs /\ ulen bs <= i32_max /\
    parse_frame (frame bs) =
    Some ({| api_key := 10; api_version := 0; correlation_id := 12; client_id := Some (tag "me") |},
          GroupCoordinatorRequest (tag "grp")).
Proof. ex_ok. split; [vm_compute; reflexivity|]. split; [wf_ex|vm_compute; reflexivity]. Qed.

Example C09_offset_frame_ex :
  let tps := [(tag "a", [(0, -1); (1, -2)]); (tag "b", [(7, 1500000000000)])] in
  wf_by_topic wf_p32_v64 tps /\
  exists bs, enc_offset_req 13 (tag "me") tps = Ok bs /\ ulen bs <= i32_max /\
    parse_frame (frame bs) =
    Some ({| api_key := 2; api_version := 0; correlation_id := 13; client_id := Some (tag "me") |},
          OffsetRequest (-1) [(tag "a", [(0, -1, 1); (1, -2, 1)]); (tag "b", [(7, 1500000000000, 1)])]).
Proof. split; [wf_ex|]. ex_ok. split; [vm_compute; reflexivity|]. split; [wf_ex|vm_compute; reflexivity]. Qed.

Example C09_list_offsets_frame_ex :
  let tps := [(tag "a", [(0, -1); (1, -2)]); (tag "b", [(7, 1500000000000)])] in
  wf_by_topic wf_p32_v64 tps /\
  exists bs, enc_list_offsets_req 14 (tag "me") tps = Ok bs /\ ulen bs <= i32_max /\
    parse_frame (frame bs) =
    Some ({| api_key := 2; api_version := 1; correlation_id := 14; client_id := Some (tag "me") |},
          ListOffsetRequestV1 (-1) tps).
Proof. split; [wf_ex|]. ex_ok. split; [vm_compute; reflexivity|]. split; [wf_ex|vm_compute; reflexivity]. Qed.

Example C09_offset_fetch_frame_ex :
  let tps := [(tag "a", [0; 1; 2]); (tag "b", [5])] in
  wf_by_topic in_i32 tps /\
  exists bs, enc_offset_fetch_req 15 (tag "me") (tag "grp") 1 tps = Ok bs /\ ulen bs <= i32_max /\
    parse_frame (frame bs) =
    Some ({| api_key := 9; api_version := 1; correlation_id := 15; client_id := Some (tag "me") |},
          OffsetFetchRequest (tag "grp") tps).
Proof. split; [wf_ex|]. ex_ok. split; [vm_compute; reflexivity|]. split; [wf_ex|vm_compute; reflexivity]. Qed.

(* a fetch request with two topics *)
Example C09_fetch_frame_ex :
  let tps := [(tag "t1", [(0, (5, 1000)); (1, (6, 2000))]); (tag "t2", [(3, (0, 32768))])] in
  wf_fetch tps /\ in_i32 100 /\ in_i32 4096 /\ in_i32 7 /\
  exists bs, enc_fetch_req 7 (tag "cid") 100 4096 tps = Ok bs /\ ulen bs <= i32_max /\
    parse_frame (frame bs) =
    Some ({| api_key := 1; api_version := 0; correlation_id := 7; client_id := Some (tag "cid") |},
          FetchRequest (-1) 100 4096 [(tag "t1", [(0, 5, 1000); (1, 6, 2000)]); (tag "t2", [(3, 0, 32768)])]).
Proof.
  split; [wf_ex|]. split; [wf_ex|]. split; [wf_ex|]. split; [wf_ex|].
  ex_ok. split; [vm_compute; reflexivity|]. split; [wf_ex|vm_compute; reflexivity].
Qed.

(* the bytes themselves, for the record *)
Example C09_fetch_bytes_ex :
  option_map (@length byte)
    (match enc_fetch_req 7 (tag "cid") 100 4096 [(tag "t1", [(0, (5, 1000)); (1, (6, 2000))])] with
     | Ok bs => Some (frame bs) | _ => None end) = Some 73%nat.
Proof. vm_compute. reflexivity. Qed.

(* a commit v1 *)
Example C09_offset_commit_v1_frame_ex :
  let tps := [(tag "t1", [(0, 42); (1, 43)]); (tag "t2", [(9, 0)])] in
  wf_by_topic wf_p32_v64 tps /\
  exists bs, enc_offset_commit_req 16 (tag "me") (tag "grp") 1 tps = Ok bs /\ ulen bs <= i32_max /\
    parse_frame (frame bs) =
    Some ({| api_key := 8; api_version := 1; correlation_id := 16; client_id := Some (tag "me") |},
          OffsetCommitRequestV1 (tag "grp") (-1) []
            [(tag "t1", [(0, 42, -1, Some []); (1, 43, -1, Some [])]); (tag "t2", [(9, 0, -1, Some [])])]).
Proof. split; [wf_ex|]. ex_ok. split; [vm_compute; reflexivity|]. split; [wf_ex|vm_compute; reflexivity]. Qed.

Example C09_offset_commit_v0_frame_ex :
  exists bs, enc_offset_commit_req 17 (tag "me") (tag "grp") 0 [(tag "t1", [(0, 42)])] = Ok bs /\ ulen bs <= i32_max /\
    parse_frame (frame bs) =
    Some ({| api_key := 8; api_version := 0; correlation_id := 17; client_id := Some (tag "me") |},
          OffsetCommitRequestV0 (tag "grp") [(tag "t1", [(0, 42, Some [])])]).
Proof. ex_ok. split; [vm_compute; reflexivity|]. split; [wf_ex|vm_compute; reflexivity]. Qed.

Example C09_offset_commit_v2_frame_ex :
  exists bs, enc_offset_commit_req 18 (tag "me") (tag "grp") 2 [(tag "t1", [(0, 42)])] = Ok bs /\ ulen bs <= i32_max /\
    parse_frame (frame bs) =
    Some ({| api_key := 8; api_version := 2; correlation_id := 18; client_id := Some (tag "me") |},
          OffsetCommitRequestV2 (tag "grp") (-1) [] (-1) [(tag "t1", [(0, 42, Some [])])]).
Proof. ex_ok. split; [vm_compute; reflexivity|]. split; [wf_ex|vm_compute; reflexivity]. Qed.

Example C09_offset_commit_panic_ex :
  enc_offset_commit_req 1 (tag "me") (tag "grp") 3 [] = Panic (tag "Unknown offset commit version code").
Proof. vm_compute. reflexivity. Qed.

(* produce: two topics, a null key, acks = -1; uncompressed and "gzip" (identity oracle) *)
Example C09_produce_frame_ex :
  let tps := [(tag "t1", [(0, [(None, Some (tag "v1")); (Some (tag "k"), Some (tag "v2"))]); (2, [(None, None)])]);
              (tag "t2", [(1, [(Some (tag "k3"), Some (tag "v3"))])])] in
  wf_produce tps /\ in_i16 (-1) /\ in_i32 30000 /\
  exists bs, enc_produce_req cz_id 19 (tag "me") (-1) 30000 COMPRESSION_NONE tps = Ok bs /\ ulen bs <= i32_max /\
    parse_frame (frame bs) =
    Some ({| api_key := 0; api_version := 0; correlation_id := 19; client_id := Some (tag "me") |},
          ProduceRequest (-1) 30000 (abs_by_topic (abs_produce_part cz_id COMPRESSION_NONE) tps)).
Proof.
  split; [wf_ex|]. split; [wf_ex|]. split; [wf_ex|].
  ex_ok. split; [vm_compute; reflexivity|]. split; [wf_ex|vm_compute; reflexivity].
Qed.

Example C09_produce_gzip_frame_ex :
  let tps := [(tag "t1", [(0, [(None, Some (tag "v1")); (Some (tag "k"), Some (tag "v2"))])])] in
  exists bs, enc_produce_req cz_id 20 (tag "me") 1 30000 COMPRESSION_GZIP tps = Ok bs /\ ulen bs <= i32_max /\
    parse_frame (frame bs) =
    Some ({| api_key := 0; api_version := 0; correlation_id := 20; client_id := Some (tag "me") |},
          ProduceRequest 1 30000 (abs_by_topic (abs_produce_part cz_id COMPRESSION_GZIP) tps)).
Proof. cbv zeta. ex_ok. split; [vm_compute; reflexivity|]. split; [wf_ex|vm_compute; reflexivity]. Qed.

(* the message-set field really is non-trivial: 2 messages of 26+2 and 26+1+2 bytes *)
Example C09_produce_message_set_ex :
  length (message_set_bytes cz_id COMPRESSION_NONE [(None, Some (tag "v1")); (Some (tag "k"), Some (tag "v2"))]) = 57%nat.
Proof. vm_compute. reflexivity. Qed.

(* rejects: a 32768-byte string *)
Definition long_string : bytes := repeat x61 (Z.to_nat 32768).

Example C09_group_coordinator_reject_ex :
  enc_group_coordinator_req 1 (tag "me") long_string = Err ECodec /\ long_str long_string.
Proof. split; vm_compute; reflexivity. Qed.
Example C09_metadata_reject_ex :
  enc_metadata_req 1 (tag "me") [tag "ok"; long_string] = Err ECodec /\ Exists long_str [tag "ok"; long_string].
Proof. split; [vm_compute; reflexivity|]. right. left. vm_compute. reflexivity. Qed.
Example C09_fetch_reject_ex :
  enc_fetch_req 1 long_string 100 4096 [(tag "t", [(0, (0, 1))])] = Err ECodec.
Proof. vm_compute. reflexivity. Qed.
Example C09_offset_reject_ex : enc_offset_req 1 (tag "me") [(long_string, [(0, -1)])] = Err ECodec.
Proof. vm_compute. reflexivity. Qed.
Example C09_list_offsets_reject_ex : enc_list_offsets_req 1 (tag "me") [(long_string, [(0, -1)])] = Err ECodec.
Proof. vm_compute. reflexivity. Qed.
Example C09_offset_fetch_reject_ex : enc_offset_fetch_req 1 (tag "me") long_string 1 [] = Err ECodec.
Proof. vm_compute. reflexivity. Qed.
Example C09_offset_commit_reject_ex : enc_offset_commit_req 1 (tag "me") long_string 2 [] = Err ECodec.
Proof. vm_compute. reflexivity. Qed.
Example C09_produce_reject_ex :
  enc_produce_req cz_id 1 (tag "me") 1 100 COMPRESSION_NONE [(long_string, [(0, [(None, None)])])] = Err ECodec.
Proof. vm_compute. reflexivity. Qed.

(* ok_iff: both sides hold on a concrete input *)
Example C09_offset_commit_ok_iff_ex :
  (0 = 0 \/ 0 = 1 \/ 0 = 2) /\ ulen (tag "me") <= i16_max /\ ulen (tag "grp") <= i16_max /\
  tps_fit [(tag "t1", [(0, 42)])].
Proof. split; [left; reflexivity|]. wf_ex. Qed.

(* a negative size prefix is not a frame; trailing garbage is not a frame *)
Example C09_parse_frame_rejects_garbage :
  parse_frame (frame [x00; x03; x00; x00; x00; x00; x00; x01; xff; xff; x00; x00; x00; x00; x00]) = None /\
  parse_frame (frame [x00; x03; x00; x00; x00; x00; x00; x01; xff; xff; x00; x00; x00; x00]) =
    Some ({| api_key := 3; api_version := 0; correlation_id := 1; client_id := None |}, MetadataRequest []).
Proof. split; vm_compute; reflexivity. Qed.

(* the well-formedness hypotheses are needed: integers are truncated to their wire width
   silently (partition 2^32+1 goes out as partition 1), and enc_offset_fetch_req writes
   whatever version it is given *)
Example C09_fetch_wf_needed_ex :
  match enc_fetch_req 7 (tag "cid") 100 4096 [(tag "t", [(4294967297, (5, 1000))])] with
  | Ok bs => parse_frame (frame bs) | _ => None end =
  Some ({| api_key := 1; api_version := 0; correlation_id := 7; client_id := Some (tag "cid") |},
        FetchRequest (-1) 100 4096 [(tag "t", [(1, 5, 1000)])]).
Proof. vm_compute. reflexivity. Qed.
Example C09_offset_fetch_version_needed_ex :
  match enc_offset_fetch_req 7 (tag "cid") (tag "g") 5 [] with
  | Ok bs => parse_frame (frame bs) | _ => None end = None.
Proof. vm_compute. reflexivity. Qed.

(* ======================================================================= *)
Print Assumptions C09_metadata_frame.
Print Assumptions C09_metadata_reject.
Print Assumptions C09_metadata_no_panic.
Print Assumptions C09_metadata_ok_iff.
Print Assumptions C09_group_coordinator_frame.
Print Assumptions C09_group_coordinator_reject.
Print Assumptions C09_group_coordinator_no_panic.
Print Assumptions C09_group_coordinator_ok_iff.
Print Assumptions C09_offset_frame.
Print Assumptions C09_offset_reject.
Print Assumptions C09_offset_no_panic.
Print Assumptions C09_offset_ok_iff.
Print Assumptions C09_list_offsets_frame.
Print Assumptions C09_list_offsets_reject.
Print Assumptions C09_list_offsets_no_panic.
Print Assumptions C09_list_offsets_ok_iff.
Print Assumptions C09_offset_fetch_frame.
Print Assumptions C09_offset_fetch_reject.
Print Assumptions C09_offset_fetch_no_panic.
Print Assumptions C09_offset_fetch_ok_iff.
Print Assumptions C09_fetch_frame.
Print Assumptions C09_fetch_reject.
Print Assumptions C09_fetch_no_panic.
Print Assumptions C09_fetch_ok_iff.
Print Assumptions C09_offset_commit_frame.
Print Assumptions C09_offset_commit_v0_frame.
Print Assumptions C09_offset_commit_v1_frame.
Print Assumptions C09_offset_commit_v2_frame.
Print Assumptions C09_offset_commit_reject.
Print Assumptions C09_offset_commit_panic_iff.
Print Assumptions C09_offset_commit_ok_iff.
Print Assumptions C09_produce_frame.
Print Assumptions C09_produce_partition_bytes.
Print Assumptions C09_produce_reject.
Print Assumptions C09_produce_no_panic.
Print Assumptions C09_frame_oversize.
Print Assumptions C09_corr_increases.
Print Assumptions C09_corr_in_i32.
Print Assumptions C09_corr_sequence.
Print Assumptions C09_corr_wrap_refuted.
