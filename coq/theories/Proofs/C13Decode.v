(* C13, part 1: no broker reply can crash the DECODERS.

   - the seven flat response decoders (`dec_*_resp`) are total: for every byte
     string they return Ok or Err, never Panic, never Err EOutOfFuel
   - the fetch response decoder (`fetch_from_vec`, `from_slice`) returns Ok, Err,
     or one of exactly three escape hatches:
       alloc_panic                    a snappy chunk header announcing >= 1 GiB   (refuted: C13_snappy_alloc_refuted)
       Panic "debug_assert r.is_empty"  debug builds only                         (refuted: C13_debug_assert_refuted)
       Err EOutOfFuel                 compressed sets nested deeper than `depth`
   The layers above the decoders are in C13Facts.v. *)
From KV Require Import Base.Prelude Base.Snappy Gen.Consts Model.Codecs Model.Requests Model.Responses.
From KV Require Import Proofs.SnappyFacts.
From Coq Require Import ZifyBool.

Definition no_panic {A} (r : res A) : Prop :=
  match r with Panic _ => False | Err EOutOfFuel => False | _ => True end.

(* ====================================================================== *)
(* a generic "well behaved decoder" predicate                              *)
(* ====================================================================== *)
(* E  : what an `Err EOutOfFuel` outcome is allowed to mean
   PW : which panics are allowed
   For the flat decoders both are False. *)
Section Gen.
Variable E : Prop.
Variable PW : bytes -> Prop.

(* the outcome of a decoder that was given n bytes: on success strictly fewer
   (lt_ok) / at most as many (le_ok) bytes are left *)
Definition lt_ok {A} (n : nat) (r : res (A * bytes)) : Prop :=
  match r with
  | Ok (_, rest) => (length rest < n)%nat
  | Err e => e = EOutOfFuel -> E
  | Panic w => PW w
  end.
Definition le_ok {A} (n : nat) (r : res (A * bytes)) : Prop :=
  match r with
  | Ok (_, rest) => (length rest <= n)%nat
  | Err e => e = EOutOfFuel -> E
  | Panic w => PW w
  end.

(* never an unexpected panic, never out of fuel, and at least one byte consumed on success *)
Definition good {A} (d : bytes -> res (A * bytes)) : Prop := forall bs, lt_ok (length bs) (d bs).

Lemma lt_le {A} n (r : res (A * bytes)) : lt_ok n r -> le_ok n r.
Proof. destruct r as [[a rest]|e|w]; cbn [lt_ok le_ok]; auto. lia. Qed.

Lemma le_mono {A} n m (r : res (A * bytes)) : (n <= m)%nat -> le_ok n r -> le_ok m r.
Proof. intros H. destruct r as [[a rest]|e|w]; cbn [le_ok]; auto. lia. Qed.

Lemma le_ret {A} n (a : A) rest : (length rest <= n)%nat -> le_ok n (Ok (a, rest)).
Proof. intros H. exact H. Qed.

Lemma le_err {A} n e : e <> EOutOfFuel -> @le_ok A n (Err e).
Proof. intros H H'. contradiction. Qed.

(* sequencing: a good decoder followed by anything that does not grow the rest *)
Lemma le_step {A B} (d : bytes -> res (A * bytes)) (K : A * bytes -> res (B * bytes)) n bs :
  good d -> (length bs <= n)%nat ->
  (forall x (r : bytes), (length r < length bs)%nat -> le_ok (length r) (K (x, r))) ->
  le_ok n (bind (d bs) K).
Proof.
  intros Hd Hn HK. specialize (Hd bs). destruct (d bs) as [[x r]|e|w]; cbn [lt_ok bind] in *.
  - apply le_mono with (length r); [lia|]. apply HK. exact Hd.
  - exact Hd.
  - exact Hd.
Qed.

Lemma lt_step {A B} (d : bytes -> res (A * bytes)) (K : A * bytes -> res (B * bytes)) bs :
  good d ->
  (forall x (r : bytes), (length r < length bs)%nat -> le_ok (length r) (K (x, r))) ->
  lt_ok (length bs) (bind (d bs) K).
Proof.
  intros Hd HK. specialize (Hd bs). destruct (d bs) as [[x r]|e|w]; cbn [lt_ok bind] in *.
  - specialize (HK x r Hd). revert HK. destruct (K (x, r)) as [[y r']|e|w]; cbn [le_ok lt_ok]; auto. lia.
  - exact Hd.
  - exact Hd.
Qed.

(* ---- primitives: Cursor readers ------------------------------------------------ *)
Lemma cread_good n : (0 < n)%nat -> good (cread n).
Proof.
  intros Hn bs. unfold cread. destruct (Nat.ltb (length bs) n) eqn:El; cbn [lt_ok].
  - discriminate.
  - apply Nat.ltb_ge in El. rewrite skipn_length. lia.
Qed.

Lemma cread_map_good n (f : bytes -> Z) : (0 < n)%nat ->
  good (fun bs => let* '(x, r) := cread n bs in Ok (f x, r)).
Proof.
  intros Hn bs. apply lt_step; [apply cread_good; exact Hn|].
  intros x r Hr. cbn beta iota. apply le_ret. lia.
Qed.

Lemma dec_i8_good : good dec_i8.  Proof. apply cread_map_good. lia. Qed.
Lemma dec_i16_good : good dec_i16. Proof. apply cread_map_good. lia. Qed.
Lemma dec_i32_good : good dec_i32. Proof. apply cread_map_good. lia. Qed.
Lemma dec_i64_good : good dec_i64. Proof. apply cread_map_good. lia. Qed.

Lemma dec_string_good : good dec_string.
Proof.
  intros bs. unfold dec_string. apply lt_step; [apply dec_i16_good|].
  intros len r Hr. cbn beta iota.
  destruct (len <=? 0); [apply le_ret; lia|].
  destruct (Nat.eqb _ _ && _); [|apply le_err; discriminate].
  apply le_ret. rewrite skipn_length. lia.
Qed.

Lemma dec_bytes_good : good dec_bytes.
Proof.
  intros bs. unfold dec_bytes. apply lt_step; [apply dec_i32_good|].
  intros len r Hr. cbn beta iota.
  destruct (len <=? 0); [apply le_ret; lia|].
  destruct (ulen r <? len); [apply le_err; discriminate|].
  apply le_ret. rewrite skipn_length. lia.
Qed.

(* ---- the counted loop: |input| + 1 fuel is always enough ------------------------------ *)
(* whatever the announced count is (2^31-1 included): every successful element
   consumes a byte, so the input runs out before the fuel does *)
Lemma dec_many_ok {A} (d : dec A) : good d ->
  forall fuel count bs, (length bs < fuel)%nat -> le_ok (length bs) (dec_many d fuel count bs).
Proof.
  intros Hd. induction fuel as [|f IH]; intros count bs Hf; [lia|].
  cbn [dec_many]. destruct (count <=? 0); [apply le_ret; lia|].
  apply le_step; [exact Hd|lia|].
  intros x r Hr. cbn beta iota.
  specialize (IH (count - 1) r ltac:(lia)). revert IH.
  destruct (dec_many d f (count - 1) r) as [[xs r']|e|w]; cbn [le_ok bind]; auto.
Qed.

Lemma dec_vec_good {A} sz (d : dec A) : good d -> good (dec_vec sz d).
Proof.
  intros Hd bs. unfold dec_vec. apply lt_step; [apply dec_i32_good|].
  intros len r Hr. cbn beta iota.
  destruct (len <=? 0); [apply le_ret; lia|].
  apply dec_many_ok; [exact Hd|lia].
Qed.

(* ---- primitives: slice (ZReader) readers ------------------------------------------------ *)
Lemma zread_good n : (0 < n)%nat -> good (zread n).
Proof.
  intros Hn bs. unfold zread. destruct (Nat.ltb (length bs) n) eqn:El; cbn [lt_ok].
  - discriminate.
  - apply Nat.ltb_ge in El. rewrite skipn_length. lia.
Qed.

Lemma zread_map_good n (f : bytes -> Z) : (0 < n)%nat ->
  good (fun bs => let* '(x, r) := zread n bs in Ok (f x, r)).
Proof.
  intros Hn bs. apply lt_step; [apply zread_good; exact Hn|].
  intros x r Hr. cbn beta iota. apply le_ret. lia.
Qed.

Lemma zread_i8_good : good zread_i8.  Proof. apply zread_map_good. lia. Qed.
Lemma zread_i16_good : good zread_i16. Proof. apply zread_map_good. lia. Qed.
Lemma zread_i32_good : good zread_i32. Proof. apply zread_map_good. lia. Qed.
Lemma zread_i64_good : good zread_i64. Proof. apply zread_map_good. lia. Qed.

Lemma zread_bytes_good : good zread_bytes.
Proof.
  intros bs. unfold zread_bytes. apply lt_step; [apply zread_i32_good|].
  intros len r Hr. cbn beta iota.
  destruct (len <=? 0); [apply le_ret; lia|].
  destruct (Z.of_nat (length r) <? len); [apply le_err; discriminate|].
  unfold zread. destruct (Nat.ltb _ _); [apply le_err; discriminate|].
  apply le_ret. rewrite skipn_length. lia.
Qed.

Lemma zread_array_len_good : good zread_array_len.
Proof.
  intros bs. unfold zread_array_len. apply lt_step; [apply zread_i32_good|].
  intros len r Hr. cbn beta iota. apply le_ret. lia.
Qed.

Lemma zread_str_good : good zread_str.
Proof.
  intros bs. unfold zread_str. apply lt_step; [apply zread_i16_good|].
  intros len r Hr. cbn beta iota.
  destruct (len <=? 0); [apply le_ret; lia|].
  unfold zread. destruct (Nat.ltb _ _); cbn [bind]; [apply le_err; discriminate|].
  destruct (Utf8.utf8_valid _); [|apply le_err; discriminate].
  apply le_ret. rewrite skipn_length. lia.
Qed.

Lemma zread_many_ok {A} (d : bytes -> res (A * bytes)) : good d ->
  forall fuel count bs, (length bs < fuel)%nat -> le_ok (length bs) (zread_many d fuel count bs).
Proof.
  intros Hd. induction fuel as [|f IH]; intros count bs Hf; [lia|].
  cbn [zread_many]. destruct (count <=? 0); [apply le_ret; lia|].
  apply le_step; [exact Hd|lia|].
  intros x r Hr. cbn beta iota.
  specialize (IH (count - 1) r ltac:(lia)). revert IH.
  destruct (zread_many d f (count - 1) r) as [[xs r']|e|w]; cbn [le_ok bind]; auto.
Qed.

Lemma zread_array_good {A} sz (d : bytes -> res (A * bytes)) : good d -> good (zread_array sz d).
Proof.
  intros Hd bs. unfold zread_array. apply lt_step; [apply zread_array_len_good|].
  intros n r Hr. cbn beta iota. apply zread_many_ok; [exact Hd|lia].
Qed.

End Gen.

Arguments lt_ok E PW {A} n r.
Arguments le_ok E PW {A} n r.
Arguments good E PW {A} d.

Create HintDb c13 discriminated.
#[export] Hint Resolve dec_i8_good dec_i16_good dec_i32_good dec_i64_good dec_string_good dec_bytes_good
  dec_vec_good zread_i8_good zread_i16_good zread_i32_good zread_i64_good zread_bytes_good
  zread_array_len_good zread_str_good zread_array_good : c13.

(* `let* '(a, r) := d1 r0 in let* '(b, r) := d2 r in ... Ok (v, r)` *)
Ltac dec_steps :=
  repeat first
    [ apply le_ret; lia
    | apply le_step; [ solve [eauto with c13] | lia | intros ? ? ?; cbn beta iota ] ].
Ltac dec_good :=
  let bs := fresh "bs" in
  intros bs; apply lt_step; [ solve [eauto with c13] | intros ? ? ?; cbn beta iota; dec_steps ].

(* ====================================================================== *)
(* the flat decoders                                                       *)
(* ====================================================================== *)
Notation fgood := (good False (fun _ => False)).

Lemma fgood_no_panic {A} (d : bytes -> res (A * bytes)) : fgood d -> forall bs, no_panic (d bs).
Proof.
  intros Hd bs. specialize (Hd bs). destruct (d bs) as [[a r]|e|w]; cbn [lt_ok no_panic] in *; auto.
  destruct e; auto.
Qed.

(* the generic lemma of the task, in plain words *)
Theorem C13_dec_vec_total : forall A sz (d : dec A),
  (forall bs, match d bs with
              | Ok (_, r) => (length r < length bs)%nat     (* consumes at least one byte *)
              | Err e => e <> EOutOfFuel
              | Panic _ => False end) ->
  forall bs, match dec_vec sz d bs with
             | Ok (_, r) => (length r < length bs)%nat
             | Err e => e <> EOutOfFuel
             | Panic _ => False end.
Proof.
  intros A sz d Hd bs.
  assert (G : fgood d).
  { intros b. specialize (Hd b). destruct (d b) as [[a r]|e|w]; cbn [lt_ok]; auto. }
  pose proof (dec_vec_good False (fun _ => False) sz d G bs) as H.
  destruct (dec_vec sz d bs) as [[a r]|e|w]; cbn [lt_ok] in H; auto.
Qed.

Lemma dec_corr_good E PW : good E PW dec_corr.
Proof. apply dec_i32_good. Qed.
#[export] Hint Resolve dec_corr_good : c13.

Lemma dec_broker_md_good E PW : good E PW dec_broker_md.
Proof. unfold dec_broker_md. dec_good. Qed.
Lemma dec_partition_md_good E PW : good E PW dec_partition_md.
Proof. unfold dec_partition_md. dec_good. Qed.
#[export] Hint Resolve dec_broker_md_good dec_partition_md_good : c13.
Lemma dec_topic_md_good E PW : good E PW dec_topic_md.
Proof. unfold dec_topic_md. dec_good. Qed.
#[export] Hint Resolve dec_topic_md_good : c13.
Lemma dec_metadata_resp_good E PW : good E PW dec_metadata_resp.
Proof. unfold dec_metadata_resp. dec_good. Qed.

Lemma dec_tps_good E PW {P} psize (dp : dec P) : good E PW dp -> good E PW (dec_tps psize dp).
Proof. intros Hp. unfold dec_tps. apply dec_vec_good. dec_good. Qed.
#[export] Hint Resolve dec_tps_good : c13.

Lemma dec_part_offset_resp_good E PW : good E PW dec_part_offset_resp.
Proof. unfold dec_part_offset_resp. dec_good. Qed.
Lemma dec_list_offset_part_good E PW : good E PW dec_list_offset_part.
Proof. unfold dec_list_offset_part. dec_good. Qed.
Lemma dec_produce_part_good E PW : good E PW dec_produce_part.
Proof. unfold dec_produce_part. dec_good. Qed.
Lemma dec_offset_fetch_part_good E PW : good E PW dec_offset_fetch_part.
Proof. unfold dec_offset_fetch_part. dec_good. Qed.
Lemma dec_offset_commit_part_good E PW : good E PW dec_offset_commit_part.
Proof. unfold dec_offset_commit_part. dec_good. Qed.
#[export] Hint Resolve dec_part_offset_resp_good dec_list_offset_part_good dec_produce_part_good
  dec_offset_fetch_part_good dec_offset_commit_part_good : c13.

Lemma dec_offset_resp_good E PW : good E PW dec_offset_resp.
Proof. unfold dec_offset_resp. dec_good. Qed.
Lemma dec_list_offsets_resp_good E PW : good E PW dec_list_offsets_resp.
Proof. unfold dec_list_offsets_resp. dec_good. Qed.
Lemma dec_produce_resp_good E PW : good E PW dec_produce_resp.
Proof. unfold dec_produce_resp. dec_good. Qed.
Lemma dec_coordinator_resp_good E PW : good E PW dec_coordinator_resp.
Proof. unfold dec_coordinator_resp. dec_good. Qed.
Lemma dec_offset_fetch_resp_good E PW : good E PW dec_offset_fetch_resp.
Proof. unfold dec_offset_fetch_resp. dec_good. Qed.
Lemma dec_offset_commit_resp_good E PW : good E PW dec_offset_commit_resp.
Proof. unfold dec_offset_commit_resp. dec_good. Qed.

Theorem C13_decode_metadata : forall bs, no_panic (dec_metadata_resp bs).
Proof. apply fgood_no_panic, dec_metadata_resp_good. Qed.
Theorem C13_decode_offsets : forall bs, no_panic (dec_offset_resp bs).
Proof. apply fgood_no_panic, dec_offset_resp_good. Qed.
Theorem C13_decode_list_offsets : forall bs, no_panic (dec_list_offsets_resp bs).
Proof. apply fgood_no_panic, dec_list_offsets_resp_good. Qed.
Theorem C13_decode_produce : forall bs, no_panic (dec_produce_resp bs).
Proof. apply fgood_no_panic, dec_produce_resp_good. Qed.
Theorem C13_decode_coordinator : forall bs, no_panic (dec_coordinator_resp bs).
Proof. apply fgood_no_panic, dec_coordinator_resp_good. Qed.
Theorem C13_decode_offset_fetch : forall bs, no_panic (dec_offset_fetch_resp bs).
Proof. apply fgood_no_panic, dec_offset_fetch_resp_good. Qed.
Theorem C13_decode_offset_commit : forall bs, no_panic (dec_offset_commit_resp bs).
Proof. apply fgood_no_panic, dec_offset_commit_resp_good. Qed.
