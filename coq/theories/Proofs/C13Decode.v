(* C13, part 1: no broker reply can crash the DECODERS.

   - the seven flat response decoders (`dec_*_resp`) are total: for every byte
     string they return Ok or Err, never Panic, never Err EOutOfFuel
   - the fetch response decoder (`fetch_from_vec`, `from_slice`) returns Ok, Err,
     or one of exactly three escape hatches:
       alloc_panic                    a snappy chunk header announcing >= 1 GiB   (refuted: C13_snappy_alloc_refuted)
       Panic "debug_assert r.is_empty"  debug builds only                         (refuted: C13_debug_assert_refuted)
       Err EOutOfFuel                 compressed sets nested deeper than `depth`
   The layers above the decoders are in C13Facts.v. *)
From KV Require Import Base.Prelude Base.Snappy Gen.Consts Model.Codecs Model.Requests Model.Responses.
From KV Require Import Proofs.BytesFacts Proofs.SnappyFacts.
From Coq Require Import ZifyBool.

Definition no_panic {A} (r : res A) : Prop :=
  match r with Panic _ => False | Err EOutOfFuel => False | _ => True end.

(* ====================================================================== *)
(* a generic "well behaved decoder" predicate                              *)
(* ====================================================================== *)
(* E  : what an `Err EOutOfFuel` outcome is allowed to mean
   PW : which panics are allowed
   For the flat decoders both are False. *)
Section Gen.
Variable E : Prop.
Variable PW : bytes -> Prop.

(* the outcome of a decoder that was given n bytes: on success strictly fewer
   (lt_ok) / at most as many (le_ok) bytes are left *)
Definition lt_ok {A} (n : nat) (r : res (A * bytes)) : Prop :=
  match r with
  | Ok (_, rest) => (length rest < n)%nat
  | Err e => e = EOutOfFuel -> E
  | Panic w => PW w
  end.
Definition le_ok {A} (n : nat) (r : res (A * bytes)) : Prop :=
  match r with
  | Ok (_, rest) => (length rest <= n)%nat
  | Err e => e = EOutOfFuel -> E
  | Panic w => PW w
  end.

(* never an unexpected panic, never out of fuel, and at least one byte consumed on success *)
Definition good {A} (d : bytes -> res (A * bytes)) : Prop := forall bs, lt_ok (length bs) (d bs).

Lemma lt_le {A} n (r : res (A * bytes)) : lt_ok n r -> le_ok n r.
Proof. destruct r as [[a rest]|e|w]; cbn [lt_ok le_ok]; auto. lia. Qed.

Lemma le_mono {A} n m (r : res (A * bytes)) : (n <= m)%nat -> le_ok n r -> le_ok m r.
Proof. intros H. destruct r as [[a rest]|e|w]; cbn [le_ok]; auto. lia. Qed.

Lemma le_ret {A} n (a : A) rest : (length rest <= n)%nat -> le_ok n (Ok (a, rest)).
Proof. intros H. exact H. Qed.

Lemma le_err {A} n e : e <> EOutOfFuel -> @le_ok A n (Err e).
Proof. intros H H'. contradiction. Qed.

(* sequencing: a good decoder followed by anything that does not grow the rest *)
Lemma le_step {A B} (d : bytes -> res (A * bytes)) (K : A * bytes -> res (B * bytes)) n bs :
  good d -> (length bs <= n)%nat ->
  (forall x (r : bytes), (length r < length bs)%nat -> le_ok (length r) (K (x, r))) ->
  le_ok n (bind (d bs) K).
Proof.
  intros Hd Hn HK. specialize (Hd bs). destruct (d bs) as [[x r]|e|w]; cbn [lt_ok bind] in *.
  - apply le_mono with (length r); [lia|]. apply HK. exact Hd.
  - exact Hd.
  - exact Hd.
Qed.

Lemma lt_step {A B} (d : bytes -> res (A * bytes)) (K : A * bytes -> res (B * bytes)) bs :
  good d ->
  (forall x (r : bytes), (length r < length bs)%nat -> le_ok (length r) (K (x, r))) ->
  lt_ok (length bs) (bind (d bs) K).
Proof.
  intros Hd HK. specialize (Hd bs). destruct (d bs) as [[x r]|e|w]; cbn [lt_ok bind] in *.
  - specialize (HK x r Hd). revert HK. destruct (K (x, r)) as [[y r']|e|w]; cbn [le_ok lt_ok]; auto. lia.
  - exact Hd.
  - exact Hd.
Qed.

(* ---- primitives: Cursor readers ------------------------------------------------ *)
Lemma cread_good n : (0 < n)%nat -> good (cread n).
Proof.
  intros Hn bs. rewrite cread_unfold. destruct (Nat.ltb (length bs) n) eqn:El; cbn [lt_ok].
  - discriminate.
  - apply Nat.ltb_ge in El. rewrite skipn_length. lia.
Qed.

Lemma cread_map_good n (f : bytes -> Z) : (0 < n)%nat ->
  good (fun bs => let* '(x, r) := cread n bs in Ok (f x, r)).
Proof.
  intros Hn bs. apply lt_step; [apply cread_good; exact Hn|].
  intros x r Hr. cbn beta iota. apply le_ret. lia.
Qed.

Lemma dec_i8_good : good dec_i8.  Proof. apply cread_map_good. lia. Qed.
Lemma dec_i16_good : good dec_i16. Proof. apply cread_map_good. lia. Qed.
Lemma dec_i32_good : good dec_i32. Proof. apply cread_map_good. lia. Qed.
Lemma dec_i64_good : good dec_i64. Proof. apply cread_map_good. lia. Qed.

Lemma dec_string_good : good dec_string.
Proof.
  intros bs. unfold dec_string. apply lt_step; [apply dec_i16_good|].
  intros len r Hr. cbn beta iota.
  destruct (len <=? 0); [apply le_ret; lia|].
  destruct (Nat.eqb _ _ && _); [|apply le_err; discriminate].
  apply le_ret. rewrite skipn_length. lia.
Qed.

Lemma dec_bytes_good : good dec_bytes.
Proof.
  intros bs. rewrite dec_bytes_unfold. apply lt_step; [apply dec_i32_good|].
  intros len r Hr. cbn beta iota.
  destruct (len <=? 0); [apply le_ret; lia|].
  destruct (ulen r <? len); [apply le_err; discriminate|].
  apply le_ret. rewrite skipn_length. lia.
Qed.

(* ---- the counted loop: |input| + 1 fuel is always enough ------------------------------ *)
(* whatever the announced count is (2^31-1 included): every successful element
   consumes a byte, so the input runs out before the fuel does *)
Lemma dec_many_ok {A} (d : dec A) : good d ->
  forall fuel count bs, (length bs < fuel)%nat -> le_ok (length bs) (dec_many d fuel count bs).
Proof.
  intros Hd. induction fuel as [|f IH]; intros count bs Hf; [lia|].
  cbn [dec_many]. destruct (count <=? 0); [apply le_ret; lia|].
  apply le_step; [exact Hd|lia|].
  intros x r Hr. cbn beta iota.
  specialize (IH (count - 1) r ltac:(lia)). revert IH.
  destruct (dec_many d f (count - 1) r) as [[xs r']|e|w]; cbn [le_ok bind]; auto.
Qed.

Lemma dec_vec_good {A} sz (d : dec A) : good d -> good (dec_vec sz d).
Proof.
  intros Hd bs. unfold dec_vec. apply lt_step; [apply dec_i32_good|].
  intros len r Hr. cbn beta iota.
  destruct (len <=? 0); [apply le_ret; lia|].
  apply dec_many_ok; [exact Hd|lia].
Qed.

(* ---- primitives: slice (ZReader) readers ------------------------------------------------ *)
Lemma zread_good n : (0 < n)%nat -> good (zread n).
Proof.
  intros Hn bs. rewrite zread_unfold. destruct (Nat.ltb (length bs) n) eqn:El; cbn [lt_ok].
  - discriminate.
  - apply Nat.ltb_ge in El. rewrite skipn_length. lia.
Qed.

Lemma zread_map_good n (f : bytes -> Z) : (0 < n)%nat ->
  good (fun bs => let* '(x, r) := zread n bs in Ok (f x, r)).
Proof.
  intros Hn bs. apply lt_step; [apply zread_good; exact Hn|].
  intros x r Hr. cbn beta iota. apply le_ret. lia.
Qed.

Lemma zread_i8_good : good zread_i8.  Proof. apply zread_map_good. lia. Qed.
Lemma zread_i16_good : good zread_i16. Proof. apply zread_map_good. lia. Qed.
Lemma zread_i32_good : good zread_i32. Proof. apply zread_map_good. lia. Qed.
Lemma zread_i64_good : good zread_i64. Proof. apply zread_map_good. lia. Qed.

Lemma zread_bytes_good : good zread_bytes.
Proof.
  intros bs. rewrite zread_bytes_unfold. apply lt_step; [apply zread_i32_good|].
  intros len r Hr. cbn beta iota.
  destruct (len <=? 0); [apply le_ret; lia|].
  destruct (Z.of_nat (length r) <? len); [apply le_err; discriminate|].
  unfold zread. destruct (Nat.ltb _ _); [apply le_err; discriminate|].
  apply le_ret. rewrite skipn_length. lia.
Qed.

Lemma zread_array_len_good : good zread_array_len.
Proof.
  intros bs. unfold zread_array_len. apply lt_step; [apply zread_i32_good|].
  intros len r Hr. cbn beta iota. apply le_ret. lia.
Qed.

Lemma zread_str_good : good zread_str.
Proof.
  intros bs. unfold zread_str. apply lt_step; [apply zread_i16_good|].
  intros len r Hr. cbn beta iota.
  destruct (len <=? 0); [apply le_ret; lia|].
  unfold zread. destruct (Nat.ltb _ _); cbn [bind]; [apply le_err; discriminate|].
  destruct (Utf8.utf8_valid _); [|apply le_err; discriminate].
  apply le_ret. rewrite skipn_length. lia.
Qed.

Lemma zread_many_ok {A} (d : bytes -> res (A * bytes)) : good d ->
  forall fuel count bs, (length bs < fuel)%nat -> le_ok (length bs) (zread_many d fuel count bs).
Proof.
  intros Hd. induction fuel as [|f IH]; intros count bs Hf; [lia|].
  cbn [zread_many]. destruct (count <=? 0); [apply le_ret; lia|].
  apply le_step; [exact Hd|lia|].
  intros x r Hr. cbn beta iota.
  specialize (IH (count - 1) r ltac:(lia)). revert IH.
  destruct (zread_many d f (count - 1) r) as [[xs r']|e|w]; cbn [le_ok bind]; auto.
Qed.

Lemma zread_array_good {A} sz (d : bytes -> res (A * bytes)) : good d -> good (zread_array sz d).
Proof.
  intros Hd bs. unfold zread_array. apply lt_step; [apply zread_array_len_good|].
  intros n r Hr. cbn beta iota. apply zread_many_ok; [exact Hd|lia].
Qed.

End Gen.

Arguments lt_ok E PW {A} n r.
Arguments le_ok E PW {A} n r.
Arguments good E PW {A} d.

Create HintDb c13 discriminated.
#[export] Hint Resolve dec_i8_good dec_i16_good dec_i32_good dec_i64_good dec_string_good dec_bytes_good
  dec_vec_good zread_i8_good zread_i16_good zread_i32_good zread_i64_good zread_bytes_good
  zread_array_len_good zread_str_good zread_array_good : c13.

(* `let* '(a, r) := d1 r0 in let* '(b, r) := d2 r in ... Ok (v, r)` *)
Ltac dec_steps :=
  repeat first
    [ apply le_ret; lia
    | apply le_step; [ solve [eauto with c13] | lia | intros ? ? ?; cbn beta iota ] ].
Ltac dec_good :=
  let bs := fresh "bs" in
  intros bs; apply lt_step; [ solve [eauto with c13] | intros ? ? ?; cbn beta iota; dec_steps ].

(* ====================================================================== *)
(* the flat decoders                                                       *)
(* ====================================================================== *)
Notation fgood := (good False (fun _ => False)).

Lemma fgood_no_panic {A} (d : bytes -> res (A * bytes)) : fgood d -> forall bs, no_panic (d bs).
Proof.
  intros Hd bs. specialize (Hd bs). destruct (d bs) as [[a r]|e|w]; cbn [lt_ok no_panic] in *; auto.
  destruct e; auto.
Qed.

(* the generic lemma of the task, in plain words *)
Theorem C13_dec_vec_total : forall A sz (d : dec A),
  (forall bs, match d bs with
              | Ok (_, r) => (length r < length bs)%nat     (* consumes at least one byte *)
              | Err e => e <> EOutOfFuel
              | Panic _ => False end) ->
  forall bs, match dec_vec sz d bs with
             | Ok (_, r) => (length r < length bs)%nat
             | Err e => e <> EOutOfFuel
             | Panic _ => False end.
Proof.
  intros A sz d Hd bs.
  assert (G : fgood d).
  { intros b. specialize (Hd b). destruct (d b) as [[a r]|e|w]; cbn [lt_ok]; auto. }
  pose proof (dec_vec_good False (fun _ => False) sz d G bs) as H.
  destruct (dec_vec sz d bs) as [[a r]|e|w]; cbn [lt_ok] in H; auto.
Qed.

Lemma dec_corr_good E PW : good E PW dec_corr.
Proof. apply dec_i32_good. Qed.
#[export] Hint Resolve dec_corr_good : c13.

Lemma dec_broker_md_good E PW : good E PW dec_broker_md.
Proof. unfold dec_broker_md. dec_good. Qed.
Lemma dec_partition_md_good E PW : good E PW dec_partition_md.
Proof. unfold dec_partition_md. dec_good. Qed.
#[export] Hint Resolve dec_broker_md_good dec_partition_md_good : c13.
Lemma dec_topic_md_good E PW : good E PW dec_topic_md.
Proof. unfold dec_topic_md. dec_good. Qed.
#[export] Hint Resolve dec_topic_md_good : c13.
Lemma dec_metadata_resp_good E PW : good E PW dec_metadata_resp.
Proof. unfold dec_metadata_resp. dec_good. Qed.

Lemma dec_tps_good E PW {P} psize (dp : dec P) : good E PW dp -> good E PW (dec_tps psize dp).
Proof. intros Hp. unfold dec_tps. apply dec_vec_good. dec_good. Qed.
#[export] Hint Resolve dec_tps_good : c13.

Lemma dec_part_offset_resp_good E PW : good E PW dec_part_offset_resp.
Proof. unfold dec_part_offset_resp. dec_good. Qed.
Lemma dec_list_offset_part_good E PW : good E PW dec_list_offset_part.
Proof. unfold dec_list_offset_part. dec_good. Qed.
Lemma dec_produce_part_good E PW : good E PW dec_produce_part.
Proof. unfold dec_produce_part. dec_good. Qed.
Lemma dec_offset_fetch_part_good E PW : good E PW dec_offset_fetch_part.
Proof. unfold dec_offset_fetch_part. dec_good. Qed.
Lemma dec_offset_commit_part_good E PW : good E PW dec_offset_commit_part.
Proof. unfold dec_offset_commit_part. dec_good. Qed.
#[export] Hint Resolve dec_part_offset_resp_good dec_list_offset_part_good dec_produce_part_good
  dec_offset_fetch_part_good dec_offset_commit_part_good : c13.

Lemma dec_offset_resp_good E PW : good E PW dec_offset_resp.
Proof. unfold dec_offset_resp. dec_good. Qed.
Lemma dec_list_offsets_resp_good E PW : good E PW dec_list_offsets_resp.
Proof. unfold dec_list_offsets_resp. dec_good. Qed.
Lemma dec_produce_resp_good E PW : good E PW dec_produce_resp.
Proof. unfold dec_produce_resp. dec_good. Qed.
Lemma dec_coordinator_resp_good E PW : good E PW dec_coordinator_resp.
Proof. unfold dec_coordinator_resp. dec_good. Qed.
Lemma dec_offset_fetch_resp_good E PW : good E PW dec_offset_fetch_resp.
Proof. unfold dec_offset_fetch_resp. dec_good. Qed.
Lemma dec_offset_commit_resp_good E PW : good E PW dec_offset_commit_resp.
Proof. unfold dec_offset_commit_resp. dec_good. Qed.

Theorem C13_decode_metadata : forall bs, no_panic (dec_metadata_resp bs).
Proof. apply fgood_no_panic, dec_metadata_resp_good. Qed.
Theorem C13_decode_offsets : forall bs, no_panic (dec_offset_resp bs).
Proof. apply fgood_no_panic, dec_offset_resp_good. Qed.
Theorem C13_decode_list_offsets : forall bs, no_panic (dec_list_offsets_resp bs).
Proof. apply fgood_no_panic, dec_list_offsets_resp_good. Qed.
Theorem C13_decode_produce : forall bs, no_panic (dec_produce_resp bs).
Proof. apply fgood_no_panic, dec_produce_resp_good. Qed.
Theorem C13_decode_coordinator : forall bs, no_panic (dec_coordinator_resp bs).
Proof. apply fgood_no_panic, dec_coordinator_resp_good. Qed.
Theorem C13_decode_offset_fetch : forall bs, no_panic (dec_offset_fetch_resp bs).
Proof. apply fgood_no_panic, dec_offset_fetch_resp_good. Qed.
Theorem C13_decode_offset_commit : forall bs, no_panic (dec_offset_commit_resp bs).
Proof. apply fgood_no_panic, dec_offset_commit_resp_good. Qed.

(* ---- examples: a concrete metadata response, truncated and corrupted ------------------- *)
Definition np_b {A} (r : res A) : bool :=
  match r with Panic _ => false | Err EOutOfFuel => false | _ => true end.
Lemma np_b_iff {A} (r : res A) : np_b r = true <-> no_panic r.
Proof. destruct r as [a|e|w]; cbn; [tauto| |split; [discriminate|tauto]]. destruct e; cbn; split; auto; discriminate. Qed.

(* corr 7; one broker (1, "host", 9092); one topic (0, "tp", one partition (0, 0, leader 1, [1], [1])) *)
Definition ex_md : bytes :=
  enc_i32 7 ++ enc_i32 1 ++ (enc_i32 1 ++ enc_i16 4 ++ tag "host" ++ enc_i32 9092)
  ++ enc_i32 1 ++ (enc_i16 0 ++ enc_i16 2 ++ tag "tp"
                   ++ enc_i32 1 ++ (enc_i16 0 ++ enc_i32 0 ++ enc_i32 1
                                    ++ enc_i32 1 ++ enc_i32 1 ++ enc_i32 1 ++ enc_i32 1)).
Definition patch (pos : nat) (v : bytes) (bs : bytes) : bytes :=
  firstn pos bs ++ v ++ skipn (pos + length v) bs.

Example ex_md_decodes :
  length ex_md = 62%nat /\
  dec_metadata_resp ex_md =
    Ok ({| md_corr := 7;
           md_brokers := [{| bm_node := 1; bm_host := tag "host"; bm_port := 9092 |}];
           md_topics := [{| tm_error := 0; tm_topic := tag "tp";
                            tm_partitions := [{| pm_error := 0; pm_id := 0; pm_leader := 1;
                                                 pm_replicas := [1]; pm_isr := [1] |}] |}] |}, []).
Proof. vm_compute. split; reflexivity. Qed.

(* truncated at every byte *)
Example ex_md_truncated :
  forallb (fun n => np_b (dec_metadata_resp (firstn n ex_md))) (seq 0 63) = true.
Proof. vm_compute. reflexivity. Qed.
(* ... and every proper prefix is an error, not a silent success *)
Example ex_md_truncated_err :
  forallb (fun n => negb (is_ok (dec_metadata_resp (firstn n ex_md)))) (seq 0 62) = true.
Proof. vm_compute. reflexivity. Qed.

(* each of the five count fields (brokers, topics, partitions, replicas, isr) replaced by
   2^31-1, -1, -2^31, 2 and 0 *)
Example ex_md_counts :
  forallb (fun pos =>
    forallb (fun v => np_b (dec_metadata_resp (patch pos (enc_i32 v) ex_md)))
            [2147483647; -1; -2147483648; 2; 0])
    [4; 22; 32; 46; 54]%nat = true.
Proof. vm_compute. reflexivity. Qed.
Example ex_md_count_max :
  dec_metadata_resp (patch 4 (enc_i32 2147483647) ex_md) = Err (EIo IoUnexpectedEof)
  /\ dec_metadata_resp (patch 32 (enc_i32 2147483647) ex_md) = Err (EIo IoUnexpectedEof)
  (* a negative count is an empty array; the 4 bytes left over are ignored *)
  /\ is_ok (dec_metadata_resp (patch 54 (enc_i32 (-1)) ex_md)) = true.
Proof. vm_compute. repeat split; reflexivity. Qed.

(* every single byte replaced by 00, 7f, 80, ff *)
Example ex_md_bytes :
  forallb (fun pos =>
    forallb (fun b => np_b (dec_metadata_resp (patch pos [b] ex_md))) [x00; x7f; x80; xff])
    (seq 0 62) = true.
Proof. vm_compute. reflexivity. Qed.

(* the same for a produce response and the other shapes *)
Definition ex_produce : bytes :=
  enc_i32 7 ++ enc_i32 1 ++ (enc_i16 2 ++ tag "tp" ++ enc_i32 1 ++ (enc_i32 0 ++ enc_i16 0 ++ enc_i64 42)).
Example ex_produce_truncated :
  is_ok (dec_produce_resp ex_produce) = true /\
  forallb (fun n => np_b (dec_produce_resp (firstn n ex_produce))
                    && np_b (dec_offset_resp (firstn n ex_produce))
                    && np_b (dec_list_offsets_resp (firstn n ex_produce))
                    && np_b (dec_coordinator_resp (firstn n ex_produce))
                    && np_b (dec_offset_fetch_resp (firstn n ex_produce))
                    && np_b (dec_offset_commit_resp (firstn n ex_produce)))
          (seq 0 (S (length ex_produce))) = true.
Proof. vm_compute. split; reflexivity. Qed.

(* ====================================================================== *)
(* fetch responses                                                         *)
(* ====================================================================== *)

(* outcome of something that is not a (value, rest) decoder *)
Definition out_ok (E : Prop) (PW : bytes -> Prop) {A} (r : res A) : Prop :=
  match r with Ok _ => True | Err e => e = EOutOfFuel -> E | Panic w => PW w end.

Lemma out_ok_weaken (E E' : Prop) (PW PW' : bytes -> Prop) {A} (r : res A) :
  (E -> E') -> (forall w, PW w -> PW' w) -> out_ok E PW r -> out_ok E' PW' r.
Proof. intros HE HP. destruct r as [a|e|w]; cbn [out_ok]; auto. Qed.

Definition dbg_tag : bytes := tag "debug_assert r.is_empty".
Definition dbg_panic (dbg : bool) (w : bytes) : Prop := dbg = true /\ w = dbg_tag.

(* ---- the snappy reader never panics and never runs out of fuel ---------------------------- *)
Lemma xerial_loop_no_panic : forall fuel data out mx w, fst (xerial_loop fuel data out mx) <> Panic w.
Proof.
  induction fuel as [|fuel IH]; intros data out mx w; destruct data as [|b data]; cbn [xerial_loop fst];
    try discriminate.
  destruct (zread_i32 (b :: data)) as [[cs r]|e|w']; cbn [fst]; try discriminate.
  destruct (cs <=? 0); [discriminate|].
  destruct (Z.of_nat (length r) <? cs); [discriminate|].
  destruct (uncompress_to _ out) as [out'|]; [apply IH|discriminate].
Qed.

Lemma xerial_read_to_end_out : forall v, out_ok False (fun _ => False) (xerial_read_to_end v).
Proof.
  intros v. pose proof (xerial_read_to_end_total v) as H. cbv zeta in H.
  destruct H as [[o H]|[H|[H|[H|H]]]]; rewrite H; cbn [out_ok]; try discriminate; auto.
  exfalso. revert H. unfold xerial_read_to_end, xerial_run.
  destruct (validate_stream_cases v) as [[data ->]|[->| ->]]; cbn [fst]; try discriminate.
  apply xerial_loop_no_panic.
Qed.

(* ---- one message ------------------------------------------------------------------------------ *)
Ltac zr H :=
  match goal with
  | |- context [bind (?f ?x) _] =>
      let Hz := fresh "Hz" in
      pose proof (H False (fun _ => False) x) as Hz; cbv beta in Hz; revert Hz;
      destruct (f x) as [[? ?]|?|?]; cbn [lt_ok bind]; intros Hz; [clear Hz|auto|contradiction]
  end.

Lemma protocol_message_out dbg validate raw :
  out_ok False (dbg_panic dbg) (protocol_message dbg validate raw).
Proof.
  unfold protocol_message.
  zr zread_i32_good. destruct (validate && _); [cbn; discriminate|].
  zr zread_i8_good. destruct (negb _); [cbn; discriminate|].
  zr zread_i8_good. zr zread_bytes_good. zr zread_bytes_good.
  match goal with |- out_ok _ _ (match ?l with _ => _ end) => destruct l end; [exact I|].
  destruct dbg; cbn [out_ok]; [split; reflexivity|exact I].
Qed.

Lemma next_message_good dbg validate : good False (dbg_panic dbg) (next_message dbg validate).
Proof.
  intros bs. unfold next_message. apply lt_step; [apply zread_i64_good|].
  intros off r Hr. cbn beta iota. apply le_step; [apply zread_bytes_good|lia|].
  intros msg r' Hr'. cbn beta iota.
  pose proof (protocol_message_out dbg validate msg) as H. revert H.
  destruct (protocol_message dbg validate msg) as [pm|e|w]; cbn [out_ok bind le_ok]; auto.
Qed.

(* ---- the entry loop ---------------------------------------------------------------------------- *)
Section Loop.
Variables (dbg validate : bool) (req : Z).

(* The loop either ends without ever looking at a compressed message, with a result
   that is Ok, a proper error or the debug assertion - or it hands over to `inner c v`
   for a (c, v) that only depends on the bytes.  |bs| + 1 fuel is always enough. *)
Lemma ms_loop_shape : forall fuel bs acc, (length bs < fuel)%nat ->
  (exists r, out_ok False (dbg_panic dbg) r /\
             forall inner, ms_loop inner dbg validate req fuel bs acc = r)
  \/ (exists c v, (c = COMPRESSION_GZIP \/ c = COMPRESSION_SNAPPY) /\
                  forall inner, ms_loop inner dbg validate req fuel bs acc = inner c v).
Proof.
  induction fuel as [|f IH]; intros bs acc Hf; [lia|].
  destruct bs as [|b0 bs0]; [left; exists (Ok (rev acc)); split; [exact I|reflexivity]|].
  set (bs := b0 :: bs0) in *.
  pose proof (next_message_good dbg validate bs) as Hn.
  destruct (next_message dbg validate bs) as [[[off [[attr k] v]] r]|e|w] eqn:En; cbn [lt_ok] in Hn.
  - destruct (Z.land attr 7 =? COMPRESSION_NONE) eqn:Ec.
    + destruct (IH r (if req <=? off then {| m_offset := off; m_key := k; m_value := v |} :: acc else acc)
                   ltac:(lia)) as [[res [Hres Hall]]|[c [v' [Hc Hall]]]].
      * left. exists res. split; [exact Hres|]. intros inner. subst bs. cbn [ms_loop].
        rewrite En, Ec. apply Hall.
      * right. exists c, v'. split; [exact Hc|]. intros inner. subst bs. cbn [ms_loop].
        rewrite En, Ec. apply Hall.
    + destruct ((Z.land attr 7 =? COMPRESSION_GZIP) || (Z.land attr 7 =? COMPRESSION_SNAPPY)) eqn:Eg.
      * right. exists (Z.land attr 7), v. split; [lia|]. intros inner. subst bs. cbn [ms_loop].
        rewrite En, Ec, Eg. reflexivity.
      * left. exists (Err EUnsupportedCompression). split; [cbn; discriminate|].
        intros inner. subst bs. cbn [ms_loop]. rewrite En, Ec, Eg. reflexivity.
  - left. exists (match e with EUnexpectedEOF => Ok (rev acc) | _ => Err e end).
    split; [destruct e; cbn [out_ok]; auto; discriminate|].
    intros inner. subst bs. cbn [ms_loop]. rewrite En. destruct e; reflexivity.
  - left. exists (Panic w). split; [exact Hn|]. intros inner. subst bs. cbn [ms_loop]. rewrite En. reflexivity.
Qed.

(* in particular: given an `inner` with outcomes in (E, PW), so has the loop (plus the debug assertion) *)
Lemma ms_loop_out (E : Prop) (PW : bytes -> Prop) inner fuel bs acc :
  (forall c v, out_ok E PW (inner c v)) -> (length bs < fuel)%nat ->
  out_ok E (fun w => PW w \/ dbg_panic dbg w) (ms_loop inner dbg validate req fuel bs acc).
Proof.
  intros Hi Hf. destruct (ms_loop_shape fuel bs acc Hf) as [[r [Hr Hall]]|[c [v [_ Hall]]]]; rewrite Hall.
  - revert Hr. apply out_ok_weaken; [tauto|auto].
  - generalize (Hi c v). apply out_ok_weaken; auto.
Qed.

(* "bs, read as a message set, leads to the compressed message (codec c, value v)" *)
Definition wrapper_of (bs : bytes) (c : Z) (v : bytes) : Prop :=
  (c = COMPRESSION_GZIP \/ c = COMPRESSION_SNAPPY) /\
  forall inner, ms_loop inner dbg validate req (S (length bs)) bs [] = inner c v.
End Loop.

(* ---- from_slice ---------------------------------------------------------------------------------- *)
Definition alloc_tag : bytes := tag "alloc".

Definition fs_inner (cz : codecs) (d : nat) (validate : bool) (req : Z) : Z -> bytes -> res (list message) :=
  fun c v =>
    if c =? COMPRESSION_GZIP then
      match gz_decompress cz v with
      | Some data => from_slice cz d validate req data
      | None => Err (EIo IoOther)
      end
    else if alloc_limit <=? xerial_max_alloc v then alloc_panic
    else let* data := xerial_read_to_end v in from_slice cz d validate req data.

Lemma from_slice_S cz d validate req bs :
  from_slice cz (S d) validate req bs
  = ms_loop (fs_inner cz d validate req) (debug_build cz) validate req (S (length bs)) bs [].
Proof. reflexivity. Qed.

(* every outcome of from_slice: Ok, Err, the allocation request, or (debug builds) the assertion *)
Lemma from_slice_out cz validate req : forall depth bs,
  out_ok True (fun w => w = alloc_tag \/ dbg_panic (debug_build cz) w) (from_slice cz depth validate req bs).
Proof.
  induction depth as [|d IH]; intros bs; [cbn; auto|].
  rewrite from_slice_S.
  assert (Hi : forall c v, out_ok True (fun w => w = alloc_tag \/ dbg_panic (debug_build cz) w)
                                  (fs_inner cz d validate req c v)).
  { intros c v. unfold fs_inner. destruct (c =? COMPRESSION_GZIP).
    - destruct (gz_decompress cz v) as [data|]; [apply IH|cbn; auto].
    - destruct (alloc_limit <=? xerial_max_alloc v); [cbn; left; reflexivity|].
      pose proof (xerial_read_to_end_out v) as Hx. revert Hx.
      destruct (xerial_read_to_end v) as [data|e|w]; cbn [out_ok bind]; intros Hx;
        [apply IH|intros _; exact I|contradiction]. }
  generalize (ms_loop_out (debug_build cz) validate req True _ _ (S (length bs)) bs [] Hi ltac:(lia)).
  apply out_ok_weaken; [auto|]. intros w [H|H]; auto.
Qed.

Definition tri {A} (r : res A) : Prop := no_panic r \/ r = alloc_panic \/ r = Err EOutOfFuel.

Lemma out_ok_tri {A} (r : res A) : out_ok True (fun w => w = alloc_tag) r -> tri r.
Proof.
  destruct r as [a|e|w]; cbn [out_ok]; intros H.
  - left. exact I.
  - destruct e; try (left; exact I). right. right. reflexivity.
  - right. left. rewrite H. reflexivity.
Qed.

Theorem C13_message_set_release : forall cz depth validate req bs,
  debug_build cz = false -> tri (from_slice cz depth validate req bs).
Proof.
  intros cz depth validate req bs Hd. apply out_ok_tri.
  generalize (from_slice_out cz validate req depth bs). apply out_ok_weaken; [auto|].
  intros w [H|[H _]]; [exact H|congruence].
Qed.

(* all builds *)
Theorem C13_message_set_outcomes : forall cz depth validate req bs,
  let r := from_slice cz depth validate req bs in
  tri r \/ (debug_build cz = true /\ r = Panic dbg_tag).
Proof.
  intros cz depth validate req bs r. subst r.
  pose proof (from_slice_out cz validate req depth bs) as H. revert H.
  destruct (from_slice cz depth validate req bs) as [a|e|w]; cbn [out_ok]; intros H.
  - left. left. exact I.
  - left. destruct e; try (left; exact I). right. right. reflexivity.
  - destruct H as [H|[H1 H2]]; [left; right; left; rewrite H; reflexivity|right; split; [exact H1|rewrite H2; reflexivity]].
Qed.

(* ---- where the escape hatches come from ---------------------------------------------------------- *)
(* what a compressed message value turns into before it is parsed as a message set *)
Definition decompressed (cz : codecs) (c : Z) (v data : bytes) : Prop :=
  (c = COMPRESSION_GZIP /\ gz_decompress cz v = Some data)
  \/ (c = COMPRESSION_SNAPPY /\ xerial_max_alloc v < alloc_limit /\ xerial_read_to_end v = Ok data).

(* bs contains n compressed sets nested in one another *)
Inductive nesting (cz : codecs) (validate : bool) (req : Z) : nat -> bytes -> Prop :=
| nest_O bs : nesting cz validate req O bs
| nest_S n bs c v data :
    wrapper_of (debug_build cz) validate req bs c v -> decompressed cz c v data ->
    nesting cz validate req n data -> nesting cz validate req (S n) bs.

(* the compressed message (c, v) is met while decoding bs, at some nesting level *)
Inductive reaches (cz : codecs) (validate : bool) (req : Z) : bytes -> Z -> bytes -> Prop :=
| reach_here bs c v : wrapper_of (debug_build cz) validate req bs c v -> reaches cz validate req bs c v
| reach_in bs c v data c' v' :
    wrapper_of (debug_build cz) validate req bs c v -> decompressed cz c v data ->
    reaches cz validate req data c' v' -> reaches cz validate req bs c' v'.

(* one level: a result the loop cannot produce by itself comes from a wrapper *)
Lemma from_slice_S_inv cz d validate req bs (r : res (list message)) :
  from_slice cz (S d) validate req bs = r ->
  ~ out_ok False (dbg_panic (debug_build cz)) r ->
  exists c v, wrapper_of (debug_build cz) validate req bs c v /\ fs_inner cz d validate req c v = r.
Proof.
  rewrite from_slice_S. intros Hr Hn.
  destruct (ms_loop_shape (debug_build cz) validate req (S (length bs)) bs [] ltac:(lia))
    as [[r0 [Hr0 Hall]]|[c [v [Hc Hall]]]].
  - rewrite Hall in Hr. subst r0. contradiction.
  - exists c, v. split; [split; [exact Hc|exact Hall]|]. rewrite <- Hr. symmetry. apply Hall.
Qed.

Lemma fs_inner_inv cz d validate req c v (r : res (list message)) :
  (c = COMPRESSION_GZIP \/ c = COMPRESSION_SNAPPY) ->
  fs_inner cz d validate req c v = r ->
  ~ out_ok False (fun _ => False) r ->
  (c = COMPRESSION_SNAPPY /\ alloc_limit <= xerial_max_alloc v /\ r = alloc_panic)
  \/ (exists data, decompressed cz c v data /\ from_slice cz d validate req data = r).
Proof.
  intros Hc Hr Hn. unfold fs_inner in Hr. destruct (c =? COMPRESSION_GZIP) eqn:Eg.
  - destruct (gz_decompress cz v) as [data|] eqn:Ez.
    + right. exists data. split; [left; split; [lia|exact Ez]|exact Hr].
    + subst r. exfalso. apply Hn. cbn. discriminate.
  - assert (c = COMPRESSION_SNAPPY) by (unfold COMPRESSION_GZIP, COMPRESSION_SNAPPY in *; lia).
    destruct (alloc_limit <=? xerial_max_alloc v) eqn:Ea.
    + left. repeat split; [assumption|lia|symmetry; exact Hr].
    + pose proof (xerial_read_to_end_out v) as Hx. revert Hx Hr.
      destruct (xerial_read_to_end v) as [data|e|w] eqn:Ex; cbn [out_ok bind]; intros Hx Hr.
      * right. exists data. split; [right; repeat split; [assumption|lia|exact Ex]|exact Hr].
      * subst r. exfalso. apply Hn. exact Hx.
      * contradiction.
Qed.

(* `depth` is the code's own bound (fetch.rs MAX_COMPRESSION_DEPTH, F28): a set that really contains `depth`
   compressed sets nested in one another is refused with UnsupportedCompression - an error value, not a
   deeper recursion.  (Before the repair the Rust code followed the nesting without bound and the model
   answered the model-only EOutOfFuel here.) *)
Theorem C13_message_set_depth : forall cz validate req depth bs,
  nesting cz validate req depth bs -> from_slice cz depth validate req bs = Err EUnsupportedCompression.
Proof.
  intros cz validate req. induction depth as [|d IH]; intros bs H; [reflexivity|].
  inversion H as [|n bs0 c v data Hw Hd Hn]; subst.
  rewrite from_slice_S. destruct Hw as [Hc Hall]. rewrite Hall. unfold fs_inner.
  destruct Hd as [[-> Hz]|[-> [Ha Hx]]].
  - cbn [Z.eqb COMPRESSION_GZIP]. replace (COMPRESSION_GZIP =? COMPRESSION_GZIP) with true by reflexivity.
    rewrite Hz. apply IH. exact Hn.
  - replace (COMPRESSION_SNAPPY =? COMPRESSION_GZIP) with false by reflexivity.
    destruct (alloc_limit <=? xerial_max_alloc v) eqn:Ea; [lia|]. rewrite Hx. cbn [bind]. apply IH. exact Hn.
Qed.

(* the loop alone (any fuel above |bs|) never reports EOutOfFuel: it has to come from `inner` *)
Corollary C13_message_set_loop_fuel : forall inner dbg validate req fuel bs acc,
  (length bs < fuel)%nat ->
  ms_loop inner dbg validate req fuel bs acc = Err EOutOfFuel ->
  exists c v, inner c v = Err EOutOfFuel.
Proof.
  intros inner dbg validate req fuel bs acc Hf H.
  destruct (ms_loop_shape dbg validate req fuel bs acc Hf) as [[r [Hr Hall]]|[c [v [_ Hall]]]].
  - rewrite Hall in H. subst r. cbn in Hr. exfalso. apply Hr. reflexivity.
  - exists c, v. rewrite <- Hall. exact H.
Qed.

(* the allocation request of >= 1 GiB happens only if a snappy-compressed message met
   during decoding carries a chunk header announcing that much *)
Theorem C13_message_set_alloc_only_if : forall cz validate req depth bs,
  from_slice cz depth validate req bs = alloc_panic ->
  exists v, reaches cz validate req bs COMPRESSION_SNAPPY v /\ alloc_limit <= xerial_max_alloc v.
Proof.
  intros cz validate req. induction depth as [|d IH]; intros bs H; [discriminate|].
  destruct (from_slice_S_inv _ _ _ _ _ _ H) as [c [v [Hw Hi]]].
  { cbn. intros [_ Hx]. discriminate. }
  destruct (fs_inner_inv _ _ _ _ _ _ _ (proj1 Hw) Hi) as [[Hc [Ha _]]|[data [Hd Hf]]].
  { cbn. auto. }
  - exists v. subst c. split; [constructor; exact Hw|exact Ha].
  - destruct (IH data Hf) as [v' [Hr Ha]]. exists v'. split; [|exact Ha].
    eapply reach_in; eauto.
Qed.

(* and the debug assertion fires in debug builds only (C13_message_set_outcomes).
   Since the repair of F28 the nesting bound is the code's own (fetch.rs MAX_COMPRESSION_DEPTH: a set nested
   deeper is refused with UnsupportedCompression), so decoding a message set never ends in the model-only EOutOfFuel *)
Lemma from_slice_never_out_of_fuel cz validate req : forall d bs,
  from_slice cz d validate req bs <> Err EOutOfFuel.
Proof.
  induction d as [|d IH]; intros bs; [cbn; discriminate|].
  rewrite from_slice_S.
  destruct (ms_loop_shape (debug_build cz) validate req (S (length bs)) bs [] ltac:(lia))
    as [[r0 [Hr0 Hall]]|[c [v [Hc Hall]]]].
  - rewrite Hall. intros E. rewrite E in Hr0. cbn in Hr0. apply Hr0. reflexivity.
  - rewrite Hall. unfold fs_inner.
    destruct (c =? COMPRESSION_GZIP).
    + destruct (gz_decompress cz v) as [data|]; [apply IH|discriminate].
    + destruct (alloc_limit <=? xerial_max_alloc v); [discriminate|].
      destruct (xerial_read_to_end v) as [data|e|w] eqn:Ex; cbn [bind]; [apply IH| |discriminate].
      intros E. injection E as ->.
      pose proof (xerial_read_to_end_out v) as G. rewrite Ex in G. cbn in G. apply G. reflexivity.
Qed.

(* ---- lifting to the whole fetch response ------------------------------------------------------------ *)
(* Whatever goes wrong in fetch_from_vec went wrong in from_slice on one of the message
   sets of the response: the array counts and the partition/topic framing never panic
   and never exhaust the `zread_many` fuel. *)
Definition fs_fuel (cz : codecs) (depth : nat) (validate : bool) : Prop :=
  exists req ms, from_slice cz depth validate req ms = Err EOutOfFuel.
Definition fs_panic (cz : codecs) (depth : nat) (validate : bool) (w : bytes) : Prop :=
  exists req ms, from_slice cz depth validate req ms = Panic w.

Lemma read_partition_good cz depth validate preqs :
  good (fs_fuel cz depth validate) (fs_panic cz depth validate) (read_partition cz depth validate preqs).
Proof.
  intros bs. unfold read_partition. apply lt_step; [apply zread_i32_good|].
  intros p r Hr. cbv beta iota zeta.
  apply le_step; [apply zread_i16_good|lia|]. intros e r1 Hr1. cbv beta iota.
  apply le_step; [apply zread_i64_good|lia|]. intros hw r2 Hr2. cbv beta iota.
  apply le_step; [apply zread_bytes_good|lia|]. intros ms r3 Hr3. cbv beta iota.
  match goal with |- context [from_slice cz depth validate ?q ms] => set (req := q) end.
  destruct (from_slice cz depth validate req ms) as [msgs|er|w] eqn:Ef; cbn [bind le_ok].
  - lia.
  - intros ->. exists req, ms. exact Ef.
  - exists req, ms. exact Ef.
Qed.

Lemma read_topic_good cz depth validate reqs :
  good (fs_fuel cz depth validate) (fs_panic cz depth validate) (read_topic cz depth validate reqs).
Proof.
  intros bs. unfold read_topic. apply lt_step; [apply zread_str_good|].
  intros name r Hr. cbv beta iota.
  apply le_step; [apply zread_array_good, read_partition_good|lia|].
  intros ps r1 Hr1. cbv beta iota. apply le_ret. lia.
Qed.

Theorem C13_fetch_response_lift : forall cz depth validate reqs bs,
  out_ok (fs_fuel cz depth validate) (fs_panic cz depth validate) (fetch_from_vec cz depth validate reqs bs).
Proof.
  intros cz depth validate reqs bs. unfold fetch_from_vec.
  pose proof (zread_i32_good (fs_fuel cz depth validate) (fs_panic cz depth validate) bs) as H1. revert H1.
  destruct (zread_i32 bs) as [[c r]|e|w]; cbn [lt_ok bind out_ok]; auto. intros _.
  pose proof (zread_array_good (fs_fuel cz depth validate) (fs_panic cz depth validate) 40 _
                (read_topic_good cz depth validate reqs) r) as H2. revert H2.
  destruct (zread_array 40 (read_topic cz depth validate reqs) r) as [[ts r']|e|w]; cbn [lt_ok bind out_ok]; auto.
Qed.

(* the trichotomy for a whole response, release builds ... *)
Theorem C13_fetch_response : forall cz depth validate reqs bs,
  debug_build cz = false -> tri (fetch_from_vec cz depth validate reqs bs).
Proof.
  intros cz depth validate reqs bs Hd. apply out_ok_tri.
  generalize (C13_fetch_response_lift cz depth validate reqs bs). apply out_ok_weaken; [auto|].
  intros w [req [ms Hw]].
  pose proof (from_slice_out cz validate req depth ms) as H. rewrite Hw in H. cbn [out_ok] in H.
  destruct H as [H|[H _]]; [exact H|congruence].
Qed.

(* ... and all builds *)
Theorem C13_fetch_response_outcomes : forall cz depth validate reqs bs,
  let r := fetch_from_vec cz depth validate reqs bs in
  tri r \/ (debug_build cz = true /\ r = Panic dbg_tag).
Proof.
  intros cz depth validate reqs bs r. subst r.
  pose proof (C13_fetch_response_lift cz depth validate reqs bs) as H. revert H.
  destruct (fetch_from_vec cz depth validate reqs bs) as [a|e|w]; cbn [out_ok]; intros H.
  - left. left. exact I.
  - left. destruct e; try (left; exact I). right. right. reflexivity.
  - destruct H as [req [ms Hw]].
    pose proof (from_slice_out cz validate req depth ms) as H. rewrite Hw in H. cbn [out_ok] in H.
    destruct H as [H|[H1 H2]]; [left; right; left; rewrite H; reflexivity|right; split; [exact H1|rewrite H2; reflexivity]].
Qed.

(* a whole response never ends in the model-only EOutOfFuel (the nesting bound is the code's own and yields
   UnsupportedCompression);
   the allocation request: some message set in it reaches a snappy chunk header >= 1 GiB *)
Corollary C13_fetch_response_depth : forall cz depth validate reqs bs,
  fetch_from_vec cz depth validate reqs bs <> Err EOutOfFuel.
Proof.
  intros cz depth validate reqs bs H.
  pose proof (C13_fetch_response_lift cz depth validate reqs bs) as L. rewrite H in L. cbn [out_ok] in L.
  destruct (L eq_refl) as [req [ms Hf]]. exact (from_slice_never_out_of_fuel cz validate req depth ms Hf).
Qed.
Corollary C13_fetch_response_alloc_only_if : forall cz depth validate reqs bs,
  fetch_from_vec cz depth validate reqs bs = alloc_panic ->
  exists req ms v, reaches cz validate req ms COMPRESSION_SNAPPY v /\ alloc_limit <= xerial_max_alloc v.
Proof.
  intros cz depth validate reqs bs H.
  pose proof (C13_fetch_response_lift cz depth validate reqs bs) as L. rewrite H in L. cbn [out_ok] in L.
  destruct L as [req [ms Hf]]. destruct (C13_message_set_alloc_only_if _ _ _ _ _ Hf) as [v Hv].
  exists req, ms, v. exact Hv.
Qed.

(* ---- the two refutations ---------------------------------------------------------------------------------- *)
Definition ex_cz (dbg : bool) : codecs :=
  {| gz_compress := fun b => b; sn_compress := fun b => b;
     gz_decompress := fun b => Some b;          (* "gzip" = identity, good enough to build nested sets *)
     debug_build := dbg |}.

(* one message set entry: offset, size, crc (not validated), magic 0, attr, key = null, value *)
Definition ex_entry (off attr : Z) (value : bytes) (trailing : bytes) : bytes :=
  let body := enc_i32 0 ++ enc_i8 0 ++ enc_i8 attr ++ enc_i32 (-1)
              ++ enc_i32 (ulen value) ++ value ++ trailing in
  enc_i64 off ++ enc_i32 (ulen body) ++ body.

(* a snappy wrapper whose single 5-byte chunk announces 4 GiB - 1 *)
Definition ex_alloc_value : bytes := xerial_header ++ enc_i32 5 ++ [xff; xff; xff; xff; x0f].
Definition ex_alloc_set : bytes := ex_entry 0 COMPRESSION_SNAPPY ex_alloc_value [].

Theorem C13_snappy_alloc_refuted :
  exists cz bs, (length bs <= 100)%nat /\ from_slice cz 2 false 0 bs = alloc_panic.
Proof. exists (ex_cz false), ex_alloc_set. vm_compute. split; [repeat constructor|reflexivity]. Qed.

Example ex_alloc_set_facts :
  length ex_alloc_set = 51%nat
  /\ xerial_max_alloc ex_alloc_value = 4294967295
  /\ wrapper_of false false 0 ex_alloc_set COMPRESSION_SNAPPY ex_alloc_value.
Proof.
  split; [vm_compute; reflexivity|]. split; [vm_compute; reflexivity|].
  split; [right; reflexivity|]. intros inner. vm_compute. reflexivity.
Qed.

(* a message whose declared size leaves one byte after the value *)
Definition ex_trailing_set : bytes := ex_entry 5 0 (tag "v") [x00].

Theorem C13_debug_assert_refuted :
  exists cz bs, debug_build cz = true /\ exists w, from_slice cz 1 false 0 bs = Panic w.
Proof. exists (ex_cz true), ex_trailing_set. split; [reflexivity|]. exists dbg_tag. vm_compute. reflexivity. Qed.

(* the same bytes in a release build *)
Example ex_trailing_release :
  from_slice (ex_cz false) 1 false 0 ex_trailing_set = Ok [{| m_offset := 5; m_key := []; m_value := tag "v" |}].
Proof. vm_compute. reflexivity. Qed.

(* non-vacuity of C13_message_set_depth: a plain set inside two identity-"gzip" wrappers
   needs depth 3 and is refused with depth 2 *)
Definition ex_plain_set : bytes := ex_entry 7 0 (tag "v") [].
Definition ex_nested_set : bytes := ex_entry 0 COMPRESSION_GZIP (ex_entry 0 COMPRESSION_GZIP ex_plain_set []) [].
Example ex_nested :
  from_slice (ex_cz false) 2 false 0 ex_nested_set = Err EUnsupportedCompression
  /\ from_slice (ex_cz false) 3 false 0 ex_nested_set = Ok [{| m_offset := 7; m_key := []; m_value := tag "v" |}]
  /\ from_slice (ex_cz false) 8 false 0 ex_nested_set = Ok [{| m_offset := 7; m_key := []; m_value := tag "v" |}].
Proof. vm_compute. repeat split; reflexivity. Qed.

(* whole fetch responses: corr, one topic "tp", one partition 0 (error 0, hw 9) with the given set *)
Definition ex_fetch (set : bytes) : bytes :=
  enc_i32 7 ++ enc_i32 1 ++ (enc_i16 2 ++ tag "tp" ++ enc_i32 1
    ++ (enc_i32 0 ++ enc_i16 0 ++ enc_i64 9 ++ enc_i32 (ulen set) ++ set)).

Example ex_fetch_ok :
  fetch_from_vec (ex_cz false) 8 false [] (ex_fetch ex_plain_set)
  = Ok {| fr_corr := 7;
          fr_topics := [{| ft_topic := tag "tp";
                           ft_partitions := [{| fp_partition := 0;
                                                fp_data := inl (9, [{| m_offset := 7; m_key := []; m_value := tag "v" |}]) |}] |}] |}.
Proof. vm_compute. reflexivity. Qed.
Example ex_fetch_alloc : fetch_from_vec (ex_cz false) 8 false [] (ex_fetch ex_alloc_set) = alloc_panic.
Proof. vm_compute. reflexivity. Qed.
Example ex_fetch_debug : fetch_from_vec (ex_cz true) 8 false [] (ex_fetch ex_trailing_set) = Panic dbg_tag.
Proof. vm_compute. reflexivity. Qed.
Example ex_fetch_depth : fetch_from_vec (ex_cz false) 2 false [] (ex_fetch ex_nested_set) = Err EUnsupportedCompression.
Proof. vm_compute. reflexivity. Qed.

(* truncated at every byte, and each count / size field (topics, partitions, message set
   size, message size, key and value length) replaced by extreme values: always Ok or Err *)
Example ex_fetch_truncated :
  forallb (fun n => np_b (fetch_from_vec (ex_cz true) 8 true [] (firstn n (ex_fetch ex_plain_set))))
          (seq 0 (S (length (ex_fetch ex_plain_set)))) = true.
Proof. vm_compute. reflexivity. Qed.
Example ex_fetch_counts :
  length (ex_fetch ex_plain_set) = 61%nat /\
  forallb (fun pos =>
    forallb (fun v => np_b (fetch_from_vec (ex_cz false) 8 false [] (patch pos (enc_i32 v) (ex_fetch ex_plain_set))))
            [2147483647; -1; -2147483648; 2; 0; 1073741824])
    [4; 12; 30; 42; 52; 56]%nat = true.
Proof. vm_compute. split; reflexivity. Qed.
Example ex_fetch_bytes :
  forallb (fun pos =>
    forallb (fun b => np_b (fetch_from_vec (ex_cz false) 8 false [] (patch pos [b] (ex_fetch ex_plain_set))))
            [x00; x01; x02; x7f; x80; xff])
    (seq 0 61) = true.
Proof. vm_compute. reflexivity. Qed.

(* the theorems about the origin of the escape hatches, applied to the witnesses *)
Example ex_nested_nesting : nesting (ex_cz false) false 0 2 ex_nested_set.
Proof.
  eapply (nest_S _ _ _ _ _ COMPRESSION_GZIP (ex_entry 0 COMPRESSION_GZIP ex_plain_set []) (ex_entry 0 COMPRESSION_GZIP ex_plain_set [])).
  - split; [left; reflexivity|]. intros inner. vm_compute. reflexivity.
  - left. split; reflexivity.
  - eapply (nest_S _ _ _ _ _ COMPRESSION_GZIP ex_plain_set ex_plain_set).
    + split; [left; reflexivity|]. intros inner. vm_compute. reflexivity.
    + left. split; reflexivity.
    + constructor.
Qed.
Example ex_nested_refused : from_slice (ex_cz false) 2 false 0 ex_nested_set = Err EUnsupportedCompression.
Proof. apply C13_message_set_depth. exact ex_nested_nesting. Qed.
Example ex_alloc_reaches :
  exists v, reaches (ex_cz false) false 0 ex_alloc_set COMPRESSION_SNAPPY v /\ alloc_limit <= xerial_max_alloc v.
Proof. apply (C13_message_set_alloc_only_if (ex_cz false) false 0 2). vm_compute. reflexivity. Qed.
(* a snappy wrapper two levels down (inside an identity-"gzip" wrapper) is found as well *)
Example ex_alloc_nested :
  from_slice (ex_cz false) 3 false 0 (ex_entry 0 COMPRESSION_GZIP ex_alloc_set []) = alloc_panic
  /\ from_slice (ex_cz false) 1 false 0 (ex_entry 0 COMPRESSION_GZIP ex_alloc_set []) = Err EUnsupportedCompression.
Proof. vm_compute. split; reflexivity. Qed.
Example ex_release_tri : tri (from_slice (ex_cz false) 8 true 3 ex_trailing_set).
Proof. apply C13_message_set_release. reflexivity. Qed.

Print Assumptions C13_decode_metadata.
Print Assumptions C13_decode_offsets.
Print Assumptions C13_decode_list_offsets.
Print Assumptions C13_decode_produce.
Print Assumptions C13_decode_coordinator.
Print Assumptions C13_decode_offset_fetch.
Print Assumptions C13_decode_offset_commit.
Print Assumptions C13_dec_vec_total.
Print Assumptions C13_message_set_release.
Print Assumptions C13_message_set_outcomes.
Print Assumptions C13_message_set_depth.
Print Assumptions C13_message_set_loop_fuel.
Print Assumptions C13_message_set_alloc_only_if.
Print Assumptions C13_snappy_alloc_refuted.
Print Assumptions C13_debug_assert_refuted.
Print Assumptions C13_fetch_response_lift.
Print Assumptions C13_fetch_response.
Print Assumptions C13_fetch_response_outcomes.
Print Assumptions C13_fetch_response_depth.
Print Assumptions C13_fetch_response_alloc_only_if.
