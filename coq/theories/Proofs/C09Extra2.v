(* C09, additional theorems, part 2 (mutation adequacy).
   (C) "restricted to partitions led by the addressed broker": the per-broker request maps built by
       fetch_messages / fetch_offsets / list_offsets / produce_messages after a metadata load only carry
       partitions whose leader, LISTED UNDER THAT PARTITION ID in the response, is the addressed broker.
       [seeded change C09-2: update_metadata stores leaders by listing position instead of partition id]
   Built on the refinement of Proofs/C06Facts.v (abs / merge / C06_routing / C06_refines).
   Everything is about the unchanged model; no axioms. *)
From Coq Require Import ZifyBool Sorted Permutation.
From KV Require Import Base.Prelude Gen.Consts Model.Codecs Model.Requests Model.Responses
                       Model.ClientState Model.Net Model.Client.
From KV Require Import Proofs.BytesFacts Proofs.C06Facts.

(* ================================================================================================ *)
(* C. "restricted to partitions led by the addressed broker": routing is by PARTITION ID               *)
(* ================================================================================================ *)

(* where the metadata response md (merged into state s) says broker node n lives *)
Definition host_of_node (s : cstate) (md : metadata_resp) (n : Z) : option bytes :=
  match last_broker (md_brokers md) n with
  | Some m => Some (host_port (bm_host m) (bm_port m))
  | None => assoc_z n (map bpair (brokers s))
  end.

(* the host the response names as leader of partition id p of a topic entry: the leader listed in the
   entry whose partition_id field is p - wherever in the list that entry stands *)
Definition leader_host (s : cstate) (md : metadata_resp) (tm : topic_md) (p : Z) : option bytes :=
  match listed_leader (tm_partitions tm) p with
  | Some l => host_of_node s md l
  | None => None
  end.

Lemma listed_leader_in : forall pms i l, listed_leader pms i = Some l ->
  exists pm, In pm pms /\ pm_id pm = i /\ pm_leader pm = l.
Proof.
  induction pms as [|pm pms IH]; intros i l H; cbn [listed_leader] in H; [discriminate|].
  destruct (listed_leader pms i) as [l'|] eqn:E.
  - injection H as <-. destruct (IH i l' E) as (pm' & Hin & Hid & Hl). exists pm'. split; [right; exact Hin|split; assumption].
  - destruct (pm_id pm =? i) eqn:E1; [|discriminate]. injection H as <-. exists pm. split; [left; reflexivity|split; [lia|reflexivity]].
Qed.

Lemma known_assoc h l : match known_leader h l with Some l' => assoc_z l' h | None => None end = assoc_z l h.
Proof. unfold known_leader, known. destruct (assoc_z l h) eqn:E; [exact E|reflexivity]. Qed.

Lemma nth_z_leader_vec h pms p : wf_topic {| tm_error := 0; tm_topic := []; tm_partitions := pms |} ->
  match nth_z (leader_vec h pms) p with Some (Some l) => assoc_z l h | _ => None end
  = match listed_leader pms p with Some l => assoc_z l h | None => None end.
Proof.
  unfold wf_topic. cbn [tm_partitions]. intros Hwf. unfold leader_vec. rewrite nth_z_map.
  destruct (nth_z (iota_z (length pms) 0) p) as [i|] eqn:E; cbn [option_map].
  - apply nth_z_some in E. destruct E as [H0 E].
    assert (Hlt : (Z.to_nat p < length (iota_z (length pms) 0))%nat) by (apply nth_error_Some; congruence).
    rewrite iota_length in Hlt. rewrite iota_nth in E by exact Hlt. injection E as <-.
    rewrite ?Z.add_0_l. replace (Z.of_nat (Z.to_nat p)) with p by lia.
    destruct (listed_leader pms p) as [l|]; [apply known_assoc|reflexivity].
  - destruct (listed_leader pms p) as [l|] eqn:EL; [|reflexivity]. exfalso.
    apply listed_leader_in in EL. destruct EL as (pm & Hin & Hid & _).
    assert (Hp : In p (iota_z (length pms) 0)).
    { eapply Permutation_in; [exact Hwf|]. rewrite <- Hid. apply in_map. exact Hin. }
    apply iota_in in Hp. unfold nth_z, ulen in E. rewrite iota_length in E.
    destruct ((p <? 0) || (Z.of_nat (length pms) <=? p)) eqn:E2; [lia|].
    apply nth_error_None in E. rewrite iota_length in E. lia.
Qed.

Lemma wf_md_last_topic : forall tms t tm, Forall wf_topic tms -> last_topic tms t = Some tm -> wf_topic tm.
Proof.
  induction tms as [|tm0 tms IH]; intros t tm Hwf H; cbn [last_topic] in H; [discriminate|].
  inversion Hwf as [|? ? Hw0 Hwr]; subst. destruct (last_topic tms t) as [x|] eqn:E.
  - injection H as <-. eapply IH; eauto.
  - destruct (bytes_eqb (tm_topic tm0) t); [injection H as <-; exact Hw0|discriminate].
Qed.

(* After a metadata response has been folded into the state, a topic the response lists is routed, for
   EVERY partition id p, to the broker the response lists as leader in the entry whose id is p; when
   the response lists no such entry, or names a leader the client knows no address for: to nobody. *)
Theorem C09_route_after_load : forall s md s' t tm p,
  inv s -> wf_md md -> small s' -> update_metadata s md = Ok s' ->
  last_topic (md_topics md) t = Some tm ->
  find_broker s' t p = leader_host s md tm p.
Proof.
  intros s md s' t tm p Hinv Hwf Hsm Hupd Hlast.
  rewrite (C06_routing s' t p (C06_inv_step s md s' Hinv Hupd)).
  rewrite (C06_refines s md s' Hinv Hwf Hsm Hupd).
  rewrite C06_merge_topic_lookup, Hlast.
  pose proof (wf_md_last_topic _ _ _ Hwf Hlast) as Hwt.
  rewrite nth_z_leader_vec by exact Hwt.
  unfold leader_host. destruct (listed_leader (tm_partitions tm) p) as [l|]; [|reflexivity].
  rewrite C06_merge_host_lookup. reflexivity.
Qed.

(* ex_md1 lists topic "a" as [partition 1 (leader node 2); partition 0 (leader node 1)]: out of id order *)
Example C09_route_after_load_ex :
  inv cstate_new /\ wf_md ex_md1 /\ small ex_s1 /\ update_metadata cstate_new ex_md1 = Ok ex_s1 /\
  last_topic (md_topics ex_md1) (tag "a") = Some (ex_tm (tag "a") [ex_pm 1 2; ex_pm 0 1]) /\
  find_broker ex_s1 (tag "a") 0 = Some (tag "h1:9092") /\
  find_broker ex_s1 (tag "a") 1 = Some (tag "h2:9092") /\
  leader_host cstate_new ex_md1 (ex_tm (tag "a") [ex_pm 1 2; ex_pm 0 1]) 0 = Some (tag "h1:9092") /\
  leader_host cstate_new ex_md1 (ex_tm (tag "a") [ex_pm 1 2; ex_pm 0 1]) 1 = Some (tag "h2:9092").
Proof.
  split; [apply C06_inv_init|]. split; [apply ex_wf_md1|]. vm_compute. repeat split; try reflexivity; discriminate.
Qed.

(* a (topic, partition) entry of a request for `host` was put there because the response names `host`
   as the address of the leader listed under that partition id *)
Definition led_by (s : cstate) (md : metadata_resp) (t : bytes) (p : Z) (host : bytes) : Prop :=
  forall tm, last_topic (md_topics md) t = Some tm ->
    exists pm, In pm (tm_partitions tm) /\ pm_id pm = p /\ host_of_node s md (pm_leader pm) = Some host.

Lemma find_broker_led_by s md s' t p host :
  inv s -> wf_md md -> small s' -> update_metadata s md = Ok s' ->
  find_broker s' t p = Some host -> led_by s md t p host.
Proof.
  intros Hinv Hwf Hsm Hupd Hf tm Hlast.
  rewrite (C09_route_after_load s md s' t tm p Hinv Hwf Hsm Hupd Hlast) in Hf.
  unfold leader_host in Hf. destruct (listed_leader (tm_partitions tm) p) as [l|] eqn:E; [|discriminate].
  destruct (listed_leader_in _ _ _ E) as (pm & Hin & Hid & Hl). exists pm. rewrite Hl. auto.
Qed.

(* fetch_messages: every partition in the FetchRequest for a host is led by that host *)
Theorem C09_fetch_requests_led : forall s md (c : client) input host tps t ps p x,
  inv s -> wf_md md -> small (cs c) -> update_metadata s md = Ok (cs c) ->
  In (host, tps) (fetch_reqs c input) -> In (t, ps) tps -> In (p, x) ps -> led_by s md t p host.
Proof.
  intros s md c input host tps t ps p x Hinv Hwf Hsm Hupd H1 H2 H3.
  eapply find_broker_led_by; eauto. eapply C06_fetch_addressed; eauto.
Qed.

(* fetch_offsets / list_offsets: the same for Offsets and ListOffsets requests *)
Theorem C09_offset_requests_led : forall s md s' topics time host tps t ps p x,
  inv s -> wf_md md -> small s' -> update_metadata s md = Ok s' ->
  In (host, tps) (offset_reqs s' topics time) -> In (t, ps) tps -> In (p, x) ps -> led_by s md t p host.
Proof.
  intros s md s' topics time host tps t ps p x Hinv Hwf Hsm Hupd H1 H2 H3.
  eapply find_broker_led_by; eauto. eapply C06_leaderless_never_addressed; eauto.
Qed.

(* produce_messages: the same for Produce requests *)
Theorem C09_produce_requests_led : forall s md s' msgs reqs host tps t ps p x,
  inv s -> wf_md md -> small s' -> update_metadata s md = Ok s' ->
  produce_reqs s' msgs [] = Some reqs ->
  In (host, tps) reqs -> In (t, ps) tps -> In (p, x) ps -> led_by s md t p host.
Proof.
  intros s md s' msgs reqs host tps t ps p x Hinv Hwf Hsm Hupd H0 H1 H2 H3.
  eapply find_broker_led_by; eauto. eapply C06_produce_addressed; eauto.
Qed.

(* three brokers, topic "orders" with partition p led by node p+1, listed in the order [2; 0; 1]
   (the seeded demonstration): every request goes to the leader by id *)
Definition ex_md_orders : metadata_resp :=
  {| md_corr := 1;
     md_brokers := [ex_bm 1 (tag "b1") 9092; ex_bm 2 (tag "b2") 9092; ex_bm 3 (tag "b3") 9092];
     md_topics := [ex_tm (tag "orders") [ex_pm 2 3; ex_pm 0 1; ex_pm 1 2]] |}.
Definition ex_s_orders : cstate := ex_load cstate_new ex_md_orders.
Example C09_requests_led_ex :
  update_metadata cstate_new ex_md_orders = Ok ex_s_orders /\ small ex_s_orders /\
  fetch_reqs {| cfg := default_config []; cs := ex_s_orders; conns := [] |}
             [ {| fq_topic := tag "orders"; fq_partition := 0; fq_offset := 100; fq_max_bytes := 0 |};
               {| fq_topic := tag "orders"; fq_partition := 1; fq_offset := 101; fq_max_bytes := 0 |};
               {| fq_topic := tag "orders"; fq_partition := 2; fq_offset := 102; fq_max_bytes := 0 |} ]
  = [ (tag "b1:9092", [(tag "orders", [(0, (100, 32768))])]);
      (tag "b2:9092", [(tag "orders", [(1, (101, 32768))])]);
      (tag "b3:9092", [(tag "orders", [(2, (102, 32768))])]) ] /\
  offset_reqs ex_s_orders [tag "orders"] (-1)
  = [ (tag "b1:9092", [(tag "orders", [(0, -1)])]);
      (tag "b2:9092", [(tag "orders", [(1, -1)])]);
      (tag "b3:9092", [(tag "orders", [(2, -1)])]) ].
Proof. vm_compute. repeat split; try reflexivity; discriminate. Qed.
Example C09_wf_md_orders : wf_md ex_md_orders.
Proof.
  constructor; [|constructor]. unfold wf_topic. cbn.
  apply perm_trans with [0; 2; 1]; [apply perm_swap|]. apply perm_skip, perm_swap.
Qed.

Check C09_route_after_load.
Check C09_fetch_requests_led.
Check C09_offset_requests_led.
Check C09_produce_requests_led.
Print Assumptions C09_route_after_load.
Print Assumptions C09_fetch_requests_led.
Print Assumptions C09_offset_requests_led.
Print Assumptions C09_produce_requests_led.
