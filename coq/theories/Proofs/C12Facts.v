(* C12: the default partitioner (src/producer.rs, DefaultPartitioner::partition, State::new, send_all).

   PROVED HERE (all Qed, no axioms; see the Print Assumptions at the end):
   - C12_explicit, C12_keyed, C12_keyed_pure, C12_keyless, C12_unknown, C12_unassigned_rejected
     exactly as requested; C12_keyed_zero / C12_keyless_none for the two remaining "left unassigned" cases.
   - C12_rotation: a window of |av| consecutive keyless records of ONE topic that does not cross the
     2^32 wrap of the counter is a permutation of the available ids.
   - C12_available_iff_leader / C12_num_all_is_count: in the state built by State::new (producer_state) the
     available ids of a topic are exactly the partitions find_broker resolves to a host, and num_all is the
     total number of partitions of the topic; C12_keyless_has_leader combines this with C12_keyless.
   REFUTED (concrete witnesses):
   - C12_rotation_shared_counter_refuted: the counter is shared by all topics, so with another topic's
     keyless records interleaved, every record of a topic can go to the same partition.
   - C12_wrap_refuted: across the 2^32 wrap with 3 available partitions a partition is repeated
     before all have been visited. *)
From Coq Require Import ZifyBool Sorting.Permutation.
From KV Require Import Base.Prelude Base.Xxh32 Gen.Consts Model.Codecs Model.Requests Model.Responses
                       Model.ClientState Model.Net Model.Client Model.Producer.
Ltac Zify.zify_post_hook ::= Z.div_mod_to_equations.

(* ---- concrete inputs for the non-vacuity examples ------------------------------------------------ *)
Definition ex_parts : list (bytes * pparts) :=
  [ (tag "t1", {| available_ids := [0; 2; 3]; num_all := 4 |});
    (tag "t2", {| available_ids := [0; 1]; num_all := 2 |});
    (tag "empty", {| available_ids := []; num_all := 0 |}) ].

(* brokers 0 and 1 exist; t1 has 4 partitions, partition 1 has no leader (UNKNOWN_BROKER_INDEX) *)
Definition ex_state : cstate :=
  {| correlation := 0;
     brokers := [ {| b_node := 10; b_host := tag "h0:9092" |}; {| b_node := 11; b_host := tag "h1:9092" |} ];
     topic_partitions := [ (tag "t1", [0; UNKNOWN_BROKER_INDEX; 1; 0]); (tag "t2", [1; 0]) ];
     group_coordinators := [] |}.

Definition ex_rec (t : bytes) (p : Z) (k v : bytes) : record :=
  {| r_topic := t; r_partition := p; r_key := k; r_value := v |}.

(* ---- explicit partition ---------------------------------------------------------------------- *)
Theorem C12_explicit : forall parts cntr topic p key,
  0 <= p -> partition parts cntr topic p key = (p, cntr).
Proof.
  intros parts cntr topic p key Hp. unfold partition.
  destruct (0 <=? p) eqn:E; [reflexivity|lia].
Qed.

Example C12_explicit_ex :
  0 <= 3 /\ partition ex_parts 7 (tag "t1") 3 (Some (tag "abc")) = (3, 7)
  /\ partition ex_parts 7 (tag "nope") 99 None = (99, 7).
Proof. vm_compute. repeat split; discriminate. Qed.

(* ---- keyed records --------------------------------------------------------------------------- *)
Lemma wrap_s_32_small z : 0 <= z < 2147483648 -> wrap_s 32 z = z.
Proof.
  intros Hz. unfold wrap_s. change (2 ^ 32) with 4294967296. change (2 ^ (32 - 1)) with 2147483648.
  cbv zeta. rewrite Z.mod_small by lia.
  destruct (z <? 2147483648) eqn:E; [reflexivity|lia].
Qed.

Theorem C12_keyed : forall parts cntr topic p k ps,
  p < 0 -> assoc_bytes topic parts = Some ps -> 0 < num_all ps <= 2147483648 ->
  partition parts cntr topic p (Some k) = (xxh32 0 k mod num_all ps, cntr)
  /\ 0 <= xxh32 0 k mod num_all ps < num_all ps.
Proof.
  intros parts cntr topic p k ps Hp Hassoc Hn.
  assert (Hr : 0 <= xxh32 0 k mod num_all ps < num_all ps) by (apply Z.mod_pos_bound; lia).
  split; [|exact Hr].
  unfold partition. destruct (0 <=? p) eqn:E; [lia|].
  rewrite Hassoc. destruct (num_all ps =? 0) eqn:E0; [lia|].
  rewrite wrap_s_32_small by lia. reflexivity.
Qed.

Example C12_keyed_ex :
  -1 < 0 /\ assoc_bytes (tag "t1") ex_parts = Some {| available_ids := [0; 2; 3]; num_all := 4 |}
  /\ 0 < 4 <= 2147483648
  /\ xxh32 0 (tag "abc") mod 4 = 3
  /\ partition ex_parts 7 (tag "t1") (-1) (Some (tag "abc")) = (3, 7).
Proof. vm_compute. repeat split; try reflexivity; discriminate. Qed.

(* independence: the result for a keyed record does not depend on the counter or on the available ids *)
Theorem C12_keyed_pure : forall parts parts' cntr cntr' topic p k ps ps',
  p < 0 -> assoc_bytes topic parts = Some ps -> assoc_bytes topic parts' = Some ps' ->
  num_all ps = num_all ps' ->
  fst (partition parts cntr topic p (Some k)) = fst (partition parts' cntr' topic p (Some k)).
Proof.
  intros parts parts' cntr cntr' topic p k ps ps' Hp Ha Ha' Hn.
  unfold partition. destruct (0 <=? p) eqn:E; [lia|].
  rewrite Ha, Ha', Hn. destruct (num_all ps' =? 0) eqn:E0; reflexivity.
Qed.

Definition ex_parts' : list (bytes * pparts) :=
  [ (tag "t2", {| available_ids := []; num_all := 2 |});
    (tag "t1", {| available_ids := [1]; num_all := 4 |}) ].

Example C12_keyed_pure_ex :
  assoc_bytes (tag "t1") ex_parts = Some {| available_ids := [0; 2; 3]; num_all := 4 |}
  /\ assoc_bytes (tag "t1") ex_parts' = Some {| available_ids := [1]; num_all := 4 |}
  /\ fst (partition ex_parts 7 (tag "t1") (-1) (Some (tag "abc"))) = 3
  /\ fst (partition ex_parts' 4294967295 (tag "t1") (-5) (Some (tag "abc"))) = 3.
Proof. vm_compute. repeat split; reflexivity. Qed.

(* a key and a topic without any partition: left unassigned *)
Theorem C12_keyed_zero : forall parts cntr topic p k ps,
  p < 0 -> assoc_bytes topic parts = Some ps -> num_all ps = 0 ->
  partition parts cntr topic p (Some k) = (p, cntr).
Proof.
  intros parts cntr topic p k ps Hp Ha Hn. unfold partition.
  destruct (0 <=? p) eqn:E; [reflexivity|]. rewrite Ha, Hn. reflexivity.
Qed.

Example C12_keyed_zero_ex : partition ex_parts 7 (tag "empty") (-1) (Some (tag "abc")) = (-1, 7).
Proof. vm_compute. reflexivity. Qed.

(* ---- keyless records ------------------------------------------------------------------------- *)
Theorem C12_keyless : forall parts cntr topic p ps a av,
  p < 0 -> assoc_bytes topic parts = Some ps -> available_ids ps = a :: av -> 0 <= cntr ->
  partition parts cntr topic p None
  = (nth (Z.to_nat (cntr mod ulen (a :: av))) (a :: av) a, (cntr + 1) mod 4294967296)
  /\ In (fst (partition parts cntr topic p None)) (a :: av).
Proof.
  intros parts cntr topic p ps a av Hp Ha Hav Hc.
  assert (E1 : partition parts cntr topic p None
               = (nth (Z.to_nat (cntr mod ulen (a :: av))) (a :: av) a, (cntr + 1) mod 4294967296)).
  { unfold partition. destruct (0 <=? p) eqn:E; [lia|]. rewrite Ha, Hav. reflexivity. }
  split; [exact E1|]. rewrite E1. cbn [fst]. apply nth_In.
  unfold ulen. pose proof (Z.mod_pos_bound cntr (Z.of_nat (length (a :: av)))) as Hb.
  cbn [length] in *. lia.
Qed.

Example C12_keyless_ex :
  assoc_bytes (tag "t1") ex_parts = Some {| available_ids := [0; 2; 3]; num_all := 4 |}
  /\ partition ex_parts 7 (tag "t1") (-1) None = (2, 8)
  /\ partition ex_parts 8 (tag "t1") (-1) None = (3, 9)
  /\ partition ex_parts 4294967295 (tag "t1") (-1) None = (0, 0).
Proof. vm_compute. repeat split; reflexivity. Qed.

Theorem C12_keyless_none : forall parts cntr topic p ps,
  p < 0 -> assoc_bytes topic parts = Some ps -> available_ids ps = [] ->
  partition parts cntr topic p None = (p, cntr).
Proof.
  intros parts cntr topic p ps Hp Ha Hav. unfold partition.
  destruct (0 <=? p) eqn:E; [reflexivity|]. rewrite Ha, Hav. reflexivity.
Qed.

Example C12_keyless_none_ex : partition ex_parts 7 (tag "empty") (-1) None = (-1, 7).
Proof. vm_compute. reflexivity. Qed.

(* ---- unknown topic --------------------------------------------------------------------------- *)
Theorem C12_unknown : forall parts cntr topic p key,
  p < 0 -> assoc_bytes topic parts = None -> partition parts cntr topic p key = (p, cntr).
Proof.
  intros parts cntr topic p key Hp Ha. unfold partition.
  destruct (0 <=? p) eqn:E; [reflexivity|]. rewrite Ha. reflexivity.
Qed.

Example C12_unknown_ex :
  assoc_bytes (tag "nope") ex_parts = None
  /\ partition ex_parts 7 (tag "nope") (-1) (Some (tag "abc")) = (-1, 7)
  /\ partition ex_parts 7 (tag "nope") (-1) None = (-1, 7).
Proof. vm_compute. repeat split; reflexivity. Qed.

(* ---- unassigned records are rejected ---------------------------------------------------------- *)
Lemma find_broker_neg s topic p : p < 0 -> find_broker s topic p = None.
Proof.
  intros Hp. unfold find_broker, partition_ref, nth_z.
  destruct (partitions_for s topic) as [ps|]; [|reflexivity].
  destruct (p <? 0) eqn:E; [|lia]. cbn [orb]. reflexivity.
Qed.

Theorem C12_unassigned_rejected : forall s parts cntr recs reqs r rest,
  recs = r :: rest ->
  fst (partition parts cntr (r_topic r) (r_partition r) (to_option (r_key r))) < 0 ->
  fst (send_all_reqs s parts cntr recs reqs) = None.
Proof.
  intros s parts cntr recs reqs r rest Hrecs Hneg. subst recs.
  cbn [send_all_reqs].
  destruct (partition parts cntr (r_topic r) (r_partition r) (to_option (r_key r))) as [q c'] eqn:E.
  cbn [fst] in Hneg. rewrite find_broker_neg by exact Hneg. reflexivity.
Qed.

Example C12_unassigned_rejected_ex :
  fst (partition (producer_state ex_state) 0 (tag "nope") (-1) (to_option (tag "k"))) < 0
  /\ send_all_reqs ex_state (producer_state ex_state) 0
       [ex_rec (tag "nope") (-1) (tag "k") (tag "v"); ex_rec (tag "t1") 0 [] (tag "v")] [] = (None, 0)
  /\ (* a known topic goes through *)
     fst (send_all_reqs ex_state (producer_state ex_state) 0 [ex_rec (tag "t1") (-1) [] (tag "v")] []) <> None.
Proof. vm_compute. repeat split; try reflexivity; discriminate. Qed.

(* ---- State::new: available ids are exactly the partitions with a leader ------------------------- *)
Lemma assoc_bytes_map {V W} (f : V -> W) topic (l : list (bytes * V)) :
  assoc_bytes topic (map (fun '(t, v) => (t, f v)) l) = option_map f (assoc_bytes topic l).
Proof.
  induction l as [|[t v] l IH]; [reflexivity|].
  cbn [map assoc_bytes]. destruct (bytes_eqb t topic); [reflexivity|exact IH].
Qed.

Lemma producer_state_assoc s topic :
  assoc_bytes topic (producer_state s)
  = option_map (fun ps => {| available_ids := map fst (leaders_from s ps 0); num_all := ulen ps |})
               (partitions_for s topic).
Proof. unfold producer_state, partitions_for. apply assoc_bytes_map. Qed.

Lemma leaders_from_ids s : forall ps i0 id,
  In id (map fst (leaders_from s ps i0))
  <-> exists bref b, i0 <= id < i0 + ulen ps /\ nth_error ps (Z.to_nat (id - i0)) = Some bref
                     /\ broker_of s bref = Some b.
Proof.
  induction ps as [|bref r IH]; intros i0 id.
  - cbn [leaders_from map In]. split; [intros []|].
    intros [bref [b [Hr _]]]. unfold ulen in Hr. cbn [length] in Hr. lia.
  - assert (Hlen : ulen (bref :: r) = ulen r + 1) by (unfold ulen; cbn [length]; lia).
    rewrite Hlen. cbn [leaders_from]. split.
    + intros Hin.
      assert (Hcase : (id = i0 /\ exists b, broker_of s bref = Some b)
                      \/ In id (map fst (leaders_from s r (i0 + 1)))).
      { destruct (broker_of s bref) as [b|] eqn:Eb.
        - cbn [map In fst] in Hin. destruct Hin as [Heq|Hin]; [left; split; [lia|eauto]|right; exact Hin].
        - right. exact Hin. }
      destruct Hcase as [[Heq [b Hb]]|Hin'].
      * subst id. exists bref, b. unfold ulen. replace (i0 - i0) with 0 by lia.
        cbn [Z.to_nat nth_error]. repeat split; try lia; assumption.
      * apply IH in Hin'. destruct Hin' as [bref' [b' [Hr [Hn Hb]]]].
        exists bref', b'. split; [lia|]. split; [|exact Hb].
        replace (Z.to_nat (id - i0)) with (S (Z.to_nat (id - (i0 + 1)))) by lia.
        cbn [nth_error]. exact Hn.
    + intros [bref' [b' [Hr [Hn Hb]]]].
      destruct (Z.eq_dec id i0) as [Heq|Hne].
      * subst id. replace (i0 - i0) with 0 in Hn by lia. cbn [Z.to_nat nth_error] in Hn.
        injection Hn as Hn. subst bref'. rewrite Hb. cbn [map In fst]. left. reflexivity.
      * assert (Hin' : In id (map fst (leaders_from s r (i0 + 1)))).
        { apply IH. exists bref', b'. split; [lia|]. split; [|exact Hb].
          replace (Z.to_nat (id - i0)) with (S (Z.to_nat (id - (i0 + 1)))) in Hn by lia.
          cbn [nth_error] in Hn. exact Hn. }
        destruct (broker_of s bref) as [b|]; [cbn [map In fst]; right; exact Hin'|exact Hin'].
Qed.

(* "a partition that has a leader in the producer's metadata": s is the state the producer was built from *)
Theorem C12_available_iff_leader : forall s topic ps id,
  assoc_bytes topic (producer_state s) = Some ps ->
  (In id (available_ids ps) <-> exists host, find_broker s topic id = Some host).
Proof.
  intros s topic ps id Ha. rewrite producer_state_assoc in Ha.
  unfold find_broker, partition_ref, nth_z.
  destruct (partitions_for s topic) as [l|]; [|discriminate].
  cbn [option_map] in Ha. injection Ha as Ha. subst ps. cbn [available_ids].
  rewrite leaders_from_ids. replace (id - 0) with id by lia. split.
  - intros [bref [b [Hr [Hn Hb]]]].
    destruct ((id <? 0) || (ulen l <=? id)) eqn:E; [lia|].
    rewrite Hn, Hb. cbn [option_map]. eauto.
  - intros [host Hh].
    destruct ((id <? 0) || (ulen l <=? id)) eqn:E; [discriminate|].
    destruct (nth_error l (Z.to_nat id)) as [bref|] eqn:En; [|discriminate].
    destruct (broker_of s bref) as [b|] eqn:Eb; [|discriminate].
    exists bref, b. repeat split; try lia; assumption.
Qed.

Theorem C12_num_all_is_count : forall s topic ps,
  assoc_bytes topic (producer_state s) = Some ps ->
  exists l, partitions_for s topic = Some l /\ num_all ps = ulen l /\ 0 <= num_all ps.
Proof.
  intros s topic ps Ha. rewrite producer_state_assoc in Ha.
  destruct (partitions_for s topic) as [l|]; [|discriminate].
  cbn [option_map] in Ha. injection Ha as Ha. subst ps. exists l. cbn [num_all]. unfold ulen.
  repeat split; lia.
Qed.

Example C12_available_iff_leader_ex :
  assoc_bytes (tag "t1") (producer_state ex_state) = Some {| available_ids := [0; 2; 3]; num_all := 4 |}
  /\ find_broker ex_state (tag "t1") 0 = Some (tag "h0:9092")
  /\ find_broker ex_state (tag "t1") 1 = None
  /\ find_broker ex_state (tag "t1") 2 = Some (tag "h1:9092")
  /\ find_broker ex_state (tag "t1") 3 = Some (tag "h0:9092")
  /\ find_broker ex_state (tag "t1") 4 = None.
Proof. vm_compute. repeat split; reflexivity. Qed.

(* a keyless record for a topic with an available partition goes to a partition with a leader *)
Theorem C12_keyless_has_leader : forall s cntr topic p ps,
  p < 0 -> assoc_bytes topic (producer_state s) = Some ps -> available_ids ps <> [] -> 0 <= cntr ->
  exists host, find_broker s topic (fst (partition (producer_state s) cntr topic p None)) = Some host.
Proof.
  intros s cntr topic p ps Hp Ha Hne Hc.
  destruct (available_ids ps) as [|a av] eqn:Hav; [congruence|].
  destruct (C12_keyless _ cntr topic p ps a av Hp Ha Hav Hc) as [_ Hin].
  apply (C12_available_iff_leader s topic ps _ Ha). rewrite Hav. exact Hin.
Qed.

Example C12_keyless_has_leader_ex :
  find_broker ex_state (tag "t1") (fst (partition (producer_state ex_state) 1 (tag "t1") (-1) None))
  = Some (tag "h1:9092").
Proof. vm_compute. reflexivity. Qed.

(* keyed records: two producers built from metadata that agree on the number of partitions of the topic
   (whatever the leaders are) choose the same partition *)
Theorem C12_keyed_same_across_producers : forall s s' cntr cntr' topic p k l l',
  p < 0 -> partitions_for s topic = Some l -> partitions_for s' topic = Some l' -> length l = length l' ->
  fst (partition (producer_state s) cntr topic p (Some k))
  = fst (partition (producer_state s') cntr' topic p (Some k)).
Proof.
  intros s s' cntr cntr' topic p k l l' Hp Hl Hl' Hlen.
  eapply C12_keyed_pure; [exact Hp| | |].
  - rewrite producer_state_assoc, Hl. reflexivity.
  - rewrite producer_state_assoc, Hl'. reflexivity.
  - cbn [num_all]. unfold ulen. rewrite Hlen. reflexivity.
Qed.

(* ---- rotation ---------------------------------------------------------------------------------- *)
Fixpoint keyless_run (parts : list (bytes * pparts)) (cntr : Z) (topic : bytes) (n : nat) : list Z * Z :=
  match n with
  | O => ([], cntr)
  | S k => let '(p, c') := partition parts cntr topic (-1) None in
           let '(ps, c'') := keyless_run parts c' topic k in (p :: ps, c'')
  end.

Definition idx_at (c L : Z) (i : nat) : nat := Z.to_nat ((c + Z.of_nat i) mod L).

Lemma keyless_run_fst parts topic ps a av :
  assoc_bytes topic parts = Some ps -> available_ids ps = a :: av ->
  forall n c, 0 <= c -> c + Z.of_nat n <= 4294967296 ->
  fst (keyless_run parts c topic n)
  = map (fun i => nth (idx_at c (ulen (a :: av)) i) (a :: av) a) (seq 0 n).
Proof.
  intros Hassoc Hav. induction n as [|n IH]; intros c Hc Hb; [reflexivity|].
  cbn [keyless_run].
  destruct (C12_keyless parts c topic (-1) ps a av ltac:(lia) Hassoc Hav Hc) as [Hp _].
  rewrite Hp.
  assert (Hrest : fst (keyless_run parts ((c + 1) mod 4294967296) topic n)
                  = map (fun i => nth (idx_at c (ulen (a :: av)) (S i)) (a :: av) a) (seq 0 n)).
  { destruct n as [|m]; [reflexivity|].
    rewrite Z.mod_small by lia. rewrite IH by lia.
    apply map_ext. intros i. unfold idx_at. f_equal. f_equal. f_equal. lia. }
  destruct (keyless_run parts ((c + 1) mod 4294967296) topic n) as [l c''].
  cbn [fst] in *. subst l.
  cbn [seq map]. f_equal.
  - unfold idx_at. f_equal. f_equal. f_equal. lia.
  - rewrite <- seq_shift, map_map. reflexivity.
Qed.

Lemma idx_perm (n : nat) (c : Z) : (0 < n)%nat ->
  Permutation (seq 0 n) (map (idx_at c (Z.of_nat n)) (seq 0 n)).
Proof.
  intros Hn. apply NoDup_Permutation_bis.
  - apply seq_NoDup.
  - rewrite map_length. apply Nat.le_refl.
  - intros j Hj. apply in_seq in Hj. apply in_map_iff.
    assert (Hm : 0 <= (Z.of_nat j - c) mod Z.of_nat n < Z.of_nat n) by (apply Z.mod_pos_bound; lia).
    exists (Z.to_nat ((Z.of_nat j - c) mod Z.of_nat n)). split.
    + unfold idx_at. rewrite Z2Nat.id by (apply Hm).
      rewrite Z.add_mod_idemp_r by lia.
      replace (c + (Z.of_nat j - c)) with (Z.of_nat j) by lia.
      rewrite Z.mod_small by lia. apply Nat2Z.id.
    + apply in_seq. lia.
Qed.

Lemma map_nth_seq_id {A} (d : A) (l : list A) : map (fun i => nth i l d) (seq 0 (length l)) = l.
Proof.
  induction l as [|x l IH]; [reflexivity|].
  cbn [length seq map nth]. f_equal.
  rewrite <- seq_shift, map_map. cbn [nth]. exact IH.
Qed.

Theorem C12_rotation : forall parts cntr topic ps av,
  assoc_bytes topic parts = Some ps -> available_ids ps = av -> av <> [] ->
  0 <= cntr -> cntr + ulen av <= 4294967296 ->
  Permutation (fst (keyless_run parts cntr topic (length av))) av.
Proof.
  intros parts cntr topic ps av Ha Hav Hne Hc Hb.
  destruct av as [|a av']; [congruence|].
  rewrite (keyless_run_fst parts topic ps a av' Ha Hav (length (a :: av')) cntr Hc Hb).
  remember (a :: av') as l eqn:El.
  assert (Hlen : (0 < length l)%nat) by (subst l; cbn [length]; lia).
  unfold ulen.
  rewrite <- (map_map (idx_at cntr (Z.of_nat (length l))) (fun i => nth i l a)).
  apply Permutation_sym.
  apply (@Permutation_trans _ _ (map (fun i => nth i l a) (seq 0 (length l)))).
  - rewrite map_nth_seq_id. apply Permutation_refl.
  - apply Permutation_map. apply idx_perm. exact Hlen.
Qed.

Example C12_rotation_ex :
  assoc_bytes (tag "t1") ex_parts = Some {| available_ids := [0; 2; 3]; num_all := 4 |}
  /\ 4294967293 + ulen [0; 2; 3] <= 4294967296
  /\ keyless_run ex_parts 7 (tag "t1") 3 = ([2; 3; 0], 10)
  /\ keyless_run ex_parts 4294967293 (tag "t1") 3 = ([2; 3; 0], 0).
Proof. vm_compute. repeat split; try reflexivity; discriminate. Qed.

(* ---- the counter is shared by all topics (producer.rs, DefaultPartitioner::cntr) ----------------- *)
(* keyless records for a list of topics, in order, through one partitioner *)
Fixpoint keyless_seq (parts : list (bytes * pparts)) (cntr : Z) (topics : list bytes) : list Z * Z :=
  match topics with
  | [] => ([], cntr)
  | t :: ts => let '(p, c') := partition parts cntr t (-1) None in
               let '(ps, c'') := keyless_seq parts c' ts in (p :: ps, c'')
  end.

(* "consecutive such records for one topic visit every such partition before repeating any" fails when
   keyless records of another topic are interleaved: with two topics of two available partitions each and
   the sends t1,t2,t1,t2 every t1 record goes to partition 0 (and every t2 record to partition 1);
   partition 1 of t1 is never used however long the alternation continues. *)
Theorem C12_rotation_shared_counter_refuted :
  exists parts t1 t2 ps1 ps2,
    t1 <> t2
    /\ assoc_bytes t1 parts = Some ps1 /\ available_ids ps1 = [0; 1]
    /\ assoc_bytes t2 parts = Some ps2 /\ available_ids ps2 = [0; 1]
    /\ fst (keyless_seq parts 0 [t1; t2; t1; t2; t1; t2]) = [0; 1; 0; 1; 0; 1].
Proof.
  exists [ (tag "t1", {| available_ids := [0; 1]; num_all := 2 |});
           (tag "t2", {| available_ids := [0; 1]; num_all := 2 |}) ].
  exists (tag "t1"), (tag "t2"),
         {| available_ids := [0; 1]; num_all := 2 |}, {| available_ids := [0; 1]; num_all := 2 |}.
  vm_compute. repeat split; try reflexivity. discriminate.
Qed.

(* the same through send_all_reqs on a state built by State::new (t2 has the available partitions 0 and 1):
   both keyless t2 records of one send_all call land in partition 0, i.e. the requests built are those of
   the explicitly addressed records t2/0, t1/2, t2/0, t1/0 *)
Example C12_shared_counter_send_all_ex :
  assoc_bytes (tag "t2") (producer_state ex_state) = Some {| available_ids := [0; 1]; num_all := 2 |}
  /\ fst (send_all_reqs ex_state (producer_state ex_state) 0
            [ ex_rec (tag "t2") (-1) [] (tag "a"); ex_rec (tag "t1") (-1) [] (tag "b");
              ex_rec (tag "t2") (-1) [] (tag "c"); ex_rec (tag "t1") (-1) [] (tag "d") ] [])
     = fst (send_all_reqs ex_state (producer_state ex_state) 0
            [ ex_rec (tag "t2") 0 [] (tag "a"); ex_rec (tag "t1") 2 [] (tag "b");
              ex_rec (tag "t2") 0 [] (tag "c"); ex_rec (tag "t1") 0 [] (tag "d") ] [])
  /\ fst (send_all_reqs ex_state (producer_state ex_state) 0
            [ ex_rec (tag "t2") 0 [] (tag "a"); ex_rec (tag "t1") 2 [] (tag "b");
              ex_rec (tag "t2") 0 [] (tag "c"); ex_rec (tag "t1") 0 [] (tag "d") ] []) <> None
  /\ snd (send_all_reqs ex_state (producer_state ex_state) 0
            [ ex_rec (tag "t2") (-1) [] (tag "a"); ex_rec (tag "t1") (-1) [] (tag "b");
              ex_rec (tag "t2") (-1) [] (tag "c"); ex_rec (tag "t1") (-1) [] (tag "d") ] []) = 4.
Proof. vm_compute. repeat split; try reflexivity; discriminate. Qed.

(* at the 2^32 wrap of the counter the window of |av| records repeats a partition when |av| does not
   divide 2^32: with 3 available partitions and cntr = 2^32 - 1 the indices are 0, 0, 1 *)
Theorem C12_wrap_refuted :
  exists parts cntr topic ps av,
    assoc_bytes topic parts = Some ps /\ available_ids ps = av /\ av <> [] /\ length av = 3%nat
    /\ 0 <= cntr < 4294967296
    /\ fst (keyless_run parts cntr topic (length av)) = [0; 0; 1]
    /\ ~ Permutation (fst (keyless_run parts cntr topic (length av))) av.
Proof.
  exists [ (tag "t", {| available_ids := [0; 1; 2]; num_all := 3 |}) ], 4294967295, (tag "t"),
         {| available_ids := [0; 1; 2]; num_all := 3 |}, [0; 1; 2].
  assert (E : fst (keyless_run [ (tag "t", {| available_ids := [0; 1; 2]; num_all := 3 |}) ]
                               4294967295 (tag "t") (length [0; 1; 2])) = [0; 0; 1])
    by (vm_compute; reflexivity).
  rewrite E.
  repeat split; try reflexivity; try discriminate.
  intros Hperm. apply Permutation_sym in Hperm.
  assert (Hin : In 2 [0; 0; 1]) by (apply (Permutation_in 2 Hperm); cbn [In]; auto).
  cbn [In] in Hin. repeat (destruct Hin as [Hin|Hin]; [discriminate|]). exact Hin.
Qed.

(* C12_rotation is sharp in the other direction too: the bound cntr + |av| <= 2^32 allows the window whose
   last record sets the counter to 0 (see C12_rotation_ex, cntr = 4294967293). *)

Print Assumptions C12_explicit.
Print Assumptions C12_keyed.
Print Assumptions C12_keyed_pure.
Print Assumptions C12_keyed_zero.
Print Assumptions C12_keyless.
Print Assumptions C12_keyless_none.
Print Assumptions C12_unknown.
Print Assumptions C12_unassigned_rejected.
Print Assumptions C12_available_iff_leader.
Print Assumptions C12_num_all_is_count.
Print Assumptions C12_keyless_has_leader.
Print Assumptions C12_keyed_same_across_producers.
Print Assumptions C12_rotation.
Print Assumptions C12_rotation_shared_counter_refuted.
Print Assumptions C12_wrap_refuted.
