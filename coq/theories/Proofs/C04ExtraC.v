(* C04, additional theorems, third pass (round-five seed C04-5, round-six seed C04-6).

   Both seeds are ALREADY covered by Props/C04.v (confirmed on scratch copies of the model with the mirrored
   change, by proving the negation of the statement with a concrete witness):
   - C04-5 (client/mod.rs __fetch_messages: the error of one broker's round is dropped when another broker
     answered) mirrors into Client.fetch_exchange and falsifies C04_fetch_exchange_cons,
     C04_fetch_exchange_rejects and C04_fetch_messages_rejects (witness: two brokers, the first answers with an
     intact set, the second with a damaged one: the mutant returns Ok [first answer]);
   - C04-6 (fetch.rs MessageSet::from_slice: `break` at a wrapper when messages were collected already) mirrors
     into Responses.ms_loop and falsifies C04_wrapper_gzip / _snappy and C04_inner_rejects_gzip / _snappy, whose
     `pre` is ANY list of plain entries, in particular entries at or behind the requested offset (witness: the
     input of C04Facts.C04_inner_rejects_gzip_ex itself, where Plain 9 precedes the wrapper and req = 0).

   What the earlier files did not have, and this file adds (all about the UNCHANGED model):

   A. the per-broker loop of KafkaClient::fetch_messages, characterised completely.
      The earlier theorems say "the brokers before h answered well and h's answer is damaged => CorruptMessage".
      Here: - C04_fetch_exchange_ok_iff: the call delivers (Ok) IF AND ONLY IF every broker, in order, answered and
              every answer was decoded Ok with the configured flag; what is delivered is exactly these decodings;
            - C04_fetch_messages_all_answered: a delivered result has exactly one response per broker asked
              (seed C04-5 returns fewer: the damaged broker's partitions are silently missing);
            - C04_fetch_messages_never_delivered: a damaged answer from ANY broker of the call - whatever the
              answers of the brokers asked before it decode to - is never followed by a delivery;
            - C04_fetch_exchange_corrupt_inv / C04_fetch_messages_corrupt_inv: conversely, the call ends with
              CorruptMessage ONLY IF validation is configured on and the decoder said CorruptMessage for the answer
              of some broker, all brokers before it having answered well (no I/O step, no request encoder and no
              other path of the call produces this error).
   B. the bit-level patterns of the property INSIDE a wrapper that follows any plain messages in the same set
      (the "mixed set" of seed C04-6; compositions of C04_inner_rejects_* with C04_single_bit / _double_bit /
      _data_burst): C04_inner_single_bit_gzip / _snappy, C04_inner_double_bit_gzip / _snappy,
      C04_inner_data_burst_gzip / _snappy.

   Not done: a characterisation of from_slice over a whole Spec.MsgSetSpec log (all entries, nesting) is not
   attempted here; entries BEHIND a wrapper are not looked at (C04Extra.C04_behind_wrapper_refuted). *)
From Coq Require Import ZifyBool.
From KV Require Import Base.Prelude Base.Crc32 Base.Snappy Gen.ErrorCodes Gen.Consts
                       Model.Codecs Model.Requests Model.Responses Model.ClientState Model.Net Model.Client.
From KV Require Import Proofs.BytesFacts Proofs.Crc32Facts Proofs.SnappyFacts Spec.MsgSetSpec Spec.RespGrammar.
From KV Require Import Proofs.NetFacts Proofs.C04Facts Proofs.C04Extra Proofs.C04ExtraB.

Local Notation corrupt := (Err (EKafka KC_CorruptMessage)).

(* ====================================================================================== *)
(* A. the per-broker loop, completely                                                     *)
(* ====================================================================================== *)

(* the brokers of `reqs` are asked in order starting in state s; every one answers (b) and every answer is
   decoded Ok (resp) by the decoder with codecs cz and validation flag v; the state ends as s' *)
Inductive fx_ok (corr : Z) (cz : codecs) (v : bool)
  : list (bytes * fetch_tps) -> st -> list (bytes * fetch_resp) -> st -> Prop :=
| fx_nil s : fx_ok corr cz v [] s [] s
| fx_cons h tps r s b s1 resp l s' :
    fetch_io corr h tps s = (Ok b, s1) ->
    fetch_from_vec cz decode_depth v tps b = Ok resp ->
    fx_ok corr cz v r s1 l s' ->
    fx_ok corr cz v ((h, tps) :: r) s ((b, resp) :: l) s'.

(* the brokers of `reqs` are asked in order and every one answers; nothing is said about the answers *)
Inductive fx_io (corr : Z) : list (bytes * fetch_tps) -> st -> list bytes -> st -> Prop :=
| fi_nil s : fx_io corr [] s [] s
| fi_cons h tps r s b s1 bs s' :
    fetch_io corr h tps s = (Ok b, s1) -> fx_io corr r s1 bs s' -> fx_io corr ((h, tps) :: r) s (b :: bs) s'.

Lemma fx_ok_length corr cz v reqs s l s' : fx_ok corr cz v reqs s l s' -> length l = length reqs.
Proof. induction 1 as [|h tps r s b s1 resp l s' _ _ _ IH]; [reflexivity|]. cbn [length]. now rewrite IH. Qed.

Lemma fx_ok_io corr cz v reqs s l s' : fx_ok corr cz v reqs s l s' -> fx_io corr reqs s (map fst l) s'.
Proof. induction 1; cbn [map fst]; econstructor; eassumption. Qed.

Lemma fx_ok_cfgenv corr cz v reqs s l s' : fx_ok corr cz v reqs s l s' -> cfgenv s s'.
Proof.
  induction 1 as [|h tps r s b s1 resp l s' Hio _ _ IH]; [apply preorder_cfgenv|].
  destruct preorder_cfgenv as [_ T]. eapply T; [exact (keeps_fetch_io corr h tps s _ _ Hio)|exact IH].
Qed.

Lemma fx_ok_to_exchange corr cz v reqs s l s' : fx_ok corr cz v reqs s l s' ->
  env s = cz -> fetch_crc_validation (cfg (cl s)) = v ->
  forall acc, fetch_exchange corr reqs acc s = (Ok (acc ++ map snd l), s').
Proof.
  induction 1 as [s|h tps r s b s1 resp l s' Hio Hdec _ IH]; intros He Hv acc.
  - cbn [map]. rewrite app_nil_r. reflexivity.
  - rewrite C04_fetch_exchange_cons, Hio, He, Hv, Hdec.
    destruct (keeps_fetch_io corr h tps s _ _ Hio) as [E C].
    rewrite IH by congruence. cbn [map snd]. rewrite <- app_assoc. reflexivity.
Qed.

(* KafkaClient::__fetch_messages delivers iff every broker answered and every answer decoded Ok - with the
   codecs and the validation flag of the state the call starts in - and it delivers exactly these decodings, in
   the order the brokers were asked *)
Theorem C04_fetch_exchange_ok_iff : forall corr reqs acc s out s',
  fetch_exchange corr reqs acc s = (Ok out, s') <->
  exists l, fx_ok corr (env s) (fetch_crc_validation (cfg (cl s))) reqs s l s' /\ out = acc ++ map snd l.
Proof.
  intros corr reqs acc s out s'. split.
  - revert acc s. induction reqs as [|[h tps] r IH]; intros acc s H.
    + injection H as <- <-. exists []. split; [constructor|]. cbn [map]. now rewrite app_nil_r.
    + rewrite C04_fetch_exchange_cons in H.
      destruct (fetch_io corr h tps s) as [[b|e|w] s1] eqn:Hio; [|discriminate H|discriminate H].
      destruct (fetch_from_vec (env s) decode_depth (fetch_crc_validation (cfg (cl s))) tps b) as [resp|e|w] eqn:Hdec;
        [|discriminate H|discriminate H].
      destruct (keeps_fetch_io corr h tps s _ _ Hio) as [E C].
      destruct (IH _ _ H) as (l & Hl & ->). rewrite E, C in Hl.
      exists ((b, resp) :: l). split; [econstructor; eassumption|].
      cbn [map snd]. rewrite <- app_assoc. reflexivity.
  - intros (l & Hl & ->). apply (fx_ok_to_exchange _ _ _ _ _ _ _ Hl); reflexivity.
Qed.

(* KafkaClient::fetch_messages, delivered: one response per broker asked, each the Ok decoding of that broker's
   answer with the configured flag *)
Theorem C04_fetch_messages_ok_inv : forall input s corr sa reqs sb resps s',
  next_corr s = (Ok corr, sa) ->
  ordered (fetch_reqs (cl sa) input) sa = (Ok reqs, sb) ->
  fetch_messages input s = (Ok resps, s') ->
  exists l, fx_ok corr (env s) (fetch_crc_validation (cfg (cl s))) reqs sb l s' /\ resps = map snd l.
Proof.
  intros input s corr sa reqs sb resps s' Hc Ho H.
  unfold fetch_messages in H. rewrite (mbind_ok _ _ _ _ _ Hc) in H.
  unfold mbind at 1 in H. unfold get_client at 1 in H. cbv beta iota in H.
  rewrite (mbind_ok _ _ _ _ _ Ho) in H.
  destruct (keeps_next_corr s _ _ Hc) as [E1 C1]. destruct (keeps_ordered _ sa _ _ Ho) as [E2 C2].
  apply C04_fetch_exchange_ok_iff in H. destruct H as (l & Hl & ->).
  exists l. split; [|reflexivity]. rewrite <- E1, <- E2, <- C1, <- C2. exact Hl.
Qed.

Theorem C04_fetch_messages_all_answered : forall input s corr sa reqs sb resps s',
  next_corr s = (Ok corr, sa) ->
  ordered (fetch_reqs (cl sa) input) sa = (Ok reqs, sb) ->
  fetch_messages input s = (Ok resps, s') ->
  length resps = length reqs.
Proof.
  intros input s corr sa reqs sb resps s' Hc Ho H.
  destruct (C04_fetch_messages_ok_inv _ _ _ _ _ _ _ _ Hc Ho H) as (l & Hl & ->).
  rewrite map_length. exact (fx_ok_length _ _ _ _ _ _ _ Hl).
Qed.

(* a damaged answer from ANY broker of the call: never a delivery.  Unlike C04_fetch_exchange_rejects nothing is
   assumed about what the answers of the brokers in front of h decode to (if one of them fails in another way,
   the call fails with that error: still no delivery) *)
Lemma fx_ok_split corr cz v pre h tps post : forall s l s',
  fx_ok corr cz v (pre ++ (h, tps) :: post) s l s' ->
  forall bs s1 b s2, fx_io corr pre s bs s1 -> fetch_io corr h tps s1 = (Ok b, s2) ->
  exists resp, fetch_from_vec cz decode_depth v tps b = Ok resp.
Proof.
  induction pre as [|[h0 tps0] pre IH]; intros s l s' Hok bs s1 b s2 Hpre Hio.
  - inversion Hpre; subst. cbn [app] in Hok. inversion Hok; subst.
    match goal with H : fetch_io corr h tps s1 = (Ok ?b', _) |- _ => rewrite H in Hio; injection Hio as <- <- end.
    eexists. eassumption.
  - cbn [app] in Hok. inversion Hok; subst. inversion Hpre; subst.
    match goal with H1 : fetch_io corr h0 tps0 s = _, H2 : fetch_io corr h0 tps0 s = _ |- _ =>
      rewrite H1 in H2; injection H2 as <- <- end.
    eapply IH; eassumption.
Qed.

Theorem C04_fetch_exchange_never_delivered : forall corr pre h tps post acc s bs s1 b s2,
  fetch_crc_validation (cfg (cl s)) = true ->
  fx_io corr pre s bs s1 ->
  fetch_io corr h tps s1 = (Ok b, s2) ->
  fetch_from_vec (env s) decode_depth true tps b = corrupt ->
  forall out s', fetch_exchange corr (pre ++ (h, tps) :: post) acc s <> (Ok out, s').
Proof.
  intros corr pre h tps post acc s bs s1 b s2 Hv Hpre Hio Hbad out s' H.
  apply C04_fetch_exchange_ok_iff in H. destruct H as (l & Hl & _). rewrite Hv in Hl.
  destruct (fx_ok_split _ _ _ _ _ _ _ _ _ _ Hl _ _ _ _ Hpre Hio) as [resp Hr].
  rewrite Hbad in Hr. discriminate Hr.
Qed.

Theorem C04_fetch_messages_never_delivered : forall input s corr sa pre h tps post sb bs s1 b s2,
  fetch_crc_validation (cfg (cl s)) = true ->
  next_corr s = (Ok corr, sa) ->
  ordered (fetch_reqs (cl sa) input) sa = (Ok (pre ++ (h, tps) :: post), sb) ->
  fx_io corr pre sb bs s1 ->
  fetch_io corr h tps s1 = (Ok b, s2) ->
  fetch_from_vec (env s) decode_depth true tps b = corrupt ->
  forall resps s', fetch_messages input s <> (Ok resps, s').
Proof.
  intros input s corr sa pre h tps post sb bs s1 b s2 Hv Hc Ho Hpre Hio Hbad resps s' H.
  unfold fetch_messages in H. rewrite (mbind_ok _ _ _ _ _ Hc) in H.
  unfold mbind at 1 in H. unfold get_client at 1 in H. cbv beta iota in H.
  rewrite (mbind_ok _ _ _ _ _ Ho) in H.
  destruct (keeps_next_corr s _ _ Hc) as [E1 C1]. destruct (keeps_ordered _ sa _ _ Ho) as [E2 C2].
  assert (Hv' : fetch_crc_validation (cfg (cl sb)) = true) by (rewrite C2, C1; exact Hv).
  assert (Hbad' : fetch_from_vec (env sb) decode_depth true tps b = corrupt) by (rewrite E2, E1; exact Hbad).
  exact (C04_fetch_exchange_never_delivered corr pre h tps post [] sb bs s1 b s2 Hv' Hpre Hio Hbad' resps s' H).
Qed.

(* ---- the converse: where a CorruptMessage result comes from ------------------------------------------- *)
Theorem C04_fetch_exchange_corrupt_inv : forall corr reqs acc s s',
  fetch_exchange corr reqs acc s = (corrupt, s') ->
  fetch_crc_validation (cfg (cl s)) = true /\
  exists pre h tps post l s1 b,
    reqs = pre ++ (h, tps) :: post /\
    fx_ok corr (env s) true pre s l s1 /\
    fetch_io corr h tps s1 = (Ok b, s') /\
    fetch_from_vec (env s) decode_depth true tps b = corrupt.
Proof.
  intros corr reqs. induction reqs as [|[h tps] r IH]; intros acc s s' H; [discriminate H|].
  rewrite C04_fetch_exchange_cons in H.
  pose proof (nkM_fetch_io corr h tps s) as Hnk.
  destruct (fetch_io corr h tps s) as [[b|e|w] s1] eqn:Hio; cbn [fst] in Hnk.
  - destruct (keeps_fetch_io corr h tps s _ _ Hio) as [E C].
    destruct (fetch_from_vec (env s) decode_depth (fetch_crc_validation (cfg (cl s))) tps b) as [resp|e|w] eqn:Hdec.
    + destruct (IH _ _ _ H) as (Hv & pre & h1 & tps1 & post & l & s2 & b1 & -> & Hl & Hio1 & Hbad).
      rewrite C in Hv. split; [exact Hv|]. rewrite Hv in Hdec. rewrite E in Hl, Hbad.
      exists ((h, tps) :: pre), h1, tps1, post, ((b, resp) :: l), s2, b1.
      split; [reflexivity|]. split; [econstructor; eassumption|]. split; assumption.
    + injection H as -> <-.
      destruct (fetch_crc_validation (cfg (cl s))) eqn:Hv.
      * split; [reflexivity|]. exists [], h, tps, r, [], s, b.
        split; [reflexivity|]. split; [constructor|]. split; assumption.
      * exfalso. exact (C04_off_never_corrupt_response _ _ _ _ _ Hdec).
    + discriminate H.
  - injection H as -> <-. exfalso. exact (Hnk _ eq_refl).
  - discriminate H.
Qed.

Theorem C04_fetch_messages_corrupt_inv : forall input s s',
  fetch_messages input s = (corrupt, s') ->
  fetch_crc_validation (cfg (cl s)) = true /\
  exists corr sa pre h tps post sb l s1 b,
    next_corr s = (Ok corr, sa) /\
    ordered (fetch_reqs (cl sa) input) sa = (Ok (pre ++ (h, tps) :: post), sb) /\
    fx_ok corr (env s) true pre sb l s1 /\
    fetch_io corr h tps s1 = (Ok b, s') /\
    fetch_from_vec (env s) decode_depth true tps b = corrupt.
Proof.
  intros input s s' H. unfold fetch_messages in H.
  bind_inv H corr sa H1 H2.
  - destruct (keeps_next_corr s _ _ H1) as [E1 C1].
    unfold mbind at 1 in H2. unfold get_client at 1 in H2. cbv beta iota in H2.
    bind_inv H2 reqs sb H3 H4.
    + destruct (keeps_ordered _ sa _ _ H3) as [E2 C2].
      destruct (C04_fetch_exchange_corrupt_inv _ _ _ _ _ H4)
        as (Hv & pre & h & tps & post & l & s1 & b & -> & Hl & Hio & Hbad).
      rewrite C2, C1 in Hv. rewrite E2, E1 in Hl, Hbad. split; [exact Hv|].
      exists corr, sa, pre, h, tps, post, sb, l, s1, b. repeat split; assumption.
    + exfalso. unfold ordered in H3. destruct (fetch_reqs (cl sa) input); [discriminate H3|].
      unfold mbind, pop_hosts, ret in H3. destruct (hostq sa); discriminate H3.
    + discriminate H4.
  - exfalso. unfold next_corr, mbind, get_client in H1.
    destruct (next_correlation_id (cs (cl s))) as [n x].
    unfold set_cs, mbind, get_client, set_client, ret in H1. cbv beta iota in H1. discriminate H1.
  - discriminate H2.
Qed.

(* ====================================================================================== *)
(* B. the bit-level patterns inside a wrapper behind plain messages (mixed set)           *)
(* ====================================================================================== *)
(* `pre`: any plain entries in front of the wrapper, before OR AT/BEHIND the requested offset (then the decoder
   has collected messages when it meets the wrapper: the situation of seed C04-6); `ipre`: plain entries inside
   the wrapper in front of the damaged message; the wrapper's own checksum and compressed stream are intact *)
Section InnerPatterns.
  Variables (comp : Z -> bytes -> bytes) (cz : codecs) (d : nat) (req : Z) (pre : list entry) (woff : Z) (v : bytes)
            (post : list byte) (ipre : list entry) (off : Z) (covered : bytes) (e ipost : list byte).
  Let msg := xor_bytes (enc_i32 (crc32 covered) ++ covered) e.
  Let inner := ser comp ipre ++ (enc_i64 off ++ enc_i32 (blen msg) ++ msg) ++ ipost.

  Lemma inner_gzip_from_check :
    Forall plain_wf pre -> in_i64 woff -> 4 + blen (ser_body COMPRESSION_GZIP None (Some v)) <= i32_max ->
    gz_decompress cz v = Some inner -> Forall plain_wf ipre -> in_i64 off -> 4 + blen covered <= i32_max ->
    length e = (4 + length covered)%nat ->
    protocol_message (debug_build cz) true msg = corrupt ->
    from_slice cz (S (S d)) true req (ser comp pre ++ ser_message woff COMPRESSION_GZIP None (Some v) ++ post) = corrupt.
  Proof.
    intros Hpre Hwo Hs Hz Hipre Ho Hm Hl Hp.
    apply (C04_inner_rejects_gzip comp cz d req pre woff v post ipre off msg ipost); try assumption.
    unfold msg. rewrite blen_xor_msg by exact Hl. exact Hm.
  Qed.

  Lemma inner_snappy_from_check :
    Forall plain_wf pre -> in_i64 woff -> 4 + blen (ser_body COMPRESSION_SNAPPY None (Some v)) <= i32_max ->
    xerial_max_alloc v < alloc_limit -> xerial_read_to_end v = Ok inner ->
    Forall plain_wf ipre -> in_i64 off -> 4 + blen covered <= i32_max ->
    length e = (4 + length covered)%nat ->
    protocol_message (debug_build cz) true msg = corrupt ->
    from_slice cz (S (S d)) true req (ser comp pre ++ ser_message woff COMPRESSION_SNAPPY None (Some v) ++ post) = corrupt.
  Proof.
    intros Hpre Hwo Hs Ha Hz Hipre Ho Hm Hl Hp.
    apply (C04_inner_rejects_snappy comp cz d req pre woff v post ipre off msg ipost); try assumption.
    unfold msg. rewrite blen_xor_msg by exact Hl. exact Hm.
  Qed.
End InnerPatterns.

Theorem C04_inner_single_bit_gzip :
  forall comp cz d req pre woff v post ipre off covered e ipost,
  Forall plain_wf pre -> in_i64 woff -> 4 + blen (ser_body COMPRESSION_GZIP None (Some v)) <= i32_max ->
  Forall plain_wf ipre -> in_i64 off -> 4 + blen covered <= i32_max ->
  length e = (4 + length covered)%nat -> weight (bits_of_bytes e) = 1%nat ->
  let msg := xor_bytes (enc_i32 (crc32 covered) ++ covered) e in
  gz_decompress cz v = Some (ser comp ipre ++ (enc_i64 off ++ enc_i32 (blen msg) ++ msg) ++ ipost) ->
  from_slice cz (S (S d)) true req (ser comp pre ++ ser_message woff COMPRESSION_GZIP None (Some v) ++ post) = corrupt.
Proof.
  intros comp cz d req pre woff v post ipre off covered e ipost Hpre Hwo Hs Hipre Ho Hm Hl Hw msg Hz.
  apply (inner_gzip_from_check comp cz d req pre woff v post ipre off covered e ipost); try assumption.
  now apply C04_single_bit.
Qed.

Theorem C04_inner_double_bit_gzip :
  forall comp cz d req pre woff v post ipre off covered e ipost,
  Forall plain_wf pre -> in_i64 woff -> 4 + blen (ser_body COMPRESSION_GZIP None (Some v)) <= i32_max ->
  Forall plain_wf ipre -> in_i64 off -> 4 + blen covered <= i32_max ->
  length e = (4 + length covered)%nat -> weight (bits_of_bytes e) = 2%nat ->
  8 * Z.of_nat (length covered) < 2 ^ 32 - 32 ->
  let msg := xor_bytes (enc_i32 (crc32 covered) ++ covered) e in
  gz_decompress cz v = Some (ser comp ipre ++ (enc_i64 off ++ enc_i32 (blen msg) ++ msg) ++ ipost) ->
  from_slice cz (S (S d)) true req (ser comp pre ++ ser_message woff COMPRESSION_GZIP None (Some v) ++ post) = corrupt.
Proof.
  intros comp cz d req pre woff v post ipre off covered e ipost Hpre Hwo Hs Hipre Ho Hm Hl Hw Hn msg Hz.
  apply (inner_gzip_from_check comp cz d req pre woff v post ipre off covered e ipost); try assumption.
  now apply C04_double_bit.
Qed.

Theorem C04_inner_data_burst_gzip :
  forall comp cz d req pre woff v post ipre off covered e ipost,
  Forall plain_wf pre -> in_i64 woff -> 4 + blen (ser_body COMPRESSION_GZIP None (Some v)) <= i32_max ->
  Forall plain_wf ipre -> in_i64 off -> 4 + blen covered <= i32_max ->
  length e = (4 + length covered)%nat -> (exists b, In b e /\ b <> x00) ->
  firstn 4 e = repeat x00 4 -> (burst_span (bits_of_bytes (skipn 4 e)) <= 32)%nat ->
  let msg := xor_bytes (enc_i32 (crc32 covered) ++ covered) e in
  gz_decompress cz v = Some (ser comp ipre ++ (enc_i64 off ++ enc_i32 (blen msg) ++ msg) ++ ipost) ->
  from_slice cz (S (S d)) true req (ser comp pre ++ ser_message woff COMPRESSION_GZIP None (Some v) ++ post) = corrupt.
Proof.
  intros comp cz d req pre woff v post ipre off covered e ipost Hpre Hwo Hs Hipre Ho Hm Hl Hnz Hf Hb msg Hz.
  apply (inner_gzip_from_check comp cz d req pre woff v post ipre off covered e ipost); try assumption.
  now apply C04_data_burst.
Qed.

Theorem C04_inner_single_bit_snappy :
  forall comp cz d req pre woff v post ipre off covered e ipost,
  Forall plain_wf pre -> in_i64 woff -> 4 + blen (ser_body COMPRESSION_SNAPPY None (Some v)) <= i32_max ->
  xerial_max_alloc v < alloc_limit ->
  Forall plain_wf ipre -> in_i64 off -> 4 + blen covered <= i32_max ->
  length e = (4 + length covered)%nat -> weight (bits_of_bytes e) = 1%nat ->
  let msg := xor_bytes (enc_i32 (crc32 covered) ++ covered) e in
  xerial_read_to_end v = Ok (ser comp ipre ++ (enc_i64 off ++ enc_i32 (blen msg) ++ msg) ++ ipost) ->
  from_slice cz (S (S d)) true req (ser comp pre ++ ser_message woff COMPRESSION_SNAPPY None (Some v) ++ post) = corrupt.
Proof.
  intros comp cz d req pre woff v post ipre off covered e ipost Hpre Hwo Hs Ha Hipre Ho Hm Hl Hw msg Hz.
  apply (inner_snappy_from_check comp cz d req pre woff v post ipre off covered e ipost); try assumption.
  now apply C04_single_bit.
Qed.

Theorem C04_inner_double_bit_snappy :
  forall comp cz d req pre woff v post ipre off covered e ipost,
  Forall plain_wf pre -> in_i64 woff -> 4 + blen (ser_body COMPRESSION_SNAPPY None (Some v)) <= i32_max ->
  xerial_max_alloc v < alloc_limit ->
  Forall plain_wf ipre -> in_i64 off -> 4 + blen covered <= i32_max ->
  length e = (4 + length covered)%nat -> weight (bits_of_bytes e) = 2%nat ->
  8 * Z.of_nat (length covered) < 2 ^ 32 - 32 ->
  let msg := xor_bytes (enc_i32 (crc32 covered) ++ covered) e in
  xerial_read_to_end v = Ok (ser comp ipre ++ (enc_i64 off ++ enc_i32 (blen msg) ++ msg) ++ ipost) ->
  from_slice cz (S (S d)) true req (ser comp pre ++ ser_message woff COMPRESSION_SNAPPY None (Some v) ++ post) = corrupt.
Proof.
  intros comp cz d req pre woff v post ipre off covered e ipost Hpre Hwo Hs Ha Hipre Ho Hm Hl Hw Hn msg Hz.
  apply (inner_snappy_from_check comp cz d req pre woff v post ipre off covered e ipost); try assumption.
  now apply C04_double_bit.
Qed.

Theorem C04_inner_data_burst_snappy :
  forall comp cz d req pre woff v post ipre off covered e ipost,
  Forall plain_wf pre -> in_i64 woff -> 4 + blen (ser_body COMPRESSION_SNAPPY None (Some v)) <= i32_max ->
  xerial_max_alloc v < alloc_limit ->
  Forall plain_wf ipre -> in_i64 off -> 4 + blen covered <= i32_max ->
  length e = (4 + length covered)%nat -> (exists b, In b e /\ b <> x00) ->
  firstn 4 e = repeat x00 4 -> (burst_span (bits_of_bytes (skipn 4 e)) <= 32)%nat ->
  let msg := xor_bytes (enc_i32 (crc32 covered) ++ covered) e in
  xerial_read_to_end v = Ok (ser comp ipre ++ (enc_i64 off ++ enc_i32 (blen msg) ++ msg) ++ ipost) ->
  from_slice cz (S (S d)) true req (ser comp pre ++ ser_message woff COMPRESSION_SNAPPY None (Some v) ++ post) = corrupt.
Proof.
  intros comp cz d req pre woff v post ipre off covered e ipost Hpre Hwo Hs Ha Hipre Ho Hm Hl Hnz Hf Hb msg Hz.
  apply (inner_snappy_from_check comp cz d req pre woff v post ipre off covered e ipost); try assumption.
  now apply C04_data_burst.
Qed.

(* ====================================================================================== *)
(* C. examples (non-vacuity)                                                              *)
(* ====================================================================================== *)
Ltac conc := vm_compute; repeat split; try discriminate; try reflexivity; try lia.

(* ---- two brokers: partition 0 of "t" is led by b1, partition 1 by b2 (the scenario of seed C04-5) ---- *)
Definition y_b1 : bytes := tag "b1:9092".
Definition y_b2 : bytes := tag "b2:9092".
Definition y_cs : cstate :=
  {| correlation := 0; brokers := [ {| b_node := 1; b_host := y_b1 |}; {| b_node := 2; b_host := y_b2 |} ];
     topic_partitions := [ (tag "t", [0; 1]) ]; group_coordinators := [] |}.
Definition y_client (crc : bool) : client :=
  {| cfg := {| client_id := []; hosts := [y_b1]; compression := 0; fetch_max_wait_time := 100;
               fetch_min_bytes := 1; fetch_max_bytes_per_partition := 32768; fetch_crc_validation := crc;
               offset_storage := -1; retry_backoff_time := (0, 0); retry_max_attempts := 1; idle_timeout := (60, 0) |};
     cs := y_cs; conns := [] |}.
Definition y_resp (p : Z) (set : bytes) : w_topics_resp w_fetch_part :=
  {| wr_corr := 1;
     wr_topics := Some [ {| wt_name := Some (tag "t");
                            wt_partitions := Some [ {| wfe_partition := p; wfe_error := 0; wfe_highwater := 15;
                                                       wfe_message_set := set |} ] |} ] |}.
Definition y_pay (p : Z) (set : bytes) : bytes := print_fetch (y_resp p set).
Definition y_answer (b : bytes) : list ev_out :=
  [OConn true; OWrote 1000; OData (p_i32 (Z.of_nat (length b))); OData b].
(* broker b1 answers with set0 for partition 0, broker b2 with set1 for partition 1 *)
Definition y_st (crc : bool) (set0 set1 : bytes) : st :=
  {| script := y_answer (y_pay 0 set0) ++ y_answer (y_pay 1 set1);
     trace := []; anyq := []; hostq := []; fetchq := []; entryq := []; cl := y_client crc; env := ex_cz |}.
Definition y_in : list fetch_partition :=
  [{| fq_topic := tag "t"; fq_partition := 0; fq_offset := 10; fq_max_bytes := 0 |};
   {| fq_topic := tag "t"; fq_partition := 1; fq_offset := 10; fq_max_bytes := 0 |}].
Definition y_tps (p : Z) : fetch_tps := [(tag "t", [(p, (10, 32768))])].
Definition y_reqs : list (bytes * fetch_tps) := [(y_b1, y_tps 0); (y_b2, y_tps 1)].
Definition n_ok {A} (r : res (list A) * st) : option nat :=
  match fst r with Ok l => Some (length l) | _ => None end.

(* b1 intact, b2 damaged: the existing C04_fetch_messages_rejects with a NON-EMPTY prefix of brokers, and the
   new never-delivered statement; both orders; both damaged; validation off *)
Example C04_two_brokers_ex :
  let s := y_st true xs_good xs_bad in
  let sa := snd (next_corr s) in
  let sb := snd (ordered (fetch_reqs (cl sa) y_in) sa) in
  let r1 := fetch_exchange 1 [(y_b1, y_tps 0)] [] sb in
  let s1 := snd r1 in
  let s2 := snd (fetch_io 1 y_b2 (y_tps 1) s1) in
  next_corr s = (Ok 1, sa) /\
  ordered (fetch_reqs (cl sa) y_in) sa = (Ok ([(y_b1, y_tps 0)] ++ (y_b2, y_tps 1) :: []), sb) /\
  n_ok r1 = Some 1%nat /\
  fx_io 1 [(y_b1, y_tps 0)] sb [y_pay 0 xs_good] s1 /\
  fetch_io 1 y_b2 (y_tps 1) s1 = (Ok (y_pay 1 xs_bad), s2) /\
  fetch_from_vec (env s) decode_depth true (y_tps 1) (y_pay 1 xs_bad) = corrupt /\
  fetch_messages y_in s = (corrupt, s2) /\
  (forall resps s', fetch_messages y_in s <> (Ok resps, s')) /\
  (* the damaged answer comes first: same verdict *)
  is_corrupt (fst (fetch_messages y_in (y_st true xs_bad xs_good))) = true /\
  is_corrupt (fst (fetch_messages y_in (y_st true xs_bad xs_bad))) = true /\
  (* intact: one response per broker; validation off: the damaged set is delivered, too *)
  n_ok (fetch_messages y_in (y_st true xs_good xs_good)) = Some 2%nat /\
  n_ok (fetch_messages y_in (y_st false xs_good xs_bad)) = Some 2%nat.
Proof.
  cbv zeta.
  pose (s := y_st true xs_good xs_bad). pose (sa := snd (next_corr s)).
  pose (sb := snd (ordered (fetch_reqs (cl sa) y_in) sa)).
  pose (r1 := fetch_exchange 1 [(y_b1, y_tps 0)] [] sb). pose (s1 := snd r1).
  pose (acc1 := match fst r1 with Ok a => a | _ => [] end).
  pose (s2 := snd (fetch_io 1 y_b2 (y_tps 1) s1)).
  assert (H1 : fetch_crc_validation (cfg (cl s)) = true) by reflexivity.
  assert (H2 : next_corr s = (Ok 1, sa)) by (vm_compute; reflexivity).
  assert (H3 : ordered (fetch_reqs (cl sa) y_in) sa = (Ok ([(y_b1, y_tps 0)] ++ (y_b2, y_tps 1) :: []), sb))
    by (vm_compute; reflexivity).
  assert (H4 : fetch_exchange 1 [(y_b1, y_tps 0)] [] sb = (Ok acc1, s1)) by (vm_compute; reflexivity).
  assert (H4' : fx_io 1 [(y_b1, y_tps 0)] sb [y_pay 0 xs_good] s1).
  { apply (fi_cons 1 y_b1 (y_tps 0) [] sb (y_pay 0 xs_good) s1 [] s1); [vm_compute; reflexivity|constructor]. }
  assert (H5 : fetch_io 1 y_b2 (y_tps 1) s1 = (Ok (y_pay 1 xs_bad), s2)) by (vm_compute; reflexivity).
  assert (H6 : fetch_from_vec (env s) decode_depth true (y_tps 1) (y_pay 1 xs_bad) = corrupt) by (vm_compute; reflexivity).
  split; [exact H2|]. split; [exact H3|]. split; [vm_compute; reflexivity|]. split; [exact H4'|].
  split; [exact H5|]. split; [exact H6|]. split; [|split].
  - exact (C04_fetch_messages_rejects y_in s 1 sa [(y_b1, y_tps 0)] y_b2 (y_tps 1) [] sb acc1 s1 _ s2 H1 H2 H3 H4 H5 H6).
  - exact (C04_fetch_messages_never_delivered y_in s 1 sa [(y_b1, y_tps 0)] y_b2 (y_tps 1) [] sb _ s1 _ s2
             H1 H2 H3 H4' H5 H6).
  - vm_compute. repeat split.
Qed.

(* a delivered two-broker fetch: C04_fetch_messages_ok_inv / _all_answered *)
Example C04_fetch_messages_all_answered_ex :
  let s := y_st true xs_good xs_good in
  let sa := snd (next_corr s) in
  let sb := snd (ordered (fetch_reqs (cl sa) y_in) sa) in
  next_corr s = (Ok 1, sa) /\
  ordered (fetch_reqs (cl sa) y_in) sa = (Ok y_reqs, sb) /\
  exists resps s', fetch_messages y_in s = (Ok resps, s') /\ length resps = length y_reqs /\ length y_reqs = 2%nat /\
    exists l, fx_ok 1 (env s) (fetch_crc_validation (cfg (cl s))) y_reqs sb l s' /\ resps = map snd l.
Proof.
  cbv zeta.
  pose (s := y_st true xs_good xs_good). pose (sa := snd (next_corr s)).
  pose (sb := snd (ordered (fetch_reqs (cl sa) y_in) sa)).
  pose (r := fetch_messages y_in s).
  pose (resps := match fst r with Ok a => a | _ => [] end).
  assert (H2 : next_corr s = (Ok 1, sa)) by (vm_compute; reflexivity).
  assert (H3 : ordered (fetch_reqs (cl sa) y_in) sa = (Ok y_reqs, sb)) by (vm_compute; reflexivity).
  assert (H4 : fetch_messages y_in s = (Ok resps, snd r)) by (vm_compute; reflexivity).
  split; [exact H2|]. split; [exact H3|]. exists resps, (snd r). split; [exact H4|].
  split; [exact (C04_fetch_messages_all_answered _ _ _ _ _ _ _ _ H2 H3 H4)|]. split; [reflexivity|].
  exact (C04_fetch_messages_ok_inv _ _ _ _ _ _ _ _ H2 H3 H4).
Qed.

(* the converse on the damaged two-broker call: the CorruptMessage result is traced back to b2's answer *)
Example C04_fetch_messages_corrupt_inv_ex :
  let s := y_st true xs_good xs_bad in
  (exists s', fetch_messages y_in s = (corrupt, s')) /\
  forall s', fetch_messages y_in s = (corrupt, s') ->
    fetch_crc_validation (cfg (cl s)) = true /\
    exists corr sa pre h tps post sb l s1 b,
      next_corr s = (Ok corr, sa) /\
      ordered (fetch_reqs (cl sa) y_in) sa = (Ok (pre ++ (h, tps) :: post), sb) /\
      fx_ok corr (env s) true pre sb l s1 /\
      fetch_io corr h tps s1 = (Ok b, s') /\
      fetch_from_vec (env s) decode_depth true tps b = corrupt.
Proof.
  cbv zeta. split.
  - exists (snd (fetch_messages y_in (y_st true xs_good xs_bad))). vm_compute. reflexivity.
  - intros s' H. exact (C04_fetch_messages_corrupt_inv _ _ _ H).
Qed.

(* ---- mixed set: two plain messages at/behind the requested offset, then a wrapper whose inner set holds a
   message with ONE flipped bit (bit 129, in the value); wrapper checksum and stream intact (seed C04-6) ---- *)
Definition z_pre : list entry := [Plain 0 None (Some (tag "first")); Plain 1 None (Some (tag "second"))].
Definition z_ipre : list entry := [Plain 2 None (Some (tag "third"))].
Definition z_ipost : bytes := ser ex_comp [Plain 4 None (Some (tag "fifth"))].
Definition z_inner (msg : bytes) : bytes := ser ex_comp z_ipre ++ (enc_i64 3 ++ enc_i32 (blen msg) ++ msg) ++ z_ipost.
Definition z_set_gzip (msg : bytes) : bytes :=
  ser ex_comp z_pre ++ ser_message 4 COMPRESSION_GZIP None (Some (z_inner msg)) ++ [].
Definition z_xerial (msg : bytes) : bytes := xerial_frame [snappy_lit_compress (z_inner msg)].
Definition z_set_snappy (msg : bytes) : bytes :=
  ser ex_comp z_pre ++ ser_message 4 COMPRESSION_SNAPPY None (Some (z_xerial msg)) ++ [].
Definition offsets_of (r : res (list message)) : option (list Z) :=
  match r with Ok l => Some (map m_offset l) | _ => None end.

Lemma z_pre_wf : Forall plain_wf z_pre. Proof. repeat constructor; conc. Qed.
Lemma z_ipre_wf : Forall plain_wf z_ipre. Proof. repeat constructor; conc. Qed.

Example C04_inner_single_bit_gzip_ex :
  weight (bits_of_bytes (flip_at 20 129)) = 1%nat /\
  ex_bad = xor_bytes (enc_i32 (crc32 ex_cov) ++ ex_cov) (flip_at 20 129) /\
  (* fetch as of offset 0: the two plain messages are collected when the wrapper is met *)
  from_slice ex_cz 2 true 0 (z_set_gzip ex_bad) = corrupt /\
  (* controls: fetch starting at the batch; validation off; the intact mixed set (upstream quirk: 0 and 1 dropped) *)
  from_slice ex_cz 2 true 2 (z_set_gzip ex_bad) = corrupt /\
  offsets_of (from_slice ex_cz 2 false 0 (z_set_gzip ex_bad)) = Some [2; 3; 4] /\
  offsets_of (from_slice ex_cz 2 true 0 (z_set_gzip ex_msg)) = Some [2; 3; 4].
Proof.
  split; [vm_compute; reflexivity|]. split; [reflexivity|]. split; [|conc].
  apply (C04_inner_single_bit_gzip ex_comp ex_cz 0 0 z_pre 4 (z_inner ex_bad) [] z_ipre 3 ex_cov (flip_at 20 129) z_ipost);
    [exact z_pre_wf|conc|conc|exact z_ipre_wf|conc|conc|reflexivity|vm_compute; reflexivity|reflexivity].
Qed.

Example C04_inner_single_bit_snappy_ex :
  xerial_max_alloc (z_xerial ex_bad) < alloc_limit /\
  xerial_read_to_end (z_xerial ex_bad) = Ok (z_inner ex_bad) /\
  from_slice ex_cz 2 true 0 (z_set_snappy ex_bad) = corrupt /\
  from_slice ex_cz 2 true 2 (z_set_snappy ex_bad) = corrupt /\
  offsets_of (from_slice ex_cz 2 false 0 (z_set_snappy ex_bad)) = Some [2; 3; 4] /\
  offsets_of (from_slice ex_cz 2 true 0 (z_set_snappy ex_msg)) = Some [2; 3; 4].
Proof.
  assert (Ha : xerial_max_alloc (z_xerial ex_bad) < alloc_limit) by (vm_compute; reflexivity).
  assert (Hz : xerial_read_to_end (z_xerial ex_bad) = Ok (z_inner ex_bad)) by (vm_compute; reflexivity).
  split; [exact Ha|]. split; [exact Hz|]. split; [|conc].
  apply (C04_inner_single_bit_snappy ex_comp ex_cz 0 0 z_pre 4 (z_xerial ex_bad) [] z_ipre 3 ex_cov (flip_at 20 129) z_ipost);
    [exact z_pre_wf|conc|conc|exact Ha|exact z_ipre_wf|conc|conc|reflexivity|vm_compute; reflexivity|exact Hz].
Qed.

(* two flipped bits (bit 5 of the stored checksum, bit 129 of the value) and a 32-bit burst (C04Facts.ex_burst) *)
Example C04_inner_double_bit_burst_ex :
  let e2 := xor_bytes (flip_at 20 5) (flip_at 20 129) in
  weight (bits_of_bytes e2) = 2%nat /\
  from_slice ex_cz 2 true 0 (z_set_gzip (xor_bytes ex_msg e2)) = corrupt /\
  from_slice ex_cz 2 true 0 (z_set_snappy (xor_bytes ex_msg e2)) = corrupt /\
  firstn 4 ex_burst = repeat x00 4 /\ burst_span (bits_of_bytes (skipn 4 ex_burst)) = 32%nat /\
  from_slice ex_cz 2 true 0 (z_set_gzip (xor_bytes ex_msg ex_burst)) = corrupt /\
  from_slice ex_cz 2 true 0 (z_set_snappy (xor_bytes ex_msg ex_burst)) = corrupt.
Proof.
  cbv zeta. set (e2 := xor_bytes (flip_at 20 5) (flip_at 20 129)).
  assert (Hw : weight (bits_of_bytes e2) = 2%nat) by (vm_compute; reflexivity).
  split; [exact Hw|]. split; [|split; [|split; [|split; [|split]]]].
  - apply (C04_inner_double_bit_gzip ex_comp ex_cz 0 0 z_pre 4 (z_inner (xor_bytes ex_msg e2)) [] z_ipre 3 ex_cov e2 z_ipost);
      [exact z_pre_wf|conc|conc|exact z_ipre_wf|conc|conc|reflexivity|exact Hw|conc|reflexivity].
  - apply (C04_inner_double_bit_snappy ex_comp ex_cz 0 0 z_pre 4 (z_xerial (xor_bytes ex_msg e2)) [] z_ipre 3 ex_cov e2 z_ipost);
      [exact z_pre_wf|conc|conc|conc|exact z_ipre_wf|conc|conc|reflexivity|exact Hw|conc|vm_compute; reflexivity].
  - reflexivity.
  - vm_compute. reflexivity.
  - apply (C04_inner_data_burst_gzip ex_comp ex_cz 0 0 z_pre 4 (z_inner (xor_bytes ex_msg ex_burst)) [] z_ipre 3 ex_cov ex_burst z_ipost);
      [exact z_pre_wf|conc|conc|exact z_ipre_wf|conc|conc|reflexivity| |reflexivity|vm_compute; lia|reflexivity].
    exists xff. split; [vm_compute; tauto|discriminate].
  - apply (C04_inner_data_burst_snappy ex_comp ex_cz 0 0 z_pre 4 (z_xerial (xor_bytes ex_msg ex_burst)) [] z_ipre 3 ex_cov ex_burst z_ipost);
      [exact z_pre_wf|conc|conc|conc|exact z_ipre_wf|conc|conc|reflexivity| |reflexivity|vm_compute; lia|vm_compute; reflexivity].
    exists xff. split; [vm_compute; tauto|discriminate].
Qed.

(* ---------------------------------------------------------------------------------------- *)
Print Assumptions C04_fetch_exchange_ok_iff.
Print Assumptions C04_fetch_messages_ok_inv.
Print Assumptions C04_fetch_messages_all_answered.
Print Assumptions C04_fetch_exchange_never_delivered.
Print Assumptions C04_fetch_messages_never_delivered.
Print Assumptions C04_fetch_exchange_corrupt_inv.
Print Assumptions C04_fetch_messages_corrupt_inv.
Print Assumptions C04_inner_single_bit_gzip.
Print Assumptions C04_inner_double_bit_gzip.
Print Assumptions C04_inner_data_burst_gzip.
Print Assumptions C04_inner_single_bit_snappy.
Print Assumptions C04_inner_double_bit_snappy.
Print Assumptions C04_inner_data_burst_snappy.
