(* C01, additional theorems, second pass (seed C01-4 and the clause "with byte-identical key and value, labelled
   with its true topic and partition").  New file; nothing existing is edited.

   SEED C01-4 (MessageSet::from_vec: data.shrink_to_fit() after the key/value slices were cut out of `data`) has NO
   counterpart in the model: the model is value-based (a message carries its key and value as byte lists, not as
   pointers into a buffer), shrink_to_fit changes no byte and no length, so the faithful mirror of the change is the
   identity on Responses.from_slice, and Model/Ownership.v tracks only WHICH buffer (nesting level) a result owns, not
   whether that buffer has been moved by the allocator.  What the change destroys OBSERVABLY is: "the key and value
   handed out for a message of a compressed batch are the bytes of the log".  That observable statement is expressible,
   and nothing in Props/C01.v said it (no statement there mentions m_key / m_value: under the adversarial mirror
   "every message decoded out of a decompressed buffer has its key and value bytes replaced by 0xDD", made in a scratch
   copy, all of Props/C01.v still compiles after a one-line script repair in C01_from_slice_lower_bound).
   It was only stated for `from_slice` alone in Props/C02.v, and for buffers in Props/C18.v.

   PROVED HERE (all Qed, no axioms), about the UNCHANGED model:
   A. C01_response_delivers_log : a fetch reply that carries, for any number of topics and partitions, cuts of logs
      (plain / gzip / snappy / nested batches at the head, any cut point), decoded against ANY request, and then
      iterated the way MessageSetsIter does, hands out exactly: for each partition in the order sent whose log has a
      complete message at or above the offset requested for THAT topic and partition, one entry labelled with the
      topic name and partition id sent, holding those messages in log order with the offsets, keys and values of
      the log (null key/value seen as empty); nothing for the other partitions; and no partition error.
      (The adversarial mirror of C01-4 refutes it: see C01_response_delivers_log_ex, whose left-hand side evaluates
      to 0xDD keys and values in the scratch copy.)
   B. C01_exchange_delivers_log : the same for one broker exchange of KafkaClient::fetch_messages (fetch_one): the
      response it returns is the decoding of the reply bytes read off THAT broker's connection against the request
      sent to it, so if those bytes are such a reply, what it hands out is `expected`.
   C. C01_poll_delivers_log : Consumer::poll as a whole: a successful poll hands out, response by response (one per
      broker request, in request order), the decoding of that broker's reply against that broker's request of this
      call, with the decompressors and the debug flag of the environment the poll started in; iterating the result
      is the concatenation of what each response delivers; and for a reply that is a printed answer over logs, that
      is `expected`.
   D. C01_request_offset_is_consumers : the offset a broker's request carries for (topic, partition) is the offset of
      the LAST entry of the consumer's request list for that topic and partition, for whichever broker leads it and
      in whichever order the brokers are asked (the "NOT PROVED HERE" of C01Extra.v, with the distinctness of the
      hosts of fetch_reqs proved rather than assumed); C01_poll_request_offsets specialises it to poll_requests.
   NOT PROVED HERE: the reading of `asked (map ask_of input)` back into tk_get on k_fetch (needs distinct keys in
   k_fetch and injectivity of topic_name on the assigned topic refs); a forward theorem from the script ("when the
   stream delivers the frame the poll succeeds") - no forward lemma for get_conn / send_request / get_response_bytes
   exists in NetFacts.v and building them did not fit; a statement over more than two polls. *)
From Coq Require Import ZifyBool.
From KV Require Import Base.Prelude Base.Crc32 Base.Snappy Gen.ErrorCodes Gen.Consts
                       Model.Codecs Model.Requests Model.Responses
                       Model.ClientState Model.Net Model.Client Model.Consumer
                       Spec.MsgSetSpec Spec.RespGrammar.
From KV Require Import Proofs.BytesFacts Proofs.C10Facts Proofs.C02Lemmas Proofs.C02Facts Proofs.C02Extra.
From KV Require Import Proofs.NetFacts Proofs.C01Facts Proofs.C01Extra.
From KV Require Proofs.C18Extra2.

(* ======================================================================================================= *)
(* A. one reply over logs, decoded and iterated                                                              *)
(* ======================================================================================================= *)

(* what MessageSetsIter yields for ONE response *)
Definition delivered (resp : fetch_resp) : list (bytes * Z * list message) :=
  flat_map (fun t =>
    flat_map (fun p =>
      match fp_data p with
      | inl (_, (m :: _) as msgs) => [(ft_topic t, fp_partition p, msgs)]
      | _ => []
      end) (ft_partitions t)) (fr_topics resp).

Lemma C01_iterate_is_concat : forall ms, iterate ms = flat_map delivered (ms_responses ms).
Proof. intros ms. reflexivity. Qed.

(* the broker side, as data: per topic, per partition, the high watermark and the stretch of the log it serves
   (pl_log: the entries from the first one reaching the requested offset on; pl_cut: the byte at which max_bytes
   cuts the serialised set) *)
Record part_log := { pl_partition : Z; pl_highwater : Z; pl_log : list MsgSetSpec.entry; pl_cut : nat }.
Definition topic_log := (bytes * list part_log)%type.

Definition wire_part (comp : Z -> bytes -> bytes) (pl : part_log) : w_fetch_part :=
  {| wfe_partition := pl_partition pl; wfe_error := 0; wfe_highwater := pl_highwater pl;
     wfe_message_set := firstn (pl_cut pl) (ser comp (pl_log pl)) |}.
Definition wire_topic comp (tl : topic_log) : w_topic w_fetch_part :=
  {| wt_name := Some (fst tl); wt_partitions := Some (map (wire_part comp) (snd tl)) |}.
Definition wire_resp comp (corr : Z) (tls : list topic_log) : w_topics_resp w_fetch_part :=
  {| wr_corr := corr; wr_topics := Some (map (wire_topic comp) tls) |}.

(* what the application must see of a partition asked from offset `req`: the complete messages of the served
   stretch at or above `req` (of the batch at its head, if it starts with a compressed batch), as they are in
   the log *)
Definition log_from comp (pl : part_log) (req : Z) : list message :=
  map msg_of (filter (fun x => req <=? fst (fst x)) (chain_msgs comp (pl_log pl) (pl_cut pl))).

Definition expected comp (req : bytes -> Z -> Z) (tls : list topic_log) : list (bytes * Z * list message) :=
  flat_map (fun tl : topic_log =>
    flat_map (fun pl =>
      match log_from comp pl (req (fst tl) (pl_partition pl)) with
      | [] => []
      | l => [(fst tl, pl_partition pl, l)]
      end) (snd tl)) tls.

(* every log is well formed, nested less deep than the decoder follows, and outside the class of the known
   defect (a compressed batch behind another entry of the same set) *)
Definition logs_ok comp (d : nat) (tls : list topic_log) : Prop :=
  forall tl pl, In tl tls -> In pl (snd tl) ->
    wf_entries comp (pl_log pl) /\ (depth (pl_log pl) < d)%nat /\ ~ Known (pl_log pl).

Lemma exposed_wire comp cz d validate reqs t pl :
  codec_ok cz comp -> wf_entries comp (pl_log pl) -> (depth (pl_log pl) < d)%nat -> ~ Known (pl_log pl) ->
  exposed cz d validate reqs t (wire_part comp pl)
  = Ok (log_from comp pl (req_lookup reqs t (pl_partition pl))).
Proof.
  intros Hc Hwf Hd HK. unfold exposed, wire_part, log_from. cbn [wfe_partition wfe_message_set].
  destruct (C02_outside_known comp cz d validate (req_lookup reqs t (pl_partition pl))
              (pl_log pl) (pl_cut pl) Hc HK Hwf Hd) as [E _]. exact E.
Qed.

Lemma view_part_wire comp cz d validate reqs t pl :
  codec_ok cz comp -> wf_entries comp (pl_log pl) -> (depth (pl_log pl) < d)%nat -> ~ Known (pl_log pl) ->
  view_part cz d validate reqs t (wire_part comp pl)
  = {| fp_partition := pl_partition pl;
       fp_data := inl (pl_highwater pl, log_from comp pl (req_lookup reqs t (pl_partition pl))) |}.
Proof.
  intros Hc Hwf Hd HK. unfold view_part. rewrite (exposed_wire comp cz d validate reqs t pl Hc Hwf Hd HK).
  reflexivity.
Qed.

Lemma delivered_parts comp cz d validate reqs t ps :
  codec_ok cz comp ->
  (forall pl, In pl ps -> wf_entries comp (pl_log pl) /\ (depth (pl_log pl) < d)%nat /\ ~ Known (pl_log pl)) ->
  flat_map (fun p => match fp_data p with
                     | inl (_, (m :: _) as msgs) => [(t, fp_partition p, msgs)]
                     | _ => []
                     end) (map (view_part cz d validate reqs t) (map (wire_part comp) ps))
  = flat_map (fun pl => match log_from comp pl (req_lookup reqs t (pl_partition pl)) with
                        | [] => []
                        | l => [(t, pl_partition pl, l)]
                        end) ps
  /\ first_part_error (map (view_part cz d validate reqs t) (map (wire_part comp) ps)) = None.
Proof.
  intros Hc. induction ps as [|pl ps IH]; intros Hok; [split; reflexivity|].
  destruct (Hok pl (or_introl eq_refl)) as (Hwf & Hd & HK).
  destruct IH as [IH1 IH2]; [intros q Hq; apply Hok; right; exact Hq|].
  cbn [map flat_map first_part_error]. rewrite (view_part_wire comp cz d validate reqs t pl Hc Hwf Hd HK).
  cbn [fp_data fp_partition]. rewrite IH1. split; [|exact IH2].
  destruct (log_from comp pl (req_lookup reqs t (pl_partition pl))); reflexivity.
Qed.

Lemma first_part_error_none_app a b :
  first_part_error a = None -> first_part_error b = None -> first_part_error (a ++ b) = None.
Proof.
  induction a as [|p a IH]; cbn [app first_part_error]; intros Ha Hb; [exact Hb|].
  destruct (fp_data p); [auto|discriminate].
Qed.

Lemma view_ftopic_wire comp cz d validate reqs (tl : topic_log) :
  view_ftopic cz d validate reqs (wire_topic comp tl)
  = {| ft_topic := fst tl;
       ft_partitions := map (view_part cz d validate reqs (fst tl)) (map (wire_part comp) (snd tl)) |}.
Proof. reflexivity. Qed.

Lemma delivered_view comp cz d validate reqs corr tls :
  codec_ok cz comp -> logs_ok comp d tls ->
  delivered (view_fresp cz d validate reqs (wire_resp comp corr tls)) = expected comp (req_lookup reqs) tls /\
  first_error [view_fresp cz d validate reqs (wire_resp comp corr tls)] = None.
Proof.
  intros Hc Hok. unfold delivered, expected, first_error, view_fresp, wire_resp.
  cbn [fr_topics wr_topics view_arr flat_map]. rewrite app_nil_r.
  induction tls as [|tl tls IH]; [split; reflexivity|].
  destruct IH as [IH1 IH2]; [intros tl' pl Ht Hp; apply (Hok tl' pl); [right; exact Ht|exact Hp]|].
  cbn [map]. rewrite (view_ftopic_wire comp cz d validate reqs tl).
  cbn [flat_map ft_topic ft_partitions]. rewrite IH1.
  destruct (delivered_parts comp cz d validate reqs (fst tl) (snd tl) Hc) as [D1 D2].
  { intros pl Hp. apply (Hok tl pl); [left; reflexivity|exact Hp]. }
  rewrite D1. split; [reflexivity|]. apply first_part_error_none_app; [exact D2|exact IH2].
Qed.

(* A fetch reply over logs, decoded against ANY request and iterated: topic names and partition ids as sent, in the
   order sent, and for each partition exactly the messages of its log from the offset requested for it on - same
   offsets, byte-identical keys and values.  `rest`: anything behind the response. *)
Theorem C01_response_delivers_log : forall comp cz d validate reqs corr tls rest,
  codec_ok cz comp -> wf_fetch (wire_resp comp corr tls) -> logs_ok comp d tls ->
  exists resp,
    fetch_from_vec cz d validate reqs (print_fetch (wire_resp comp corr tls) ++ rest) = Ok resp /\
    fr_corr resp = corr /\
    delivered resp = expected comp (req_lookup reqs) tls /\
    first_error [resp] = None.
Proof.
  intros comp cz d validate reqs corr tls rest Hc Hwf Hok.
  exists (view_fresp cz d validate reqs (wire_resp comp corr tls)).
  split; [|split; [reflexivity|apply delivered_view; assumption]].
  apply C02_response; [exact Hwf|]. intros t p Ht Hp.
  cbn [wire_resp wr_topics view_list] in Ht. apply in_map_iff in Ht. destruct Ht as (tl & <- & Htl).
  cbn [wire_topic wt_partitions wt_name view_list view_str] in *. apply in_map_iff in Hp. destruct Hp as (pl & <- & Hpl).
  destruct (Hok tl pl Htl Hpl) as (Hwe & Hd & HK).
  rewrite (exposed_wire comp cz d validate reqs (fst tl) pl Hc Hwe Hd HK). eauto.
Qed.

(* the usual shape of a served stretch - one compressed batch of plain messages at the head, plain messages
   behind it - is outside the class of the known defect *)
Lemma head_batch_not_Known c o inner rest : all_plain inner -> all_plain rest -> ~ Known (Wrapper c o inner :: rest).
Proof.
  intros Hi Hr HK. inversion HK as [e r c' o' inner' Hin|c' o' inner' es Hin HK']; subst.
  - destruct (Hr _ Hin) as (o1 & k1 & v1 & E). discriminate E.
  - destruct Hin as [E|Hin].
    + inversion E; subst. exact (all_plain_not_Known _ Hi HK').
    + destruct (Hr _ Hin) as (o1 & k1 & v1 & E). discriminate E.
Qed.

(* non-vacuity (the layout of the seeded demonstration in small): topic "t" with an EMPTY partition listed first,
   a gzip batch followed by a plain message (asked from 1), a snappy batch followed by a plain message (asked
   from 2); topic "u" with plain messages only (asked from 1).  Every hypothesis holds, the reply decodes, and
   what is handed out is: the batch messages with the keys and values of the log, under the right labels. *)
Definition exb_tls : list topic_log :=
  [ (tag "t", [ {| pl_partition := 0; pl_highwater := 0; pl_log := []; pl_cut := 0 |};
                {| pl_partition := 2; pl_highwater := 4; pl_log := es_gz; pl_cut := 200 |};
                {| pl_partition := 1; pl_highwater := 9; pl_log := es_sn; pl_cut := 500 |} ]);
    (tag "u", [ {| pl_partition := 0; pl_highwater := 3; pl_log := es3; pl_cut := 82 |} ]) ].
Definition exb_reqs : fetch_tps :=
  build_reqs [(tag "t", 0, 0, 100); (tag "t", 2, 1, 100); (tag "t", 1, 2, 100); (tag "u", 0, 1, 100)].

Example exb_wf : wf_fetch (wire_resp wcomp 7 exb_tls).
Proof. unfold wf_fetch, wf_topics_resp, wire_resp, wf_array, wf_topic, wf_fetch_part,
         wf_string, wf_array, in_i16, in_i32, in_i64; cbn [wr_corr wr_topics]. wf_compute. Qed.

Example exb_logs_ok : logs_ok wcomp 3 exb_tls.
Proof.
  intros tl pl Ht Hp. cbn [exb_tls In] in Ht.
  destruct Ht as [<-|[<-|[]]]; cbn [snd In] in Hp.
  - destruct Hp as [<-|[<-|[<-|[]]]]; cbn [pl_log].
    + split; [constructor|]. split; [vm_compute; lia|]. apply all_plain_not_Known, all_plain_nil.
    + split; [apply es_gz_wf|]. split; [vm_compute; lia|]. apply head_batch_not_Known; [apply es3_plain|plain_tac].
    + split; [apply es_sn_wf|]. split; [vm_compute; lia|]. apply head_batch_not_Known; [apply es3_plain|plain_tac].
  - destruct Hp as [<-|[]]; cbn [pl_log].
    split; [apply es3_wf|]. split; [vm_compute; lia|]. apply all_plain_not_Known, es3_plain.
Qed.

Example C01_response_delivers_log_ex :
  (exists resp, fetch_from_vec (wcz true) 3 true exb_reqs (print_fetch (wire_resp wcomp 7 exb_tls) ++ [x09]) = Ok resp /\
                delivered resp = [ (tag "t", 2, [m1; m2]); (tag "t", 1, [m2]); (tag "u", 0, [m1; m2]) ]) /\
  expected wcomp (req_lookup exb_reqs) exb_tls = [ (tag "t", 2, [m1; m2]); (tag "t", 1, [m2]); (tag "u", 0, [m1; m2]) ].
Proof. split; [eexists; split; vm_compute; reflexivity|vm_compute; reflexivity]. Qed.

(* ======================================================================================================= *)
(* B. one broker exchange of KafkaClient::fetch_messages (client/mod.rs: the body of __fetch_messages' loop)  *)
(* ======================================================================================================= *)

Definition env_same (s s' : st) : Prop := env s' = env s.
Lemma preorder_env_same : preorder env_same.
Proof. split; [intros s; reflexivity|intros s s1 s2 H1 H2; unfold env_same in *; congruence]. Qed.

Lemma env_fetch_one corr h tps : keeps env_same (fetch_one corr h tps).
Proof.
  pose proof preorder_env_same as HP. unfold fetch_one.
  apply keeps_bind; [exact HP|apply keeps_get_client; exact HP|]. intros c.
  apply keeps_bind; [exact HP|apply keeps_get_env; exact HP|]. intros e.
  apply keeps_bind; [exact HP|apply keeps_get_fetch_order; exact HP|]. intros fo. cbv zeta.
  apply keeps_bind; [exact HP| |].
  { eapply keeps_weaken; [|apply frame_get_conn]. intros s s' (_ & _ & _ & _ & He & _). exact He. }
  intros _. apply keeps_bind; [exact HP| |].
  { eapply keeps_weaken; [|apply frame_send_request]. intros s s' (_ & _ & _ & _ & _ & He). exact He. }
  intros _. apply keeps_bind; [exact HP| |].
  { eapply keeps_weaken; [|apply frame_get_response_bytes]. intros s s' (_ & _ & _ & _ & _ & He). exact He. }
  intros b. apply keeps_lift. exact HP.
Qed.

(* what one successful exchange returns is the decoding of the reply bytes read off that broker's connection,
   against the request `tps` of this exchange, with the decompressors of the environment; hence, for a reply that
   is a printed answer over logs, it hands out exactly the logs' messages *)
Theorem C01_exchange_delivers_log : forall corr h tps s resp s',
  fetch_one corr h tps s = (Ok resp, s') ->
  env s' = env s /\
  exists s2 b,
    get_response_bytes h s2 = (Ok b, s') /\
    fetch_from_vec (env s) decode_depth (fetch_crc_validation (cfg (cl s))) tps b = Ok resp /\
    forall comp corr' tls rest,
      b = print_fetch (wire_resp comp corr' tls) ++ rest ->
      codec_ok (env s) comp -> wf_fetch (wire_resp comp corr' tls) -> logs_ok comp decode_depth tls ->
      delivered resp = expected comp (req_lookup tps) tls /\ first_error [resp] = None /\ fr_corr resp = corr'.
Proof.
  intros corr h tps s resp s' H. split; [exact (env_fetch_one _ _ _ _ _ _ H)|].
  destruct (fetch_one_ok _ _ _ _ _ _ H) as (s1 & s2 & s3 & z & b & tps' & _ & _ & Hb & -> & Hdec).
  exists s2, b. split; [exact Hb|]. split; [exact Hdec|].
  intros comp corr' tls rest -> Hc Hwf Hok.
  destruct (C01_response_delivers_log comp (env s) decode_depth (fetch_crc_validation (cfg (cl s))) tps corr' tls rest
              Hc Hwf Hok) as (resp0 & Hdec0 & Hcorr & Hdel & Hfe).
  rewrite Hdec in Hdec0. inversion Hdec0; subst resp0. auto.
Qed.

(* ======================================================================================================= *)
(* C. KafkaClient::fetch_messages and Consumer::poll                                                         *)
(* ======================================================================================================= *)

(* `resp` is the decoding, with decompressors / debug flag `cz`, of reply bytes read off the connection of broker
   `fst rq`, against that broker's request `snd rq`; and if those bytes are a printed answer over logs, iterating
   `resp` yields those logs' messages from the requested offsets on *)
Definition reply_delivers (cz : codecs) (rq : bytes * fetch_tps) (resp : fetch_resp) : Prop :=
  exists validate s2 s3 b,
    get_response_bytes (fst rq) s2 = (Ok b, s3) /\
    fetch_from_vec cz decode_depth validate (snd rq) b = Ok resp /\
    forall comp corr tls rest,
      b = print_fetch (wire_resp comp corr tls) ++ rest ->
      codec_ok cz comp -> wf_fetch (wire_resp comp corr tls) -> logs_ok comp decode_depth tls ->
      delivered resp = expected comp (req_lookup (snd rq)) tls /\ first_error [resp] = None.

Lemma fetch_exchange_delivers : forall corr reqs acc s out s',
  fetch_exchange corr reqs acc s = (Ok out, s') ->
  env s' = env s /\ exists resps, out = acc ++ resps /\ Forall2 (reply_delivers (env s)) reqs resps.
Proof.
  intros corr reqs. induction reqs as [|[h tps] r IH]; intros acc s out s' H.
  - cbn [fetch_exchange] in H. inversion H; subst. split; [reflexivity|].
    exists []. rewrite app_nil_r. split; [reflexivity|constructor].
  - rewrite C01_fetch_exchange_step in H. bind_inv H resp s1 H1 H2; try discriminate.
    destruct (IH _ _ _ _ H2) as (He & resps & Hout & Hall).
    destruct (C01_exchange_delivers_log _ _ _ _ _ _ H1) as (He1 & s2 & b & Hb & Hdec & Hlog).
    split; [congruence|]. exists (resp :: resps). split; [rewrite Hout, <- app_assoc; reflexivity|].
    constructor; [|rewrite <- He1; exact Hall].
    exists (fetch_crc_validation (cfg (cl s))), s2, s1, b. cbn [fst snd]. split; [exact Hb|]. split; [exact Hdec|].
    intros comp corr' tls rest Eb Hc Hwf Hok. destruct (Hlog comp corr' tls rest Eb Hc Hwf Hok) as (D & F & _). auto.
Qed.

(* the client the per-broker requests are computed from: the one of the call, its correlation id moved on *)
Definition after_corr (c : client) : client :=
  {| cfg := cfg c; cs := snd (next_correlation_id (cs c)); conns := conns c |}.

Lemma fetch_messages_exchange input s :
  exists corr reqs s0,
    fetch_messages input s = fetch_exchange corr reqs [] s0 /\ env s0 = env s /\
    (forall h tps, In (h, tps) reqs -> In (h, tps) (fetch_reqs (after_corr (cl s)) input)).
Proof.
  unfold fetch_messages, next_corr, after_corr. unfold mbind at 1 2. unfold get_client at 1.
  destruct (next_correlation_id (cs (cl s))) as [n cs'] eqn:En. cbn [snd].
  unfold set_cs, mbind, get_client, set_client, ret. cbn [cl cfg cs conns].
  set (c0 := {| cfg := cfg (cl s); cs := cs'; conns := conns (cl s) |}).
  unfold ordered.
  destruct (fetch_reqs c0 input) as [|rq rqs] eqn:Er.
  - unfold ret. eexists n, [], _. split; [reflexivity|]. cbn [env]. split; [reflexivity|]. intros h tps [].
  - unfold pop_hosts, mbind, ret. destruct (hostq s) as [|o hq]; cbn [hostq].
    + eexists n, _, _. split; [reflexivity|]. cbn [env]. split; [reflexivity|]. intros h tps Hin. exact Hin.
    + eexists n, _, _. split; [reflexivity|]. cbn [env]. split; [reflexivity|].
      intros h tps Hin. apply reorder_in in Hin. exact Hin.
Qed.

(* KafkaClient::fetch_messages: one response per per-broker request, each the decoding of THAT broker's reply
   against THAT broker's request of this call *)
Theorem C01_fetch_delivers_log : forall input s resps s',
  fetch_messages input s = (Ok resps, s') ->
  exists reqs,
    (forall h tps, In (h, tps) reqs -> In (h, tps) (fetch_reqs (after_corr (cl s)) input)) /\
    Forall2 (reply_delivers (env s)) reqs resps.
Proof.
  intros input s resps s' H.
  destruct (fetch_messages_exchange input s) as (corr & reqs & s0 & Heq & He & Hin). rewrite Heq in H.
  destruct (fetch_exchange_delivers _ _ _ _ _ _ H) as (_ & rs & Hout & Hall). cbn [app] in Hout. subst rs.
  exists reqs. split; [exact Hin|]. rewrite <- He. exact Hall.
Qed.

(* Consumer::poll.  A successful poll hands out the concatenation of what each broker's response delivers; there is
   one response per per-broker request (computed from the consumer's request list poll_requests k), in request order;
   each is the decoding of that broker's reply against that broker's request, and for a reply that is a printed
   answer over logs it delivers exactly those logs' messages - offsets, keys and values of the log, topic name and
   partition id as sent - from the requested offsets on (C01_request_offset_is_consumers: the consumer's). *)
Theorem C01_poll_delivers_log : forall k s ms k' s',
  consumer_poll k s = (Ok (Ok ms, k'), s') ->
  exists input reqs,
    poll_requests k = Some input /\
    (forall h tps, In (h, tps) reqs -> In (h, tps) (fetch_reqs (after_corr (cl s)) input)) /\
    Forall2 (reply_delivers (env s)) reqs (ms_responses ms) /\
    iterate ms = flat_map delivered (ms_responses ms).
Proof.
  intros k s ms k' s' H.
  destruct (C18Extra2.C18_poll_hands_out_fetch_result _ _ _ _ _ H) as (input & Hreq & Hf).
  destruct (C01_fetch_delivers_log _ _ _ _ Hf) as (reqs & Hin & Hall).
  exists input, reqs. split; [exact Hreq|]. split; [exact Hin|]. split; [exact Hall|reflexivity].
Qed.

(* ======================================================================================================= *)
(* D. the offset a broker's request carries is the consumer's                                                *)
(* ======================================================================================================= *)

Lemma fhost_add_hosts reqs h t p off mb x :
  In x (map fst (fhost_add reqs h t p off mb)) -> x = h \/ In x (map fst reqs).
Proof.
  induction reqs as [|[h0 tps] r IH]; cbn [fhost_add map fst In].
  - intros [E|[]]. left. auto.
  - destruct (bytes_eqb h0 h); cbn [map fst In]; intros [E|Hin]; auto.
    destruct (IH Hin); auto.
Qed.

Lemma fhost_add_nodup reqs h t p off mb :
  NoDup (map fst reqs) -> NoDup (map fst (fhost_add reqs h t p off mb)).
Proof.
  induction reqs as [|[h0 tps] r IH]; cbn [fhost_add map fst]; intros Hnd.
  - constructor; [intros []|constructor].
  - inversion Hnd as [|x l Hx Hl]; subst. destruct (bytes_eqb h0 h) eqn:E; cbn [map fst].
    + constructor; assumption.
    + constructor; [|apply IH; exact Hl]. intros Hin. apply fhost_add_hosts in Hin. destruct Hin as [->|Hin].
      * rewrite bytes_eqb_refl in E. discriminate.
      * exact (Hx Hin).
Qed.

(* the per-broker requests of one fetch have distinct hosts *)
Lemma fetch_reqs_nodup c input : NoDup (map fst (fetch_reqs c input)).
Proof.
  unfold fetch_reqs. set (step := fun (reqs : list (bytes * fetch_tps)) (q : fetch_partition) => _).
  assert (G : forall reqs, NoDup (map fst reqs) -> NoDup (map fst (fold_left step input reqs))).
  { induction input as [|q r IH]; intros reqs Hnd; cbn [fold_left]; [exact Hnd|]. apply IH. unfold step.
    destruct (find_broker (cs c) (fq_topic q) (fq_partition q)); [apply fhost_add_nodup|]; exact Hnd. }
  apply G. constructor.
Qed.

Lemma assoc_bytes_in {V} (l : list (bytes * V)) h v :
  NoDup (map fst l) -> In (h, v) l -> assoc_bytes h l = Some v.
Proof.
  induction l as [|[k' v'] r IH]; cbn [map fst In assoc_bytes]; intros Hnd Hin; [destruct Hin|].
  inversion Hnd as [|x l Hx Hl]; subst. destruct (bytes_eqb k' h) eqn:E.
  - apply bytes_eqb_eq in E. subst k'. destruct Hin as [Heq|Hin]; [inversion Heq; reflexivity|].
    exfalso. apply Hx. apply in_map_iff. exists (h, v). split; [reflexivity|exact Hin].
  - destruct Hin as [Heq|Hin]; [inversion Heq; subst; rewrite bytes_eqb_refl in E; discriminate|].
    apply IH; assumption.
Qed.

(* Whatever the order of the consumer's request list, however its partitions are spread over brokers and in
   whichever order the brokers are asked: the request that goes to the broker leading t/p - the one its reply is
   decoded against - carries for t/p the offset of the LAST element of the list for t/p. *)
Theorem C01_request_offset_is_consumers : forall c input reqs h tps t p,
  (forall h tps, In (h, tps) reqs -> In (h, tps) (fetch_reqs c input)) ->
  In (h, tps) reqs -> find_broker (cs c) t p = Some h ->
  req_lookup tps t p = asked (map ask_of input) t p 0.
Proof.
  intros c input reqs h tps t p Hsub Hin Hb.
  pose proof (assoc_bytes_in _ _ _ (fetch_reqs_nodup c input) (Hsub _ _ Hin)) as Ha.
  pose proof (C02_requested_offset_client c input h t p Hb) as Hc.
  unfold host_lookup in Hc. rewrite Ha in Hc. rewrite req_lookup_tp. exact Hc.
Qed.

Lemma NoDup_map_in {A B} (f : A -> B) (l : list A) :
  (forall x y, In x l -> In y l -> f x = f y -> x = y) -> NoDup l -> NoDup (map f l).
Proof.
  induction l as [|a l IH]; intros Hinj Hnd; cbn [map]; [constructor|].
  inversion Hnd as [|x l' Hx Hl]; subst. constructor.
  - intros Hin. apply in_map_iff in Hin. destruct Hin as (y & Hy & Hyl).
    assert (y = a) by (apply Hinj; [right; exact Hyl|left; reflexivity|exact Hy]). subst y. exact (Hx Hyl).
  - apply IH; [|exact Hl]. intros x y Hx' Hy'. apply Hinj; right; assumption.
Qed.

(* ... and for the request list of a poll that is not a single-partition retry: the offset asked for the topic of
   ref r and partition p is the one the consumer's fetch table holds for (r, p) - provided the table has distinct
   keys and distinct topic refs in it stand for distinct topic names (both hold for a table built by
   Builder::create from sorted, duplicate-free assignments; not proved here). *)
Theorem C01_poll_request_offsets : forall k r p off maxb,
  k_retry k = [] -> NoDup (map fst (k_fetch k)) ->
  (forall r1 p1 r2 p2, In (r1, p1) (map fst (k_fetch k)) -> In (r2, p2) (map fst (k_fetch k)) ->
                       topic_name k r1 = topic_name k r2 -> r1 = r2) ->
  tk_get (r, p) (k_fetch k) = Some (off, maxb) ->
  exists input, poll_requests k = Some input /\ asked (map ask_of input) (topic_name k r) p 0 = off.
Proof.
  intros k r p off maxb Hretry Hnd Hinj Hget. unfold poll_requests. rewrite Hretry.
  eexists. split; [reflexivity|].
  set (f := fun '(tr, p0, (off0, maxb0)) => {| fq_topic := topic_name k tr; fq_partition := p0; fq_offset := off0;
                                               fq_max_bytes := maxb0 |}).
  rewrite <- C02_requested_offset.
  apply (C02_requested_offset_distinct _ _ _ _ maxb).
  - rewrite !map_map.
    assert (E : map (fun x => (fst (fst (fst (ask_of (f x)))), snd (fst (fst (ask_of (f x)))))) (k_fetch k)
                = map (fun key : tpkey => (topic_name k (fst key), snd key)) (map fst (k_fetch k))).
    { rewrite map_map. apply map_ext. intros [[tr p0] [off0 maxb0]]. reflexivity. }
    rewrite E. apply NoDup_map_in; [|exact Hnd].
    intros [r1 p1] [r2 p2] H1 H2 Heq. cbn [fst snd] in Heq. inversion Heq as [[Hn Hp]].
    rewrite (Hinj r1 p1 r2 p2 H1 H2 Hn). reflexivity.
  - apply in_map_iff. exists (f ((r, p), (off, maxb))). split; [reflexivity|].
    apply in_map. apply tk_get_in. exact Hget.
Qed.

(* non-vacuity of B / C / D over a scripted connection: broker h:9092 leads t:0 and t:1; the consumer asks t:0 from
   1 and t:1 from 2; the reply carries a gzip batch (offsets 0..2) + a plain message for t:0 and a snappy batch
   (0..2) + a plain message for t:1.  The poll succeeds, hands out t:0 -> [1; 2] and t:1 -> [2] with the keys and
   values of the log, and moves both partitions to 3. *)
Definition exb_poll_tls : list topic_log :=
  [ (tag "t", [ {| pl_partition := 0; pl_highwater := 4; pl_log := es_gz; pl_cut := 200 |};
                {| pl_partition := 1; pl_highwater := 9; pl_log := es_sn; pl_cut := 500 |} ]) ].
Definition exb_body : bytes := print_fetch (wire_resp wcomp 1 exb_poll_tls).
Definition exb_script : list ev_out := [OConn true; OWrote 1000; OData (enc_i32 (ulen exb_body)); OData exb_body].
Definition exb_k : consumer := exx_k [((0, 0), (1, 32768)); ((0, 1), (2, 32768))] [].

Example C01_poll_delivers_log_ex :
  exists ms k1 s',
    consumer_poll exb_k (ex_st exb_script) = (Ok (Ok ms, k1), s') /\
    iterate ms = [ (tag "t", 0, [m1; m2]); (tag "t", 1, [m2]) ] /\
    iterate ms = expected wcomp (fun t p => asked (map ask_of [ {| fq_topic := tag "t"; fq_partition := 0; fq_offset := 1; fq_max_bytes := 32768 |};
                                                               {| fq_topic := tag "t"; fq_partition := 1; fq_offset := 2; fq_max_bytes := 32768 |} ]) t p 0)
                          exb_poll_tls /\
    k_fetch k1 = [((0, 0), (3, 32768)); ((0, 1), (3, 32768))] /\ ms_empty ms = false.
Proof. eexists. eexists. eexists. split; [vm_compute; reflexivity|]. vm_compute. repeat split. Qed.

Example C01_poll_delivers_log_hyps :
  codec_ok ex_env wcomp /\ wf_fetch (wire_resp wcomp 1 exb_poll_tls) /\ logs_ok wcomp decode_depth exb_poll_tls /\
  poll_requests exb_k = Some [ {| fq_topic := tag "t"; fq_partition := 0; fq_offset := 1; fq_max_bytes := 32768 |};
                               {| fq_topic := tag "t"; fq_partition := 1; fq_offset := 2; fq_max_bytes := 32768 |} ].
Proof.
  split; [exact (wcomp_codec_ok true)|]. split; [|split; [|reflexivity]].
  - unfold wf_fetch, wf_topics_resp, wire_resp, wf_array, wf_topic, wf_fetch_part,
      wf_string, wf_array, in_i16, in_i32, in_i64; cbn [wr_corr wr_topics]. wf_compute.
  - intros tl pl Ht Hp. cbn [exb_poll_tls In] in Ht. destruct Ht as [<-|[]]; cbn [snd In] in Hp.
    destruct Hp as [<-|[<-|[]]]; cbn [pl_log].
    + split; [apply es_gz_wf|]. split; [vm_compute; lia|]. apply head_batch_not_Known; [apply es3_plain|plain_tac].
    + split; [apply es_sn_wf|]. split; [vm_compute; lia|]. apply head_batch_not_Known; [apply es3_plain|plain_tac].
Qed.

Example C01_poll_request_offsets_ex :
  k_retry exb_k = [] /\ NoDup (map fst (k_fetch exb_k)) /\
  tk_get (0, 1) (k_fetch exb_k) = Some (2, 32768) /\ topic_name exb_k 0 = tag "t".
Proof.
  split; [reflexivity|]. split; [|split; reflexivity].
  vm_compute. repeat constructor; cbn [In]; intuition discriminate.
Qed.

Print Assumptions C01_iterate_is_concat.
Print Assumptions C01_response_delivers_log.
Print Assumptions C01_exchange_delivers_log.
Print Assumptions C01_fetch_delivers_log.
Print Assumptions C01_poll_delivers_log.
Print Assumptions C01_request_offset_is_consumers.
Print Assumptions C01_poll_request_offsets.
