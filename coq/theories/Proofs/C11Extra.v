(* C11, additional theorems: the CALL level of every API (the existing theorems of Props/C11.v stop at the
   per-partition conversion functions and at `collect`).  Everything here is about the unchanged model.

   Part A  offset lookups (fetch_offsets / list_offsets): a failing partition in the answer of ANY broker
           (first, second, ...), in any topic, at any position, fails the call naming topic and partition,
           whatever earlier brokers already delivered for the same topic.
   Part B  Producer::send: for EVERY acknowledgement mode other than 0 (in particular -1 = All) the broker's
           code is the result of the call; success only if the confirmation is an offset.
   Part C  Consumer::poll: a failing partition fails the poll, the consumer is untouched, nothing is handed out.
   Part D  commit_offsets: topic-level scan, failing call, success only if every code is 0.
   Part E  fetch_group_offsets: scan, failing call, success only if every code is 0 or the documented 3.
   Part F  group coordinator lookup. *)
From KV Require Import Base.Prelude Gen.ErrorCodes Gen.Consts Model.Codecs Model.Requests Model.Responses
                       Model.ClientState Model.Net Model.Client Model.Producer Model.Consumer.
From KV Require Import Proofs.BytesFacts Spec.RespGrammar Proofs.C11Facts Proofs.C10Facts.
From Coq Require Import ZifyBool.
Ltac Zify.zify_post_hook ::= Z.div_mod_to_equations.

(* "every partition of the list converts" *)
Definition healthy {P V} (conv : P -> V + Z) (ps : list P) : Prop :=
  forall q, In q ps -> exists v, conv q = inl v.

Lemma collect_healthy {P V} (conv : P -> V + Z) (pid : P -> Z) ps :
  healthy conv ps -> forall acc, exists vs, collect conv pid ps acc = inl vs.
Proof.
  induction ps as [|q ps IH]; intros H acc; [exists acc; reflexivity|].
  cbn [collect]. destruct (H q (or_introl eq_refl)) as [v Hv]. rewrite Hv.
  apply IH. intros q' Hq'. apply H. right. exact Hq'.
Qed.

(* ================================================================================================ *)
(* Part A: offset lookups                                                                           *)
(* ================================================================================================ *)

(* one broker answer: the first failing partition (any topic position, any partition position) fails the
   merge, for EVERY map `m` of results already collected -- also one that already has the topic *)
Theorem C11_merge_fails : forall {P V} (conv : P -> V + Z) (pid : P -> Z) tps m tpre t ps tpost ppre p ppost c,
  tps = tpre ++ (t, ps) :: tpost ->
  (forall t' ps', In (t', ps') tpre -> healthy conv ps') ->
  ps = ppre ++ p :: ppost -> healthy conv ppre -> conv p = inr c ->
  merge_topics conv pid tps m = Err (ETopicPartition t (pid p) c).
Proof.
  intros P V conv pid tps m tpre t ps tpost ppre p ppost c -> Htpre -> Hppre Hp.
  apply (merge_topics_error conv pid _ m t (ppre ++ p :: ppost) (pid p) c).
  - exists tpre, tpost. split; [reflexivity|]. intros t' ps' Hin.
    apply collect_healthy. exact (Htpre t' ps' Hin).
  - apply (collect_error conv pid _ [] ppre p ppost c eq_refl Hppre Hp).
Qed.

Lemma offsets_exchange_app {P V} enc (d : dec (Z * list (bytes * list P))) (conv : P -> V + Z) pid a b :
  forall m s,
  offsets_exchange enc d conv pid (a ++ b) m s =
  match offsets_exchange enc d conv pid a m s with
  | (Ok m', s') => offsets_exchange enc d conv pid b m' s'
  | (Err e, s') => (Err e, s')
  | (Panic w, s') => (Panic w, s')
  end.
Proof.
  induction a as [|[h tps] a IH]; intros m s; [reflexivity|].
  cbn [app offsets_exchange]. unfold mbind, lift.
  destruct (send_receive d h (enc tps) s) as [[[c rtps]|e|w] s1]; [|reflexivity|reflexivity].
  destruct (merge_topics conv pid rtps m) as [m1|e|w]; [|reflexivity|reflexivity].
  apply IH.
Qed.

(* the exchange with several brokers: the brokers asked before answered without any code (their results
   are in the map, possibly for the very same topic), the next one answers with a failing partition *)
Theorem C11_offsets_exchange_fails :
  forall {P V} enc (d : dec (Z * list (bytes * list P))) (conv : P -> V + Z) (pid : P -> Z)
         pre h tps post m s resps s1 corr rtps s2 tpre t ps tpost ppre p ppost c,
  exchanges enc d pre s resps s1 -> all_conv conv (concat resps) ->
  send_receive d h (enc tps) s1 = (Ok (corr, rtps), s2) ->
  rtps = tpre ++ (t, ps) :: tpost ->
  (forall t' ps', In (t', ps') tpre -> healthy conv ps') ->
  ps = ppre ++ p :: ppost -> healthy conv ppre -> conv p = inr c ->
  offsets_exchange enc d conv pid (pre ++ (h, tps) :: post) m s = (Err (ETopicPartition t (pid p) c), s2).
Proof.
  intros P V enc d conv pid pre h tps post m s resps s1 corr rtps s2 tpre t ps tpost ppre p ppost c
         Hex Hall Hsr Hr Htpre Hps Hppre Hp.
  rewrite offsets_exchange_app.
  destruct (C10_offsets_exchange_all enc d conv pid pre s resps s1 Hex Hall m) as [m1 [Hm1 _]].
  rewrite Hm1.
  apply (offsets_exchange_error enc d conv pid h tps post m1 s1 corr rtps s2 _ Hsr).
  apply (C11_merge_fails conv pid rtps m1 tpre t ps tpost ppre p ppost c Hr Htpre Hps Hppre Hp).
Qed.

(* KafkaClient::fetch_offsets *)
Theorem C11_fetch_offsets_fails :
  forall topics time s corr s0 pre h tps post s1 resps s2 rc rtps s3 tpre t ps tpost ppre p ppost c,
  next_corr s = (Ok corr, s0) ->
  ordered (offset_reqs (cs (cl s0)) topics time) s0 = (Ok (pre ++ (h, tps) :: post), s1) ->
  exchanges (enc_offset_req corr (client_id (cfg (cl s0)))) dec_offset_resp pre s1 resps s2 ->
  all_conv to_offset (concat resps) ->
  send_receive dec_offset_resp h (enc_offset_req corr (client_id (cfg (cl s0))) tps) s2 = (Ok (rc, rtps), s3) ->
  rtps = tpre ++ (t, ps) :: tpost ->
  (forall t' ps', In (t', ps') tpre -> healthy to_offset ps') ->
  ps = ppre ++ p :: ppost -> healthy to_offset ppre -> from_protocol (por_error p) = Some c ->
  fetch_offsets topics time s = (Err (ETopicPartition t (por_partition p) c), s3).
Proof.
  intros topics time s corr s0 pre h tps post s1 resps s2 rc rtps s3 tpre t ps tpost ppre p ppost c
         Hcorr Hord Hex Hall Hsr Hr Htpre Hps Hppre Hp.
  unfold fetch_offsets. unfold mbind at 1. rewrite Hcorr. unfold mbind at 1. unfold get_client at 1.
  unfold mbind at 1. rewrite Hord.
  apply (C11_offsets_exchange_fails _ _ to_offset por_partition pre h tps post [] s1 resps s2 rc rtps s3
           tpre t ps tpost ppre p ppost c Hex Hall Hsr Hr Htpre Hps Hppre).
  apply to_offset_error. exact Hp.
Qed.

(* KafkaClient::list_offsets *)
Theorem C11_list_offsets_fails :
  forall topics time s corr s0 pre h tps post s1 resps s2 rc rtps s3 tpre t ps tpost ppre p ppost c,
  next_corr s = (Ok corr, s0) ->
  ordered (offset_reqs (cs (cl s0)) topics time) s0 = (Ok (pre ++ (h, tps) :: post), s1) ->
  exchanges (enc_list_offsets_req corr (client_id (cfg (cl s0)))) dec_list_offsets_resp pre s1 resps s2 ->
  all_conv lop_to_offset (concat resps) ->
  send_receive dec_list_offsets_resp h (enc_list_offsets_req corr (client_id (cfg (cl s0))) tps) s2
    = (Ok (rc, rtps), s3) ->
  rtps = tpre ++ (t, ps) :: tpost ->
  (forall t' ps', In (t', ps') tpre -> healthy lop_to_offset ps') ->
  ps = ppre ++ p :: ppost -> healthy lop_to_offset ppre -> from_protocol (lop_error p) = Some c ->
  list_offsets topics time s = (Err (ETopicPartition t (lop_partition p) c), s3).
Proof.
  intros topics time s corr s0 pre h tps post s1 resps s2 rc rtps s3 tpre t ps tpost ppre p ppost c
         Hcorr Hord Hex Hall Hsr Hr Htpre Hps Hppre Hp.
  unfold list_offsets. unfold mbind at 1. rewrite Hcorr. unfold mbind at 1. unfold get_client at 1.
  unfold mbind at 1. rewrite Hord.
  apply (C11_offsets_exchange_fails _ _ lop_to_offset lop_partition pre h tps post [] s1 resps s2 rc rtps s3
           tpre t ps tpost ppre p ppost c Hex Hall Hsr Hr Htpre Hps Hppre).
  apply lop_to_offset_error. exact Hp.
Qed.

(* fetch_topic_offsets is fetch_offsets of one topic: the failure goes through unchanged *)
Theorem C11_fetch_topic_offsets_fails : forall topic time s e s',
  fetch_offsets [topic] time s = (Err e, s') -> fetch_topic_offsets topic time s = (Err e, s').
Proof. intros topic time s e s' H. unfold fetch_topic_offsets, mbind. rewrite H. reflexivity. Qed.

(* and the converse reading ("never returns data or success"): a successful exchange saw no code at all *)
Lemma collect_ok_healthy {P V} (conv : P -> V + Z) (pid : P -> Z) ps : forall acc vs,
  collect conv pid ps acc = inl vs -> healthy conv ps.
Proof.
  intros acc vs H q Hq. destruct (C11Facts.collect_ok conv pid ps acc vs H q Hq) as [v [Hv _]]. exists v. exact Hv.
Qed.

Lemma merge_ok_all_conv {P V} (conv : P -> V + Z) (pid : P -> Z) tps : forall m m',
  merge_topics conv pid tps m = Ok m' -> all_conv conv tps.
Proof.
  induction tps as [|[t ps] tps IH]; intros m m' H t0 ps0 p0 Hin Hp; [destruct Hin|].
  cbn [merge_topics] in H. destruct (collect conv pid ps []) as [vs|[p c]] eqn:E; [|discriminate].
  destruct Hin as [Heq|Hin].
  - inversion Heq; subst. exact (collect_ok_healthy conv pid _ _ _ E p0 Hp).
  - exact (IH _ _ H t0 ps0 p0 Hin Hp).
Qed.

Theorem C11_offsets_exchange_ok_clean :
  forall {P V} enc (d : dec (Z * list (bytes * list P))) (conv : P -> V + Z) (pid : P -> Z) reqs m s m' s',
  offsets_exchange enc d conv pid reqs m s = (Ok m', s') ->
  exists resps, exchanges enc d reqs s resps s' /\ all_conv conv (concat resps).
Proof.
  intros P V enc d conv pid reqs. induction reqs as [|[h tps] reqs IH]; intros m s m' s' H.
  - cbn [offsets_exchange] in H. inversion H; subst. exists []. split; [apply exch_nil|].
    intros t ps p Hin. destruct Hin.
  - cbn [offsets_exchange] in H. unfold mbind at 1 in H.
    destruct (send_receive d h (enc tps) s) as [[[c rtps]|e|w] s1] eqn:Hsr; try discriminate.
    unfold mbind at 1 in H. unfold lift at 1 in H.
    destruct (merge_topics conv pid rtps m) as [m1|e|w] eqn:Hm; try discriminate.
    destruct (IH _ _ _ _ H) as [resps [Hex Hall]].
    exists (rtps :: resps). split; [eapply exch_cons; eassumption|].
    cbn [concat]. intros t ps p Hin Hp. apply in_app_or in Hin. destruct Hin as [Hin|Hin].
    + exact (merge_ok_all_conv conv pid rtps m m1 Hm t ps p Hin Hp).
    + exact (Hall t ps p Hin Hp).
Qed.

Theorem C11_fetch_offsets_ok_clean : forall topics time s m s',
  fetch_offsets topics time s = (Ok m, s') ->
  exists corr s0 reqs s1 resps,
    next_corr s = (Ok corr, s0) /\ ordered (offset_reqs (cs (cl s0)) topics time) s0 = (Ok reqs, s1) /\
    exchanges (enc_offset_req corr (client_id (cfg (cl s0)))) dec_offset_resp reqs s1 resps s' /\
    forall t ps p, In (t, ps) (concat resps) -> In p ps -> por_error p = 0.
Proof.
  intros topics time s m s' H. unfold fetch_offsets in H. unfold mbind at 1 in H.
  destruct (next_corr s) as [[corr|e|w] s0] eqn:Hc; try discriminate.
  unfold mbind at 1 in H. unfold get_client at 1 in H. unfold mbind at 1 in H.
  destruct (ordered (offset_reqs (cs (cl s0)) topics time) s0) as [[reqs|e|w] s1] eqn:Ho; try discriminate.
  destruct (C11_offsets_exchange_ok_clean _ _ _ _ _ _ _ _ _ H) as [resps [Hex Hall]].
  exists corr, s0, reqs, s1, resps. repeat split; try assumption.
  intros t ps p Hin Hp. destruct (Hall t ps p Hin Hp) as [v Hv].
  unfold to_offset in Hv. destruct (por_error p =? 0) eqn:E; [lia|].
  destruct (from_protocol_nonzero (por_error p) ltac:(lia)) as [c [Hc' _]]. rewrite Hc' in Hv. discriminate.
Qed.

(* ---- non-vacuity of Part A: topic "t" spread over two brokers, the broker asked SECOND answers code 6 for
   its second partition (t:3); the first broker's healthy results for the same topic are already in the map *)
Definition xa_cs : cstate :=
  {| correlation := 0;
     brokers := [ {| b_node := 1; b_host := [x61] |}; {| b_node := 2; b_host := [x62] |} ];
     topic_partitions := [ ([x74], [0; 1; 0; 1]) ];
     group_coordinators := [] |}.
Definition xa_client : client := {| cfg := default_config [[x61]; [x62]]; cs := xa_cs; conns := [] |}.
Definition xa_wpart (p e o : Z) : w_offsets_part := {| wo_partition := p; wo_error := e; wo_offsets := Some [o] |}.
Definition xa_resp (ps : list w_offsets_part) : w_topics_resp w_offsets_part :=
  {| wr_corr := 1; wr_topics := Some [ {| wt_name := Some [x74]; wt_partitions := Some ps |} ] |}.
Definition xa_st (second : list w_offsets_part) : st :=
  {| script := ex_script (print_offsets (xa_resp [xa_wpart 0 0 100; xa_wpart 2 0 102]))
               ++ ex_script (print_offsets (xa_resp second));
     trace := []; anyq := []; hostq := []; fetchq := []; entryq := []; cl := xa_client; env := ex_codecs |}.

Example C11_fetch_offsets_fails_ex :
  (* the two requests, in the order they go out *)
  offset_reqs xa_cs [[x74]] (-1) = [ ([x61], [ ([x74], [ (0, -1); (2, -1) ]) ]); ([x62], [ ([x74], [ (1, -1); (3, -1) ]) ]) ]
  (* healthy cluster *)
  /\ fst (fetch_offsets [[x74]] (-1) (xa_st [xa_wpart 1 0 101; xa_wpart 3 0 103]))
     = Ok [ ([x74], [ (0, 100); (2, 102); (1, 101); (3, 103) ]) ]
  (* code 6 from the second broker, after a healthy partition *)
  /\ fst (fetch_offsets [[x74]] (-1) (xa_st [xa_wpart 1 0 101; xa_wpart 3 6 (-1)]))
     = Err (ETopicPartition [x74] 3 6)
  (* an unmapped code *)
  /\ fst (fetch_offsets [[x74]] (-1) (xa_st [xa_wpart 1 77 (-1); xa_wpart 3 0 103]))
     = Err (ETopicPartition [x74] 1 (-1))
  /\ fst (list_offsets [[x74]] (-1) (xa_st [xa_wpart 1 0 101; xa_wpart 3 0 103])) <> Ok [].
Proof. vm_compute. repeat split; discriminate. Qed.

(* the hypotheses of C11_fetch_offsets_fails hold on that run (pre = the first broker, resps = its answer) *)
Example C11_fetch_offsets_fails_hyps :
  let s := xa_st [xa_wpart 1 0 101; xa_wpart 3 6 (-1)] in
  exists s0 s1 s2 s3 tps1 r1,
    next_corr s = (Ok 1, s0)
    /\ ordered (offset_reqs (cs (cl s0)) [[x74]] (-1)) s0
       = (Ok ([ ([x61], tps1) ] ++ ([x62], [ ([x74], [ (1, -1); (3, -1) ]) ]) :: []), s1)
    /\ exchanges (enc_offset_req 1 (client_id (cfg (cl s0)))) dec_offset_resp [ ([x61], tps1) ] s1 [r1] s2
    /\ all_conv to_offset (concat [r1])
    /\ send_receive dec_offset_resp [x62] (enc_offset_req 1 (client_id (cfg (cl s0))) [ ([x74], [ (1, -1); (3, -1) ]) ]) s2
       = (Ok (1, [] ++ ([x74], [ {| por_partition := 1; por_error := 0; por_offsets := [101] |} ]
                                 ++ {| por_partition := 3; por_error := 6; por_offsets := [-1] |} :: []) :: []), s3)
    /\ from_protocol 6 = Some 6.
Proof.
  cbv zeta. do 6 eexists.
  split; [vm_compute; reflexivity|].
  split; [vm_compute; reflexivity|].
  split; [eapply exch_cons; [vm_compute; reflexivity|apply exch_nil]|].
  split; [|split; [vm_compute; reflexivity|reflexivity]].
  intros t ps p Hin Hp. cbn [concat app] in Hin.
  repeat (destruct Hin as [Hin|Hin]; [inversion Hin; subst; clear Hin;
            repeat (destruct Hp as [Hp|Hp]; [subst p; eexists; reflexivity|]); destruct Hp|]).
  destruct Hin.
Qed.

(* ================================================================================================ *)
(* Part B: Producer::send, for every acknowledgement mode                                           *)
(* ================================================================================================ *)

(* send_all with ONE request on the wire: the confirmations are the per-partition results of the answer,
   whenever an answer is awaited (acks <> 0: that is 1, -1 = All, and any other value) *)
Theorem C11_send_all_confirms : forall p recs s corr s0 reqs cntr' h tps s1 rc rtps s2,
  p_acks p <> 0 ->
  next_corr s = (Ok corr, s0) ->
  send_all_reqs (cs (cl s0)) (p_parts p) (p_cntr p) recs [] = (Some reqs, cntr') ->
  ordered reqs s0 = (Ok [(h, tps)], s1) ->
  send_receive dec_produce_resp h
    (enc_produce_req (env s1) corr (client_id (cfg (cl s1))) (p_acks p) (p_ack_timeout p)
                     (compression (cfg (cl s1))) tps) s1 = (Ok (rc, rtps), s2) ->
  producer_send_all p recs s
  = (Ok (map (fun '(t, ps) => (t, map produce_confirm ps)) rtps, producer_set_cntr p cntr'), s2).
Proof.
  intros p recs s corr s0 reqs cntr' h tps s1 rc rtps s2 Ha Hcorr Hreqs Hord Hsr.
  unfold producer_send_all. unfold mbind at 1. rewrite Hcorr. unfold mbind at 1. unfold get_client at 1.
  rewrite Hreqs. unfold mbind at 1. rewrite Hord. unfold mbind at 1.
  rewrite (produce_exchange_confirms corr (p_acks p) (p_ack_timeout p) h tps [] [] s1 rc rtps s2 Ha Hsr).
  cbn [produce_exchange app]. unfold ret. destruct (p_acks p =? 0) eqn:E; [lia|]. reflexivity.
Qed.

(* Producer::send: whatever send_all delivered as THE confirmation is the outcome -- for every acks <> 0 *)
Theorem C11_send_fails : forall p r s t part code p' s',
  p_acks p <> 0 ->
  producer_send_all p [r] s = (Ok ([(t, [(part, inr code)])], p'), s') ->
  producer_send p r s = (Err (EKafka code), s').
Proof.
  intros p r s t part code p' s' Ha H. unfold producer_send, mbind. rewrite H.
  destruct (p_acks p =? 0) eqn:E; [lia|]. reflexivity.
Qed.

(* never success: with acks <> 0, Ok means the single confirmation carried an offset, not a code *)
Theorem C11_send_ok_confirmed : forall p r s p' s',
  p_acks p <> 0 -> producer_send p r s = (Ok p', s') ->
  exists t part off, producer_send_all p [r] s = (Ok ([(t, [(part, inl off)])], p'), s').
Proof.
  intros p r s p' s' Ha H. unfold producer_send, mbind in H.
  destruct (producer_send_all p [r] s) as [[[cf p1]|e|w] s1] eqn:Hall; try discriminate.
  destruct (p_acks p =? 0) eqn:E; [lia|].
  destruct cf as [|[t pcs] [|x cf]]; try discriminate.
  destruct pcs as [|[part [off|code]] [|y pcs]]; try discriminate.
  inversion H; subst. exists t, part, off. reflexivity.
Qed.

(* end to end: the broker's produce answer carries code e for the partition => send fails with the
   matching kind, in every acknowledgement mode that reads an answer *)
Theorem C11_send_broker_error : forall p r s corr s0 reqs cntr' h tps s1 rc t pp s2 c,
  p_acks p <> 0 ->
  next_corr s = (Ok corr, s0) ->
  send_all_reqs (cs (cl s0)) (p_parts p) (p_cntr p) [r] [] = (Some reqs, cntr') ->
  ordered reqs s0 = (Ok [(h, tps)], s1) ->
  send_receive dec_produce_resp h
    (enc_produce_req (env s1) corr (client_id (cfg (cl s1))) (p_acks p) (p_ack_timeout p)
                     (compression (cfg (cl s1))) tps) s1 = (Ok (rc, [(t, [pp])]), s2) ->
  from_protocol (pp_error pp) = Some c ->
  producer_send p r s = (Err (EKafka c), s2).
Proof.
  intros p r s corr s0 reqs cntr' h tps s1 rc t pp s2 c Ha Hcorr Hreqs Hord Hsr Hc.
  apply (C11_send_fails p r s t (pp_partition pp) c (producer_set_cntr p cntr') s2 Ha).
  rewrite (C11_send_all_confirms p [r] s corr s0 reqs cntr' h tps s1 rc _ s2 Ha Hcorr Hreqs Hord Hsr).
  cbn [map]. rewrite (produce_confirm_error pp c Hc). reflexivity.
Qed.

(* non-vacuity of Part B: RequiredAcks::All (-1) and One (1); codes 19, 20, unmapped 36; a healthy answer *)
Definition xb_producer (acks : Z) : producer :=
  {| p_client := xa_client; p_parts := producer_state xa_cs; p_cntr := 0; p_ack_timeout := 1000; p_acks := acks |}.
Definition xb_rec : record := {| r_topic := [x74]; r_partition := 1; r_key := []; r_value := [x68; x69] |}.
Definition xb_resp (e o : Z) : w_topics_resp w_produce_part :=
  {| wr_corr := 1; wr_topics := Some [ {| wt_name := Some [x74];
         wt_partitions := Some [ {| wpr_partition := 1; wpr_error := e; wpr_offset := o |} ] |} ] |}.
Definition xb_st (e o : Z) : st :=
  {| script := ex_script (print_produce (xb_resp e o));
     trace := []; anyq := []; hostq := []; fetchq := []; entryq := []; cl := xa_client; env := ex_codecs |}.

Example C11_send_ex :
  fst (producer_send (xb_producer (-1)) xb_rec (xb_st 19 (-1))) = Err (EKafka 19)
  /\ fst (producer_send (xb_producer (-1)) xb_rec (xb_st 20 (-1))) = Err (EKafka 20)
  /\ fst (producer_send (xb_producer (-1)) xb_rec (xb_st 36 (-1))) = Err (EKafka (-1))
  /\ fst (producer_send (xb_producer 1) xb_rec (xb_st 6 (-1))) = Err (EKafka 6)
  /\ fst (producer_send (xb_producer (-1)) xb_rec (xb_st 0 42)) = Ok (xb_producer (-1))
  /\ (exists s', producer_send_all (xb_producer (-1)) [xb_rec] (xb_st 19 (-1))
                 = (Ok ([ ([x74], [ (1, inr 19) ]) ], xb_producer (-1)), s')).
Proof.
  repeat split; try (vm_compute; reflexivity). eexists. vm_compute. reflexivity.
Qed.

Example C11_send_broker_error_hyps :
  let p := xb_producer (-1) in let s := xb_st 19 (-1) in
  exists s0 reqs cntr' tps s1 s2,
    p_acks p <> 0 /\ next_corr s = (Ok 1, s0)
    /\ send_all_reqs (cs (cl s0)) (p_parts p) (p_cntr p) [xb_rec] [] = (Some reqs, cntr')
    /\ ordered reqs s0 = (Ok [([x62], tps)], s1)
    /\ send_receive dec_produce_resp [x62]
         (enc_produce_req (env s1) 1 (client_id (cfg (cl s1))) (p_acks p) (p_ack_timeout p)
                          (compression (cfg (cl s1))) tps) s1
       = (Ok (1, [ ([x74], [ {| pp_partition := 1; pp_error := 19; pp_offset := -1 |} ]) ]), s2)
    /\ from_protocol 19 = Some 19.
Proof.
  cbv zeta. do 6 eexists.
  split; [vm_compute; discriminate|].
  split; [vm_compute; reflexivity|].
  split; [vm_compute; reflexivity|].
  split; [vm_compute; reflexivity|].
  split; [vm_compute; reflexivity|reflexivity].
Qed.

(* ================================================================================================ *)
(* Part C: Consumer::poll                                                                           *)
(* ================================================================================================ *)
Definition all_parts (resps : list fetch_resp) : list fetch_part :=
  flat_map ft_partitions (flat_map fr_topics resps).

Lemma first_part_error_found ps : forall pre p post c,
  ps = pre ++ p :: post -> (forall q, In q pre -> exists d, fp_data q = inl d) -> fp_data p = inr c ->
  first_part_error ps = Some c.
Proof.
  intros pre. revert ps. induction pre as [|q pre IH]; intros ps p post c -> Hpre Hp.
  - cbn [app first_part_error]. rewrite Hp. reflexivity.
  - cbn [app first_part_error]. destruct (Hpre q (or_introl eq_refl)) as [d Hd]. rewrite Hd.
    apply (IH _ p post c eq_refl); [|exact Hp]. intros q' Hq'. apply Hpre. right. exact Hq'.
Qed.

Lemma first_part_error_none ps : first_part_error ps = None -> forall p, In p ps -> exists d, fp_data p = inl d.
Proof.
  induction ps as [|q ps IH]; intros H p Hin; [destruct Hin|].
  cbn [first_part_error] in H. destruct (fp_data q) as [d|c] eqn:E; [|discriminate].
  destruct Hin as [->|Hin]; [exists d; exact E|exact (IH H p Hin)].
Qed.

(* a partition with a code anywhere in the fetch answers (any broker, topic, position): the poll fails
   with that code, the consumer is returned unchanged (no offset advanced, nothing queued for retry) *)
Theorem C11_poll_fails : forall dbg k n resps pre p post c,
  all_parts resps = pre ++ p :: post ->
  (forall q, In q pre -> exists d, fp_data q = inl d) -> fp_data p = inr c ->
  process_fetch_responses dbg k n resps = (Err (EKafka c), k).
Proof.
  intros dbg k n resps pre p post c Hall Hpre Hp. unfold process_fetch_responses, first_error.
  fold (all_parts resps). rewrite (first_part_error_found _ pre p post c Hall Hpre Hp). reflexivity.
Qed.

(* never data for a failed partition: message sets are only handed out when no partition of any
   answer carries a code *)
Theorem C11_poll_ok_clean : forall dbg k n resps ms k',
  process_fetch_responses dbg k n resps = (Ok ms, k') ->
  ms_responses ms = resps /\ forall p, In p (all_parts resps) -> exists d, fp_data p = inl d.
Proof.
  intros dbg k n resps ms k' H. unfold process_fetch_responses, first_error in H. fold (all_parts resps) in H.
  destruct (first_part_error (all_parts resps)) as [c|] eqn:E; [discriminate|].
  split; [|exact (first_part_error_none _ E)].
  destruct (process_topics _ _ _ _ _ _ _ _) as [s|e s|w]; try discriminate.
  inversion H; subst. reflexivity.
Qed.

(* and the iterator over message sets never yields anything for a partition that carries a code *)
Theorem C11_iterate_no_failed : forall ms t pid msgs,
  In (t, pid, msgs) (iterate ms) ->
  exists r ft fp hw, In r (ms_responses ms) /\ In ft (fr_topics r) /\ In fp (ft_partitions ft)
                     /\ ft_topic ft = t /\ fp_partition fp = pid /\ fp_data fp = inl (hw, msgs).
Proof.
  intros ms t pid msgs H. unfold iterate in H.
  apply in_flat_map in H. destruct H as [r [Hr H]].
  apply in_flat_map in H. destruct H as [ft [Hft H]].
  apply in_flat_map in H. destruct H as [fp [Hfp H]].
  destruct (fp_data fp) as [[hw [|m l]]|c] eqn:E; try destruct H.
  - inversion H; subst. exists r, ft, fp, hw. repeat split; assumption.
  - destruct H.
Qed.

(* the public call *)
Theorem C11_consumer_poll_fails : forall k s n resps k' s1 pre p post c,
  consumer_fetch k s = (Ok (n, Ok resps, k'), s1) ->
  all_parts resps = pre ++ p :: post ->
  (forall q, In q pre -> exists d, fp_data q = inl d) -> fp_data p = inr c ->
  consumer_poll k s = (Ok (Err (EKafka c), consumer_with_client k' (cl s1)), s1).
Proof.
  intros k s n resps k' s1 pre p post c Hf Hall Hpre Hp. unfold consumer_poll. unfold mbind at 1. rewrite Hf.
  unfold mbind, get_client, get_env, ret.
  rewrite (C11_poll_fails _ _ n resps pre p post c Hall Hpre Hp). reflexivity.
Qed.

Example C11_poll_ex :
  let ok := {| fp_partition := 0; fp_data := inl (5, [ {| m_offset := 4; m_key := []; m_value := [x68] |} ]) |} in
  let bad := {| fp_partition := 1; fp_data := inr 6 |} in
  let resps := [ {| fr_corr := 1; fr_topics := [ {| ft_topic := [x74]; ft_partitions := [ok; bad] |} ] |} ] in
  all_parts resps = [ok] ++ bad :: []
  /\ first_error resps = Some 6
  /\ iterate {| ms_responses := resps; ms_empty := false |} = [ ([x74], 0, [ {| m_offset := 4; m_key := []; m_value := [x68] |} ]) ].
Proof. vm_compute. repeat split. Qed.

(* ================================================================================================ *)
(* Part D: commit_offsets                                                                           *)
(* ================================================================================================ *)
Definition codes_zero (tps : list (bytes * list (Z * Z))) : Prop :=
  forall t ps q, In (t, ps) tps -> In q ps -> snd q = 0.

(* the scan over topics: the first non-zero code decides, whatever topic it is in *)
Theorem C11_commit_scan_fatal : forall tps tpre t ps tpost pre p e post c,
  tps = tpre ++ (t, ps) :: tpost -> codes_zero tpre ->
  ps = pre ++ (p, e) :: post -> (forall q, In q pre -> snd q = 0) -> from_protocol e = Some c ->
  c <> KC_GroupLoadInProgress -> c <> KC_NotCoordinatorForGroup ->
  commit_scan tps = ScanFatal c.
Proof.
  intros tps tpre. revert tps. induction tpre as [|[t' ps'] tpre IH];
    intros tps t ps tpost pre p e post c -> Hz Hps Hpre He H1 H2.
  - cbn [app commit_scan]. rewrite (commit_scan_parts_fatal ps pre p e post c Hps Hpre He H1 H2). reflexivity.
  - cbn [app commit_scan]. rewrite (commit_scan_parts_ok ps').
    + apply (IH _ t ps tpost pre p e post c eq_refl); try assumption.
      intros t0 ps0 q Hin Hq. apply (Hz t0 ps0 q); [right; exact Hin|exact Hq].
    + intros q Hq. apply (Hz t' ps' q); [left; reflexivity|exact Hq].
Qed.

Lemma commit_scan_parts_ok_inv ps : commit_scan_parts ps = ScanOk -> forall q, In q ps -> snd q = 0.
Proof.
  induction ps as [|[p e] ps IH]; intros H q Hq; [destruct Hq|].
  cbn [commit_scan_parts] in H. destruct (from_protocol e) as [c|] eqn:E.
  - destruct (c =? KC_GroupLoadInProgress); [discriminate|].
    destruct (c =? KC_NotCoordinatorForGroup); discriminate.
  - destruct Hq as [<-|Hq]; [|exact (IH H q Hq)]. cbn [snd].
    destruct (Z.eq_dec e 0) as [->|Hne]; [reflexivity|].
    destruct (from_protocol_nonzero e Hne) as [c [Hc _]]. rewrite Hc in E. discriminate.
Qed.

Theorem C11_commit_scan_ok_zero : forall tps, commit_scan tps = ScanOk -> codes_zero tps.
Proof.
  induction tps as [|[t ps] tps IH]; intros H t0 ps0 q Hin Hq; [destruct Hin|].
  cbn [commit_scan] in H. destruct (commit_scan_parts ps) eqn:E; try discriminate.
  destruct Hin as [Heq|Hin].
  - inversion Heq; subst. exact (commit_scan_parts_ok_inv _ E q Hq).
  - exact (IH H t0 ps0 q Hin Hq).
Qed.

(* the call: a fatal code in the coordinator's answer fails commit_loop with that code, at once *)
Theorem C11_commit_call_fails : forall f group req attempt s h s1 corr tps s2 c,
  get_group_coordinator group s = (Ok h, s1) ->
  send_receive dec_offset_commit_resp h req s1 = (Ok (corr, tps), s2) ->
  commit_scan tps = ScanFatal c ->
  commit_loop (S f) group req attempt s = (Err (EKafka c), s2).
Proof.
  intros f group req attempt s h s1 corr tps s2 c Hg Hsr Hscan.
  cbn [commit_loop]. unfold mbind at 1. rewrite Hg. unfold mbind at 1. rewrite Hsr. rewrite Hscan. reflexivity.
Qed.

(* the retryable codes are retried, but when the attempts are used up the call fails with that code *)
Theorem C11_commit_call_retry_exhausted : forall f group req attempt s h s1 corr tps s2 code reset,
  get_group_coordinator group s = (Ok h, s1) ->
  send_receive dec_offset_commit_resp h req s1 = (Ok (corr, tps), s2) ->
  commit_scan tps = ScanRetry code reset -> retry_max_attempts (cfg (cl s2)) <= attempt ->
  exists s3, commit_loop (S f) group req attempt s = (Err (EKafka code), s3).
Proof.
  intros f group req attempt s h s1 corr tps s2 code reset Hg Hsr Hscan Hmax.
  cbn [commit_loop]. unfold mbind at 1. rewrite Hg. unfold mbind at 1. rewrite Hsr. rewrite Hscan.
  unfold mbind at 1. unfold get_client at 1. unfold mbind at 1.
  destruct reset.
  - unfold set_cs, mbind, get_client, set_client. cbn [cfg cl].
    destruct (attempt <? retry_max_attempts (cfg (cl s2))) eqn:E; [lia|]. eexists. reflexivity.
  - unfold ret at 1. destruct (attempt <? retry_max_attempts (cfg (cl s2))) eqn:E; [lia|]. eexists. reflexivity.
Qed.

(* never success: over all histories (any number of retries), commit_loop returns Ok only right after an
   answer of the coordinator in which EVERY partition of every topic has code 0 *)
Theorem C11_commit_ok_clean : forall f group req attempt s s',
  commit_loop f group req attempt s = (Ok tt, s') ->
  exists h s1 corr tps,
    send_receive dec_offset_commit_resp h req s1 = (Ok (corr, tps), s') /\ codes_zero tps.
Proof.
  induction f as [|f IH]; intros group req attempt s s' H; [discriminate|].
  cbn [commit_loop] in H. unfold mbind at 1 in H.
  destruct (get_group_coordinator group s) as [[h|e|w] s1] eqn:Hg; try discriminate.
  unfold mbind at 1 in H.
  destruct (send_receive dec_offset_commit_resp h req s1) as [[[corr tps]|e|w] s2] eqn:Hsr; try discriminate.
  destruct (commit_scan tps) as [|code reset|c] eqn:Hscan.
  - inversion H; subst. exists h, s1, corr, tps. split; [exact Hsr|exact (C11_commit_scan_ok_zero _ Hscan)].
  - unfold mbind at 1 in H. unfold get_client at 1 in H. unfold mbind at 1 in H.
    destruct ((if reset then set_cs (remove_group_coordinator (cs (cl s2)) group) else ret tt) s2)
      as [[u|e|w] s3]; try discriminate.
    destruct (attempt <? retry_max_attempts (cfg (cl s2))); [|discriminate].
    exact (IH _ _ _ _ _ H).
  - discriminate.
Qed.

(* KafkaClient::commit_offsets: Ok means nothing had to be sent, or a clean answer *)
Theorem C11_commit_offsets_ok_clean : forall group os s s',
  commit_offsets group os s = (Ok tt, s') ->
  commit_tps (cs (cl s)) os [] = Some []
  \/ exists corr otps h s1 rc tps,
       commit_tps (cs (cl s)) os [] = Some otps /\
       send_receive dec_offset_commit_resp h
         (enc_offset_commit_req corr (client_id (cfg (cl s))) group
                                (commit_version (offset_storage (cfg (cl s)))) otps) s1 = (Ok (rc, tps), s')
       /\ codes_zero tps.
Proof.
  intros group os s s' H. unfold commit_offsets in H. unfold mbind at 1 in H. unfold get_client at 1 in H.
  destruct (offset_storage (cfg (cl s)) <? 0); [discriminate|].
  unfold mbind at 1 in H.
  destruct (next_corr s) as [[corr|e|w] s0] eqn:Hc; try discriminate.
  destruct (commit_tps (cs (cl s)) os []) as [[|x otps]|] eqn:Ht; try discriminate.
  - left. reflexivity.
  - right. unfold with_fuel in H.
    destruct (C11_commit_ok_clean _ _ _ _ _ _ H) as [h [s1 [rc [tps [Hsr Hz]]]]].
    exists corr, (x :: otps), h, s1, rc, tps. repeat split; assumption.
Qed.

Example C11_commit_ex :
  commit_scan [ ([x74], [ (0, 0); (1, 0) ]); ([x75], [ (0, 0); (1, 29); (2, 0) ]) ] = ScanFatal 29
  /\ commit_scan [ ([x74], [ (0, 0) ]); ([x75], [ (0, 77) ]) ] = ScanFatal (-1)
  /\ commit_scan [ ([x74], [ (0, 0) ]); ([x75], [ (0, 16) ]) ] = ScanRetry 16 true
  /\ commit_scan [ ([x74], [ (0, 0) ]); ([x75], [ (0, 0) ]) ] = ScanOk.
Proof. vm_compute. repeat split. Qed.

(* ================================================================================================ *)
(* Part E: fetch_group_offsets                                                                      *)
(* ================================================================================================ *)
Theorem C11_group_scan_parts_fatal : forall ps acc pre p post c,
  ps = pre ++ p :: post -> healthy get_offsets pre -> get_offsets p = inr c ->
  c <> KC_GroupLoadInProgress -> c <> KC_NotCoordinatorForGroup ->
  group_scan_parts ps acc = GFatal c.
Proof.
  intros ps acc pre. revert ps acc. induction pre as [|q pre IH]; intros ps acc p post c -> Hpre Hp H1 H2.
  - cbn [app group_scan_parts]. rewrite Hp. destruct (c =? KC_GroupLoadInProgress) eqn:E1; [lia|].
    destruct (c =? KC_NotCoordinatorForGroup) eqn:E2; [lia|]. reflexivity.
  - cbn [app group_scan_parts]. destruct (Hpre q (or_introl eq_refl)) as [v Hv]. rewrite Hv.
    apply (IH _ _ p post c eq_refl); try assumption. intros q' Hq'. apply Hpre. right. exact Hq'.
Qed.

Lemma group_scan_parts_healthy ps : healthy get_offsets ps -> forall acc, exists vs, group_scan_parts ps acc = GOk vs.
Proof.
  induction ps as [|q ps IH]; intros H acc; [exists acc; reflexivity|].
  cbn [group_scan_parts]. destruct (H q (or_introl eq_refl)) as [v Hv]. rewrite Hv.
  apply IH. intros q' Hq'. apply H. right. exact Hq'.
Qed.

(* any topic, any position, any code other than the two retryable ones and the documented 3 *)
Theorem C11_group_scan_fatal : forall tps m tpre t ps tpost pre p post c,
  tps = tpre ++ (t, ps) :: tpost -> (forall t' ps', In (t', ps') tpre -> healthy get_offsets ps') ->
  ps = pre ++ p :: post -> healthy get_offsets pre ->
  from_protocol (ofp_error p) = Some c -> c <> KC_UnknownTopicOrPartition ->
  c <> KC_GroupLoadInProgress -> c <> KC_NotCoordinatorForGroup ->
  group_scan tps m = inr c.
Proof.
  intros tps m tpre. revert tps m. induction tpre as [|[t' ps'] tpre IH];
    intros tps m t ps tpost pre p post c -> Htpre Hps Hpre Hc H3 H1 H2.
  - cbn [app group_scan].
    rewrite (C11_group_scan_parts_fatal ps [] pre p post c Hps Hpre (get_offsets_error p c Hc H3) H1 H2).
    reflexivity.
  - cbn [app group_scan].
    destruct (group_scan_parts_healthy ps' (Htpre t' ps' (or_introl eq_refl)) []) as [vs Hvs]. rewrite Hvs.
    apply (IH _ _ t ps tpost pre p post c eq_refl); try assumption.
    intros t0 ps0 Hin. apply (Htpre t0 ps0). right. exact Hin.
Qed.

Theorem C11_group_fetch_call_fails : forall f group req attempt s h s1 corr tps s2 c,
  get_group_coordinator group s = (Ok h, s1) ->
  send_receive dec_offset_fetch_resp h req s1 = (Ok (corr, tps), s2) ->
  group_scan tps [] = inr c ->
  group_fetch_loop (S f) group req attempt s = (Err (EKafka c), s2).
Proof.
  intros f group req attempt s h s1 corr tps s2 c Hg Hsr Hscan.
  cbn [group_fetch_loop]. unfold mbind at 1. rewrite Hg. unfold mbind at 1. rewrite Hsr. rewrite Hscan. reflexivity.
Qed.

(* a partition entry is "acceptable" iff its code is 0 or maps to the documented exception *)
Definition ofp_acceptable (p : offset_fetch_part) : Prop :=
  ofp_error p = 0 \/ from_protocol (ofp_error p) = Some KC_UnknownTopicOrPartition.

Lemma get_offsets_inl_acceptable p v : get_offsets p = inl v ->
  ofp_acceptable p /\ v = (ofp_partition p, if ofp_error p =? 0 then ofp_offset p else -1).
Proof.
  unfold get_offsets, ofp_acceptable. intros H. destruct (from_protocol (ofp_error p)) as [c|] eqn:E.
  - destruct (c =? KC_UnknownTopicOrPartition) eqn:E3; [|discriminate].
    assert (c = KC_UnknownTopicOrPartition) as -> by lia. split; [right; reflexivity|].
    destruct (ofp_error p =? 0) eqn:E0; [|inversion H; reflexivity].
    assert (ofp_error p = 0) as Hz by lia. rewrite Hz in E. discriminate.
  - destruct (Z.eq_dec (ofp_error p) 0) as [Hz|Hne].
    + split; [left; exact Hz|]. rewrite Hz. inversion H. reflexivity.
    + destruct (from_protocol_nonzero _ Hne) as [c [Hc _]]. rewrite Hc in E. discriminate.
Qed.

Lemma group_scan_parts_ok_inv ps : forall acc vs, group_scan_parts ps acc = GOk vs ->
  forall p, In p ps -> ofp_acceptable p.
Proof.
  induction ps as [|q ps IH]; intros acc vs H p Hin; [destruct Hin|].
  cbn [group_scan_parts] in H. destruct (get_offsets q) as [v|c] eqn:E.
  - destruct Hin as [<-|Hin]; [exact (proj1 (get_offsets_inl_acceptable q v E))|exact (IH _ _ H p Hin)].
  - destruct (c =? KC_GroupLoadInProgress); [discriminate|].
    destruct (c =? KC_NotCoordinatorForGroup); discriminate.
Qed.

Theorem C11_group_scan_ok_acceptable : forall tps m m',
  group_scan tps m = inl (inl m') -> forall t ps p, In (t, ps) tps -> In p ps -> ofp_acceptable p.
Proof.
  induction tps as [|[t ps] tps IH]; intros m m' H t0 ps0 p Hin Hp; [destruct Hin|].
  cbn [group_scan] in H. destruct (group_scan_parts ps []) as [vs|c r|c] eqn:E; try discriminate.
  destruct Hin as [Heq|Hin].
  - inversion Heq; subst. exact (group_scan_parts_ok_inv _ _ _ E p Hp).
  - exact (IH _ _ H t0 ps0 p Hin Hp).
Qed.

(* never data: over all histories, group_fetch_loop returns offsets only right after an answer in which
   every entry has code 0 or the documented "nothing committed" code *)
Theorem C11_group_fetch_ok_clean : forall f group req attempt s m s',
  group_fetch_loop f group req attempt s = (Ok m, s') ->
  exists h s1 corr tps,
    send_receive dec_offset_fetch_resp h req s1 = (Ok (corr, tps), s') /\ group_scan tps [] = inl (inl m)
    /\ forall t ps p, In (t, ps) tps -> In p ps -> ofp_acceptable p.
Proof.
  induction f as [|f IH]; intros group req attempt s m s' H; [discriminate|].
  cbn [group_fetch_loop] in H. unfold mbind at 1 in H.
  destruct (get_group_coordinator group s) as [[h|e|w] s1] eqn:Hg; try discriminate.
  unfold mbind at 1 in H.
  destruct (send_receive dec_offset_fetch_resp h req s1) as [[[corr tps]|e|w] s2] eqn:Hsr; try discriminate.
  destruct (group_scan tps []) as [[m1|[code reset]]|c] eqn:Hscan.
  - inversion H; subst. exists h, s1, corr, tps. split; [exact Hsr|]. split; [exact Hscan|].
    exact (C11_group_scan_ok_acceptable _ _ _ Hscan).
  - unfold mbind at 1 in H. unfold get_client at 1 in H. unfold mbind at 1 in H.
    destruct ((if reset then set_cs (remove_group_coordinator (cs (cl s2)) group) else ret tt) s2)
      as [[u|e|w] s3]; try discriminate.
    destruct (attempt <? retry_max_attempts (cfg (cl s2))); [|discriminate].
    exact (IH _ _ _ _ _ _ H).
  - discriminate.
Qed.

Theorem C11_fetch_group_offsets_ok_clean : forall group ps s m s',
  fetch_group_offsets group ps s = (Ok m, s') ->
  exists corr otps h s1 rc tps,
    group_fetch_tps (cs (cl s)) ps [] = Some otps /\
    send_receive dec_offset_fetch_resp h
      (enc_offset_fetch_req corr (client_id (cfg (cl s))) group
                            (fetch_version (offset_storage (cfg (cl s)))) otps) s1 = (Ok (rc, tps), s')
    /\ group_scan tps [] = inl (inl m)
    /\ forall t ps' p, In (t, ps') tps -> In p ps' -> ofp_acceptable p.
Proof.
  intros group ps s m s' H. unfold fetch_group_offsets in H. unfold mbind at 1 in H. unfold get_client at 1 in H.
  destruct (offset_storage (cfg (cl s)) <? 0); [discriminate|].
  unfold mbind at 1 in H.
  destruct (next_corr s) as [[corr|e|w] s0] eqn:Hc; try discriminate.
  destruct (group_fetch_tps (cs (cl s)) ps []) as [otps|] eqn:Ht; try discriminate.
  unfold with_fuel in H.
  destruct (C11_group_fetch_ok_clean _ _ _ _ _ _ _ H) as [h [s1 [rc [tps [Hsr [Hscan Hacc]]]]]].
  exists corr, otps, h, s1, rc, tps. repeat split; assumption.
Qed.

Example C11_group_fetch_ex :
  let e p o c := {| ofp_partition := p; ofp_offset := o; ofp_metadata := []; ofp_error := c |} in
  (* real brokers put offset -1 into an error entry: the code still wins *)
  group_scan [ ([x74], [ e 0 5 0; e 1 (-1) 30; e 2 (-1) 0 ]) ] [] = inr 30
  /\ group_scan [ ([x74], [ e 0 5 0 ]); ([x75], [ e 0 7 0; e 1 (-1) 77 ]) ] [] = inr (-1)
  /\ group_scan [ ([x74], [ e 0 5 0; e 1 (-1) 3; e 2 (-1) 0 ]) ] [] = inl (inl [ ([x74], [ (0, 5); (1, -1); (2, -1) ]) ])
  /\ group_scan [ ([x74], [ e 0 5 0; e 1 (-1) 14 ]) ] [] = inl (inr (14, false)).
Proof. vm_compute. repeat split. Qed.

(* ================================================================================================ *)
(* Part F: group coordinator lookup                                                                 *)
(* ================================================================================================ *)
(* a code in the GroupCoordinator answer fails the lookup with the matching kind; code 15 is the one
   that is retried, until the attempts are used up *)
Theorem C11_coordinator_fails : forall f group req attempt s r s1 code,
  group_lookup_attempt req s = (Ok r, s1) -> from_protocol (gc_error r) = Some code ->
  code <> KC_GroupCoordinatorNotAvailable \/ retry_max_attempts (cfg (cl s1)) <= attempt ->
  group_lookup_loop (S f) group req attempt s = (Err (EKafka code), s1).
Proof.
  intros f group req attempt s r s1 code Ha Hc Hor.
  cbn [group_lookup_loop]. unfold mbind at 1. rewrite Ha. rewrite Hc.
  destruct (code =? KC_GroupCoordinatorNotAvailable) eqn:E; [|reflexivity].
  destruct Hor as [Hne|Hmax]; [lia|].
  unfold mbind, get_client. destruct (attempt <? retry_max_attempts (cfg (cl s1))) eqn:E2; [lia|]. reflexivity.
Qed.

(* never success: over all histories, a coordinator is only ever returned (and cached) from an answer
   with code 0 *)
Theorem C11_coordinator_ok_clean : forall f group req attempt s h s',
  group_lookup_loop f group req attempt s = (Ok h, s') ->
  exists s0 r s1, group_lookup_attempt req s0 = (Ok r, s1) /\ gc_error r = 0
                  /\ h = fst (set_group_coordinator (cs (cl s1)) group r)
                  /\ cs (cl s') = snd (set_group_coordinator (cs (cl s1)) group r).
Proof.
  induction f as [|f IH]; intros group req attempt s h s' H; [discriminate|].
  cbn [group_lookup_loop] in H. unfold mbind at 1 in H.
  destruct (group_lookup_attempt req s) as [[r|e|w] s1] eqn:Ha; try discriminate.
  destruct (from_protocol (gc_error r)) as [code|] eqn:Hc.
  - destruct (code =? KC_GroupCoordinatorNotAvailable); [|discriminate].
    unfold mbind at 1 in H. unfold get_client at 1 in H.
    destruct (attempt <? retry_max_attempts (cfg (cl s1))); [|discriminate].
    exact (IH _ _ _ _ _ _ H).
  - exists s, r, s1. split; [exact Ha|]. split.
    + destruct (Z.eq_dec (gc_error r) 0) as [Hz|Hne]; [exact Hz|].
      destruct (from_protocol_nonzero _ Hne) as [c [Hc' _]]. rewrite Hc' in Hc. discriminate.
    + unfold mbind at 1 in H. unfold get_client at 1 in H.
      destruct (set_group_coordinator (cs (cl s1)) group r) as [h0 cs0] eqn:Hs.
      unfold mbind, set_cs, get_client, set_client, ret in H. inversion H; subst. split; reflexivity.
Qed.

Example C11_coordinator_ex :
  from_protocol 15 = Some KC_GroupCoordinatorNotAvailable /\ from_protocol 30 = Some 30
  /\ 30 <> KC_GroupCoordinatorNotAvailable /\ from_protocol 99 = Some KC_Unknown.
Proof. vm_compute. repeat split; discriminate. Qed.

(* ---- end-to-end non-vacuity for Parts D, E, F over a scripted network ------------------------------ *)
Definition xd_cfg : config :=
  let g := default_config [[x61]; [x62]] in
  {| client_id := client_id g; hosts := hosts g; compression := compression g;
     fetch_max_wait_time := fetch_max_wait_time g; fetch_min_bytes := fetch_min_bytes g;
     fetch_max_bytes_per_partition := fetch_max_bytes_per_partition g;
     fetch_crc_validation := fetch_crc_validation g; offset_storage := 1;
     retry_backoff_time := retry_backoff_time g; retry_max_attempts := 2; idle_timeout := idle_timeout g |}.
Definition xd_cs : cstate :=
  {| correlation := 0; brokers := brokers xa_cs; topic_partitions := topic_partitions xa_cs;
     group_coordinators := [ ([x67], 0) ] |}.
Definition xd_st (pooled : list bytes) (sc : list ev_out) : st :=
  {| script := sc; trace := []; anyq := []; hostq := []; fetchq := []; entryq := [];
     cl := {| cfg := xd_cfg; cs := xd_cs; conns := pooled |}; env := ex_codecs |}.
Definition xd_again (payload : bytes) : list ev_out :=      (* a further exchange on the pooled connection *)
  [OWrote 1000; OData (p_i32 (Z.of_nat (length payload))); OData payload].
Definition xd_commit_resp (e : Z) : bytes :=
  print_offset_commit {| wr_corr := 1; wr_topics := Some [ {| wt_name := Some [x74];
      wt_partitions := Some [ {| wcm_partition := 0; wcm_error := 0 |}; {| wcm_partition := 1; wcm_error := e |} ] |} ] |}.
Definition xd_fetch_resp (e : Z) : bytes :=
  print_offset_fetch {| wr_corr := 1; wr_topics := Some [ {| wt_name := Some [x74];
      wt_partitions := Some [ {| wof_partition := 0; wof_offset := 5; wof_metadata := Some []; wof_error := 0 |};
                              {| wof_partition := 1; wof_offset := -1; wof_metadata := Some []; wof_error := e |} ] |} ] |}.
Definition xd_os : list commit_offset :=
  [ {| co_topic := [x74]; co_partition := 0; co_offset := 5 |}; {| co_topic := [x74]; co_partition := 1; co_offset := 6 |} ].

Example C11_calls_ex :
  (* commit: fatal code after a healthy partition; unmapped code; retryable code until the attempts are used up *)
  fst (commit_offsets [x67] xd_os (xd_st [] (ex_script (xd_commit_resp 29)))) = Err (EKafka 29)
  /\ fst (commit_offsets [x67] xd_os (xd_st [] (ex_script (xd_commit_resp (-5))))) = Err (EKafka (-1))
  /\ fst (commit_offsets [x67] xd_os (xd_st [] (ex_script (xd_commit_resp 14) ++ xd_again (xd_commit_resp 14))))
     = Err (EKafka 14)
  /\ fst (commit_offsets [x67] xd_os (xd_st [] (ex_script (xd_commit_resp 14) ++ xd_again (xd_commit_resp 0))))
     = Ok tt
  (* group offset fetch: error entry with offset -1; the documented exception; a retry that then fails *)
  /\ fst (fetch_group_offsets [x67] [ ([x74], 0); ([x74], 1) ] (xd_st [] (ex_script (xd_fetch_resp 30))))
     = Err (EKafka 30)
  /\ fst (fetch_group_offsets [x67] [ ([x74], 0); ([x74], 1) ] (xd_st [] (ex_script (xd_fetch_resp 3))))
     = Ok [ ([x74], [ (0, 5); (1, -1) ]) ]
  /\ fst (fetch_group_offsets [x67] [ ([x74], 0); ([x74], 1) ]
            (xd_st [] (ex_script (xd_fetch_resp 14) ++ xd_again (xd_fetch_resp 12)))) = Err (EKafka 12)
  (* coordinator lookup for a group that is not cached, over the pooled connection *)
  /\ fst (get_group_coordinator [x68]
            (xd_st [[x61]] (xd_again (print_coordinator {| wc_corr := 1; wc_error := 30; wc_id := -1;
                                                           wc_host := Some []; wc_port := -1 |}))))
     = Err (EKafka 30)
  /\ fst (get_group_coordinator [x68]
            (xd_st [[x61]] (xd_again (print_coordinator {| wc_corr := 1; wc_error := 15; wc_id := -1;
                                                           wc_host := Some []; wc_port := -1 |})
                            ++ xd_again (print_coordinator {| wc_corr := 1; wc_error := 15; wc_id := -1;
                                                              wc_host := Some []; wc_port := -1 |}))))
     = Err (EKafka 15)
  /\ fst (get_group_coordinator [x68]
            (xd_st [[x61]] (xd_again (print_coordinator {| wc_corr := 1; wc_error := 0; wc_id := 2;
                                                           wc_host := Some [x62]; wc_port := 9092 |}))))
     = Ok [x62].
Proof. vm_compute. repeat split. Qed.

(* ================================================================================================ *)
(* Part G: KafkaClient::produce_messages (per-partition error, never an offset)                     *)
(* ================================================================================================ *)
Lemma produce_exchange_ext corr acks timeout : acks <> 0 -> forall reqs acc s cf s',
  produce_exchange corr acks timeout reqs acc s = (Ok cf, s') -> exists ext, cf = acc ++ ext.
Proof.
  intros Ha. induction reqs as [|[h tps] reqs IH]; intros acc s cf s' H.
  - cbn [produce_exchange] in H. destruct (acks =? 0) eqn:E; [lia|]. inversion H; subst.
    exists []. rewrite app_nil_r. reflexivity.
  - cbn [produce_exchange] in H. unfold mbind at 1 in H. unfold get_client at 1 in H.
    unfold mbind at 1 in H. unfold get_env at 1 in H. destruct (acks =? 0) eqn:E; [lia|].
    unfold mbind at 1 in H.
    destruct (send_receive dec_produce_resp h _ s) as [[[rc rtps]|e|w] s1]; try discriminate.
    destruct (IH _ _ _ _ H) as [ext Hext]. rewrite <- app_assoc in Hext. eexists. exact Hext.
Qed.

(* whichever broker's answer (the first of the remaining ones here; by induction any) carries a code for
   a partition, the confirmations returned by the call contain that partition with the matching error *)
Theorem C11_produce_exchange_reports : forall corr acks timeout h tps r acc s rc rtps s1 cf s' t ps pp c,
  acks <> 0 ->
  send_receive dec_produce_resp h
    (enc_produce_req (env s) corr (client_id (cfg (cl s))) acks timeout (compression (cfg (cl s))) tps) s
    = (Ok (rc, rtps), s1) ->
  produce_exchange corr acks timeout ((h, tps) :: r) acc s = (Ok cf, s') ->
  In (t, ps) rtps -> In pp ps -> from_protocol (pp_error pp) = Some c ->
  exists pcs, In (t, pcs) cf /\ In (pp_partition pp, inr c) pcs.
Proof.
  intros corr acks timeout h tps r acc s rc rtps s1 cf s' t ps pp c Ha Hsr H Ht Hp Hc.
  rewrite (produce_exchange_confirms corr acks timeout h tps r acc s rc rtps s1 Ha Hsr) in H.
  destruct (produce_exchange_ext corr acks timeout Ha _ _ _ _ _ H) as [ext ->].
  exists (map produce_confirm ps). split.
  - apply in_or_app. left. apply in_or_app. right.
    apply (in_map (fun '(t0, ps0) => (t0, map produce_confirm ps0)) rtps (t, ps) Ht).
  - rewrite <- (produce_confirm_error pp c Hc). apply in_map. exact Hp.
Qed.

Example C11_produce_ex :
  exists s', produce_exchange 1 (-1) 1000 [ ([x62], [ ([x74], [ (1, [ (None, Some [x68]) ]) ]) ]) ] []
                              (xb_st 19 (-1)) = (Ok [ ([x74], [ (1, inr 19) ]) ], s').
Proof. eexists. vm_compute. reflexivity. Qed.

(* ================================================================================================ *)
Check @C11_merge_fails.
Check @C11_offsets_exchange_fails.
Check C11_fetch_offsets_fails.
Check C11_list_offsets_fails.
Check C11_fetch_topic_offsets_fails.
Check @C11_offsets_exchange_ok_clean.
Check C11_fetch_offsets_ok_clean.
Check C11_send_all_confirms.
Check C11_send_fails.
Check C11_send_ok_confirmed.
Check C11_send_broker_error.
Check C11_poll_fails.
Check C11_poll_ok_clean.
Check C11_iterate_no_failed.
Check C11_consumer_poll_fails.
Check C11_commit_scan_fatal.
Check C11_commit_scan_ok_zero.
Check C11_commit_call_fails.
Check C11_commit_call_retry_exhausted.
Check C11_commit_ok_clean.
Check C11_commit_offsets_ok_clean.
Check C11_group_scan_parts_fatal.
Check C11_group_scan_fatal.
Check C11_group_fetch_call_fails.
Check C11_group_scan_ok_acceptable.
Check C11_group_fetch_ok_clean.
Check C11_fetch_group_offsets_ok_clean.
Check C11_coordinator_fails.
Check C11_coordinator_ok_clean.
Check C11_produce_exchange_reports.

Print Assumptions C11_merge_fails.
Print Assumptions C11_offsets_exchange_fails.
Print Assumptions C11_fetch_offsets_fails.
Print Assumptions C11_list_offsets_fails.
Print Assumptions C11_fetch_topic_offsets_fails.
Print Assumptions C11_offsets_exchange_ok_clean.
Print Assumptions C11_fetch_offsets_ok_clean.
Print Assumptions C11_send_all_confirms.
Print Assumptions C11_send_fails.
Print Assumptions C11_send_ok_confirmed.
Print Assumptions C11_send_broker_error.
Print Assumptions C11_poll_fails.
Print Assumptions C11_poll_ok_clean.
Print Assumptions C11_iterate_no_failed.
Print Assumptions C11_consumer_poll_fails.
Print Assumptions C11_commit_scan_fatal.
Print Assumptions C11_commit_scan_ok_zero.
Print Assumptions C11_commit_call_fails.
Print Assumptions C11_commit_call_retry_exhausted.
Print Assumptions C11_commit_ok_clean.
Print Assumptions C11_commit_offsets_ok_clean.
Print Assumptions C11_group_scan_parts_fatal.
Print Assumptions C11_group_scan_fatal.
Print Assumptions C11_group_fetch_call_fails.
Print Assumptions C11_group_scan_ok_acceptable.
Print Assumptions C11_group_fetch_ok_clean.
Print Assumptions C11_fetch_group_offsets_ok_clean.
Print Assumptions C11_coordinator_fails.
Print Assumptions C11_coordinator_ok_clean.
Print Assumptions C11_produce_exchange_reports.
