(* C12, third adequacy pass (round-five and round-six seeds).

   Seed C12-5 (key-less branch: `cntr % num_available()` used AS the partition id instead of as an index into
   `available_ids()`) is COVERED by Props C12_keyless (hence C12_rotation, C12_keyless_has_leader,
   C12_history_keyless, C12_rotation_interleaved*, C12_history_keyless_has_leader): with the model's key-less
   branch changed to `(wrap_s 32 (cntr mod ulen av), ...)` the statement of C12_keyless is false
   (available ids [0;2;3], cntr = 1: the changed model answers 1, the theorem demands nth 1 [0;2;3] = 2);
   its negation was proved on the changed model (scratch copy, mut5/neg/Neg5.v).

   Seed C12-6 (head guard `rec.partition != -1` instead of `rec.partition >= 0`) is COVERED by Props C12_keyed and
   C12_keyless (hence C12_history_keyed, C12_history_keyless, ...), all of which quantify over every p < 0: with
   the guard changed to `if negb (p =? -1)` both statements are false at p = -2 / p = -2147483648; the negations
   were proved on the changed model (mut6/neg/Neg6.v).  C12_explicit's statement survives that change (only its
   proof script stops compiling), as it should: explicit partitions are still kept.

   What this file adds (all about the UNCHANGED model):
   - C12_available_ids_increasing / C12_available_ids_nodup: the ids captured by State::new are strictly increasing,
     so "Permutation ... av" in C12_rotation / C12_rotation_interleaved really means "each exactly once".
   - C12_rotation_led_exactly_once and C12_rotation_interleaved_led_exactly_once: clause C1/C2 of the property in
     terms of the client's metadata ONLY (no mention of available_ids): a window of as many consecutive key-less
     records as the topic has led partitions contains no partition twice, and a partition is in it IF AND ONLY IF
     find_broker resolves it.  (Seed 5 breaks both directions of the iff and nothing else states the "only
     these, all of these" reading against find_broker.)
   - C12_send_all_reqs_any_negative / C12_send_all_any_negative: which negative number a record uses to say
     "no partition" is irrelevant for EVERYTHING send_all does: requests built, local rejection, counter, and the
     whole monadic call (seed 6 at the level of the public entry point; C12_partition_negative_alike is the
     single-call form).
   - C12_rotation_across_wrap: the positive complement of C12_wrap_refuted - when the number of available
     partitions divides 2^32 (1, 2, 4, ..., 64, ...) the rotation is a permutation for EVERY counter value, the
     2^32 wrap included.
   - examples pinning the seeds' inputs on states built by State::new: leaders [b,-,b,b], [-,b], [-,-,-,b,-,b];
     partitions -2, -1000, -2147483648.

   - C12_calls_counter / C12_calls_counter_closed: the item left open by C12ExtraB - a history of CALLS in which
     calls may fail (locally or during I/O): the counter afterwards is that of one partitioner pass over a prefix
     of every batch.

   Not done: the bytes of the produce request on the wire (the encoder is the business of other properties). *)
From Coq Require Import ZifyBool Sorting.Permutation Sorting.Sorted.
From KV Require Import Base.Prelude Base.Xxh32 Gen.Consts Model.Codecs Model.Requests Model.Responses
                       Model.ClientState Model.Net Model.Client Model.Producer
                       Proofs.C12Facts Proofs.C12Extra Proofs.C12ExtraB.
Ltac Zify.zify_post_hook ::= Z.div_mod_to_equations.

(* ---- State::new: the available ids are strictly increasing ---------------------------------------- *)
Lemma leaders_from_sorted s : forall ps i0,
  StronglySorted Z.lt (map fst (leaders_from s ps i0))
  /\ Forall (fun id => i0 <= id) (map fst (leaders_from s ps i0)).
Proof.
  induction ps as [|bref r IH]; intros i0.
  - cbn [leaders_from map]. split; constructor.
  - cbn [leaders_from]. destruct (IH (i0 + 1)) as [Hs Hf].
    assert (Hf' : Forall (fun id => i0 < id) (map fst (leaders_from s r (i0 + 1)))).
    { eapply Forall_impl; [|exact Hf]. cbv beta. intros x Hx. lia. }
    destruct (broker_of s bref) as [b|].
    + cbn [map fst]. split.
      * constructor; [exact Hs|exact Hf'].
      * constructor; [lia|]. eapply Forall_impl; [|exact Hf']. cbv beta. intros x Hx. lia.
    + split; [exact Hs|]. eapply Forall_impl; [|exact Hf']. cbv beta. intros x Hx. lia.
Qed.

Lemma sorted_lt_nodup (l : list Z) : StronglySorted Z.lt l -> NoDup l.
Proof.
  induction 1 as [|a l Hs IH Hf]; constructor; [|exact IH].
  intros Hin. rewrite Forall_forall in Hf. specialize (Hf a Hin). lia.
Qed.

Theorem C12_available_ids_increasing : forall s topic ps,
  assoc_bytes topic (producer_state s) = Some ps -> StronglySorted Z.lt (available_ids ps).
Proof.
  intros s topic ps Ha. rewrite producer_state_assoc in Ha.
  destruct (partitions_for s topic) as [l|]; [|discriminate].
  cbn [option_map] in Ha. injection Ha as Ha. subst ps. cbn [available_ids].
  apply leaders_from_sorted.
Qed.

Theorem C12_available_ids_nodup : forall s topic ps,
  assoc_bytes topic (producer_state s) = Some ps -> NoDup (available_ids ps).
Proof. intros s topic ps Ha. apply sorted_lt_nodup. exact (C12_available_ids_increasing s topic ps Ha). Qed.

(* leaders [b,-,b,b], [-,b], [-,-,-,b,-,b] (the patterns of seed C12-5's demonstration) *)
Definition NL := UNKNOWN_BROKER_INDEX.
Example C12_available_ids_increasing_ex :
  assoc_bytes (tag "t1") (producer_state (st_leaders [0; NL; 1; 0]))
  = Some {| available_ids := [0; 2; 3]; num_all := 4 |}
  /\ assoc_bytes (tag "t1") (producer_state (st_leaders [NL; 1]))
     = Some {| available_ids := [1]; num_all := 2 |}
  /\ assoc_bytes (tag "t1") (producer_state (st_leaders [NL; NL; NL; 0; NL; 1]))
     = Some {| available_ids := [3; 5]; num_all := 6 |}.
Proof. vm_compute. repeat split; reflexivity. Qed.

(* ---- C1/C2 against the client's metadata only ------------------------------------------------------ *)
(* A window of |led partitions| consecutive key-less records of one topic (not crossing the 2^32 wrap of the
   counter): no partition twice, and a partition is visited iff find_broker resolves it in the metadata the
   producer was built from. *)
Theorem C12_rotation_led_exactly_once : forall s cntr topic ps,
  assoc_bytes topic (producer_state s) = Some ps -> available_ids ps <> [] ->
  0 <= cntr -> cntr + ulen (available_ids ps) <= 4294967296 ->
  NoDup (fst (keyless_run (producer_state s) cntr topic (length (available_ids ps))))
  /\ (forall id, In id (fst (keyless_run (producer_state s) cntr topic (length (available_ids ps))))
                 <-> exists host, find_broker s topic id = Some host).
Proof.
  intros s cntr topic ps Ha Hne Hc Hb.
  pose proof (C12_rotation (producer_state s) cntr topic ps (available_ids ps) Ha eq_refl Hne Hc Hb) as Hperm.
  split.
  - apply (Permutation_NoDup (Permutation_sym Hperm)). exact (C12_available_ids_nodup s topic ps Ha).
  - intros id. rewrite <- (C12_available_iff_leader s topic ps id Ha). split; intros Hin.
    + exact (Permutation_in id Hperm Hin).
    + exact (Permutation_in id (Permutation_sym Hperm) Hin).
Qed.

(* leaders [b,-,b,b]: windows starting at counters 0, 1, 2 and just before the wrap *)
Example C12_rotation_led_exactly_once_ex :
  assoc_bytes (tag "t1") (producer_state (st_leaders [0; NL; 1; 0]))
  = Some {| available_ids := [0; 2; 3]; num_all := 4 |}
  /\ fst (keyless_run (producer_state (st_leaders [0; NL; 1; 0])) 0 (tag "t1") 6) = [0; 2; 3; 0; 2; 3]
  /\ fst (keyless_run (producer_state (st_leaders [0; NL; 1; 0])) 4294967293 (tag "t1") 3) = [2; 3; 0]
  /\ fst (keyless_run (producer_state (st_leaders [NL; 1])) 0 (tag "t1") 3) = [1; 1; 1]
  /\ fst (keyless_run (producer_state (st_leaders [NL; NL; NL; 0; NL; 1])) 0 (tag "t1") 4) = [3; 5; 3; 5]
  /\ find_broker (st_leaders [0; NL; 1; 0]) (tag "t1") 1 = None
  /\ find_broker (st_leaders [0; NL; 1; 0]) (tag "t1") 3 = Some (tag "h0:9092").
Proof. vm_compute. repeat split; reflexivity. Qed.

(* The same with arbitrary records in between (keyed, explicit, other topics' non-rotating records) and with ANY
   negative partition value on the key-less records: every window of |led partitions| consecutive rotating
   records of a history visits each led partition exactly once and nothing else. *)
Theorem C12_rotation_interleaved_led_exactly_once : forall s cntr recs t ps i,
  assoc_bytes t (producer_state s) = Some ps -> available_ids ps <> [] ->
  (forall r, In r recs -> rotates (producer_state s) r = true -> r_topic r = t) ->
  0 <= cntr -> cntr + rot_count (producer_state s) recs <= 4294967296 ->
  Z.of_nat (i + length (available_ids ps)) <= rot_count (producer_state s) recs ->
  NoDup (firstn (length (available_ids ps))
           (skipn i (rot_parts (producer_state s) recs (fst (assign (producer_state s) cntr recs)))))
  /\ (forall id,
        In id (firstn (length (available_ids ps))
                 (skipn i (rot_parts (producer_state s) recs (fst (assign (producer_state s) cntr recs)))))
        <-> exists host, find_broker s t id = Some host).
Proof.
  intros s cntr recs t ps i Ha Hne Hall Hc Hb Hi.
  pose proof (C12_rotation_interleaved (producer_state s) cntr recs t ps (available_ids ps) i
                Ha eq_refl Hne Hall Hc Hb Hi) as Hperm.
  split.
  - apply (Permutation_NoDup (Permutation_sym Hperm)). exact (C12_available_ids_nodup s t ps Ha).
  - intros id. rewrite <- (C12_available_iff_leader s t ps id Ha). split; intros Hin.
    + exact (Permutation_in id Hperm Hin).
    + exact (Permutation_in id (Permutation_sym Hperm) Hin).
Qed.

(* leaders [b,-,b,b]; key-less records written with -1, -2, -1000, i32::MIN, a keyed and an explicit record
   in between *)
Definition hx3 : list record :=
  [ ex_rec (tag "t1") (-1) [] (tag "a"); ex_rec (tag "t1") (-2) [] (tag "b");
    ex_rec (tag "t1") (-2) (tag "abc") (tag "c"); ex_rec (tag "t1") (-1000) [] (tag "d");
    ex_rec (tag "t1") 1 [] (tag "e"); ex_rec (tag "t1") (-2147483648) [] (tag "f");
    ex_rec (tag "t1") (-3) [] (tag "g") ].

Example C12_rotation_interleaved_led_exactly_once_ex :
  (forall r, In r hx3 -> rotates (producer_state (st_leaders [0; NL; 1; 0])) r = true -> r_topic r = tag "t1")
  /\ rot_count (producer_state (st_leaders [0; NL; 1; 0])) hx3 = 5
  /\ fst (assign (producer_state (st_leaders [0; NL; 1; 0])) 0 hx3) = [0; 2; 3; 3; 1; 0; 2]
  /\ rot_parts (producer_state (st_leaders [0; NL; 1; 0])) hx3
       (fst (assign (producer_state (st_leaders [0; NL; 1; 0])) 0 hx3)) = [0; 2; 3; 0; 2]
  /\ Z.of_nat (2 + length [0; 2; 3]) <= 5.
Proof.
  split.
  - intros r Hin Hr. cbn [hx3 In] in Hin.
    repeat (destruct Hin as [Hin|Hin]; [subst r; first [reflexivity | vm_compute in Hr; discriminate]|]).
    destruct Hin.
  - vm_compute. repeat split; try reflexivity; discriminate.
Qed.

(* ---- every negative partition value means "unspecified" ------------------------------------------- *)
(* one call of the partitioner: two negative values give the same answer, unless the record is left
   unassigned, in which case each keeps its own value (and the counter does not move) *)
Theorem C12_partition_negative_alike : forall parts cntr topic p p' key,
  p < 0 -> p' < 0 ->
  partition parts cntr topic p' key = partition parts cntr topic p key
  \/ (partition parts cntr topic p key = (p, cntr) /\ partition parts cntr topic p' key = (p', cntr)).
Proof.
  intros parts cntr topic p p' key Hp Hp'. unfold partition.
  destruct (0 <=? p) eqn:E; [lia|]. destruct (0 <=? p') eqn:E'; [lia|].
  destruct (assoc_bytes topic parts) as [ps|]; [|right; split; reflexivity].
  destruct key as [k|].
  - destruct (num_all ps =? 0); [right; split; reflexivity|left; reflexivity].
  - destruct (available_ids ps) as [|a av]; [right; split; reflexivity|left; reflexivity].
Qed.

(* ... and when the record can be assigned at all, the value does not matter *)
Theorem C12_partition_negative_alike_assigned : forall parts cntr topic p p' key ps,
  p < 0 -> p' < 0 -> assoc_bytes topic parts = Some ps ->
  match key with Some _ => num_all ps <> 0 | None => available_ids ps <> [] end ->
  partition parts cntr topic p' key = partition parts cntr topic p key.
Proof.
  intros parts cntr topic p p' key ps Hp Hp' Ha Hk. unfold partition.
  destruct (0 <=? p) eqn:E; [lia|]. destruct (0 <=? p') eqn:E'; [lia|].
  rewrite Ha. destruct key as [k|].
  - destruct (num_all ps =? 0) eqn:En; [lia|reflexivity].
  - destruct (available_ids ps) as [|a av]; [congruence|reflexivity].
Qed.

Example C12_partition_negative_alike_ex :
  xxh32 0 (tag "abc") mod 4 = 3
  /\ partition ex_parts 7 (tag "t1") (-1) (Some (tag "abc")) = (3, 7)
  /\ partition ex_parts 7 (tag "t1") (-2) (Some (tag "abc")) = (3, 7)
  /\ partition ex_parts 7 (tag "t1") (-2147483648) (Some (tag "abc")) = (3, 7)
  /\ partition ex_parts 7 (tag "t1") (-1) None = (2, 8)
  /\ partition ex_parts 7 (tag "t1") (-1000) None = (2, 8)
  /\ partition ex_parts 7 (tag "t1") (-2147483648) None = (2, 8)
  /\ partition ex_parts 7 (tag "nope") (-2) None = (-2, 7)
  /\ partition ex_parts 7 (tag "empty") (-5) (Some (tag "abc")) = (-5, 7).
Proof. vm_compute. repeat split; reflexivity. Qed.

(* the record with its partition field rewritten to the customary -1 when it is negative *)
Definition unspec (r : record) : record :=
  if r_partition r <? 0
  then {| r_topic := r_topic r; r_partition := -1; r_key := r_key r; r_value := r_value r |}
  else r.

(* send_all: requests built, local rejection and counter are the same as for the batch written with -1 *)
Theorem C12_send_all_reqs_any_negative : forall s parts recs cntr reqs,
  send_all_reqs s parts cntr recs reqs = send_all_reqs s parts cntr (map unspec recs) reqs.
Proof.
  intros s parts. induction recs as [|r rest IH]; intros cntr reqs; [reflexivity|].
  cbn [map send_all_reqs].
  assert (Ht : r_topic (unspec r) = r_topic r) by (unfold unspec; destruct (r_partition r <? 0); reflexivity).
  assert (Hk : r_key (unspec r) = r_key r) by (unfold unspec; destruct (r_partition r <? 0); reflexivity).
  assert (Hv : r_value (unspec r) = r_value r) by (unfold unspec; destruct (r_partition r <? 0); reflexivity).
  rewrite Ht, Hk, Hv.
  destruct (r_partition r <? 0) eqn:E.
  - assert (Hq : r_partition (unspec r) = -1) by (unfold unspec; rewrite E; reflexivity).
    rewrite Hq.
    destruct (C12_partition_negative_alike parts cntr (r_topic r) (r_partition r) (-1) (to_option (r_key r))
                ltac:(lia) ltac:(lia)) as [Heq|[H1 H2]].
    + rewrite Heq.
      destruct (partition parts cntr (r_topic r) (r_partition r) (to_option (r_key r))) as [q c'].
      destruct (find_broker s (r_topic r) q); [apply IH|reflexivity].
    + rewrite H1, H2.
      rewrite (find_broker_neg s (r_topic r) (r_partition r)) by lia.
      rewrite (find_broker_neg s (r_topic r) (-1)) by lia. reflexivity.
  - assert (Hq : r_partition (unspec r) = r_partition r) by (unfold unspec; rewrite E; reflexivity).
    rewrite Hq.
    destruct (partition parts cntr (r_topic r) (r_partition r) (to_option (r_key r))) as [q c'].
    destruct (find_broker s (r_topic r) q); [apply IH|reflexivity].
Qed.

(* ... hence the whole call of Producer::send_all (result, producer returned, bytes exchanged) *)
Theorem C12_send_all_any_negative : forall p recs s,
  producer_send_all p recs s = producer_send_all p (map unspec recs) s.
Proof.
  intros p recs s. unfold producer_send_all.
  apply mbind_ext. intros corr s1. apply mbind_ext. intros c s2.
  rewrite <- (C12_send_all_reqs_any_negative (cs c) (p_parts p) recs (p_cntr p) []). reflexivity.
Qed.

(* all partitions led: a keyed record written with -2 and key-less ones written with -1000 / i32::MIN are
   accepted and land where the same records written with -1 land; the counter moves alike *)
Example C12_send_all_reqs_any_negative_ex :
  map unspec hx3
  = [ ex_rec (tag "t1") (-1) [] (tag "a"); ex_rec (tag "t1") (-1) [] (tag "b");
      ex_rec (tag "t1") (-1) (tag "abc") (tag "c"); ex_rec (tag "t1") (-1) [] (tag "d");
      ex_rec (tag "t1") 1 [] (tag "e"); ex_rec (tag "t1") (-1) [] (tag "f");
      ex_rec (tag "t1") (-1) [] (tag "g") ]
  /\ fst (send_all_reqs (st_leaders [0; 1; 1; 0]) (producer_state (st_leaders [0; 1; 1; 0])) 0 hx3 []) <> None
  /\ snd (send_all_reqs (st_leaders [0; 1; 1; 0]) (producer_state (st_leaders [0; 1; 1; 0])) 0 hx3 []) = 5
  /\ fst (assign (producer_state (st_leaders [0; 1; 1; 0])) 0 hx3) = [0; 1; 3; 2; 1; 3; 0].
Proof. vm_compute. repeat split; try reflexivity; discriminate. Qed.

(* ---- the 2^32 wrap is harmless when |available| divides 2^32 ---------------------------------------- *)
Lemma mod_mod_divide (x i L : Z) :
  0 < L -> 4294967296 mod L = 0 -> ((x mod 4294967296) + i) mod L = (x + i) mod L.
Proof.
  intros HL Hd.
  assert (HM : 4294967296 = L * (4294967296 / L)) by (apply Z.div_exact; lia).
  pose proof (Z.mod_eq x 4294967296 ltac:(lia)) as Hx.
  replace (x mod 4294967296 + i) with (x + i + (- (4294967296 / L) * (x / 4294967296)) * L).
  - apply Z_mod_plus_full.
  - rewrite Hx. rewrite HM at 3. ring.
Qed.

Lemma keyless_run_fst_divides parts topic ps a av :
  assoc_bytes topic parts = Some ps -> available_ids ps = a :: av ->
  4294967296 mod ulen (a :: av) = 0 ->
  forall n c, 0 <= c ->
  fst (keyless_run parts c topic n)
  = map (fun i => nth (idx_at c (ulen (a :: av)) i) (a :: av) a) (seq 0 n).
Proof.
  intros Hassoc Hav Hd.
  assert (HL : 0 < ulen (a :: av)) by (unfold ulen; cbn [length]; lia).
  induction n as [|n IH]; intros c Hc; [reflexivity|].
  cbn [keyless_run].
  destruct (C12_keyless parts c topic (-1) ps a av ltac:(lia) Hassoc Hav Hc) as [Hp _].
  rewrite Hp.
  assert (Hrest : fst (keyless_run parts ((c + 1) mod 4294967296) topic n)
                  = map (fun i => nth (idx_at c (ulen (a :: av)) (S i)) (a :: av) a) (seq 0 n)).
  { rewrite IH by lia. apply map_ext. intros i. unfold idx_at. f_equal. f_equal.
    rewrite (mod_mod_divide (c + 1) (Z.of_nat i) _ HL Hd). f_equal. lia. }
  destruct (keyless_run parts ((c + 1) mod 4294967296) topic n) as [l c''].
  cbn [fst] in *. subst l.
  cbn [seq map]. f_equal.
  - unfold idx_at. f_equal. f_equal. f_equal. lia.
  - rewrite <- seq_shift, map_map. reflexivity.
Qed.

Theorem C12_rotation_across_wrap : forall parts cntr topic ps av,
  assoc_bytes topic parts = Some ps -> available_ids ps = av -> av <> [] ->
  4294967296 mod ulen av = 0 -> 0 <= cntr ->
  Permutation (fst (keyless_run parts cntr topic (length av))) av.
Proof.
  intros parts cntr topic ps av Ha Hav Hne Hd Hc.
  destruct av as [|a av']; [congruence|].
  rewrite (keyless_run_fst_divides parts topic ps a av' Ha Hav Hd (length (a :: av')) cntr Hc).
  remember (a :: av') as l eqn:El.
  assert (Hlen : (0 < length l)%nat) by (subst l; cbn [length]; lia).
  unfold ulen.
  rewrite <- (map_map (idx_at cntr (Z.of_nat (length l))) (fun i => nth i l a)).
  apply Permutation_sym.
  apply (@Permutation_trans _ _ (map (fun i => nth i l a) (seq 0 (length l)))).
  - rewrite map_nth_seq_id. apply Permutation_refl.
  - apply Permutation_map. apply idx_perm. exact Hlen.
Qed.

(* four available partitions (with holes) of eight; the window starts at 2^32 - 2 and crosses the wrap *)
Definition ex_parts8 : list (bytes * pparts) :=
  [ (tag "t8", {| available_ids := [0; 2; 3; 7]; num_all := 8 |}) ].
Example C12_rotation_across_wrap_ex :
  4294967296 mod ulen [0; 2; 3; 7] = 0
  /\ keyless_run ex_parts8 4294967294 (tag "t8") 4 = ([3; 7; 0; 2], 2)
  /\ keyless_run ex_parts8 4294967295 (tag "t8") 8 = ([7; 0; 2; 3; 7; 0; 2; 3], 7).
Proof. vm_compute. repeat split; reflexivity. Qed.

(* ---- a history of calls in which calls may FAIL ---------------------------------------------------- *)
(* What one call of Producer::send_all leaves behind, as far as the partitioner is concerned (snapshot and
   counter; the client handle is irrelevant here): either the call succeeded and p' is the producer it returned,
   or it failed (rejected locally, I/O error, ...) and the producer keeps the counter `cntr_after` - this is how
   Model/Dispatch.v threads the producer through "send_all" / "send" operations. *)
Definition call_outcome (p : producer) (recs : list record) (p' : producer) : Prop :=
  p_parts p' = p_parts p
  /\ ((exists s cf p1 s', producer_send_all p recs s = (Ok (cf, p1), s') /\ p_cntr p' = p_cntr p1)
      \/ (exists c, p_cntr p' = cntr_after p c recs)).

Inductive calls : producer -> list (list record) -> producer -> Prop :=
| calls_nil p p' : p_parts p' = p_parts p -> p_cntr p' = p_cntr p -> calls p [] p'
| calls_cons p b p1 bs p' : call_outcome p b p1 -> calls p1 bs p' -> calls p (b :: bs) p'.

(* After ANY chain of calls, failing ones included, the snapshot is unchanged and the counter is the one of a
   single partitioner pass over the concatenation of a PREFIX of every batch (the whole batch for a call that
   succeeded; C12_cntr_after_prefix says which prefix for a call that failed).  Hence all C12_history_* /
   C12_assign_* statements, instantiated with `concat prefs`, speak about the records the partitioner saw in
   the calls so far, whether those calls succeeded or not. *)
Theorem C12_calls_counter : forall p batches p',
  calls p batches p' ->
  p_parts p' = p_parts p
  /\ exists prefs, Forall2 (fun pre b => exists n, pre = firstn n b) prefs batches
       /\ p_cntr p' = snd (assign (p_parts p) (p_cntr p) (concat prefs)).
Proof.
  intros p batches p' H. induction H as [p p' Hparts Hc|p b p1 bs p' Hout Hrest IH].
  - split; [exact Hparts|]. exists []. split; [constructor|]. cbn [concat assign snd]. exact Hc.
  - destruct IH as [Hparts' [prefs [Hf Hc']]].
    destruct Hout as [Hparts1 Hcase].
    assert (Hpre : exists n, p_cntr p1 = snd (assign (p_parts p) (p_cntr p) (firstn n b))).
    { destruct Hcase as [[s [cf [p2 [s' [Hok Hc2]]]]]|[c Hc2]].
      - destruct (C12_send_all_counter p b s cf p2 s' Hok) as [_ [Hcnt _]].
        exists (length b). rewrite firstn_all. congruence.
      - destruct (C12_cntr_after_prefix p c b) as [n [_ [Hn _]]]. exists n. congruence. }
    destruct Hpre as [n Hn].
    split; [congruence|].
    exists (firstn n b :: prefs). split.
    + constructor; [exists n; reflexivity|exact Hf].
    + cbn [concat]. rewrite (proj2 (C12_assign_app _ _ _ _)). rewrite <- Hn, <- Hparts1. exact Hc'.
Qed.

(* in closed form: the counter has advanced by the number of rotating records the partitioner saw *)
Theorem C12_calls_counter_closed : forall p batches p',
  0 <= p_cntr p < 4294967296 -> calls p batches p' ->
  exists prefs, Forall2 (fun pre b => exists n, pre = firstn n b) prefs batches
    /\ p_cntr p' = (p_cntr p + rot_count (p_parts p) (concat prefs)) mod 4294967296.
Proof.
  intros p batches p' Hc H. destruct (C12_calls_counter p batches p' H) as [_ [prefs [Hf Hc']]].
  exists prefs. split; [exact Hf|]. rewrite Hc'. apply C12_assign_counter. exact Hc.
Qed.

(* three calls from counter 5: the first is rejected locally at its second record (unknown topic; one slot
   consumed), the second succeeds (two slots), the third is rejected at its first record (no slot) *)
Example C12_calls_counter_ex :
  let b1 := [kl "t2"; kl "nope"; kl "t2"] in
  let b2 := [kl "t2"; ex_rec (tag "t1") (-2) (tag "abc") (tag "v"); kl "t1"] in
  let b3 := [ex_rec (tag "t1") 9 [] (tag "v"); kl "t2"] in
  calls (xp 5 0) [b1; b2; b3] (xp 8 0)
  /\ snd (assign (producer_state ex_state) 5 (concat [firstn 2 b1; b2; firstn 1 b3])) = 8.
Proof.
  cbv zeta. split; [|vm_compute; reflexivity].
  eapply (calls_cons _ _ (xp 6 0)).
  { split; [reflexivity|]. right. exists (cl (xst [])). vm_compute. reflexivity. }
  eapply (calls_cons _ _ (xp 8 0)).
  { split; [reflexivity|]. left.
    exists (xst [OConn true; OWrote 1000; OConn true; OWrote 1000]).
    destruct (producer_send_all (xp 6 0)
                [kl "t2"; ex_rec (tag "t1") (-2) (tag "abc") (tag "v"); kl "t1"]
                (xst [OConn true; OWrote 1000; OConn true; OWrote 1000])) as [[[cf p1]|e|w] s'] eqn:E;
      vm_compute in E; try discriminate E.
    exists cf, p1, s'. split; [reflexivity|]. injection E as _ Hp1 _. rewrite <- Hp1. reflexivity. }
  eapply (calls_cons _ _ (xp 8 0)).
  { split; [reflexivity|]. right. exists (cl (xst [])). vm_compute. reflexivity. }
  apply calls_nil; reflexivity.
Qed.

Check C12_available_ids_increasing.
Check C12_calls_counter.
Check C12_calls_counter_closed.
Check C12_available_ids_nodup.
Check C12_rotation_led_exactly_once.
Check C12_rotation_interleaved_led_exactly_once.
Check C12_partition_negative_alike.
Check C12_partition_negative_alike_assigned.
Check C12_send_all_reqs_any_negative.
Check C12_send_all_any_negative.
Check C12_rotation_across_wrap.

Print Assumptions C12_available_ids_increasing.
Print Assumptions C12_available_ids_nodup.
Print Assumptions C12_rotation_led_exactly_once.
Print Assumptions C12_rotation_interleaved_led_exactly_once.
Print Assumptions C12_partition_negative_alike.
Print Assumptions C12_partition_negative_alike_assigned.
Print Assumptions C12_send_all_reqs_any_negative.
Print Assumptions C12_send_all_any_negative.
Print Assumptions C12_rotation_across_wrap.
Print Assumptions C12_calls_counter.
Print Assumptions C12_calls_counter_closed.
