(* C03, third adequacy pass (seeded changes C03-5 and C03-6).

   C03-5: `producer::Builder::with_partitioner` starts over from `Builder::with_defaults` and carries five of the six
   settings over - not the compression.  `with_compression(c)` followed by `with_partitioner(..)` then produces with
   the default codec (from_hosts) or the given client's codec (from_client).
   Where that code is in the model: `Producer.pbuilder_apply` (case PWithPartitioner), `Producer.pbuilder_new`,
   `Producer.producer_create`.  No theorem of Props/C03.v mentions any of them: all of them take "the configured
   codec" to be `compression (cfg (cl x))` of the state the produce call starts in, i.e. they start AFTER the builder.
   (Checked: with the change mirrored in a scratch copy - PWithPartitioner resets pb_compression to what pbuilder_new
   derived - Props/C03.v and everything below it recompile unchanged.  Props/C16.v has the builder-level facts, but
   they are not part of C03 and stop at the configuration.)
   Part 1 closes the gap: `configured_codec`, an independent reading of the builder calls ("the last with_compression
   wins, with_partitioner and all other calls leave it alone; no call: the given client's codec / NONE"), is what the
   created producer's client is configured with, and what every partition entry sent by `send_all` through the
   created producer reads back under at a strict broker.

   C03-6: `compression::snappy::compress` hands the plain set to `snap::raw::Encoder::compress` in blocks of 64 KiB and
   concatenates the results; every result is a complete raw stream with its own length preamble, so for sets above
   64 KiB the wrapper value is not a raw snappy stream.
   Where that code is in the model: the whole function is the oracle field `sn_compress` of `Requests.codecs`
   ("compression is external code: an explicit oracle"; the harness fills the table from the values observed on the
   wire).  Read that way the change is a different `cz`, every theorem of Props/C03.v quantifies over cz and stays
   provable; what the change falsifies is the HYPOTHESIS `inverts dz cz` of the read-back theorems.  Read the finer
   way (sn_compress = ONE call of snap's encoder, the crate function = `sn_compress cz buf` resp. the concatenation
   over the blocks) the mirrored change of `enc_partition_produce` falsifies C03_wrapped / C03_wrapped_exact /
   C03_request_sets (negation of C03_wrapped proved on the mutated scratch copy with a concrete witness).
   Part 2 is the nearest statement expressible on the unchanged model: the "independent decompressor" of the property
   is instantiated with the model of snap's raw decoder (Base/Snappy.v, the one the fetch path uses); a raw stream
   decodes only to an output of exactly the length its preamble announces, hence (i) a partition entry reads back at
   such a broker iff the oracle's output is a raw stream of the plain set, and then its preamble announces exactly the
   size of the plain set, and (ii) NO block-wise concatenation of raw streams is a raw stream of an input longer than
   one block: the seeded compressor fails the hypothesis for every plain set above 64 KiB, whatever the encoder.
   NB `inverts dz cz` itself cannot be instantiated with the raw decoder (it quantifies over all byte strings, also
   those longer than the 2^32-1 a preamble can announce: C03_inverts_raw_snappy_unsat), so the statements of Part 2
   take the round trip for the plain set at hand as their visible hypothesis. *)
From Coq Require Import ZifyBool Sorting.Permutation.
From KV Require Import Base.Prelude Base.Crc32 Base.Snappy Gen.Consts Model.Codecs Model.Requests Model.Responses
                       Model.ClientState Model.Net Model.Client Model.Producer.
From KV Require Import Spec.MsgSetSpec Spec.ReqGrammar.
From KV Require Import Proofs.BytesFacts Proofs.SnappyFacts Proofs.NetFacts Proofs.C03Facts Proofs.C09Facts
                       Proofs.C20Facts Proofs.C05Facts Proofs.C16Facts Proofs.C16Extra Proofs.C03Extra.
Ltac Zify.zify_post_hook ::= Z.div_mod_to_equations.

(* ================================================================================================== *)
(* Part 1: from the builder calls to the wire (seed C03-5)                                             *)
(* ================================================================================================== *)

(* the compression SETTING of a builder chain, read off the calls alone: the argument of the last
   with_compression; without one, what the source brings along (from_client: the client's; from_hosts: NONE) *)
Definition configured_codec (src : list bytes + client) (calls : list pbuilder_call) : Z :=
  fold_left (fun acc k => match k with PWithCompression x => x | _ => acc end) calls
            (match src with inr c => compression (cfg c) | inl _ => COMPRESSION_NONE end).

Lemma builder_codec_fold calls : forall b,
  pb_compression (fold_left pbuilder_apply calls b)
  = fold_left (fun acc k => match k with PWithCompression x => x | _ => acc end) calls (pb_compression b).
Proof.
  induction calls as [|k calls IH]; intros b; cbn [fold_left]; [reflexivity|].
  rewrite IH. f_equal. destruct k; reflexivity.
Qed.

(* the builder holds the setting, wherever with_partitioner (or any other call) stands in the chain *)
Theorem C03_builder_codec : forall src calls,
  pb_compression (fold_left pbuilder_apply calls (pbuilder_new src)) = configured_codec src calls.
Proof.
  intros src calls. rewrite builder_codec_fold. unfold configured_codec. f_equal; destruct src; reflexivity.
Qed.

(* the two shapes of a chain: with_compression c, then only calls that are about something else (with_partitioner
   among them): c.  No with_compression at all: what the source brings. *)
Theorem C03_configured_codec_last : forall src l1 c l2,
  Forall (fun k => psets_compression k = None) l2 ->
  configured_codec src (l1 ++ PWithCompression c :: l2) = c.
Proof.
  intros src l1 c l2 H. unfold configured_codec. rewrite fold_left_app. cbn [fold_left].
  generalize c. induction H as [|k l2 Hk Hl IH]; intros c0; cbn [fold_left]; [reflexivity|].
  destruct k; try apply IH. discriminate Hk.
Qed.

Theorem C03_configured_codec_none : forall src calls,
  Forall (fun k => psets_compression k = None) calls ->
  configured_codec src calls = match src with inr c => compression (cfg c) | inl _ => COMPRESSION_NONE end.
Proof.
  intros src calls H. unfold configured_codec.
  generalize (match src with inr c => compression (cfg c) | inl _ => COMPRESSION_NONE end).
  induction H as [|k l Hk Hl IH]; intros c0; cbn [fold_left]; [reflexivity|].
  destruct k; try apply IH. discriminate Hk.
Qed.

Example C03_configured_codec_ex :
  configured_codec (inl [tag "h:9092"]) [PWithCompression 1; PWithPartitioner] = 1
  /\ configured_codec (inl [tag "h:9092"]) [PWithAcks 0; PWithCompression 2; PWithClientId (tag "me"); PWithPartitioner; PWithIdle (3, 0)] = 2
  /\ configured_codec (inr (c20_client 1)) [PWithPartitioner] = compression (cfg (c20_client 1))
  /\ configured_codec (inl [tag "h:9092"]) [PWithPartitioner; PWithAcks 1] = 0
  /\ Forall (fun k => psets_compression k = None) [PWithClientId (tag "me"); PWithPartitioner; PWithIdle (3, 0)].
Proof. repeat split; try reflexivity. repeat constructor. Qed.

(* Builder::create: the client the producer is built around - the one every later send goes through - is configured
   with the setting, whatever else create does (it may fail in the metadata exchange; the setting is stored before);
   the compressors are untouched *)
Theorem C03_create_codec : forall src calls s r s',
  producer_create src calls s = (r, s') ->
  compression (cfg (cl s')) = configured_codec src calls /\ env s' = env s /\
  (forall p, r = Ok p -> p_client p = cl s' /\ compression (cfg (p_client p)) = configured_codec src calls).
Proof.
  intros src calls s r s' H.
  set (b := fold_left pbuilder_apply calls (pbuilder_new src)).
  set (g := cfg_set_producer (cfg (cl s)) b).
  assert (Hg : compression g = configured_codec src calls).
  { unfold g, b. rewrite <- C03_builder_codec. reflexivity. }
  destruct (C16_duration_total (pb_ack_timeout b)) as [[t Ht]|Ht].
  - rewrite (C16_producer_create_config src calls s t Ht) in H. fold b in H. fold g in H.
    set (s0 := st_with_client s {| cfg := g; cs := cs (cl s); conns := conns (cl s) |}) in *.
    destruct (good_producer_create_rest g (env s) Lnone src b t s0 r s' eq_refl eq_refl H) as (_ & C & Ev).
    change (cfg (cl s0)) with g in C. change (env s0) with (env s) in Ev.
    split; [rewrite C; exact Hg|]. split; [exact Ev|].
    intros p ->. destruct (producer_create_rest_client _ _ _ _ _ _ H) as (Hp & _).
    split; [exact Hp|]. rewrite Hp, C. exact Hg.
  - rewrite (C16_producer_create_invalid_duration src calls s Ht) in H. fold b in H. fold g in H.
    inversion H; subst. split; [exact Hg|]. split; [reflexivity|]. intros p Hp. discriminate Hp.
Qed.

(* ... and so is everything `send_all` sends through the created producer: every partition entry of every request of
   the call reads back, at a strict broker that knows the CONFIGURED codec (not the client's idea of it), as the
   records of the caller's batch for that partition, in order; every record has its entry.
   x is the state the call starts in: it holds the created client; anything may have happened in between as long as
   configuration and compressors are the ones create left (C16_*_wire: no operation changes them). *)
Theorem C03_created_producer_in_order : forall dz src calls s p s' recs x,
  producer_create src calls s = (Ok p, s') ->
  cfg (cl x) = cfg (cl s') -> env x = env s' ->
  let c := configured_codec src calls in
  let msgs := fst (partitioned (p_parts p) (p_cntr p) recs) in
  codec c -> inverts dz (env s) ->
  Forall (fun m => in_i32 (pq_partition m)) msgs -> ulen recs <= i32_max ->
  (c <> COMPRESSION_NONE -> Forall (fun m => fits (pmsg_of m)) msgs) ->
  in_i16 (p_acks p) -> in_i32 (p_ack_timeout p) ->
  produce_reqs (cs (cl x)) msgs [] <> None ->
  compression (cfg (cl x)) = c /\
  exists reqs' x',
    producer_send_all p recs x
      = (let+ cf := produce_exchange (fst (next_correlation_id (cs (cl x)))) (p_acks p) (p_ack_timeout p) reqs' [] in
         ret (cf, producer_set_cntr p (snd (partitioned (p_parts p) (p_cntr p) recs)))) x' /\
    env x' = env x /\ cfg (cl x') = cfg (cl x) /\
    (forall h tps bs, In (h, tps) reqs' ->
       enc_produce_req (env s) (fst (next_correlation_id (cs (cl x)))) (Net.client_id (cfg (cl x)))
                       (p_acks p) (p_ack_timeout p) (compression (cfg (cl x))) tps = Ok bs ->
       ulen bs <= i32_max ->
       exists topics,
         parse_frame (frame bs)
           = Some (produce_hdr (fst (next_correlation_id (cs (cl x)))) (Net.client_id (cfg (cl x))),
                   ProduceRequest (p_acks p) (p_ack_timeout p) topics) /\
         NoDup (map fst topics) /\
         forall t ps, In (t, ps) topics ->
           NoDup (map fst ps) /\
           forall q sb, In (q, sb) ps ->
             find_broker (cs (cl x)) t q = Some h /\ sent_to t q msgs <> [] /\
             broker_read dz c sb = Some (sent_to t q msgs)) /\
    (forall m, In m msgs ->
       exists h tps ps rs, find_broker (cs (cl x)) (pq_topic m) (pq_partition m) = Some h /\
                           In (h, tps) reqs' /\ In (pq_topic m, ps) tps /\ In (pq_partition m, rs) ps).
Proof.
  intros dz src calls s p s' recs x Hcreate Hcfg Henv c msgs Hc Hinv Hpart Hlen Hfit Ha Ht Hsome.
  destruct (C03_create_codec src calls s (Ok p) s' Hcreate) as (Hcodec & Hev & _).
  assert (Hx : compression (cfg (cl x)) = c) by (rewrite Hcfg; exact Hcodec).
  assert (Hex : env x = env s) by (rewrite Henv; exact Hev).
  split; [exact Hx|].
  destruct (C03_producer_in_order dz p recs x) as (_ & reqs' & x' & Hrun & He' & Hc' & Hwire & Hall).
  - rewrite Hx. exact Hc.
  - rewrite Hex. exact Hinv.
  - exact Hpart.
  - exact Hlen.
  - rewrite Hx. exact Hfit.
  - exact Ha.
  - exact Ht.
  - exact Hsome.
  - exists reqs', x'. split; [exact Hrun|]. split; [exact He'|]. split; [exact Hc'|]. split; [|exact Hall].
    intros h tps bs Hin Henc Hbs. specialize (Hwire h tps bs Hin). unfold call_payload in Hwire.
    rewrite Hex, Hx in Hwire. rewrite Hx in Henc. exact (Hwire Henc Hbs).
Qed.

(* non-vacuity, and the seeded chain itself: a SNAPPY setting followed by with_partitioner on a builder made from a
   GZIP client (exx_st of C03Extra: two brokers, the c20 metadata).  create stores SNAPPY; the request for h1 of the
   batch of C20Facts carries ONE snappy wrapper per partition that reads back as the records sent, and does NOT read
   as what a broker expecting the client's former codec (gzip) - or no codec - would accept. *)
Definition exc_calls : list pbuilder_call := [PWithCompression COMPRESSION_SNAPPY; PWithAcks 1; PWithPartitioner].
Definition exc_created : res producer * st := producer_create (inr (cl exx_st)) exc_calls exx_st.

Definition exc_p : producer := match exc_created with (Ok p, _) => p | _ => exx_producer end.
Definition exc_s : st := snd exc_created.

Example C03_created_ex :
  configured_codec (inr (cl exx_st)) exc_calls = COMPRESSION_SNAPPY
  /\ compression (cfg (cl exx_st)) = COMPRESSION_GZIP
  /\ exc_created = (Ok exc_p, exc_s)
  /\ compression (cfg (cl exc_s)) = COMPRESSION_SNAPPY /\ p_client exc_p = cl exc_s /\ env exc_s = exx_cz
  /\ in_i16 (p_acks exc_p) /\ in_i32 (p_ack_timeout exc_p)
  /\ (let msgs := fst (partitioned (p_parts exc_p) (p_cntr exc_p) c05_recs) in
      Forall (fun m => in_i32 (pq_partition m)) msgs /\ Forall (fun m => fits (pmsg_of m)) msgs
      /\ produce_reqs (cs (cl exc_s)) msgs [] <> None)
  /\ match call_payload exc_s 1 1000 [ (tag "t2", [ (0, [(Some (tag "k"), Some (tag "b")); (None, Some (tag "g"))]) ]);
                                       (tag "t1", [ (2, [(None, None)]) ]) ] with
     | Ok bs =>
         match parse_frame (frame bs) with
         | Some (_, ProduceRequest 1 1000 [ (_, [ (0, sb0) ]); (_, [ (2, sb2) ]) ]) =>
             broker_read exx_dz COMPRESSION_SNAPPY sb0 = Some (sent_to (tag "t2") 0 c20_batch)
             /\ broker_read exx_dz COMPRESSION_SNAPPY sb2 = Some (sent_to (tag "t1") 2 c20_batch)
             /\ broker_read exx_dz COMPRESSION_GZIP sb0 = None
             /\ broker_read exx_dz COMPRESSION_NONE sb0 <> Some (sent_to (tag "t2") 0 c20_batch)
         | _ => False
         end
     | _ => False
     end.
Proof.
  split; [reflexivity|]. split; [reflexivity|].
  split; [vm_compute; reflexivity|].
  split; [vm_compute; reflexivity|]. split; [vm_compute; reflexivity|]. split; [vm_compute; reflexivity|].
  split; [split; vm_compute; intros H; discriminate H|].
  split; [split; vm_compute; intros H; discriminate H|].
  split.
  { cbv zeta.
    split; [repeat constructor; vm_compute; intros H; discriminate H|].
    split; [repeat constructor; vm_compute; reflexivity|].
    vm_compute. intros H; discriminate H. }
  vm_compute. repeat split; try reflexivity. intros H; discriminate H.
Qed.

(* ================================================================================================== *)
(* Part 2: the independent decompressor is snap's raw decoder (seed C03-6)                              *)
(* ================================================================================================== *)

(* ---- a raw stream decodes only to an output of exactly the announced length ------------------------ *)

Lemma le_dec_nonneg bs : 0 <= le_dec bs.
Proof. induction bs as [|b r IH]; cbn [le_dec]; [lia|]. pose proof (Zb_range b). lia. Qed.

Lemma take_rev_len : forall l n acc a r,
  take_rev l n acc = Some (a, r) -> 0 <= n -> Z.of_nat (length a) = Z.of_nat (length acc) + n.
Proof.
  induction l as [|b l IH]; intros n acc a r H Hn; cbn [take_rev] in H; destruct (n <=? 0) eqn:E.
  - inversion H; subst. lia.
  - discriminate H.
  - inversion H; subst. lia.
  - apply IH in H; [|lia]. cbn [length] in H. lia.
Qed.

Lemma copy_slow_len : forall n off rout, length (copy_slow n off rout) = (n + length rout)%nat.
Proof.
  induction n as [|n IH]; intros off rout; cbn [copy_slow]; [reflexivity|]. rewrite IH. cbn [length]. lia.
Qed.

Lemma lit_len_pos tz r len r1 : lit_len tz r = Some (len, r1) -> 0 <= tz -> 1 <= len.
Proof.
  intros H Ht. unfold lit_len in H. cbv zeta in H.
  destruct (tz / 4 + 1 <=? 60) eqn:E.
  - inversion H; subst. lia.
  - destruct (split_exact (Z.to_nat (tz / 4 + 1 - 60)) r) as [[lb r']|]; [|discriminate H].
    inversion H; subst. pose proof (le_dec_nonneg lb). lia.
Qed.

Lemma copy_params_pos tz ntb len hi : copy_params tz = (ntb, len, hi) -> 0 <= tz -> 1 <= len /\ 0 <= hi.
Proof.
  intros H Ht. unfold copy_params in H. cbv zeta in H.
  assert (H4 : 0 <= tz / 4) by (apply Z.div_pos; lia).
  assert (H32 : 0 <= tz / 32) by (apply Z.div_pos; lia).
  assert (H8 : 0 <= (tz / 4) mod 8) by (apply Z.mod_pos_bound; lia).
  destruct (tz mod 4 =? 1); [|destruct (tz mod 4 =? 2)];
    pose proof (f_equal (fun x => snd (fst x)) H) as E1; pose proof (f_equal snd H) as E2;
    cbn [fst snd] in E1, E2; subst len hi; split; lia.
Qed.

Lemma decode_step_len dlen t r rout d r' rout' d' :
  decode_step dlen t r rout d = Some (r', rout', d') -> d = Z.of_nat (length rout) -> d' = Z.of_nat (length rout').
Proof.
  intros H Hd. unfold decode_step in H. cbv zeta in H. pose proof (Zb_range t) as Ht.
  destruct (Zb t mod 4 =? 0).
  - destruct (lit_len (Zb t) r) as [[len r1]|] eqn:El; [|discriminate H].
    destruct (dlen - d <? len); [discriminate H|].
    destruct (take_rev r1 len rout) as [[ro r2]|] eqn:Et; [|discriminate H].
    inversion H; subst. apply lit_len_pos in El; [|lia]. apply take_rev_len in Et; lia.
  - destruct (copy_params (Zb t)) as [[ntb len] hi] eqn:Ec. cbv beta iota zeta in H.
    destruct (split_exact ntb r) as [[tb r1]|]; [|discriminate H].
    destruct ((hi + le_dec tb =? 0) || (d <? hi + le_dec tb) || (dlen - d <? len)) eqn:Eb; [discriminate H|].
    inversion H; subst. apply copy_params_pos in Ec; [|lia].
    rewrite copy_back_slow by lia. rewrite copy_slow_len. lia.
Qed.

Lemma decode_tags_len : forall fuel dlen src rout d o,
  decode_tags fuel dlen src rout d = Some o -> d = Z.of_nat (length rout) -> Z.of_nat (length o) = dlen.
Proof.
  induction fuel as [|f IH]; intros dlen src rout d o H Hd; destruct src as [|t r]; cbn [decode_tags] in H.
  1,3: destruct (d =? dlen) eqn:E; [|discriminate H]; inversion H; subst o; rewrite rev_length; lia.
  - discriminate H.
  - destruct (decode_step dlen t r rout d) as [[[r' rout'] d']|] eqn:Es; [|discriminate H].
    eapply IH; [exact H|]. eapply decode_step_len; eassumption.
Qed.

(* snap::raw::Decoder: whatever it returns has exactly the length the preamble of its input announces *)
Theorem C03_snappy_announced : forall v x,
  snappy_raw_decompress v = Some x -> exists body, snappy_header v = Some (blen x, body).
Proof.
  intros v x H. unfold snappy_raw_decompress in H. destruct v as [|b v']; [discriminate H|].
  destruct (snappy_header (b :: v')) as [[dlen body]|]; [|discriminate H].
  apply decode_tags_len in H; [|reflexivity]. exists body. unfold blen. rewrite H. reflexivity.
Qed.

Lemma snappy_header_bound v n r : snappy_header v = Some (n, r) -> n <= u32_max.
Proof.
  unfold snappy_header. destruct (varint_go 5 0 0 v) as [[v0 r0]|]; [|discriminate].
  destruct (v0 >? u32_max) eqn:E; [discriminate|]. intros H. inversion H; subst. lia.
Qed.

Lemma varint_go_app : forall fuel sh acc l e v r,
  varint_go fuel sh acc l = Some (v, r) -> varint_go fuel sh acc (l ++ e) = Some (v, r ++ e).
Proof.
  induction fuel as [|f IH]; intros sh acc l e v r H; [cbn [varint_go] in H; discriminate H|].
  destruct l as [|b l]; [cbn [varint_go] in H; discriminate H|].
  rewrite <- app_comm_cons. rewrite varint_go_cons in *.
  destruct (Zb b <? 128).
  - inversion H; subst. reflexivity.
  - apply IH. exact H.
Qed.

Lemma snappy_header_app l e v r : snappy_header l = Some (v, r) -> snappy_header (l ++ e) = Some (v, r ++ e).
Proof.
  unfold snappy_header. destruct (varint_go 5 0 0 l) as [[v0 r0]|] eqn:E; [|discriminate].
  rewrite (varint_go_app _ _ _ _ e _ _ E). destruct (v0 >? u32_max); [discriminate|].
  intros H. inversion H; subst. reflexivity.
Qed.

(* a raw stream is not self-delimiting: with anything appended it decodes - if at all - to the length announced by
   the preamble it started with, never to more *)
Theorem C03_snappy_no_extension : forall v e x y,
  snappy_raw_decompress v = Some x -> snappy_raw_decompress (v ++ e) = Some y -> blen y = blen x.
Proof.
  intros v e x y Hx Hy.
  destruct (C03_snappy_announced v x Hx) as [b1 H1]. destruct (C03_snappy_announced (v ++ e) y Hy) as [b2 H2].
  rewrite (snappy_header_app v e _ _ H1) in H2. inversion H2. reflexivity.
Qed.

(* ---- the seeded compressor, for ANY block encoder ---------------------------------------------------- *)

(* src.chunks(n) *)
Fixpoint blocks (fuel n : nat) (l : bytes) : list bytes :=
  match fuel with
  | O => []
  | S f => match l with [] => [] | _ :: _ => firstn n l :: blocks f n (skipn n l) end
  end.

(* `for block in src.chunks(n) { buf += enc(block) }` *)
Definition blockwise (enc : bytes -> bytes) (n : nat) (src : bytes) : bytes :=
  concat (map enc (blocks (length src) n src)).

(* up to one block it is the encoder itself (the seeded change is invisible up to 64 KiB) ... *)
Theorem C03_snappy_blockwise_one_block : forall enc n src,
  src <> [] -> (length src <= n)%nat -> blockwise enc n src = enc src.
Proof.
  intros enc n src Hne Hn. unfold blockwise. destruct src as [|b s]; [contradiction Hne; reflexivity|].
  change (length (b :: s)) with (S (length s)). cbn [blocks].
  rewrite (firstn_all2 (b :: s)) by exact Hn. rewrite (skipn_all2 (b :: s)) by exact Hn.
  assert (E : blocks (length s) n [] = []) by (destruct (length s); reflexivity).
  rewrite E. cbn [map concat]. apply app_nil_r.
Qed.

(* ... and above one block NO encoder makes it a raw stream of the input: each block's stream is valid on its own
   (that is all the hypothesis asks of the encoder), the concatenation never decodes to the input *)
Theorem C03_snappy_blockwise_rejected : forall enc n src,
  (forall b, (length b <= n)%nat -> snappy_raw_decompress (enc b) = Some b) ->
  (n < length src)%nat ->
  snappy_raw_decompress (blockwise enc n src) <> Some src.
Proof.
  intros enc n src Henc Hn Hall. unfold blockwise in Hall.
  destruct src as [|b s]; [cbn [length] in Hn; lia|].
  change (length (b :: s)) with (S (length s)) in Hall. cbn [blocks map concat] in Hall.
  set (first := firstn n (b :: s)) in *.
  assert (Hlen : length first = n) by (unfold first; apply firstn_length_le; lia).
  pose proof (C03_snappy_no_extension _ _ _ _ (Henc first ltac:(lia)) Hall) as Hb.
  unfold blen in Hb. lia.
Qed.

(* with the block size of the patch *)
Corollary C03_snappy_seeded_compressor_rejected : forall enc src,
  (forall b, blen b <= 65536 -> snappy_raw_decompress (enc b) = Some b) ->
  65536 < blen src ->
  snappy_raw_decompress (blockwise enc (Z.to_nat 65536) src) <> Some src.
Proof.
  intros enc src Henc Hn. apply C03_snappy_blockwise_rejected.
  - intros b Hb. apply Henc. unfold blen. lia.
  - unfold blen in Hn. lia.
Qed.

(* non-vacuity: the literal-only encoder of Base/Snappy.v is a block encoder in the sense of the hypothesis; three
   blocks of four bytes are refused by the decoder, one block is the encoder's own stream *)
Example C03_snappy_blockwise_ex :
  (forall b, blen b <= 65536 -> snappy_raw_decompress (snappy_lit_compress b) = Some b)
  /\ snappy_raw_decompress (blockwise snappy_lit_compress 4 (tag "hello world")) = None
  /\ blockwise snappy_lit_compress 4 (tag "hello world")
     = snappy_lit_compress (tag "hell") ++ snappy_lit_compress (tag "o wo") ++ snappy_lit_compress (tag "rld")
  /\ snappy_raw_decompress (blockwise snappy_lit_compress 11 (tag "hello world")) = Some (tag "hello world").
Proof.
  split; [intros b Hb; apply snappy_lit_roundtrip; unfold blen, u32_max in *; lia|].
  vm_compute. repeat split; reflexivity.
Qed.

(* ---- the wire -------------------------------------------------------------------------------------------- *)

(* a broker whose snappy decompressor is snap's raw decoder *)
Definition raw_dz (c : Z) (v : bytes) : option bytes :=
  if c =? COMPRESSION_SNAPPY then snappy_raw_decompress v else None.

(* SNAPPY, one partition entry: if the compressor's output for THIS plain set is a raw stream of it, the entry is one
   wrapper (attribute 2, null key) that such a broker reads back as exactly the records, and the preamble of the
   wrapper value announces the size of the plain set: 26 + |key| + |value| per record *)
Theorem C03_snappy_entry_reads_back : forall cz recs p out plain,
  Forall fits recs -> enc_messages recs = Ok plain ->
  snappy_raw_decompress (sn_compress cz plain) = Some plain ->
  enc_partition_produce cz COMPRESSION_SNAPPY p recs = Ok out ->
  exists sb body,
    out = enc_i32 p ++ enc_i32 (blen sb) ++ sb /\
    spec_parse sb = Some [wrapper COMPRESSION_SNAPPY (sn_compress cz plain)] /\
    broker_read raw_dz COMPRESSION_SNAPPY sb = Some (map plain_raw recs) /\
    snappy_header (sn_compress cz plain) = Some (set_size recs, body).
Proof.
  intros cz recs p out plain Hfit Hplain Hrt Henc.
  destruct (C03_wrapped_exact cz COMPRESSION_SNAPPY recs p out (or_intror eq_refl) Hfit Henc)
    as (plain' & sb & Hp' & Hpp & Hw & Ho).
  rewrite Hplain in Hp'. apply Ok_inj in Hp'. subst plain'.
  change (COMPRESSION_SNAPPY =? COMPRESSION_GZIP) with false in Hw. cbv iota in Hw.
  destruct (C03_snappy_announced _ _ Hrt) as [body Hh].
  exists sb, body. split; [exact Ho|]. split; [exact Hw|]. split.
  - unfold broker_read. rewrite Hw. change (COMPRESSION_SNAPPY =? COMPRESSION_NONE) with false. cbv iota.
    unfold wrapper. cbn [rm_attr rm_key rm_value]. rewrite Z.eqb_refl. unfold raw_dz. rewrite Z.eqb_refl.
    rewrite Hrt. exact Hpp.
  - rewrite Hh. rewrite (C03_plain_length recs plain Hfit Hplain). reflexivity.
Qed.

(* the other direction: an entry that such a broker reads back at all carries a value whose preamble announces the
   size of what it decodes to; a value that is the block-wise concatenation over a plain set above one block is
   never read back as that plain set (C03_snappy_blockwise_rejected), whatever the block encoder *)
Theorem C03_snappy_entry_blockwise_unreadable : forall enc cz recs plain,
  enc_messages recs = Ok plain ->
  (forall b, blen b <= 65536 -> snappy_raw_decompress (enc b) = Some b) ->
  (forall x, sn_compress cz x = blockwise enc (Z.to_nat 65536) x) ->
  65536 < blen plain ->
  raw_dz COMPRESSION_SNAPPY (sn_compress cz plain) <> Some plain.
Proof.
  intros enc cz recs plain _ Henc Hcz Hbig. unfold raw_dz. rewrite Z.eqb_refl. rewrite Hcz.
  apply C03_snappy_seeded_compressor_rejected; assumption.
Qed.

(* `inverts` as it stands cannot be instantiated with the raw decoder: no compressor output can announce 2^32 bytes *)
Theorem C03_inverts_raw_snappy_unsat : forall dz cz,
  (forall v, dz COMPRESSION_SNAPPY v = snappy_raw_decompress v) -> ~ inverts dz cz.
Proof.
  intros dz cz Hdz [_ Hsn].
  assert (Hex : exists n : nat, Z.of_nat n = 4294967296) by (exists (Z.to_nat 4294967296); apply Z2Nat.id; lia).
  destruct Hex as [n Hn].
  specialize (Hsn (repeat x00 n)). rewrite Hdz in Hsn.
  destruct (C03_snappy_announced _ _ Hsn) as [body Hh]. apply snappy_header_bound in Hh.
  unfold blen in Hh. rewrite repeat_length in Hh. unfold u32_max in Hh. lia.
Qed.

(* non-vacuity of C03_snappy_entry_reads_back: the two-record batch of C03Facts under the literal-only compressor *)
Definition exc_cz : codecs :=
  {| gz_compress := fun b => b; sn_compress := snappy_lit_compress; gz_decompress := fun _ => None;
     debug_build := false |}.

Example C03_snappy_entry_ex :
  Forall fits ex_recs /\ enc_messages ex_recs = Ok ex_bytes
  /\ snappy_raw_decompress (sn_compress exc_cz ex_bytes) = Some ex_bytes
  /\ (exists out, enc_partition_produce exc_cz COMPRESSION_SNAPPY 3 ex_recs = Ok out)
  /\ snappy_header (sn_compress exc_cz ex_bytes) = Some (58, lit_chunks 58 ex_bytes)
  /\ set_size ex_recs = 58.
Proof.
  split; [exact ex_fits|]. split; [vm_compute; reflexivity|]. split; [vm_compute; reflexivity|].
  split; [eexists; vm_compute; reflexivity|]. split; vm_compute; reflexivity.
Qed.

Print Assumptions C03_builder_codec.
Print Assumptions C03_configured_codec_last.
Print Assumptions C03_configured_codec_none.
Print Assumptions C03_create_codec.
Print Assumptions C03_created_producer_in_order.
Print Assumptions C03_snappy_announced.
Print Assumptions C03_snappy_no_extension.
Print Assumptions C03_snappy_blockwise_one_block.
Print Assumptions C03_snappy_blockwise_rejected.
Print Assumptions C03_snappy_seeded_compressor_rejected.
Print Assumptions C03_snappy_entry_reads_back.
Print Assumptions C03_snappy_entry_blockwise_unreadable.
Print Assumptions C03_inverts_raw_snappy_unsat.
